(* Model/Validate.v - the validations of pipefunc that reject ill-formed pipelines and map requests (C12).

   WHAT IS MODELLED (the code after the C12 repairs, see known_findings.jsonl "fixed:" lines, and after the C05/C06
   repairs: internal shapes are constructed before the comparison with the previous run, and RunInfo.__post_init__
   writes the inputs and defaults first and run_info.json last)
     construction    PipeFunc.__init__: _maybe_mapspec (MapSpec.__post_init__ = MapSpec.build of C08),
                     _validate_names, _validate_mapspec                               -> validate_func
                     Pipeline.add (called once per function by Pipeline.__init__): validate_unique_output_names,
                     Pipeline._validate = validate_consistent_defaults, _validate_mapspec (output tuple equality,
                     validate_consistent_axes), cycle detection by networkx inside
                     _autogen_mapspec_axes -> topological_generations                -> add_checks
                     the whole construction, with the place of the first exception    -> construct_outcome
     map             prepare_run / RunInfo.create / RunInfo.__post_init__ / RunInfo.init_store as the interpretation
                     (Model/PrepareSteps.exec) of the step list `map_steps`, whose skeleton is compared on every
                     run with the list regenerated from the Python source by harness/translate_prepare.py; the
                     meaning of every check label is given by `chk`                   -> validate_map, map_model
   CONVENTIONS
     * values are strings; a function description `raw_func` carries the names AFTER renames
       (`rparams` = PipeFunc.parameters, `routs` = at_least_tuple(PipeFunc.output_name)).
     * an input value is a scalar, a (nested) list or an object ndarray; only kind, shape and a canonical
       rendering of the content matter for the validations.
     * a run folder is always given (run_folder is not None); `q_prev` describes the run_info.json found in it.
   NOT MODELLED: scopes (dotted names), renames (validated one-to-one by pipefunc; the harness passes the
     renamed names), resources, type annotations (C16), NestedPipeFunc, output_names / auto_subpipeline /
     fixed_indices (C11 / C06), SLURM executors, progress widgets, unreadable run_info.json, auto-generated MapSpecs (requests whose MapSpec inputs are produced by
     functions without MapSpec are outside the model).
   Definitions only; proofs are in Proofs/ValidateFacts.v. *)
From Verif Require Import Base.Prelude Base.StrOrd Base.StrUtil Base.Graph Model.MapSpec Model.PrepareSteps.

(* ---------- association lists ---------- *)
Definition alist := list (str * str).
Definition akeys {V} (l : list (str * V)) : list str := map fst l.
Definition ahas {V} (l : list (str * V)) (k : str) : bool :=
  match dict_get l k with Some _ => true | None => false end.
Definition intersects (a b : list str) : bool := existsb (fun x => mem_str x b) a.

Record raw_func := {
  rname : str;                 (* __name__ of the wrapped callable *)
  routs : list str;            (* at_least_tuple(output_name) *)
  rparams : list str;          (* PipeFunc.parameters (current names, signature order) *)
  rsigd : alist;               (* signature defaults, keyed by current name *)
  rdefs : alist;               (* PipeFunc(defaults=...) *)
  rbound : alist;              (* PipeFunc(bound=...) *)
  rspec : option mapspec;      (* the MapSpec as written (before MapSpec.__post_init__) *)
  rint : list nat              (* PipeFunc(internal_shape=...); [] = None *)
}.

(* PipeFunc.defaults *)
Definition fdefaults (f : raw_func) : alist :=
  flat_map (fun p => match dict_get (rdefs f) p with
                     | Some v => [(p, v)]
                     | None => match dict_get (rsigd f) p with
                               | Some v => if ahas (rbound f) p then [] else [(p, v)]
                               | None => []
                               end
                     end) (rparams f).

Definition input_names (m : mapspec) : list str := map aname (ins m).
Definition output_names (m : mapspec) : list str := map aname (outs m).

(* ================================================================== construction *)
(* PipeFunc._validate_names (the parts that do not concern renames / resources) *)
Definition validate_names (f : raw_func) : result unit :=
  if intersects (akeys (rdefs f)) (akeys (rbound f)) then Err ValueError          (* both default and bound *)
  else if negb (nodup_strb (routs f)) then Err ValueError                         (* duplicate in the output tuple *)
  else if intersects (rparams f) (routs f) then Err ValueError                    (* output named like a parameter *)
  else if negb (subset_str (akeys (rdefs f)) (rparams f)) then Err ValueError     (* _validate_update defaults *)
  else if negb (subset_str (akeys (rbound f)) (rparams f)) then Err ValueError    (* _validate_update bound *)
  else if negb (forallb is_ident (routs f)) then Err ValueError                   (* _validate_identifier *)
  else Ok tt.

(* PipeFunc._validate_mapspec *)
Definition validate_func_mapspec (f : raw_func) (m : mapspec) : result unit :=
  if negb (subset_str (input_names m) (rparams f)) then Err ValueError
  else if intersects (akeys (rbound f)) (input_names m) then Err ValueError
  else if negb (seteq_str (output_names m) (routs f)) then Err ValueError
  else Ok tt.

Definition raw_pairs (l : list aspec) : list (str * list (option str)) := map (fun a => (aname a, axes a)) l.

(* PipeFunc.__init__ *)
Definition validate_func (f : raw_func) : result unit :=
  match rspec f with
  | None => validate_names f
  | Some m =>
      do m' <- build (raw_pairs (ins m)) (raw_pairs (outs m));          (* MapSpec.from_string / __post_init__ *)
      do _ <- validate_names f;
      validate_func_mapspec f m'
  end.

Definition all_outs (fs : list raw_func) : list str := flat_map routs fs.

(* validate_unique_output_names(f.output_name, self.output_to_func) *)
Definition unique_new (fs : list raw_func) (f : raw_func) : result unit :=
  if intersects (routs f) (all_outs fs) then Err ValueError else Ok tt.

(* validate_consistent_defaults: the first default seen for a name is the reference *)
Definition default_entries (fs : list raw_func) : alist :=
  flat_map (fun f => filter (fun kv => negb (ahas (rbound f) (fst kv)) && negb (mem_str (fst kv) (all_outs fs)))
                            (fdefaults f)) fs.
Fixpoint check_defaults (seen : alist) (l : alist) : result unit :=
  match l with
  | [] => Ok tt
  | (k, v) :: t =>
      match dict_get seen k with
      | None => check_defaults (seen ++ [(k, v)]) t
      | Some v' => if str_eqb v v' then check_defaults seen t else Err ValueError
      end
  end.
Definition consistent_defaults (fs : list raw_func) : result unit := check_defaults [] (default_entries fs).

(* Pipeline._validate_mapspec, first loop: at_least_tuple(f.output_name) != f.mapspec.output_names *)
Definition mapspec_outputs_match (fs : list raw_func) : result unit :=
  if forallb (fun f => match rspec f with
                       | Some m => list_eqb str_eqb (routs f) (output_names m)
                       | None => true end) fs
  then Ok tt else Err ValueError.

(* validate_consistent_axes *)
Definition specs_of (fs : list raw_func) : list mapspec :=
  flat_map (fun f => match rspec f with Some m => [m] | None => [] end) fs.
Definition all_aspecs (specs : list mapspec) : list aspec := flat_map (fun m => ins m ++ outs m) specs.
Definition specs_named (n : str) (l : list aspec) : list aspec := filter (fun a => str_eqb (aname a) n) l.
(* axes: dict[int, str]; `if i in axes and axes[i] != axis: raise`, else `axes[i] = axis` *)
Fixpoint merge_pos (cur ax : list (option str)) : result (list (option str)) :=
  match cur, ax with
  | c :: cs, a :: as_ =>
      match c, a with
      | Some x, Some y => if str_eqb x y then do r <- merge_pos cs as_; Ok (Some x :: r) else Err ValueError
      | Some x, None => do r <- merge_pos cs as_; Ok (Some x :: r)
      | None, y => do r <- merge_pos cs as_; Ok (y :: r)
      end
  | _, _ => Ok cur
  end.
Definition check_name_axes (l : list aspec) : result unit :=
  match l with
  | [] => Ok tt
  | a :: t =>
      if negb (forallb (fun b => rank b =? rank a) t) then Err ValueError           (* same length *)
      else do _ <- fold_left (fun acc b => do cur <- acc; merge_pos cur (axes b)) l (Ok (repeat None (rank a)));
           Ok tt
  end.
Definition validate_consistent_axes (specs : list mapspec) : result unit :=
  let all := all_aspecs specs in
  do _ <- mapM (fun n => check_name_axes (specs_named n all)) (StrOrd.dedup (map aname all));
  Ok tt.

(* Pipeline.graph restricted to function nodes (root-argument / _Bound nodes have no incoming edges) *)
Definition fid (f : raw_func) : str := hd [] (routs f).
Definition producer (fs : list raw_func) (n : str) : option raw_func := find (fun g => mem_str n (routs g)) fs.
Definition fdeps (fs : list raw_func) (f : raw_func) : list str :=
  flat_map (fun p => if ahas (rbound f) p then []
                     else match producer fs p with Some g => [fid g] | None => [] end) (rparams f).
Definition fgraph (fs : list raw_func) : graph :=
  {| nodes := map fid fs;
     edges := flat_map (fun f => map (fun n => (n, fid f)) (StrOrd.dedup (fdeps fs f))) fs |}.

(* Pipeline.add(f) when `fs` are already in the pipeline *)
Definition add_checks (fs : list raw_func) (f : raw_func) : result unit :=
  do _ <- unique_new fs f;
  let fs' := fs ++ [f] in
  do _ <- consistent_defaults fs';                          (* Pipeline._validate *)
  do _ <- mapspec_outputs_match fs';
  do _ <- validate_consistent_axes (specs_of fs');
  if acyclicb (fgraph fs') then Ok tt else Err OtherError.  (* networkx.NetworkXUnfeasible *)

(* validate_unique_outputs (C12 repair): no output name is produced by two functions *)
Definition unique_outputs (fs : list raw_func) : result unit :=
  if nodup_strb (all_outs fs) then Ok tt else Err ValueError.
(* what building the cached property Pipeline.graph and Pipeline.topological_generations re-validates.  It is the
   first thing run / map do, and the only pipeline-level validation that sees a change made through the API of a
   MEMBER function (PipeFunc.update_* clears the pipeline's caches but does not call Pipeline._validate) *)
Definition graph_checks (fs : list raw_func) : result unit :=
  do _ <- unique_outputs fs;
  do _ <- consistent_defaults fs;
  if acyclicb (fgraph fs) then Ok tt else Err OtherError.
(* Pipeline._validate (after every pipeline-level mutation) *)
Definition pipeline_validate (fs : list raw_func) : result unit :=
  do _ <- unique_outputs fs;
  do _ <- consistent_defaults fs;
  do _ <- mapspec_outputs_match fs;
  do _ <- validate_consistent_axes (specs_of fs);
  if acyclicb (fgraph fs) then Ok tt else Err OtherError.

(* where the first exception is raised: in the constructor of the i-th PipeFunc (all PipeFuncs are created first)
   or in the i-th Pipeline.add *)
Inductive stage := SFunc | SAdd.
Fixpoint first_err {A} (f : A -> result unit) (l : list A) (i : nat) : option (nat * err) :=
  match l with
  | [] => None
  | x :: t => match f x with Err e => Some (i, e) | Ok _ => first_err f t (S i) end
  end.
Fixpoint adds (done todo : list raw_func) (i : nat) : option (nat * err) :=
  match todo with
  | [] => None
  | f :: t => match add_checks done f with
              | Err e => Some (i, e)
              | Ok _ => adds (done ++ [f]) t (S i)
              end
  end.
Definition construct_outcome (rs : list raw_func) : option (stage * nat * err) :=
  match first_err validate_func rs 0 with
  | Some (i, e) => Some (SFunc, i, e)
  | None => match adds [] rs 0 with Some (i, e) => Some (SAdd, i, e) | None => None end
  end.
Definition validate_construct (rs : list raw_func) : result unit :=
  match construct_outcome rs with None => Ok tt | Some (_, _, e) => Err e end.

(* ================================================================== map *)
Inductive ival :=
| IScalar (v : str)
| IList (sh : list nat) (d : str)      (* (nested) list: nesting shape, canonical content *)
| INd (sh : list nat) (d : str).       (* object ndarray *)
Inductive storage_arg := StStr (n : str) | StDict (d : alist).

(* the finished (or interrupted) run that wrote run_info.json *)
Record prev_info := {
  pv_inputs : list (str * ival);
  pv_internal : shape_dict;              (* its internal_shapes ARGUMENT *)
  pv_funcs : option (list raw_func)      (* its pipeline, when it differs from the current one (None = the same) *)
}.

Record mreq := {
  q_funcs : list raw_func;               (* the constructed pipeline (functions as they are when map is called) *)
  q_inputs : list (str * ival);
  q_internal : shape_dict;               (* internal_shapes argument; [] = None *)
  q_storage : storage_arg;
  q_registry : list str;                 (* keys of pipefunc.map.storage_registry *)
  q_parallel : bool;
  q_executor : bool;                     (* an executor is passed *)
  q_cleanup : bool;
  q_prev : option prev_info              (* run_info.json exists in the run folder *)
}.

(* array_shape *)
Definition array_shape (v : ival) : result (list nat) :=
  match v with
  | IScalar _ => Err TypeError
  | IList sh _ => Ok (firstn 1 sh)
  | INd sh _ => Ok sh
  end.

Definition root_args (fs : list raw_func) : list str :=
  StrOrd.dedup (flat_map (fun f => filter (fun p => negb (ahas (rbound f) p) && negb (mem_str p (all_outs fs)))
                                          (rparams f)) fs).
(* Pipeline.defaults *)
Definition pipeline_defaults (fs : list raw_func) : alist :=
  flat_map (fun f => filter (fun kv => negb (ahas (rbound f) (fst kv)) && negb (mem_str (fst kv) (all_outs fs)))
                            (fdefaults f)) fs.

(* _validate_complete_inputs *)
Definition validate_complete_inputs (q : mreq) : result unit :=
  let roots := root_args (q_funcs q) in
  let given := akeys (q_inputs q) ++ akeys (pipeline_defaults (q_funcs q)) in
  if negb (subset_str roots given) then Err ValueError              (* Missing inputs *)
  else if negb (subset_str given roots) then Err ValueError         (* Got extra inputs *)
  else Ok tt.

(* _check_inputs; mapspec_dimensions: the last ArraySpec of a name wins *)
Definition spec_names (fs : list raw_func) : list str := map aname (all_aspecs (specs_of fs)).
Definition declared_rank (fs : list raw_func) (n : str) : nat :=
  match specs_named n (rev (all_aspecs (specs_of fs))) with a :: _ => rank a | [] => 0 end.
Definition is_list (v : ival) : bool := match v with IList _ _ => true | _ => false end.
Definition check_inputs (q : mreq) : result unit :=
  if existsb (fun kv => (1 <? declared_rank (q_funcs q) (fst kv)) && is_list (snd kv)) (q_inputs q)
  then Err ValueError else Ok tt.

(* _construct_internal_shapes: `if f.output_name in internal_shapes: continue` can only hit for a str output_name *)
Definition construct_internal (user : shape_dict) (fs : list raw_func) : shape_dict :=
  fold_left (fun acc f =>
               match rint f with
               | [] => acc
               | sh => match routs f with
                       | [o] => if ahas acc o then acc else dict_set acc o sh
                       | os => fold_left (fun a o => dict_set a o sh) os acc
                       end
               end) fs user.

(* sorted_functions: generations of the graph, flattened *)
Definition sorted_funcs (fs : list raw_func) : list raw_func :=
  match topo_generations (fgraph fs) with
  | Some ls => flat_map (fun n => filter (fun f => str_eqb (fid f) n) fs) (concat ls)
  | None => fs
  end.

(* map_shapes *)
Definition shapes_t := list (str * list nat).
Definition input_value (q : mreq) (p : str) : option ival :=
  match dict_get (q_inputs q) p with
  | Some v => Some v
  | None => option_map IScalar (dict_get (pipeline_defaults (q_funcs q)) p)
  end.
Definition root_shapes (q : mreq) : result shapes_t :=
  mapM (fun p => match input_value q p with
                 | Some v => do sh <- array_shape v; Ok (p, sh)
                 | None => Err KeyError
                 end)
       (filter (fun p => mem_str p (spec_names (q_funcs q))) (root_args (q_funcs q))).
Definition restrict {V} (d : list (str * V)) (names : list str) : list (str * V) :=
  flat_map (fun n => match dict_get d n with Some v => [(n, v)] | None => [] end) names.
Definition func_shape (internal : shape_dict) (shapes : shapes_t) (f : raw_func) : result shapes_t :=
  match rspec f with
  | None => Ok shapes
  | Some m =>
      do r <- shape m (restrict shapes (input_names m)) (restrict internal (output_names m));
      Ok (fold_left (fun acc o => dict_set acc o (fst r)) (routs f) shapes)
  end.
Definition map_shapes (q : mreq) (internal : shape_dict) : result shapes_t :=
  do roots <- root_shapes q;
  fold_left (fun acc f => do sh <- acc; func_shape internal sh f) (sorted_funcs (q_funcs q)) (Ok roots).

(* storage: get_storage_class / _storage_class / _validate_storage *)
Definition get_storage_class (q : mreq) (n : str) : result unit :=
  if mem_str n (q_registry q) then Ok tt else Err ValueError.
Definition storage_key (f : raw_func) : str := join (s ",") (routs f).       (* tuple output names as "a,b" *)
Definition is_mapped (f : raw_func) : bool :=
  match rspec f with Some m => match ins m with [] => false | _ => true end | None => false end.
Definition mapped_funcs (q : mreq) : list raw_func := filter is_mapped (q_funcs q).
Definition resolve_storage (d : alist) (f : raw_func) : option str :=
  match dict_get d (storage_key f) with Some n => Some n | None => dict_get d [] end.
Definition all_ok {A} (f : A -> result unit) (l : list A) : result unit := do _ <- mapM f l; Ok tt.

(* _compare_to_previous_run_info *)
Definition dict_eqb {V} (eqb : V -> V -> bool) (a b : list (str * V)) : bool :=
  (length a =? length b)
  && forallb (fun kv => match dict_get b (fst kv) with Some v => eqb (snd kv) v | None => false end) a.
Definition shape_eqb := list_eqb Nat.eqb.
(* _is_equal: Some b = comparable with result b; None = the comparison raises (np.array_equal(equal_nan=True) on
   object arrays of equal shape raises TypeError, which equal_dicts turns into "could not compare") *)
Definition is_equal (a b : ival) : option bool :=
  match a, b with
  | IScalar x, IScalar y => Some (str_eqb x y)
  | IList s1 d1, IList s2 d2 => Some (shape_eqb s1 s2 && str_eqb d1 d2)
  | INd s1 _, INd s2 _ => if shape_eqb s1 s2 then None else Some false   (* array_equal compares the shapes first *)
  | _, _ => Some false
  end.
Inductive cmp := CTrue | CFalse | CNone.
Fixpoint cmp_values (l old : list (str * ival)) (errs : bool) : cmp :=
  match l with
  | [] => if errs then CNone else CTrue
  | (k, v1) :: t =>
      match dict_get old k with
      | None => CFalse
      | Some v2 => match is_equal v1 v2 with
                   | Some true => cmp_values t old errs
                   | Some false => CFalse
                   | None => cmp_values t old true
                   end
      end
  end.
Definition equal_inputs (new old : list (str * ival)) : cmp :=
  if negb (length new =? length old) then CFalse
  else if negb (seteq_str (akeys new) (akeys old)) then CFalse
  else cmp_values new old false.
(* the request that wrote run_info.json *)
Definition prev_funcs (q : mreq) (p : prev_info) : list raw_func :=
  match pv_funcs p with Some fs => fs | None => q_funcs q end.
Definition prev_req (q : mreq) (p : prev_info) : mreq :=
  {| q_funcs := prev_funcs q p; q_inputs := pv_inputs p; q_internal := pv_internal p; q_storage := q_storage q;
     q_registry := q_registry q; q_parallel := q_parallel q; q_executor := q_executor q;
     q_cleanup := q_cleanup q; q_prev := None |}.
Definition old_internal (q : mreq) (p : prev_info) : shape_dict :=
  construct_internal (pv_internal p) (prev_funcs q p).
Definition old_shapes (q : mreq) (p : prev_info) : result shapes_t :=
  map_shapes (prev_req q p) (old_internal q p).
(* ---------- the exact order of Pipeline.sorted_functions ----------
   (needed only where two DIFFERENT pipelines are compared: mapspecs_as_strings of the current pipeline against the
   list stored by the previous run; everywhere else the order inside a generation is irrelevant and `sorted_funcs`
   is used).  Mirrors Pipeline.graph (node and edge insertion order: functions in listing order, each followed by
   the new argument / _Bound / producer nodes of its parameters), the placeholder edges for nullary functions, and
   networkx.topological_generations (a node joins the next generation when its last predecessor is processed). *)
Inductive gnode := NF (i : nat) | NArg (a : str) | NBound (a : str) (i : nat) | NPh (i : nat).
Definition gnode_eqb (x y : gnode) : bool :=
  match x, y with
  | NF i, NF j => i =? j
  | NArg a, NArg b => str_eqb a b
  | NBound a i, NBound b j => str_eqb a b && (i =? j)
  | NPh i, NPh j => i =? j
  | _, _ => false
  end.
Definition gstate := (list gnode * list (gnode * gnode))%type.
Definition g_add_node (st : gstate) (n : gnode) : gstate :=
  if existsb (gnode_eqb n) (fst st) then st else (fst st ++ [n], snd st).
Definition g_add_edge (st : gstate) (u v : gnode) : gstate :=
  let st := g_add_node (g_add_node st u) v in
  if existsb (fun e => gnode_eqb (fst e) u && gnode_eqb (snd e) v) (snd st) then st else (fst st, snd st ++ [(u, v)]).
Fixpoint index_where {A} (p : A -> bool) (l : list A) : option nat :=
  match l with [] => None | x :: t => if p x then Some 0 else option_map S (index_where p t) end.
Definition nx_graph (fs : list raw_func) : gstate :=
  let with_funcs :=
    fold_left (fun st (fi : nat * raw_func) =>
                 let (i, f) := fi in
                 fold_left (fun st arg =>
                              if ahas (rbound f) arg then g_add_edge st (NBound arg i) (NF i)
                              else match index_where (fun g => mem_str arg (routs g)) fs with
                                   | Some j => g_add_edge st (NF j) (NF i)
                                   | None => g_add_edge (g_add_node st (NArg arg)) (NArg arg) (NF i)
                                   end)
                           (rparams f) (g_add_node st (NF i)))
              (combine (seq 0 (length fs)) fs) ([], []) in
  let nullary := filter (fun fi : nat * raw_func => match rparams (snd fi) with [] => true | _ => false end)
                        (combine (seq 0 (length fs)) fs) in
  fold_left (fun st (kf : nat * (nat * raw_func)) => g_add_edge st (NPh (fst kf)) (NF (fst (snd kf))))
            (combine (seq 0 (length nullary)) nullary) with_funcs.
Definition g_succs (es : list (gnode * gnode)) (n : gnode) : list gnode :=
  map snd (filter (fun e => gnode_eqb (fst e) n) es).
Definition g_indeg (es : list (gnode * gnode)) (n : gnode) : nat :=
  length (filter (fun e => gnode_eqb (snd e) n) es).
(* one generation: process the nodes in order, the children in edge order *)
Fixpoint nx_dec (deg : list (gnode * nat)) (c : gnode) : list (gnode * nat) * bool :=
  match deg with
  | [] => ([], false)
  | (n, d) :: t =>
      if gnode_eqb n c then ((n, pred d) :: t, Nat.eqb d 1)
      else let (t', z) := nx_dec t c in ((n, d) :: t', z)
  end.
Definition nx_step (es : list (gnode * gnode)) (this : list gnode) (deg : list (gnode * nat))
  : list gnode * list (gnode * nat) :=
  fold_left (fun acc node =>
               fold_left (fun acc child =>
                            let (deg', zero) := nx_dec (snd acc) child in
                            (if zero then fst acc ++ [child] else fst acc, deg'))
                         (g_succs es node) acc)
            this ([], deg).
Fixpoint nx_gens (fuel : nat) (es : list (gnode * gnode)) (this : list gnode) (deg : list (gnode * nat))
  : list (list gnode) :=
  match fuel, this with
  | _, [] => []
  | O, _ => []
  | S n, _ => let (next, deg') := nx_step es this deg in this :: nx_gens n es next deg'
  end.
Definition nx_sorted_funcs (fs : list raw_func) : list raw_func :=
  let (ns, es) := nx_graph fs in
  let gens := nx_gens (S (length ns)) es (filter (fun n => g_indeg es n =? 0) ns)
                      (map (fun n => (n, g_indeg es n)) ns) in
  flat_map (fun n => match n with NF i => match nth_error fs i with Some f => [f] | None => [] end | _ => [] end)
           (concat gens).

(* pipeline.mapspecs_as_strings: the MapSpecs of sorted_functions, printed (printing is injective on well-formed
   printable specs: C08_print_injective) *)
Definition sorted_specs (fs : list raw_func) : list mapspec := specs_of (nx_sorted_funcs fs).

(* ---------- the meaning of the check labels (labels as produced by harness/translate_prepare.py) ---------- *)
Definition L_exec := s "raise ValueError@prepare_run?if not parallel and executor".
Definition L_subpipeline := s "pipeline.subpipeline@prepare_run?if auto_subpipeline or output_names is not None".
Definition L_slurm := s "validate_slurm_executor@prepare_run".
Definition L_inputs := s "_validate_complete_inputs@prepare_run".
Definition L_axes := s "validate_consistent_axes@prepare_run".
Definition L_fixed := s "_validate_fixed_indices@prepare_run".
Definition L_st_names := s "get_storage_class@_validate_storage?for".
Definition L_st_str := s "get_storage_class@_storage_class?if isinstance(storage, str)".
Definition L_st_missing := s "raise ValueError@_storage_class?if name is None".
Definition L_st_dict := s "get_storage_class@_storage_class".
Definition L_prev_load := s "raise ValueError@_compare_to_previous_run_info?except".
Definition L_prev_internal := s "raise ValueError@_compare_to_previous_run_info?if internal_shapes != old.internal_shapes".
Definition L_prev_mapspecs :=
  s "raise ValueError@_compare_to_previous_run_info?if pipeline.mapspecs_as_strings != old.mapspecs_as_strings".
Definition L_prev_map_shapes := s "map_shapes@_compare_to_previous_run_info".
Definition L_prev_shapes := s "raise ValueError@_compare_to_previous_run_info?if shapes != old.shapes".
Definition L_prev_inputs := s "raise ValueError@_compare_to_previous_run_info?if not equal_inputs".
Definition L_prev_defaults := s "raise ValueError@_compare_to_previous_run_info?if not equal_defaults".
Definition L_check_inputs := s "_check_inputs@RunInfo.create".
Definition L_map_shapes := s "map_shapes@RunInfo.create".
Definition E_cleanup := s "_cleanup_run_folder@RunInfo.create".
Definition E_dump_info := s "self.dump@RunInfo.__post_init__".
Definition E_dump_inputs := s "dump@RunInfo.__post_init__?for".
Definition E_dump_defaults := s "dump@RunInfo.__post_init__".
Definition E_init_arrays := s "_init_arrays@RunInfo.init_store?for&if mapspec.inputs".
Definition R_load := s "RunInfo.load@_compare_to_previous_run_info?try".

Definition c_exec (q : mreq) : result unit :=
  if negb (q_parallel q) && q_executor q then Err ValueError else Ok tt.
(* _validate_complete_inputs reads pipeline.topological_generations.root_args: the graph is (re)built first *)
Definition c_inputs (q : mreq) : result unit :=
  do _ <- graph_checks (q_funcs q); validate_complete_inputs q.
Definition c_axes (q : mreq) : result unit := validate_consistent_axes (specs_of (q_funcs q)).
Definition storage_names (q : mreq) : list str :=
  match q_storage q with StStr n => [n] | StDict d => map snd d end.
Definition c_st_names (q : mreq) : result unit := all_ok (get_storage_class q) (storage_names q).
Definition c_st_str (q : mreq) : result unit :=
  match q_storage q with
  | StStr n => match mapped_funcs q with [] => Ok tt | _ => get_storage_class q n end
  | StDict _ => Ok tt
  end.
Definition c_st_missing (q : mreq) : result unit :=
  match q_storage q with
  | StStr _ => Ok tt
  | StDict d => if forallb (fun f => match resolve_storage d f with Some _ => true | None => false end)
                           (mapped_funcs q) then Ok tt else Err ValueError
  end.
Definition c_st_dict (q : mreq) : result unit :=
  match q_storage q with
  | StStr _ => Ok tt
  | StDict d => all_ok (fun f => match resolve_storage d f with Some n => get_storage_class q n | None => Ok tt end)
                       (mapped_funcs q)
  end.
(* the checks of _compare_to_previous_run_info are guarded by `RunInfo.path(run_folder).is_file()` *)
Definition with_prev (q : mreq) (k : prev_info -> result unit) : result unit :=
  match q_prev q with None => Ok tt | Some p => k p end.
(* RunInfo.create constructs the internal shapes (argument + PipeFunc.internal_shape) BEFORE comparing with the
   previous run, and the comparison uses the constructed ones *)
Definition new_internal (q : mreq) : shape_dict := construct_internal (q_internal q) (q_funcs q).
Definition c_prev_internal (q : mreq) : result unit :=
  with_prev q (fun p => if dict_eqb shape_eqb (new_internal q) (old_internal q p)
                           && dict_eqb shape_eqb (old_internal q p) (new_internal q)
                        then Ok tt else Err ValueError).
Definition c_prev_map_shapes (q : mreq) : result unit :=
  with_prev q (fun _ => do _ <- map_shapes q (new_internal q); Ok tt).
Definition c_prev_shapes (q : mreq) : result unit :=
  with_prev q (fun p => match map_shapes q (new_internal q), old_shapes q p with
                        | Ok new, Ok old => if dict_eqb shape_eqb new old && dict_eqb shape_eqb old new
                                            then Ok tt else Err ValueError
                        | _, _ => Ok tt      (* not reached: the previous check failed / the old run was valid *)
                        end).
Definition c_prev_inputs (q : mreq) : result unit :=
  with_prev q (fun p => match equal_inputs (q_inputs q) (pv_inputs p) with CFalse => Err ValueError | _ => Ok tt end).
Definition c_prev_mapspecs (q : mreq) : result unit :=
  with_prev q (fun p => if list_eqb mapspec_eqb (sorted_specs (q_funcs q)) (sorted_specs (prev_funcs q p))
                        then Ok tt else Err ValueError).
(* reached only when the inputs compared equal (an incomparable pair of inputs makes the function return early) *)
Definition c_prev_defaults (q : mreq) : result unit :=
  with_prev q (fun p => match equal_inputs (q_inputs q) (pv_inputs p) with
                        | CTrue => if dict_eqb str_eqb (pipeline_defaults (q_funcs q)) (pipeline_defaults (prev_funcs q p))
                                      && dict_eqb str_eqb (pipeline_defaults (prev_funcs q p)) (pipeline_defaults (q_funcs q))
                                   then Ok tt else Err ValueError
                        | _ => Ok tt
                        end).
Definition c_map_shapes (q : mreq) : result unit :=
  do _ <- map_shapes q (construct_internal (q_internal q) (q_funcs q)); Ok tt.

Definition chk (l : str) (q : mreq) : result unit :=
  if str_eqb l L_exec then c_exec q
  else if str_eqb l L_inputs then c_inputs q
  else if str_eqb l L_axes then c_axes q
  else if str_eqb l L_st_names then c_st_names q
  else if str_eqb l L_st_str then c_st_str q
  else if str_eqb l L_st_missing then c_st_missing q
  else if str_eqb l L_st_dict then c_st_dict q
  else if str_eqb l L_prev_internal then c_prev_internal q
  else if str_eqb l L_prev_mapspecs then c_prev_mapspecs q
  else if str_eqb l L_prev_map_shapes then c_prev_map_shapes q
  else if str_eqb l L_prev_shapes then c_prev_shapes q
  else if str_eqb l L_prev_inputs then c_prev_inputs q
  else if str_eqb l L_prev_defaults then c_prev_defaults q
  else if str_eqb l L_check_inputs then check_inputs q
  else if str_eqb l L_map_shapes then c_map_shapes q
  else Ok tt.   (* L_subpipeline, L_slurm, L_fixed, L_prev_load: cannot fail for the requests of this model
                   (see NOT MODELLED) *)

(* the skeleton (non-Pure steps) of prepare_run, in the code's order *)
Definition storage_checks : list step := [Check L_st_str; Check L_st_missing; Check L_st_dict].
Definition steps_head : list step :=
  [Check L_exec; Check L_subpipeline; Check L_slurm; Check L_inputs; Check L_axes; Check L_fixed;
   Check L_st_names] ++ storage_checks.
Definition steps_prev : list step :=
  [Rewrite R_load; Check L_prev_load; Check L_prev_internal; Check L_prev_mapspecs; Check L_prev_map_shapes;
   Check L_prev_shapes; Check L_prev_inputs; Check L_prev_defaults].
Definition steps_tail : list step :=
  [Check L_check_inputs; Check L_map_shapes; Effect E_dump_inputs; Effect E_dump_defaults; Effect E_dump_info]
  ++ storage_checks ++ [Effect E_init_arrays].
Definition map_steps (cleanup : bool) : list step :=
  steps_head ++ (if cleanup then [Effect E_cleanup] else steps_prev) ++ steps_tail.

(* the skeleton of Pipeline.run up to the first invocation of user code (`self._run`, classified as the Effect of
   this path): everything that can reject the call - unknown output, MapSpec pipeline, output given as keyword,
   and since the repair the missing / unused keywords (Pipe.run_precheck) - comes before it *)
Definition run_entry_steps : list step :=
  [Check (s "self.func_dependencies@Pipeline.run");
   Check (s "self.root_args@Pipeline.run?if (p := (self.mapspec_names & set(self.func_dependencies(output_name))))");
   Check (s "raise RuntimeError@Pipeline.run?if (p := (self.mapspec_names & set(self.func_dependencies(output_name))))");
   Check (s "raise ValueError@Pipeline.run?if output_name in kwargs");
   Check (s "raise ValueError@Pipeline._validate_run_kwargs.visit?for&else arg in func._bound or arg in flat_scope_kwargs&else arg in self.output_to_func&if arg not in self.defaults");
   Check (s "raise UnusedParametersError@Pipeline._validate_run_kwargs?if (unused := (flat_scope_kwargs.keys() - used))");
   Effect (s "self._run@Pipeline.run")].

(* validate_map: the checks in the code's order; Ok = prepare_run returns *)
Definition validate_map (q : mreq) : result unit := first_failure chk (map_steps (q_cleanup q)) q.

(* Pipeline.map = prepare_run, then the generations are run.  Observed: outcome of prepare_run, the effects on the
   run folder performed by prepare_run, the calls of user functions. *)
Section MapModel.
  Variable user_calls : mreq -> list str.          (* the call log of the run proper (C01's business) *)
  Definition map_model (q : mreq) : result unit * list str * list str :=
    let '(r, tr) := exec chk (map_steps (q_cleanup q)) q [] in
    match r with
    | Err e => (Err e, tr, [])
    | Ok _ => (Ok tt, tr, user_calls q)
    end.
End MapModel.

(* requests the model speaks about: no MapSpec input is produced by a function without MapSpec (no autogen) *)
Definition no_autogen (fs : list raw_func) : bool :=
  forallb (fun f => match rspec f with
                    | Some m => forallb (fun n => match producer fs n with
                                                  | Some g => match rspec g with Some _ => true | None => false end
                                                  | None => true end) (input_names m)
                    | None => true end) fs.
