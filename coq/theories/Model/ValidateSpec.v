(* Model/ValidateSpec.v - declarative statement of C12: the FAULT CLASSES named by the property text, as
   propositions about a pipeline description / a map request, and boolean deciders of the same conditions used by
   the executable statement `spec_ok` (Corr/Run_C12.v).  Nothing here calls the validators of Model/Validate.v
   (only its data types and the definitional accessors: names of a MapSpec, the default of a parameter, the shape
   of an input value).  Proofs/ValidateFacts.v relates the validators to these statements. *)
From Verif Require Import Base.Prelude Base.StrOrd Base.StrUtil Base.Graph Model.MapSpec Model.MapSpecSpec
  Model.PrepareSteps Model.Validate.

(* ---------- vocabulary ---------- *)
(* the default value function f declares for its parameter k (PipeFunc(defaults=...) first, else the signature
   default unless the parameter is bound) *)
Definition default_of (f : raw_func) (k : str) : option str :=
  if mem_str k (rparams f) then
    match dict_get (rdefs f) k with
    | Some v => Some v
    | None => if ahas (rbound f) k then None else dict_get (rsigd f) k
    end
  else None.
Definition is_bound (f : raw_func) (k : str) : bool := ahas (rbound f) k.
(* g reads (through an unbound parameter) an output of f *)
Definition reads (f g : raw_func) : bool :=
  existsb (fun p => negb (is_bound g p) && mem_str p (routs f)) (rparams g).
(* x is a root argument: an unbound parameter of some function that no function produces *)
Definition is_root (fs : list raw_func) (x : str) : bool :=
  negb (mem_str x (all_outs fs)) && existsb (fun f => mem_str x (rparams f) && negb (is_bound f x)) fs.
Definition has_default (fs : list raw_func) (x : str) : bool :=
  existsb (fun f => negb (is_bound f x) && match default_of f x with Some _ => true | None => false end) fs.
(* the shape of a supplied value: lists are one-dimensional whatever they contain *)
Definition shape_of (v : ival) : option (list nat) :=
  match v with IScalar _ => None | IList sh _ => Some (firstn 1 sh) | INd sh _ => Some sh end.
(* the value a root argument has in the request: supplied, else a (scalar) default *)
Definition value_of (q : mreq) (x : str) : option ival :=
  match dict_get (q_inputs q) x with
  | Some v => Some v
  | None => if has_default (q_funcs q) x then Some (IScalar []) else None
  end.

(* ================================================================== fault classes: construction *)
Section Construct.
  Variable fs : list raw_func.

  Definition F_dup_output : Prop := ~ NoDup (all_outs fs).
  Definition F_out_is_param : Prop := exists f o, In f fs /\ In o (routs f) /\ In o (rparams f).
  Inductive dep_path : raw_func -> raw_func -> Prop :=
  | dp_one f g : In f fs -> In g fs -> reads f g = true -> dep_path f g
  | dp_step f g h : In f fs -> In g fs -> reads f g = true -> dep_path g h -> dep_path f h.
  Definition F_cycle : Prop := exists f, dep_path f f.
  Definition F_defaults : Prop :=
    exists f g k v w, In f fs /\ In g fs /\ ~ In k (all_outs fs) /\ is_bound f k = false /\ is_bound g k = false
                      /\ default_of f k = Some v /\ default_of g k = Some w /\ v <> w.
  Definition F_spec_signature : Prop :=
    exists f m, In f fs /\ rspec f = Some m
                /\ (~ incl (input_names m) (rparams f) \/ output_names m <> routs f).
  Definition axes_agree (a b : aspec) : Prop :=
    rank a = rank b
    /\ forall k x y, nth_error (axes a) k = Some (Some x) -> nth_error (axes b) k = Some (Some y) -> x = y.
  Definition F_axes : Prop :=
    exists a b, In a (all_aspecs (specs_of fs)) /\ In b (all_aspecs (specs_of fs))
                /\ aname a = aname b /\ ~ axes_agree a b.

  Definition WellFormedC : Prop :=
    ~ F_dup_output /\ ~ F_out_is_param /\ ~ F_cycle /\ ~ F_defaults /\ ~ F_spec_signature /\ ~ F_axes.
End Construct.

(* ---------- boolean deciders (used by spec_ok) ---------- *)
Definition dep_graph (fs : list raw_func) : graph :=
  {| nodes := map fid fs;
     edges := flat_map (fun f => flat_map (fun g => if reads f g then [(fid f, fid g)] else []) fs) fs |}.
Definition acyclic_b (fs : list raw_func) : bool :=
  forallb (fun f => negb (mem_str (fid f) (reach (dep_graph fs) [fid f]))) fs.
Definition shared_names (fs : list raw_func) : list str := StrOrd.dedup (flat_map rparams fs).
Definition defaults_b (fs : list raw_func) : bool :=
  forallb (fun k =>
     mem_str k (all_outs fs)
     || forallb (fun f => forallb (fun g =>
                   is_bound f k || is_bound g k
                   || match default_of f k, default_of g k with
                      | Some v, Some w => str_eqb v w
                      | _, _ => true
                      end) fs) fs) (shared_names fs).
Definition spec_signature_b (fs : list raw_func) : bool :=
  forallb (fun f => match rspec f with
                    | Some m => subset_str (input_names m) (rparams f) && list_eqb str_eqb (output_names m) (routs f)
                    | None => true end) fs.
Definition axis_agree_b (x y : option str) : bool :=
  match x, y with Some a, Some b => str_eqb a b | _, _ => true end.
Definition axes_agree_b (a b : aspec) : bool := (rank a =? rank b) && forallb2 axis_agree_b (axes a) (axes b).
Definition axes_b (fs : list raw_func) : bool :=
  let all := all_aspecs (specs_of fs) in
  forallb (fun a => forallb (fun b => negb (str_eqb (aname a) (aname b)) || axes_agree_b a b) all) all.

Definition wfc_b (fs : list raw_func) : bool :=
  nodup_strb (all_outs fs)
  && forallb (fun f => negb (intersects (routs f) (rparams f))) fs
  && acyclic_b fs && defaults_b fs && spec_signature_b fs && axes_b fs.

(* ================================================================== fault classes: map *)
Section MapReq.
  Variable q : mreq.
  Let fs := q_funcs q.

  Definition F_executor : Prop := q_executor q = true /\ q_parallel q = false.
  Definition F_missing_input : Prop := exists x, is_root fs x = true /\ value_of q x = None.
  Definition F_surplus_input : Prop := exists x, In x (akeys (q_inputs q)) /\ is_root fs x = false.
  (* an array input whose rank contradicts a MapSpec that indexes it (a scalar has no rank at all) *)
  Definition F_rank : Prop :=
    exists f m a v, In f fs /\ rspec f = Some m /\ In a (ins m) /\ is_root fs (aname a) = true
                    /\ value_of q (aname a) = Some v
                    /\ forall sh, shape_of v = Some sh -> length sh <> rank a.
  (* two array inputs zipped along an index with different sizes *)
  Definition dim_of (a : aspec) (p : nat) : option nat :=
    match value_of q (aname a) with
    | Some v => match shape_of v with Some sh => nth_error sh p | None => None end
    | None => None
    end.
  (* x is an index of the outputs of f's MapSpec; a and b are root array inputs that both carry x; the sizes of the
     (first) axes that carry x differ.  (An index written twice inside ONE array, x[i, i], is compared at its first
     position only - as MapSpec.shape does; the generators never write that.) *)
  Definition F_zip : Prop :=
    exists f m x a pa b pb da db,
      In f fs /\ rspec f = Some m /\ In x (output_indices m) /\ In a (ins m) /\ In b (ins m)
      /\ index_of x (axes a) = Some pa /\ index_of x (axes b) = Some pb
      /\ is_root fs (aname a) = true /\ is_root fs (aname b) = true
      /\ dim_of a pa = Some da /\ dim_of b pb = Some db /\ da <> db.
  Definition F_storage : Prop := exists n, In n (storage_names q) /\ ~ In n (q_registry q).

  Definition WellFormedM : Prop :=
    ~ F_executor /\ ~ F_missing_input /\ ~ F_surplus_input /\ ~ F_axes fs /\ ~ F_rank /\ ~ F_zip /\ ~ F_storage.
End MapReq.

Definition rank_b (q : mreq) : bool :=
  forallb (fun f => match rspec f with
     | Some m => forallb (fun a =>
           negb (is_root (q_funcs q) (aname a))
           || match value_of q (aname a) with
              | Some v => match shape_of v with Some sh => length sh =? rank a | None => false end
              | None => true                                   (* a missing input is another fault class *)
              end) (ins m)
     | None => true end) (q_funcs q).
Definition zip_b (q : mreq) : bool :=
  forallb (fun f => match rspec f with
     | Some m => forallb (fun x =>
           let dims := flat_map (fun a => if is_root (q_funcs q) (aname a)
                                          then match index_of x (axes a) with
                                               | Some p => match dim_of q a p with Some d => [d] | None => [] end
                                               | None => []
                                               end
                                          else []) (ins m) in
           match dims with [] => true | d :: rest => forallb (Nat.eqb d) rest end)
         (output_indices m)
     | None => true end) (q_funcs q).

Definition wfm_b (q : mreq) : bool :=
  negb (q_executor q && negb (q_parallel q))
  && forallb (fun f => forallb (fun x => negb (is_root (q_funcs q) x)
                                         || match value_of q x with Some _ => true | None => false end)
                               (rparams f)) (q_funcs q)
  && forallb (fun x => is_root (q_funcs q) x) (akeys (q_inputs q))
  && axes_b (q_funcs q) && rank_b q && zip_b q
  && forallb (fun n => mem_str n (q_registry q)) (storage_names q).
