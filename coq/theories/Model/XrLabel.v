(* Model of the labelling logic of pipefunc/map/xarray.py (`_xarray`, `_xarray_dataset`) and of
   `mapspec_axes`, `_trace_dependencies`, `trace_dependencies` in pipefunc/map/_mapspec.py
   (state of the repository after the commits "fix: mapspec_axes reports one entry per array dimension"
   and "fix: do not build a pandas.MultiIndex from N-d inputs zipped on several axes").
   Pure functions over a list of MapSpecs, the names of the `inputs` dict, the names that the data
   loader can deliver and the `load_intermediate` flag.  Python dicts are insertion-ordered association
   lists, Python sets are duplicate-free lists (their iteration order is never observable here because
   every set is either sorted or only tested for membership).  Definitions only. *)
From Verif Require Import Base.Prelude Base.StrUtil Model.MapSpec.

(* ---------- Python's `<` on ASCII str and `sorted` ---------- *)
Fixpoint str_ltb (a b : str) : bool :=
  match a, b with
  | [], [] => false
  | [], _ :: _ => true
  | _ :: _, [] => false
  | x :: a', y :: b' =>
      if nat_of_ascii x <? nat_of_ascii y then true
      else if nat_of_ascii y <? nat_of_ascii x then false
      else str_ltb a' b'
  end.

Fixpoint insert_str (x : str) (l : list str) : list str :=
  match l with
  | [] => [x]
  | y :: t => if str_ltb y x then y :: insert_str x t else x :: l
  end.
Definition sort_str (l : list str) : list str := fold_right insert_str [] l.

(* ---------- insertion-ordered dicts with an arbitrary key type ---------- *)
Section Dict.
  Context {K V : Type}.
  Variable keqb : K -> K -> bool.

  Fixpoint dget (d : list (K * V)) (k : K) : option V :=
    match d with
    | [] => None
    | (k', v) :: t => if keqb k k' then Some v else dget t k
    end.

  (* d[k] = f(d.get(k)) : an existing key keeps its position, a new key is appended *)
  Fixpoint dupd (d : list (K * V)) (k : K) (f : option V -> V) : list (K * V) :=
    match d with
    | [] => [(k, f None)]
    | (k', v) :: t => if keqb k k' then (k', f (Some v)) :: t else (k', v) :: dupd t k f
    end.
End Dict.

Definition key_eqb := list_eqb str_eqb.    (* tuples of axis names as dict keys *)

Fixpoint dedup_first (l : list str) : list str :=   (* dict key order: first insertion *)
  match l with [] => [] | x :: t => x :: filter (fun y => negb (str_eqb x y)) (dedup_first t) end.

Definition set_add (x : str) (l : list str) : list str := if mem_str x l then l else l ++ [x].
Definition set_union (l m : list str) : list str := fold_left (fun acc x => set_add x acc) m l.
Definition odefault {A} (d : A) (o : option A) : A := match o with Some x => x | None => d end.

(* ---------- mapspec_axes ---------- *)
Definition all_aspecs (specs : list mapspec) : list aspec := flat_map (fun m => ins m ++ outs m) specs.
Definition occs (specs : list mapspec) (n : str) : list aspec :=
  filter (fun a => str_eqb (aname a) n) (all_aspecs specs).
(* axes[name][i] = axis : the last named occurrence wins *)
Definition axis_at (occ : list aspec) (i : nat) : option str :=
  fold_left (fun acc a => match nth_error (axes a) i with Some (Some x) => Some x | _ => acc end) occ None.
(* ranks[name] = max(ranks.get(name, 0), len(axes)) *)
Definition rank_of (occ : list aspec) : nat := fold_left (fun r a => Nat.max r (rank a)) occ 0.
Definition axes_of (specs : list mapspec) (n : str) : list (option str) :=
  map (axis_at (occs specs n)) (seq 0 (rank_of (occs specs n))).
Definition array_names (specs : list mapspec) : list str := dedup_first (map aname (all_aspecs specs)).
Definition mapspec_axes (specs : list mapspec) : list (str * list (option str)) :=
  map (fun n => (n, axes_of specs n)) (array_names specs).
(* axes[name] : KeyError for a name that occurs in no MapSpec *)
Definition axes_get (specs : list mapspec) (n : str) : result (list (option str)) :=
  if mem_str n (map aname (all_aspecs specs)) then Ok (axes_of specs n) else Err KeyError.

(* ---------- _trace_dependencies ---------- *)
Definition has_inputs (m : mapspec) : bool := match ins m with [] => false | _ => true end.
(* mapspec_mapping = {output_name: mapspec for mapspec in mapspecs for output_name in ... if mapspec.inputs};
   a later entry overwrites an earlier one *)
Definition mapping_get (specs : list mapspec) (o : str) : option mapspec :=
  fold_left (fun acc m => if has_inputs m && mem_str o (map aname (outs m)) then Some m else acc) specs None.
Definition mapping_keys (specs : list mapspec) : list str :=
  dedup_first (flat_map (fun m => if has_inputs m then map aname (outs m) else []) specs).

(* (input name, axis) for every named axis of every input, in the order of the two nested loops *)
Definition named_axes (l : list aspec) : list (str * str) :=
  flat_map (fun a => map (fun x => (aname a, x)) (somes (axes a))) l.

(* one loop iteration: dependencies[axis].update(names) / .add(name); None = the dict is not touched *)
Definition apply_ev (d : list (str * list str)) (ev : str * option (list str)) : list (str * list str) :=
  match snd ev with
  | None => d
  | Some l => dupd str_eqb d (fst ev) (fun old => set_union (odefault [] old) l)
  end.

(* The recursion of `_trace_dependencies` follows producer edges; `fuel` bounds its depth (Python:
   RecursionError, a RuntimeError, on a cyclic mapping - impossible for a constructed Pipeline). *)
Fixpoint trace_dep (fuel : nat) (specs : list mapspec) (o : str) : result (list (str * list str)) :=
  match fuel with
  | O => Err RuntimeError
  | S f =>
      match mapping_get specs o with
      | None => Err KeyError
      | Some ms =>
          do evs <- mapM (fun na =>
                      match mapping_get specs (fst na) with
                      | Some _ => do nested <- trace_dep f specs (fst na);
                                  Ok (snd na, dget str_eqb nested (snd na))
                      | None => Ok (snd na, Some [fst na])
                      end) (named_axes (ins ms));
          Ok (map (fun kv => (fst kv, sort_str (snd kv))) (fold_left apply_ev evs []))
      end
  end.

(* ---------- trace_dependencies ---------- *)
(* {output: {axis: names}}  ->  {output: {name: set of axes}} *)
Definition reorder (d : list (str * list str)) : list (str * list str) :=
  fold_left (fun acc kv =>
               fold_left (fun acc2 n => dupd str_eqb acc2 n (fun old => set_add (fst kv) (odefault [] old)))
                         (snd kv) acc) d [].
(* tuple(i for i in axes[name] if i in axes_set) *)
Definition order_like (specs : list mapspec) (name : str) (axset : list str) : result (list str) :=
  do ax <- axes_get specs name;
  Ok (filter (fun i => mem_str i axset) (somes ax)).

Definition trace_fuel (specs : list mapspec) : nat := S (length specs).

(* {name: order_like_mapspec_axes(name, axes_set)} for one output *)
Definition trace_one (specs : list mapspec) (o : str) : result (list (str * list str)) :=
  do d <- trace_dep (trace_fuel specs) specs o;
  mapM (fun nv => do t <- order_like specs (fst nv) (snd nv); Ok (fst nv, t)) (reorder d).

(* `reordered` is a defaultdict: an output without any dependency gets no entry *)
Definition trace (specs : list mapspec) : result (list (str * list (str * list str))) :=
  do rows <- mapM (fun o => do l <- trace_one specs o; Ok (o, l)) (mapping_keys specs);
  Ok (filter (fun r => match snd r with [] => false | _ => true end) rows).

(* ---------- _xarray : coordinates and dims of one DataArray ---------- *)
Record coord := { co_name : str; co_axes : list str; co_srcs : list str }.

(* all_dependencies.get(output_name, {}) *)
Definition target_of (tr : list (str * list (str * list str))) (o : str) : list (str * list str) :=
  odefault [] (dget str_eqb tr o).

(* is `name` looked at all (in `inputs`, or loaded because load_intermediate) *)
Definition visible (inputs : list str) (li : bool) (name : str) : bool := mem_str name inputs || li.
(* `axes == axes_mapping[name]` *)
Definition full_axes (specs : list mapspec) (na : str * list str) : bool :=
  list_eqb axis_eqb (map Some (snd na)) (axes_of specs (fst na)).

(* coord_mapping[axes][name].append(array) *)
Definition group (kept : list (str * list str)) : list (list str * list str) :=
  fold_left (fun cm na => dupd key_eqb cm (snd na) (fun old => odefault [] old ++ [fst na])) kept [].

Fixpoint cset (d : list coord) (c : coord) : list coord :=      (* coords[name] = (axes, array) *)
  match d with
  | [] => [c]
  | c' :: t => if str_eqb (co_name c) (co_name c') then c :: t else c' :: cset t c
  end.

(* the entries written for one group, in order *)
Definition group_coords (g : list str * list str) : list coord :=
  match snd g with
  | [n] => [{| co_name := n; co_axes := fst g; co_srcs := [n] |}]
  | names =>
      if 1 <? length (fst g)
      then map (fun n => {| co_name := n; co_axes := fst g; co_srcs := [n] |}) names
      else [{| co_name := join (s ":") names; co_axes := fst g; co_srcs := names |}]   (* pd.MultiIndex *)
  end.
Definition coords_raw (cm : list (list str * list str)) : list coord := flat_map group_coords cm.
Definition coords_dict (raw : list coord) : list coord := fold_left cset raw [].

(* `loadable`: the names data_loader can deliver (all outputs of the run) *)
Definition kept_of (specs : list mapspec) (inputs : list str) (li : bool) (target : list (str * list str))
  : list (str * list str) :=
  filter (fun na => visible inputs li (fst na) && full_axes specs na) target.

(* the coordinate entries in the order in which `coords[name] = ...` is executed *)
Definition coords_raw_of (specs : list mapspec) (inputs loadable : list str) (li : bool) (o : str)
  : result (list coord) :=
  do tr <- trace specs;
  let target := target_of tr o in
  if existsb (fun na => negb (mem_str (fst na) inputs) && li && negb (mem_str (fst na) loadable)) target
  then Err KeyError                                  (* data_loader(name) of something that is no output *)
  else if existsb (fun na => negb (mem_str (fst na) (map aname (all_aspecs specs)))) target
  then Err KeyError                                  (* axes_mapping[name] *)
  else Ok (coords_raw (group (kept_of specs inputs li target))).

Definition coords_of (specs : list mapspec) (inputs loadable : list str) (li : bool) (o : str)
  : result (list coord) :=
  do raw <- coords_raw_of specs inputs loadable li o;
  Ok (coords_dict raw).

(* dims=axes_mapping[output_name]; an unnamed dimension cannot be a DataArray dimension here
   (outputs never carry ':'; xarray would raise for dims containing None together with named ones) *)
Definition dims_of (specs : list mapspec) (o : str) : result (list str) :=
  do ax <- axes_get specs o;
  mapM (fun a => match a with Some x => Ok x | None => Err ValueError end) ax.

(* ---------- _xarray_dataset ---------- *)
Record darray := { da_name : str; da_dims : list str; da_coords : list coord }.
Record dataset := {
  ds_arrays : list darray;      (* the DataArrays handed to xr.merge, in order *)
  ds_dropped : list str;        (* MapSpec outputs that only appear as coordinates of other arrays *)
  ds_plain : list str           (* outputs without MapSpec: `ds[name] = array | ((), array)` *)
}.

Fixpoint dset_da (d : list darray) (a : darray) : list darray :=   (* dict comprehension `data_arrays` *)
  match d with
  | [] => [a]
  | a' :: t => if str_eqb (da_name a) (da_name a') then a :: t else a' :: dset_da t a
  end.

Definition dataset_vars (specs : list mapspec) (inputs : list str) (output_names : list str) (li : bool)
  : result dataset :=
  let mapspec_output_names :=
    filter (fun n => mem_str n output_names) (flat_map (fun m => map aname (outs m)) specs) in
  let single := filter (fun n => negb (mem_str n mapspec_output_names)) output_names in
  do arrays <- mapM (fun o => do cs <- coords_of specs inputs output_names li o;
                              do dm <- dims_of specs o;
                              Ok {| da_name := o; da_dims := dm; da_coords := cs |}) mapspec_output_names;
  let data_arrays := fold_left dset_da arrays [] in
  let all_coords := flat_map (fun a => map co_name (da_coords a)) data_arrays in
  Ok {| ds_arrays := filter (fun a => negb (mem_str (da_name a) all_coords)) data_arrays;
        ds_dropped := filter (fun n => mem_str n all_coords) (map da_name data_arrays);
        ds_plain := single |}.

(* coordinates of the merged Dataset: union over the merged arrays, first occurrence of a name wins
   (xr.merge(compat="override")) *)
Fixpoint coords_union (seen : list str) (l : list coord) : list coord :=
  match l with
  | [] => []
  | c :: t => if mem_str (co_name c) seen then coords_union seen t else c :: coords_union (co_name c :: seen) t
  end.
Definition ds_coords (d : dataset) : list coord := coords_union [] (flat_map da_coords (ds_arrays d)).
