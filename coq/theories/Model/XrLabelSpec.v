(* Declarative reading of property C19 ("xarray datasets label results with the right dimensions and
   coordinates"), written against the meaning of the MapSpec notation and not against the functions of
   Model/XrLabel.v:
     - which inputs are "mapped along axis k" of an output (possibly through element-wise functions),
     - what the dimensions of an output are,
     - what selecting by a coordinate value means.
   Definitions only. *)
From Verif Require Import Base.Prelude Base.StrUtil Base.Index Base.NdArr Model.MapSpec Model.MapSpecSpec.

Definition is_nil {A} (l : list A) : bool := match l with [] => true | _ => false end.

(* the MapSpec that computes array n element-wise from other arrays (None: n is a root input, the result
   of a function without MapSpec, or of a generator `... -> n[j]`) *)
Definition computed_by (specs : list mapspec) (n : str) : option mapspec :=
  find (fun m => negb (is_nil (ins m)) && mem_str n (map aname (outs m))) specs.

(* the MapSpec that declares output o (with or without inputs) *)
Definition declared_by (specs : list mapspec) (o : str) : option mapspec :=
  find (fun m => mem_str o (map aname (outs m))) specs.

Definition has_axis (k : str) (a : aspec) : bool := existsb (axis_eqb (Some k)) (axes a).

(* carried specs o k : the arrays that are not themselves computed element-wise and from which o is
   computed along axis k: an input of o's MapSpec that is indexed by k is either such an array, or is
   computed element-wise and carries its own sources along k.  fuel bounds the length of producer chains. *)
Fixpoint carried (fuel : nat) (specs : list mapspec) (o k : str) : list str :=
  match fuel with
  | O => []
  | S f =>
      match computed_by specs o with
      | None => []
      | Some ms =>
          flat_map (fun a => if has_axis k a
                             then match computed_by specs (aname a) with
                                  | Some _ => carried f specs (aname a) k
                                  | None => [aname a]
                                  end
                             else []) (ins ms)
      end
  end.

(* the declared axes of output o: "its MapSpec axes in order" *)
Definition declared_axes (specs : list mapspec) (o : str) : option (list str) :=
  match declared_by specs o with
  | None => None
  | Some ms => option_map indices (find (fun a => str_eqb (aname a) o) (outs ms))
  end.

(* all MapSpecs name the dimensions of an array consistently (what validate_consistent_axes enforces at
   Pipeline construction): equal rank, and equal names wherever two occurrences both name a position *)
Definition consistent_pair (a b : aspec) : bool :=
  negb (str_eqb (aname a) (aname b))
  || ((length (axes a) =? length (axes b))
      && forallb (fun xy => match fst xy, snd xy with
                            | Some x, Some y => str_eqb x y
                            | _, _ => true end) (combine (axes a) (axes b))).
Definition consistent (l : list aspec) : bool :=
  forallb (fun a => forallb (consistent_pair a) l) l.

(* no MapSpec of a later function computes an input of an earlier one (the functions are listed in a
   topological order: a Pipeline is acyclic) *)
Fixpoint topo_specs (specs : list mapspec) : bool :=
  match specs with
  | [] => true
  | m :: t =>
      forallb (fun a => negb (existsb (fun m' => negb (is_nil (ins m')) && mem_str (aname a) (map aname (outs m')))
                                      (m :: t))) (ins m)
      && topo_specs t
  end.

(* ---------- selecting by coordinate value ---------- *)
(* `pos_of x l` (Model/MapSpecSpec.v) is the position of the first occurrence of x in l *)

(* the key that fixes dimension number q of a rank-r array to n and keeps every other dimension *)
Fixpoint slice_key (r q n : nat) : list kitem :=
  match r with
  | O => []
  | S r' => match q with
            | O => KInt n :: repeat KAll r'
            | S q' => KAll :: slice_key r' q' n
            end
  end.

(* an index of the sliced array, completed by n at dimension q; the shape without dimension q *)
Definition insert_at {A} (q : nat) (x : A) (l : list A) : list A := firstn q l ++ x :: skipn q l.
Definition remove_at {A} (q : nat) (l : list A) : list A := firstn q l ++ skipn (S q) l.

(* label based selection on a one-dimensional coordinate with values `labels` along dimension q of a:
   look the label up, take the slice at the position found (KeyError for an unknown label) *)
Definition sel_label {A} (a : nd A) (q : nat) (labels : list str) (v : str) : result (nd A) :=
  match pos_of v labels with
  | None => Err KeyError
  | Some n => nd_index a (slice_key (length (shp a)) q n)
  end.
