(* Value-level content of add_mapspec_axis (C10, map side), pointwise core:
   A. indexing an array stacked along a new last axis with a key that ends in the integer n is indexing the n-th
      stacked array (stack_last of Model/RewriteMap.v vs the NumPy basic indexing nd_index of Base/NdArr.v);
   B. for a function whose MapSpec got the new axis on the parameter q and on every output (what new_spec builds),
      the element at index idx ++ [n] of every output, computed from q := stack vs, is the element at index idx
      computed by the ORIGINAL function from q := vs[n]  (denote_elem of Model/MapDenote.v). *)
From Verif Require Import Base.Prelude Base.StrUtil Base.Index Base.NdArr Model.MapSpec Model.MapSpecSpec
  Model.MapRun Model.MapDenote Model.RewriteMap Proofs.StrFacts Proofs.ListFacts Proofs.IndexFacts Proofs.MapSpecFacts Proofs.RewriteMapFacts Proofs.FSStoreFacts.

(* ------------------------------------------------------------------ A. arrays *)
Lemma prod_app a b : prod (a ++ b) = prod a * prod b.
Proof. unfold prod. induction a as [|x a IH]; cbn; [lia|]. fold (prod (a ++ b)) in *. fold (prod a) in *. rewrite IH. lia. Qed.

Lemma ravel_snoc : forall sh idx K n, length idx = length sh -> ravel (sh ++ [K]) (idx ++ [n]) = ravel sh idx * K + n.
Proof.
  induction sh as [|d sh IH]; intros [|i idx] K n L; try discriminate.
  - cbn. lia.
  - cbn [app]. rewrite !ravel_cons. rewrite IH by (cbn in L; lia). rewrite prod_app. cbn [prod fold_right]. lia.
Qed.

Lemma in_bounds_snoc : forall sh idx K n, length idx = length sh ->
  in_bounds (sh ++ [K]) (idx ++ [n]) = in_bounds sh idx && (n <? K).
Proof.
  induction sh as [|d sh IH]; intros [|i idx] K n L; try discriminate.
  - cbn. now rewrite andb_true_r.
  - cbn [app in_bounds]. rewrite IH by (cbn in L; lia). now rewrite andb_assoc.
Qed.

Lemma in_bounds_len : forall sh idx, in_bounds sh idx = true -> length idx = length sh.
Proof.
  induction sh as [|d sh IH]; intros [|i idx] H; cbn in H; try discriminate; [reflexivity|].
  apply andb_true_iff in H as [_ H]. cbn. now rewrite (IH idx H).
Qed.

Lemma in_bounds_len_neq : forall sh idx, length idx <> length sh -> in_bounds sh idx = false.
Proof.
  intros sh idx H. destruct (in_bounds sh idx) eqn:E; [|reflexivity]. apply in_bounds_len in E. congruence.
Qed.

Lemma nth_error_blocks {A B} (g : A -> list B) K : forall l r n, (forall x, In x l -> length (g x) = K) -> n < K ->
  nth_error (flat_map g l) (r * K + n) = match nth_error l r with Some x => nth_error (g x) n | None => None end.
Proof.
  induction l as [|x l IH]; intros r n HL Hn.
  - cbn. destruct r; destruct (_ + n); reflexivity.
  - cbn [flat_map]. destruct r as [|r].
    + cbn [Nat.mul Nat.add nth_error]. rewrite nth_error_app1; [reflexivity|]. rewrite HL by (left; reflexivity). exact Hn.
    + rewrite nth_error_app2 by (rewrite HL by (left; reflexivity); cbn; lia).
      rewrite HL by (left; reflexivity). replace (S r * K + n - K) with (r * K + n) by (cbn; lia).
      cbn [nth_error]. apply IH; [|exact Hn]. intros y Hy. apply HL. right. exact Hy.
Qed.

Lemma merge_snoc n : forall key j,
  merge (map key_is_int key ++ [true]) (key_ints key ++ [n]) j = merge (map key_is_int key) (key_ints key) j ++ [n].
Proof.
  induction key as [|k key IH]; intros j; [reflexivity|]. destruct k as [c|]; cbn.
  - rewrite IH. reflexivity.
  - destruct j as [|x j]; rewrite IH; reflexivity.
Qed.

Lemma ext_int_snoc {A} : forall (mask : list bool) (l : list A) x, length mask = length l ->
  ext_of (mask ++ [true]) (l ++ [x]) = ext_of mask l ++ [x] /\ int_of (mask ++ [true]) (l ++ [x]) = int_of mask l.
Proof.
  induction mask as [|b mask IH]; intros [|y l] x L; try discriminate; [split; reflexivity|].
  cbn in L. destruct (IH l x ltac:(lia)) as [E1 E2]. destruct b; cbn; rewrite ?E1, ?E2; split; reflexivity.
Qed.

Lemma key_ints_len : forall key (l : list nat), length key = length l ->
  length (key_ints key) = length (ext_of (map key_is_int key) l).
Proof.
  induction key as [|k key IH]; intros [|y l] L; try discriminate; [reflexivity|].
  cbn in L. specialize (IH l ltac:(lia)). unfold key_ints in *. destruct k; cbn; [f_equal|]; exact IH.
Qed.

Section Stack.
  Variable sh : list nat.
  Variable arrs : list (nd str).             (* the stacked arrays *)
  Hypothesis Hshape : forall a, In a arrs -> shp a = sh /\ length (dat a) = prod sh.
  Let K := length arrs.
  Definition stacked : nd str :=
    {| shp := sh ++ [K]; dat := flat_map (fun i => map (fun c => nth i c []) (map (@dat str) arrs)) (seq 0 (prod sh)) |}.

  Lemma stacked_get idx n a : nth_error arrs n = Some a -> nd_get stacked (idx ++ [n]) = nd_get a idx.
  Proof.
    intros En. assert (Hn : n < K) by (apply nth_error_Some; congruence).
    destruct (Hshape a (nth_error_In _ _ En)) as [Hs Hd].
    unfold nd_get. cbn [shp dat stacked]. rewrite Hs.
    destruct (Nat.eq_dec (length idx) (length sh)) as [L|L].
    - rewrite in_bounds_snoc by exact L. destruct (in_bounds sh idx) eqn:Eb; cbn [andb]; [|reflexivity].
      apply Nat.ltb_lt in Hn. rewrite Hn. rewrite ravel_snoc by exact L.
      pose proof (ravel_lt sh idx Eb) as Hr.
      rewrite (nth_error_blocks (fun i => map (fun c => nth i c []) (map (@dat str) arrs)) K).
      + rewrite (nth_error_seq0 (prod sh) (ravel sh idx) Hr).
        rewrite nth_error_map, nth_error_map, En. cbn [option_map].
        symmetry. rewrite (nth_error_nth' (dat a) []) by (rewrite Hd; exact Hr). reflexivity.
      + intros x _. rewrite !map_length. reflexivity.
      + apply Nat.ltb_lt. exact Hn.
    - rewrite (in_bounds_len_neq sh idx L). rewrite in_bounds_len_neq; [reflexivity|]. rewrite !app_length. cbn. lia.
  Qed.
  Lemma stacked_index key n a : nth_error arrs n = Some a -> nd_index stacked (key ++ [KInt n]) = nd_index a key.
  Proof.
    intros En. assert (Hn : n < K) by (apply nth_error_Some; congruence).
    destruct (Hshape a (nth_error_In _ _ En)) as [Hs Hd].
    unfold nd_index. cbn [shp stacked]. rewrite Hs. rewrite !app_length. cbn [length].
    replace (length key + 1 =? length sh + 1) with (length key =? length sh)
      by (destruct (Nat.eqb_spec (length key) (length sh)); symmetry; [apply Nat.eqb_eq|apply Nat.eqb_neq]; lia).
    destruct (length key =? length sh) eqn:EL; cbn [negb]; [|reflexivity]. apply Nat.eqb_eq in EL.
    assert (EK : key_ints (key ++ [KInt n]) = key_ints key ++ [n]) by (unfold key_ints; rewrite flat_map_app; reflexivity).
    rewrite map_app, EK. cbn [map key_is_int].
    assert (Lm : length (map key_is_int key) = length sh) by (rewrite map_length; exact EL).
    destruct (ext_int_snoc (map key_is_int key) sh K Lm) as [E1 E2]. rewrite E1, E2.
    rewrite in_bounds_snoc by (apply key_ints_len; exact EL).
    apply Nat.ltb_lt in Hn. rewrite Hn, andb_true_r.
    destruct (in_bounds (ext_of (map key_is_int key) sh) (key_ints key)); cbn [negb]; [|reflexivity].
    rewrite (mapM_ext_in _ (fun j => match nd_get a (merge (map key_is_int key) (key_ints key) j) with
                                     | Some x => Ok x | None => Err IndexError end)); [reflexivity|].
    intros j _. rewrite merge_snoc. rewrite (stacked_get _ n a En). reflexivity.
  Qed.

  Lemma stacked_index_val key n a : nth_error arrs n = Some a ->
    index_val (VA stacked) (key ++ [KInt n]) = index_val (VA a) key.
  Proof. intros En. unfold index_val. rewrite (stacked_index key n a En). reflexivity. Qed.

End Stack.

(* stack_last of Model/RewriteMap.v builds exactly this array *)
Lemma stack_last_stacked sh arrs : (forall a, In a arrs -> shp a = sh /\ length (dat a) = prod sh) -> arrs <> [] ->
  stack_last (map VA arrs) = Some (VA (stacked sh arrs)).
Proof.
  intros Hshape Hne. destruct arrs as [|a0 rest]; [congruence|]. unfold stack_last. cbn [map].
  cbn [val_shape_of]. destruct (Hshape a0 (or_introl eq_refl)) as [Hs0 _].
  assert (Hall : forallb (fun v => list_eqb Nat.eqb (val_shape_of v) (shp a0)) (VA a0 :: map VA rest) = true).
  { apply forallb_forall. intros v Hv. change (VA a0 :: map VA rest) with (map VA (a0 :: rest)) in Hv.
    apply in_map_iff in Hv as (a & <- & Ha). cbn [val_shape_of]. rewrite (proj1 (Hshape a Ha)), Hs0.
    apply (list_eqb_eq Nat.eqb); [intros x y; apply Nat.eqb_eq|reflexivity]. }
  rewrite Hall. unfold stacked. rewrite Hs0. cbn [length map val_data]. rewrite !map_length, !map_map. cbn [val_data].
  reflexivity.
Qed.

(* ------------------------------------------------------------------ B. one function with the new axis *)
Lemma mapM_app_loc {A B} (f : A -> result B) l1 l2 :
  mapM f (l1 ++ l2) = do a <- mapM f l1; do b <- mapM f l2; Ok (a ++ b).
Proof.
  induction l1 as [|x l1 IH]; cbn.
  - destruct (mapM f l2); reflexivity.
  - destruct (f x); cbn; [|reflexivity]. rewrite IH. destruct (mapM f l1); cbn; [|reflexivity].
    destruct (mapM f l2); reflexivity.
Qed.

Lemma mapM_map_loc {A B C} (f : B -> result C) (g : A -> B) l : mapM f (map g l) = mapM (fun x => f (g x)) l.
Proof. induction l as [|x l IH]; cbn; [reflexivity|]. now rewrite IH. Qed.

Lemma somes_app_loc {A} (l1 l2 : list (option A)) : somes (l1 ++ l2) = somes l1 ++ somes l2.
Proof. induction l1 as [|[x|] l1 IH]; cbn; [reflexivity| |exact IH]. now rewrite IH. Qed.

Lemma in_somes {A} (x : A) l : In x (somes l) <-> In (Some x) l.
Proof.
  induction l as [|[y|] l IH]; cbn; [tauto| |].
  - rewrite IH. split; intros [H|H]; auto; [left; congruence|left; congruence].
  - rewrite IH. split; [auto|]. intros [H|H]; [discriminate|exact H].
Qed.

Lemma pos_of_app x l l' : pos_of x (l ++ l') =
  match pos_of x l with Some p => Some p | None => option_map (Nat.add (length l)) (pos_of x l') end.
Proof.
  induction l as [|y l IH]; cbn; [destruct (pos_of x l'); reflexivity|].
  destruct (str_eqb x y); [reflexivity|]. rewrite IH. destruct (pos_of x l); [reflexivity|].
  destruct (pos_of x l'); reflexivity.
Qed.

Lemma pos_of_lt x l p : pos_of x l = Some p -> p < length l.
Proof.
  revert p. induction l as [|y l IH]; cbn; intros p H; [discriminate|]. destruct (str_eqb x y); [injection H as <-; lia|].
  destruct (pos_of x l) as [p0|]; [|discriminate]. injection H as <-. specialize (IH p0 eq_refl). lia.
Qed.

Lemma pos_of_notin x l : ~ In x l -> pos_of x l = None.
Proof.
  induction l as [|y l IH]; cbn; intros H; [reflexivity|]. destruct (str_eqb x y) eqn:E.
  - apply str_eqb_eq in E. subst. exfalso. apply H. left. reflexivity.
  - rewrite IH; [reflexivity|]. intros Hi. apply H. right. exact Hi.
Qed.

Lemma find_map_inv {A} (P : A -> bool) (g : A -> A) l : (forall a, P (g a) = P a) ->
  find P (map g l) = option_map g (find P l).
Proof. intros H. induction l as [|a l IH]; cbn; [reflexivity|]. rewrite H. destruct (P a); [reflexivity|exact IH]. Qed.

Definition add_ax (k : str) (a : aspec) : aspec := {| aname := aname a; axes := axes a ++ [Some k] |}.
(* the MapSpec after the axis k was added for the parameter q *)
Definition lifted (q k : str) (ms ms' : mapspec) : Prop :=
  ins ms' = map (fun a => if str_eqb (aname a) q then add_ax k a else a) (ins ms)
  /\ outs ms' = map (add_ax k) (outs ms).
(* q replaced by V in a keyword list *)
Definition setq (q : str) (V : val) (pv : str * val) : str * val := (fst pv, if str_eqb (fst pv) q then V else snd pv).

Section LiftedFunc.
  Variable body : mfunc -> env -> result (list val).
  Variables (q k : str) (ms ms' : mapspec).
  Hypothesis Hlift : lifted q k ms ms'.
  Hypothesis Hfresh : forall a, In a (ins ms ++ outs ms) -> ~ In k (indices a).      (* the axis is new *)
  Hypothesis Hq : exists a, In a (ins ms) /\ aname a = q.                             (* q is a mapped input *)
  Hypothesis Houts : outs ms <> [].

  Lemma lifted_output_indices : output_indices ms' = output_indices ms ++ [k].
  Proof.
    unfold output_indices. rewrite (proj2 Hlift). destruct (outs ms) as [|o0 r]; [congruence|]. cbn [map].
    unfold indices, add_ax. cbn [axes]. rewrite somes_app_loc. reflexivity.
  Qed.

  Lemma lifted_input_indices n : In n (input_indices_list ms') <-> In n (input_indices_list ms) \/ n = k.
  Proof.
    unfold input_indices_list. rewrite (proj1 Hlift). rewrite !in_flat_map. split.
    - intros (a' & Ha' & Hn). apply in_map_iff in Ha' as (a & <- & Ha). destruct (str_eqb (aname a) q).
      + unfold indices, add_ax in Hn. cbn [axes] in Hn. rewrite somes_app_loc in Hn. apply in_app_or in Hn as [Hn|[<-|[]]]; [|right; reflexivity].
        left. exists a. split; assumption.
      + left. exists a. split; assumption.
    - intros [(a & Ha & Hn)| ->].
      + exists (if str_eqb (aname a) q then add_ax k a else a). split; [apply in_map_iff; exists a; split; [reflexivity|exact Ha]|].
        destruct (str_eqb (aname a) q); [|exact Hn]. unfold indices, add_ax. cbn [axes]. rewrite somes_app_loc. apply in_or_app. left. exact Hn.
      + destruct Hq as (a & Ha & Hn). exists (add_ax k a). split.
        * apply in_map_iff. exists a. split; [|exact Ha]. rewrite Hn, str_eqb_refl. reflexivity.
        * unfold indices, add_ax. cbn [axes]. rewrite somes_app_loc. apply in_or_app. right. left. reflexivity.
  Qed.

  Lemma k_not_output : ~ In k (output_indices ms).
  Proof.
    unfold output_indices. destruct (outs ms) as [|o0 r] eqn:Eo; [congruence|]. apply (Hfresh o0). apply in_or_app. right. left. reflexivity.
  Qed.

  Lemma lifted_external : external_indices ms' = external_indices ms ++ [k].
  Proof.
    unfold external_indices. rewrite lifted_output_indices, filter_app. f_equal.
    - apply filter_ext_in. intros n Hn.
      destruct (mem_str n (input_indices_list ms)) eqn:E.
      + apply mem_str_In. apply lifted_input_indices. left. apply mem_str_In. exact E.
      + destruct (mem_str n (input_indices_list ms')) eqn:E'; [|reflexivity]. apply mem_str_In in E'.
        apply lifted_input_indices in E' as [E'| ->]; [apply mem_str_In in E'; congruence|].
        exfalso. apply k_not_output. exact Hn.
    - cbn. assert (E : mem_str k (input_indices_list ms') = true) by (apply mem_str_In; apply lifted_input_indices; right; reflexivity).
      rewrite E. reflexivity.
  Qed.

  Lemma k_not_external : ~ In k (external_indices ms).
  Proof. unfold external_indices. intros H. apply filter_In in H as [H _]. apply k_not_output. exact H. Qed.

  (* the integer / slice component of one axis *)
  Definition keyf (E : list str) (e : list nat) (ax : option str) : result kitem :=
    match ax with
    | None => Ok KAll
    | Some x => match pos_of x E with
                | Some p => match nth_error e p with Some c => Ok (KInt c) | None => Err IndexError end
                | None => Err KeyError
                end
    end.

  Variable e : list nat.
  Variable n : nat.
  Hypothesis He : length e = length (external_indices ms).

  Lemma keyf_old ax : ax <> Some k -> keyf (external_indices ms ++ [k]) (e ++ [n]) ax = keyf (external_indices ms) e ax.
  Proof.
    intros Hne. destruct ax as [x|]; [|reflexivity]. unfold keyf. rewrite pos_of_app.
    destruct (pos_of x (external_indices ms)) as [p|] eqn:Ep.
    - apply pos_of_lt in Ep. rewrite nth_error_app1 by lia. reflexivity.
    - cbn [pos_of]. destruct (str_eqb x k) eqn:E; [apply str_eqb_eq in E; congruence|]. reflexivity.
  Qed.

  Lemma keyf_new : keyf (external_indices ms ++ [k]) (e ++ [n]) (Some k) = Ok (KInt n).
  Proof.
    unfold keyf. rewrite pos_of_app, (pos_of_notin k _ k_not_external). cbn [pos_of]. rewrite str_eqb_refl. cbn [option_map].
    rewrite Nat.add_0_r, <- He. rewrite nth_error_app2 by lia. rewrite Nat.sub_diag. reflexivity.
  Qed.

  Variable sh : list nat.
  Variable arrs : list (nd str).
  Hypothesis Hshape : forall a, In a arrs -> shp a = sh /\ length (dat a) = prod sh.
  Variable an : nd str.
  Hypothesis Han : nth_error arrs n = Some an.

  (* the argument delivered at external position e ++ [n] from the stacked q is the argument the original MapSpec
     delivers at e from the n-th array *)
  Lemma arg_at_lifted pv :
    arg_at ms' (e ++ [n]) (setq q (VA (stacked sh arrs)) pv) = arg_at ms e (setq q (VA an) pv).
  Proof.
    unfold arg_at. cbn [fst snd setq]. rewrite (proj1 Hlift).
    rewrite (find_map_inv (fun a => str_eqb (aname a) (fst pv)) (fun a => if str_eqb (aname a) q then add_ax k a else a)).
    2:{ intros a. destruct (str_eqb (aname a) q); reflexivity. }
    destruct (find (fun a => str_eqb (aname a) (fst pv)) (ins ms)) as [a|] eqn:Ef; cbn [option_map].
    2:{ unfold setq. cbn [fst snd]. destruct (str_eqb (fst pv) q) eqn:Eq; [|reflexivity].
        (* q is a mapped input, so the search cannot fail for it *)
        exfalso. apply str_eqb_eq in Eq. destruct Hq as (a & Ha & Hn). apply (find_none _ _ Ef) in Ha.
        rewrite Hn, <- Eq, str_eqb_refl in Ha. discriminate. }
    apply find_some in Ef as [Ha Hn]. apply str_eqb_eq in Hn. rewrite lifted_external.
    fold (keyf (external_indices ms ++ [k]) (e ++ [n])). fold (keyf (external_indices ms) e).
    assert (Hold : mapM (keyf (external_indices ms ++ [k]) (e ++ [n])) (axes a) = mapM (keyf (external_indices ms) e) (axes a)).
    { apply mapM_ext_in. intros ax Hax. apply keyf_old. intros ->. apply (Hfresh a); [apply in_or_app; left; exact Ha|].
      apply in_somes. exact Hax. }
    rewrite Hn. destruct (str_eqb (fst pv) q) eqn:Eq.
    - unfold add_ax. cbn [axes aname]. rewrite mapM_app_loc, Hold. cbn [mapM]. rewrite keyf_new. cbn [bind].
      destruct (mapM (keyf (external_indices ms) e) (axes a)) as [key|err]; cbn [bind]; [|reflexivity].
      rewrite (stacked_index_val sh arrs Hshape key n an Han). reflexivity.
    - rewrite Hold. reflexivity.
  Qed.

  Variable f : mfunc.
  Variable kw : env.
  Variable mask : list bool.
  Variable idx : list nat.
  Hypothesis Hmask : forallb id mask = true.                  (* no internal axes *)
  Hypothesis Hlen : length mask = length idx.
  Hypothesis Hidx : ext_of mask idx = e.

  (* add_axis_lifts, pointwise: element idx ++ [n] of output j of the function with the new axis, from q := stack,
     is element idx of output j of the original function from q := the n-th array *)
  Theorem lifted_elem j :
    denote_elem body f ms' (map (setq q (VA (stacked sh arrs))) kw) (mask ++ [true]) j (idx ++ [n])
    = denote_elem body f ms (map (setq q (VA an)) kw) mask j idx.
  Proof.
    unfold denote_elem. destruct (ext_int_snoc mask idx n Hlen) as [E1 E2]. rewrite E1, E2, Hidx.
    rewrite !mapM_map_loc. rewrite (mapM_ext_in _ (fun pv => arg_at ms e (setq q (VA an) pv))) by (intros pv _; apply arg_at_lifted).
    rewrite forallb_app. cbn [forallb id]. rewrite andb_true_r. reflexivity.
  Qed.
End LiftedFunc.

(* ------------------------------------------------------------------ the link to add_mapspec_axis (new_spec) *)
Lemma mapM_is_map {A B} (f : A -> result B) (g : A -> B) l r :
  mapM f l = Ok r -> (forall x y, In x l -> f x = Ok y -> y = g x) -> r = map g l.
Proof.
  revert r. induction l as [|x l IH]; intros r E H; cbn in E; [injection E as <-; reflexivity|].
  destruct (f x) as [y|] eqn:Ex; [|discriminate]. cbn in E. destruct (mapM f l) as [ys|] eqn:El; [|discriminate].
  cbn in E. injection E as <-. cbn. rewrite (H x y (or_introl eq_refl) Ex). f_equal. apply IH; [reflexivity|].
  intros x0 y0 Hx0. apply H. right. exact Hx0.
Qed.

Lemma add_axes_is_add_ax a k a' : aspec_add_axes a [Some k] = Ok a' -> a' = add_ax k a.
Proof. intros E. apply aspec_add_axes_ok in E as (_ & H1 & H2). destruct a' as [nm ax]. cbn in *. subst. reflexivity. Qed.

Lemma has_axis_false k a : has_axis k a = false -> ~ In k (indices a).
Proof.
  unfold has_axis, indices. intros H Hin. apply in_somes in Hin.
  assert (E : existsb (axis_eqb (Some k)) (axes a) = true).
  { apply existsb_exists. exists (Some k). split; [exact Hin|]. unfold axis_eqb, opt_eqb. apply str_eqb_refl. }
  congruence.
Qed.

(* what new_spec builds for a function that already maps q, when the axis is new to the function *)
Lemma new_spec_lifted f q dims k ms ms' : fspec f = Some ms -> mem_str q (map aname (ins ms)) = true ->
  (forall a, In a (ins ms ++ outs ms) -> has_axis k a = false) ->
  new_spec f q dims k = Ok ms' -> lifted q k ms ms' /\ outs ms <> [].
Proof.
  intros Es Hm Hf E. unfold new_spec in E. rewrite Es, Hm in E.
  destruct (mapM _ (ins ms)) as [i|] eqn:Ei; cbn [bind] in E; [|discriminate].
  destruct (mapM _ (outs ms)) as [o|] eqn:Eo; cbn [bind] in E; [|discriminate].
  assert (Hi : i = map (fun a => if str_eqb (aname a) q then add_ax k a else a) (ins ms)).
  { apply (mapM_is_map _ _ _ _ Ei). intros a a' Ha Ex. rewrite (Hf a) in Ex by (apply in_or_app; left; exact Ha).
    cbn [negb] in Ex. rewrite andb_true_r in Ex. destruct (str_eqb (aname a) q); [apply add_axes_is_add_ax; exact Ex|congruence]. }
  assert (Ho : o = map (add_ax k) (outs ms)).
  { apply (mapM_is_map _ _ _ _ Eo). intros a a' Ha Ex. rewrite (Hf a) in Ex by (apply in_or_app; right; exact Ha).
    cbn [negb] in Ex. apply add_axes_is_add_ax. exact Ex. }
  assert (Hms : ms' = {| ins := i; outs := o |}).
  { unfold mk_mapspec in E. destruct o as [|o0 rest]; [discriminate|].
    destruct (existsb _ (o0 :: rest)); [discriminate|]. destruct (negb _); [discriminate|]. destruct (negb _); [discriminate|].
    congruence. }
  split.
  - subst ms'. split; cbn [ins outs]; assumption.
  - intros E0. rewrite E0 in Ho. cbn in Ho. subst o. discriminate.
Qed.

(* add_axis_lifts, pointwise, stated on what the code builds *)
Theorem add_axis_lifts_elem body f q dims k ms ms' e n sh arrs an kw mask idx j :
  fspec f = Some ms -> mem_str q (map aname (ins ms)) = true ->
  (forall a, In a (ins ms ++ outs ms) -> has_axis k a = false) ->
  new_spec f q dims k = Ok ms' ->
  (forall a, In a arrs -> shp a = sh /\ length (dat a) = prod sh) -> nth_error arrs n = Some an ->
  length mask = length idx -> ext_of mask idx = e -> length e = length (external_indices ms) ->
  stack_last (map VA arrs) = Some (VA (stacked sh arrs))
  /\ denote_elem body f ms' (map (setq q (VA (stacked sh arrs))) kw) (mask ++ [true]) j (idx ++ [n])
     = denote_elem body f ms (map (setq q (VA an)) kw) mask j idx.
Proof.
  intros Es Hm Hf E Hsh Han Hlen Hidx He.
  destruct (new_spec_lifted f q dims k ms ms' Es Hm Hf E) as [HL Ho]. split.
  - apply stack_last_stacked; [exact Hsh|]. intros ->. destruct n; discriminate.
  - assert (Hfr : forall a, In a (ins ms ++ outs ms) -> ~ In k (indices a)).
    { intros a Ha. apply has_axis_false. apply Hf. exact Ha. }
    assert (Hq : exists a, In a (ins ms) /\ aname a = q).
    { apply mem_str_In in Hm. apply in_map_iff in Hm as (a & Hn & Ha). exists a. split; assumption. }
    exact (lifted_elem body q k ms ms' HL Hfr Hq Ho e n He sh arrs Hsh an Han f kw mask idx Hlen Hidx j).
Qed.

(* non-vacuity: f : x[i] -> y[i]; add_mapspec_axis("x", axis="k") gives x[i, k] -> y[i, k]; two arrays of shape [2]
   are stacked to shape [2; 2]; element (1, 0) of the new y is element 1 of the old y computed from the first array *)
Example add_axis_lifts_instance :
  let A nm ax := {| aname := nm; axes := ax |} in
  let ms := {| ins := [A (s "x") [Some (s "i")]]; outs := [A (s "y") [Some (s "i")]] |} in
  let f := {| fname := s "f"; fouts := [s "y"]; fparams := [s "x"]; fbound := []; fdefaults := [];
              fspec := Some ms; fint := []; fret := [] |} in
  let a0 := {| shp := [2]; dat := [s "p"; s "q"] |} in
  let a1 := {| shp := [2]; dat := [s "r"; s "t"] |} in
  let body := fun (g : mfunc) (kw : env) => match kw with [(_, VS v)] => Ok [VS (s "f(" ++ v ++ s ")")] | _ => Err ValueError end in
  exists ms', new_spec f (s "x") [(s "x", 2)] (s "k") = Ok ms' /\ print ms' = s "x[i, k] -> y[i, k]"
    /\ stacked [2] [a0; a1] = {| shp := [2; 2]; dat := [s "p"; s "r"; s "q"; s "t"] |}
    /\ denote_elem body f ms' [(s "x", VA (stacked [2] [a0; a1]))] [true; true] 0 [1; 0] = Ok (s "f(q)")
    /\ denote_elem body f ms [(s "x", VA a0)] [true] 0 [1] = Ok (s "f(q)").
Proof. cbv zeta. eexists. split; [vm_compute; reflexivity|]. repeat split; vm_compute; reflexivity. Qed.

(* ------------------------------------------------------------------ C. a function without MapSpec gets `q[:, .., k] -> outs[k]` *)
Lemma nd_get_in_bounds {A} (a : nd A) idx : nd_wf a = true -> in_bounds (shp a) idx = true -> exists x, nd_get a idx = Some x.
Proof.
  intros Hwf Hb. unfold nd_get. rewrite Hb. unfold nd_wf in Hwf. apply Nat.eqb_eq in Hwf.
  pose proof (ravel_lt (shp a) idx Hb) as Hr. destruct (nth_error (dat a) (ravel (shp a) idx)) as [x|] eqn:E; [eauto|].
  apply nth_error_None in E. lia.
Qed.

Lemma ext_int_all_false {A} : forall (l : list A), ext_of (repeat false (length l)) l = [] /\ int_of (repeat false (length l)) l = l.
Proof. induction l as [|x l [E1 E2]]; cbn; [split; reflexivity|]. rewrite E1, E2. split; reflexivity. Qed.

Lemma merge_all_false {A} : forall (j : list A), merge (repeat false (length j)) [] j = j.
Proof. induction j as [|x j IH]; cbn; [reflexivity|]. now rewrite IH. Qed.

(* a[:, .., :] is a *)
Lemma nd_index_all (a : nd str) : nd_wf a = true -> nd_index a (repeat KAll (length (shp a))) = Ok a.
Proof.
  intros Hwf. unfold nd_index. rewrite repeat_length, Nat.eqb_refl. cbn [negb].
  assert (Em : forall r, map key_is_int (repeat KAll r) = repeat false r).
  { induction r as [|r IH]; cbn; [reflexivity|]. now rewrite IH. }
  assert (Ek : forall r, key_ints (repeat KAll r) = []).
  { unfold key_ints. induction r as [|r IH]; cbn; [reflexivity|exact IH]. }
  rewrite Em, Ek. destruct (ext_int_all_false (shp a)) as [E1 E2]. rewrite E1, E2. cbn [in_bounds negb].
  rewrite (FSStoreFacts.dat_enumerates a); [destruct a; reflexivity|exact Hwf|].
  intros idx Hidx. apply FSStoreFacts.all_indices_in_bounds in Hidx.
  rewrite <- (in_bounds_len (shp a) idx Hidx), merge_all_false.
  destruct (nd_get_in_bounds a idx Hwf Hidx) as [x Hx]. exists x. rewrite Hx. split; reflexivity.
Qed.

Section FreshSpec.
  Variable body : mfunc -> env -> result (list val).
  Variables (f : mfunc) (q k : str) (dims : dims_t) (ms' : mapspec).
  Hypothesis Hnone : fspec f = None.
  Hypothesis Hnew : new_spec f q dims k = Ok ms'.
  Variable sh : list nat.
  Variable arrs : list (nd str).
  Hypothesis Hshape : forall a, In a arrs -> shp a = sh /\ length (dat a) = prod sh.
  Hypothesis Hrank : dict_get dims q = Some (S (length sh)).       (* the rank of q after the axis is added *)
  Hypothesis Hsh : sh <> [].
  Variable n : nat.
  Variable an : nd str.
  Hypothesis Han : nth_error arrs n = Some an.

  Lemma fresh_spec_shape :
    ins ms' = [{| aname := q; axes := repeat None (length sh) ++ [Some k] |}]
    /\ outs ms' = map (fun o => {| aname := o; axes := [Some k] |}) (fouts f) /\ fouts f <> [].
  Proof.
    unfold new_spec in Hnew. rewrite Hnone in Hnew.
    destruct (mk_aspec q (axes_from_dims q dims k)) as [i|] eqn:Ei; cbn [bind] in Hnew; [|discriminate].
    destruct (mapM (fun o => mk_aspec o [Some k]) (fouts f)) as [o|] eqn:Eo; cbn [bind] in Hnew; [|discriminate].
    apply mk_aspec_ok in Ei as (_ & Ei1 & Ei2). unfold axes_from_dims in Ei2. rewrite Hrank in Ei2.
    replace (S (length sh) - 1) with (length sh) in Ei2 by lia.
    assert (Ho : o = map (fun o => {| aname := o; axes := [Some k] |}) (fouts f)).
    { apply (mapM_is_map _ _ _ _ Eo). intros x y _ Ex. apply mk_aspec_ok in Ex as (_ & E1 & E2). destruct y; cbn in *; subst; reflexivity. }
    assert (Hms : ms' = {| ins := [i]; outs := o |}).
    { unfold mk_mapspec in Hnew. destruct o as [|o0 rest]; [discriminate|].
      destruct (existsb _ (o0 :: rest)); [discriminate|]. destruct (negb _); [discriminate|]. destruct (negb _); [discriminate|].
      congruence. }
    subst ms'. cbn [ins outs]. split; [|split; [exact Ho|]].
    - destruct i; cbn in *; subst; reflexivity.
    - intros E0. rewrite E0 in Ho. cbn in Ho. subst o. discriminate.
  Qed.

  Lemma fresh_external : external_indices ms' = [k].
  Proof.
    destruct fresh_spec_shape as (Ei & Eo & Hne). unfold external_indices, output_indices, input_indices_list.
    rewrite Ei, Eo. destruct (fouts f) as [|o0 r]; [congruence|]. cbn [map flat_map indices axes somes app filter].
    rewrite app_nil_r. unfold indices. cbn [axes]. rewrite somes_app_loc. cbn [somes].
    assert (E : mem_str k (somes (repeat None (length sh)) ++ [k]) = true) by (apply mem_str_In; apply in_or_app; right; left; reflexivity).
    rewrite E. reflexivity.
  Qed.

  Lemma fresh_arg_at pv :
    arg_at ms' [n] (setq q (VA (stacked sh arrs)) pv) = Ok (setq q (VA an) pv).
  Proof.
    destruct fresh_spec_shape as (Ei & _ & _). unfold arg_at. rewrite Ei. cbn [find aname fst snd setq].
    rewrite str_eqb_sym. destruct (str_eqb (fst pv) q) eqn:Eq; [|unfold setq; rewrite Eq; reflexivity].
    rewrite fresh_external. cbn [axes]. rewrite mapM_app_loc.
    assert (E1 : mapM (fun ax : option str => match ax with
                        | None => Ok KAll
                        | Some x => match pos_of x [k] with
                                    | Some p => match nth_error [n] p with Some c => Ok (KInt c) | None => Err IndexError end
                                    | None => Err KeyError end end) (repeat None (length sh)) = Ok (repeat KAll (length sh))).
    { generalize (length sh). induction n0 as [|r IH]; [reflexivity|]. cbn [repeat mapM]. rewrite IH. reflexivity. }
    rewrite E1. cbn [bind mapM pos_of]. rewrite str_eqb_refl. cbn [nth_error bind app].
    destruct (Hshape an (nth_error_In _ _ Han)) as [Hs Hd].
    rewrite (stacked_index_val sh arrs Hshape (repeat KAll (length sh)) n an Han).
    unfold index_val. rewrite <- Hs. rewrite nd_index_all by (unfold nd_wf; rewrite Hd, Hs; apply Nat.eqb_refl).
    cbn [bind]. rewrite Hs. destruct sh; [congruence|]. cbn [bind]. unfold setq. rewrite Eq. reflexivity.
  Qed.

  (* element n of output j of the function that got `q[:, .., k] -> outs[k]`, from q := stack, is the j-th value the
     ORIGINAL (unmapped) function returns from q := the n-th array *)
  Theorem fresh_elem kw j :
    denote_elem body f ms' (map (setq q (VA (stacked sh arrs))) kw) [true] j [n]
    = do outs <- body f (map (setq q (VA an)) kw);
      match nth_error outs j with
      | Some (VS x) => Ok x
      | _ => Err ValueError
      end.
  Proof.
    unfold denote_elem. cbn [ext_of forallb id andb]. rewrite mapM_map_loc.
    assert (E : mapM (fun x => arg_at ms' [n] (setq q (VA (stacked sh arrs)) x)) kw = Ok (map (setq q (VA an)) kw)).
    { induction kw as [|pv t IH]; cbn [mapM map]; [reflexivity|]. rewrite fresh_arg_at. cbn [bind]. rewrite IH. reflexivity. }
    rewrite E. cbn [bind]. destruct (body f (map (setq q (VA an)) kw)) as [outs|err]; cbn [bind]; [|reflexivity].
    destruct (nth_error outs j) as [[x|a]|]; reflexivity.
  Qed.
End FreshSpec.

(* non-vacuity: g(y, c) -> z without MapSpec; add_mapspec_axis reaches it through y (rank 2 after the axis is added):
   `y[:, k] -> z[k]`; element 1 of the new z is what g returns from the second stacked array *)
Example add_axis_fresh_instance :
  let g := {| fname := s "g"; fouts := [s "z"]; fparams := [s "y"; s "c"]; fbound := []; fdefaults := [];
              fspec := None; fint := []; fret := [] |} in
  let a0 := {| shp := [2]; dat := [s "p"; s "q"] |} in
  let a1 := {| shp := [2]; dat := [s "r"; s "t"] |} in
  let body := fun (h : mfunc) (kw : env) =>
                match kw with [(_, VA a); (_, VS c)] => Ok [VS (s "g(" ++ StrUtil.join (s "|") (dat a) ++ s "," ++ c ++ s ")")] | _ => Err ValueError end in
  exists ms', new_spec g (s "y") [(s "y", 2)] (s "k") = Ok ms' /\ print ms' = s "y[:, k] -> z[k]"
    /\ denote_elem body g ms' [(s "y", VA (stacked [2] [a0; a1])); (s "c", VS (s "C"))] [true] 0 [1] = Ok (s "g(r|t,C)")
    /\ body g [(s "y", VA a1); (s "c", VS (s "C"))] = Ok [VS (s "g(r|t,C)")].
Proof. cbv zeta. eexists. split; [vm_compute; reflexivity|]. repeat split; vm_compute; reflexivity. Qed.


(* ------------------------------------------------------------------ D. a mapped function that takes q whole: q is appended *)
Definition appended (q k : str) (r : nat) (ms ms' : mapspec) : Prop :=
  ins ms' = ins ms ++ [{| aname := q; axes := repeat None r ++ [Some k] |}]
  /\ outs ms' = map (add_ax k) (outs ms).

Lemma find_app_none {A} (P : A -> bool) l l' : find P l = None -> find P (l ++ l') = find P l'.
Proof. induction l as [|x l IH]; cbn; [reflexivity|]. destruct (P x); [discriminate|exact IH]. Qed.
Lemma find_app_some {A} (P : A -> bool) l l' x : find P l = Some x -> find P (l ++ l') = Some x.
Proof. induction l as [|y l IH]; cbn; [discriminate|]. destruct (P y); [auto|exact IH]. Qed.
Lemma somes_repeat_none {A} r : somes (repeat (@None A) r) = [].
Proof. induction r as [|r IH]; cbn; [reflexivity|exact IH]. Qed.

Section AppendedFunc.
  Variable body : mfunc -> env -> result (list val).
  Variables (q k : str) (ms ms' : mapspec).
  Variable sh : list nat.
  Hypothesis Happ : appended q k (length sh) ms ms'.
  Hypothesis Hfresh : forall a, In a (ins ms ++ outs ms) -> ~ In k (indices a).
  Hypothesis Hq : ~ In q (map aname (ins ms)).                                       (* q is taken whole *)
  Hypothesis Houts : outs ms <> [].
  Hypothesis Hsh : sh <> [].

  Lemma app_output_indices : output_indices ms' = output_indices ms ++ [k].
  Proof.
    unfold output_indices. rewrite (proj2 Happ). destruct (outs ms) as [|o0 r]; [congruence|]. cbn [map].
    unfold indices, add_ax. cbn [axes]. rewrite somes_app_loc. reflexivity.
  Qed.

  Lemma app_input_indices n : In n (input_indices_list ms') <-> In n (input_indices_list ms) \/ n = k.
  Proof.
    unfold input_indices_list. rewrite (proj1 Happ), flat_map_app. cbn [flat_map]. rewrite app_nil_r.
    unfold indices at 2. cbn [axes]. rewrite somes_app_loc, somes_repeat_none. cbn [somes app].
    split; [intros H; apply in_app_or in H as [H|[<-|[]]]; auto|]. intros [H| ->]; apply in_or_app; [left; exact H|right; left; reflexivity].
  Qed.

  Lemma app_k_not_output : ~ In k (output_indices ms).
  Proof.
    unfold output_indices. destruct (outs ms) as [|o0 r] eqn:Eo; [congruence|]. apply (Hfresh o0). apply in_or_app. right. left. reflexivity.
  Qed.

  Lemma app_external : external_indices ms' = external_indices ms ++ [k].
  Proof.
    unfold external_indices. rewrite app_output_indices, filter_app. f_equal.
    - apply filter_ext_in. intros n Hn.
      destruct (mem_str n (input_indices_list ms)) eqn:E.
      + apply mem_str_In. apply app_input_indices. left. apply mem_str_In. exact E.
      + destruct (mem_str n (input_indices_list ms')) eqn:E'; [|reflexivity]. apply mem_str_In in E'.
        apply app_input_indices in E' as [E'| ->]; [apply mem_str_In in E'; congruence|].
        exfalso. apply app_k_not_output. exact Hn.
    - cbn. assert (E : mem_str k (input_indices_list ms') = true) by (apply mem_str_In; apply app_input_indices; right; reflexivity).
      rewrite E. reflexivity.
  Qed.

  Variable e : list nat.
  Variable n : nat.
  Hypothesis He : length e = length (external_indices ms).
  Variable arrs : list (nd str).
  Hypothesis Hshape : forall a, In a arrs -> shp a = sh /\ length (dat a) = prod sh.
  Variable an : nd str.
  Hypothesis Han : nth_error arrs n = Some an.

  Lemma arg_at_appended pv :
    arg_at ms' (e ++ [n]) (setq q (VA (stacked sh arrs)) pv) = arg_at ms e (setq q (VA an) pv).
  Proof.
    unfold arg_at. cbn [fst snd setq]. rewrite (proj1 Happ), app_external.
    fold (keyf (external_indices ms ++ [k]) (e ++ [n])). fold (keyf (external_indices ms) e).
    destruct (find (fun a => str_eqb (aname a) (fst pv)) (ins ms)) as [a|] eqn:Ef.
    - rewrite (find_app_some _ _ _ a Ef). pose proof Ef as Ef'. apply find_some in Ef' as [Ha Hn]. apply str_eqb_eq in Hn.
      assert (Eq : str_eqb (fst pv) q = false).
      { apply str_eqb_neq. intros E0. apply Hq. rewrite <- E0, <- Hn. apply in_map. exact Ha. }
      rewrite Eq.
      rewrite (mapM_ext_in (keyf (external_indices ms ++ [k]) (e ++ [n])) (keyf (external_indices ms) e)); [reflexivity|].
      intros ax Hax. apply (keyf_old k ms e n He). intros ->. apply (Hfresh a); [apply in_or_app; left; exact Ha|].
      apply in_somes. exact Hax.
    - rewrite (find_app_none _ _ _ Ef). cbn [find aname]. rewrite str_eqb_sym.
      destruct (str_eqb (fst pv) q) eqn:Eq; [|unfold setq; rewrite Eq; reflexivity].
      cbn [axes]. rewrite mapM_app_loc.
      assert (E1 : forall r, mapM (keyf (external_indices ms ++ [k]) (e ++ [n])) (repeat None r) = Ok (repeat KAll r)).
      { induction r as [|r IH]; [reflexivity|]. cbn [repeat mapM keyf]. rewrite IH. reflexivity. }
      rewrite E1. cbn [bind mapM]. rewrite (keyf_new k ms Hfresh Houts e n He). cbn [bind].
      destruct (Hshape an (nth_error_In _ _ Han)) as [Hs Hd].
      rewrite (stacked_index_val sh arrs Hshape (repeat KAll (length sh)) n an Han).
      unfold index_val. rewrite <- Hs. rewrite nd_index_all by (unfold nd_wf; rewrite Hd, Hs; apply Nat.eqb_refl).
      cbn [bind]. rewrite Hs. destruct sh; [congruence|]. cbn [bind]. unfold setq. rewrite Eq. reflexivity.
  Qed.

  Variable f : mfunc.
  Variable kw : env.
  Variable mask : list bool.
  Variable idx : list nat.
  Hypothesis Hlen : length mask = length idx.
  Hypothesis Hidx : ext_of mask idx = e.

  Theorem appended_elem j :
    denote_elem body f ms' (map (setq q (VA (stacked sh arrs))) kw) (mask ++ [true]) j (idx ++ [n])
    = denote_elem body f ms (map (setq q (VA an)) kw) mask j idx.
  Proof.
    unfold denote_elem. destruct (ext_int_snoc mask idx n Hlen) as [E1 E2]. rewrite E1, E2, Hidx.
    rewrite !mapM_map_loc. rewrite (mapM_ext_in _ (fun pv => arg_at ms e (setq q (VA an) pv))) by (intros pv _; apply arg_at_appended).
    rewrite forallb_app. cbn [forallb id]. rewrite andb_true_r. reflexivity.
  Qed.
End AppendedFunc.

Lemma new_spec_appended f q dims k ms ms' r : fspec f = Some ms -> mem_str q (map aname (ins ms)) = false ->
  (forall a, In a (outs ms) -> has_axis k a = false) -> dict_get dims q = Some (S r) ->
  new_spec f q dims k = Ok ms' -> appended q k r ms ms' /\ outs ms <> [].
Proof.
  intros Es Hm Hf Hd E. unfold new_spec in E. rewrite Es, Hm in E.
  destruct (mk_aspec q (axes_from_dims q dims k)) as [a|] eqn:Ea; cbn [bind] in E; [|discriminate].
  destruct (mapM _ (outs ms)) as [o|] eqn:Eo; cbn [bind] in E; [|discriminate].
  apply mk_aspec_ok in Ea as (_ & Ea1 & Ea2). unfold axes_from_dims in Ea2. rewrite Hd in Ea2.
  replace (S r - 1) with r in Ea2 by lia.
  assert (Ho : o = map (add_ax k) (outs ms)).
  { apply (mapM_is_map _ _ _ _ Eo). intros x x' Hx Ex. rewrite (Hf x Hx) in Ex. cbn [negb] in Ex. apply add_axes_is_add_ax. exact Ex. }
  assert (Hms : ms' = {| ins := ins ms ++ [a]; outs := o |}).
  { unfold mk_mapspec in E. destruct o as [|o0 rest]; [discriminate|].
    destruct (existsb _ (o0 :: rest)); [discriminate|]. destruct (negb _); [discriminate|]. destruct (negb _); [discriminate|].
    congruence. }
  split.
  - subst ms'. split; cbn [ins outs]; [|exact Ho]. destruct a; cbn in *; subst; reflexivity.
  - intros E0. rewrite E0 in Ho. cbn in Ho. subst o. discriminate.
Qed.

(* add_axis_lifts, pointwise, third branch of new_spec: a mapped function that takes q WHOLE *)
Theorem add_axis_lifts_elem_whole body f q dims k ms ms' e n sh arrs an kw mask idx j :
  fspec f = Some ms -> mem_str q (map aname (ins ms)) = false ->
  (forall a, In a (ins ms ++ outs ms) -> has_axis k a = false) ->
  dict_get dims q = Some (S (length sh)) -> sh <> [] ->
  new_spec f q dims k = Ok ms' ->
  (forall a, In a arrs -> shp a = sh /\ length (dat a) = prod sh) -> nth_error arrs n = Some an ->
  length mask = length idx -> ext_of mask idx = e -> length e = length (external_indices ms) ->
  denote_elem body f ms' (map (setq q (VA (stacked sh arrs))) kw) (mask ++ [true]) j (idx ++ [n])
  = denote_elem body f ms (map (setq q (VA an)) kw) mask j idx.
Proof.
  intros Es Hm Hf Hd Hsh E Hshape Han Hlen Hidx He.
  destruct (new_spec_appended f q dims k ms ms' (length sh) Es Hm (fun a Ha => Hf a (in_or_app _ _ a (or_intror Ha))) Hd E) as [HA Ho].
  assert (Hfr : forall a, In a (ins ms ++ outs ms) -> ~ In k (indices a)).
  { intros a Ha. apply has_axis_false. apply Hf. exact Ha. }
  assert (Hq : ~ In q (map aname (ins ms))).
  { intros Hin. apply mem_str_In in Hin. congruence. }
  exact (appended_elem body q k ms ms' sh HA Hfr Hq Ho Hsh e n He arrs Hshape an Han f kw mask idx Hlen Hidx j).
Qed.

(* non-vacuity: h : x[i] -> y[i] takes w whole; the axis added for w gives `x[i], w[:, k] -> y[i, k]`;
   element (1, 1) of the new y is element 1 of the old y computed with w := the second stacked array *)
Example add_axis_whole_instance :
  let A nm ax := {| aname := nm; axes := ax |} in
  let ms := {| ins := [A (s "x") [Some (s "i")]]; outs := [A (s "y") [Some (s "i")]] |} in
  let h := {| fname := s "h"; fouts := [s "y"]; fparams := [s "x"; s "w"]; fbound := []; fdefaults := [];
              fspec := Some ms; fint := []; fret := [] |} in
  let a0 := {| shp := [2]; dat := [s "p"; s "q"] |} in
  let a1 := {| shp := [2]; dat := [s "r"; s "t"] |} in
  let X := VA {| shp := [2]; dat := [s "u"; s "v"] |} in
  let body := fun (g : mfunc) (kw : env) =>
                match kw with [(_, VS x); (_, VA a)] => Ok [VS (s "h(" ++ x ++ s "," ++ StrUtil.join (s "|") (dat a) ++ s ")")] | _ => Err ValueError end in
  exists ms', new_spec h (s "w") [(s "w", 2)] (s "k") = Ok ms' /\ print ms' = s "x[i], w[:, k] -> y[i, k]"
    /\ denote_elem body h ms' [(s "x", X); (s "w", VA (stacked [2] [a0; a1]))] [true; true] 0 [1; 1] = Ok (s "h(v,r|t)")
    /\ denote_elem body h ms [(s "x", X); (s "w", VA a1)] [true] 0 [1] = Ok (s "h(v,r|t)").
Proof. cbv zeta. eexists. split; [vm_compute; reflexivity|]. repeat split; vm_compute; reflexivity. Qed.

(* ------------------------------------------------------------------ E. assembling the elements into arrays *)
Lemma all_indices_snoc : forall sh K,
  all_indices (sh ++ [K]) = flat_map (fun idx => map (fun n => idx ++ [n]) (seq 0 K)) (all_indices sh).
Proof.
  induction sh as [|d sh IH]; intros K.
  - cbn [app all_indices]. generalize (seq 0 K). intros l. cbn [flat_map]. rewrite app_nil_r. induction l as [|x l IHl]; [reflexivity|]. cbn [flat_map map app all_indices]. f_equal; try exact IHl.
  - cbn [app all_indices]. rewrite IH.
    induction (seq 0 d) as [|i l IHl]; cbn [flat_map]; [reflexivity|].
    rewrite flat_map_app, IHl. f_equal.
    generalize (all_indices sh). intros L. induction L as [|idx L IHL]; cbn [flat_map map]; [reflexivity|].
    rewrite map_app, IHL. f_equal. rewrite map_map. reflexivity.
Qed.

Lemma every_nth_app {A} K n : forall (l1 l2 : list A) i,
  every_nth K n i (l1 ++ l2) = every_nth K n i l1 ++ every_nth K n (i + length l1) l2.
Proof.
  induction l1 as [|x l1 IH]; intros l2 i; cbn [app every_nth length]; [rewrite Nat.add_0_r; reflexivity|].
  rewrite IH, <- app_assoc. replace (S i + length l1) with (i + S (length l1)) by lia. reflexivity.
Qed.

Lemma every_nth_window {A} K n i : i mod K = 0 -> forall (b : list A) t0, t0 + length b <= K ->
  every_nth K n (i + t0) b = match (if t0 <=? n then nth_error b (n - t0) else None) with Some x => [x] | None => [] end.
Proof.
  intros Hi. induction b as [|x b IH]; intros t0 Hl; cbn [every_nth length] in *.
  - destruct (t0 <=? n); [destruct (n - t0)|]; reflexivity.
  - assert (HK : K <> 0) by lia.
    assert (Em : (i + t0) mod K = t0).
    { rewrite Nat.add_mod by exact HK. rewrite Hi. cbn [Nat.add]. rewrite Nat.mod_mod by exact HK. apply Nat.mod_small. lia. }
    rewrite Em. replace (S (i + t0)) with (i + S t0) by lia. rewrite IH by lia.
    destruct (Nat.eqb_spec t0 n) as [->|Hne].
    + rewrite Nat.leb_refl, Nat.sub_diag. cbn [nth_error]. destruct (S n <=? n) eqn:E; [apply Nat.leb_le in E; lia|]. reflexivity.
    + cbn [app]. destruct (t0 <=? n) eqn:E1.
      * apply Nat.leb_le in E1. assert (E2 : S t0 <=? n = true) by (apply Nat.leb_le; lia). rewrite E2.
        replace (n - t0) with (S (n - S t0)) by lia. reflexivity.
      * apply Nat.leb_gt in E1. assert (E2 : S t0 <=? n = false) by (apply Nat.leb_gt; lia). rewrite E2. reflexivity.
Qed.

Lemma every_nth_block {A} K n i (b : list A) y : i mod K = 0 -> length b = K -> nth_error b n = Some y ->
  every_nth K n i b = [y].
Proof.
  intros Hi Hl Hn. pose proof (every_nth_window K n i Hi b 0) as H. rewrite Nat.add_0_r in H. rewrite H by lia.
  cbn [Nat.leb]. rewrite Nat.sub_0_r, Hn. reflexivity.
Qed.

Lemma mapM_blocks {A} (F' : list nat -> result A) (G : nat -> list nat -> result A) K n :
  n < K -> forall L d' i, (forall idx m, In idx L -> m < K -> F' (idx ++ [m]) = G m idx) -> i mod K = 0 ->
  mapM F' (flat_map (fun idx => map (fun m => idx ++ [m]) (seq 0 K)) L) = Ok d' ->
  mapM (G n) L = Ok (every_nth K n i d').
Proof.
  intros Hn. induction L as [|idx L IH]; intros d' i HF Hi E; cbn [flat_map] in E.
  - cbn in E. injection E as <-. reflexivity.
  - rewrite mapM_app_loc in E. rewrite mapM_map_loc in E.
    destruct (mapM (fun x => F' (idx ++ [x])) (seq 0 K)) as [blk|] eqn:Eb; cbn [bind] in E; [|discriminate].
    destruct (mapM F' (flat_map (fun idx0 => map (fun m => idx0 ++ [m]) (seq 0 K)) L)) as [rest|] eqn:Er; cbn [bind] in E; [|discriminate].
    injection E as <-.
    assert (Hlen : length blk = K).
    { rewrite (mapM_length _ _ _ Eb). apply seq_length. }
    destruct (mapM_nth _ _ _ n n Eb (nth_error_seq0 K n Hn)) as (y & Hy & Hnth).
    rewrite HF in Hy by (try (left; reflexivity); exact Hn).
    cbn [mapM]. rewrite Hy. cbn [bind].
    rewrite every_nth_app, Hlen, (every_nth_block K n i blk y Hi Hlen Hnth).
    rewrite (IH rest (i + K)); [reflexivity|intros idx0 m H0 Hm; apply HF; [right; exact H0|exact Hm]| |reflexivity].
    assert (HK : K <> 0) by lia. rewrite Nat.add_mod by exact HK. rewrite Hi, Nat.mod_same by exact HK. cbn. apply Nat.mod_0_l. exact HK.
Qed.

Lemma mapM_transfer {A B C} (H' : A -> result B) (H : A -> result C) (P : B -> C -> Prop) : forall l r',
  mapM H' l = Ok r' -> (forall x y', In x l -> H' x = Ok y' -> exists y, H x = Ok y /\ P y' y) ->
  exists r, mapM H l = Ok r /\ Forall2 P r' r.
Proof.
  induction l as [|x l IH]; intros r' E HP; cbn in E.
  - injection E as <-. exists []. split; [reflexivity|constructor].
  - destruct (H' x) as [y'|] eqn:Ex; [|discriminate]. cbn in E. destruct (mapM H' l) as [ys'|] eqn:El; [|discriminate].
    cbn in E. injection E as <-. destruct (HP x y' (or_introl eq_refl) Ex) as (y & Hy & Py).
    destruct (IH ys' eq_refl) as (ys & Hys & Pys). { intros x0 y0 Hx0. apply HP. right. exact Hx0. }
    exists (y :: ys). cbn. rewrite Hy. cbn. rewrite Hys. cbn. split; [reflexivity|constructor; assumption].
Qed.

(* from the pointwise statement to arrays: every output array of the function with the new axis has, at index n
   along the new (last) axis, the output array of the original function *)
Theorem lifts_mapped body f ms ms' kw' (kwn : nat -> env) sh0 K mask arrs' :
  forallb id mask = true ->
  (forall n idx j, n < K -> In idx (all_indices sh0) ->
     denote_elem body f ms' kw' (mask ++ [true]) j (idx ++ [n]) = denote_elem body f ms (kwn n) mask j idx) ->
  denote_mapped body f ms' kw' (sh0 ++ [K]) (mask ++ [true]) = Ok arrs' ->
  forall n, n < K -> exists arrs_n, denote_mapped body f ms (kwn n) sh0 mask = Ok arrs_n
    /\ Forall2 (fun A' A => shp A' = sh0 ++ [K] /\ shp A = sh0 /\ dat A = every_nth K n 0 (dat A')) arrs' arrs_n.
Proof.
  intros Hmask Hpt E n Hn. unfold denote_mapped in *. unfold ret_shape_ok in *.
  rewrite forallb_app in E. cbn [forallb id] in E. rewrite Hmask in E. cbn [andb bind] in E. rewrite Hmask. cbn [bind].
  apply (mapM_transfer _ _ _ _ _ E). intros j A' _ Ej.
  destruct (mapM (denote_elem body f ms' kw' (mask ++ [true]) j) (all_indices (sh0 ++ [K]))) as [d'|] eqn:Ed; cbn [bind] in Ej; [|discriminate].
  injection Ej as <-. rewrite all_indices_snoc in Ed.
  pose proof (mapM_blocks (denote_elem body f ms' kw' (mask ++ [true]) j) (fun m => denote_elem body f ms (kwn m) mask j) K n
                Hn (all_indices sh0) d' 0 (fun idx m Hin Hm => Hpt m idx j Hm Hin) (Nat.mod_0_l K ltac:(lia)) Ed) as Hd.
  rewrite Hd. cbn [bind]. eexists. split; [reflexivity|]. cbn [shp dat]. repeat split.
Qed.

(* slice_last reads exactly that *)
Lemma slice_last_arr n sh0 K (d : list str) : n < K ->
  slice_last n (VA {| shp := sh0 ++ [K]; dat := d |})
  = Some (match sh0, every_nth K n 0 d with
          | [], [x] => VS x
          | _, _ => VA {| shp := sh0; dat := every_nth K n 0 d |}
          end).
Proof.
  intros Hn. unfold slice_last. cbn [shp dat]. rewrite rev_app_distr. cbn [rev app].
  destruct (K <=? n) eqn:E; [apply Nat.leb_le in E; lia|]. rewrite rev_involutive. destruct sh0; [destruct (every_nth K n 0 d) as [|x [|y t]]|]; reflexivity.
Qed.

Lemma ext_of_all_true {A} : forall (mask : list bool) (l : list A), forallb id mask = true -> length mask = length l -> ext_of mask l = l.
Proof.
  induction mask as [|b mask IH]; intros [|x l] H L; try discriminate; [reflexivity|].
  cbn in H. apply andb_true_iff in H as [Hb H]. unfold id in Hb. subst b. cbn. rewrite IH; [reflexivity|exact H|cbn in L; lia].
Qed.

Definition as_val (A : nd str) : val := match shp A, dat A with [], [x] => VS x | _, _ => VA A end.

Lemma slices_of_parts sh0 K n (arrs' arrs_n : list (nd str)) : n < K ->
  Forall2 (fun A' A => shp A' = sh0 ++ [K] /\ shp A = sh0 /\ dat A = every_nth K n 0 (dat A')) arrs' arrs_n ->
  Forall2 (fun A' A => slice_last n (VA A') = Some (as_val A)) arrs' arrs_n.
Proof.
  intros Hn H. induction H as [|A' A l l' (H1 & H2 & H3) _ IH]; constructor; [|exact IH].
  destruct A' as [s' d']. destruct A as [s0 d0]. cbn [shp dat] in *. subst. rewrite (slice_last_arr n sh0 K d' Hn).
  unfold as_val. cbn [shp dat]. destruct sh0; [destruct (every_nth K n 0 d') as [|x [|y t]]|]; reflexivity.
Qed.

(* add_axis_lifts for ONE function with no internal axes, arrays: both branches of new_spec on a function that has a
   MapSpec.  Every output array of the function with the new axis, computed from q := stack of arrs, has as its slice
   at n along the new (last) axis the output array of the ORIGINAL function computed from q := arrs[n]. *)
Theorem add_axis_lifts_func body f q dims k ms ms' sh arrs kw sh0 mask arrs' :
  fspec f = Some ms ->
  (forall a, In a (ins ms ++ outs ms) -> has_axis k a = false) ->
  (mem_str q (map aname (ins ms)) = true \/ (dict_get dims q = Some (S (length sh)) /\ sh <> [])) ->
  new_spec f q dims k = Ok ms' ->
  (forall a, In a arrs -> shp a = sh /\ length (dat a) = prod sh) ->
  forallb id mask = true -> length mask = length sh0 -> length sh0 = length (external_indices ms) ->
  denote_mapped body f ms' (map (setq q (VA (stacked sh arrs))) kw) (sh0 ++ [length arrs]) (mask ++ [true]) = Ok arrs' ->
  forall n an, nth_error arrs n = Some an ->
  exists arrs_n, denote_mapped body f ms (map (setq q (VA an)) kw) sh0 mask = Ok arrs_n
    /\ Forall2 (fun A' A => slice_last n (VA A') = Some (as_val A)) arrs' arrs_n.
Proof.
  intros Es Hf Hcase E Hshape Hmask Hlen Hext Ed n an Han.
  assert (Hn : n < length arrs) by (apply nth_error_Some; congruence).
  destruct (lifts_mapped body f ms ms' (map (setq q (VA (stacked sh arrs))) kw)
              (fun m => map (setq q (VA (nth m arrs an))) kw) sh0 (length arrs) mask arrs' Hmask) with (n := n)
    as (arrs_n & En & Hparts); [|exact Ed|exact Hn|].
  - intros m idx j Hm Hin.
    assert (Hb : in_bounds sh0 idx = true) by (apply all_indices_in_bounds; exact Hin).
    assert (Li : length idx = length sh0) by (apply in_bounds_len; exact Hb).
    assert (Hm' : nth_error arrs m = Some (nth m arrs an)) by (apply nth_error_nth'; exact Hm).
    assert (He : ext_of mask idx = idx) by (apply ext_of_all_true; [exact Hmask|lia]).
    destruct (mem_str q (map aname (ins ms))) eqn:Em.
    + apply (add_axis_lifts_elem body f q dims k ms ms' idx m sh arrs (nth m arrs an) kw mask idx j Es Em Hf E Hshape Hm');
        [lia|exact He|lia].
    + destruct Hcase as [Hc|[Hd Hsh]]; [discriminate|].
      apply (add_axis_lifts_elem_whole body f q dims k ms ms' idx m sh arrs (nth m arrs an) kw mask idx j Es Em Hf Hd Hsh E Hshape Hm');
        [lia|exact He|lia].
  - exists arrs_n. split.
    + rewrite (nth_error_nth _ _ an Han) in En. exact En.
    + apply (slices_of_parts sh0 (length arrs) n arrs' arrs_n Hn Hparts).
Qed.

Lemma all_indices_1 K : all_indices [K] = map (fun i => [i]) (seq 0 K).
Proof. cbn [all_indices]. generalize (seq 0 K). intros l. induction l as [|x l IH]; [reflexivity|]. cbn [flat_map map app]. f_equal; try exact IH. Qed.

(* ... and the branch of a function WITHOUT MapSpec: element n of every output array of the function that got
   `q[:, .., k] -> outs[k]` is the value the original, unmapped call returns from q := arrs[n] *)
Theorem add_axis_lifts_func_fresh body f q k dims ms' sh arrs kw arrs' :
  fspec f = None -> new_spec f q dims k = Ok ms' ->
  (forall a, In a arrs -> shp a = sh /\ length (dat a) = prod sh) ->
  dict_get dims q = Some (S (length sh)) -> sh <> [] ->
  denote_mapped body f ms' (map (setq q (VA (stacked sh arrs))) kw) [length arrs] [true] = Ok arrs' ->
  forall n an, nth_error arrs n = Some an -> forall j A', nth_error arrs' j = Some A' ->
  exists outs_n x, body f (map (setq q (VA an)) kw) = Ok outs_n /\ nth_error outs_n j = Some (VS x)
                   /\ shp A' = [length arrs] /\ nth_error (dat A') n = Some x.
Proof.
  intros Es E Hshape Hd Hsh Ed n an Han j A' HA.
  assert (Hn : n < length arrs) by (apply nth_error_Some; congruence).
  unfold denote_mapped, ret_shape_ok in Ed. cbn [forallb id andb bind] in Ed.
  assert (Hj : j < length (fouts f)).
  { rewrite <- (seq_length (length (fouts f)) 0). rewrite <- (mapM_length _ _ _ Ed). apply nth_error_Some. congruence. }
  destruct (mapM_nth _ _ _ j j Ed (nth_error_seq0 _ j Hj)) as (A0 & EA & HA0).
  rewrite HA in HA0. injection HA0 as <-.
  destruct (mapM (denote_elem body f ms' (map (setq q (VA (stacked sh arrs))) kw) [true] j) (all_indices [length arrs])) as [d|] eqn:Edj;
    cbn [bind] in EA; [|discriminate]. injection EA as <-. cbn [shp dat].
  rewrite all_indices_1 in Edj.
  assert (Hnth : nth_error (map (fun i => [i]) (seq 0 (length arrs))) n = Some [n]).
  { rewrite nth_error_map, (nth_error_seq0 _ n Hn). reflexivity. }
  destruct (mapM_nth _ _ _ n [n] Edj Hnth) as (x & Ex & Hx).
  rewrite (fresh_elem body f q k dims ms' Es E sh arrs Hshape Hd Hsh n an Han kw j) in Ex.
  destruct (body f (map (setq q (VA an)) kw)) as [outs_n|] eqn:Eb; cbn [bind] in Ex; [|discriminate].
  destruct (nth_error outs_n j) as [[y|a]|] eqn:Eo; try discriminate. injection Ex as ->.
  exists outs_n, x. repeat split; [exact Eo|exact Hx].
Qed.

(* non-vacuity: f : x[i] -> y[i] with the axis k added for x, arrays: the new y has shape [2; 2]; its slice at 1 along
   the new axis is the y of the original function for the second stacked array *)
Example add_axis_lifts_func_instance :
  let A nm ax := {| aname := nm; axes := ax |} in
  let ms := {| ins := [A (s "x") [Some (s "i")]]; outs := [A (s "y") [Some (s "i")]] |} in
  let f := {| fname := s "f"; fouts := [s "y"]; fparams := [s "x"]; fbound := []; fdefaults := [];
              fspec := Some ms; fint := []; fret := [] |} in
  let a0 := {| shp := [2]; dat := [s "p"; s "q"] |} in
  let a1 := {| shp := [2]; dat := [s "r"; s "t"] |} in
  let body := fun (g : mfunc) (kw : env) => match kw with [(_, VS v)] => Ok [VS (s "f(" ++ v ++ s ")")] | _ => Err ValueError end in
  exists ms' Y' Y1, new_spec f (s "x") [(s "x", 2)] (s "k") = Ok ms'
    /\ denote_mapped body f ms' [(s "x", VA (stacked [2] [a0; a1]))] [2; 2] [true; true] = Ok [Y']
    /\ Y' = {| shp := [2; 2]; dat := [s "f(p)"; s "f(r)"; s "f(q)"; s "f(t)"] |}
    /\ denote_mapped body f ms [(s "x", VA a1)] [2] [true] = Ok [Y1]
    /\ slice_last 1 (VA Y') = Some (VA Y1).
Proof.
  cbv zeta. eexists. eexists. eexists. split; [vm_compute; reflexivity|]. split; [vm_compute; reflexivity|].
  split; [reflexivity|]. split; vm_compute; reflexivity.
Qed.
