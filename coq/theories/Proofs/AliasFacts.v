(* Proofs about the heap model Model/Alias.v (C10, aliasing clause):
     no_inplace_write   : no operation changes a dict / MapSpec cell that existed before it
     step_ext           : an operation only rebinds attributes of the pipeline object it is applied to (and of
                          that pipeline's own function objects); everything else it does is allocation
     mutation_isolated  : hence the observable state of a pipeline whose objects are disjoint from the target's
                          is the same before and after the operation *)
From Verif Require Import Base.Prelude Base.StrOrd Base.StrUtil Base.Graph Model.Pipe Model.Rewrite Model.Alias
  Proofs.GraphFacts.
Import Alias.

(* ------------------------------------------------------------------ heaps *)
Definition prefix (h h' : heap) : Prop := exists t, h' = h ++ t.

(* h' extends h; every dict / MapSpec cell of h and every object cell outside T is unchanged *)
Definition ext (T : list loc) (h h' : heap) : Prop :=
  length h <= length h' /\
  forall l c, nth_error h l = Some c -> (is_data c = true \/ ~ In l T) -> nth_error h' l = Some c.

Lemma prefix_refl h : prefix h h.
Proof. exists []. now rewrite app_nil_r. Qed.
Lemma prefix_trans a b c : prefix a b -> prefix b c -> prefix a c.
Proof. intros [t ->] [u ->]. exists (t ++ u). now rewrite app_assoc. Qed.
Lemma prefix_alloc h c : prefix h (fst (alloc h c)).
Proof. exists [c]. reflexivity. Qed.
Lemma prefix_nth h h' l c : prefix h h' -> nth_error h l = Some c -> nth_error h' l = Some c.
Proof.
  intros [t ->] H. rewrite nth_error_app1; [exact H|]. apply nth_error_Some. congruence.
Qed.
Lemma prefix_length h h' : prefix h h' -> length h <= length h'.
Proof. intros [t ->]. rewrite app_length. lia. Qed.

Lemma prefix_ext T h h' : prefix h h' -> ext T h h'.
Proof. intros P. split; [now apply prefix_length|]. intros l c H _. eapply prefix_nth; eauto. Qed.
Lemma ext_refl T h : ext T h h.
Proof. apply prefix_ext, prefix_refl. Qed.
Lemma ext_trans T a b c : ext T a b -> ext T b c -> ext T a c.
Proof.
  intros [L1 H1] [L2 H2]. split; [lia|]. intros l x Hx Hc. apply H2; [|exact Hc]. apply H1; assumption.
Qed.
Lemma ext_weaken T T' h h' : ext T h h' -> incl T T' -> ext T' h h'.
Proof.
  intros [L H] HI. split; [exact L|]. intros l c Hl Hc. apply H; [exact Hl|].
  destruct Hc as [Hd|Hn]; [left; exact Hd|right; intros Hin; apply Hn, HI, Hin].
Qed.

Lemma write_length h : forall l c, length (write h l c) = length h.
Proof. induction h as [|x h IH]; intros [|l] c; cbn; auto. Qed.
Lemma write_other h : forall l l' c, l' <> l -> nth_error (write h l c) l' = nth_error h l'.
Proof.
  induction h as [|x h IH]; intros [|l] [|l'] c Hne; cbn; try reflexivity; try congruence.
  apply IH. congruence.
Qed.
Lemma write_same h : forall l c, l < length h -> nth_error (write h l c) l = Some c.
Proof.
  induction h as [|x h IH]; intros [|l] c Hl; cbn in *; try lia; auto. apply IH. lia.
Qed.

(* a write to an object cell of T *)
Lemma ext_write T h l c0 c : nth_error h l = Some c0 -> is_data c0 = false -> In l T -> ext T h (write h l c).
Proof.
  intros H0 Hd Hin. split; [rewrite write_length; lia|].
  intros l' c' Hl' Hc. destruct (Nat.eq_dec l' l) as [->|Hne].
  - rewrite H0 in Hl'. injection Hl' as <-. destruct Hc as [Hc|Hc]; [congruence|contradiction].
  - rewrite write_other by exact Hne. exact Hl'.
Qed.

(* readers *)
Lemma get_func_nth h l f : get_func h l = Some f -> nth_error h l = Some (CFunc f).
Proof. unfold get_func. destruct (nth_error h l) as [[| | |]|]; intros E; try discriminate. now injection E as ->. Qed.
Lemma get_pipe_nth h l fs : get_pipe h l = Some fs -> nth_error h l = Some (CPipe fs).
Proof. unfold get_pipe. destruct (nth_error h l) as [[| | |]|]; intros E; try discriminate. now injection E as ->. Qed.
Lemma get_dict_nth h l d : get_dict h l = Some d -> nth_error h l = Some (CDict d).
Proof. unfold get_dict. destruct (nth_error h l) as [[| | |]|]; intros E; try discriminate. now injection E as ->. Qed.
Lemma get_spec_nth h l m : get_spec h l = Some m -> nth_error h l = Some (CSpec m).
Proof. unfold get_spec. destruct (nth_error h l) as [[| | |]|]; intros E; try discriminate. now injection E as ->. Qed.
Lemma nth_get_func h l f : nth_error h l = Some (CFunc f) -> get_func h l = Some f.
Proof. unfold get_func. now intros ->. Qed.
Lemma nth_get_pipe h l fs : nth_error h l = Some (CPipe fs) -> get_pipe h l = Some fs.
Proof. unfold get_pipe. now intros ->. Qed.
Lemma nth_get_dict h l d : nth_error h l = Some (CDict d) -> get_dict h l = Some d.
Proof. unfold get_dict. now intros ->. Qed.
Lemma nth_get_spec h l m : nth_error h l = Some (CSpec m) -> get_spec h l = Some m.
Proof. unfold get_spec. now intros ->. Qed.

(* ------------------------------------------------------------------ folds in the option monad *)
Lemma obind_some {A B} (x : option A) (f : A -> option B) r :
  obind x f = Some r -> exists a, x = Some a /\ f a = Some r.
Proof. destruct x; cbn; intros H; [eauto|discriminate]. Qed.

Lemma ofold_inv {A S} (R : S -> S -> Prop) (f : S -> A -> option S) :
  (forall s, R s s) -> (forall a b c, R a b -> R b c -> R a c) ->
  forall l st st', (forall s x s1, In x l -> f s x = Some s1 -> R s s1) ->
  ofold f l st = Some st' -> R st st'.
Proof.
  intros Hr Ht. induction l as [|x l IH]; intros st st' Hstep; cbn.
  - intros E. injection E as <-. apply Hr.
  - intros E. apply obind_some in E as (s1 & E1 & E2).
    eapply Ht; [eapply Hstep; [left; reflexivity|exact E1]|].
    apply IH; [|exact E2]. intros s y s2 Hy. apply Hstep. right. exact Hy.
Qed.

(* ------------------------------------------------------------------ allocation-only operations *)
Lemma or_empty_prefix h l r : or_empty h l = Some r -> prefix h (fst r).
Proof.
  unfold or_empty. intros E. apply obind_some in E as (d & _ & E). destruct d; injection E as <-.
  - apply prefix_alloc.
  - apply prefix_refl.
Qed.

Lemma new_func_prefix h sg a b c m i r : new_func h sg a b c m i = Some r -> prefix h (fst r).
Proof.
  unfold new_func. intros E.
  apply obind_some in E as (hr & E1 & E). apply obind_some in E as (hd & E2 & E).
  apply obind_some in E as (hb & E3 & E). injection E as <-.
  eapply prefix_trans; [eapply or_empty_prefix; eauto|].
  eapply prefix_trans; [eapply or_empty_prefix; eauto|].
  eapply prefix_trans; [eapply or_empty_prefix; eauto|]. apply prefix_alloc.
Qed.

Lemma copy_all_prefix cp : (forall h l r, cp h l = Some r -> prefix h (fst r)) ->
  forall fs h c, copy_all cp h fs = Some c -> prefix h (fst c).
Proof.
  intros Hcp fs h c E. unfold copy_all in E.
  apply (ofold_inv (fun a b : heap * list loc => prefix (fst a) (fst b))) in E; auto.
  - intros. apply prefix_refl.
  - intros a b c0. apply prefix_trans.
  - intros st x s1 _ E1. apply obind_some in E1 as (r & E1 & E2). injection E2 as <-. cbn. eapply Hcp; eauto.
Qed.

Lemma copy_func_prefix : forall n cm h lf r, copy_func n cm h lf = Some r -> prefix h (fst r).
Proof.
  induction n as [|n IH]; intros cm h lf r E; [discriminate|].
  cbn [copy_func] in E. apply obind_some in E as (f & Ef & E).
  destruct (o_inner f) as [lp|].
  - apply obind_some in E as (fs & Efs & E).
    apply obind_some in E as (c1 & E1 & E). apply obind_some in E as (c2 & E2 & E).
    cbn [alloc] in E. apply obind_some in E as (hr & E3 & E).
    apply obind_some in E as (d & Ed & E). apply obind_some in E as (b & Eb & E).
    apply obind_some in E as (lm & Em & E). injection E as <-.
    eapply prefix_trans; [eapply copy_all_prefix; [|exact E1]; intros; eapply IH; eauto|].
    eapply prefix_trans; [eapply copy_all_prefix; [|exact E2]; intros; eapply IH; eauto|].
    eapply prefix_trans; [apply (prefix_alloc (fst c2) (CPipe (snd c2)))|].
    eapply prefix_trans; [eapply or_empty_prefix; exact E3|].
    eapply prefix_trans; [apply (prefix_alloc (fst hr) (CDict d))|].
    eapply prefix_trans; [apply (prefix_alloc _ (CDict b))|].
    eapply prefix_trans; [|apply prefix_alloc].
    destruct cm; injection Em as <-; [apply prefix_alloc|apply prefix_refl].
  - destruct cm.
    + cbn [alloc] in E. eapply prefix_trans; [apply (prefix_alloc h (CSpec None))|]. eapply new_func_prefix; eauto.
    + eapply new_func_prefix; eauto.
Qed.

Lemma copy1_prefix h lf r : copy1 h lf = Some r -> prefix h (fst r).
Proof. apply copy_func_prefix. Qed.

Lemma new_pipeline_prefix h fs r : new_pipeline h fs = Some r -> prefix h (fst r).
Proof.
  unfold new_pipeline. intros E. apply obind_some in E as (c & E1 & E). injection E as <-.
  eapply prefix_trans; [eapply copy_all_prefix; [|exact E1]; apply copy1_prefix|]. apply prefix_alloc.
Qed.

Lemma pipeline_copy_prefix h lp r : pipeline_copy h lp = Some r -> prefix h (fst r).
Proof. unfold pipeline_copy. intros E. apply obind_some in E as (fs & _ & E). eapply new_pipeline_prefix; eauto. Qed.

Lemma pipeline_join_prefix h lp lq r : pipeline_join h lp lq = Some r -> prefix h (fst r).
Proof.
  unfold pipeline_join. intros E. apply obind_some in E as (fp & _ & E). apply obind_some in E as (fq & _ & E).
  apply obind_some in E as (c & E1 & E).
  eapply prefix_trans; [eapply copy_all_prefix; [|exact E1]; apply copy1_prefix|]. eapply new_pipeline_prefix; eauto.
Qed.

Lemma pickle_func_prefix : forall n h lf r, pickle_func n h lf = Some r -> prefix h (fst r).
Proof.
  induction n as [|n IH]; intros h lf r E; [discriminate|].
  cbn [pickle_func] in E. apply obind_some in E as (f & _ & E).
  apply obind_some in E as (rn & _ & E). apply obind_some in E as (d & _ & E).
  apply obind_some in E as (b & _ & E). apply obind_some in E as (m & _ & E).
  cbn [alloc] in E. apply obind_some in E as (hi & Ei & E). injection E as <-.
  eapply prefix_trans; [|apply prefix_alloc].
  assert (P4 : prefix h ((((h ++ [CDict rn]) ++ [CDict d]) ++ [CDict b]) ++ [CSpec m])).
  { exists ([CDict rn] ++ [CDict d] ++ [CDict b] ++ [CSpec m]). now rewrite !app_assoc. }
  eapply prefix_trans; [exact P4|].
  destruct (o_inner f) as [lp|].
  - apply obind_some in Ei as (fs & _ & Ei). apply obind_some in Ei as (c & Ec & Ei). injection Ei as <-.
    eapply prefix_trans; [|apply prefix_alloc].
    apply (ofold_inv (fun a b : heap * list loc => prefix (fst a) (fst b))) in Ec; auto.
    + intros. apply prefix_refl.
    + intros a0 b0 c0. apply prefix_trans.
    + intros st x s1 _ E1. apply obind_some in E1 as (y & E1 & E2). injection E2 as <-. cbn. eapply IH; eauto.
  - injection Ei as <-. apply prefix_refl.
Qed.

Lemma pipeline_pickle_prefix h lp r : pipeline_pickle h lp = Some r -> prefix h (fst r).
Proof.
  unfold pipeline_pickle. intros E. apply obind_some in E as (fs & _ & E). apply obind_some in E as (c & Ec & E).
  injection E as <-. eapply prefix_trans; [|apply prefix_alloc].
  apply (ofold_inv (fun a b : heap * list loc => prefix (fst a) (fst b))) in Ec; auto.
  - intros. apply prefix_refl.
  - intros a0 b0 c0. apply prefix_trans.
  - intros st x s1 _ E1. apply obind_some in E1 as (y & E1 & E2). injection E2 as <-. cbn.
    eapply pickle_func_prefix; eauto.
Qed.

Lemma new_nested_prefix h fs no r : new_nested h fs no = Some r -> prefix h (fst r).
Proof.
  unfold new_nested. intros E. apply obind_some in E as (nodes & _ & E).
  destruct (mk_nested nodes no) as [nd|]; [|discriminate].
  apply obind_some in E as (c1 & E1 & E). apply obind_some in E as (c2 & E2 & E).
  cbn [alloc] in E. injection E as <-.
  eapply prefix_trans; [eapply copy_all_prefix; [|exact E1]; apply copy1_prefix|].
  eapply prefix_trans; [eapply copy_all_prefix; [|exact E2]; intros; eapply copy_func_prefix; eauto|].
  unfold alloc. cbn [fst]. eexists. rewrite <- !app_assoc. reflexivity.
Qed.

Lemma pipeline_simplify_prefix h lp o c r : pipeline_simplify h lp o c = Some r -> prefix h (fst r).
Proof.
  unfold pipeline_simplify. intros E. apply obind_some in E as (p & _ & E). apply obind_some in E as (fs & _ & E).
  destruct (simplify_plan o c p) as [[rest groups]|]; [|discriminate].
  apply obind_some in E as (cc & Ec & E).
  eapply prefix_trans; [|eapply new_pipeline_prefix; exact E].
  apply (ofold_inv (fun a b : heap * list loc => prefix (fst a) (fst b))) in Ec; auto.
  - intros. apply prefix_refl.
  - intros a0 b0 c0. apply prefix_trans.
  - intros st x s1 _ E1. apply obind_some in E1 as (y & E1 & E2). injection E2 as <-. cbn.
    eapply new_nested_prefix; eauto.
Qed.

Lemma pipeline_split_prefix h lp o r : pipeline_split h lp o = Some r -> prefix h (fst r).
Proof.
  unfold pipeline_split. intros E. apply obind_some in E as (p & _ & E). apply obind_some in E as (fs & _ & E).
  destruct (producer (funcs p) o); [|discriminate].
  apply obind_some in E as (c & Ec & E).
  eapply prefix_trans; [eapply copy_all_prefix; [|exact Ec]; apply copy1_prefix|]. eapply new_pipeline_prefix; eauto.
Qed.

(* ------------------------------------------------------------------ in-place operations *)
Section InPlace.
  Variable spec_ren : alist -> str -> str.

  Lemma set_func_ext T h h1 lf f f' : get_func h lf = Some f -> prefix h h1 -> In lf T ->
    ext T h (set_func h1 lf f').
  Proof.
    intros Hf P Hin. eapply ext_trans; [apply prefix_ext; exact P|].
    unfold set_func. eapply ext_write; eauto.
    - eapply prefix_nth; [exact P|]. apply get_func_nth. exact Hf.
    - reflexivity.
  Qed.

  Lemma func_update_defaults_ext T h lf d ow h' : func_update_defaults h lf d ow = Some h' -> In lf T -> ext T h h'.
  Proof.
    unfold func_update_defaults. intros E Hin. apply obind_some in E as (f & Ef & E).
    apply obind_some in E as (old & _ & E). cbn [alloc] in E. injection E as <-.
    eapply set_func_ext; eauto. eexists; reflexivity.
  Qed.

  Lemma func_update_bound_ext T h lf d ow h' : func_update_bound h lf d ow = Some h' -> In lf T -> ext T h h'.
  Proof.
    unfold func_update_bound. intros E Hin. apply obind_some in E as (f & Ef & E).
    apply obind_some in E as (old & _ & E). cbn [alloc] in E. injection E as <-.
    eapply set_func_ext; eauto. eexists; reflexivity.
  Qed.

  Lemma func_update_renames_ext T h lf r h' : func_update_renames spec_ren h lf r = Some h' -> In lf T -> ext T h h'.
  Proof.
    unfold func_update_renames. intros E Hin. apply obind_some in E as (f & Ef & E).
    apply obind_some in E as (ren & _ & E). apply obind_some in E as (dfl & _ & E).
    apply obind_some in E as (bnd & _ & E). apply obind_some in E as (ms & _ & E).
    cbn [alloc] in E. destruct ms as [m|]; injection E as <-.
    - eapply set_func_ext; eauto. eexists. rewrite <- !app_assoc. reflexivity.
    - eapply set_func_ext; eauto. eexists. rewrite <- !app_assoc. reflexivity.
  Qed.

  (* a fold that updates functions of the list fs *)
  Lemma fold_funcs_ext T (f : heap -> loc -> option heap) fs :
    (forall hh g h1, In g fs -> f hh g = Some h1 -> ext T hh h1) ->
    forall h h', ofold f fs h = Some h' -> ext T h h'.
  Proof.
    intros Hstep h h' E. apply (ofold_inv (ext T)) in E; auto.
    - intros. apply ext_refl.
    - intros a b c. apply ext_trans.
  Qed.

  Definition owned (h : heap) (t : option loc) : list loc :=
    match t with
    | None => []
    | Some p => p :: match get_pipe h p with Some fs => fs | None => [] end
    end.

  Lemma pipeline_update_defaults_ext h lp d h' :
    pipeline_update_defaults h lp d = Some h' -> ext (owned h (Some lp)) h h'.
  Proof.
    unfold pipeline_update_defaults, owned. intros E. apply obind_some in E as (fs & Efs & E). rewrite Efs.
    eapply fold_funcs_ext; [|exact E]. intros hh g h1 Hg E1.
    apply obind_some in E1 as ([[ps os] b] & _ & E1).
    destruct (filter _ d); [injection E1 as <-; apply ext_refl|].
    eapply func_update_defaults_ext; eauto. right. exact Hg.
  Qed.

  Lemma pipeline_update_renames_ext h lp r h' :
    pipeline_update_renames spec_ren h lp r = Some h' -> ext (owned h (Some lp)) h h'.
  Proof.
    unfold pipeline_update_renames, owned. intros E. apply obind_some in E as (fs & Efs & E). rewrite Efs.
    eapply fold_funcs_ext; [|exact E]. intros hh g h1 Hg E1.
    apply obind_some in E1 as ([[ps os] b] & _ & E1).
    eapply func_update_renames_ext; eauto. right. exact Hg.
  Qed.

  Lemma pipeline_update_scope_ext h lp sc i o e h' :
    pipeline_update_scope spec_ren h lp sc i o e = Some h' -> ext (owned h (Some lp)) h h'.
  Proof.
    unfold pipeline_update_scope, owned. intros E. apply obind_some in E as (p & _ & E).
    apply obind_some in E as (fs & Efs & E). rewrite Efs.
    eapply fold_funcs_ext; [|exact E]. intros hh g h1 Hg E1.
    apply obind_some in E1 as ([[ps os] b] & _ & E1).
    destruct (inter_str _ _); [injection E1 as <-; apply ext_refl|].
    eapply func_update_renames_ext; eauto. right. exact Hg.
  Qed.

  Lemma find_func_in h lp o g fs : find_func h lp o = Some g -> get_pipe h lp = Some fs -> In g fs.
  Proof.
    unfold find_func. intros E Efs. rewrite Efs in E. cbn [obind] in E.
    apply obind_some in E as (hit & E & Ehit). subst hit.
    assert (G : forall l acc, ofold (fun acc g0 => match acc with
                                       | Some _ => Some acc
                                       | None => olet nm <- func_names h g0;
                                                 let '(_, os, _) := nm in
                                                 Some (if mem_str o os then Some g0 else None)
                                       end) l acc = Some (Some g) ->
                              acc = Some g \/ In g l).
    { induction l as [|x l IH]; intros acc E1; cbn in E1.
      - injection E1 as ->. left. reflexivity.
      - apply obind_some in E1 as (a1 & Ea & E1). apply IH in E1 as [->|Hin]; [|right; right; exact Hin].
        destruct acc as [y|].
        + injection Ea as <-. left. reflexivity.
        + apply obind_some in Ea as ([[ps os] b] & _ & Ea). injection Ea as Ea.
          destruct (mem_str o os); [|discriminate]. injection Ea as ->. right. left. reflexivity. }
    apply G in E as [E|E]; [discriminate|exact E].
  Qed.

  Lemma pipeline_drop_ext h lp o h' : pipeline_drop h lp o = Some h' -> ext (owned h (Some lp)) h h'.
  Proof.
    unfold pipeline_drop. intros E. apply obind_some in E as (g & _ & E). apply obind_some in E as (fs & Efs & E).
    injection E as <-. eapply ext_write; [apply get_pipe_nth; exact Efs|reflexivity|left; reflexivity].
  Qed.

  Lemma pipeline_add_ext T h lp lf h' fs : get_pipe h lp = Some fs -> pipeline_add h lp lf = Some h' -> In lp T ->
    ext T h h'.
  Proof.
    unfold pipeline_add. intros Efs E Hin. apply obind_some in E as (r & Er & E).
    apply obind_some in E as (cur & Ec & E). injection E as <-.
    eapply ext_trans; [apply prefix_ext; eapply copy1_prefix; exact Er|].
    eapply ext_write; [apply get_pipe_nth; exact Ec|reflexivity|exact Hin].
  Qed.

  Lemma pipeline_nest_ext h lp names no h' : pipeline_nest h lp names no = Some h' -> ext (owned h (Some lp)) h h'.
  Proof.
    unfold pipeline_nest. intros E. apply obind_some in E as (gs & _ & E). apply obind_some in E as (fs & Efs & E).
    apply obind_some in E as (r & Er & E).
    assert (Hlp : nth_error h lp = Some (CPipe fs)) by (apply get_pipe_nth; exact Efs).
    set (h1 := write h lp (CPipe (filter (fun x => negb (existsb (Nat.eqb x) gs)) fs))) in *.
    assert (E1 : ext (owned h (Some lp)) h h1).
    { unfold h1. eapply ext_write; [exact Hlp|reflexivity|left; reflexivity]. }
    eapply ext_trans; [exact E1|].
    eapply ext_trans; [apply prefix_ext; eapply new_nested_prefix; exact Er|].
    assert (Hp1 : get_pipe h1 lp = Some (filter (fun x => negb (existsb (Nat.eqb x) gs)) fs)).
    { apply nth_get_pipe. unfold h1. apply write_same. apply nth_error_Some. congruence. }
    assert (Hp2 : get_pipe (fst r) lp = Some (filter (fun x => negb (existsb (Nat.eqb x) gs)) fs)).
    { apply nth_get_pipe. eapply prefix_nth; [eapply new_nested_prefix; exact Er|]. apply get_pipe_nth. exact Hp1. }
    eapply pipeline_add_ext; [exact Hp2|exact E|left; reflexivity].
  Qed.

  (* THE step lemma: an operation allocates, and rebinds attributes only of the pipeline object it is applied
     to and of that pipeline's own function objects *)
  Theorem step_ext h x h' r : step spec_ren h x = Some (h', r) -> ext (owned h (target x)) h h'.
  Proof.
    destruct x; cbn [step target]; intros E.
    - apply obind_some in E as (y & Ey & E). injection E as <- _. apply prefix_ext. eapply pipeline_copy_prefix; eauto.
    - apply obind_some in E as (y & Ey & E). injection E as <- _. apply prefix_ext. eapply pipeline_pickle_prefix; eauto.
    - apply obind_some in E as (y & Ey & E). injection E as <- _. apply prefix_ext. eapply pipeline_join_prefix; eauto.
    - apply obind_some in E as (y & Ey & E). injection E as <- _. apply prefix_ext. eapply pipeline_simplify_prefix; eauto.
    - apply obind_some in E as (y & Ey & E). injection E as <- _. apply prefix_ext. eapply pipeline_split_prefix; eauto.
    - apply obind_some in E as (y & Ey & E). injection E as <- _. eapply pipeline_update_defaults_ext; eauto.
    - apply obind_some in E as (g & Eg & E). apply obind_some in E as (y & Ey & E). injection E as <- _.
      eapply func_update_bound_ext; [exact Ey|]. unfold owned. right.
      destruct (get_pipe h p) as [fs|] eqn:Efs.
      + eapply find_func_in; eauto.
      + unfold find_func in Eg. rewrite Efs in Eg. discriminate.
    - apply obind_some in E as (y & Ey & E). injection E as <- _. eapply pipeline_update_renames_ext; eauto.
    - apply obind_some in E as (y & Ey & E). injection E as <- _. eapply pipeline_update_scope_ext; eauto.
    - apply obind_some in E as (y & Ey & E). injection E as <- _. eapply pipeline_drop_ext; eauto.
    - apply obind_some in E as (y & Ey & E). injection E as <- _. eapply pipeline_nest_ext; eauto.
  Qed.

  (* no operation writes a dict or MapSpec that existed before it *)
  Theorem no_inplace_write h x h' r : step spec_ren h x = Some (h', r) ->
    forall l c, nth_error h l = Some c -> is_data c = true -> nth_error h' l = Some c.
  Proof. intros E l c Hl Hd. destruct (step_ext h x h' r E) as [_ H]. apply H; auto. Qed.
End InPlace.

(* ------------------------------------------------------------------ the observable state *)
Lemma ofold_congr {A S} (f f' : S -> A -> option S) l :
  (forall x st r, In x l -> f st x = Some r -> f' st x = Some r) ->
  forall st r, ofold f l st = Some r -> ofold f' l st = Some r.
Proof.
  induction l as [|x l IH]; intros H st r E; cbn in *; [exact E|].
  apply obind_some in E as (s1 & E1 & E2). rewrite (H x st s1 (or_introl eq_refl) E1). cbn.
  apply IH; [|exact E2]. intros y s r0 Hy. apply H. right. exact Hy.
Qed.

Lemma reify_func_ext T h h' : ext T h h' -> forall n lf nd,
  reify_func n h lf = Some nd -> (forall l, In l (objs_func n h lf) -> ~ In l T) -> reify_func n h' lf = Some nd.
Proof.
  intros [_ HX]. induction n as [|n IH]; intros lf nd E Hd; [discriminate|].
  cbn [reify_func] in *. cbn [objs_func] in Hd.
  apply obind_some in E as (f & Ef & E). apply obind_some in E as (r & Er & E).
  apply obind_some in E as (d & Edd & E). apply obind_some in E as (b & Eb & E).
  apply obind_some in E as (inner & Ei & E).
  assert (Hf' : get_func h' lf = Some f).
  { apply nth_get_func. apply HX; [apply get_func_nth; exact Ef|]. right. apply Hd. left. reflexivity. }
  rewrite Hf'. cbn [obind].
  rewrite (nth_get_dict h' _ r) by (apply HX; [apply get_dict_nth; exact Er|left; reflexivity]). cbn [obind].
  rewrite (nth_get_dict h' _ d) by (apply HX; [apply get_dict_nth; exact Edd|left; reflexivity]). cbn [obind].
  rewrite (nth_get_dict h' _ b) by (apply HX; [apply get_dict_nth; exact Eb|left; reflexivity]). cbn [obind].
  rewrite Ef in Hd.
  assert (Hi' : match o_inner f with
                | None => Some None
                | Some lp => olet fs <- get_pipe h' lp;
                             olet ns <- ofold (fun acc g => olet x <- reify_func n h' g; Some (acc ++ [x])) fs [];
                             Some (Some ns)
                end = Some inner).
  { destruct (o_inner f) as [lp|]; [|exact Ei].
    apply obind_some in Ei as (fs & Efs & Ei). apply obind_some in Ei as (ns & Ens & Ei).
    rewrite Efs in Hd.
    rewrite (nth_get_pipe h' lp fs).
    2:{ apply HX; [apply get_pipe_nth; exact Efs|]. right. apply Hd. right. left. reflexivity. }
    cbn [obind].
    assert (Ens' : ofold (fun acc g => olet x <- reify_func n h' g; Some (acc ++ [x])) fs [] = Some ns).
    { eapply ofold_congr; [|exact Ens]. intros x st r0 Hx E0. cbn beta in *.
      apply obind_some in E0 as (y & Ey & E0). rewrite (IH x y Ey); [exact E0|].
      intros l Hl. apply Hd. right. right. apply in_flat_map. exists x. split; assumption. }
    rewrite Ens'. cbn [obind]. exact Ei. }
  rewrite Hi'. cbn [obind]. exact E.
Qed.

Lemma view_func_ext T h h' : ext T h h' -> forall lf v,
  view_func h lf = Some v -> (forall l, In l (objs_func copy_fuel h lf) -> ~ In l T) -> view_func h' lf = Some v.
Proof.
  intros X lf v E Hd. unfold view_func in *.
  apply obind_some in E as (f & Ef & E). apply obind_some in E as (nd & End & E).
  apply obind_some in E as (r & Er & E). apply obind_some in E as (m & Em & E).
  destruct X as [L HX].
  rewrite (nth_get_func h' lf f).
  2:{ apply HX; [apply get_func_nth; exact Ef|]. right. apply Hd. unfold copy_fuel. cbn [objs_func]. left. reflexivity. }
  cbn [obind]. rewrite (reify_func_ext T h h' (conj L HX) copy_fuel lf nd End Hd). cbn [obind].
  rewrite (nth_get_dict h' _ r) by (apply HX; [apply get_dict_nth; exact Er|left; reflexivity]). cbn [obind].
  rewrite (nth_get_spec h' _ m) by (apply HX; [apply get_spec_nth; exact Em|left; reflexivity]). cbn [obind].
  exact E.
Qed.

Lemma pobs_ext T h h' q v : ext T h h' -> pobs h q = Some v -> (forall l, In l (objs h q) -> ~ In l T) ->
  pobs h' q = Some v.
Proof.
  intros X E Hd. unfold pobs in *. apply obind_some in E as (fs & Efs & E).
  unfold objs in Hd. rewrite Efs in Hd.
  destruct X as [L HX].
  rewrite (nth_get_pipe h' q fs).
  2:{ apply HX; [apply get_pipe_nth; exact Efs|]. right. apply Hd. left. reflexivity. }
  cbn [obind].
  eapply ofold_congr; [|exact E].
  intros x st r Hx E0. cbn beta in *. apply obind_some in E0 as (y & Ey & E0).
  rewrite (view_func_ext T h h' (conj L HX) x y Ey); [exact E0|].
  intros l Hl. apply Hd. right. apply in_flat_map. exists x. split; assumption.
Qed.

(* the observable state of an object only changes through operations applied to IT: an operation applied to
   pipeline p (or creating new pipelines) leaves the observable state of every pipeline q whose objects are
   not p's own unchanged - although q and p may share all their dicts *)
Theorem mutation_isolated spec_ren h x h' r q v :
  step spec_ren h x = Some (h', r) ->
  pobs h q = Some v ->
  (forall l, In l (objs h q) -> ~ In l (owned h (target x))) ->
  pobs h' q = Some v.
Proof.
  intros E Hv Hd. eapply pobs_ext; [eapply step_ext; exact E|exact Hv|exact Hd].
Qed.

(* operations that return a new pipeline leave every existing pipeline unchanged *)
Corollary new_pipeline_ops_leave_original spec_ren h x h' r q v :
  step spec_ren h x = Some (h', r) -> target x = None -> pobs h q = Some v -> pobs h' q = Some v.
Proof.
  intros E Ht Hv. eapply mutation_isolated; eauto. rewrite Ht. intros l _ [].
Qed.

(* a concrete instance: a pipeline and its copy *)
Lemma alias_instance :
  let ds := [ {| d_name := s "f"; d_outs := [s "a"]; d_params := [(s "x", s "x"); (s "y", s "y")];
                 d_sigd := []; d_defs := [(s "y", s "dy")]; d_bound := []; d_cached := false |} ] in
  exists h P Q fP fQ,
    build [] ds = Some (h, P) /\ True
    /\ (exists h2, pipeline_copy h P = Some (h2, Q)
         /\ get_pipe h2 P = Some [fP] /\ get_pipe h2 Q = Some [fQ] /\ fP <> fQ
         /\ (exists a b, get_func h2 fP = Some a /\ get_func h2 fQ = Some b /\ o_dfl a = o_dfl b)
         /\ (forall l, In l (objs h2 P) -> ~ In l (owned h2 (target (HUpdateDefaults Q [(s "x", s "dx")]))))
         /\ exists h3, step (fun _ m => m) h2 (HUpdateDefaults Q [(s "x", s "dx")]) = Some (h3, None)
                        /\ pobs h3 P = pobs h2 P /\ pobs h3 Q <> pobs h2 Q).
Proof.
  cbv zeta.
  destruct (build [] [ {| d_name := s "f"; d_outs := [s "a"]; d_params := [(s "x", s "x"); (s "y", s "y")];
                          d_sigd := []; d_defs := [(s "y", s "dy")]; d_bound := []; d_cached := false |} ])
    as [[h P]|] eqn:EB; [|vm_compute in EB; discriminate].
  vm_compute in EB. injection EB as <- <-.
  eexists _, _, _, _, _. split; [reflexivity|]. split; [exact I|].
  eexists. split; [vm_compute; reflexivity|].
  split; [vm_compute; reflexivity|]. split; [vm_compute; reflexivity|].
  split; [vm_compute; discriminate|].
  split; [eexists _, _; split; [vm_compute; reflexivity|split; [vm_compute; reflexivity|vm_compute; reflexivity]]|].
  split.
  - vm_compute. intros l H1 H2. intuition subst; discriminate.
  - eexists. split; [vm_compute; reflexivity|]. split; [vm_compute; reflexivity|vm_compute; discriminate].
Qed.

(* ------------------------------------------------------------------ operation sequences *)
(* run a sequence of operations *)
Fixpoint steps (spec_ren : alist -> str -> str) (h : heap) (xs : list hop) : option heap :=
  match xs with
  | [] => Some h
  | x :: t => match step spec_ren h x with Some (h', _) => steps spec_ren h' t | None => None end
  end.
(* no operation of the sequence is applied to an object of q (judged on the heap it runs in) *)
Fixpoint never_applied_to (spec_ren : alist -> str -> str) (q : loc) (h : heap) (xs : list hop) : Prop :=
  match xs with
  | [] => True
  | x :: t => (forall l, In l (objs h q) -> ~ In l (owned h (target x)))
              /\ match step spec_ren h x with Some (h', _) => never_applied_to spec_ren q h' t | None => True end
  end.

(* the observable state of an object only changes through operations applied to IT *)
Theorem mutation_isolated_seq spec_ren q v : forall xs h h',
  steps spec_ren h xs = Some h' -> pobs h q = Some v -> never_applied_to spec_ren q h xs -> pobs h' q = Some v.
Proof.
  induction xs as [|x xs IH]; intros h h' E Hv Hn; cbn in *.
  - injection E as <-. exact Hv.
  - destruct (step spec_ren h x) as [[h1 r]|] eqn:Es; [|discriminate]. destruct Hn as [H1 H2].
    apply (IH h1 h' E); [|exact H2]. eapply mutation_isolated; eauto.
Qed.
