(* Ownership in the heap model (C10, aliasing clause, operation SEQUENCES):
   copies own fresh objects; an in-place operation keeps the objects of its target or adds fresh ones; hence pipelines
   with pairwise disjoint objects stay pairwise disjoint, and mutation_isolated applies along every sequence. *)
From Verif Require Import Base.Prelude Base.StrOrd Base.StrUtil Base.Graph Model.Pipe Model.Rewrite Model.Alias
  Proofs.GraphFacts Proofs.AliasFacts.
Import Alias.

Lemma flat_map_ext_loc {A B} (f g : A -> list B) l : (forall x, In x l -> f x = g x) -> flat_map f l = flat_map g l.
Proof. induction l as [|x l IH]; intros H; cbn; [reflexivity|]. rewrite (H x) by (left; reflexivity). rewrite IH; auto. intros. apply H. right. assumption. Qed.

Lemma nodup_app_intro_loc {A} (a b : list A) : NoDup a -> NoDup b -> (forall x, In x a -> ~ In x b) -> NoDup (a ++ b).
Proof.
  induction a as [|x a IH]; cbn; intros Ha Hb H; [exact Hb|]. inversion Ha; subst. constructor.
  - intros Hin. apply in_app_or in Hin as [Hin|Hin]; [contradiction|]. apply (H x (or_introl eq_refl)). exact Hin.
  - apply IH; [assumption|assumption|]. intros y Hy. apply H. right. exact Hy.
Qed.

Definition bounded (lo : nat) (h : heap) (l : list loc) : Prop := forall x, In x l -> lo <= x < length h.
(* every object reachable from function object g was allocated at or after lo and exists *)
Definition fresh_func (lo : nat) (h : heap) (g : loc) : Prop :=
  forall m, bounded lo h (objs_func m h g) /\ NoDup (objs_func m h g).

Lemma bounded_weaken lo lo' h h' l : bounded lo h l -> lo' <= lo -> length h <= length h' -> bounded lo' h' l.
Proof. intros H H1 H2 x Hx. specialize (H x Hx). lia. Qed.

Lemma nth_prefix_inv h h' l : prefix h h' -> l < length h -> nth_error h' l = nth_error h l.
Proof. intros [t ->] H. apply nth_error_app1. exact H. Qed.

Lemma get_func_prefix h h' l : prefix h h' -> l < length h -> get_func h' l = get_func h l.
Proof. intros P H. unfold get_func. rewrite (nth_prefix_inv h h' l P H). reflexivity. Qed.
Lemma get_pipe_prefix h h' l : prefix h h' -> l < length h -> get_pipe h' l = get_pipe h l.
Proof. intros P H. unfold get_pipe. rewrite (nth_prefix_inv h h' l P H). reflexivity. Qed.

(* the objects reachable from g do not change when the heap is extended *)
Lemma objs_func_stable h h' : prefix h h' -> forall m l, bounded 0 h (objs_func m h l) ->
  objs_func m h' l = objs_func m h l.
Proof.
  intros P. induction m as [|m IH]; intros l B; [reflexivity|]. cbn [objs_func] in *.
  assert (Hl : l < length h) by (apply (B l); left; reflexivity).
  rewrite (get_func_prefix h h' l P Hl). destruct (get_func h l) as [f|]; [|reflexivity].
  destruct (o_inner f) as [lp|]; [|reflexivity].
  assert (Hlp : lp < length h) by (apply (B lp); right; left; reflexivity).
  rewrite (get_pipe_prefix h h' lp P Hlp). destruct (get_pipe h lp) as [fs|]; [|reflexivity].
  f_equal. f_equal. apply flat_map_ext_loc. intros g Hg. apply IH.
  intros x Hx. apply B. right. right. apply in_flat_map. exists g. split; assumption.
Qed.

Lemma fresh_func_prefix lo h h' g : prefix h h' -> fresh_func lo h g -> fresh_func lo h' g.
Proof.
  intros P F m. destruct (F m) as [B N]. rewrite (objs_func_stable h h' P m g).
  - split; [|exact N]. eapply bounded_weaken; [exact B|lia|apply prefix_length; exact P].
  - eapply bounded_weaken; [exact B|lia|lia].
Qed.

Lemma alloc_spec h c : snd (alloc h c) = length h /\ nth_error (fst (alloc h c)) (length h) = Some c
  /\ length (fst (alloc h c)) = S (length h).
Proof.
  unfold alloc. cbn. split; [reflexivity|]. split.
  - rewrite nth_error_app2 by lia. rewrite Nat.sub_diag. reflexivity.
  - rewrite app_length. cbn. lia.
Qed.

(* a function object without inner pipeline, just allocated *)
Lemma fresh_leaf lo h l f : nth_error h l = Some (CFunc f) -> o_inner f = None -> lo <= l -> fresh_func lo h l.
Proof.
  intros Hn Hi Hlo [|m]; [split; [intros x []|constructor]|]. cbn [objs_func]. unfold get_func. rewrite Hn, Hi. split.
  - intros x [<-|[]]. split; [exact Hlo|]. apply nth_error_Some. congruence.
  - repeat constructor. intros [].
Qed.

Lemma new_func_fresh h sg a b c ms r : new_func h sg a b c ms None = Some r ->
  prefix h (fst r) /\ fresh_func (length h) (fst r) (snd r).
Proof.
  intros E. split; [eapply new_func_prefix; eauto|].
  unfold new_func in E. apply obind_some in E as (hr & E1 & E). apply obind_some in E as (hd & E2 & E).
  apply obind_some in E as (hb & E3 & E). injection E as <-.
  assert (P : prefix h (fst hb)).
  { eapply prefix_trans; [eapply or_empty_prefix; eauto|]. eapply prefix_trans; [eapply or_empty_prefix; eauto|].
    eapply or_empty_prefix; eauto. }
  destruct (alloc_spec (fst hb) (CFunc {| o_sig := sg; o_ren := snd hr; o_dfl := snd hd; o_bnd := snd hb; o_ms := ms; o_inner := None |}))
    as (A1 & A2 & A3).
  rewrite A1. eapply fresh_leaf; [exact A2|reflexivity|apply prefix_length; exact P].
Qed.

Lemma flat_objs_stable h h' m l : prefix h h' -> (forall g, In g l -> bounded 0 h (objs_func m h g)) ->
  flat_map (objs_func m h') l = flat_map (objs_func m h) l.
Proof. intros P H. apply flat_map_ext_loc. intros g Hg. apply objs_func_stable; [exact P|apply H; exact Hg]. Qed.

Lemma ofold_fresh {A} (cp : heap -> A -> option (heap * loc)) :
  (forall hh x r, cp hh x = Some r -> prefix hh (fst r) /\ fresh_func (length hh) (fst r) (snd r)) ->
  forall (fs : list A) h c,
  ofold (fun st x => olet r <- cp (fst st) x; Some (fst r, snd st ++ [snd r])) fs (h, []) = Some c ->
  prefix h (fst c) /\ (forall g, In g (snd c) -> fresh_func (length h) (fst c) g)
  /\ (forall m, NoDup (flat_map (objs_func m (fst c)) (snd c))).
Proof.
  intros Hcp fs h c E.
  assert (G : forall l hh acc c0,
             ofold (fun st g => olet r <- cp (fst st) g; Some (fst r, snd st ++ [snd r])) l (hh, acc) = Some c0 ->
             prefix h hh -> (forall g, In g acc -> fresh_func (length h) hh g) ->
             (forall m, NoDup (flat_map (objs_func m hh) acc)) ->
             prefix h (fst c0) /\ (forall g, In g (snd c0) -> fresh_func (length h) (fst c0) g)
             /\ (forall m, NoDup (flat_map (objs_func m (fst c0)) (snd c0)))).
  { induction l as [|x l IH]; intros hh acc c0 E0 P F N; cbn in E0.
    - injection E0 as <-. auto.
    - apply obind_some in E0 as (s1 & E1 & E0). apply obind_some in E1 as (r & Er & E1). injection E1 as <-.
      cbn [fst snd] in Er. destruct (Hcp hh x r Er) as [P1 F1].
      apply (IH (fst r) (acc ++ [snd r]) c0 E0); [eapply prefix_trans; eauto| |].
      + intros g Hg. apply in_app_or in Hg as [Hg|[<-|[]]].
        * eapply fresh_func_prefix; [exact P1|apply F; exact Hg].
        * intros m. destruct (F1 m) as [B1 N1]. split; [|exact N1].
          eapply bounded_weaken; [exact B1|apply prefix_length; exact P|lia].
      + intros m. rewrite flat_map_app. cbn [flat_map]. rewrite app_nil_r.
        rewrite (flat_objs_stable hh (fst r) m acc P1).
        2:{ intros g Hg. destruct (F g Hg m) as [B _]. eapply bounded_weaken; [exact B|lia|lia]. }
        apply nodup_app_intro_loc; [apply N|apply F1|].
        intros y Hy Hy2. apply in_flat_map in Hy as (g & Hg & Hy). destruct (F g Hg m) as [B _].
        destruct (F1 m) as [B1 _]. specialize (B y Hy). specialize (B1 y Hy2). lia. }
  apply (G fs h [] c E); [apply prefix_refl|intros g []|intros m; constructor].
Qed.

Lemma copy_all_fresh cp :
  (forall hh lf r, cp hh lf = Some r -> prefix hh (fst r) /\ fresh_func (length hh) (fst r) (snd r)) ->
  forall fs h c, copy_all cp h fs = Some c ->
  prefix h (fst c) /\ (forall g, In g (snd c) -> fresh_func (length h) (fst c) g)
  /\ (forall m, NoDup (flat_map (objs_func m (fst c)) (snd c))).
Proof. intros Hcp fs h c E. exact (ofold_fresh cp Hcp fs h c E). Qed.

(* a function object over a freshly built inner pipeline *)
Lemma fresh_parent lo hF lF F lp fs :
  get_func hF lF = Some F -> o_inner F = Some lp -> get_pipe hF lp = Some fs ->
  (forall g, In g fs -> fresh_func lo hF g) -> (forall m, NoDup (flat_map (objs_func m hF) fs)) ->
  (forall m x, In x (flat_map (objs_func m hF) fs) -> x < lp) -> lo <= lp -> lp < lF -> lF < length hF ->
  fresh_func lo hF lF.
Proof.
  intros Gf Hi Gp Ff Nf Bf H1 H2 H3 [|m]; [split; [intros x []|constructor]|].
  cbn [objs_func]. rewrite Gf, Hi, Gp. split.
  - intros x [<-|[<-|Hx]]; [lia|lia|]. pose proof (Bf m x Hx). apply in_flat_map in Hx as (g & Hg & Hx).
    destruct (Ff g Hg m) as [B _]. specialize (B x Hx). lia.
  - constructor; [|constructor; [|apply Nf]].
    + intros [E|Hx]; [lia|]. specialize (Bf m lF Hx). lia.
    + intros Hx. specialize (Bf m lp Hx). lia.
Qed.

Lemma copy_func_fresh : forall n cm h lf r, copy_func n cm h lf = Some r ->
  prefix h (fst r) /\ fresh_func (length h) (fst r) (snd r).
Proof.
  induction n as [|n IH]; intros cm h lf r E; [discriminate|].
  split; [eapply copy_func_prefix; eauto|].
  cbn [copy_func] in E. apply obind_some in E as (f & Ef & E).
  destruct (o_inner f) as [lp|].
  - apply obind_some in E as (fs & Efs & E).
    apply obind_some in E as (c1 & E1 & E). apply obind_some in E as (c2 & E2 & E).
    cbn [alloc] in E. apply obind_some in E as (hr & E3 & E).
    apply obind_some in E as (d & Ed & E). apply obind_some in E as (b & Eb & E).
    apply obind_some in E as (lm & Em & E). injection E as <-.
    destruct (copy_all_fresh (copy_func n false) (fun hh lf0 r0 H => IH false hh lf0 r0 H) fs h c1 E1) as [P1 _].
    destruct (copy_all_fresh (copy_func n true) (fun hh lf0 r0 H => IH true hh lf0 r0 H) (snd c1) (fst c1) c2 E2) as (P2 & F2 & N2).
    set (h2 := fst c2 ++ [CPipe (snd c2)]) in *.
    assert (P3 : prefix h2 (fst hr)) by (eapply or_empty_prefix; exact E3).
    assert (Plm : prefix (fst hr) (fst lm)).
    { eapply prefix_trans; [apply (prefix_alloc (fst hr) (CDict d))|].
      eapply prefix_trans; [apply (prefix_alloc _ (CDict b))|].
      destruct cm; injection Em as <-; [apply prefix_alloc|apply prefix_refl]. }
    assert (Ph2 : prefix (fst c2) h2) by (exists [CPipe (snd c2)]; reflexivity).
    assert (Lh : length h <= length (fst c2)).
    { apply prefix_length in P1. apply prefix_length in P2. lia. }
    assert (Llm : length (fst c2) < length (fst lm)).
    { apply prefix_length in P3. apply prefix_length in Plm. unfold h2 in P3. rewrite app_length in P3. cbn in P3. lia. }
    unfold alloc. cbn [fst snd].
    match goal with |- fresh_func _ (fst lm ++ [CFunc ?FF]) _ => set (F := FF) end.
    set (hF := fst lm ++ [CFunc F]).
    assert (PF : prefix (fst c2) hF).
    { eapply prefix_trans; [exact Ph2|]. eapply prefix_trans; [exact P3|]. eapply prefix_trans; [exact Plm|].
      exists [CFunc F]; reflexivity. }
    assert (LF : length hF = S (length (fst lm))) by (unfold hF; rewrite app_length; cbn; lia).
    assert (Bc2 : forall m g, In g (snd c2) -> bounded 0 (fst c2) (objs_func m (fst c2) g)).
    { intros m g Hg. destruct (F2 g Hg m) as [B _]. eapply bounded_weaken; [exact B|lia|lia]. }
    apply (fresh_parent (length h) hF (length (fst lm)) F (length (fst c2)) (snd c2)).
    + apply nth_get_func. unfold hF. rewrite nth_error_app2 by lia. rewrite Nat.sub_diag. reflexivity.
    + reflexivity.
    + apply nth_get_pipe. eapply prefix_nth; [eapply prefix_trans; [exact P3|]; eapply prefix_trans; [exact Plm|exists [CFunc F]; reflexivity]|].
      unfold h2. rewrite nth_error_app2 by lia. rewrite Nat.sub_diag. reflexivity.
    + intros g Hg m. destruct (fresh_func_prefix _ _ _ g PF (F2 g Hg) m) as [B N]. split; [|exact N].
      eapply bounded_weaken; [exact B|apply prefix_length in P1; lia|lia].
    + intros m. rewrite (flat_objs_stable (fst c2) hF m (snd c2) PF (Bc2 m)). apply N2.
    + intros m x Hx. rewrite (flat_objs_stable (fst c2) hF m (snd c2) PF (Bc2 m)) in Hx.
      apply in_flat_map in Hx as (g & Hg & Hx). apply (Bc2 m g Hg x Hx).
    + exact Lh.
    + exact Llm.
    + lia.
  - destruct cm.
    + cbn [alloc] in E. destruct (new_func_fresh _ _ _ _ _ _ _ E) as [_ F1].
      intros m. destruct (F1 m) as [B N]. split; [|exact N]. eapply bounded_weaken; [exact B|rewrite app_length; cbn; lia|lia].
    + destruct (new_func_fresh _ _ _ _ _ _ _ E) as [_ F1]. exact F1.
Qed.

(* ------------------------------------------------------------------ new pipelines own fresh objects *)
Definition fresh_pipe (lo : nat) (h : heap) (lp : loc) : Prop := bounded lo h (objs h lp) /\ NoDup (objs h lp).

Lemma copy1_fresh h lf r : copy1 h lf = Some r -> prefix h (fst r) /\ fresh_func (length h) (fst r) (snd r).
Proof. apply copy_func_fresh. Qed.

Lemma pipe_of_fresh lo h fs : (forall g, In g fs -> fresh_func lo h g) ->
  (forall m, NoDup (flat_map (objs_func m h) fs)) -> lo <= length h ->
  fresh_pipe lo (h ++ [CPipe fs]) (length h).
Proof.
  intros F N Hlo. assert (P : prefix h (h ++ [CPipe fs])) by (exists [CPipe fs]; reflexivity).
  unfold fresh_pipe, objs. assert (G : get_pipe (h ++ [CPipe fs]) (length h) = Some fs).
  { apply nth_get_pipe. rewrite nth_error_app2 by lia. rewrite Nat.sub_diag. reflexivity. }
  rewrite G.
  assert (B0 : forall g, In g fs -> bounded 0 h (objs_func copy_fuel h g)).
  { intros g Hg. destruct (F g Hg copy_fuel) as [B _]. eapply bounded_weaken; [exact B|lia|lia]. }
  rewrite (flat_objs_stable h _ copy_fuel fs P B0). split.
  - intros x [<-|Hx]; [rewrite app_length; cbn; lia|].
    apply in_flat_map in Hx as (g & Hg & Hx). destruct (F g Hg copy_fuel) as [B _]. specialize (B x Hx).
    rewrite app_length. cbn. lia.
  - constructor; [|apply N]. intros Hx. apply in_flat_map in Hx as (g & Hg & Hx). specialize (B0 g Hg _ Hx). lia.
Qed.

Lemma new_pipeline_fresh h fs r : new_pipeline h fs = Some r -> prefix h (fst r) /\ fresh_pipe (length h) (fst r) (snd r).
Proof.
  intros E. split; [eapply new_pipeline_prefix; eauto|]. unfold new_pipeline in E.
  apply obind_some in E as (c & Ec & E). injection E as <-. unfold alloc. cbn [fst snd].
  destruct (copy_all_fresh copy1 copy1_fresh fs h c Ec) as (P & F & N).
  apply pipe_of_fresh; [exact F|exact N|apply prefix_length; exact P].
Qed.

Lemma fresh_pipe_weaken lo lo' h lp : fresh_pipe lo h lp -> lo' <= lo -> fresh_pipe lo' h lp.
Proof. intros [F N] H. split; [|exact N]. intros x Hx. specialize (F x Hx). lia. Qed.

Lemma pipeline_copy_fresh h lp r : pipeline_copy h lp = Some r -> fresh_pipe (length h) (fst r) (snd r).
Proof. unfold pipeline_copy. intros E. apply obind_some in E as (fs & _ & E). apply new_pipeline_fresh in E. tauto. Qed.

Lemma pipeline_join_fresh h lp lq r : pipeline_join h lp lq = Some r -> fresh_pipe (length h) (fst r) (snd r).
Proof.
  unfold pipeline_join. intros E. apply obind_some in E as (fp & _ & E). apply obind_some in E as (fq & _ & E).
  apply obind_some in E as (c & Ec & E). destruct (copy_all_fresh copy1 copy1_fresh _ h c Ec) as (P & _ & _).
  apply new_pipeline_fresh in E as [_ F]. eapply fresh_pipe_weaken; [exact F|apply prefix_length; exact P].
Qed.

Lemma pickle_func_fresh : forall n h lf r, pickle_func n h lf = Some r ->
  prefix h (fst r) /\ fresh_func (length h) (fst r) (snd r).
Proof.
  induction n as [|n IH]; intros h lf r E; [discriminate|].
  split; [eapply pickle_func_prefix; eauto|].
  cbn [pickle_func] in E. apply obind_some in E as (f & _ & E).
  apply obind_some in E as (rn & _ & E). apply obind_some in E as (d & _ & E).
  apply obind_some in E as (b & _ & E). apply obind_some in E as (ms & _ & E).
  cbn [alloc] in E. apply obind_some in E as (hi & Ei & E). injection E as <-.
  set (h4 := (((h ++ [CDict rn]) ++ [CDict d]) ++ [CDict b]) ++ [CSpec ms]) in *.
  assert (P4 : prefix h h4).
  { exists ([CDict rn] ++ [CDict d] ++ [CDict b] ++ [CSpec ms]). unfold h4. now rewrite !app_assoc. }
  unfold alloc. cbn [fst snd].
  match goal with |- fresh_func _ (fst hi ++ [CFunc ?FF]) _ => set (F := FF) end.
  set (hF := fst hi ++ [CFunc F]).
  assert (Gf : get_func hF (length (fst hi)) = Some F).
  { apply nth_get_func. unfold hF. rewrite nth_error_app2 by lia. rewrite Nat.sub_diag. reflexivity. }
  destruct (o_inner f) as [lp|].
  - apply obind_some in Ei as (fs & _ & Ei). apply obind_some in Ei as (c & Ec & Ei). injection Ei as <-.
    destruct (copy_all_fresh (pickle_func n) IH fs h4 c Ec) as (Pc & Fc & Nc). cbn [fst snd] in *.
    set (hp := fst c ++ [CPipe (snd c)]) in *.
    assert (PF : prefix (fst c) hF).
    { eapply prefix_trans; [exists [CPipe (snd c)]; reflexivity|]. exists [CFunc F]; reflexivity. }
    assert (L1 : length h <= length (fst c)).
    { apply prefix_length in P4. apply prefix_length in Pc. lia. }
    assert (L2 : length hp = S (length (fst c))) by (unfold hp; rewrite app_length; cbn; lia).
    assert (L3 : length hF = S (length hp)) by (unfold hF; rewrite app_length; cbn; lia).
    assert (Bc : forall m g, In g (snd c) -> bounded 0 (fst c) (objs_func m (fst c) g)).
    { intros m g Hg. destruct (Fc g Hg m) as [B _]. eapply bounded_weaken; [exact B|lia|lia]. }
    apply (fresh_parent (length h) hF (length hp) F (length (fst c)) (snd c)).
    + exact Gf.
    + reflexivity.
    + apply nth_get_pipe. eapply prefix_nth; [exists [CFunc F]; reflexivity|]. unfold hp.
      rewrite nth_error_app2 by lia. rewrite Nat.sub_diag. reflexivity.
    + intros g Hg m. destruct (fresh_func_prefix _ _ _ g PF (Fc g Hg) m) as [B N]. split; [|exact N].
      eapply bounded_weaken; [exact B|apply prefix_length in P4; lia|lia].
    + intros m. rewrite (flat_objs_stable (fst c) hF m (snd c) PF (Bc m)). apply Nc.
    + intros m x Hx. rewrite (flat_objs_stable (fst c) hF m (snd c) PF (Bc m)) in Hx.
      apply in_flat_map in Hx as (g & Hg & Hx). apply (Bc m g Hg x Hx).
    + exact L1.
    + lia.
    + lia.
  - injection Ei as <-. cbn [fst snd] in *.
    eapply fresh_leaf; [apply get_func_nth; exact Gf|reflexivity|]. apply prefix_length in P4. exact P4.
Qed.

Lemma pipeline_pickle_fresh h lp r : pipeline_pickle h lp = Some r -> fresh_pipe (length h) (fst r) (snd r).
Proof.
  unfold pipeline_pickle. intros E. apply obind_some in E as (fs & _ & E). apply obind_some in E as (c & Ec & E).
  injection E as <-. unfold alloc. cbn [fst snd].
  destruct (copy_all_fresh (pickle_func copy_fuel) (pickle_func_fresh copy_fuel) fs h c Ec) as (P & F & N).
  apply pipe_of_fresh; [exact F|exact N|apply prefix_length; exact P].
Qed.

(* NestedPipeFunc(...) *)
Lemma new_nested_fresh h fs no r : new_nested h fs no = Some r ->
  prefix h (fst r) /\ fresh_func (length h) (fst r) (snd r).
Proof.
  intros E. split; [eapply new_nested_prefix; eauto|]. unfold new_nested in E.
  apply obind_some in E as (nodes & _ & E). destruct (mk_nested nodes no) as [nd|]; [|discriminate].
  apply obind_some in E as (c1 & E1 & E). apply obind_some in E as (c2 & E2 & E).
  cbn [alloc] in E. injection E as <-.
  destruct (copy_all_fresh copy1 copy1_fresh fs h c1 E1) as (P1 & _ & _).
  destruct (copy_all_fresh (copy_func copy_fuel true) (copy_func_fresh copy_fuel true) (snd c1) (fst c1) c2 E2) as (P2 & F2 & N2).
  unfold alloc. cbn [fst snd].
  match goal with |- fresh_func _ (?HH ++ [CFunc ?FF]) _ => set (F := FF); set (h7 := HH) end.
  set (hF := h7 ++ [CFunc F]).
  assert (P7 : prefix (fst c2 ++ [CPipe (snd c2)]) h7).
  { unfold h7. eexists. rewrite <- !app_assoc. reflexivity. }
  assert (PF : prefix (fst c2) hF).
  { eapply prefix_trans; [exists [CPipe (snd c2)]; reflexivity|]. eapply prefix_trans; [exact P7|exists [CFunc F]; reflexivity]. }
  assert (L0 : length h <= length (fst c2)).
  { apply prefix_length in P1. apply prefix_length in P2. lia. }
  assert (L7 : length (fst c2) < length h7).
  { apply prefix_length in P7. rewrite app_length in P7. cbn in P7. lia. }
  assert (LF : length hF = S (length h7)) by (unfold hF; rewrite app_length; cbn; lia).
  assert (Bc2 : forall m g, In g (snd c2) -> bounded 0 (fst c2) (objs_func m (fst c2) g)).
  { intros m g Hg. destruct (F2 g Hg m) as [B _]. eapply bounded_weaken; [exact B|lia|lia]. }
  apply (fresh_parent (length h) hF (length h7) F (length (fst c2)) (snd c2)).
  - apply nth_get_func. unfold hF. rewrite nth_error_app2 by lia. rewrite Nat.sub_diag. reflexivity.
  - reflexivity.
  - apply nth_get_pipe. eapply prefix_nth; [eapply prefix_trans; [exact P7|exists [CFunc F]; reflexivity]|].
    rewrite nth_error_app2 by lia. rewrite Nat.sub_diag. reflexivity.
  - intros g Hg m. destruct (fresh_func_prefix _ _ _ g PF (F2 g Hg) m) as [B N]. split; [|exact N].
    eapply bounded_weaken; [exact B|apply prefix_length in P1; lia|lia].
  - intros m. rewrite (flat_objs_stable (fst c2) hF m (snd c2) PF (Bc2 m)). apply N2.
  - intros m x Hx. rewrite (flat_objs_stable (fst c2) hF m (snd c2) PF (Bc2 m)) in Hx.
    apply in_flat_map in Hx as (g & Hg & Hx). apply (Bc2 m g Hg x Hx).
  - exact L0.
  - exact L7.
  - lia.
Qed.

Lemma pipeline_simplify_fresh h lp o c r : pipeline_simplify h lp o c = Some r -> fresh_pipe (length h) (fst r) (snd r).
Proof.
  unfold pipeline_simplify. intros E. apply obind_some in E as (p & _ & E). apply obind_some in E as (fs & _ & E).
  destruct (simplify_plan o c p) as [[rest groups]|]; [|discriminate].
  apply obind_some in E as (cc & Ec & E).
  destruct (ofold_fresh (fun hh (g : list str * list str) =>
              new_nested hh (flat_map (fun k => map snd (filter (fun nl => str_eqb (nid (fst nl)) k) (combine p fs))) (fst g))
                         (Some (snd g)))
              (fun hh x r0 H => new_nested_fresh hh _ _ r0 H) groups h cc Ec) as (P & _ & _).
  apply new_pipeline_fresh in E as [_ F]. eapply fresh_pipe_weaken; [exact F|apply prefix_length; exact P].
Qed.

Lemma pipeline_split_fresh h lp o r : pipeline_split h lp o = Some r -> fresh_pipe (length h) (fst r) (snd r).
Proof.
  unfold pipeline_split. intros E. apply obind_some in E as (p & _ & E). apply obind_some in E as (fs & _ & E).
  destruct (producer (funcs p) o); [|discriminate].
  apply obind_some in E as (c & Ec & E). destruct (copy_all_fresh copy1 copy1_fresh _ h c Ec) as (P & _ & _).
  apply new_pipeline_fresh in E as [_ F]. eapply fresh_pipe_weaken; [exact F|apply prefix_length; exact P].
Qed.

(* ------------------------------------------------------------------ what the reachable objects depend on *)
(* the traversal only looks at the inner links of the object cells it meets *)
Definition same_links (h h' : heap) (x : loc) : Prop :=
  (forall f, get_func h x = Some f -> exists f', get_func h' x = Some f' /\ o_inner f' = o_inner f)
  /\ (get_func h x = None -> x < length h -> get_func h' x = None)
  /\ get_pipe h' x = get_pipe h x.

Lemma objs_func_agree h h' : forall m l, bounded 0 h (objs_func m h l) ->
  (forall x, In x (objs_func m h l) -> same_links h h' x) -> objs_func m h' l = objs_func m h l.
Proof.
  induction m as [|m IH]; intros l B A; [reflexivity|]. cbn [objs_func] in *.
  assert (Hl : l < length h) by (apply (B l); left; reflexivity).
  destruct (A l (or_introl eq_refl)) as (A1 & A2 & _).
  destruct (get_func h l) as [f|] eqn:Ef.
  - destruct (A1 f eq_refl) as (f' & Ef' & Ei). rewrite Ef', Ei. destruct (o_inner f) as [lp|]; [|reflexivity].
    destruct (A lp (or_intror (or_introl eq_refl))) as (_ & _ & A3). rewrite A3.
    destruct (get_pipe h lp) as [fs|]; [|reflexivity]. f_equal. f_equal. apply flat_map_ext_loc. intros g Hg.
    apply IH.
    + intros x Hx. apply B. right. right. apply in_flat_map. exists g. split; assumption.
    + intros x Hx. apply A. right. right. apply in_flat_map. exists g. split; assumption.
  - rewrite (A2 eq_refl Hl). reflexivity.
Qed.

Lemma same_links_eq h h' x : nth_error h' x = nth_error h x -> same_links h h' x.
Proof.
  intros E. unfold same_links, get_func, get_pipe. rewrite E. split; [|split; [|reflexivity]].
  - intros f Hf. exists f. split; [exact Hf|reflexivity].
  - intros Hn _. exact Hn.
Qed.

Definition closed (h : heap) (q : loc) : Prop := bounded 0 h (objs h q) /\ NoDup (objs h q).

Lemma fresh_pipe_closed lo h q : fresh_pipe lo h q -> closed h q.
Proof. intros [B N]. split; [|exact N]. intros x Hx. specialize (B x Hx). lia. Qed.

Lemma objs_agree h h' q : closed h q -> (forall x, In x (objs h q) -> same_links h h' x) -> objs h' q = objs h q.
Proof.
  intros [B _] A. unfold objs in *. destruct (A q (or_introl eq_refl)) as (_ & _ & A3). rewrite A3.
  destruct (get_pipe h q) as [fs|]; [|reflexivity]. apply (f_equal (cons q)). apply flat_map_ext_loc. intros g Hg.
  apply objs_func_agree.
  - intros x Hx. apply B. right. apply in_flat_map. exists g. split; assumption.
  - intros x Hx. apply A. right. apply in_flat_map. exists g. split; assumption.
Qed.

(* extension of the heap *)
Lemma objs_prefix h h' q : prefix h h' -> closed h q -> objs h' q = objs h q.
Proof.
  intros P C. apply objs_agree; [exact C|]. intros x Hx. apply same_links_eq. apply nth_prefix_inv; [exact P|].
  destruct C as [B _]. apply (B x Hx).
Qed.
Lemma closed_prefix h h' q : prefix h h' -> closed h q -> closed h' q.
Proof.
  intros P C. pose proof (objs_prefix h h' q P C) as E. destruct C as [B N]. unfold closed. rewrite E. split; [|exact N].
  eapply bounded_weaken; [exact B|lia|apply prefix_length; exact P].
Qed.

(* ------------------------------------------------------------------ updates of attributes keep all links *)
Definition fshape (h h' : heap) : Prop :=
  length h <= length h' /\ forall x, x < length h -> same_links h h' x.

Lemma fshape_refl h : fshape h h.
Proof. split; [lia|]. intros x _. apply same_links_eq. reflexivity. Qed.
Lemma same_links_trans a b c x : same_links a b x -> same_links b c x -> x < length a -> length a <= length b ->
  same_links a c x.
Proof.
  intros (A1 & A2 & A3) (B1 & B2 & B3) Hx Hl. split; [|split].
  - intros f Hf. destruct (A1 f Hf) as (f' & Hf' & E1). destruct (B1 f' Hf') as (f'' & Hf'' & E2).
    exists f''. split; [exact Hf''|congruence].
  - intros Hn _. apply B2; [apply A2; assumption|lia].
  - congruence.
Qed.
Lemma fshape_trans a b c : fshape a b -> fshape b c -> fshape a c.
Proof.
  intros [L1 H1] [L2 H2]. split; [lia|]. intros x Hx. eapply same_links_trans; [apply H1; exact Hx|apply H2; lia|exact Hx|exact L1].
Qed.
Lemma fshape_prefix h h' : prefix h h' -> fshape h h'.
Proof. intros P. split; [apply prefix_length; exact P|]. intros x Hx. apply same_links_eq. apply nth_prefix_inv; assumption. Qed.

Lemma fshape_set_func h l f f' : get_func h l = Some f -> o_inner f' = o_inner f -> fshape h (set_func h l f').
Proof.
  intros Hf Hi. unfold set_func. split; [rewrite write_length; lia|]. intros x Hx.
  destruct (Nat.eq_dec x l) as [->|Hne].
  - assert (E : nth_error (write h l (CFunc f')) l = Some (CFunc f')) by (apply write_same; exact Hx).
    unfold same_links, get_func, get_pipe. rewrite E. apply get_func_nth in Hf. rewrite Hf. split; [|split].
    + intros f0 H0. injection H0 as <-. exists f'. split; [reflexivity|exact Hi].
    + discriminate.
    + reflexivity.
  - apply same_links_eq. apply write_other. exact Hne.
Qed.

Lemma objs_fshape h h' q : fshape h h' -> closed h q -> objs h' q = objs h q /\ closed h' q.
Proof.
  intros [L S] C. assert (E : objs h' q = objs h q).
  { apply objs_agree; [exact C|]. intros x Hx. apply S. destruct C as [B _]. apply (B x Hx). }
  split; [exact E|]. destruct C as [B N]. unfold closed. rewrite E. split; [|exact N].
  eapply bounded_weaken; [exact B|lia|exact L].
Qed.

Section UpdShape.
  Variable spec_ren : alist -> str -> str.

  Lemma func_update_defaults_fshape h lf d ow h' : func_update_defaults h lf d ow = Some h' -> fshape h h'.
  Proof.
    unfold func_update_defaults. intros E. apply obind_some in E as (f & Ef & E).
    apply obind_some in E as (old & _ & E). cbn [alloc] in E. injection E as <-.
    eapply fshape_trans; [apply fshape_prefix; eexists; reflexivity|].
    apply (fshape_set_func _ lf f); [|reflexivity]. apply nth_get_func. eapply prefix_nth; [eexists; reflexivity|].
    apply get_func_nth. exact Ef.
  Qed.
  Lemma func_update_bound_fshape h lf d ow h' : func_update_bound h lf d ow = Some h' -> fshape h h'.
  Proof.
    unfold func_update_bound. intros E. apply obind_some in E as (f & Ef & E).
    apply obind_some in E as (old & _ & E). cbn [alloc] in E. injection E as <-.
    eapply fshape_trans; [apply fshape_prefix; eexists; reflexivity|].
    apply (fshape_set_func _ lf f); [|reflexivity]. apply nth_get_func. eapply prefix_nth; [eexists; reflexivity|].
    apply get_func_nth. exact Ef.
  Qed.
  Lemma func_update_renames_fshape h lf r h' : func_update_renames spec_ren h lf r = Some h' -> fshape h h'.
  Proof.
    unfold func_update_renames. intros E. apply obind_some in E as (f & Ef & E).
    apply obind_some in E as (ren & _ & E). apply obind_some in E as (dfl & _ & E).
    apply obind_some in E as (bnd & _ & E). apply obind_some in E as (ms & _ & E).
    cbn [alloc] in E. destruct ms as [m|]; injection E as <-.
    - match goal with |- fshape h (set_func ?HH _ _) => assert (P : prefix h HH) by (eexists; rewrite <- !app_assoc; reflexivity) end.
      eapply fshape_trans; [apply fshape_prefix; exact P|].
      apply (fshape_set_func _ lf f); [|reflexivity]. apply nth_get_func. eapply prefix_nth; [exact P|].
      apply get_func_nth. exact Ef.
    - match goal with |- fshape h (set_func ?HH _ _) => assert (P : prefix h HH) by (eexists; rewrite <- !app_assoc; reflexivity) end.
      eapply fshape_trans; [apply fshape_prefix; exact P|].
      apply (fshape_set_func _ lf f); [|reflexivity]. apply nth_get_func. eapply prefix_nth; [exact P|].
      apply get_func_nth. exact Ef.
  Qed.

  Lemma ofold_fshape (f : heap -> loc -> option heap) fs :
    (forall hh g h1, f hh g = Some h1 -> fshape hh h1) -> forall h h', ofold f fs h = Some h' -> fshape h h'.
  Proof.
    intros Hstep h h' E. apply (ofold_inv fshape) in E; auto.
    - apply fshape_refl.
    - apply fshape_trans.
    - intros s x s1 _. apply Hstep.
  Qed.

  Lemma pipeline_update_defaults_fshape h lp d h' : pipeline_update_defaults h lp d = Some h' -> fshape h h'.
  Proof.
    unfold pipeline_update_defaults. intros E. apply obind_some in E as (fs & _ & E).
    eapply ofold_fshape; [|exact E]. intros hh g h1 E1. apply obind_some in E1 as ([[ps os] b] & _ & E1).
    destruct (filter _ d); [injection E1 as <-; apply fshape_refl|]. eapply func_update_defaults_fshape; eauto.
  Qed.
  Lemma pipeline_update_renames_fshape h lp r h' : pipeline_update_renames spec_ren h lp r = Some h' -> fshape h h'.
  Proof.
    unfold pipeline_update_renames. intros E. apply obind_some in E as (fs & _ & E).
    eapply ofold_fshape; [|exact E]. intros hh g h1 E1. apply obind_some in E1 as ([[ps os] b] & _ & E1).
    eapply func_update_renames_fshape; eauto.
  Qed.
  Lemma pipeline_update_scope_fshape h lp sc i o e h' : pipeline_update_scope spec_ren h lp sc i o e = Some h' -> fshape h h'.
  Proof.
    unfold pipeline_update_scope. intros E. apply obind_some in E as (p & _ & E). apply obind_some in E as (fs & _ & E).
    eapply ofold_fshape; [|exact E]. intros hh g h1 E1. apply obind_some in E1 as ([[ps os] b] & _ & E1).
    destruct (inter_str _ _); [injection E1 as <-; apply fshape_refl|]. eapply func_update_renames_fshape; eauto.
  Qed.
End UpdShape.

(* ------------------------------------------------------------------ rewriting the function list of a pipeline *)
Lemma NoDup_flat_map_filter {A B} (f : A -> list B) (q : A -> bool) l : NoDup (flat_map f l) -> NoDup (flat_map f (filter q l)).
Proof.
  induction l as [|x l IH]; cbn; intros H; [constructor|].
  assert (H2 : NoDup (flat_map f l)).
  { clear -H. induction (f x) as [|y t IHt]; cbn in H; [exact H|]. inversion H; subst. apply IHt. assumption. }
  destruct (q x); cbn; [|apply IH; exact H2].
  apply nodup_app_intro_loc.
  - clear -H. induction (f x) as [|y t IHt]; cbn in *; [constructor|]. inversion H; subst. constructor; [|apply IHt; assumption].
    intros Hin. apply H2. apply in_or_app. left. exact Hin.
  - apply IH. exact H2.
  - intros y Hy Hin. apply in_flat_map in Hin as (z & Hz & Hin). apply filter_In in Hz as [Hz _].
    clear -H Hy Hz Hin. induction (f x) as [|w t IHt]; cbn in *; [destruct Hy|]. inversion H; subst. destruct Hy as [<-|Hy].
    + apply H2. apply in_or_app. right. apply in_flat_map. exists z. split; assumption.
    + apply IHt; assumption.
Qed.

Lemma flat_map_filter_incl {A B} (f : A -> list B) (q : A -> bool) l : incl (flat_map f (filter q l)) (flat_map f l).
Proof.
  intros y Hy. apply in_flat_map in Hy as (z & Hz & Hy). apply filter_In in Hz as [Hz _]. apply in_flat_map. eauto.
Qed.

Lemma rewrite_pipe h h' p fs (q : loc -> bool) news :
  closed h p -> get_pipe h p = Some fs -> length h <= length h' ->
  nth_error h' p = Some (CPipe (filter q fs ++ news)) ->
  (forall x, x < length h -> x <> p -> nth_error h' x = nth_error h x) ->
  (forall g, In g news -> fresh_func (length h) h' g) ->
  NoDup (flat_map (objs_func copy_fuel h') news) ->
  closed h' p /\ (forall x, In x (objs h' p) -> In x (objs h p) \/ length h <= x).
Proof.
  intros [B N] Gp L Hp Hsame Fn Nn.
  assert (Hplt : p < length h) by (apply (B p); left; reflexivity).
  unfold objs in B, N. rewrite Gp in B, N.
  assert (Hold : forall g, In g fs -> objs_func copy_fuel h' g = objs_func copy_fuel h g).
  { intros g Hg. apply objs_func_agree.
    - intros x Hx. apply B. right. apply in_flat_map. exists g. split; assumption.
    - intros x Hx. apply same_links_eq. apply Hsame.
      + apply (B x). right. apply in_flat_map. exists g. split; assumption.
      + intros ->. inversion N as [|? ? Hn _]; subst. apply Hn. apply in_flat_map. exists g. split; assumption. }
  assert (E : objs h' p = p :: flat_map (objs_func copy_fuel h) (filter q fs) ++ flat_map (objs_func copy_fuel h') news).
  { unfold objs, get_pipe. rewrite Hp. rewrite flat_map_app. apply (f_equal (cons p)).
    apply (f_equal (fun l => l ++ flat_map (objs_func copy_fuel h') news)).
    apply flat_map_ext_loc. intros g Hg. apply Hold. apply filter_In in Hg. tauto. }
  assert (Hnews : forall x, In x (flat_map (objs_func copy_fuel h') news) -> length h <= x < length h').
  { intros x Hx. apply in_flat_map in Hx as (g & Hg & Hx). destruct (Fn g Hg copy_fuel) as [Bg _]. apply (Bg x Hx). }
  assert (Holdb : forall x, In x (flat_map (objs_func copy_fuel h) (filter q fs)) -> x < length h /\ x <> p
                              /\ In x (flat_map (objs_func copy_fuel h) fs)).
  { intros x Hx. apply flat_map_filter_incl in Hx. split; [apply (B x); right; exact Hx|]. split; [|exact Hx].
    intros ->. inversion N as [|? ? Hn _]; subst. apply Hn. exact Hx. }
  split; [split|].
  - rewrite E. intros x [<-|Hx]; [lia|]. apply in_app_or in Hx as [Hx|Hx].
    + destruct (Holdb x Hx) as [H1 _]. lia.
    + specialize (Hnews x Hx). lia.
  - rewrite E. constructor.
    + intros Hx. apply in_app_or in Hx as [Hx|Hx]; [destruct (Holdb p Hx) as (_ & H2 & _); congruence|].
      specialize (Hnews p Hx). lia.
    + apply nodup_app_intro_loc; [apply NoDup_flat_map_filter; inversion N; assumption|exact Nn|].
      intros x Hx Hx2. destruct (Holdb x Hx) as [H1 _]. specialize (Hnews x Hx2). lia.
  - rewrite E. unfold objs. rewrite Gp. intros x [<-|Hx]; [left; left; reflexivity|].
    apply in_app_or in Hx as [Hx|Hx]; [left; right; apply (Holdb x Hx)|right; apply (Hnews x Hx)].
Qed.

(* a pipeline that does not reach p is not affected *)
Lemma rewrite_pipe_other h h' p q' :
  closed h q' -> ~ In p (objs h q') -> length h <= length h' ->
  (forall x, x < length h -> x <> p -> nth_error h' x = nth_error h x) ->
  objs h' q' = objs h q' /\ closed h' q'.
Proof.
  intros C Hp L Hsame.
  assert (E : objs h' q' = objs h q').
  { apply objs_agree; [exact C|]. intros x Hx. apply same_links_eq. apply Hsame; [destruct C as [B _]; apply (B x Hx)|].
    intros ->. contradiction. }
  split; [exact E|]. destruct C as [B N]. unfold closed. rewrite E. split; [|exact N].
  eapply bounded_weaken; [exact B|lia|exact L].
Qed.

