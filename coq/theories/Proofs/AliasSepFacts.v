(* Ownership in the heap model, part 2 (C10, aliasing clause, operation SEQUENCES): the in-place operations keep the
   object tree of their target; the separation invariant Sep is kept by every operation; mutation_isolated therefore
   applies along every sequence without an assumption on the intermediate heaps. *)
From Verif Require Import Base.Prelude Base.StrOrd Base.StrUtil Base.Graph Model.Pipe Model.Rewrite Model.Alias
  Proofs.GraphFacts Proofs.AliasFacts Proofs.AliasOwnFacts.
Import Alias.

Section InPlaceShape.
  Variable spec_ren : alist -> str -> str.

  (* drop *)
  Lemma pipeline_drop_shape h lp o h' : pipeline_drop h lp o = Some h' -> closed h lp ->
    closed h' lp /\ (forall x, In x (objs h' lp) -> In x (objs h lp) \/ length h <= x)
    /\ length h <= length h' /\ (forall x, x < length h -> x <> lp -> nth_error h' x = nth_error h x).
  Proof.
    unfold pipeline_drop. intros E C. apply obind_some in E as (g & _ & E). apply obind_some in E as (fs & Efs & E).
    injection E as <-.
    assert (Hlt : lp < length h). { apply nth_error_Some. apply get_pipe_nth in Efs. congruence. }
    assert (HS : forall x, x < length h -> x <> lp -> nth_error (write h lp (CPipe (filter (fun x0 => negb (x0 =? g)) fs))) x = nth_error h x).
    { intros x _ Hne. apply write_other. exact Hne. }
    destruct (rewrite_pipe h (write h lp (CPipe (filter (fun x0 => negb (x0 =? g)) fs))) lp fs (fun x => negb (x =? g)) [] C Efs) as [C' Hsub].
    - rewrite write_length. lia.
    - rewrite app_nil_r. apply write_same. exact Hlt.
    - exact HS.
    - intros g0 [].
    - constructor.
    - split; [exact C'|]. split; [exact Hsub|]. split; [rewrite write_length; lia|exact HS].
  Qed.

  (* nest_funcs *)
  Lemma pipeline_nest_shape h lp names no h' : pipeline_nest h lp names no = Some h' -> closed h lp ->
    closed h' lp /\ (forall x, In x (objs h' lp) -> In x (objs h lp) \/ length h <= x)
    /\ length h <= length h' /\ (forall x, x < length h -> x <> lp -> nth_error h' x = nth_error h x).
  Proof.
    unfold pipeline_nest. intros E C. apply obind_some in E as (gs & _ & E). apply obind_some in E as (fs & Efs & E).
    apply obind_some in E as (r & Er & E).
    assert (Hlt : lp < length h). { apply nth_error_Some. apply get_pipe_nth in Efs. congruence. }
    set (kept := filter (fun x => negb (existsb (Nat.eqb x) gs)) fs) in *.
    set (h1 := write h lp (CPipe kept)) in *.
    assert (L1 : length h1 = length h) by (unfold h1; apply write_length).
    destruct (new_nested_fresh h1 gs no r Er) as [P2 _].
    unfold pipeline_add in E. apply obind_some in E as (c & Ec & E). apply obind_some in E as (cur & Ecur & E).
    injection E as <-.
    destruct (copy1_fresh (fst r) (snd r) c Ec) as [P3 F3].
    assert (P13 : prefix h1 (fst c)) by (eapply prefix_trans; eauto).
    assert (Hcur : cur = kept).
    { assert (G1 : get_pipe h1 lp = Some kept). { apply nth_get_pipe. unfold h1. apply write_same. exact Hlt. }
      rewrite (get_pipe_prefix h1 (fst c) lp P13) in Ecur by lia. congruence. }
    subst cur.
    assert (L3 : length h <= length (fst c)) by (apply prefix_length in P13; lia).
    assert (HS : forall x, x < length h -> x <> lp ->
                  nth_error (write (fst c) lp (CPipe (kept ++ [snd c]))) x = nth_error h x).
    { intros x Hx Hne. rewrite write_other by exact Hne. rewrite (nth_prefix_inv h1 (fst c) x P13) by lia.
      unfold h1. apply write_other. exact Hne. }
    (* the copy of the nested function, seen in the final heap *)
    assert (Fg : fresh_func (length h) (write (fst c) lp (CPipe (kept ++ [snd c]))) (snd c)).
    { intros m. destruct (F3 m) as [B3 N3].
      assert (E3 : objs_func m (write (fst c) lp (CPipe (kept ++ [snd c]))) (snd c) = objs_func m (fst c) (snd c)).
      { apply objs_func_agree.
        - eapply bounded_weaken; [exact B3|lia|lia].
        - intros x Hx. apply same_links_eq. apply write_other. specialize (B3 x Hx). apply prefix_length in P2. lia. }
      rewrite E3. split; [|exact N3]. eapply bounded_weaken; [exact B3|apply prefix_length in P2; lia|rewrite write_length; lia]. }
    destruct (rewrite_pipe h (write (fst c) lp (CPipe (kept ++ [snd c]))) lp fs (fun x => negb (existsb (Nat.eqb x) gs)) [snd c] C Efs)
      as [C' Hsub].
    - rewrite write_length. exact L3.
    - apply write_same. lia.
    - exact HS.
    - intros g [<-|[]]. exact Fg.
    - cbn [flat_map]. rewrite app_nil_r. apply Fg.
    - split; [exact C'|]. split; [exact Hsub|]. split; [rewrite write_length; exact L3|exact HS].
  Qed.
End InPlaceShape.

(* ------------------------------------------------------------------ the ownership invariant *)
Definition disjoint (a b : list loc) : Prop := forall x, In x a -> ~ In x b.
(* the pipelines R are well-formed object trees that share no object (they may share any number of dicts) *)
Definition Sep (h : heap) (R : list loc) : Prop :=
  (forall q, In q R -> closed h q)
  /\ (forall i j q1 q2, nth_error R i = Some q1 -> nth_error R j = Some q2 -> i <> j -> disjoint (objs h q1) (objs h q2)).

Definition operands (x : hop) : list loc :=
  match x with
  | HCopy p | HPickle p | HSimplify p _ _ | HSplit p _ | HUpdateDefaults p _ | HUpdateBound p _ _ | HUpdateRenames p _
  | HUpdateScope p _ _ _ _ | HDrop p _ | HNest p _ _ => [p]
  | HJoin p q => [p; q]
  end.
Definition result_roots (r : option loc) : list loc := match r with Some l => [l] | None => [] end.

Lemma objs_head h q : In q (objs h q).
Proof. left. reflexivity. Qed.

Lemma owned_in_objs h p x : In x (owned h (Some p)) -> In x (objs h p).
Proof.
  unfold owned, objs. intros [<-|Hx]; [left; reflexivity|]. destruct (get_pipe h p) as [fs|]; [|destruct Hx].
  right. apply in_flat_map. exists x. split; [exact Hx|]. unfold copy_fuel. cbn [objs_func]. left. reflexivity.
Qed.

Section Ownership.
  Variable spec_ren : alist -> str -> str.

  (* every operation is of one of three kinds *)
  Lemma step_kinds h x h' r : step spec_ren h x = Some (h', r) ->
    (target x = None /\ prefix h h' /\ exists l, r = Some l /\ fresh_pipe (length h) h' l)
    \/ (r = None /\ fshape h h')
    \/ (r = None /\ exists p, target x = Some p /\
        (closed h p -> closed h' p /\ (forall y, In y (objs h' p) -> In y (objs h p) \/ length h <= y))
        /\ length h <= length h' /\ (forall y, y < length h -> y <> p -> nth_error h' y = nth_error h y)).
  Proof.
    destruct x; cbn [step target]; intros E.
    - apply obind_some in E as (y & Ey & E). injection E as <- <-. left. split; [reflexivity|].
      split; [eapply pipeline_copy_prefix; eauto|]. eexists. split; [reflexivity|]. eapply pipeline_copy_fresh; eauto.
    - apply obind_some in E as (y & Ey & E). injection E as <- <-. left. split; [reflexivity|].
      split; [eapply pipeline_pickle_prefix; eauto|]. eexists. split; [reflexivity|]. eapply pipeline_pickle_fresh; eauto.
    - apply obind_some in E as (y & Ey & E). injection E as <- <-. left. split; [reflexivity|].
      split; [eapply pipeline_join_prefix; eauto|]. eexists. split; [reflexivity|]. eapply pipeline_join_fresh; eauto.
    - apply obind_some in E as (y & Ey & E). injection E as <- <-. left. split; [reflexivity|].
      split; [eapply pipeline_simplify_prefix; eauto|]. eexists. split; [reflexivity|]. eapply pipeline_simplify_fresh; eauto.
    - apply obind_some in E as (y & Ey & E). injection E as <- <-. left. split; [reflexivity|].
      split; [eapply pipeline_split_prefix; eauto|]. eexists. split; [reflexivity|]. eapply pipeline_split_fresh; eauto.
    - apply obind_some in E as (y & Ey & E). injection E as <- <-. right. left. split; [reflexivity|].
      eapply pipeline_update_defaults_fshape; eauto.
    - apply obind_some in E as (g & Eg & E). apply obind_some in E as (y & Ey & E). injection E as <- <-. right. left.
      split; [reflexivity|]. eapply func_update_bound_fshape; eauto.
    - apply obind_some in E as (y & Ey & E). injection E as <- <-. right. left. split; [reflexivity|].
      eapply pipeline_update_renames_fshape; eauto.
    - apply obind_some in E as (y & Ey & E). injection E as <- <-. right. left. split; [reflexivity|].
      eapply pipeline_update_scope_fshape; eauto.
    - apply obind_some in E as (y & Ey & E). injection E as <- <-. right. right. split; [reflexivity|]. exists p.
      split; [reflexivity|]. split.
      + intros C. destruct (pipeline_drop_shape h p o y Ey C) as (A & B & _). auto.
      + unfold pipeline_drop in Ey. apply obind_some in Ey as (g & _ & Ey). apply obind_some in Ey as (fs & _ & Ey).
        injection Ey as <-. split; [rewrite write_length; lia|]. intros z _ Hne. apply write_other. exact Hne.
    - apply obind_some in E as (y & Ey & E). injection E as <- <-. right. right. split; [reflexivity|]. exists p.
      split; [reflexivity|].
      assert (Hgen : closed h p -> closed y p /\ (forall z, In z (objs y p) -> In z (objs h p) \/ length h <= z)
                                   /\ length h <= length y /\ (forall z, z < length h -> z <> p -> nth_error y z = nth_error h z)).
      { intros C. apply (pipeline_nest_shape h p names new_out y Ey C). }
      (* the frame part does not depend on closedness: recompute it *)
      split; [intros C; destruct (Hgen C) as (A & B & _); auto|].
      unfold pipeline_nest in Ey. apply obind_some in Ey as (gs & _ & Ey). apply obind_some in Ey as (fs & Efs & Ey).
      apply obind_some in Ey as (r0 & Er & Ey). unfold pipeline_add in Ey. apply obind_some in Ey as (c & Ec & Ey).
      apply obind_some in Ey as (cur & _ & Ey). injection Ey as <-.
      set (h1 := write h p (CPipe (filter (fun x => negb (existsb (Nat.eqb x) gs)) fs))) in *.
      assert (P13 : prefix h1 (fst c)).
      { eapply prefix_trans; [eapply new_nested_prefix; exact Er|eapply copy1_prefix; exact Ec]. }
      assert (L1 : length h1 = length h) by (unfold h1; apply write_length).
      split; [rewrite write_length; apply prefix_length in P13; lia|].
      intros z Hz Hne. rewrite write_other by exact Hne. rewrite (nth_prefix_inv h1 (fst c) z P13) by lia.
      unfold h1. apply write_other. exact Hne.
  Qed.

  Lemma nth_error_app_l {A} (l l' : list A) i x : nth_error l i = Some x -> nth_error (l ++ l') i = Some x.
  Proof. intros H. rewrite nth_error_app1; [exact H|]. apply nth_error_Some. congruence. Qed.

  (* the invariant is preserved; new pipelines join the set *)
  Theorem step_sep h R x h' r : Sep h R -> incl (operands x) R -> step spec_ren h x = Some (h', r) ->
    Sep h' (R ++ result_roots r).
  Proof.
    intros [SC SD] Hop E. destruct (step_kinds h x h' r E) as [(Ht & P & l & -> & F)|[(-> & FS)|(-> & p & Ht & Hp & L & Hfr)]].
    - (* a new pipeline *)
      cbn [result_roots]. split.
      + intros q Hq. apply in_app_or in Hq as [Hq|Hq]; [exact (closed_prefix h h' q P (SC q Hq))|].
        destruct Hq as [Hq|[]]. subst q. exact (fresh_pipe_closed (length h) h' l F).
      + intros i j q1 q2 E1 E2 Hij y Hy1 Hy2.
        assert (Hcase : forall k q, nth_error (R ++ [l]) k = Some q ->
                  (nth_error R k = Some q /\ In q R) \/ (k = length R /\ q = l)).
        { intros k q Ek. destruct (Nat.lt_ge_cases k (length R)) as [Hk|Hk].
          - rewrite nth_error_app1 in Ek by exact Hk. left. split; [exact Ek|exact (nth_error_In _ _ Ek)].
          - rewrite nth_error_app2 in Ek by exact Hk. destruct (k - length R) as [|d] eqn:Ed; cbn in Ek.
            + injection Ek as <-. right. split; [lia|reflexivity].
            + destruct d; discriminate. }
        destruct (Hcase i q1 E1) as [[E1' I1]|[-> ->]]; destruct (Hcase j q2 E2) as [[E2' I2]|[-> ->]].
        * rewrite (objs_prefix h h' q1 P (SC q1 I1)) in Hy1. rewrite (objs_prefix h h' q2 P (SC q2 I2)) in Hy2.
          apply (SD i j q1 q2 E1' E2' Hij y Hy1 Hy2).
        * rewrite (objs_prefix h h' q1 P (SC q1 I1)) in Hy1. destruct (SC q1 I1) as [B _]. destruct F as [BF _].
          specialize (B y Hy1). specialize (BF y Hy2). lia.
        * rewrite (objs_prefix h h' q2 P (SC q2 I2)) in Hy2. destruct (SC q2 I2) as [B _]. destruct F as [BF _].
          specialize (B y Hy2). specialize (BF y Hy1). lia.
        * congruence.
    - (* attributes rebound *)
      cbn [result_roots]. rewrite app_nil_r. split.
      + intros q Hq. apply (objs_fshape h h' q FS (SC q Hq)).
      + intros i j q1 q2 E1 E2 Hij y Hy1 Hy2.
        rewrite (proj1 (objs_fshape h h' q1 FS (SC q1 (nth_error_In _ _ E1)))) in Hy1.
        rewrite (proj1 (objs_fshape h h' q2 FS (SC q2 (nth_error_In _ _ E2)))) in Hy2.
        apply (SD i j q1 q2 E1 E2 Hij y Hy1 Hy2).
    - (* the function list of p rewritten *)
      cbn [result_roots]. rewrite app_nil_r.
      assert (HpR : In p R).
      { apply Hop. destruct x; cbn [target operands] in *; try discriminate; injection Ht as ->; left; reflexivity. }
      destruct (Hp (SC p HpR)) as [Cp Hsub].
      assert (Hother : forall k q, nth_error R k = Some q -> q <> p -> objs h' q = objs h q /\ closed h' q).
      { intros k q Ek Hne. apply In_nth_error in HpR as [kp Ekp].
        apply (rewrite_pipe_other h h' p q); [apply SC; exact (nth_error_In _ _ Ek)| |exact L|exact Hfr].
        intros Hin. assert (k <> kp) by (intros ->; congruence).
        apply (SD k kp q p Ek Ekp H p Hin). apply objs_head. }
      split.
      + intros q Hq. destruct (Nat.eq_dec q p) as [->|Hne]; [exact Cp|].
        apply In_nth_error in Hq as [k Ek]. apply (Hother k q Ek Hne).
      + intros i j q1 q2 E1 E2 Hij y Hy1 Hy2.
        destruct (Nat.eq_dec q1 p) as [->|N1]; destruct (Nat.eq_dec q2 p) as [->|N2].
        * (* p twice in R: impossible *)
          apply (SD i j p p E1 E2 Hij p (objs_head h p) (objs_head h p)).
        * rewrite (proj1 (Hother j q2 E2 N2)) in Hy2. destruct (Hsub y Hy1) as [Ho|Hf].
          -- apply (SD i j p q2 E1 E2 Hij y Ho Hy2).
          -- destruct (SC q2 (nth_error_In _ _ E2)) as [B _]. specialize (B y Hy2). lia.
        * rewrite (proj1 (Hother i q1 E1 N1)) in Hy1. destruct (Hsub y Hy2) as [Ho|Hf].
          -- apply (SD i j q1 p E1 E2 Hij y Hy1 Ho).
          -- destruct (SC q1 (nth_error_In _ _ E1)) as [B _]. specialize (B y Hy1). lia.
        * rewrite (proj1 (Hother i q1 E1 N1)) in Hy1. rewrite (proj1 (Hother j q2 E2 N2)) in Hy2.
          apply (SD i j q1 q2 E1 E2 Hij y Hy1 Hy2).
  Qed.

  (* one step: an operation that is not applied to q leaves q's observable state alone *)
  Theorem sep_step_isolated h R x h' r q v : Sep h R -> In q R -> incl (operands x) R -> target x <> Some q ->
    step spec_ren h x = Some (h', r) -> pobs h q = Some v -> pobs h' q = Some v.
  Proof.
    intros [SC SD] Hq Hop Ht E Hv. eapply mutation_isolated; [exact E|exact Hv|].
    intros l Hl Hown. destruct (target x) as [p|] eqn:Etx; [|destruct Hown].
    assert (HpR : In p R).
    { apply Hop. destruct x; cbn [target operands] in *; try discriminate; injection Etx as ->; left; reflexivity. }
    assert (Hne : p <> q) by congruence.
    apply In_nth_error in HpR as [kp Ekp]. apply In_nth_error in Hq as [kq Ekq].
    assert (kq <> kp) by (intros ->; congruence).
    apply (SD kq kp q p Ekq Ekp H l Hl). apply owned_in_objs. exact Hown.
  Qed.

  (* operation sequences: the roots grow by the pipelines that operations return *)
  Fixpoint steps_r (h : heap) (R : list loc) (xs : list hop) : option (heap * list loc) :=
    match xs with
    | [] => Some (h, R)
    | x :: t =>
        if forallb (fun l => existsb (Nat.eqb l) R) (operands x) then
          match step spec_ren h x with
          | Some (h', r) => steps_r h' (R ++ result_roots r) t
          | None => None
          end
        else None
    end.

  (* THE sequence theorem: starting from pipelines that share no object, along ANY sequence of operations on them
     and on the pipelines these operations return, the observable state of q changes only through the operations
     applied to q itself.  (The disjointness of the intermediate heaps is derived: step_sep.) *)
  Theorem mutation_isolated_everywhere q v : forall xs h R h' R',
    Sep h R -> In q R -> steps_r h R xs = Some (h', R') ->
    (forall x, In x xs -> target x <> Some q) ->
    pobs h q = Some v -> pobs h' q = Some v /\ Sep h' R'.
  Proof.
    induction xs as [|x xs IH]; intros h R h' R' HS Hq E Ht Hv; cbn in E.
    - injection E as <- <-. auto.
    - destruct (forallb (fun l => existsb (Nat.eqb l) R) (operands x)) eqn:Eop; [|discriminate].
      destruct (step spec_ren h x) as [[h1 r]|] eqn:Es; [|discriminate].
      assert (Hop : incl (operands x) R).
      { intros l Hl. rewrite forallb_forall in Eop. specialize (Eop l Hl). apply existsb_exists in Eop as (y & Hy & Ey).
        apply Nat.eqb_eq in Ey. subst. exact Hy. }
      apply (IH h1 (R ++ result_roots r) h' R').
      + exact (step_sep h R x h1 r HS Hop Es).
      + apply in_or_app. left. exact Hq.
      + exact E.
      + intros y Hy. apply Ht. right. exact Hy.
      + apply (sep_step_isolated h R x h1 r q v HS Hq Hop); [apply Ht; left; reflexivity|exact Es|exact Hv].
  Qed.
End Ownership.

(* ------------------------------------------------------------------ adding a fresh pipeline to the roots; build *)
Lemma sep_add_fresh h h' R l : Sep h R -> prefix h h' -> fresh_pipe (length h) h' l -> Sep h' (R ++ [l]).
Proof.
  intros [SC SD] P F. split.
  - intros q Hq. apply in_app_or in Hq as [Hq|Hq]; [exact (closed_prefix h h' q P (SC q Hq))|].
    destruct Hq as [Hq|[]]. subst q. exact (fresh_pipe_closed (length h) h' l F).
  - intros i j q1 q2 E1 E2 Hij y Hy1 Hy2.
    assert (Hcase : forall k q, nth_error (R ++ [l]) k = Some q ->
              (nth_error R k = Some q /\ In q R) \/ (k = length R /\ q = l)).
    { intros k q Ek. destruct (Nat.lt_ge_cases k (length R)) as [Hk|Hk].
      - rewrite nth_error_app1 in Ek by exact Hk. left. split; [exact Ek|exact (nth_error_In _ _ Ek)].
      - rewrite nth_error_app2 in Ek by exact Hk. destruct (k - length R) as [|d] eqn:Ed; cbn in Ek.
        + injection Ek as <-. right. split; [lia|reflexivity].
        + destruct d; discriminate. }
    destruct (Hcase i q1 E1) as [[E1' I1]|[-> ->]]; destruct (Hcase j q2 E2) as [[E2' I2]|[-> ->]].
    + rewrite (objs_prefix h h' q1 P (SC q1 I1)) in Hy1. rewrite (objs_prefix h h' q2 P (SC q2 I2)) in Hy2.
      apply (SD i j q1 q2 E1' E2' Hij y Hy1 Hy2).
    + rewrite (objs_prefix h h' q1 P (SC q1 I1)) in Hy1. destruct (SC q1 I1) as [B _]. destruct F as [BF _].
      specialize (B y Hy1). specialize (BF y Hy2). lia.
    + rewrite (objs_prefix h h' q2 P (SC q2 I2)) in Hy2. destruct (SC q2 I2) as [B _]. destruct F as [BF _].
      specialize (B y Hy2). specialize (BF y Hy1). lia.
    + congruence.
Qed.

Lemma build_func_prefix h d r : build_func h d = Some r -> prefix h (fst r).
Proof.
  unfold build_func. cbn [alloc]. intros E. eapply prefix_trans; [|eapply new_func_prefix; exact E].
  eexists. rewrite <- !app_assoc. reflexivity.
Qed.

Lemma build_sep h ds h' P R : build h ds = Some (h', P) -> Sep h R -> prefix h h' /\ Sep h' (R ++ [P]).
Proof.
  unfold build. intros E HS. apply obind_some in E as (c & Ec & E).
  assert (Pc : prefix h (fst c)).
  { apply (ofold_inv (fun a b : heap * list loc => prefix (fst a) (fst b))) in Ec; auto.
    - intros. apply prefix_refl.
    - intros a b c0. apply prefix_trans.
    - intros st x s1 _ E1. apply obind_some in E1 as (r & E1 & E2). injection E2 as <-. cbn. eapply build_func_prefix; eauto. }
  destruct (new_pipeline_fresh (fst c) (snd c) (h', P) E) as [P2 F]. cbn [fst snd] in *.
  assert (Pall : prefix h h') by (eapply prefix_trans; eauto).
  split; [exact Pall|]. apply (sep_add_fresh h h' R P HS Pall).
  eapply fresh_pipe_weaken; [exact F|apply prefix_length; exact Pc].
Qed.

Lemma sep_nil h : Sep h [].
Proof. split; [intros q []|]. intros i j q1 q2 E. destruct i; discriminate. Qed.

(* the immutable view of a pipeline is isolated just as its observable state *)
Lemma reify_ext T h h' q v : ext T h h' -> reify h q = Some v -> (forall l, In l (objs h q) -> ~ In l T) ->
  reify h' q = Some v.
Proof.
  intros X E Hd. unfold reify in *. apply obind_some in E as (fs & Efs & E).
  unfold objs in Hd. rewrite Efs in Hd. destruct X as [L HX].
  rewrite (nth_get_pipe h' q fs).
  2:{ apply HX; [apply get_pipe_nth; exact Efs|]. right. apply Hd. left. reflexivity. }
  cbn [obind]. eapply ofold_congr; [|exact E].
  intros x st r Hx E0. cbn beta in *. apply obind_some in E0 as (y & Ey & E0).
  rewrite (reify_func_ext T h h' (conj L HX) copy_fuel x y Ey); [exact E0|].
  intros l Hl. apply Hd. right. apply in_flat_map. exists x. split; assumption.
Qed.

Lemma sep_step_reify spec_ren h R x h' r q v : Sep h R -> In q R -> incl (operands x) R -> target x <> Some q ->
  step spec_ren h x = Some (h', r) -> reify h q = Some v -> reify h' q = Some v.
Proof.
  intros [SC SD] Hq Hop Ht E Hv. eapply reify_ext; [eapply step_ext; exact E|exact Hv|].
  intros l Hl Hown. destruct (target x) as [p|] eqn:Etx; [|destruct Hown].
  assert (HpR : In p R).
  { apply Hop. destruct x; cbn [target operands] in *; try discriminate; injection Etx as ->; left; reflexivity. }
  assert (Hne : p <> q) by congruence.
  apply In_nth_error in HpR as [kp Ekp]. apply In_nth_error in Hq as [kq Ekq].
  assert (kq <> kp) by (intros ->; congruence).
  apply (SD kq kp q p Ekq Ekp H l Hl). apply owned_in_objs. exact Hown.
Qed.
