(* Every element of arg_combinations(o) (model of _compute_arg_mapping, Model/Pipe.v `cam`) is accepted:
   supplying exactly those names leaves nothing unused and nothing missing. *)
From Verif Require Import Base.Prelude Base.StrOrd Base.Graph Model.Pipe Proofs.GraphFacts Proofs.PipeFacts.
From Coq Require Import Permutation.

Section ArgComb.
  Variable p : pipeline.
  Variable ls : list (list str).
  Hypothesis Hwf : wf_P p ls.
  Variable o : str.
  Variable head : pfunc.
  Hypothesis Hhead : producer p o = Some head.

  Let Hnd := wf_outs_nd _ _ Hwf.

  Lemma same_output_same_func f g k : In f p -> In g p -> In k (outs f) -> In k (outs g) -> f = g.
  Proof.
    intros Hf Hg H1 H2. pose proof (producer_unique p Hnd f k Hf H1) as E1.
    pose proof (producer_unique p Hnd g k Hg H2) as E2. congruence.
  Qed.

  Lemma fid_inj f g : In f p -> In g p -> fid f = fid g -> f = g.
  Proof.
    intros Hf Hg E. apply (same_output_same_func f g (fid f)); auto.
    - apply fid_in_outs. apply (wff_outs_ne _ (wf_funcs _ _ Hwf f Hf)).
    - rewrite E. apply fid_in_outs. apply (wff_outs_ne _ (wf_funcs _ _ Hwf g Hg)).
  Qed.

  Lemma node_func_Some n g : node_func p n = Some g -> In g p /\ fid g = n.
  Proof. unfold node_func. intros H. apply find_some in H as [H1 H2]. now apply str_eqb_eq in H2. Qed.

  Lemma node_func_fid g : In g p -> node_func p (fid g) = Some g.
  Proof.
    intros Hg. destruct (node_func p (fid g)) as [g'|] eqn:E.
    - apply node_func_Some in E as [H1 H2]. f_equal. now apply fid_inj.
    - unfold node_func in E. eapply find_none in E; eauto. cbn in E. now rewrite str_eqb_refl in E.
  Qed.

  Lemma node_func_root n : is_output p n = false -> node_func p n = None.
  Proof.
    intros H. destruct (node_func p n) as [g|] eqn:E; [|reflexivity].
    apply node_func_Some in E as [H1 H2]. apply is_output_false in H.
    exfalso. eapply producer_None; eauto. rewrite <- H2. apply fid_in_outs.
    apply (wff_outs_ne _ (wf_funcs _ _ Hwf g H1)).
  Qed.

  (* d is a predecessor node of e: through which parameter *)
  Lemma fpreds_In e d : In d (fpreds p e) <->
    exists cur, In cur (pnames e) /\ aget (bound e) cur = None /\
                ((exists g, producer p cur = Some g /\ d = fid g) \/ (producer p cur = None /\ d = cur)).
  Proof.
    unfold fpreds. rewrite in_flat_map. split.
    - intros [cur [H1 H2]]. exists cur. split; [assumption|]. unfold dep_node in H2.
      destruct (ahas (bound e) cur) eqn:Eb; [contradiction|]. apply ahas_false_iff in Eb. split; [assumption|].
      destruct (producer p cur) as [g|] eqn:Eg; destruct H2 as [<-|[]]; eauto.
    - intros [cur [H1 [H2 H3]]]. exists cur. split; [assumption|]. unfold dep_node.
      apply ahas_false_iff in H2. rewrite H2. destruct H3 as [[g [E ->]]|[E ->]]; rewrite E; now left.
  Qed.

  Lemma no_self_loop f : In f p -> ~ In (fid f) (fpreds p f).
  Proof.
    intros Hf H. apply fpreds_In in H as [cur [H1 [H2 [[g [Eg E]]|[Eg E]]]]].
    - apply producer_Some in Eg as [Hg Hc]. assert (g = f) by (apply fid_inj; auto). subst g.
      apply (wff_out_par _ (wf_funcs _ _ Hwf f Hf) cur Hc H1).
    - eapply producer_None; eauto. rewrite <- E. apply fid_in_outs. apply (wff_outs_ne _ (wf_funcs _ _ Hwf f Hf)).
  Qed.

  (* the expanded functions: the head, then functions each read by an earlier one *)
  Inductive Conn : list pfunc -> Prop :=
  | Conn1 : Conn [head]
  | ConnS E g : Conn E -> In g p -> (exists e, In e E /\ In (fid g) (fpreds p e)) -> Conn (E ++ [g]).

  Lemma Conn_in_p E : Conn E -> forall e, In e E -> In e p.
  Proof.
    induction 1; intros e He.
    - destruct He as [<-|[]]. now apply producer_Some in Hhead.
    - apply in_app_iff in He as [He|[<-|[]]]; auto.
  Qed.

  Lemma Conn_head E : Conn E -> In head E.
  Proof. induction 1; [now left|apply in_app_iff; now left]. Qed.

  Definition Frontier (E : list pfunc) (deps : list str) : Prop :=
    forall d, In d deps <-> (exists e, In e E /\ In d (fpreds p e)) /\ ~ (exists e, In e E /\ fid e = d).

  Definition in_names (E : list pfunc) (deps : list str) (k : str) : Prop :=
    exists d, In d deps /\
      ((node_func p d = None /\ k = d) \/
       (exists g, node_func p d = Some g /\ In k (outs g) /\
                  (multi g = true -> exists c, In c E /\ In k (pnames c) /\ aget (bound c) k = None))).

  Lemma names_of_In E deps k : In k (names_of p E deps) <-> in_names E deps k.
  Proof.
    unfold names_of, sort_strs, in_names. rewrite sort_In, in_flat_map. split.
    - intros [d [H1 H2]]. exists d. split; [assumption|]. destruct (node_func p d) as [g|] eqn:Eg.
      + right. exists g. split; [reflexivity|]. destruct (multi g) eqn:Em.
        * apply filter_In in H2 as [H2 H3]. split; [assumption|]. intros _. apply existsb_exists in H3 as [c [C1 C2]].
          apply andb_true_iff in C2 as [C2 C3]. apply mem_str_In in C2. apply negb_true_iff, ahas_false_iff in C3. eauto.
        * split; [assumption|discriminate].
      + left. destruct H2 as [<-|[]]. auto.
    - intros [d [H1 [[H2 ->]|[g [H2 [H3 H4]]]]]]; exists d; (split; [assumption|]); rewrite H2; [now left|].
      destruct (multi g) eqn:Em; [|assumption]. apply filter_In. split; [assumption|].
      destruct (H4 eq_refl) as [c [C1 [C2 C3]]]. apply existsb_exists. exists c. split; [assumption|].
      apply mem_str_In in C2. apply ahas_false_iff in C3. now rewrite C2, C3.
  Qed.

  Section Accepted.
    Variable E : list pfunc.
    Variable deps : list str.
    Hypothesis HC : Conn E.
    Hypothesis HF : Frontier E deps.
    Variable kw : alist.
    Hypothesis Hkw : forall k, In k (akeys kw) <-> in_names E deps k.

    Lemma dep_root_not_output d : In d deps -> node_func p d = None -> is_output p d = false.
    Proof.
      intros Hd Hn. apply HF in Hd as [[e [He Hp]] _]. apply fpreds_In in Hp as [cur [_ [_ [[g [Eg ->]]|[Eg ->]]]]].
      - apply producer_Some in Eg as [Hg _]. rewrite (node_func_fid g Hg) in Hn. discriminate.
      - now apply is_output_false.
    Qed.

    (* outputs of expanded functions are never among the names *)
    Lemma out_of_E_not_name e k : In e E -> In k (outs e) -> ~ in_names E deps k.
    Proof.
      intros He Hk [d [Hd [[Hn ->]|[g [Hn [Hg _]]]]]].
      - pose proof (dep_root_not_output d Hd Hn) as H. apply is_output_false in H.
        eapply producer_None; eauto. eapply Conn_in_p; eauto.
      - apply node_func_Some in Hn as [Hgp Hfid]. assert (e = g).
        { eapply same_output_same_func; eauto. eapply Conn_in_p; eauto. }
        subst g. apply HF in Hd as [_ Hd]. apply Hd. eauto.
    Qed.

    Lemma kw_none_of_E e k : In e E -> In k (outs e) -> aget kw k = None.
    Proof.
      intros He Hk. apply aget_None_iff. intros H. apply Hkw in H. eapply out_of_E_not_name; eauto.
    Qed.

    Lemma acc_o_not_supplied : aget kw o = None.
    Proof. apply (kw_none_of_E head); [now apply Conn_head|]. now apply producer_Some in Hhead. Qed.

    (* every function the evaluation executes is an expanded one *)
    Lemma needed_sub_E : forall n x e g, producer p x = Some e -> In e E -> In g (needed n p kw x) -> In g E.
    Proof.
      induction n as [|n IH]; intros x e g Ex He Hg; [contradiction|].
      rewrite needed_S, Ex in Hg. destruct Hg as [<-|Hg]; [assumption|].
      apply in_flat_map in Hg as [cur [Hcur Hg]]. destruct (source_of p kw e cur) as [| |h| |] eqn:Es; try contradiction.
      apply source_SUp in Es as [Eb [Ek Eh]]. apply (IH cur h g Eh); [|assumption].
      pose proof (producer_Some _ _ _ Eh) as [Hhp Hco].
      destruct (existsb (fun e' => str_eqb (fid e') (fid h)) E) eqn:Exb.
      { apply existsb_exists in Exb as [e' [He' Ef]]. apply str_eqb_eq in Ef.
        assert (e' = h) by (apply fid_inj; auto; eapply Conn_in_p; eauto). now subst e'. }
      exfalso.
      assert (Hd : In (fid h) deps).
      { apply HF. split.
        - exists e. split; [assumption|]. apply fpreds_In. exists cur. repeat split; auto. left. eauto.
        - intros [e' [He' Ef]]. assert (Ht : existsb (fun e' => str_eqb (fid e') (fid h)) E = true).
          { apply existsb_exists. exists e'. split; [assumption|]. now apply str_eqb_eq. }
          congruence. }
      apply aget_None_iff in Ek. apply Ek. apply Hkw. exists (fid h). split; [assumption|]. right.
      exists h. split; [now apply node_func_fid|]. split; [assumption|]. intros _. exists e. auto.
    Qed.

    Lemma needed_closed : forall n x e g cur, rk p ls x < n -> In e (needed n p kw x) ->
      source_of p kw e cur = SUp g -> In cur (pnames e) -> In g (needed n p kw x).
    Proof.
      induction n as [|n IH]; intros x e g cur Hr He Hs Hcur; [lia|].
      rewrite needed_S in He |- *. destruct (producer p x) as [f|] eqn:Ef; [|contradiction].
      pose proof (producer_Some _ _ _ Ef) as [Hf _]. rewrite (rk_producer p ls _ _ Ef) in Hr.
      right. destruct He as [<-|He].
      - apply in_flat_map. exists cur. split; [assumption|]. rewrite Hs.
        apply source_SUp in Hs as [Eb [Ek Eg]]. rewrite <- ahas_false_iff in Eb.
        pose proof (wf_rank_edge _ _ Hwf f g cur Hf Hcur Eb Eg).
        destruct n; [lia|]. now apply needed_head.
      - apply in_flat_map in He as [c' [Hc' He]]. destruct (source_of p kw f c') as [| |h| |] eqn:Es'; try contradiction.
        apply in_flat_map. exists c'. split; [assumption|]. rewrite Es'.
        apply source_SUp in Es' as [Eb [Ek Eh]]. rewrite <- ahas_false_iff in Eb.
        pose proof (wf_rank_edge _ _ Hwf f h c' Hf Hc' Eb Eh).
        eapply IH; eauto. rewrite (rk_producer p ls _ _ Eh). lia.
    Qed.

    (* every expanded function is executed *)
    Lemma E_sub_needed : forall E0, Conn E0 -> (forall e, In e E0 -> In e E) ->
      forall e, In e E0 -> In e (needed_top p kw o).
    Proof.
      induction 1 as [|E0 g HC0 IH Hg [e' [He' Hp]]]; intros Hsub e He.
      - destruct He as [<-|[]]. unfold needed_top. rewrite needed_S, Hhead. now left.
      - apply in_app_iff in He as [He|[<-|[]]].
        + apply IH; auto. intros x Hx. apply Hsub. apply in_app_iff. now left.
        + assert (He'n : In e' (needed_top p kw o)).
          { apply IH; auto. intros x Hx. apply Hsub. apply in_app_iff. now left. }
          apply fpreds_In in Hp as [cur [Hcur [Eb [[g' [Eg Ef]]|[Eg Ef]]]]].
          * pose proof (producer_Some _ _ _ Eg) as [Hg' Hco]. assert (g' = g) by (apply fid_inj; auto). subst g'.
            assert (Ek : aget kw cur = None).
            { apply (kw_none_of_E g); [|assumption]. apply Hsub. apply in_app_iff. right. now left. }
            unfold needed_top. eapply (needed_closed _ o e' g cur); eauto.
            -- apply rk_lt_N. exact Hwf.
            -- now apply source_SUp_intro.
          * exfalso. eapply producer_None; eauto. rewrite <- Ef. apply fid_in_outs.
            apply (wff_outs_ne _ (wf_funcs _ _ Hwf g Hg)).
    Qed.

    (* every non-output name that a needed function reads through an unbound parameter is one of the names *)
    Lemma read_root_is_name f cur : In f (needed_top p kw o) -> In cur (pnames f) -> aget (bound f) cur = None ->
      producer p cur = None -> In cur (akeys kw).
    Proof.
      intros Hf Hcur Eb Ep. assert (HfE : In f E).
      { unfold needed_top in Hf. eapply needed_sub_E; eauto. now apply Conn_head. }
      apply Hkw. exists cur. split.
      + apply HF. split.
        * exists f. split; [assumption|]. apply fpreds_In. exists cur. repeat split; auto.
        * intros [e' [He' Ef]]. eapply producer_None; eauto; [eapply Conn_in_p; eauto|].
          rewrite <- Ef. apply fid_in_outs. apply (wff_outs_ne _ (wf_funcs _ _ Hwf e' (Conn_in_p _ HC _ He'))).
      + left. split; [|reflexivity]. apply node_func_root. now apply is_output_false.
    Qed.

    Theorem names_accepted : aget kw o = None /\ no_unused p kw o /\ sufficient p kw o
      /\ (forall f cur, In f (needed_top p kw o) -> In cur (pnames f) -> aget (bound f) cur = None ->
                        is_output p cur = false -> In cur (akeys kw)).
    Proof.
      split; [apply acc_o_not_supplied|]. split; [|split; [|intros f cur Hf Hcur Eb Eo; apply is_output_false in Eo; eapply read_root_is_name; eauto]].
      - intros k Hk. apply Hkw in Hk as [d [Hd Hcase]]. unfold param_names_needed. apply in_flat_map.
        pose proof Hd as Hd'. apply HF in Hd' as [[e [He Hp]] _].
        assert (Hen : In e (needed_top p kw o)) by (eapply E_sub_needed; eauto).
        destruct Hcase as [[Hn ->]|[g [Hn [Hkg Hm]]]].
        + exists e. split; [assumption|]. apply fpreds_In in Hp as [cur [Hcur [_ [[g [Eg Ed]]|[Eg Ed]]]]].
          * apply producer_Some in Eg as [Hg _]. rewrite Ed, (node_func_fid g Hg) in Hn. discriminate.
          * now subst d.
        + destruct (multi g) eqn:Em.
          * destruct (Hm eq_refl) as [c [Hc [Hkc _]]]. exists c. split; [eapply E_sub_needed; eauto|assumption].
          * exists e. split; [assumption|]. apply node_func_Some in Hn as [Hg Hfid].
            rewrite (single_outs g (wf_funcs _ _ Hwf g Hg) Em) in Hkg. destruct Hkg as [<-|[]].
            apply fpreds_In in Hp as [cur [Hcur [_ [[g' [Eg Ed]]|[Eg Ed]]]]].
            -- pose proof (producer_Some _ _ _ Eg) as [Hg' Hco]. assert (g' = g) by (apply fid_inj; auto; congruence).
               subst g'. rewrite (single_outs g (wf_funcs _ _ Hwf g Hg) Em) in Hco. destruct Hco as [<-|[]]. assumption.
            -- exfalso. eapply producer_None; eauto. rewrite <- Ed, <- Hfid. apply fid_in_outs.
               apply (wff_outs_ne _ (wf_funcs _ _ Hwf g Hg)).
      - intros f cur Hf Hcur. assert (HfE : In f E).
        { unfold needed_top in Hf. eapply needed_sub_E; eauto. now apply Conn_head. }
        unfold source_of. destruct (aget (bound f) cur) eqn:Eb; [discriminate|].
        destruct (aget kw cur) eqn:Ek; [discriminate|]. destruct (producer p cur) eqn:Ep; [discriminate|].
        exfalso. apply aget_None_iff in Ek. apply Ek. apply Hkw. exists cur. split.
        + apply HF. split.
          * exists f. split; [assumption|]. apply fpreds_In. exists cur. repeat split; auto.
          * intros [e' [He' Ef]]. eapply producer_None; eauto; [eapply Conn_in_p; eauto|].
            rewrite <- Ef. apply fid_in_outs. apply (wff_outs_ne _ (wf_funcs _ _ Hwf e' (Conn_in_p _ HC _ He'))).
        + left. split; [|reflexivity]. apply node_func_root. now apply is_output_false.
    Qed.
  End Accepted.

  Definition Q (c : list str) : Prop :=
    forall kw, (forall k, In k (akeys kw) <-> In k c) ->
               aget kw o = None /\ no_unused p kw o /\ sufficient p kw o
               /\ (forall f cur, In f (needed_top p kw o) -> In cur (pnames f) -> aget (bound f) cur = None ->
                                 is_output p cur = false -> In cur (akeys kw)).

  Lemma state_Q E deps : Conn E -> Frontier E deps -> Q (names_of p E deps).
  Proof.
    intros HC HF kw Hk. apply (names_accepted E deps HC HF kw). intros k. rewrite Hk. apply names_of_In.
  Qed.

  Lemma unique_nodes_In l x : In x (unique_nodes p l) <-> In x l.
  Proof. unfold unique_nodes. now rewrite sort_In, dedup_In. Qed.

  Lemma in_fids E x : existsb (fun r : pfunc => str_eqb (fid r) x) E = true <-> exists e, In e E /\ fid e = x.
  Proof.
    rewrite existsb_exists. split; intros [e [H1 H2]]; exists e; (split; [assumption|]); now apply str_eqb_eq.
  Qed.

  Definition next_deps (E : list pfunc) (deps : list str) (d : str) (g : pfunc) : list str :=
    unique_nodes p (filter (fun x => negb (str_eqb x d)) deps
                    ++ filter (fun x => negb (existsb (fun r => str_eqb (fid r) x) E)) (fpreds p g)).

  Lemma frontier_step E deps d g : Conn E -> Frontier E deps -> In d deps -> node_func p d = Some g ->
    Conn (E ++ [g]) /\ Frontier (E ++ [g]) (next_deps E deps d g).
  Proof.
    intros HC HF Hd Hn. apply node_func_Some in Hn as [Hg Hfid]. pose proof Hd as Hd'.
    apply HF in Hd' as [[e [He Hp]] Hnot]. split.
    - constructor; auto. exists e. split; [assumption|]. now rewrite Hfid.
    - intros x. unfold next_deps. rewrite unique_nodes_In, in_app_iff, !filter_In, !negb_true_iff. split.
      + intros [[Hx Hne]|[Hx Hnf]].
        * apply str_eqb_neq in Hne. apply HF in Hx as [[e' [He' Hp']] Hnot']. split.
          -- exists e'. split; [apply in_app_iff; now left|assumption].
          -- intros [e'' [He'' Hf'']]. apply in_app_iff in He'' as [He''|[<-|[]]]; [apply Hnot'; eauto|congruence].
        * split.
          -- exists g. split; [apply in_app_iff; right; now left|assumption].
          -- intros [e'' [He'' Hf'']]. apply in_app_iff in He'' as [He''|[<-|[]]].
             ++ assert (Ht : existsb (fun r => str_eqb (fid r) x) E = true) by (apply in_fids; eauto). congruence.
             ++ apply (no_self_loop g Hg). now rewrite Hf''.
      + intros [[e' [He' Hp']] Hnot']. apply in_app_iff in He' as [He'|[<-|[]]].
        * left. split.
          -- apply HF. split; [eauto|]. intros [e'' [He'' Hf'']]. apply Hnot'. exists e''. split; [apply in_app_iff; now left|assumption].
          -- apply str_eqb_neq. intros ->. apply Hnot'. exists g. split; [apply in_app_iff; right; now left|assumption].
        * right. split; [assumption|]. destruct (existsb (fun r => str_eqb (fid r) x) E) eqn:Ex; [|reflexivity].
          exfalso. apply in_fids in Ex as [e'' [He'' Hf'']]. apply Hnot'. exists e''. split; [apply in_app_iff; now left|assumption].
  Qed.

  Lemma cam_Q : forall fuel node args replaced acc,
    Conn (replaced ++ [node]) ->
    Frontier (replaced ++ [node])
             (unique_nodes p (args ++ filter (fun d => negb (existsb (fun r => str_eqb (fid r) d) replaced)) (fpreds p node))) ->
    (forall c, In c acc -> Q c) ->
    forall c, In c (cam fuel p (Some node) args replaced acc) -> Q c.
  Proof.
    induction fuel as [|fuel IH]; intros node args replaced acc HC HF Hacc c Hc; [cbn in Hc; auto|].
    cbn [cam] in Hc.
    set (E := replaced ++ [node]) in *.
    set (deps := unique_nodes p (args ++ filter (fun d => negb (existsb (fun r => str_eqb (fid r) d) replaced)) (fpreds p node))) in *.
    destruct (existsb (list_eqb str_eqb (names_of p E deps)) acc); [auto|].
    assert (Hacc1 : forall c0, In c0 (acc ++ [names_of p E deps]) -> Q c0).
    { intros c0 H0. apply in_app_iff in H0 as [H0|[<-|[]]]; [auto|]. now apply state_Q. }
    revert Hc. generalize (acc ++ [names_of p E deps]) Hacc1. clear Hacc Hacc1.
    assert (Hsub : forall d, In d deps -> In d deps) by auto. revert Hsub.
    generalize deps at 1 4. intros l. induction l as [|d l IHl]; intros Hsub acc' Hacc' Hc; cbn in Hc; [auto|].
    apply (IHl (fun x Hx => Hsub x (or_intror Hx))) in Hc; [assumption|].
    intros c0 H0. destruct (node_func p d) as [g|] eqn:Eg; [|auto].
    assert (Hd : In d deps) by (apply Hsub; now left).
    destruct (frontier_step E deps d g HC HF Hd Eg) as [HC' HF'].
    eapply (IH g (filter (fun x => negb (str_eqb x d)) deps) E acc'); eauto.
  Qed.

  Theorem arg_combinations_Q cs : arg_combinations p o = Ok cs -> forall c, In c cs -> Q c.
  Proof.
    unfold arg_combinations. destruct (is_node p o); cbn [negb]; [|discriminate].
    intros H c Hc. inversion H; subst cs. apply sort_In in Hc. rewrite Hhead in Hc.
    apply (cam_Q (S (S (length p))) head [] [] []); [apply Conn1| |intros c0 []|exact Hc].
    intros d. cbn [app]. rewrite unique_nodes_In, filter_In. cbn. split.
    - intros [Hd _]. split; [exists head; auto|]. intros [e [[<-|[]] Hf]].
      apply (no_self_loop head); [now apply producer_Some in Hhead|]. now rewrite Hf.
    - intros [[e [[<-|[]] Hp]] _]. auto.
  Qed.
End ArgComb.

(* ---------- final forms ---------- *)
Theorem arg_combinations_accepted body pick p o cs c kw :
  wf_pipeline p -> is_output p o = true -> arg_combinations p o = Ok cs -> In c cs ->
  (forall k, In k (akeys kw) <-> In k c) ->
  aget kw o = None /\ no_unused p kw o /\ sufficient p kw o
  /\ fst (run body pick p o kw false) = lift_value (eval_top body pick p kw o).
Proof.
  intros Hwf Ho Hcs Hc Hk. destruct (wf_pipeline_elim p Hwf) as [ls Hw].
  apply is_output_true in Ho as [head Hhead].
  destruct (arg_combinations_Q p ls Hw o head Hhead cs Hcs c Hc kw Hk) as [H1 [H2 [H3 _]]].
  repeat split; try assumption. apply run_eq_eval; auto. apply is_output_true. eauto.
Qed.

Theorem root_args_accepted body pick p o c kw :
  wf_pipeline p -> is_output p o = true -> root_args p o = Ok c ->
  (forall k, In k (akeys kw) <-> In k c) ->
  (forall k, In k c -> is_output p k = false)
  /\ aget kw o = None /\ no_unused p kw o /\ sufficient p kw o
  /\ fst (run body pick p o kw false) = lift_value (eval_top body pick p kw o).
Proof.
  intros Hwf Ho Hr Hk. unfold root_args in Hr. destruct (arg_combinations p o) as [cs|] eqn:Ecs; [|discriminate].
  cbn in Hr. destruct (find (all_root p) cs) as [c'|] eqn:Ef; [|discriminate]. inversion Hr; subst c'.
  apply find_some in Ef as [Hin Hroot]. split.
  - intros k Hkc. unfold all_root in Hroot. rewrite forallb_forall in Hroot. apply negb_true_iff. auto.
  - eapply arg_combinations_accepted; eauto.
Qed.

(* with the keywords of an argument combination, every root argument (non-output name) that the evaluation reads
   is supplied: no default of the pipeline is used *)
Theorem arg_combinations_roots_supplied p o cs c kw :
  wf_pipeline p -> is_output p o = true -> arg_combinations p o = Ok cs -> In c cs ->
  (forall k, In k (akeys kw) <-> In k c) ->
  forall f cur, In f (needed_top p kw o) -> In cur (pnames f) -> aget (bound f) cur = None ->
                is_output p cur = false -> In cur (akeys kw).
Proof.
  intros Hwf Ho Hcs Hc Hk. destruct (wf_pipeline_elim p Hwf) as [ls Hw].
  apply is_output_true in Ho as [head Hhead].
  destruct (arg_combinations_Q p ls Hw o head Hhead cs Hcs c Hc kw Hk) as [_ [_ [_ H]]]. exact H.
Qed.
