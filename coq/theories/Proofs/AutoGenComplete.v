(* COMPLETENESS of the MapSpec side of Pipeline construction (Model/AutoGen.v) with respect to the declarative
   predicate `completable` of Model/AutoGenSpec.v:

     construct_never_refuses : completable user = true -> exists eff, construct user = Ok eff

   i.e. no ValueError / IndexError / AssertionError branch of the model is reachable for a completable user-level list.
   Structure:
     A. positional agreement of axes lists                        (agree)
     B. completeness of Validate.validate_consistent_axes         (vca_complete)
     C. find_non_root_axes never raises; characterisation          (fnra_ok)
     D. replace_none_in_axes on an abstract sibling function       (replace_ok)
     E. create_missing / generated specs / is_ident (unnamed i)    (create_missing_ok)
     F. assembly: validate_mapspec, add, construct                 (construct_never_refuses, construct_effective) *)
From Coq Require Import DecimalString.
From Verif Require Import Base.Prelude Base.StrUtil Base.Index Base.NdArr Model.MapSpec Model.MapSpecSpec Model.MapRun
  Model.SymBody Model.AutoGen Model.AutoGenSpec.
From Verif Require Base.StrOrd Model.Validate Model.XrLabelSpec.
From Verif Require Import Proofs.StrFacts Proofs.ListFacts Proofs.MapSpecFacts.
From Verif Require Proofs.GraphFacts.

(* ================================================================== A. agreement of axes lists *)
Notation named l k x := (nth_error l k = Some (Some x)).

Definition agree (l1 l2 : list (option str)) : Prop :=
  length l1 = length l2 /\ forall k x y, named l1 k x -> named l2 k y -> x = y.

Lemma agree_refl l : agree l l.
Proof. split; [reflexivity|]. intros k x y H1 H2. congruence. Qed.

Lemma agree_sym l1 l2 : agree l1 l2 -> agree l2 l1.
Proof. intros [L H]. split; [now symmetry|]. intros k x y H1 H2. symmetry. exact (H k y x H2 H1). Qed.

Lemma combine_agree l1 : forall l2,
  forallb (fun xy : option str * option str =>
             match fst xy, snd xy with Some x, Some y => str_eqb x y | _, _ => true end) (combine l1 l2) = true ->
  forall k x y, named l1 k x -> named l2 k y -> x = y.
Proof.
  induction l1 as [|a l1 IH]; intros [|b l2] H k x y H1 H2; try (destruct k; discriminate).
  cbn [combine forallb fst snd] in H. apply andb_true_iff in H as [Hab Hr].
  destruct k as [|k]; cbn [nth_error] in H1, H2.
  - injection H1 as ->. injection H2 as ->. now apply str_eqb_eq.
  - exact (IH l2 Hr k x y H1 H2).
Qed.

Lemma agree_axes_agree a b : agree_axes a b = true -> agree (axes a) (axes b).
Proof.
  unfold agree_axes. intros H. apply andb_true_iff in H as [HL HC]. apply Nat.eqb_eq in HL.
  split; [exact HL|]. now apply combine_agree.
Qed.

Lemma consistent_agree l :
  XrLabelSpec.consistent l = true ->
  forall a b, In a l -> In b l -> aname a = aname b -> agree (axes a) (axes b).
Proof.
  unfold XrLabelSpec.consistent. intros H a b Ha Hb Hn.
  rewrite forallb_forall in H. specialize (H a Ha). rewrite forallb_forall in H. specialize (H b Hb).
  unfold XrLabelSpec.consistent_pair in H. rewrite Hn, str_eqb_refl in H. cbn [negb orb] in H.
  apply andb_true_iff in H as [HL HC]. apply Nat.eqb_eq in HL. split; [exact HL|]. now apply combine_agree.
Qed.

Lemma nth_error_lt_some {A} (l : list A) k : k < length l -> exists v, nth_error l k = Some v.
Proof.
  intros H. destruct (nth_error l k) as [v|] eqn:E; [eauto|]. apply nth_error_None in E. lia.
Qed.

Lemma named_lt (l : list (option str)) k x : named l k x -> k < length l.
Proof. intros H. apply nth_error_Some. congruence. Qed.

Lemma repeat_None_named k n x : ~ named (repeat (@None str) n) k x.
Proof. intros H. apply nth_error_In in H. apply repeat_spec in H. discriminate. Qed.

Lemma existsb_false_iff {A} (p : A -> bool) l : existsb p l = false <-> forall x, In x l -> p x = false.
Proof.
  split.
  - intros H x Hx. destruct (p x) eqn:E; [|reflexivity].
    assert (existsb p l = true) by (apply existsb_exists; eauto). congruence.
  - intros H. destruct (existsb p l) eqn:E; [|reflexivity].
    apply existsb_exists in E as [x [Hx Hp]]. rewrite (H x Hx) in Hp. discriminate.
Qed.

(* ================================================================== B. validate_consistent_axes is complete *)
Lemma merge_pos_complete cur : forall ax,
  (forall k x y, named cur k x -> named ax k y -> x = y) ->
  exists r, Validate.merge_pos cur ax = Ok r /\ length r = length cur
            /\ forall k z, named r k z -> named cur k z \/ named ax k z.
Proof.
  induction cur as [|c cs IH]; intros ax H.
  - exists []. cbn. repeat split. intros k z Hz. destruct k; discriminate.
  - destruct ax as [|a as_].
    + exists (c :: cs). cbn [Validate.merge_pos]. repeat split. auto.
    + destruct (IH as_ (fun k => H (S k))) as [r [E [L P]]].
      assert (G : forall h, (forall z, h = Some z -> c = Some z \/ a = Some z) ->
                  length (h :: r) = length (c :: cs)
                  /\ forall k z, named (h :: r) k z -> named (c :: cs) k z \/ named (a :: as_) k z).
      { intros h Hh. split; [cbn; now rewrite L|]. intros [|k] z Hz; cbn [nth_error] in *.
        - injection Hz as Hz. destruct (Hh z Hz) as [->| ->]; auto.
        - now apply P. }
      cbn [Validate.merge_pos]. destruct c as [x|], a as [y|].
      * pose proof (H 0 x y eq_refl eq_refl) as Exy. subst y. rewrite str_eqb_refl, E. cbn [bind]. eexists. split; [reflexivity|].
        apply G. intros z Hz. auto.
      * rewrite E. cbn [bind]. eexists. split; [reflexivity|]. apply G. auto.
      * rewrite E. cbn [bind]. eexists. split; [reflexivity|]. apply G. auto.
      * rewrite E. cbn [bind]. eexists. split; [reflexivity|]. apply G. auto.
Qed.

Lemma merge_fold_complete (L : list aspec) :
  (forall a b, In a L -> In b L -> forall k x y, named (axes a) k x -> named (axes b) k y -> x = y) ->
  forall l, incl l L ->
  forall cur, (forall k x, named cur k x -> exists b, In b L /\ named (axes b) k x) ->
  exists final, fold_left (fun acc b => do c <- acc; Validate.merge_pos c (axes b)) l (Ok cur) = Ok final.
Proof.
  intros HL. induction l as [|b l IH]; intros Hincl cur Hcur; cbn [fold_left bind]; [eauto|].
  assert (Hb : In b L) by (apply Hincl; now left).
  destruct (merge_pos_complete cur (axes b)) as [r [E [_ P]]].
  { intros k x y Hx Hy. destruct (Hcur k x Hx) as [b' [Hb' Hx']]. exact (HL b' b Hb' Hb k x y Hx' Hy). }
  rewrite E. apply IH.
  - intros z Hz. apply Hincl. now right.
  - intros k x Hx. destruct (P k x Hx) as [Hc|Ha]; [now apply Hcur|eauto].
Qed.

Lemma check_name_axes_complete l :
  (forall a b, In a l -> In b l -> agree (axes a) (axes b)) -> Validate.check_name_axes l = Ok tt.
Proof.
  intros H. destruct l as [|a t]; [reflexivity|]. unfold Validate.check_name_axes.
  assert (R : forallb (fun b => rank b =? rank a) t = true).
  { apply forallb_forall. intros b Hb. apply Nat.eqb_eq. unfold rank.
    apply (H b a); [now right|now left]. }
  rewrite R. cbn [negb].
  destruct (merge_fold_complete (a :: t)) with (l := a :: t) (cur := repeat (@None str) (rank a)) as [final E].
  - intros a0 b0 Ha0 Hb0. apply (H a0 b0 Ha0 Hb0).
  - apply incl_refl.
  - intros k x Hx. exfalso. exact (repeat_None_named _ _ _ Hx).
  - rewrite E. reflexivity.
Qed.

Theorem vca_complete specs :
  (forall a b, In a (Validate.all_aspecs specs) -> In b (Validate.all_aspecs specs) ->
               aname a = aname b -> agree (axes a) (axes b)) ->
  Validate.validate_consistent_axes specs = Ok tt.
Proof.
  intros H. unfold Validate.validate_consistent_axes.
  rewrite (mapM_ok_map_in _ (fun _ => tt)); [reflexivity|].
  intros n _. apply check_name_axes_complete. intros a b Ha Hb.
  unfold Validate.specs_named in Ha, Hb. apply filter_In in Ha as [Ha Na], Hb as [Hb Nb].
  apply str_eqb_eq in Na, Nb. apply H; congruence.
Qed.

(* ================================================================== dictionaries *)
Lemma dget_set_same {V} (d : list (str * V)) k v : dict_get (dict_set d k v) k = Some v.
Proof.
  induction d as [|[k' v'] d IH]; cbn; [now rewrite str_eqb_refl|].
  destruct (str_eqb k k') eqn:E; cbn; rewrite E; [reflexivity|assumption].
Qed.

Lemma dget_set_other {V} (d : list (str * V)) k k' v : k <> k' -> dict_get (dict_set d k v) k' = dict_get d k'.
Proof.
  intros Hne. induction d as [|[k2 v2] d IH]; cbn.
  - destruct (str_eqb k' k) eqn:E; [apply str_eqb_eq in E; congruence|reflexivity].
  - destruct (str_eqb k k2) eqn:E; cbn.
    + apply str_eqb_eq in E. subst k2. destruct (str_eqb k' k) eqn:E'; [apply str_eqb_eq in E'; congruence|reflexivity].
    + destruct (str_eqb k' k2); [reflexivity|assumption].
Qed.

Lemma dget_None_iff {V} (d : list (str * V)) k : dict_get d k = None <-> ~ In k (map fst d).
Proof.
  induction d as [|[k' v'] d IH]; cbn; [tauto|].
  destruct (str_eqb k k') eqn:E.
  - apply str_eqb_eq in E. subst. split; [discriminate|]. intros H. exfalso. apply H. now left.
  - apply str_eqb_neq in E. rewrite IH. split; [intros H [H1|H1]; [congruence|contradiction]|tauto].
Qed.

Lemma dget_Some_key {V} (d : list (str * V)) k v : dict_get d k = Some v -> In k (map fst d).
Proof.
  intros H. destruct (in_dec (list_eq_dec Ascii.ascii_dec) k (map fst d)) as [Hin|Hn]; [exact Hin|].
  apply dget_None_iff in Hn. congruence.
Qed.

Lemma dget_key_Some {V} (d : list (str * V)) k : In k (map fst d) -> exists v, dict_get d k = Some v.
Proof.
  intros H. destruct (dict_get d k) as [v|] eqn:E; [eauto|]. apply dget_None_iff in E. contradiction.
Qed.

Lemma dset_keys {V} (d : list (str * V)) k v :
  map fst (dict_set d k v) = match dict_get d k with Some _ => map fst d | None => map fst d ++ [k] end.
Proof.
  induction d as [|[k' v'] d IH]; cbn; [reflexivity|].
  destruct (str_eqb k k') eqn:E; cbn; [reflexivity|]. rewrite IH. destruct (dict_get d k); reflexivity.
Qed.

Lemma NoDup_snoc {A} (l : list A) x : NoDup l -> ~ In x l -> NoDup (l ++ [x]).
Proof.
  induction 1 as [|y l Hy Hnd IH]; intros Hx; cbn; [constructor; [tauto|constructor]|].
  constructor.
  - rewrite in_app_iff. cbn. intros [H|[H|[]]]; [contradiction|]. apply Hx. now left.
  - apply IH. intros H. apply Hx. now right.
Qed.

Lemma dset_NoDup {V} (d : list (str * V)) k v : NoDup (map fst d) -> NoDup (map fst (dict_set d k v)).
Proof.
  intros H. rewrite dset_keys. destruct (dict_get d k) eqn:E; [exact H|].
  apply dget_None_iff in E. now apply NoDup_snoc.
Qed.

(* ================================================================== C. find_non_root_axes *)
Lemma set_named_ok ax : forall cur, length cur = length ax ->
  exists r, set_named cur ax = Ok r /\ length r = length ax
    /\ forall k, nth_error r k = match nth_error ax k with Some (Some x) => Some (Some x) | _ => nth_error cur k end.
Proof.
  induction ax as [|a ax IH]; intros cur HL.
  - destruct cur; [|discriminate]. exists []. cbn. repeat split. intros k. destruct k; reflexivity.
  - destruct cur as [|c cs]; [discriminate|]. cbn [length] in HL. injection HL as HL.
    destruct (IH cs HL) as [r [E [L P]]]. cbn [set_named].
    destruct a as [x|]; rewrite E; cbn [bind]; eexists; (split; [reflexivity|]); (split; [cbn; now rewrite L|]);
      intros [|k]; cbn [nth_error]; try reflexivity; apply P.
Qed.

Section FNRA.
  Variable Iall : list aspec.
  Variable roots : list str.
  Hypothesis HC : forall a b, In a Iall -> In b Iall -> aname a = aname b -> agree (axes a) (axes b).

  Definition fnra_step (acc : result nra) (a : aspec) : result nra :=
    do d <- acc;
    if mem_str (aname a) roots then Ok d else
    let cur := match dict_get d (aname a) with Some c => c | None => repeat None (rank a) end in
    do c' <- set_named cur (axes a);
    Ok (dict_set d (aname a) c').

  Definition fnra_inv (l : list aspec) (d : nra) : Prop :=
    NoDup (map fst d)
    /\ (forall n c, dict_get d n = Some c ->
          exists a, In a l /\ aname a = n /\ mem_str n roots = false /\ length c = rank a)
    /\ (forall n c k x, dict_get d n = Some c -> named c k x ->
          exists a, In a l /\ aname a = n /\ named (axes a) k x)
    /\ (forall a, In a l -> mem_str (aname a) roots = false ->
          exists c, dict_get d (aname a) = Some c /\ forall k x, named (axes a) k x -> named c k x).

  Lemma fnra_fold l : incl l Iall -> exists d, fold_left fnra_step l (Ok []) = Ok d /\ fnra_inv l d.
  Proof.
    induction l as [|a l IH] using rev_ind; intros Hincl.
    - exists []. split; [reflexivity|]. repeat split; cbn; try constructor; try discriminate. intros a [].
    - destruct IH as [d [E [ND [I1 [I2 I3]]]]]. { intros z Hz. apply Hincl. apply in_or_app. now left. }
      assert (Ha : In a Iall) by (apply Hincl; apply in_or_app; right; now left).
      rewrite fold_left_app. cbn [fold_left]. rewrite E. unfold fnra_step at 1. cbn [bind].
      destruct (mem_str (aname a) roots) eqn:R.
      + exists d. split; [reflexivity|]. split; [exact ND|]. split; [|split].
        * intros n c Hn. destruct (I1 n c Hn) as [a0 [H0 H1]]. exists a0. split; [apply in_or_app; now left|exact H1].
        * intros n c k x Hn Hx. destruct (I2 n c k x Hn Hx) as [a0 [H0 H1]]. exists a0.
          split; [apply in_or_app; now left|exact H1].
        * intros a0 H0 R0. apply in_app_or in H0 as [H0|[<-|[]]]; [now apply I3|congruence].
      + set (cur := match dict_get d (aname a) with Some c => c | None => repeat None (rank a) end).
        assert (HL : length cur = length (axes a)).
        { unfold cur. destruct (dict_get d (aname a)) as [c|] eqn:G; [|apply repeat_length].
          destruct (I1 _ _ G) as [a0 [H0 [N0 [_ L0]]]]. rewrite L0. unfold rank.
          apply (HC a0 a); [apply Hincl, in_or_app; now left|exact Ha|exact N0]. }
        destruct (set_named_ok (axes a) cur HL) as [r [Er [Lr Pr]]]. cbv zeta. fold cur. rewrite Er. cbn [bind].
        eexists. split; [reflexivity|]. split; [now apply dset_NoDup|]. split; [|split].
        * intros n c Hn. destruct (str_eqb (aname a) n) eqn:En.
          -- apply str_eqb_eq in En. subst n. rewrite dget_set_same in Hn. injection Hn as <-.
             exists a. split; [apply in_or_app; right; now left|]. repeat split; [exact R|exact Lr].
          -- apply str_eqb_neq in En. rewrite dget_set_other in Hn by exact En.
             destruct (I1 n c Hn) as [a0 [H0 H1]]. exists a0. split; [apply in_or_app; now left|exact H1].
        * intros n c k x Hn Hx. destruct (str_eqb (aname a) n) eqn:En.
          -- apply str_eqb_eq in En. subst n. rewrite dget_set_same in Hn. injection Hn as <-.
             rewrite Pr in Hx. destruct (nth_error (axes a) k) as [[y|]|] eqn:Ek.
             ++ injection Hx as ->. exists a. split; [apply in_or_app; right; now left|]. split; [reflexivity|exact Ek].
             ++ unfold cur in Hx. destruct (dict_get d (aname a)) as [c0|] eqn:G.
                ** destruct (I2 _ _ k x G Hx) as [a0 [H0 H1]]. exists a0. split; [apply in_or_app; now left|exact H1].
                ** exfalso. exact (repeat_None_named _ _ _ Hx).
             ++ unfold cur in Hx. destruct (dict_get d (aname a)) as [c0|] eqn:G.
                ** destruct (I2 _ _ k x G Hx) as [a0 [H0 H1]]. exists a0. split; [apply in_or_app; now left|exact H1].
                ** exfalso. exact (repeat_None_named _ _ _ Hx).
          -- apply str_eqb_neq in En. rewrite dget_set_other in Hn by exact En.
             destruct (I2 n c k x Hn Hx) as [a0 [H0 H1]]. exists a0. split; [apply in_or_app; now left|exact H1].
        * intros a0 H0 R0. destruct (str_eqb (aname a) (aname a0)) eqn:En.
          -- apply str_eqb_eq in En. exists r. split; [rewrite <- En; apply dget_set_same|].
             intros k x Hx. rewrite Pr.
             assert (Hold : nth_error (axes a) k <> Some (Some x) -> named cur k x).
             { intros Hne. apply in_app_or in H0 as [H0|[<-|[]]]; [|contradiction].
               destruct (I3 a0 H0 R0) as [c0 [G0 P0]]. unfold cur. rewrite En, G0. now apply P0. }
             destruct (nth_error (axes a) k) as [[y|]|] eqn:Ek.
             ++ f_equal. f_equal. apply (proj2 (HC a a0 Ha (Hincl a0 H0) En) k y x Ek Hx).
             ++ apply Hold. discriminate.
             ++ apply Hold. discriminate.
          -- apply str_eqb_neq in En. apply in_app_or in H0 as [H0|[<-|[]]]; [|congruence].
             destruct (I3 a0 H0 R0) as [c0 [G0 P0]]. exists c0.
             split; [rewrite dget_set_other by exact En; exact G0|exact P0].
  Qed.
End FNRA.

Lemma fnra_ok specs roots :
  (forall a b, In a (flat_map ins specs) -> In b (flat_map ins specs) -> aname a = aname b -> agree (axes a) (axes b)) ->
  exists d, find_non_root_axes specs roots = Ok d /\ fnra_inv roots (flat_map ins specs) d.
Proof. intros HC. exact (fnra_fold (flat_map ins specs) roots HC (flat_map ins specs) (incl_refl _)). Qed.

(* ================================================================== D. replace_none_in_axes *)
Lemma dget_of_In {V} (d : list (str * V)) k v : NoDup (map fst d) -> In (k, v) d -> dict_get d k = Some v.
Proof.
  induction d as [|[k' v'] d IH]; intros Hnd Hin; [destruct Hin|]. cbn in *.
  inversion Hnd as [|? ? Hnotin Hnd']; subst.
  destruct Hin as [Heq|Hin].
  - injection Heq as -> ->. now rewrite str_eqb_refl.
  - destruct (str_eqb k k') eqn:E; [|now apply IH].
    apply str_eqb_eq in E as ->. exfalso. apply Hnotin. apply in_map_iff. exists (k', v). auto.
Qed.

Definition dnamed (d : nra) (n : str) (k : nat) (x : str) : Prop :=
  exists c, dict_get d n = Some c /\ named c k x.

Definition mono (d d' : nra) : Prop :=
  map fst d' = map fst d
  /\ forall n c, dict_get d n = Some c ->
       exists c', dict_get d' n = Some c' /\ length c' = length c /\ forall k x, named c k x -> named c' k x.

Lemma mono_refl d : mono d d.
Proof. split; [reflexivity|]. intros n c H. exists c. auto. Qed.

Lemma mono_trans d1 d2 d3 : mono d1 d2 -> mono d2 d3 -> mono d1 d3.
Proof.
  intros [K1 M1] [K2 M2]. split; [congruence|]. intros n c H.
  destruct (M1 n c H) as [c' [H' [L' P']]]. destruct (M2 n c' H') as [c'' [H'' [L'' P'']]].
  exists c''. split; [exact H''|]. split; [congruence|]. intros k x Hx. apply P'', P', Hx.
Qed.

Lemma mono_dnamed d d' n k x : mono d d' -> dnamed d n k x -> dnamed d' n k x.
Proof. intros [_ M] [c [G Hx]]. destruct (M n c G) as [c' [G' [_ P]]]. exists c'. split; [exact G'|now apply P]. Qed.

Lemma mono_get_inv d d' n c' : mono d d' -> dict_get d' n = Some c' ->
  exists c, dict_get d n = Some c /\ length c' = length c.
Proof.
  intros [K M] G'. pose proof (dget_Some_key _ _ _ G') as Hk. rewrite K in Hk.
  destruct (dget_key_Some d n Hk) as [c G].
  exists c. split; [exact G|]. destruct (M n c G) as [c2 [G2 [L2 _]]]. congruence.
Qed.

Lemma mono_set (d : nra) n ax v :
  dict_get d n = Some ax -> length v = length ax -> (forall k x, named ax k x -> named v k x) ->
  mono d (dict_set d n v).
Proof.
  intros G L P. split; [rewrite dset_keys, G; reflexivity|]. intros n' c Gc.
  destruct (str_eqb n n') eqn:E.
  - apply str_eqb_eq in E. subst n'. rewrite dget_set_same. exists v. rewrite G in Gc. injection Gc as <-. auto.
  - apply str_eqb_neq in E. rewrite dget_set_other by exact E. exists c. auto.
Qed.

Lemma pull_spec ax : forall sb,
  length (pull ax sb) = length ax
  /\ forall k, nth_error (pull ax sb) k =
               match nth_error ax k with
               | Some None => match nth_error sb k with Some v => Some v | None => Some None end
               | v => v
               end.
Proof.
  induction ax as [|a at_ IH]; intros sb.
  - cbn [pull]. split; [reflexivity|]. intros k. destruct k; reflexivity.
  - destruct sb as [|b bt]; cbn [pull].
    + split; [reflexivity|]. intros k. destruct (nth_error (a :: at_) k) as [[y|]|]; [reflexivity| |reflexivity].
      destruct k; reflexivity.
    + destruct (IH bt) as [L P]. split; [cbn; now rewrite L|]. intros [|k]; cbn [nth_error].
      * destruct a; reflexivity.
      * apply P.
Qed.

Lemma set_nth_upd {A} (l : list A) : forall j x, j < length l -> set_nth l j x = Ok (upd l j x).
Proof.
  induction l as [|y l IH]; intros [|j] x H; cbn [length] in H; try lia; cbn [set_nth upd]; [reflexivity|].
  rewrite IH by lia. reflexivity.
Qed.

Lemma upd_upd {A} (l : list A) : forall j x, upd (upd l j x) j x = upd l j x.
Proof. induction l as [|y l IH]; intros [|j] x; cbn [upd]; try reflexivity. now rewrite IH. Qed.

Lemma named_upd (c : list (option str)) j v k x :
  named (upd c j (Some v)) k x -> (k = j /\ x = v) \/ named c k x.
Proof.
  intros H. destruct (Nat.eq_dec j k) as [<-|Hne].
  - left. split; [reflexivity|]. pose proof (named_lt _ _ _ H) as Hlt. rewrite upd_length in Hlt.
    rewrite nth_error_upd_same in H by exact Hlt. congruence.
  - right. rewrite nth_error_upd_other in H by exact Hne. exact H.
Qed.

Section Replace.
  Variable sib : str -> list str.
  Hypothesis Hsib : forall n o, In o (sib n) -> sib o = sib n /\ In n (sib n).
  Variable Q : str -> Prop.
  Hypothesis HQ : forall i, Q (unnamed i).

  Definition sib_agree (d : nra) : Prop :=
    forall n o c c', In o (sib n) -> dict_get d n = Some c -> dict_get d o = Some c' -> agree c c'.
  Definition sib_eq (d : nra) : Prop :=
    forall n o c c', In o (sib n) -> dict_get d n = Some c -> dict_get d o = Some c' -> c = c'.
  Definition Qd (d : nra) : Prop := forall n c k x, dict_get d n = Some c -> named c k x -> Q x.

  Variable d0 : nra.
  Hypothesis A0 : sib_agree d0.
  Hypothesis Q0 : Qd d0.
  Hypothesis ND0 : NoDup (map fst d0).

  (* ---------- merge_siblings ---------- *)
  Definition prov (d : nra) : Prop :=
    forall n k x, dnamed d n k x -> exists o, (o = n \/ In o (sib n)) /\ dnamed d0 o k x.
  Definition minv (d : nra) : Prop := mono d0 d /\ prov d /\ Qd d.

  Definition minner (name : str) (d : nra) (o : str) : nra :=
    match dict_get d name, dict_get d o with
    | Some ax, Some sb => dict_set d name (pull ax sb)
    | _, _ => d
    end.

  Lemma minner_step d name o :
    minv d -> In name (map fst d0) -> In o (sib name) ->
    minv (minner name d o) /\ mono d (minner name d o)
    /\ (forall k x, dnamed d0 o k x -> dnamed (minner name d o) name k x).
  Proof.
    intros [M [P Qq]] Hname Ho.
    destruct (dget_key_Some d0 name Hname) as [c0 G0].
    destruct (proj2 M name c0 G0) as [ax [Gax [Lax Max]]].
    unfold minner. rewrite Gax. destruct (dict_get d o) as [sb|] eqn:Gsb.
    2:{ split; [split; [exact M|split; [exact P|exact Qq]]|]. split; [apply mono_refl|].
        intros k x [c [Gc _]]. destruct (proj2 M o c Gc) as [c' [Gc' _]]. congruence. }
    destruct (mono_get_inv d0 d o sb M Gsb) as [c0' [G0' Lsb]].
    assert (Hlen : length ax = length sb).
    { rewrite Lax, Lsb. apply (A0 name o c0 c0' Ho G0 G0'). }
    destruct (pull_spec ax sb) as [Lp Pp].
    assert (Mstep : mono d (dict_set d name (pull ax sb))).
    { apply (mono_set d name ax); [exact Gax|exact Lp|]. intros k x Hx. rewrite Pp, Hx. reflexivity. }
    split; [|split; [exact Mstep|]].
    - split; [eapply mono_trans; eassumption|]. split.
      + intros n k x [c [Gc Hx]]. destruct (str_eqb name n) eqn:En.
        * apply str_eqb_eq in En. subst n. rewrite dget_set_same in Gc. injection Gc as <-. rewrite Pp in Hx.
          destruct (nth_error ax k) as [[y|]|] eqn:Eax.
          -- apply P. exists ax. split; [exact Gax|]. rewrite Eax. exact Hx.
          -- destruct (nth_error sb k) as [v|] eqn:Esb; [|discriminate]. injection Hx as ->.
             destruct (P o k x) as [o' [Ho' Hd]]. { exists sb. split; assumption. }
             exists o'. split; [|exact Hd]. right. destruct Ho' as [->|Ho']; [exact Ho|].
             destruct (Hsib name o Ho) as [Es _]. rewrite <- Es. exact Ho'.
          -- discriminate.
        * apply str_eqb_neq in En. rewrite dget_set_other in Gc by exact En. apply P. exists c. split; assumption.
      + intros n c k x Gc Hx. destruct (str_eqb name n) eqn:En.
        * apply str_eqb_eq in En. subst n. rewrite dget_set_same in Gc. injection Gc as <-. rewrite Pp in Hx.
          destruct (nth_error ax k) as [[y|]|] eqn:Eax.
          -- apply (Qq name ax k x Gax). rewrite Eax. exact Hx.
          -- destruct (nth_error sb k) as [v|] eqn:Esb; [|discriminate]. injection Hx as ->.
             exact (Qq o sb k x Gsb Esb).
          -- discriminate.
        * apply str_eqb_neq in En. rewrite dget_set_other in Gc by exact En. exact (Qq n c k x Gc Hx).
    - intros k x [c [Gc Hx]]. rewrite G0' in Gc. injection Gc as <-.
      destruct (proj2 M o c0' G0') as [sb' [Gsb' [_ Msb]]]. rewrite Gsb in Gsb'. injection Gsb' as <-.
      pose proof (Msb k x Hx) as Hsbx.
      exists (pull ax sb). split; [apply dget_set_same|]. rewrite Pp.
      destruct (nth_error ax k) as [[y|]|] eqn:Eax.
      + f_equal. f_equal. destruct (P name k y) as [o1 [Ho1 [c1 [G1 H1]]]]. { exists ax. split; assumption. }
        assert (Ho' : In o (sib o1)).
        { destruct Ho1 as [->|Ho1]; [exact Ho|]. destruct (Hsib name o1 Ho1) as [Es _]. rewrite Es. exact Ho. }
        exact (proj2 (A0 o1 o c1 c0' Ho' G1 G0') k y x H1 Hx).
      + rewrite Hsbx. reflexivity.
      + exfalso. apply nth_error_None in Eax. apply named_lt in Hsbx. lia.
  Qed.

  Lemma minner_fold name : In name (map fst d0) ->
    forall os, incl os (sib name) -> forall d, minv d ->
    minv (fold_left (minner name) os d) /\ mono d (fold_left (minner name) os d)
    /\ (forall o k x, In o os -> dnamed d0 o k x -> dnamed (fold_left (minner name) os d) name k x).
  Proof.
    intros Hname. induction os as [|o os IH]; intros Hincl d Hd; cbn [fold_left].
    - split; [exact Hd|]. split; [apply mono_refl|]. intros o k x [].
    - destruct (minner_step d name o Hd Hname (Hincl o (or_introl eq_refl))) as [Hd1 [M1 C1]].
      destruct (IH (fun z Hz => Hincl z (or_intror Hz)) _ Hd1) as [Hd2 [M2 C2]].
      split; [exact Hd2|]. split; [eapply mono_trans; eassumption|].
      intros o' k x [<-|Ho'] Hx; [|now apply (C2 o')]. eapply mono_dnamed; [exact M2|]. now apply C1.
  Qed.

  Definition mouter (d : nra) (name : str) : nra := fold_left (minner name) (sib name) d.

  Lemma mouter_fold : forall ns, incl ns (map fst d0) -> forall d, minv d ->
    minv (fold_left mouter ns d) /\ mono d (fold_left mouter ns d)
    /\ (forall n o k x, In n ns -> In o (sib n) -> dnamed d0 o k x -> dnamed (fold_left mouter ns d) n k x).
  Proof.
    induction ns as [|n ns IH]; intros Hincl d Hd; cbn [fold_left].
    - split; [exact Hd|]. split; [apply mono_refl|]. intros n o k x [].
    - destruct (minner_fold n (Hincl n (or_introl eq_refl)) (sib n) (incl_refl _) d Hd) as [Hd1 [M1 C1]].
      fold (mouter d n) in Hd1, M1, C1.
      destruct (IH (fun z Hz => Hincl z (or_intror Hz)) _ Hd1) as [Hd2 [M2 C2]].
      split; [exact Hd2|]. split; [eapply mono_trans; eassumption|].
      intros n' o k x [<-|Hn'] Ho Hx; [|now apply (C2 n' o)]. eapply mono_dnamed; [exact M2|]. now apply (C1 o).
  Qed.

  Lemma merge_ok : mono d0 (merge_siblings sib d0) /\ sib_eq (merge_siblings sib d0) /\ Qd (merge_siblings sib d0).
  Proof.
    assert (H0 : minv d0).
    { split; [apply mono_refl|]. split; [|exact Q0]. intros n k x H. exists n. auto. }
    destruct (mouter_fold (map fst d0) (incl_refl _) d0 H0) as [[M [P Qq]] [_ C]].
    change (fold_left mouter (map fst d0) d0) with (merge_siblings sib d0) in *.
    set (d1 := merge_siblings sib d0) in *.
    split; [exact M|]. split; [|exact Qq].
    assert (Sub : forall n o c c', In o (sib n) -> dict_get d1 n = Some c -> dict_get d1 o = Some c' ->
                  forall q x, named c q x -> named c' q x).
    { intros n o c c' Ho Gc Gc' q x Hx.
      destruct (P n q x) as [o' [Ho' Hd]]. { exists c. split; assumption. }
      destruct (Hsib n o Ho) as [Es Hn].
      assert (Hin : In o' (sib o)). { rewrite Es. destruct Ho' as [->|Ho']; assumption. }
      assert (Hk : In o (map fst d0)). { rewrite <- (proj1 M). eapply dget_Some_key; eassumption. }
      destruct (C o o' q x Hk Hin Hd) as [c2 [G2 H2]]. congruence. }
    intros n o c c' Ho Gc Gc'.
    destruct (Hsib n o Ho) as [Es Hn].
    assert (Ho2 : In n (sib o)) by (rewrite Es; exact Hn).
    destruct (mono_get_inv d0 d1 n c M Gc) as [c0 [G0 L0]].
    destruct (mono_get_inv d0 d1 o c' M Gc') as [c0' [G0' L0']].
    assert (HL : length c = length c'). { rewrite L0, L0'. apply (A0 n o c0 c0' Ho G0 G0'). }
    apply nth_error_ext_eq; [exact HL|]. intros q Hq.
    destruct (nth_error_lt_some c q Hq) as [v E1].
    destruct (nth_error_lt_some c' q) as [v' E2]; [lia|].
    rewrite E1, E2. f_equal. destruct v as [x|].
    - pose proof (Sub n o c c' Ho Gc Gc' q x E1). congruence.
    - destruct v' as [y|]; [|reflexivity]. pose proof (Sub o n c' c Ho2 Gc' Gc q y E2). congruence.
  Qed.

  (* ---------- the fresh-naming loop ---------- *)
  Definition rinv (d1 d : nra) : Prop := mono d1 d /\ sib_eq d /\ Qd d.

  Definition rinner (j : nat) (new : str) (acc : result nra) (o : str) : result nra :=
    do d <- acc;
    match dict_get d o with
    | Some sb => do sb' <- set_nth sb j (Some new); Ok (dict_set d o sb')
    | None => Ok d
    end.

  Definition uinv (d : nra) (name : str) (j : nat) (new : str) (G : str -> Prop) (dcur : nra) : Prop :=
    map fst dcur = map fst d
    /\ (forall n, dict_get dcur n = dict_get d n
                  \/ ((n = name \/ In n (sib name))
                      /\ dict_get dcur n = option_map (fun c => upd c j (Some new)) (dict_get d n)))
    /\ (forall n, G n -> dict_get dcur n = option_map (fun c => upd c j (Some new)) (dict_get d n)).

  Lemma rinner_fold d name ax j new :
    sib_eq d -> dict_get d name = Some ax -> j < length ax ->
    forall os, incl os (sib name) -> forall dcur G, uinv d name j new G dcur ->
    exists dfin, fold_left (rinner j new) os (Ok dcur) = Ok dfin
                 /\ uinv d name j new (fun n => G n \/ In n os) dfin.
  Proof.
    intros SE Gax Hj. induction os as [|o os IH]; intros Hincl dcur G [K [U2 U3]]; cbn [fold_left].
    - exists dcur. split; [reflexivity|]. split; [exact K|]. split; [exact U2|]. intros n [Hn|[]]. now apply U3.
    - assert (Ho : In o (sib name)) by (apply Hincl; now left).
      assert (Step : exists d', rinner j new (Ok dcur) o = Ok d' /\ uinv d name j new (fun n => G n \/ n = o) d').
      { unfold rinner. cbn [bind]. destruct (dict_get dcur o) as [sb|] eqn:Gsb.
        - assert (Hsb : dict_get d o = Some ax /\ (sb = ax \/ sb = upd ax j (Some new))).
          { destruct (U2 o) as [E|[_ E]]; rewrite Gsb in E.
            - symmetry in E. pose proof (SE name o ax sb Ho Gax E) as Eq. subst sb. split; [exact E|now left].
            - destruct (dict_get d o) as [c|] eqn:Gc; [|discriminate]. cbn [option_map] in E. injection E as ->.
              rewrite <- (SE name o ax c Ho Gax Gc). auto. }
          destruct Hsb as [Gdo Hsb].
          assert (Hu : set_nth sb j (Some new) = Ok (upd ax j (Some new))).
          { destruct Hsb as [->| ->].
            - now apply set_nth_upd.
            - rewrite set_nth_upd by (rewrite upd_length; exact Hj). now rewrite upd_upd. }
          rewrite Hu. cbn [bind]. eexists. split; [reflexivity|].
          assert (Ho' : dict_get (dict_set dcur o (upd ax j (Some new))) o
                        = option_map (fun c => upd c j (Some new)) (dict_get d o)).
          { rewrite dget_set_same, Gdo. reflexivity. }
          split; [rewrite dset_keys, Gsb; exact K|]. split.
          + intros n. destruct (str_eqb o n) eqn:En.
            * apply str_eqb_eq in En. subst n. right. split; [now right|exact Ho'].
            * apply str_eqb_neq in En. rewrite dget_set_other by exact En. apply U2.
          + intros n Hn. destruct (str_eqb o n) eqn:En.
            * apply str_eqb_eq in En. subst n. exact Ho'.
            * apply str_eqb_neq in En. rewrite dget_set_other by exact En.
              destruct Hn as [Hn|Hn]; [now apply U3|congruence].
        - exists dcur. split; [reflexivity|]. split; [exact K|]. split; [exact U2|].
          intros n [Hn| ->]; [now apply U3|]. rewrite Gsb.
          assert (E : dict_get d o = None). { apply dget_None_iff. rewrite <- K. now apply dget_None_iff. }
          rewrite E. reflexivity. }
      destruct Step as [d' [E' U']]. rewrite E'.
      destruct (IH (fun z Hz => Hincl z (or_intror Hz)) d' _ U') as [dfin [Ef [K' [V2 V3]]]].
      exists dfin. split; [exact Ef|]. split; [exact K'|]. split; [exact V2|].
      intros n [Hn|[<-|Hn]]; apply V3; auto.
  Qed.

  Lemma in_group_dec name n : {n = name \/ In n (sib name)} + {~ (n = name \/ In n (sib name))}.
  Proof.
    destruct (list_eq_dec Ascii.ascii_dec n name) as [E|E]; [left; now left|].
    destruct (in_dec (list_eq_dec Ascii.ascii_dec) n (sib name)) as [I|I]; [left; now right|].
    right. tauto.
  Qed.

  Lemma replace_at_ok d1 st name j :
    rinv d1 (rs_d st) -> In name (map fst d1) -> (forall c, dict_get d1 name = Some c -> j < length c) ->
    exists st', replace_at sib name st j = Ok st' /\ rinv d1 (rs_d st') /\ mono (rs_d st) (rs_d st')
                /\ exists x, dnamed (rs_d st') name j x.
  Proof.
    intros [M [SE Qq]] Hname Hj. set (d := rs_d st) in *.
    destruct (dget_key_Some d1 name Hname) as [c1 G1]. destruct (proj2 M name c1 G1) as [ax [Gax [Lax _]]].
    assert (Hjax : j < length ax) by (rewrite Lax; now apply Hj).
    unfold replace_at. fold d. rewrite Gax. destruct (nth_error_lt_some ax j Hjax) as [v Ev]. rewrite Ev.
    destruct v as [x|].
    { exists st. split; [reflexivity|]. split; [split; [exact M|split; [exact SE|exact Qq]]|]. split; [apply mono_refl|].
      exists x, ax. split; assumption. }
    cbv zeta. set (new := unnamed (fresh (S (length (rs_names st))) (rs_i st) (rs_names st))).
    rewrite set_nth_upd by exact Hjax. cbn [bind].
    destruct (rinner_fold d name ax j new SE Gax Hjax (sib name) (incl_refl _)
                (dict_set d name (upd ax j (Some new))) (fun n => n = name)) as [d' [Ef [K [U2 U3]]]].
    { split; [rewrite dset_keys, Gax; reflexivity|]. split.
      - intros n. destruct (str_eqb name n) eqn:En.
        + apply str_eqb_eq in En. subst n. right. split; [now left|]. rewrite dget_set_same, Gax. reflexivity.
        + apply str_eqb_neq in En. left. now apply dget_set_other.
      - intros n ->. rewrite dget_set_same, Gax. reflexivity. }
    change (fold_left (rinner j new) (sib name) (Ok (dict_set d name (upd ax j (Some new))))) with
      (fold_left (fun acc o => do d <- acc;
                               match dict_get d o with
                               | Some sb => do sb' <- set_nth sb j (Some new); Ok (dict_set d o sb')
                               | None => Ok d
                               end) (sib name) (Ok (dict_set d name (upd ax j (Some new))))) in Ef.
    rewrite Ef. cbn [bind]. eexists. split; [reflexivity|]. cbn [rs_d].
    assert (F1 : forall n, n = name \/ In n (sib name) ->
                 dict_get d' n = option_map (fun c => upd c j (Some new)) (dict_get d n)).
    { intros n [Hn|Hn]; apply U3; auto. }
    assert (F2 : forall n, ~ (n = name \/ In n (sib name)) -> dict_get d' n = dict_get d n).
    { intros n Hn. destruct (U2 n) as [E|[Hg _]]; [exact E|contradiction]. }
    assert (Gsame : forall n c, n = name \/ In n (sib name) -> dict_get d n = Some c -> c = ax).
    { intros n c [->|Hn] Gc; [congruence|]. symmetry. exact (SE name n ax c Hn Gax Gc). }
    assert (Mstep : mono d d').
    { split; [exact K|]. intros n c Gc. destruct (in_group_dec name n) as [Hg|Hg].
      - rewrite (F1 n Hg), Gc. cbn [option_map]. eexists. split; [reflexivity|]. split; [apply upd_length|].
        intros k x Hx. rewrite (Gsame n c Hg Gc) in *.
        rewrite nth_error_upd_other; [exact Hx|]. intros ->. congruence.
      - rewrite (F2 n Hg). exists c. auto. }
    split; [|split; [exact Mstep|]].
    - split; [eapply mono_trans; eassumption|]. split.
      + intros n o c c' Ho Gc Gc'. destruct (Hsib n o Ho) as [Es Hn].
        destruct (in_group_dec name n) as [Hg|Hg].
        * assert (Hg' : o = name \/ In o (sib name)).
          { right. destruct Hg as [->|Hg]; [exact Ho|]. destruct (Hsib name n Hg) as [Es' _]. rewrite <- Es'. exact Ho. }
          rewrite (F1 n Hg) in Gc. rewrite (F1 o Hg') in Gc'.
          destruct (dict_get d n) as [b|] eqn:Gb; [|discriminate].
          destruct (dict_get d o) as [b'|] eqn:Gb'; [|discriminate].
          cbn [option_map] in Gc, Gc'. injection Gc as <-. injection Gc' as <-.
          now rewrite (SE n o b b' Ho Gb Gb').
        * assert (Hg' : ~ (o = name \/ In o (sib name))).
          { intros Hg'. apply Hg. right. destruct Hg' as [->|Hg'].
            - rewrite Es. exact Hn.
            - destruct (Hsib name o Hg') as [Es' _]. rewrite <- Es', Es. exact Hn. }
          rewrite (F2 n Hg) in Gc. rewrite (F2 o Hg') in Gc'. exact (SE n o c c' Ho Gc Gc').
      + intros n c k x Gc Hx. destruct (in_group_dec name n) as [Hg|Hg].
        * rewrite (F1 n Hg) in Gc. destruct (dict_get d n) as [b|] eqn:Gb; [|discriminate].
          cbn [option_map] in Gc. injection Gc as <-. apply named_upd in Hx as [[_ ->]|Hx]; [apply HQ|].
          exact (Qq n b k x Gb Hx).
        * rewrite (F2 n Hg) in Gc. exact (Qq n c k x Gc Hx).
    - exists new, (upd ax j (Some new)). split.
      + rewrite F1 by (now left). rewrite Gax. reflexivity.
      + now apply nth_error_upd_same.
  Qed.

  Lemma replace_js d1 name : In name (map fst d1) ->
    forall js, (forall j c, In j js -> dict_get d1 name = Some c -> j < length c) ->
    forall st, rinv d1 (rs_d st) ->
    exists st', fold_left (fun acc j => do st <- acc; replace_at sib name st j) js (Ok st) = Ok st'
                /\ rinv d1 (rs_d st') /\ mono (rs_d st) (rs_d st')
                /\ forall j, In j js -> exists x, dnamed (rs_d st') name j x.
  Proof.
    intros Hname. induction js as [|j js IH]; intros Hjs st Hst; cbn [fold_left bind].
    - exists st. split; [reflexivity|]. split; [exact Hst|]. split; [apply mono_refl|]. intros j [].
    - destruct (replace_at_ok d1 st name j Hst Hname (fun c => Hjs j c (or_introl eq_refl)))
        as [st1 [E1 [R1 [M1 [x1 P1]]]]].
      rewrite E1. destruct (IH (fun j' c Hj' => Hjs j' c (or_intror Hj')) st1 R1) as [st2 [E2 [R2 [M2 P2]]]].
      exists st2. split; [exact E2|]. split; [exact R2|]. split; [eapply mono_trans; eassumption|].
      intros j' [<-|Hj']; [|now apply P2]. exists x1. eapply mono_dnamed; eassumption.
  Qed.

  Definition router (d1 : nra) (acc : result rstate) (name : str) : result rstate :=
    do st <- acc;
    fold_left (fun acc j => do st <- acc; replace_at sib name st j)
              (seq 0 (length (match dict_get d1 name with Some a => a | None => [] end))) (Ok st).

  Lemma replace_names d1 : forall ns, incl ns (map fst d1) -> forall st, rinv d1 (rs_d st) ->
    exists st', fold_left (router d1) ns (Ok st) = Ok st'
                /\ rinv d1 (rs_d st') /\ mono (rs_d st) (rs_d st')
                /\ forall name j c, In name ns -> dict_get d1 name = Some c -> j < length c ->
                                    exists x, dnamed (rs_d st') name j x.
  Proof.
    induction ns as [|n ns IH]; intros Hincl st Hst; cbn [fold_left].
    - exists st. split; [reflexivity|]. split; [exact Hst|]. split; [apply mono_refl|]. intros name j c [].
    - unfold router at 2. cbn [bind].
      destruct (replace_js d1 n (Hincl n (or_introl eq_refl))
                  (seq 0 (length (match dict_get d1 n with Some a => a | None => [] end)))) with (st := st)
        as [st1 [E1 [R1 [M1 P1]]]]; [|exact Hst|].
      { intros j c Hj Gc. rewrite Gc in Hj. apply in_seq in Hj. lia. }
      rewrite E1. destruct (IH (fun z Hz => Hincl z (or_intror Hz)) st1 R1) as [st2 [E2 [R2 [M2 P2]]]].
      exists st2. split; [exact E2|]. split; [exact R2|]. split; [eapply mono_trans; eassumption|].
      intros name j c [<-|Hn] Gc Hj; [|now apply (P2 name j c)].
      destruct (P1 j) as [x Hx]. { rewrite Gc. apply in_seq. lia. }
      exists x. eapply mono_dnamed; eassumption.
  Qed.

  Theorem replace_ok specs :
    exists d2, replace_none_in_axes specs sib d0 = Ok d2 /\ mono d0 d2 /\ sib_eq d2 /\ Qd d2
               /\ NoDup (map fst d2)
               /\ forall n c e, In (n, c) d2 -> In e c -> exists x, e = Some x.
  Proof.
    destruct merge_ok as [M1 [SE1 Q1]]. unfold replace_none_in_axes. cbv zeta.
    set (d1 := merge_siblings sib d0) in *.
    destruct (replace_names d1 (map fst d1) (incl_refl _)
                {| rs_i := 0; rs_names := axes_names specs; rs_d := d1 |}) as [st' [E [[M2 [SE2 Q2]] [_ P]]]].
    { cbn [rs_d]. split; [apply mono_refl|]. split; assumption. }
    change (fold_left (router d1) (map fst d1) (Ok {| rs_i := 0; rs_names := axes_names specs; rs_d := d1 |}))
      with (fold_left (fun acc name =>
                         do st <- acc;
                         fold_left (fun acc j => do st <- acc; replace_at sib name st j)
                                   (seq 0 (length (match dict_get d1 name with Some a => a | None => [] end))) (Ok st))
                      (map fst d1) (Ok {| rs_i := 0; rs_names := axes_names specs; rs_d := d1 |})) in E.
    rewrite E. cbn [bind].
    assert (ND2 : NoDup (map fst (rs_d st'))). { rewrite (proj1 M2), (proj1 M1). exact ND0. }
    assert (Full : forall n c e, In (n, c) (rs_d st') -> In e c -> exists x, e = Some x).
    { intros n c e Hin He. pose proof (dget_of_In _ _ _ ND2 Hin) as Gc.
      destruct (mono_get_inv d1 _ n c M2 Gc) as [c1 [G1 L1]].
      apply In_nth_error in He as [q Hq].
      assert (Hlt : q < length c1). { rewrite <- L1. apply nth_error_Some. congruence. }
      destruct (P n q c1) as [x [c' [Gc' Hx]]]; [eapply dget_Some_key; exact G1|exact G1|exact Hlt|].
      exists x. congruence. }
    assert (Ex : existsb (fun kv : str * list (option str) => existsb is_none (snd kv)) (rs_d st') = false).
    { apply existsb_false_iff. intros [n c] Hin. cbn [snd]. apply existsb_false_iff. intros e He.
      destruct (Full n c e Hin He) as [x ->]. reflexivity. }
    rewrite Ex. exists (rs_d st'). split; [reflexivity|]. split; [eapply mono_trans; eassumption|].
    repeat split; assumption.
  Qed.
End Replace.

(* ================================================================== E. generated specs *)
Lemma digits_word d : forallb is_word (list_ascii_of_string (NilEmpty.string_of_uint d)) = true.
Proof.
  induction d as [|d IH|d IH|d IH|d IH|d IH|d IH|d IH|d IH|d IH|d IH];
    cbn [NilEmpty.string_of_uint list_ascii_of_string forallb]; [reflexivity|..]; rewrite IH; reflexivity.
Qed.

Lemma dec_word i : forallb is_word (dec i) = true.
Proof.
  unfold dec, NilZero.string_of_uint. destruct (Nat.to_uint i) eqn:E; try reflexivity; apply digits_word.
Qed.

Lemma unnamed_ident i : is_ident (unnamed i) = true.
Proof.
  change (unnamed i) with ("u"%char :: (s "nnamed_" ++ dec i)). unfold is_ident.
  rewrite forallb_app, dec_word. reflexivity.
Qed.

Definition gen_outs (l : list str) (ax : list (option str)) : list aspec :=
  map (fun x => {| aname := x; axes := ax |}) l.

Lemma raw_of_gen l ax : raw_of (map (fun x => (x, ax)) l) = gen_outs l ax.
Proof. unfold raw_of, gen_outs. rewrite map_map. reflexivity. Qed.

Lemma str_list_eqb_refl (l : list str) : list_eqb str_eqb l l = true.
Proof. apply (list_eqb_eq str_eqb str_eqb_eq). reflexivity. Qed.

Lemma generated_spec_succeeds f ax :
  fouts f <> [] -> forallb valid_name (fouts f) = true ->
  (forall e, In e ax -> exists x, e = Some x /\ is_ident x = true) ->
  generated_spec f ax = Ok {| ins := []; outs := gen_outs (fouts f) ax |}.
Proof.
  intros Hne Hvn Hax. unfold generated_spec. apply build_accepts_iff_wf.
  rewrite raw_of_gen. change (raw_of []) with (@nil aspec). split; [|reflexivity].
  assert (A1 : forallb valid_axis ax = true).
  { apply forallb_forall. intros e He. destruct (Hax e He) as [x [-> Hx]]. exact Hx. }
  assert (A2 : existsb is_none ax = false).
  { apply existsb_false_iff. intros e He. destruct (Hax e He) as [x [-> _]]. reflexivity. }
  assert (W : forallb wf_aspec (gen_outs (fouts f) ax) = true).
  { apply forallb_forall. intros a Ha. apply in_map_iff in Ha as [x [<- Hx]]. unfold wf_aspec. cbn [aname axes].
    rewrite A1. rewrite forallb_forall in Hvn. now rewrite (Hvn x Hx). }
  assert (NC : forallb no_colon (gen_outs (fouts f) ax) = true).
  { apply forallb_forall. intros a Ha. apply in_map_iff in Ha as [x [<- Hx]]. unfold no_colon. cbn [axes].
    now rewrite A2. }
  unfold wf_decl. cbn [ins outs forallb andb]. rewrite W. cbn [andb].
  destruct (gen_outs (fouts f) ax) as [|o0 rest] eqn:Eg.
  { destruct (fouts f); [contradiction|discriminate]. }
  rewrite NC. cbn [andb]. rewrite andb_true_r. apply forallb_forall. intros a Ha.
  assert (Hax' : forall b, In b (gen_outs (fouts f) ax) -> axes b = ax).
  { intros b Hb. apply in_map_iff in Hb as [x [<- _]]. reflexivity. }
  unfold indices. rewrite (Hax' a) by (rewrite Eg; now right). rewrite (Hax' o0) by (rewrite Eg; now left).
  apply str_list_eqb_refl.
Qed.

Definition all_false (fs : list mfunc) : list gfunc := map (fun f => (f, false)) fs.

Definition gen_rel (d : nra) (f : mfunc) (fg : gfunc) : Prop :=
  forallb valid_name (fouts f) = true
  /\ (fg = (f, false)
      \/ (fspec f = None
          /\ exists n ax, In (n, ax) d /\ In n (fouts f)
                          /\ fg = (set_spec f (Some {| ins := []; outs := gen_outs (fouts f) ax |}), true))).

Definition cm_step (kv : str * list (option str)) (fg : gfunc) : result gfunc :=
  match fspec (fst fg) with
  | None => if mem_str (fst kv) (fouts (fst fg))
            then do m <- generated_spec (fst fg) (snd kv); Ok (set_spec (fst fg) (Some m), true)
            else Ok fg
  | Some _ => Ok fg
  end.

Lemma cm_step_ok (D : nra) kv :
  In kv D -> (forall e, In e (snd kv) -> exists x, e = Some x /\ is_ident x = true) ->
  forall fs st, Forall2 (gen_rel D) fs st ->
  exists st1, mapM (cm_step kv) st = Ok st1 /\ Forall2 (gen_rel D) fs st1.
Proof.
  intros Hkv Hax. induction 1 as [|f fg fs st [Hvn Hrel] _ [st1 [E1 F1]]]; [exists []; split; [reflexivity|constructor]|].
  cbn [mapM]. rewrite E1.
  assert (Hstep : exists fg1, cm_step kv fg = Ok fg1 /\ gen_rel D f fg1).
  { unfold cm_step. destruct Hrel as [->|[Hs [n [ax [Hin [Hn ->]]]]]]; cbn [fst snd set_spec fspec].
    - destruct (fspec f) as [m|] eqn:Es.
      + exists (f, false). split; [reflexivity|]. split; [exact Hvn|now left].
      + destruct (mem_str (fst kv) (fouts f)) eqn:Em.
        * apply mem_str_In in Em.
          rewrite generated_spec_succeeds; [|intros Hnil; rewrite Hnil in Em; destruct Em|exact Hvn|exact Hax].
          cbn [bind]. eexists. split; [reflexivity|]. split; [exact Hvn|]. right. split; [exact Es|].
          exists (fst kv), (snd kv). split; [destruct kv; exact Hkv|]. split; [exact Em|reflexivity].
        * exists (f, false). split; [reflexivity|]. split; [exact Hvn|now left].
    - eexists. split; [reflexivity|]. split; [exact Hvn|]. right. split; [exact Hs|].
      exists n, ax. auto. }
  destruct Hstep as [fg1 [Es Hg]]. rewrite Es. cbn [bind]. eexists. split; [reflexivity|]. constructor; assumption.
Qed.

Lemma create_missing_ok fs (D : nra) :
  (forall f, In f fs -> forallb valid_name (fouts f) = true) ->
  (forall n ax e, In (n, ax) D -> In e ax -> exists x, e = Some x /\ is_ident x = true) ->
  exists st', create_missing (all_false fs) D = Ok st' /\ Forall2 (gen_rel D) fs st'.
Proof.
  intros Hvn HD.
  assert (H0 : Forall2 (gen_rel D) fs (all_false fs)).
  { clear HD. induction fs as [|f fs IH]; [constructor|]. cbn [all_false map]. constructor.
    - split; [apply Hvn; now left|now left].
    - apply IH. intros g Hg. apply Hvn. now right. }
  unfold create_missing.
  assert (G : forall d, incl d D -> forall st, Forall2 (gen_rel D) fs st ->
              exists st', fold_left (fun acc kv => do st <- acc; mapM (cm_step kv) st) d (Ok st) = Ok st'
                          /\ Forall2 (gen_rel D) fs st').
  { induction d as [|kv d IH]; intros Hincl st Hst; cbn [fold_left bind]; [eauto|].
    destruct (cm_step_ok D kv (Hincl kv (or_introl eq_refl))) with (fs := fs) (st := st) as [st1 [E1 F1]];
      [|exact Hst|].
    { intros e He. apply (HD (fst kv) (snd kv)); [|exact He]. destruct kv. apply Hincl. now left. }
    rewrite E1. apply IH; [|exact F1]. intros z Hz. apply Hincl. now right. }
  exact (G D (incl_refl _) (all_false fs) H0).
Qed.

(* ================================================================== F. assembly *)
Definition inputs (fs : list mfunc) : list aspec := flat_map ins (specs_of fs).

Record cfacts (fs : list mfunc) : Prop := {
  cf_nd : NoDup (flat_map fouts fs);
  cf_vn : forall f, In f fs -> forallb valid_name (fouts f) = true;
  cf_wf : forall f m, In f fs -> fspec f = Some m -> wf_decl m = true /\ fouts f = map aname (outs m);
  cf_cons : forall a b, In a (user_aspecs fs) -> In b (user_aspecs fs) -> aname a = aname b ->
                        agree (axes a) (axes b);
  cf_sib : forall a b f, In a (inputs fs) -> In b (inputs fs) -> In f fs -> fspec f = None ->
                         In (aname a) (fouts f) -> In (aname b) (fouts f) -> agree (axes a) (axes b)
}.

Lemma completable_facts fs : completable fs = true -> cfacts fs.
Proof.
  unfold completable. intros H. apply andb_true_iff in H as [H H4]. apply andb_true_iff in H as [H H3].
  apply andb_true_iff in H as [H1 H2]. rewrite forallb_forall in H2. constructor.
  - now apply nodup_str_NoDup.
  - intros f Hf. specialize (H2 f Hf). now apply andb_true_iff in H2 as [H2 _].
  - intros f m Hf Hs. specialize (H2 f Hf). apply andb_true_iff in H2 as [_ H2]. rewrite Hs in H2.
    apply andb_true_iff in H2 as [Hw He]. split; [exact Hw|]. now apply (list_eqb_eq str_eqb str_eqb_eq).
  - now apply consistent_agree.
  - intros a b f Ha Hb Hf Hs Hna Hnb. rewrite forallb_forall in H4. specialize (H4 a Ha).
    rewrite forallb_forall in H4. specialize (H4 b Hb).
    assert (Hsp : same_producer fs (aname a) (aname b) = true).
    { unfold same_producer. apply existsb_exists. exists f. split; [exact Hf|]. rewrite Hs.
      apply andb_true_iff. split; now apply mem_str_In. }
    rewrite Hsp in H4. cbn [negb orb] in H4. now apply agree_axes_agree.
Qed.

Lemma user_aspecs_app a b : user_aspecs (a ++ b) = user_aspecs a ++ user_aspecs b.
Proof. unfold user_aspecs, uspecs. now rewrite !flat_map_app. Qed.

Lemma inputs_app a b : inputs (a ++ b) = inputs a ++ inputs b.
Proof. unfold inputs, specs_of. now rewrite !flat_map_app. Qed.

Lemma cfacts_prefix a b : cfacts (a ++ b) -> cfacts a.
Proof.
  intros [ND VN WF CO SI]. constructor.
  - rewrite flat_map_app in ND. now apply GraphFacts.NoDup_app_inv in ND as [ND _].
  - intros f Hf. apply VN. apply in_or_app. now left.
  - intros f m Hf. apply WF. apply in_or_app. now left.
  - intros x y Hx Hy. apply CO; rewrite user_aspecs_app; apply in_or_app; now left.
  - intros x y f Hx Hy Hf. apply SI; try (rewrite inputs_app); apply in_or_app; now left.
Qed.

Lemma fm_NoDup_inj {A} (h : A -> list str) l : NoDup (flat_map h l) ->
  forall a b x, In a l -> In b l -> In x (h a) -> In x (h b) -> a = b.
Proof.
  induction l as [|y l IH]; intros H a b x Ha Hb Hxa Hxb; [destruct Ha|].
  cbn [flat_map] in H. apply GraphFacts.NoDup_app_inv in H as [_ [Hl Hd]].
  assert (Hdisj : forall z c, In c l -> In z (h y) -> In z (h c) -> False).
  { intros z c Hc Hz Hzc. apply (Hd z Hz). apply in_flat_map. eauto. }
  destruct Ha as [<-|Ha], Hb as [<-|Hb]; [reflexivity| | |now apply (IH Hl a b x)].
  - exfalso. exact (Hdisj x b Hb Hxa Hxb).
  - exfalso. exact (Hdisj x a Ha Hxb Hxa).
Qed.

(* ---------- siblings ---------- *)
Lemma find_producer fs f n :
  NoDup (flat_map fouts fs) -> In f fs -> In n (fouts f) -> find (fun g => mem_str n (fouts g)) fs = Some f.
Proof.
  intros ND Hf Hn. destruct (find (fun g => mem_str n (fouts g)) fs) as [g|] eqn:E.
  - apply find_some in E as [Hg Hng]. apply mem_str_In in Hng. f_equal.
    exact (fm_NoDup_inj fouts fs ND g f n Hg Hf Hng Hn).
  - exfalso. pose proof (find_none _ _ E f Hf) as Hx. cbn in Hx. apply mem_str_false in Hx. contradiction.
Qed.

Lemma siblings_in fs n o : In o (siblings fs n) ->
  exists f, In f fs /\ In n (fouts f) /\ In o (fouts f) /\ siblings fs n = fouts f.
Proof.
  unfold siblings. destruct (find (fun f => mem_str n (fouts f)) fs) as [f|] eqn:E; [|intros []].
  apply find_some in E as [Hf Hn]. apply mem_str_In in Hn.
  destruct (fouts f) as [|x [|y t]] eqn:Eo; [intros []|intros []|]. intros Ho. exists f. rewrite Eo. auto.
Qed.

Lemma siblings_of_producer fs f n o :
  NoDup (flat_map fouts fs) -> In f fs -> In n (fouts f) -> In o (fouts f) -> n <> o -> siblings fs n = fouts f.
Proof.
  intros ND Hf Hn Ho Hne. unfold siblings. rewrite (find_producer fs f n ND Hf Hn).
  destruct (fouts f) as [|x [|y t]] eqn:Eo; [destruct Hn| |reflexivity].
  destruct Hn as [<-|[]], Ho as [<-|[]]. contradiction.
Qed.

Lemma siblings_sym fs : NoDup (flat_map fouts fs) ->
  forall n o, In o (siblings fs n) -> siblings fs o = siblings fs n /\ In n (siblings fs n).
Proof.
  intros ND n o Ho. destruct (siblings_in fs n o Ho) as [f [Hf [Hn [Hof Es]]]].
  split; [|rewrite Es; exact Hn]. rewrite Es. unfold siblings at 1. rewrite (find_producer fs f o ND Hf Hof).
  unfold siblings in Es. rewrite (find_producer fs f n ND Hf Hn) in Es.
  destruct (fouts f) as [|x [|y t]]; try reflexivity. rewrite <- Es in Hof. destruct Hof.
Qed.

(* ---------- consequences of well-formedness ---------- *)
Lemma root_args_not_out fs o : In o (all_outs fs) -> mem_str o (root_args fs) = false.
Proof.
  intros Ho. apply mem_str_false. intros H. unfold root_args in H. apply in_flat_map in H as [f [_ H]].
  apply filter_In in H as [_ H]. apply andb_true_iff in H as [_ H]. apply negb_true_iff, mem_str_false in H.
  contradiction.
Qed.

Lemma no_colon_axes (l : list (option str)) : existsb is_none l = false -> l = map Some (somes l).
Proof.
  induction l as [|[x|] l IH]; cbn; intros H; [reflexivity| |discriminate]. f_equal. now apply IH.
Qed.

Lemma wf_outs m : wf_decl m = true ->
  forall o1 o2, In o1 (outs m) -> In o2 (outs m) ->
  axes o1 = axes o2 /\ forall k, k < length (axes o1) -> exists x, named (axes o1) k x.
Proof.
  unfold wf_decl. intros H. apply andb_true_iff in H as [_ H].
  destruct (outs m) as [|o0 rest] eqn:Eo; [discriminate|].
  apply andb_true_iff in H as [H _]. apply andb_true_iff in H as [NC EQ].
  rewrite forallb_forall in NC, EQ.
  assert (Hnc : forall o, In o (o0 :: rest) -> existsb is_none (axes o) = false).
  { intros o Ho. specialize (NC o Ho). unfold no_colon in NC. now apply negb_true_iff in NC. }
  assert (Hax : forall o, In o (o0 :: rest) -> axes o = axes o0).
  { intros o [<-|Ho]; [reflexivity|]. rewrite (no_colon_axes _ (Hnc o (or_intror Ho))).
    rewrite (no_colon_axes _ (Hnc o0 (or_introl eq_refl))). f_equal.
    apply (list_eqb_eq str_eqb str_eqb_eq). apply (EQ o Ho). }
  intros o1 o2 H1 H2. split; [now rewrite (Hax o1 H1), (Hax o2 H2)|].
  intros k Hk. destruct (nth_error_lt_some _ k Hk) as [v Ev]. destruct v as [x|]; [eauto|].
  pose proof (Hnc o1 H1) as Hn. rewrite existsb_false_iff in Hn. specialize (Hn None (nth_error_In _ _ Ev)). discriminate.
Qed.

Lemma in_user_aspecs fs f m a : In f fs -> fspec f = Some m -> In a (ins m ++ outs m) -> In a (user_aspecs fs).
Proof.
  intros Hf Hs Ha. unfold user_aspecs. apply in_flat_map. exists m. split; [|exact Ha].
  unfold uspecs. apply in_flat_map. exists f. split; [exact Hf|]. rewrite Hs. now left.
Qed.

Lemma user_aspecs_inv fs a : In a (user_aspecs fs) ->
  exists f m, In f fs /\ fspec f = Some m /\ In a (ins m ++ outs m).
Proof.
  unfold user_aspecs, uspecs. intros H. apply in_flat_map in H as [m [Hm Ha]].
  apply in_flat_map in Hm as [f [Hf Hm]]. destruct (fspec f) as [m'|] eqn:Es; [|destruct Hm].
  destruct Hm as [<-|[]]. eauto.
Qed.

Lemma inputs_inv fs a : In a (inputs fs) -> exists f m, In f fs /\ fspec f = Some m /\ In a (ins m).
Proof.
  unfold inputs, specs_of. intros H. apply in_flat_map in H as [m [Hm Ha]].
  apply in_flat_map in Hm as [f [Hf Hm]]. destruct (fspec f) as [m'|] eqn:Es; [|destruct Hm].
  destruct Hm as [<-|[]]. eauto.
Qed.

Lemma inputs_user fs a : In a (inputs fs) -> In a (user_aspecs fs).
Proof.
  intros H. destruct (inputs_inv fs a H) as [f [m [Hf [Hs Ha]]]].
  apply (in_user_aspecs fs f m a Hf Hs). apply in_or_app. now left.
Qed.

Lemma all_outs_In fs f o : In f fs -> In o (fouts f) -> In o (all_outs fs).
Proof. intros Hf Ho. unfold all_outs. apply in_flat_map. eauto. Qed.

Lemma Forall2_In_r {A B} (R : A -> B -> Prop) l r y : Forall2 R l r -> In y r -> exists x, In x l /\ R x y.
Proof.
  induction 1 as [|a b l r Hab _ IH]; intros Hy; [destruct Hy|]. destruct Hy as [<-|Hy].
  - exists a. split; [now left|exact Hab].
  - destruct (IH Hy) as [x [Hx Hr]]. exists x. split; [now right|exact Hr].
Qed.

Lemma gen_outs_names l ax : map aname (gen_outs l ax) = l.
Proof. unfold gen_outs. rewrite map_map. cbn [aname]. apply map_id. Qed.

Lemma map_fst_all_false fs : map fst (all_false fs) = fs.
Proof. unfold all_false. rewrite map_map. apply map_id. Qed.

(* ---------- one validation of a completable list ---------- *)
Section Auto.
  Variable fs : list mfunc.
  Hypothesis CF : cfacts fs.

  Lemma inputs_cons a b : In a (inputs fs) -> In b (inputs fs) -> aname a = aname b -> agree (axes a) (axes b).
  Proof. intros Ha Hb. apply (cf_cons fs CF); now apply inputs_user. Qed.

  (* all indexed uses of the outputs of one function (with or without MapSpec) are compatible *)
  Lemma inputs_rel a b f : In a (inputs fs) -> In b (inputs fs) -> In f fs ->
    In (aname a) (fouts f) -> In (aname b) (fouts f) -> agree (axes a) (axes b).
  Proof.
    intros Ha Hb Hf Hna Hnb. destruct (fspec f) as [m|] eqn:Es; [|now apply (cf_sib fs CF a b f)].
    destruct (cf_wf fs CF f m Hf Es) as [Hw Eo]. rewrite Eo in Hna, Hnb.
    apply in_map_iff in Hna as [oa [Na Hoa]]. apply in_map_iff in Hnb as [ob [Nb Hob]].
    destruct (wf_outs m Hw oa ob Hoa Hob) as [Eax Hall].
    assert (Ua : In oa (user_aspecs fs)).
    { apply (in_user_aspecs fs f m); [exact Hf|exact Es|]. apply in_or_app. now right. }
    assert (Ub : In ob (user_aspecs fs)).
    { apply (in_user_aspecs fs f m); [exact Hf|exact Es|]. apply in_or_app. now right. }
    destruct (cf_cons fs CF a oa (inputs_user _ _ Ha) Ua (eq_sym Na)) as [La Pa].
    destruct (cf_cons fs CF b ob (inputs_user _ _ Hb) Ub (eq_sym Nb)) as [Lb Pb].
    split; [rewrite La, Lb, Eax; reflexivity|].
    intros k x y Hx Hy.
    assert (Hk : k < length (axes oa)) by (rewrite <- La; eapply named_lt; eassumption).
    destruct (Hall k Hk) as [z Hz]. rewrite (Pa k x z Hx Hz). rewrite Eax in Hz. rewrite (Pb k y z Hy Hz). reflexivity.
  Qed.

  (* a user aspec that names an output of a spec-less function is a consumer input *)
  Lemma user_out_producer a f :
    In a (user_aspecs fs) -> In f fs -> fspec f = None -> In (aname a) (fouts f) -> In a (inputs fs).
  Proof.
    intros Ha Hf Hs Hn. destruct (user_aspecs_inv fs a Ha) as [f' [m [Hf' [Hs' Hin]]]].
    apply in_app_or in Hin as [Hin|Hin].
    - unfold inputs, specs_of. apply in_flat_map. exists m. split; [|exact Hin].
      apply in_flat_map. exists f'. split; [exact Hf'|]. rewrite Hs'. now left.
    - exfalso. destruct (cf_wf fs CF f' m Hf' Hs') as [_ Eo].
      assert (Hn' : In (aname a) (fouts f')) by (rewrite Eo; now apply in_map).
      assert (E : f' = f) by exact (fm_NoDup_inj fouts fs (cf_nd fs CF) f' f (aname a) Hf' Hf Hn' Hn).
      congruence.
  Qed.

  Lemma autogen_ok :
    exists st2, autogen (all_false fs) = Ok st2
                /\ reset_generated st2 = all_false fs
                /\ outputs_match (map fst st2) = Ok tt
                /\ Validate.validate_consistent_axes (specs_of (map fst st2)) = Ok tt.
  Proof.
    pose proof (cf_nd fs CF) as ND.
    unfold autogen. rewrite map_fst_all_false.
    destruct (fnra_ok (specs_of fs) (root_args fs)) as [d0 [E0 [ND0 [I1 [I2 I3]]]]]; [exact inputs_cons|].
    fold (inputs fs) in I1, I2, I3. rewrite E0. cbn [bind].
    set (Q := fun x : str => is_ident x = true).
    assert (A0 : sib_agree (siblings fs) d0).
    { intros n o c c' Ho Gc Gc'. destruct (siblings_in fs n o Ho) as [f [Hf [Hn [Hof _]]]].
      destruct (I1 n c Gc) as [a [Ha [Na [_ La]]]]. destruct (I1 o c' Gc') as [b [Hb [Nb [_ Lb]]]].
      split.
      - rewrite La, Lb. unfold rank. apply (inputs_rel a b f Ha Hb Hf); [rewrite Na|rewrite Nb]; assumption.
      - intros k x y Hx Hy. destruct (I2 n c k x Gc Hx) as [a' [Ha' [Na' Hx']]].
        destruct (I2 o c' k y Gc' Hy) as [b' [Hb' [Nb' Hy']]].
        assert (Hr : agree (axes a') (axes b')).
        { apply (inputs_rel a' b' f Ha' Hb' Hf); [rewrite Na'|rewrite Nb']; assumption. }
        exact (proj2 Hr k x y Hx' Hy'). }
    assert (Q0 : Qd Q d0).
    { intros n c k x Gc Hx. destruct (I2 n c k x Gc Hx) as [a [Ha [_ Hx']]].
      destruct (inputs_inv fs a Ha) as [f [m [Hf [Hs Hin]]]]. destruct (cf_wf fs CF f m Hf Hs) as [Hw _].
      unfold wf_decl in Hw. apply andb_true_iff in Hw as [Hw _]. apply andb_true_iff in Hw as [Hw _].
      rewrite forallb_forall in Hw. specialize (Hw a Hin). unfold wf_aspec in Hw.
      apply andb_true_iff in Hw as [_ Hw]. rewrite forallb_forall in Hw.
      exact (Hw (Some x) (nth_error_In _ _ Hx')). }
    destruct (replace_ok (siblings fs) (siblings_sym fs ND) Q unnamed_ident d0 A0 Q0 ND0 (specs_of fs))
      as [d2 [E2 [M2 [SE2 [Q2 [ND2 Full]]]]]].
    rewrite E2. cbn [bind].
    destruct (create_missing_ok fs d2 (cf_vn fs CF)) as [st2 [Ecm F2]].
    { intros n ax e Hin He. destruct (Full n ax e Hin He) as [x ->]. exists x. split; [reflexivity|].
      apply In_nth_error in He as [k Hk]. exact (Q2 n ax k x (dget_of_In _ _ _ ND2 Hin) Hk). }
    exists st2. split; [exact Ecm|]. split; [|split].
    - clear -F2. induction F2 as [|f fg l st [_ Hrel] _ IH]; [reflexivity|].
      unfold reset_generated, all_false in *. cbn [map]. rewrite IH. f_equal.
      destruct Hrel as [->|[Hs [n [ax [_ [_ ->]]]]]]; cbn [snd fst]; [reflexivity|]. f_equal.
      destruct f; cbn in *; subst; reflexivity.
    - unfold outputs_match.
      assert (H : forallb (fun f => match fspec f with
                                    | Some m => list_eqb str_eqb (fouts f) (map aname (outs m))
                                    | None => true end) (map fst st2) = true).
      { apply forallb_forall. intros g Hg. apply in_map_iff in Hg as [fg [<- Hfg]].
        destruct (Forall2_In_r _ _ _ _ F2 Hfg) as [f [Hf [_ Hrel]]].
        destruct Hrel as [->|[Hs [n [ax [_ [_ ->]]]]]]; cbn [fst set_spec fspec fouts outs].
        - destruct (fspec f) as [m|] eqn:Es; [|reflexivity].
          destruct (cf_wf fs CF f m Hf Es) as [_ Eo]. rewrite <- Eo. apply str_list_eqb_refl.
        - rewrite gen_outs_names. apply str_list_eqb_refl. }
      rewrite H. reflexivity.
    - (* the final validation *)
      set (is_gen := fun a : aspec => exists f n, In f fs /\ fspec f = None /\ In n (fouts f)
                                                  /\ In (aname a) (fouts f) /\ In (n, axes a) d2).
      assert (Cls : forall a, In a (Validate.all_aspecs (specs_of (map fst st2))) ->
                    In a (user_aspecs fs) \/ is_gen a).
      { intros a Ha. unfold Validate.all_aspecs in Ha. apply in_flat_map in Ha as [m [Hm Ha]].
        unfold specs_of in Hm. apply in_flat_map in Hm as [g [Hg Hm]]. apply in_map_iff in Hg as [fg [<- Hfg]].
        destruct (Forall2_In_r _ _ _ _ F2 Hfg) as [f [Hf [_ Hrel]]].
        destruct Hrel as [->|[Hs [n [ax [Hin [Hn ->]]]]]]; cbn [fst] in Hm.
        - left. destruct (fspec f) as [m'|] eqn:Es; [|destruct Hm]. destruct Hm as [<-|[]].
          exact (in_user_aspecs fs f m' a Hf Es Ha).
        - right. cbn [set_spec fspec] in Hm. destruct Hm as [<-|[]]. cbn [ins outs app] in Ha.
          apply in_map_iff in Ha as [o [<- Ho]]. exists f, n. cbn [aname axes]. auto. }
      assert (KEY : forall (gax : list (option str)) b f n,
                 In f fs -> In n (fouts f) -> In (n, gax) d2 ->
                 In b (inputs fs) -> In (aname b) (fouts f) ->
                 length gax = length (axes b) /\ forall k y, named (axes b) k y -> named gax k y).
      { intros gax b f n Hf Hn Hin Hb Ho.
        pose proof (root_args_not_out fs (aname b) (all_outs_In fs f _ Hf Ho)) as R.
        destruct (I3 b Hb R) as [c0 [G0 P0]].
        destruct (I1 (aname b) c0 G0) as [a' [Ha' [Na' [_ La']]]].
        pose proof (proj1 (inputs_cons a' b Ha' Hb Na')) as Lab.
        destruct (proj2 M2 (aname b) c0 G0) as [c2 [G2 [L2 P2]]].
        pose proof (dget_of_In _ _ _ ND2 Hin) as Gn.
        assert (Eg : gax = c2).
        { destruct (list_eq_dec Ascii.ascii_dec n (aname b)) as [En|Hne]; [rewrite En in Gn; congruence|].
          apply (SE2 n (aname b) gax c2); [|exact Gn|exact G2].
          rewrite (siblings_of_producer fs f n (aname b) ND Hf Hn Ho Hne). exact Ho. }
        subst gax. split; [rewrite L2, La'; exact Lab|]. intros k y Hy. apply P2, P0, Hy. }
      assert (GU : forall g b, is_gen g -> In b (user_aspecs fs) -> aname g = aname b -> agree (axes g) (axes b)).
      { intros g b [f [n [Hf [Hs [Hn [Hg Hin]]]]]] Hb Hname. rewrite Hname in Hg.
        pose proof (user_out_producer b f Hb Hf Hs Hg) as Hbi.
        destruct (KEY (axes g) b f n Hf Hn Hin Hbi Hg) as [L P].
        split; [exact L|]. intros k x y Hx Hy. pose proof (P k y Hy). congruence. }
      apply vca_complete. intros a b Ha Hb Hname.
      destruct (Cls a Ha) as [Ua|Ga], (Cls b Hb) as [Ub|Gb].
      + now apply (cf_cons fs CF).
      + apply agree_sym. apply GU; [exact Gb|exact Ua|now symmetry].
      + now apply GU.
      + destruct Ga as [f1 [n1 [Hf1 [Hs1 [Hn1 [Hg1 Hin1]]]]]]. destruct Gb as [f2 [n2 [Hf2 [Hs2 [Hn2 [Hg2 Hin2]]]]]].
        rewrite Hname in Hg1.
        assert (E : f1 = f2) by exact (fm_NoDup_inj fouts fs ND f1 f2 (aname b) Hf1 Hf2 Hg1 Hg2). subst f2.
        pose proof (dget_of_In _ _ _ ND2 Hin1) as G1. pose proof (dget_of_In _ _ _ ND2 Hin2) as G2.
        assert (E : axes a = axes b).
        { destruct (list_eq_dec Ascii.ascii_dec n1 n2) as [En|Hne]; [rewrite En in G1; congruence|].
          apply (SE2 n1 n2 _ _); [|exact G1|exact G2].
          rewrite (siblings_of_producer fs f1 n1 n2 ND Hf1 Hn1 Hn2 Hne). exact Hn2. }
        rewrite E. apply agree_refl.
  Qed.
End Auto.

(* ---------- validate_mapspec / add / construct ---------- *)
(* what _validate_mapspec does after the output-name check and the reset of generated specs *)
Definition post_reset (st1 : list gfunc) : result (list gfunc) :=
  do _ <- Validate.validate_consistent_axes (specs_of (map fst st1));
  do st2 <- autogen st1;
  if existsb snd st2
  then do _ <- Validate.validate_consistent_axes (specs_of (map fst st2)); Ok st2
  else Ok st2.

Lemma validate_mapspec_unfold st :
  validate_mapspec st = do _ <- outputs_match (map fst st); post_reset (reset_generated st).
Proof. reflexivity. Qed.

Lemma reset_all_false fs : reset_generated (all_false fs) = all_false fs.
Proof. unfold reset_generated, all_false. rewrite map_map. reflexivity. Qed.

Lemma all_outs_reset st : all_outs (map fst (reset_generated st)) = all_outs (map fst st).
Proof.
  unfold all_outs, reset_generated. rewrite !flat_map_concat_map, !map_map. f_equal.
  apply map_ext. intros [f b]. destruct b; reflexivity.
Qed.

Lemma outputs_match_iff l :
  outputs_match l = Ok tt <->
  forallb (fun f => match fspec f with
                    | Some m => list_eqb str_eqb (fouts f) (map aname (outs m))
                    | None => true end) l = true.
Proof. unfold outputs_match. destruct (forallb _ l); split; intros H; try reflexivity; discriminate. Qed.

Lemma outputs_match_user fs : cfacts fs -> outputs_match fs = Ok tt.
Proof.
  intros CF. apply outputs_match_iff. apply forallb_forall. intros f Hf.
  destruct (fspec f) as [m|] eqn:Es; [|reflexivity].
  destruct (cf_wf fs CF f m Hf Es) as [_ Eo]. rewrite <- Eo. apply str_list_eqb_refl.
Qed.

Lemma post_reset_ok fs : cfacts fs ->
  exists st2, post_reset (all_false fs) = Ok st2 /\ reset_generated st2 = all_false fs
              /\ outputs_match (map fst st2) = Ok tt.
Proof.
  intros CF. unfold post_reset. rewrite map_fst_all_false.
  rewrite (vca_complete (specs_of fs)) by exact (cf_cons fs CF). cbn [bind].
  destruct (autogen_ok fs CF) as [st2 [E [R [O V]]]]. rewrite E. cbn [bind]. exists st2.
  split; [|split; assumption]. destruct (existsb snd st2); [rewrite V|]; reflexivity.
Qed.

Lemma construct_fold : forall l pre st,
  cfacts (pre ++ l) -> reset_generated st = all_false pre -> outputs_match (map fst st) = Ok tt ->
  exists st', fold_left (fun acc f => do st <- acc; add st f) l (Ok st) = Ok st'
              /\ reset_generated st' = all_false (pre ++ l)
              /\ outputs_match (map fst st') = Ok tt
              /\ (l <> [] -> validate_mapspec (all_false (pre ++ l)) = Ok st').
Proof.
  induction l as [|f l IH]; intros pre st CF HR HO; cbn [fold_left].
  - exists st. rewrite app_nil_r. split; [reflexivity|]. split; [exact HR|]. split; [exact HO|].
    intros H. contradiction.
  - assert (CF1 : cfacts (pre ++ [f])). { apply (cfacts_prefix _ l). rewrite <- app_assoc. exact CF. }
    cbn [bind]. unfold add.
    assert (Hint : intersects (fouts f) (all_outs (map fst st)) = false).
    { rewrite <- all_outs_reset, HR, map_fst_all_false. unfold intersects. apply existsb_false_iff.
      intros x Hx. apply mem_str_false. intros Hx'.
      pose proof (cf_nd _ CF1) as ND. rewrite flat_map_app in ND.
      apply GraphFacts.NoDup_app_inv in ND as [_ [_ Hd]]. apply (Hd x Hx'). cbn [flat_map]. rewrite app_nil_r. exact Hx. }
    rewrite Hint.
    assert (HR1 : reset_generated (st ++ [(f, false)]) = all_false (pre ++ [f])).
    { unfold reset_generated, all_false in *. rewrite !map_app, HR. reflexivity. }
    assert (HOu : outputs_match (pre ++ [f]) = Ok tt) by (apply outputs_match_user; exact CF1).
    assert (HO1 : outputs_match (map fst (st ++ [(f, false)])) = Ok tt).
    { rewrite map_app. apply outputs_match_iff. rewrite forallb_app. apply outputs_match_iff in HO, HOu.
      rewrite forallb_app in HOu. apply andb_true_iff in HOu as [_ HOu]. apply andb_true_intro. split; [exact HO|exact HOu]. }
    destruct (post_reset_ok (pre ++ [f]) CF1) as [st1 [E1 [R1 O1]]].
    assert (V1 : validate_mapspec (st ++ [(f, false)]) = Ok st1).
    { rewrite validate_mapspec_unfold, HO1, HR1. exact E1. }
    assert (V2 : validate_mapspec (all_false (pre ++ [f])) = Ok st1).
    { rewrite validate_mapspec_unfold, map_fst_all_false, HOu, reset_all_false. exact E1. }
    rewrite V1.
    destruct (IH (pre ++ [f]) st1) as [st' [E' [R' [O' W']]]];
      [rewrite <- app_assoc; exact CF|exact R1|exact O1|].
    rewrite <- app_assoc in R', W'. cbn [app] in R', W'.
    exists st'. split; [exact E'|]. split; [exact R'|]. split; [exact O'|]. intros _.
    destruct l as [|g l]; [|apply W'; discriminate]. cbn [fold_left] in E'. injection E' as <-. exact V2.
Qed.

(* ================================================================== main results *)
(* a declaratively completable user-level list is never refused by Pipeline construction *)
Theorem construct_never_refuses : forall user, completable user = true -> exists eff, construct user = Ok eff.
Proof.
  intros user H. apply completable_facts in H.
  destruct (construct_fold user [] [] H eq_refl eq_refl) as [st' [E _]].
  unfold construct. rewrite E. cbn [bind]. eauto.
Qed.

(* ... and the incremental construction ends in the same list as the one-shot validation of all functions *)
Corollary construct_effective : forall user, completable user = true ->
  exists eff, construct user = Ok eff /\ effective user = Ok eff.
Proof.
  intros user H. apply completable_facts in H.
  destruct (construct_fold user [] [] H eq_refl eq_refl) as [st' [E [_ [_ W]]]].
  exists (map fst st'). unfold construct, effective. rewrite E. cbn [bind]. split; [reflexivity|].
  destruct user as [|f user]; [cbn [fold_left] in E; injection E as <-; reflexivity|].
  cbn [app] in W. fold (all_false (f :: user)). rewrite W by discriminate. reflexivity.
Qed.

Print Assumptions construct_never_refuses.
Print Assumptions construct_effective.
