(* FRESHNESS of the axis names chosen by _autogen_mapspec_axes (Model/AutoGen.v) and its consequence: the generated
   MapSpec of a spec-less producer has pairwise distinct axes, so the effective list satisfies MapDenote.func_ok /
   request_ok whenever the user-level list does.

     F1  unnamed_inj, fresh_not_in        the naming loop returns a name that is not in `names`
     F2  generated_axes_distinct          NoDup (output_indices g) for every generated MapSpec g
                                          (under completable + AutoGenNames.distinct_axes)
     F3  construct_func_ok, construct_request_ok

   The invariant of the naming loop (finv): every named entry of the dictionary is either an entry that was already
   there after merge_siblings (a user index name, which stands at one position only by distinct_axes) or a generated
   name that is not in `axes_names specs` and occurs, in the whole dictionary, at one position only. *)
From Coq Require Import DecimalString DecimalNat DecimalFacts.
From Verif Require Import Base.Prelude Base.StrUtil Base.Index Base.NdArr Model.MapSpec Model.MapSpecSpec Model.MapRun
  Model.SymBody Model.AutoGen Model.AutoGenSpec Model.AutoGenNames Model.MapDenote.
From Verif Require Model.Validate Model.XrLabelSpec.
From Verif Require Import Proofs.StrFacts Proofs.ListFacts Proofs.MapSpecFacts Proofs.AutoGenComplete.
From Verif Require Proofs.AutoGenFacts.

(* ================================================================== F1. freshness of the naming loop *)
Lemma to_uint_nonnil n : Nat.to_uint n <> Decimal.Nil.
Proof.
  intros H. pose proof (Unsigned.to_of (Nat.to_uint n)) as E. rewrite Unsigned.of_to in E.
  apply (unorm_nonnil (Nat.to_uint n)). rewrite <- E. exact H.
Qed.

Lemma dec_inj i j : dec i = dec j -> i = j.
Proof.
  unfold dec. intros H. apply (f_equal string_of_list_ascii) in H. rewrite !string_of_list_ascii_of_string in H.
  apply (f_equal NilZero.uint_of_string) in H. rewrite !NilZero.usu in H by apply to_uint_nonnil.
  injection H as H. apply (f_equal Nat.of_uint) in H. now rewrite !Unsigned.of_to in H.
Qed.

Theorem unnamed_inj i j : unnamed i = unnamed j -> i = j.
Proof. unfold unnamed. intros H. apply app_inv_head in H. now apply dec_inj. Qed.

Lemma fresh_aux names : forall fuel i seen,
  NoDup seen -> incl seen names -> (forall x, In x seen -> exists j, j < i /\ x = unnamed j) ->
  length names < fuel + length seen -> ~ In (unnamed (fresh fuel i names)) names.
Proof.
  induction fuel as [|k IH]; intros i seen ND Hincl Hs Hlen.
  - exfalso. pose proof (NoDup_incl_length ND Hincl) as Hle. cbn in Hlen. lia.
  - cbn [fresh]. destruct (mem_str (unnamed i) names) eqn:E.
    + apply mem_str_In in E. apply (IH (S i) (unnamed i :: seen)).
      * constructor; [|exact ND]. intros Hin. destruct (Hs _ Hin) as [j [Hj Ej]]. apply unnamed_inj in Ej. lia.
      * intros x [<-|Hx]; [exact E|now apply Hincl].
      * intros x [<-|Hx]; [exists i; split; [lia|reflexivity]|].
        destruct (Hs x Hx) as [j [Hj ->]]. exists j. split; [lia|reflexivity].
      * cbn [length]. lia.
    + now apply mem_str_false in E.
Qed.

(* `while "unnamed_{i}" in all_axes_names: i += 1` with len(names) + 1 candidates ends on a name not in names *)
Theorem fresh_not_in fuel i names : length names < fuel -> ~ In (unnamed (fresh fuel i names)) names.
Proof.
  intros H. apply (fresh_aux names fuel i []); [constructor|intros ? []|intros ? []|cbn; lia].
Qed.

(* ================================================================== the naming loop writes one name at one position *)
Lemma set_nth_ok_upd {A} (l : list A) : forall j x r, set_nth l j x = Ok r -> r = upd l j x.
Proof.
  induction l as [|y l IH]; intros [|j] x r H; cbn [set_nth upd] in *; try discriminate.
  - now injection H as <-.
  - destruct (set_nth l j x) as [r0|e] eqn:E; cbn [bind] in H; [|discriminate]. injection H as <-.
    f_equal. now apply IH.
Qed.

Lemma dset_entries (d : nra) o sb j new n k x :
  dict_get d o = Some sb -> dnamed (dict_set d o (upd sb j (Some new))) n k x ->
  dnamed d n k x \/ (k = j /\ x = new).
Proof.
  intros G [c [Gc Hc]]. destruct (str_eqb o n) eqn:En.
  - apply str_eqb_eq in En. subst n. rewrite dget_set_same in Gc. injection Gc as <-.
    apply named_upd in Hc as [R|Hc]; [now right|]. left. exists sb. auto.
  - apply str_eqb_neq in En. rewrite dget_set_other in Gc by exact En. left. exists c. auto.
Qed.

Lemma rinner_entries j new : forall os dcur dfin,
  fold_left (rinner j new) os (Ok dcur) = Ok dfin ->
  forall n k x, dnamed dfin n k x -> dnamed dcur n k x \/ (k = j /\ x = new).
Proof.
  induction os as [|o os IH]; intros dcur dfin H n k x Hx; cbn [fold_left] in H.
  - injection H as <-. now left.
  - unfold rinner at 2 in H. cbn [bind] in H. destruct (dict_get dcur o) as [sb|] eqn:G.
    + destruct (set_nth sb j (Some new)) as [sb'|e] eqn:Es; cbn [bind] in H.
      * apply set_nth_ok_upd in Es. subst sb'. destruct (IH _ _ H n k x Hx) as [Hd|R]; [|now right].
        exact (dset_entries dcur o sb j new n k x G Hd).
      * unfold rinner in H. rewrite fold_left_bind_err in H. discriminate.
    + exact (IH _ _ H n k x Hx).
Qed.

Lemma replace_at_entries sib name st j st' :
  replace_at sib name st j = Ok st' ->
  st' = st
  \/ (rs_names st' = unnamed (fresh (S (length (rs_names st))) (rs_i st) (rs_names st)) :: rs_names st
      /\ forall n k x, dnamed (rs_d st') n k x ->
           dnamed (rs_d st) n k x
           \/ (k = j /\ x = unnamed (fresh (S (length (rs_names st))) (rs_i st) (rs_names st)))).
Proof.
  unfold replace_at. destruct (dict_get (rs_d st) name) as [ax|] eqn:G.
  2:{ intros H. injection H as <-. now left. }
  destruct (nth_error ax j) as [[y|]|] eqn:E.
  - intros H. injection H as <-. now left.
  - cbv zeta. set (new := unnamed (fresh (S (length (rs_names st))) (rs_i st) (rs_names st))).
    destruct (set_nth ax j (Some new)) as [ax'|e] eqn:Es; cbn [bind]; [|discriminate].
    apply set_nth_ok_upd in Es. subst ax'.
    destruct (fold_left _ (sib name) _) as [d2|e] eqn:Ef; cbn [bind]; [|discriminate].
    intros H. injection H as <-. right. cbn [rs_names rs_d]. split; [reflexivity|]. intros n k x Hx.
    change (fold_left (rinner j new) (sib name) (Ok (dict_set (rs_d st) name (upd ax j (Some new)))) = Ok d2) in Ef.
    destruct (rinner_entries j new _ _ _ Ef n k x Hx) as [Hd|R]; [|now right].
    exact (dset_entries (rs_d st) name ax j new n k x G Hd).
  - intros H. injection H as <-. now left.
Qed.

Lemma fold_bind_preserve {S A} (F : S -> A -> result S) (P : S -> Prop) l :
  (forall s x s', P s -> F s x = Ok s' -> P s') ->
  forall s0 sf, P s0 -> fold_left (fun acc x => do s <- acc; F s x) l (Ok s0) = Ok sf -> P sf.
Proof.
  intros Hstep. induction l as [|x l IH]; intros s0 sf H0 H; cbn [fold_left bind] in H.
  - now injection H as <-.
  - destruct (F s0 x) as [s1|e] eqn:E; [|rewrite fold_left_bind_err in H; discriminate].
    exact (IH s1 sf (Hstep s0 x s1 H0 E) H).
Qed.

Section Fresh.
  Variable names0 : list str.
  Variable d1 : nra.

  Definition finv (st : rstate) : Prop :=
    incl names0 (rs_names st)
    /\ (forall n k x, dnamed (rs_d st) n k x -> In x (rs_names st))
    /\ (forall n k x, dnamed (rs_d st) n k x ->
          dnamed d1 n k x \/ (~ In x names0 /\ forall n' k', dnamed (rs_d st) n' k' x -> k' = k)).

  Lemma finv_step sib name st j st' : finv st -> replace_at sib name st j = Ok st' -> finv st'.
  Proof.
    intros [N [E P]] H. destruct (replace_at_entries sib name st j st' H) as [->|[En W]]; [repeat split; assumption|].
    set (new := unnamed (fresh (S (length (rs_names st))) (rs_i st) (rs_names st))) in *.
    assert (Hnew : ~ In new (rs_names st)) by (apply fresh_not_in; lia).
    split; [|split].
    - rewrite En. intros x Hx. right. now apply N.
    - intros n k x Hx. rewrite En. destruct (W n k x Hx) as [Hd|[_ ->]]; [right; now apply (E n k)|now left].
    - intros n k x Hx. destruct (W n k x Hx) as [Hd|[-> ->]].
      + destruct (P n k x Hd) as [L|[Hn0 Hone]]; [now left|]. right. split; [exact Hn0|].
        intros n' k' Hx'. destruct (W n' k' x Hx') as [Hd'|[_ Ex]]; [now apply (Hone n')|].
        exfalso. apply Hnew. rewrite <- Ex. exact (E n k x Hd).
      + right. split; [intros H0; apply Hnew; now apply N|].
        intros n' k' Hx'. destruct (W n' k' new Hx') as [Hd'|[Ek _]]; [|exact Ek].
        exfalso. apply Hnew. exact (E n' k' new Hd').
  Qed.

  Lemma finv_loops specs sib (d : nra) st0 stf :
    finv st0 ->
    fold_left (fun acc name =>
                 do st <- acc;
                 fold_left (fun acc j => do st <- acc; replace_at sib name st j)
                           (seq 0 (length (match dict_get d name with Some a => a | None => [] end))) (Ok st))
              specs (Ok st0) = Ok stf ->
    finv stf.
  Proof.
    apply (fold_bind_preserve
             (fun st name => fold_left (fun acc j => do st <- acc; replace_at sib name st j)
                                       (seq 0 (length (match dict_get d name with Some a => a | None => [] end)))
                                       (Ok st)) finv).
    intros s name s' Hs. apply (fold_bind_preserve (fun st j => replace_at sib name st j) finv); [|exact Hs].
    intros s1 j s2 H1 H2. exact (finv_step sib name s1 j s2 H1 H2).
  Qed.
End Fresh.

(* every named entry of the result is an entry of merge_siblings or a generated name with a single position *)
Theorem replace_fresh specs sib d0 d2 :
  (forall n k x, dnamed (merge_siblings sib d0) n k x -> In x (axes_names specs)) ->
  replace_none_in_axes specs sib d0 = Ok d2 ->
  forall n k x, dnamed d2 n k x ->
    dnamed (merge_siblings sib d0) n k x
    \/ (~ In x (axes_names specs) /\ forall n' k', dnamed d2 n' k' x -> k' = k).
Proof.
  intros E1. unfold replace_none_in_axes. cbv zeta.
  destruct (fold_left _ (map fst (merge_siblings sib d0)) _) as [st|e] eqn:Ef; cbn [bind]; [|discriminate].
  destruct (existsb _ (rs_d st)); [discriminate|]. intros H. injection H as <-.
  assert (Hf : finv (axes_names specs) (merge_siblings sib d0) st).
  { refine (finv_loops _ _ _ sib _ _ _ _ Ef). cbn [rs_d rs_names]. split; [apply incl_refl|]. split; [exact E1|].
    intros n k x Hx. now left. }
  exact (proj2 (proj2 Hf)).
Qed.

(* ================================================================== small list facts *)
Lemma in_combine_seq {A} (l : list A) : forall s k v, nth_error l k = Some v -> In (s + k, v) (combine (seq s (length l)) l).
Proof.
  induction l as [|y l IH]; intros s k v H; [destruct k; discriminate|]. cbn [length seq combine].
  destruct k as [|k]; cbn [nth_error] in H.
  - injection H as <-. left. f_equal. lia.
  - right. replace (s + S k) with (S s + k) by lia. now apply IH.
Qed.

Lemma in_positions a k x : named (axes a) k x -> In (k, x) (positions a).
Proof.
  intros H. unfold positions. apply in_flat_map. exists (k, Some x). split; [|now left].
  exact (in_combine_seq (axes a) 0 k (Some x) H).
Qed.

Lemma somes_NoDup (ax : list (option str)) :
  (forall k k' x, named ax k x -> named ax k' x -> k = k') -> NoDup (somes ax).
Proof.
  induction ax as [|a ax IH]; intros H; cbn [somes]; [constructor|].
  assert (Ht : forall k k' x, named ax k x -> named ax k' x -> k = k').
  { intros k k' x H1 H2. specialize (H (S k) (S k') x H1 H2). lia. }
  destruct a as [x|]; [|now apply IH]. constructor; [|now apply IH].
  intros Hin. apply somes_In in Hin. apply In_nth_error in Hin as [k Hk].
  specialize (H 0 (S k) x eq_refl Hk). discriminate.
Qed.

Lemma Forall2_map_combine {A B} (R : A * bool -> B * bool -> Prop) (l : list A) : forall (r : list (B * bool)) x y,
  Forall2 R (map (fun a => (a, false)) l) r -> In (x, y) (combine l (map fst r)) -> exists b, R (x, false) (y, b).
Proof.
  induction l as [|a l IH]; intros r x y HF Hin; [destruct Hin|].
  cbn [map] in HF. inversion HF as [|? [y0 b0] ? r' Hab Hrest]; subst. cbn [map fst combine] in Hin.
  destruct Hin as [E|Hin]; [injection E as <- <-; eauto|]. exact (IH r' x y Hrest Hin).
Qed.

Lemma Forall2_In_r_combine {A B} (R : A -> B -> Prop) l r y :
  Forall2 R l r -> In y r -> exists x, In (x, y) (combine l r) /\ R x y.
Proof.
  induction 1 as [|a b l r Hab _ IH]; intros Hy; [destruct Hy|]. destruct Hy as [<-|Hy].
  - exists a. split; [now left|exact Hab].
  - destruct (IH Hy) as [x [Hx Hr]]. exists x. split; [now right|exact Hr].
Qed.

(* ================================================================== F2. generated axes are pairwise distinct *)
Section Gen.
  Variable fs : list mfunc.
  Hypothesis CF : cfacts fs.
  Hypothesis DA : distinct_axes fs = true.

  Lemma autogen_distinct st2 :
    autogen (all_false fs) = Ok st2 ->
    forall f e g, In (f, e) (combine fs (map fst st2)) -> fspec f = None -> fspec e = Some g ->
                  NoDup (output_indices g).
  Proof.
    pose proof (cf_nd fs CF) as ND.
    unfold autogen. rewrite map_fst_all_false.
    destruct (fnra_ok (specs_of fs) (root_args fs)) as [d0 [E0 [ND0 [I1 [I2 I3]]]]]; [exact (inputs_cons fs CF)|].
    fold (inputs fs) in I1, I2, I3. rewrite E0. cbn [bind].
    destruct (replace_none_in_axes (specs_of fs) (siblings fs) d0) as [d2|e0] eqn:E2; cbn [bind]; [|discriminate].
    intros Hcm f e g Hpair Hs He.
    (* the dictionary after merge_siblings *)
    set (names0 := axes_names (specs_of fs)).
    set (Q := fun x : str => In x names0).
    assert (A0 : sib_agree (siblings fs) d0).
    { intros n o c c' Ho Gc Gc'. destruct (siblings_in fs n o Ho) as [f0 [Hf0 [Hn [Hof _]]]].
      destruct (I1 n c Gc) as [a [Ha [Na [_ La]]]]. destruct (I1 o c' Gc') as [b [Hb [Nb [_ Lb]]]].
      split.
      - rewrite La, Lb. unfold rank. apply (inputs_rel fs CF a b f0 Ha Hb Hf0); [rewrite Na|rewrite Nb]; assumption.
      - intros k x y Hx Hy. destruct (I2 n c k x Gc Hx) as [a' [Ha' [Na' Hx']]].
        destruct (I2 o c' k y Gc' Hy) as [b' [Hb' [Nb' Hy']]].
        assert (Hr : agree (axes a') (axes b')).
        { apply (inputs_rel fs CF a' b' f0 Ha' Hb' Hf0); [rewrite Na'|rewrite Nb']; assumption. }
        exact (proj2 Hr k x y Hx' Hy'). }
    assert (Q0 : Qd Q d0).
    { intros n c k x Gc Hx. destruct (I2 n c k x Gc Hx) as [a [Ha [_ Hx']]].
      destruct (inputs_inv fs a Ha) as [f0 [m [Hf0 [Hs0 Hin]]]].
      unfold Q, names0, axes_names. apply in_flat_map. exists m. split.
      - unfold specs_of. apply in_flat_map. exists f0. split; [exact Hf0|]. rewrite Hs0. now left.
      - apply in_flat_map. exists a. split; [apply in_or_app; now left|]. right. unfold indices.
        apply somes_In. exact (nth_error_In _ _ Hx'). }
    assert (H0 : minv (siblings fs) Q d0 d0).
    { split; [apply mono_refl|]. split; [|exact Q0]. intros n k x H. exists n. auto. }
    destruct (mouter_fold (siblings fs) (siblings_sym fs ND) Q d0 A0 (map fst d0) (incl_refl _) d0 H0)
      as [[M1 [P1 Q1]] _].
    change (fold_left (mouter (siblings fs)) (map fst d0) d0) with (merge_siblings (siblings fs) d0) in M1, P1, Q1.
    set (d1 := merge_siblings (siblings fs) d0) in *.
    assert (ND2 : NoDup (map fst d2)). { rewrite (AutoGenFacts.replace_none_keys _ _ _ _ E2). exact ND0. }
    pose proof (replace_fresh (specs_of fs) (siblings fs) d0 d2) as Fr. fold d1 in Fr. fold names0 in Fr.
    specialize (Fr (fun n k x Hx => match Hx with ex_intro _ c (conj Gc Hc) => Q1 n c k x Gc Hc end) E2).
    (* user names of one spec-less function stand at one position *)
    assert (UU : forall f0 n k k' x, In f0 fs -> fspec f0 = None -> In n (fouts f0) ->
                 dnamed d1 n k x -> dnamed d1 n k' x -> k = k').
    { intros f0 n k k' x Hf0 Hs0 Hn H1 H2.
      assert (Use : forall q, dnamed d1 n q x -> In (q, x) (flat_map positions (uses_of fs f0))).
      { intros q Hq. destruct (P1 n q x Hq) as [o [Ho [c0 [G0 Hc0]]]].
        destruct (I2 o c0 q x G0 Hc0) as [a [Ha [Na Hxa]]].
        assert (Hof : In o (fouts f0)).
        { destruct Ho as [->|Ho]; [exact Hn|]. destruct (siblings_in fs n o Ho) as [f1 [Hf1 [Hn1 [Ho1 _]]]].
          now rewrite <- (fm_NoDup_inj fouts fs ND f1 f0 n Hf1 Hf0 Hn1 Hn). }
        apply in_flat_map. exists a. split; [|now apply in_positions].
        unfold uses_of. apply filter_In. split; [exact Ha|]. apply mem_str_In. now rewrite Na. }
      unfold distinct_axes in DA. rewrite forallb_forall in DA. specialize (DA f0 Hf0). rewrite Hs0 in DA.
      unfold names_one_position in DA. cbv zeta in DA. rewrite forallb_forall in DA.
      specialize (DA (k, x) (Use k H1)). rewrite forallb_forall in DA. specialize (DA (k', x) (Use k' H2)).
      cbn [fst snd] in DA. rewrite str_eqb_refl in DA. cbn [negb orb] in DA. now apply Nat.eqb_eq. }
    assert (Dist : forall f0 n ax, In f0 fs -> fspec f0 = None -> In n (fouts f0) -> In (n, ax) d2 ->
                   forall k k' x, named ax k x -> named ax k' x -> k = k').
    { intros f0 n ax Hf0 Hs0 Hn Hin k k' x H1 H2.
      pose proof (dget_of_In _ _ _ ND2 Hin) as Gn.
      assert (D1 : dnamed d2 n k x) by (exists ax; auto). assert (D2 : dnamed d2 n k' x) by (exists ax; auto).
      destruct (Fr n k x D1) as [L1|[_ One]]; [|symmetry; exact (One n k' D2)].
      destruct (Fr n k' x D2) as [L2|[_ One]]; [|exact (One n k D1)].
      exact (UU f0 n k k' x Hf0 Hs0 Hn L1 L2). }
    (* the generated spec *)
    apply AutoGenFacts.create_missing_rel in Hcm.
    destruct (Forall2_map_combine _ fs st2 f e Hcm Hpair) as [b Hrel].
    unfold AutoGenFacts.cm_rel in Hrel. cbn [fst] in Hrel. rewrite Hs in Hrel.
    destruct Hrel as [[_ Heq]|[kv [m [Hin [Hm [Hg Heq]]]]]]; injection Heq as -> _; [congruence|].
    cbn [set_spec fspec] in He. injection He as <-.
    unfold generated_spec in Hg. apply build_accepts_iff_wf in Hg as [_ ->].
    apply mem_str_In in Hm. unfold output_indices. cbn [outs]. rewrite raw_of_gen.
    destruct (fouts f) as [|o os] eqn:Eo; [destruct Hm|]. cbn [gen_outs map indices axes].
    apply somes_NoDup. apply (Dist f (fst kv) (snd kv)); [|exact Hs|rewrite Eo; exact Hm|destruct kv; exact Hin].
    apply (in_combine_l _ _ _ _ Hpair).
  Qed.
End Gen.

Theorem generated_axes_distinct : forall user eff,
  construct user = Ok eff -> completable user = true -> distinct_axes user = true ->
  forall f e g, In (f, e) (combine user eff) -> fspec f = None -> fspec e = Some g -> NoDup (output_indices g).
Proof.
  intros user eff Hc Hcomp DA f e g Hpair Hs He.
  destruct (construct_effective user Hcomp) as [eff' [Hc' He']]. rewrite Hc in Hc'. injection Hc' as <-.
  pose proof (completable_facts user Hcomp) as CF.
  unfold effective in He'. fold (all_false user) in He'.
  destruct (validate_mapspec (all_false user)) as [st|e0] eqn:V; cbn [bind] in He'; [|discriminate].
  injection He' as <-.
  rewrite validate_mapspec_unfold, map_fst_all_false, (outputs_match_user user CF), reset_all_false in V.
  cbn [bind] in V. unfold post_reset in V.
  destruct (Validate.validate_consistent_axes (specs_of (map fst (all_false user)))) as [[]|e0]; cbn [bind] in V;
    [|discriminate].
  destruct (autogen (all_false user)) as [st2|e0] eqn:A; cbn [bind] in V; [|discriminate].
  assert (Est : st = st2).
  { destruct (existsb snd st2); [|now injection V].
    destruct (Validate.validate_consistent_axes (specs_of (map fst st2))) as [[]|e0]; cbn [bind] in V;
      [now injection V|discriminate]. }
  subst st. exact (autogen_distinct user CF DA st2 A f e g Hpair Hs He).
Qed.

(* ================================================================== F3. func_ok / request_ok carry over *)
Lemma construct_pairs user eff :
  construct user = Ok eff ->
  Forall2 (fun f e => fouts e = fouts f /\ fparams e = fparams f
                      /\ (e = f \/ (fspec f = None /\ exists g, fspec e = Some g /\ generated_ok f g = true))) user eff.
Proof.
  intros Hc. destruct (AutoGenFacts.construct_readable user eff Hc) as [_ [S _]].
  revert S. apply AutoGenFacts.Forall2_impl'. intros f e [Hset [Hsome Hnone]].
  split; [rewrite Hset; reflexivity|]. split; [rewrite Hset; reflexivity|].
  destruct (fspec f) as [m|] eqn:Es; [left; exact (Hsome m eq_refl)|].
  specialize (Hnone eq_refl). destruct (existsb (consumed user) (fouts f)); [|now left].
  right. split; [reflexivity|exact Hnone].
Qed.

Theorem construct_func_ok : forall user eff,
  completable user = true -> distinct_axes user = true -> construct user = Ok eff ->
  forallb func_ok user = true -> forallb func_ok eff = true.
Proof.
  intros user eff Hcomp DA Hc Hok. apply forallb_forall. intros e He.
  destruct (Forall2_In_r_combine _ _ _ _ (construct_pairs user eff Hc) He) as [f [Hpair [Eo [Ep Hcase]]]].
  rewrite forallb_forall in Hok. pose proof (Hok f (in_combine_l _ _ _ _ Hpair)) as Hf.
  destruct Hcase as [->|[Hs [g [Hg Hgen]]]]; [exact Hf|].
  pose proof (generated_axes_distinct user eff Hc Hcomp DA f e g Hpair Hs Hg) as Hnd.
  destruct (AutoGenFacts.generated_ok_meaning f g Hgen) as [Hi [Hw [Hn _]]].
  unfold func_ok in *. rewrite Hs in Hf. rewrite Eo, Ep, Hg, Hi, Hw, Hn, str_list_eqb_refl.
  rewrite andb_true_r in Hf. rewrite Hf. cbn [forallb map nodup_str andb].
  rewrite andb_true_r. now apply nodup_str_NoDup.
Qed.

Theorem construct_request_ok : forall user eff inputs,
  completable user = true -> distinct_axes user = true -> construct user = Ok eff ->
  request_ok user inputs = true -> request_ok eff inputs = true.
Proof.
  intros user eff inputs Hcomp DA Hc H. unfold request_ok in *.
  apply andb_true_iff in H as [H H3]. apply andb_true_iff in H as [H1 H2].
  rewrite (construct_func_ok user eff Hcomp DA Hc H1), H3.
  assert (E : flat_map fouts eff = flat_map fouts user).
  { pose proof (construct_pairs user eff Hc) as S. clear -S.
    induction S as [|f e l r [Eo _] _ IH]; [reflexivity|]. cbn [flat_map]. now rewrite Eo, IH. }
  rewrite E, H2. reflexivity.
Qed.

Print Assumptions unnamed_inj.
Print Assumptions fresh_not_in.
Print Assumptions generated_axes_distinct.
Print Assumptions construct_func_ok.
Print Assumptions construct_request_ok.
