(* C01, capstone: the model's observation always satisfies the executable statement `spec_ok` that the
   correspondence harness applies to the implementation's observations (Corr/Run_C01.v). *)
From Verif Require Import Corr.Run_C01 Proofs.StrFacts Proofs.MapRunFacts.

Lemma sx_eqb_refl : forall x, sx_eqb x x = true.
Proof.
  fix IH 1. intros [z|t|l]; cbn [sx_eqb].
  - apply Z.eqb_refl.
  - apply str_eqb_refl.
  - induction l as [|a l IHl]; [reflexivity|]. rewrite (IH a). cbn [andb]. exact IHl.
Qed.

Lemma out_obs_eq (ro : list (str * val * val)) (dout : list (str * val)) :
  map (fun x => (fst (fst x), snd (fst x))) ro = dout ->
  map (fun x => (fst (fst x), snd x)) ro = dout ->
  map (fun x => SL [SS (fst (fst x)); sx_val (snd (fst x)); sx_val (snd x)]) ro
  = map (fun x => SL [SS (fst x); sx_val (snd x); sx_val (snd x)]) dout.
Proof.
  intros <- H2. rewrite map_map. cbn [fst snd]. apply map_ext_in. intros [[n a] b] Hin.
  pose proof (proj1 map_ext_in_iff H2 _ Hin) as E. cbn [fst snd] in E |- *. injection E as ->. reflexivity.
Qed.

Theorem model_meets_spec : forall c, spec_ok c (run c) = true.
Proof.
  intros c. unfold spec_ok. destruct (request_ok (c_funcs c) (c_inputs c)) eqn:Hreq; cbn [negb]; [|reflexivity].
  unfold expected. destruct (denote_run sym_body (c_funcs c) (c_inputs c) (c_internal c)) as [d|e] eqn:Hd;
    cbn [bind]; [|reflexivity].
  destruct (map_run_denotes sym_body sym_body_arity (c_internal c) _ _ _ Hreq Hd) as [st [Hr [H1 H2]]].
  unfold run. rewrite Hr. unfold SN. rewrite str_eqb_refl. cbn [andb].
  rewrite (out_obs_eq _ _ H1 H2). apply sx_eqb_refl.
Qed.
