(* Concrete instances showing that the hypotheses of the C01 theorems are satisfiable by non-trivial requests. *)
From Verif Require Import Base.Prelude Base.StrUtil Base.Index Base.NdArr Model.MapSpec Model.MapSpecSpec
  Model.MapRun Model.MapDenote Model.SymBody
  Proofs.IndexFacts Proofs.StrFacts Proofs.MapSpecFacts Proofs.ListFacts Proofs.PlaceFacts Proofs.SelectFacts
  Proofs.MapRunFacts.

Definition ex_mkf n o p sp ish ret : mfunc :=
  {| fname := s n; fouts := o; fparams := p; fbound := []; fdefaults := []; fspec := sp; fint := ish; fret := ret |}.

(* f1 : x[i] -> y[j, i]      the internal axis j (size 2) comes BEFORE the mapped axis i
   f2 : y[:, i], w[k] -> z[i, k]   reduction over ':' (the internal axis of y), outer product with w *)
Definition ex_ms1 : mapspec :=
  {| ins := [{| aname := s "x"; axes := [Some (s "i")] |}];
     outs := [{| aname := s "y"; axes := [Some (s "j"); Some (s "i")] |}] |}.
Definition ex_ms2 : mapspec :=
  {| ins := [{| aname := s "y"; axes := [None; Some (s "i")] |}; {| aname := s "w"; axes := [Some (s "k")] |}];
     outs := [{| aname := s "z"; axes := [Some (s "i"); Some (s "k")] |}] |}.
Definition ex_f1 := ex_mkf "f1" [s "y"] [s "x"] (Some ex_ms1) [2] [2].
Definition ex_f2 := ex_mkf "f2" [s "z"] [s "y"; s "w"] (Some ex_ms2) [] [].
Definition ex_inputs : env :=
  [(s "x", VA {| shp := [3]; dat := [s "a"; s "b"; s "c"] |}); (s "w", VA {| shp := [2]; dat := [s "u"; s "v"] |})].
Definition ex_p := [ex_f1; ex_f2].

Lemma ex_request_hyps :
  request_ok ex_p ex_inputs = true /\ is_ok (denote_run sym_body ex_p ex_inputs []) = true
  /\ option_map (fun d => map (fun x => (fst x, val_shape (snd x))) (d_out d))
                (match denote_run sym_body ex_p ex_inputs [] with Ok d => Some d | Err _ => None end)
     = Some [(s "y", Ok [2; 3]); (s "z", Ok [3; 2])].
Proof. vm_compute. repeat split; reflexivity. Qed.

(* hypotheses of run_mapped_denotes for f1 (mask [false; true]) *)
Definition ex_kw1 : env := [(s "x", VA {| shp := [3]; dat := [s "a"; s "b"; s "c"] |})].
Lemma ex_mapped_hyps :
  wf_decl ex_ms1 = true /\ NoDup (map aname (ins ex_ms1)) /\ NoDup (output_indices ex_ms1)
  /\ 0 < length (fouts ex_f1) /\ length [false; true] = length [2; 3]
  /\ length (ext_of [false; true] [2; 3]) = length (external_indices ex_ms1)
  /\ forallb (fun d => 0 <? d) [2; 3] = true
  /\ shape ex_ms1 [(s "x", [3])] [(s "y", [2])] = Ok ([2; 3], [false; true])
  /\ is_ok (denote_mapped sym_body ex_f1 ex_ms1 ex_kw1 [2; 3] [false; true]) = true.
Proof.
  split; [vm_compute; reflexivity|]. split; [apply nodup_str_NoDup; vm_compute; reflexivity|].
  split; [apply nodup_str_NoDup; vm_compute; reflexivity|]. split; [cbn; lia|].
  repeat split; vm_compute; reflexivity.
Qed.

(* hypotheses of place_all / sto_all: rank 3, internal axes around a mapped axis *)
Definition ex_V (i : nat) : val :=
  VA (nd_of_fun [2; 2] (fun jj => s "v" ++ dec i ++ s ":" ++ join (s ",") (map dec jj))).
Lemma ex_place_hyps :
  length [false; true; false] = length [2; 3; 2]
  /\ (forall i, i < prod (ext_of [false; true; false] [2; 3; 2]) ->
      val_ok [false; true; false] (int_of [false; true; false] [2; 3; 2]) (ex_V i)).
Proof.
  split; [reflexivity|]. intros i _. unfold val_ok. cbn [forallb id andb].
  exists (nd_of_fun [2; 2] (fun jj => s "v" ++ dec i ++ s ":" ++ join (s ",") (map dec jj))).
  repeat split.
Qed.

(* hypotheses of select_kwargs_arg_at for f2 *)
Lemma ex_select_hyps :
  wf_decl ex_ms2 = true /\ NoDup (map aname (ins ex_ms2)) /\ NoDup (output_indices ex_ms2)
  /\ length [3; 2] = length (external_indices ex_ms2) /\ forallb (fun d => 0 <? d) [3; 2] = true.
Proof.
  split; [vm_compute; reflexivity|]. split; [apply nodup_str_NoDup; vm_compute; reflexivity|].
  split; [apply nodup_str_NoDup; vm_compute; reflexivity|]. split; vm_compute; reflexivity.
Qed.
