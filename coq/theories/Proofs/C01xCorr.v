(* C01, capstone for the extended case type (Corr/Run_C01x.v): the model's observation always satisfies the
   executable statement that the harness applies to the implementation - for user-level lists (CAuto) this includes
   "the MapSpecs of the constructed pipeline are an admissible completion" (Proofs/AutoGenFacts.v). *)
From Verif Require Import Corr.Run_C01x Proofs.StrFacts Proofs.MapRunFacts Proofs.C01Corr Proofs.AutoGenFacts.
From Verif Require Proofs.AutoGenComplete.

Lemma un_list_map {A} (f : sx -> option A) (g : A -> sx) l :
  (forall x, f (g x) = Some x) -> un_list f (map g l) = Some l.
Proof. intros H. induction l as [|x l IH]; cbn [map un_list]; [reflexivity|]. now rewrite H, IH. Qed.

Lemma un_axis_sx a : un_axis (sx_axis a) = Some a.
Proof. destruct a; reflexivity. Qed.

Lemma un_aspec_sx a : un_aspec (sx_aspec a) = Some a.
Proof. destruct a as [n ax]. cbn [sx_aspec un_aspec aname axes]. now rewrite (un_list_map un_axis sx_axis ax un_axis_sx). Qed.

Lemma un_spec_sx sp : un_spec (sx_spec sp) = Some sp.
Proof.
  destruct sp as [[i o]|]; [|reflexivity]. cbn [sx_spec un_spec ins outs].
  now rewrite !(un_list_map un_aspec sx_aspec _ un_aspec_sx).
Qed.

Lemma set_specs_same user eff :
  Forall2 (fun f e => same_but_spec f e) user eff -> set_specs user (map fspec eff) = eff.
Proof.
  induction 1 as [|f e user eff H _ IH]; [reflexivity|]. cbn [map set_specs]. rewrite IH. f_equal. symmetry. exact H.
Qed.

Lemma prepare_err_not_conforming fs inputs aslist e :
  prepare_checks fs inputs aslist = Err e -> conforming fs inputs aslist = false.
Proof.
  unfold prepare_checks, validate_complete_inputs, check_inputs, conforming, subset_str. cbv zeta.
  destruct (forallb (fun x => mem_str x (map fst inputs ++ pipeline_defaults fs)) (root_args fs)); [|reflexivity].
  destruct (forallb (fun x => mem_str x (root_args fs)) (map fst inputs ++ pipeline_defaults fs)); [|reflexivity].
  cbn [negb bind andb].
  destruct (existsb _ inputs) eqn:Ex; [|discriminate]. intros _.
  apply existsb_exists in Ex as [kv [Hin Hkv]]. apply andb_true_iff in Hkv as [Hd Hl].
  match goal with |- ?F = false => destruct F eqn:EF end; [|reflexivity]. exfalso.
  rewrite forallb_forall in EF. specialize (EF kv Hin). rewrite Hl in EF. cbn [negb orb] in EF.
  unfold mapspec_dim in Hd.
  destruct (find _ _) as [a|] eqn:Ef; [|discriminate].
  apply find_some in Ef as [Ha Hn]. apply in_rev in Ha. rewrite forallb_forall in EF. specialize (EF a Ha).
  rewrite Hn in EF. cbn [negb orb] in EF. apply Nat.ltb_lt in Hd. apply Nat.leb_le in EF. lia.
Qed.

(* the capstone of C01Corr for an arbitrary oracle that returns one value per output name *)
Lemma model_meets_spec_b body (Harity : body_arity body) c : spec_ok_b body c (run_b body c) = true.
Proof.
  unfold spec_ok_b. destruct (request_ok (c_funcs c) (c_inputs c)) eqn:Hreq; cbn [negb]; [|reflexivity].
  unfold expected_b. destruct (denote_run body (c_funcs c) (c_inputs c) (c_internal c)) as [d|e] eqn:Hd;
    cbn [bind]; [|reflexivity].
  destruct (map_run_denotes body Harity (c_internal c) _ _ _ Hreq Hd) as [st [Hr [H1 H2]]].
  unfold run_b. rewrite Hr. unfold SN. rewrite str_eqb_refl. cbn [andb].
  rewrite (out_obs_eq _ _ H1 H2). apply sx_eqb_refl.
Qed.

Lemma sym_body_w_arity wf wouts : body_arity (sym_body_w wf wouts).
Proof.
  intros f kw outs H. unfold sym_body_w in H.
  destruct (fouts f) as [|o [|o' os]]; injection H as <-; cbn [length map]; rewrite ?map_length; reflexivity.
Qed.

Theorem model_meets_spec_x : forall c, Run_C01x.spec_ok c (Run_C01x.run c) = true.
Proof.
  intros [c|c order aslist wrapped]; [apply model_meets_spec|].
  cbn [Run_C01x.run Run_C01x.spec_ok].
  destruct (construct (permuted (c_funcs c) order)) as [effp|e] eqn:Ec.
  - destruct (construct_facts _ _ Ec) as [Hlen [S _]].
    pose proof (construct_completion _ _ Ec) as Hcomp.
    assert (U : un_list un_spec (map (fun f => sx_spec (fspec f)) effp) = Some (map fspec effp)).
    { rewrite <- (map_map fspec sx_spec). apply (un_list_map un_spec sx_spec _ un_spec_sx). }
    assert (R : set_specs (permuted (c_funcs c) order) (map fspec effp) = effp).
    { apply set_specs_same. revert S. apply Forall2_impl'. now intros f e0 [H _]. }
    pose proof (model_meets_spec_b (body_of c wrapped) (sym_body_w_arity _ _) (mkreq c (reorder (c_funcs c) effp))) as M.
    cbv zeta.
    destruct (prepare_checks (reorder (c_funcs c) effp) (c_inputs c) aslist) as [[]|e] eqn:Ep.
    + unfold run_b in *.
      destruct (map_run (body_of c wrapped) (c_funcs (mkreq c (reorder (c_funcs c) effp))) (c_inputs (mkreq c (reorder (c_funcs c) effp)))
                  (c_internal (mkreq c (reorder (c_funcs c) effp)))) as [st|e].
      * rewrite U, map_length, Hlen, Nat.eqb_refl, Hcomp, R, str_eqb_refl. cbn [andb]. rewrite M. now destruct (conforming _ _ _).
      * unfold SErr in *. rewrite U, map_length, Hlen, Nat.eqb_refl, Hcomp, R, str_eqb_refl. cbn [andb]. rewrite M.
        now destruct (conforming _ _ _).
    + unfold SErr. rewrite U, map_length, Hlen, Nat.eqb_refl, Hcomp, R, str_eqb_refl. cbn [andb].
      cbn [mkreq c_funcs c_inputs]. now rewrite (prepare_err_not_conforming _ _ _ _ Ep).
  - unfold SErr. rewrite str_eqb_refl. cbn [andb]. unfold constructible.
    destruct (completable (permuted (c_funcs c) order)) eqn:Hc; [|reflexivity]. exfalso.
    destruct (AutoGenComplete.construct_never_refuses _ Hc) as [eff He]. congruence.
Qed.
