(* C01, user-level end to end: a completable user-level list with distinct axes that is a valid request as written
   (func_ok for the functions that carry a MapSpec, unique names, well-formed inputs) is constructed, the constructed
   (effective) list is a valid request, and its run computes the denotation. *)
From Verif Require Import Base.Prelude Base.StrUtil Base.Index Base.NdArr Model.MapSpec Model.MapSpecSpec Model.MapRun
  Model.MapDenote Model.AutoGen Model.AutoGenSpec Model.AutoGenNames Proofs.MapRunFacts.
From Verif Require Proofs.AutoGenComplete Proofs.AutoGenFresh.

Theorem user_level_end_to_end body (Harity : body_arity body) user inputs internal :
  completable user = true -> distinct_axes user = true -> request_ok user inputs = true ->
  exists eff,
    construct user = Ok eff /\ request_ok eff inputs = true
    /\ forall d, denote_run body eff inputs internal = Ok d ->
       exists st, map_run body eff inputs internal = Ok st
                  /\ map (fun x => (fst (fst x), snd (fst x))) (r_out st) = d_out d
                  /\ map (fun x => (fst (fst x), snd x)) (r_out st) = d_out d.
Proof.
  intros Hc Hd Hr. destruct (AutoGenComplete.construct_never_refuses user Hc) as [eff He]. exists eff.
  pose proof (AutoGenFresh.construct_request_ok user eff inputs Hc Hd He Hr) as Hre.
  split; [exact He|]. split; [exact Hre|]. intros d Hden. now apply map_run_denotes.
Qed.
