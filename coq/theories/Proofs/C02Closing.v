(* C02 closing corollary: every argument combination of an output, filled with the root values of a reference
   call and with the intermediates that call computes, returns the value of the reference call. *)
From Verif Require Import Base.Prelude Base.StrOrd Base.Graph Model.Pipe
                          Proofs.GraphFacts Proofs.PipeFacts Proofs.ArgCombFacts.

Lemma aget_app_str (a b : alist) k : aget (a ++ b) k = match aget a k with Some v => Some v | None => aget b k end.
Proof. induction a as [|[k' v] a IH]; cbn; [reflexivity|]. destruct (str_eqb k k'); [reflexivity|exact IH]. Qed.

Section Fill.
  Variable G : str -> option str.
  Definition fill (l : list str) : alist :=
    flat_map (fun k => match G k with Some x => [(k, x)] | None => [] end) l.

  Lemma aget_fill : forall l k, aget (fill l) k = if mem_str k l then G k else None.
  Proof.
    induction l as [|a l IH]; intros k; [reflexivity|]. cbn [fill flat_map mem_str]. fold (fill l).
    destruct (G a) as [x|] eqn:Ea; cbn [app aget].
    - destruct (str_eqb k a) eqn:E; cbn [orb]; [|apply IH]. apply str_eqb_eq in E. subst k. now rewrite Ea.
    - rewrite IH. destruct (str_eqb k a) eqn:E; cbn [orb]; [|reflexivity]. apply str_eqb_eq in E. subst k.
      rewrite Ea. now destruct (mem_str a l).
  Qed.

  Lemma fill_keys l k : In k (akeys (fill l)) -> In k l.
  Proof.
    induction l as [|a l IH]; cbn; [auto|]. unfold akeys. rewrite map_app, in_app_iff. intros [H|H].
    - destruct (G a); cbn in H; [|contradiction]. destruct H as [<-|[]]. now left.
    - right. now apply IH.
  Qed.

  Lemma fill_NoDup l : NoDup l -> NoDup (akeys (fill l)).
  Proof.
    induction l as [|a l IH]; intros Hnd; cbn; [constructor|]. inversion Hnd; subst. unfold akeys. rewrite map_app.
    destruct (G a); cbn; [|now apply IH]. constructor; [|now apply IH]. intros H. now apply fill_keys in H.
  Qed.

  Lemma fill_In l k x : In (k, x) (fill l) -> G k = Some x.
  Proof.
    induction l as [|a l IH]; cbn; [contradiction|]. rewrite in_app_iff. intros [H|H]; [|now apply IH].
    destruct (G a) eqn:E; cbn in H; [|contradiction]. destruct H as [H|[]]. inversion H; subst. assumption.
  Qed.
End Fill.

Section Closing.
  Variable body : str -> alist -> result str.
  Variable pick : str -> str -> str.
  Variable p : pipeline.
  Hypothesis Hwf : wf_pipeline p.
  Variable kw0 : alist.

  (* adding computed values of names that kw0 does not supply changes no value *)
  Lemma extend_computed : forall L, NoDup (akeys L) ->
    (forall a va, In (a, va) L -> eval_top body pick p kw0 a = Ok va) ->
    (forall a, In a (akeys L) -> aget kw0 a = None) ->
    forall x, eval_top body pick p (L ++ kw0) x = eval_top body pick p kw0 x.
  Proof.
    induction L as [|[a va] L IH]; intros Hnd Hv Hn x; [reflexivity|]. cbn [app]. cbn in Hnd. inversion Hnd; subst.
    assert (IH' : forall x, eval_top body pick p (L ++ kw0) x = eval_top body pick p kw0 x).
    { apply IH; [assumption| |]; intros; [apply Hv|apply Hn]; now right. }
    rewrite <- IH'. apply (supplied_computed_consistent body pick p (L ++ kw0) a va x Hwf).
    - rewrite aget_app_str. assert (E : aget L a = None) by now apply aget_None_iff. rewrite E. apply Hn. now left.
    - rewrite IH'. apply Hv. now left.
  Qed.

  (* the reference call kw0 supplies root arguments only; the combination call kw supplies, for the names of the
     combination c, the root values of kw0 and - for intermediate names - the values the reference call computes *)
  Theorem arg_combination_returns_reference_value o cs c kw v :
    is_output p o = true -> arg_combinations p o = Ok cs -> In c cs ->
    (forall k, In k (akeys kw0) -> is_output p k = false) ->
    eval_top body pick p kw0 o = Ok v ->
    (forall k, In k (akeys kw) <-> In k c) ->
    (forall k x, aget kw k = Some x ->
                 if is_output p k then eval_top body pick p kw0 k = Ok x else aget kw0 k = Some x) ->
    eval_top body pick p kw o = Ok v /\ fst (run body pick p o kw false) = Ok (Value v).
  Proof.
    intros Ho Hcs Hc Hroot0 Hv Hk Hvals.
    set (G := fun k => if is_output p k then aget kw k else None).
    set (L := fill G (dedup (akeys kw))).
    assert (HL : forall k, aget L k = G k).
    { intros k. unfold L. rewrite aget_fill. destruct (mem_str k (dedup (akeys kw))) eqn:E; [reflexivity|].
      unfold G. destruct (is_output p k); [|reflexivity]. symmetry. apply aget_None_iff. intros H.
      apply dedup_In in H. apply mem_str_In in H. congruence. }
    assert (Hext : forall x, eval_top body pick p (L ++ kw0) x = eval_top body pick p kw0 x).
    { apply extend_computed.
      - apply fill_NoDup, dedup_NoDup.
      - intros a va Hin. apply fill_In in Hin. unfold G in Hin. destruct (is_output p a) eqn:Ea; [|discriminate].
        specialize (Hvals a va Hin). now rewrite Ea in Hvals.
      - intros a Ha. apply aget_None_iff. intros H. apply Hroot0 in H.
        assert (Hs : aget L a <> None).
        { intros E. apply aget_None_iff in E. contradiction. }
        rewrite HL in Hs. unfold G in Hs. now rewrite H in Hs. }
    assert (E : eval_top body pick p (L ++ kw0) o = eval_top body pick p kw o).
    { apply (unread_keywords_irrelevant body pick p kw (L ++ kw0) o Hwf). intros f cur Hf Hcur Hb.
      rewrite aget_app_str, HL. unfold G. destruct (is_output p cur) eqn:Eo.
      - destruct (aget kw cur) eqn:Ek; [reflexivity|]. symmetry. apply aget_None_iff. intros H. apply Hroot0 in H. congruence.
      - pose proof (arg_combinations_roots_supplied p o cs c kw Hwf Ho Hcs Hc Hk f cur Hf Hcur Hb Eo) as Hin.
        destruct (aget kw cur) as [x|] eqn:Ek; [|apply aget_None_iff in Ek; contradiction].
        specialize (Hvals cur x Ek). rewrite Eo in Hvals. now rewrite Hvals. }
    assert (Hval : eval_top body pick p kw o = Ok v) by now rewrite <- E, Hext.
    split; [assumption|].
    destruct (arg_combinations_accepted body pick p o cs c kw Hwf Ho Hcs Hc Hk) as [_ [_ [_ Hr]]].
    rewrite Hr, Hval. reflexivity.
  Qed.
End Closing.
