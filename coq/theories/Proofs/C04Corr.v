(* C04, capstone: for every valid request the model's observation (Corr/Run_C04.run) satisfies the executable
   statement spec_ok that the correspondence harness applies to the implementation's observations. *)
From Verif Require Import Base.Prelude Base.StrUtil Base.Index Base.NdArr Model.MapSpec Model.MapSpecSpec Model.MapRun
  Model.MapDenote Model.SymBody Model.RunInfoCodec Model.FSStore Corr.Run_C04 Corr.Valid_C04
  Proofs.StrFacts Proofs.IndexFacts Proofs.MapSpecFacts Proofs.MapSpecParse Proofs.ListFacts Proofs.PlaceFacts
  Proofs.SelectFacts Proofs.MapRunFacts Proofs.RunInfoFacts Proofs.FSStoreFacts Proofs.ReloadFacts Proofs.ConsistentFacts
  Proofs.FinishFacts Proofs.SequenceFacts.

(* ---------- reflexivity of the executable equalities ---------- *)
Lemma sx_eqb_refl : forall x, sx_eqb x x = true.
Proof.
  fix IH 1. intros [z|t|l]; cbn [sx_eqb].
  - apply Z.eqb_refl.
  - apply str_eqb_refl.
  - induction l as [|a l IHl]; [reflexivity|]. rewrite (IH a). cbn [andb]. exact IHl.
Qed.

Lemma json_eqb_refl : forall j, json_eqb j j = true.
Proof.
  fix IH 1. intros [| b | z | x | l | kv]; cbn [json_eqb].
  - reflexivity.
  - destruct b; reflexivity.
  - apply Z.eqb_refl.
  - apply str_eqb_refl.
  - induction l as [|a l IHl]; [reflexivity|]. rewrite (IH a). cbn [andb]. exact IHl.
  - induction kv as [|[k a] kv IHl]; [reflexivity|]. rewrite str_eqb_refl, (IH a). cbn [andb]. exact IHl.
Qed.

Lemma content_eqb_refl x : content_eqb x x = true.
Proof.
  destruct x as [p|j|n|]; cbn [content_eqb].
  - rewrite sx_eqb_refl. destruct p; reflexivity.
  - apply json_eqb_refl.
  - apply Nat.eqb_refl.
  - reflexivity.
Qed.

Lemma files_eqb_refl fs : files_eqb fs fs = true.
Proof.
  unfold files_eqb. induction fs as [|[p x] fs IH]; [reflexivity|]. cbn [list_eqb fst snd].
  now rewrite path_eqb_refl, content_eqb_refl, IH.
Qed.

(* ---------- association lists of observations ---------- *)
Lemma sx_assoc_map_names (g : str -> sx) names o :
  sx_assoc (map (fun n => SL [SS n; g n]) names) o = if mem_str o names then Some (g o) else None.
Proof.
  induction names as [|n names IH]; [reflexivity|]. cbn [map sx_assoc mem_str].
  destruct (str_eqb o n) eqn:E; [apply str_eqb_eq in E; now subst|exact IH].
Qed.

Lemma sx_assoc_map_find {A} (h : A -> str) (g : A -> sx) (l : list A) o :
  sx_assoc (map (fun x => SL [SS (h x); g x]) l) o = option_map g (find (fun x => str_eqb (h x) o) l).
Proof.
  induction l as [|x l IH]; [reflexivity|]. cbn [map sx_assoc find]. rewrite (str_eqb_sym o (h x)).
  destruct (str_eqb (h x) o); [reflexivity|exact IH].
Qed.

Lemma find_unique {A} (h : A -> str) (l : list A) a :
  NoDup (map h l) -> In a l -> find (fun x => str_eqb (h x) (h a)) l = Some a.
Proof.
  induction l as [|x l IH]; intros Hnd Hin; [contradiction|]. cbn [map] in Hnd. inversion Hnd as [|? ? Hx Hl]; subst.
  cbn [find]. destruct Hin as [->|Hin].
  - now rewrite str_eqb_refl.
  - destruct (str_eqb (h x) (h a)) eqn:E; [|now apply IH].
    apply str_eqb_eq in E. exfalso. apply Hx. rewrite E. now apply in_map.
Qed.

(* ---------- one reload of the folder of a finished run ---------- *)
Definition reload_step (acc : list sx * option err * world) (o : str) : list sx * option err * world :=
  let '(l, fe, w0) := acc in
  match load_outputs version_name w0 o with
  | Ok (v, w') => (l ++ [SL [SS o; SL [SS (s "ok"); match v with Some p => sx_pyv p | None => SNone end]]], fe, w')
  | Err e => (l ++ [SL [SS o; SErr e]], match fe with Some e0 => Some e0 | None => Some e end, w0)
  end.

Lemma reload_unfold c w :
  reload c w =
  let '(outs, first_err, w1) := fold_left reload_step (output_names c) ([], None, w) in
  let '(info, w2) :=
    match runinfo_load version_name w1 with
    | Ok (li, w') => (SL [SS (s "ok"); SL [sx_run_info (li_info li); sx_inputs (li_inputs li); sx_defaults (li_defaults li)]], w')
    | Err e => (SErr e, w1)
    end in
  let xr :=
    match runinfo_load version_name w2, first_err with
    | Err e, _ => SErr e
    | Ok _, Some e => SErr e
    | Ok (li, _), None =>
        if str_eqb (c_xr c) (s "ok")
        then match xr_dims (li_info li) with
             | Ok d => SL [SS (s "ok"); d; xr_coords (c_xr_coords c) (li_inputs li)] | Err e => SErr e end
        else SL [SS (s "err"); SS (c_xr c)]
    end in
  (SL [SL outs; info; xr], w2).
Proof. reflexivity. Qed.

(* the observed value of output o *)
Definition loaded_obs (w : world) (o : str) : sx :=
  match load_outputs version_name w o with
  | Ok (Some p, _) => sx_pyv p
  | _ => SNone
  end.

Lemma fold_reload_step w : forall names l0 fe,
  (forall o, In o names -> exists v, load_outputs version_name w o = Ok (v, w)) ->
  fold_left reload_step names (l0, fe, w)
  = (l0 ++ map (fun o => SL [SS o; SL [SS (s "ok"); loaded_obs w o]]) names, fe, w).
Proof.
  induction names as [|o names IH]; intros l0 fe H; cbn [fold_left map]; [now rewrite app_nil_r|].
  destruct (H o (or_introl eq_refl)) as [v Hv]. unfold reload_step at 2. rewrite Hv.
  rewrite IH by (intros o' Ho'; apply H; now right). rewrite <- app_assoc. cbn [app].
  unfold loaded_obs. rewrite Hv. destruct v; reflexivity.
Qed.

(* ---------- what RunInfo.create recorded ---------- *)
Definition spec_list (funcs : list mfunc) : list mapspec :=
  flat_map (fun f => match fspec f with Some ms => [ms] | None => [] end) funcs.

Lemma finish_info c f : finish false c = Ok f ->
  ri_storage (f_info f) = normalize_storage (c_storage c)
  /\ ri_mapspecs (f_info f) = flat_map (fun f => match fspec f with Some ms => [print ms] | None => [] end) (c_funcs c)
  /\ ri_all_output_names (f_info f) = sort_set (flat_map fouts (c_funcs c))
  /\ exists st, map_run sym_body (c_funcs c) (c_inputs c) (c_internal c) = Ok st /\ f_state f = st.
Proof.
  unfold finish. intros H.
  destruct (map_run sym_body (c_funcs c) (c_inputs c) (c_internal c)) as [st|]; [|discriminate]. cbn [bind] in H.
  unfold create_run_info in H. destruct (create_shapes _ _ _) as [sm|]; [|discriminate]. cbn [bind] in H.
  destruct (outs_of_run _ _ _) as [outs|]; [|discriminate]. cbn [bind] in H.
  destruct (world_of _ _ _ _ _ _ _) as [w|]; [|discriminate]. cbn [bind] in H. injection H as <-.
  cbn [f_info f_state ri_storage ri_mapspecs ri_all_output_names]. repeat split; eauto.
Qed.

Lemma mapM_parse_prints funcs :
  (forall g ms, In g funcs -> fspec g = Some ms -> wf_decl ms = true /\ printable ms = true) ->
  mapM parse (flat_map (fun f => match fspec f with Some ms => [print ms] | None => [] end) funcs) = Ok (spec_list funcs).
Proof.
  induction funcs as [|g funcs IH]; intros H; [reflexivity|]. cbn [flat_map spec_list].
  assert (IH' : mapM parse (flat_map (fun f => match fspec f with Some ms => [print ms] | None => [] end) funcs) = Ok (spec_list funcs)).
  { apply IH. intros g' ms' Hg'. apply H. now right. }
  destruct (fspec g) as [ms|] eqn:Hms; cbn [app]; [|exact IH'].
  destruct (H g ms (or_introl eq_refl) Hms) as [Hwf Hp]. cbn [mapM]. rewrite (parse_print ms Hwf Hp). cbn [bind].
  unfold spec_list in IH'. rewrite IH'. reflexivity.
Qed.

Lemma spec_list_out_names funcs :
  (forall g ms, In g funcs -> fspec g = Some ms -> map aname (outs ms) = fouts g) ->
  NoDup (flat_map fouts funcs) -> NoDup (map aname (flat_map outs (spec_list funcs))).
Proof.
  induction funcs as [|g funcs IH]; intros H Hnd; [constructor|]. cbn [flat_map spec_list] in *.
  assert (IH' : NoDup (map aname (flat_map outs (spec_list funcs)))).
  { apply IH; [intros g' ms' Hg'; apply H; now right|now apply NoDup_app_right in Hnd]. }
  assert (Hsub : forall n, In n (map aname (flat_map outs (spec_list funcs))) -> In n (flat_map fouts funcs)).
  { clear -H. intros n Hn. apply in_map_iff in Hn as [a [<- Ha]]. apply in_flat_map in Ha as [ms [Hms Ha]].
    unfold spec_list in Hms. apply in_flat_map in Hms as [g' [Hg' Hms]]. destruct (fspec g') as [ms'|] eqn:E; [|contradiction].
    destruct Hms as [<-|[]]. apply in_flat_map. exists g'. split; [exact Hg'|].
    rewrite <- (H g' ms' (or_intror Hg') E). now apply in_map. }
  destruct (fspec g) as [ms|] eqn:Hms; [|exact IH'].
  cbn [app flat_map]. rewrite map_app, (H g ms (or_introl eq_refl) Hms).
  clear -Hnd IH' Hsub. revert Hnd. induction (fouts g) as [|o os IHo]; intros Hnd; cbn [app] in *; [exact IH'|].
  inversion Hnd as [|? ? Ho Hos]; subst. constructor; [|now apply IHo].
  intros Hin. apply Ho. apply in_app_or in Hin as [Hin|Hin]; apply in_or_app; [now left|right; now apply Hsub].
Qed.

(* ================================================================================================= *)
Section Capstone.
  Variable c : case.
  Hypothesis Hvalid : valid_request c = true.
  Hypothesis Hstorage : storage_complete c = true.
  (* folder re-use: whatever ran before into the same folder (and succeeded), this run uses cleanup=True *)
  Variable w0 : world.
  Hypothesis Hprev : run_sequence false empty_world (map case_of_request (c_prev c)) = Ok w0.
  Hypothesis Hclean : c_cleanup c = true.

  Theorem model_meets_spec : spec_ok c (run c) = true.
  Proof.
    destruct (valid_parts c Hvalid) as [Hfok [Hnd [Hnames [Hprint [Hint Hstk]]]]].
    assert (Hnd1 : NoDup (flat_map fouts (c_funcs c))) by (now apply NoDup_app_left in Hnd).
    assert (Hreq : request_ok (c_funcs c) (c_inputs c) = true).
    { unfold valid_request in Hvalid. do 4 (apply andb_true_iff in Hvalid as [Hvalid _]). exact Hvalid. }
    unfold spec_ok. rewrite Hreq, Hstorage. cbn [andb negb].
    destruct (c_mut c) eqn:Hmut; try reflexivity. cbn [orb].
    destruct (denote_run sym_body (c_funcs c) (c_inputs c) (c_internal c)) as [d|] eqn:Hden; [|reflexivity].
    destruct (finish_succeeds c d Hvalid Hstorage Hden) as [f Hfin].
    pose proof (finished_consistent_holds c f Hfin Hvalid) as Hcons.
    destruct (finish_info c f Hfin) as [Hist [Hispecs [Hinames [st [Hrun Hst]]]]].
    destruct (map_run_denotes sym_body sym_body_arity (c_internal c) (c_funcs c) (c_inputs c) d Hreq Hden)
      as [st' [Hrun' [Hret Hsto]]].
    assert (st' = st) by congruence. subst st'.
    assert (Hroot0 : w_root w0 = root_name) by (exact (run_sequence_root false _ _ _ Hprev eq_refl)).
    pose proof (last_run_clean w0 c f Hclean Hroot0 Hfin) as Hlast.
    set (L := w_live w0 ++ w_live (f_world f)) in Hlast.
    (* the world the reloads start from *)
    set (live := if c_fresh c then [] else L).
    set (W := {| w_root := root_name; w_files := w_files (f_world f); w_live := live |}).
    assert (HW : mutate_world MNone (if c_fresh c then reopen (f_world (relive f L)) else f_world (relive f L)) = W).
    { unfold W, live. destruct (c_fresh c); reflexivity. }
    (* every output loads and leaves W as it is *)
    assert (Hany : forall o, In o (output_names c) -> exists v, load_outputs version_name W o = Ok (v, W)).
    { intros o Ho. apply in_flat_map in Ho as [fn [Hfn Ho]]. exact (reload_any c f Hfin Hcons live fn o Hfn Ho). }
    pose proof (runinfo_reload c f Hfin Hcons live) as Hri. cbv zeta in Hri. fold W in Hri.
    (* one reload *)
    set (inputs := map (fun kv : str * val => (fst kv, PVal (snd kv))) (c_inputs c)) in *.
    set (dflt := PEnv (pipeline_defaults (c_funcs c))) in *.
    set (louts := map (fun o => SL [SS o; SL [SS (s "ok"); loaded_obs W o]]) (output_names c)).
    set (info := SL [SS (s "ok"); SL [sx_run_info (f_info f); sx_inputs inputs; sx_defaults dflt]]).
    set (xr := if str_eqb (c_xr c) (s "ok")
               then match xr_dims (f_info f) with
                    | Ok dd => SL [SS (s "ok"); dd; xr_coords (c_xr_coords c) inputs] | Err e => SErr e end
               else SL [SS (s "err"); SS (c_xr c)]).
    assert (Hreload : reload c W = (SL [SL louts; info; xr], W)).
    { rewrite reload_unfold. rewrite (fold_reload_step W (output_names c) [] None Hany). cbn [app].
      rewrite Hri. cbv beta iota zeta. rewrite Hri. cbn [li_info li_inputs li_defaults]. reflexivity. }
    unfold run, run_with. rewrite Hprev, Hlast, Hmut. cbn [f_state f_info relive]. rewrite HW, Hreload, Hreload. rewrite files_eqb_refl, Hst.
    rewrite !sx_eqb_refl. cbn [str_eqb Ascii.eqb Bool.eqb andb s list_ascii_of_string].
    (* (1) what the run returned is the denotation *)
    assert (E1 : sx_eqb (SL (map (fun x : str * val * val => SL [SS (fst (fst x)); sx_val (snd (fst x))]) (r_out st)))
                        (SL (map (fun x : str * val => SL [SS (fst x); sx_val (snd x)]) (d_out d))) = true).
    { rewrite <- Hret, map_map. cbn [fst snd]. apply sx_eqb_refl. }
    rewrite E1. cbn [andb].
    (* (3) the recorded storage choice and MapSpec strings are the request's *)
    unfold sx_run_info at 1. cbv beta iota. rewrite Hist, Hispecs. rewrite !sx_eqb_refl. cbn [andb].
    (* (2)-(4) for the first load; the second load is "same"; (5) unchanged *)
    assert (Hload : load_ok c (map (fun x : str * val * val => SL [SS (fst (fst x)); sx_val (snd (fst x))]) (r_out st))
                      (sx_run_info (f_info f)) (sx_inputs inputs) (sx_defaults dflt) (SL [SL louts; info; xr]) = true).
    { unfold load_ok, info. rewrite !sx_eqb_refl. change (str_eqb (s "ok") (s "ok")) with true. cbn [andb].
      apply andb_true_iff. split; [rewrite !andb_true_r|].
      - apply forallb_forall. intros o Ho. unfold persisting_outputs in Ho. apply in_flat_map in Ho as [fn [Hfn Ho]].
        destruct (kind_persists c fn) eqn:Hk; [|contradiction].
        destruct (reload_eq_results c f Hfin Hcons live fn o Hfn Ho Hk) as [o' [ret [stored [Hfind Hld]]]].
        cbv zeta in Hld. fold W in Hld. rewrite Hst in Hfind.
        rewrite (sx_assoc_map_find (fun x : str * val * val => fst (fst x)) (fun x => sx_val (snd (fst x)))), Hfind.
        cbn [option_map fst snd]. unfold louts. rewrite sx_assoc_map_names.
        assert (Hmem : mem_str o (output_names c) = true) by (apply mem_str_In; apply in_flat_map; eauto).
        rewrite Hmem. unfold loaded_obs. rewrite Hld. change (str_eqb (s "ok") (s "ok")) with true. cbn [sx_pyv andb].
        (* stored = returned, by C01 *)
        apply find_some in Hfind as [Hxin _].
        assert (ret = stored).
        { assert (E : map (fun x : str * val * val => (fst (fst x), snd (fst x))) (r_out st)
                      = map (fun x : str * val * val => (fst (fst x), snd x)) (r_out st)) by congruence.
          pose proof (proj1 map_ext_in_iff E _ Hxin) as E'. cbn [fst snd] in E'. now injection E' as ->. }
        subst ret. apply sx_eqb_refl.
      - (* load_xarray_dataset *)
        unfold xr. destruct (str_eqb (c_xr c) (s "ok")) eqn:Exr; [|reflexivity].
        unfold xr_dims. rewrite Hispecs.
        rewrite (mapM_parse_prints (c_funcs c)).
        2:{ intros g ms Hg Hms. destruct (func_ok_parts g ms (Hfok g Hg) Hms) as [Hwf _]. split; [exact Hwf|eauto]. }
        cbn [bind]. change (str_eqb (s "ok") (s "ok")) with true. rewrite sx_eqb_refl. cbn [andb].
        apply forallb_forall. intros g Hg. destruct (fspec g) as [ms|] eqn:Hms; [|reflexivity].
        apply forallb_forall. intros a Ha.
        rewrite (sx_assoc_map_names (fun n => SL (map SS (match find (fun a0 => str_eqb (aname a0) n) (flat_map outs (spec_list (c_funcs c)))
                                                                  with Some a0 => indices a0 | None => [] end)))).
        destruct (func_ok_parts g ms (Hfok g Hg) Hms) as [_ Hon].
        assert (Hin_names : mem_str (aname a) (ri_all_output_names (f_info f)) = true).
        { rewrite Hinames. apply mem_str_In. apply sort_set_in. apply in_flat_map. exists g. split; [exact Hg|].
          rewrite <- Hon. now apply in_map. }
        rewrite Hin_names.
        rewrite (find_unique aname (flat_map outs (spec_list (c_funcs c))) a).
        + apply sx_eqb_refl.
        + apply spec_list_out_names; [|exact Hnd1]. intros g' ms' Hg' Hms'.
          now destruct (func_ok_parts g' ms' (Hfok g' Hg') Hms') as [_ H'].
        + apply in_flat_map. exists ms. split; [|exact Ha]. unfold spec_list. apply in_flat_map. exists g.
          split; [exact Hg|]. rewrite Hms. now left. }
    unfold inputs, dflt in *. rewrite Hload. reflexivity.
  Qed.
End Capstone.
