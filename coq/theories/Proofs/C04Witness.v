(* C04: concrete cases used as witnesses / non-vacuity examples (evaluated by vm_compute). *)
From Verif Require Import Base.Prelude Base.StrUtil Base.Index Base.NdArr Model.MapSpec Model.MapRun Model.SymBody
  Model.MapDenote Model.RunInfoCodec Model.FSStore Corr.Run_C04 Corr.Valid_C04.

(* x[i] -> y[i] with storage="shared_memory_dict", reloaded in a fresh interpreter *)
Definition shared_fresh_case : case :=
  {| c_funcs := [{| fname := (s "f"); fouts := [(s "y")]; fparams := [(s "x")]; fbound := []; fdefaults := [];
                    fspec := (Some {| ins := [{| aname := (s "x"); axes := [(Some (s "i"))] |}];
                                      outs := [{| aname := (s "y"); axes := [(Some (s "i"))] |}] |});
                    fint := []; fret := [] |}];
     c_inputs := [((s "x"), (VA {| shp := [2%nat]; dat := [(s "a"); (s "b")] |}))];
     c_internal := []; c_user_int := []; c_func_int := [];
     c_storage := (StUni (s "shared_memory_dict")); c_persist := true; c_fresh := true; c_xr := (s "ok"); c_mut := MNone; c_xr_coords := []; c_prev := []; c_cleanup := true |}.

(* what the real code BEFORE the repair (repo commit 2366f61, i.e. before 7bf0304) returned for this case, recorded through
   harness/props/c04.py: load_outputs("y") raises FileNotFoundError in the fresh interpreter
   (last component, added later to the observation layout: 0 earlier runs into the folder) *)
Definition shared_fresh_unrepaired_obs : sx :=
(SL [(SS (s "ok")); (SL [(SL [(SL [(SL [(SS (s "y")); (SL [(SS (s "arr")); (SL [(SI (2)%Z)]); (SL [(SS (s "f(x=a)")); (SS (s "f(x=b)"))])])])]); (SL [(SL [(SS (s "y"))]); (SL [(SL [(SS (s "x")); (SL [(SI (2)%Z)])]); (SL [(SS (s "y")); (SL [(SI (2)%Z)])])]); (SL [(SL [(SS (s "x")); (SL [(SL [(SS (s "bool")); (SI (1)%Z)])])]); (SL [(SS (s "y")); (SL [(SL [(SS (s "bool")); (SI (1)%Z)])])])]); (SL [(SS (s "none"))]); (SS (s "shared_memory_dict")); (SL [(SS (s "x[i] -> y[i]"))]); (SS (s "F")); (SS (s "V"))]); (SL [(SL [(SS (s "x")); (SL [(SS (s "arr")); (SL [(SI (2)%Z)]); (SL [(SS (s "a")); (SS (s "b"))])])])]); (SL [])]); (SL [(SS (s "defaults/defaults.cloudpickle")); (SS (s "inputs/x.cloudpickle")); (SS (s "outputs/y")); (SS (s "outputs/y/dict_array.cloudpickle")); (SS (s "run_info.json"))]); (SL [(SL [(SL [(SS (s "y")); (SL [(SS (s "err")); (SS (s "FileNotFoundError"))])])]); (SL [(SS (s "ok")); (SL [(SL [(SL [(SS (s "y"))]); (SL [(SL [(SS (s "x")); (SL [(SI (2)%Z)])]); (SL [(SS (s "y")); (SL [(SI (2)%Z)])])]); (SL [(SL [(SS (s "x")); (SL [(SL [(SS (s "bool")); (SI (1)%Z)])])]); (SL [(SS (s "y")); (SL [(SL [(SS (s "bool")); (SI (1)%Z)])])])]); (SL [(SS (s "none"))]); (SS (s "shared_memory_dict")); (SL [(SS (s "x[i] -> y[i]"))]); (SS (s "F")); (SS (s "V"))]); (SL [(SL [(SS (s "x")); (SL [(SS (s "arr")); (SL [(SI (2)%Z)]); (SL [(SS (s "a")); (SS (s "b"))])])])]); (SL [])])]); (SL [(SS (s "err")); (SS (s "FileNotFoundError"))])]); (SS (s "same")); (SL [(SS (s "bool")); (SI (1)%Z)]); (SL [(SS (s "bool")); (SI (1)%Z)]); (SI (0)%Z)])]).

Lemma legacy_model_matches_unrepaired_code : run_with true shared_fresh_case = shared_fresh_unrepaired_obs.
Proof. vm_compute. reflexivity. Qed.

Lemma legacy_violates : request_ok (c_funcs shared_fresh_case) (c_inputs shared_fresh_case) = true
                        /\ spec_ok shared_fresh_case (run_with true shared_fresh_case) = false.
Proof. split; vm_compute; reflexivity. Qed.

Lemma repaired_satisfies : spec_ok shared_fresh_case (run shared_fresh_case) = true.
Proof. vm_compute. reflexivity. Qed.

Lemma legacy_refuted :
  exists c, request_ok (c_funcs c) (c_inputs c) = true /\ spec_ok c (run_with true c) = false
            /\ run_with true c = shared_fresh_unrepaired_obs /\ spec_ok c (run c) = true.
Proof.
  exists shared_fresh_case. destruct legacy_violates as [H1 H2].
  exact (conj H1 (conj H2 (conj legacy_model_matches_unrepaired_code repaired_satisfies))).
Qed.

(* a run with a tuple-output function with an internal axis (file_array under its tuple key), a reduction over that
   axis and a single output (both under the "" default shared_memory_dict), one internal shape given as a bare int *)
Definition mixed_case : case :=
  {| c_funcs := [{| fname := (s "f0"); fouts := [(s "y0"); (s "z0")]; fparams := [(s "x0")]; fbound := []; fdefaults := []; fspec := (Some {| ins := [{| aname := (s "x0"); axes := [(Some (s "i"))] |}]; outs := [{| aname := (s "y0"); axes := [(Some (s "i")); (Some (s "n0"))] |}; {| aname := (s "z0"); axes := [(Some (s "i")); (Some (s "n0"))] |}] |}); fint := []; fret := [2%nat] |}; {| fname := (s "f1"); fouts := [(s "y1")]; fparams := [(s "y0"); (s "c0")]; fbound := []; fdefaults := []; fspec := (Some {| ins := [{| aname := (s "y0"); axes := [(Some (s "i")); None] |}]; outs := [{| aname := (s "y1"); axes := [(Some (s "i"))] |}] |}); fint := []; fret := [] |}; {| fname := (s "f2"); fouts := [(s "y2")]; fparams := [(s "y1")]; fbound := []; fdefaults := []; fspec := None; fint := []; fret := [] |}]; c_inputs := [((s "x0"), (VA {| shp := [2%nat]; dat := [(s "a"); (s "b")] |})); ((s "c0"), (VS (s "C0")))]; c_internal := [((s "y0"), [2%nat]); ((s "z0"), [2%nat])]; c_user_int := [(s "y0")]; c_func_int := []; c_storage := (StDict [((KTup [(s "y0"); (s "z0")]), (s "file_array")); ((KName (s "")), (s "shared_memory_dict"))]); c_persist := true; c_fresh := true; c_xr := (s "ok"); c_mut := MNone; c_xr_coords := []; c_prev := []; c_cleanup := true |}.

Lemma mixed_case_finishes :
  exists f, finish false mixed_case = Ok f /\ valid_request mixed_case = true /\ finished_consistent mixed_case f = true
            /\ wf_run_info (f_info f) = true
            /\ forallb (kind_persists mixed_case) (c_funcs mixed_case) = true
            /\ length (f_outs f) = 4.
Proof. eexists. split; [vm_compute; reflexivity|]. repeat split; vm_compute; reflexivity. Qed.

Lemma mixed_case_valid :
  valid_request mixed_case = true /\ storage_complete mixed_case = true /\ c_mut mixed_case = MNone
  /\ (exists d, denote_run sym_body (c_funcs mixed_case) (c_inputs mixed_case) (c_internal mixed_case) = Ok d).
Proof. repeat split; try (vm_compute; reflexivity). eexists. vm_compute. reflexivity. Qed.
