(* C07: the model run of every store case satisfies the executable statement spec_ok of Corr/Run_C07.v. *)
From Verif Require Import Base.Prelude Base.Index Base.PySlice Model.Store Model.StoreSpec Corr.Run_C07
  Proofs.StoreBase Proofs.StoreAbs Proofs.StoreFacts.

Lemma str_eqb_refl x : str_eqb x x = true.
Proof. induction x as [|a x IH]; cbn; [reflexivity|]. now rewrite Ascii.eqb_refl, IH. Qed.

Lemma sx_eqb_refl : forall x, sx_eqb x x = true.
Proof.
  fix IH 1. intros [z|t|l]; cbn.
  - apply Z.eqb_refl.
  - apply str_eqb_refl.
  - induction l as [|a l IHl]; [reflexivity|]. rewrite IH. exact IHl.
Qed.

Lemma out_ok_refl (o : out elem) : out_ok o (sx_out o) = true.
Proof.
  destruct o as [sh cells|sh m|l|b| |e]; try apply sx_eqb_refl.
  destruct e; try apply sx_eqb_refl. reflexivity.
Qed.

Lemma out_ok_agree m (l1 l2 : list (out elem)) :
  Forall2 (out_agree elem OtherError m) l1 l2 -> forallb2 out_ok l1 (map sx_out l2) = true.
Proof.
  induction 1 as [|o1 o2 l1 l2 Ho _ IH]; [reflexivity|]. cbn [map forallb2]. rewrite IH, andb_true_r.
  destruct Ho as [->|[-> ->]]; [apply out_ok_refl|reflexivity].
Qed.

Theorem spec_ok_run : forall c, spec_ok c (run c) = true.
Proof.
  intros [b ext int mask ops|a b c|n|ls|sh]; try reflexivity.
  cbn [spec_ok run]. set (g := mk_geom ext int mask).
  destruct (geom_ok g && forallb (valid_op elem g) ops) eqn:Hv; [|reflexivity]. cbn [negb].
  apply andb_true_iff in Hv as [Hg Hv].
  unfold ref_outs. destruct b; cbn [run_store].
  - rewrite (file_refines_seq elem g Hg ops Hv). apply (out_ok_agree FileNotFoundError). apply run_miss.
  - rewrite (dict_refines_seq elem g Hg ops Hv). apply (out_ok_agree KeyError). apply run_miss.
  - rewrite (dict_refines_seq elem g Hg ops Hv). apply (out_ok_agree KeyError). apply run_miss.
Qed.
