(* C08, capstone: the model's observation always satisfies the executable statement `spec_ok` that the
   correspondence harness applies to the implementation's observations (Corr/Run_C08.v). *)
From Verif Require Import Base.Prelude Base.StrUtil Base.Index Model.MapSpec Model.MapSpecSpec Model.IndexOps
  Model.MapSpecAxes Corr.Run_C08 Proofs.StrFacts Proofs.IndexFacts Proofs.MapSpecFacts Proofs.MapSpecParse
  Proofs.MapSpecShape Proofs.MapSpecAxesFacts.
From Verif Require Model.XrLabelSpec.

(* ------------------------------------------------------------------ encode / decode of observations *)
Lemma sx_eqb_refl : forall x, sx_eqb x x = true.
Proof.
  fix IH 1. intros [z|t|l]; cbn [sx_eqb].
  - apply Z.eqb_refl.
  - apply str_eqb_refl.
  - induction l as [|a l IHl]; [reflexivity|]. rewrite (IH a). cbn [andb]. exact IHl.
Qed.

Lemma un_ok_ok v : un_ok (SL [SS (s "ok"); v]) = Some v.
Proof. reflexivity. Qed.

Lemma un_ok_result {A} (f : A -> sx) r :
  un_ok (sx_of_result f r) = match r with Ok a => Some (f a) | Err _ => None end.
Proof. destruct r as [a|e]; [reflexivity|]. destruct e; reflexivity. Qed.

Lemma is_err_result {A} (f : A -> sx) r :
  sx_is_err (sx_of_result f r) = match r with Ok _ => false | Err _ => true end.
Proof.
  destruct r as [a|e]; [|destruct e; reflexivity].
  unfold sx_of_result, sx_is_err. destruct (f a); reflexivity.
Qed.

Lemma optM_map {A B} (un : B -> option A) (f : A -> B) l :
  (forall x, un (f x) = Some x) -> optM un (map f l) = Some l.
Proof. intros H. induction l as [|x l IH]; [reflexivity|]. cbn [map optM]. now rewrite H, IH. Qed.

Lemma un_axis_sx a : un_axis (sx_axis a) = Some a.
Proof. destruct a; reflexivity. Qed.

Lemma un_aspec_sx a : un_aspec (sx_aspec a) = Some a.
Proof. destruct a as [n ax]. cbn [sx_aspec un_aspec aname axes]. now rewrite (optM_map _ _ _ un_axis_sx). Qed.

Lemma un_mapspec_sx m : un_mapspec (sx_mapspec m) = Some m.
Proof.
  destruct m as [i o]. cbn [sx_mapspec un_mapspec ins outs].
  now rewrite !(optM_map _ _ _ un_aspec_sx).
Qed.

Lemma un_nat_SN n : un_nat (SN n) = Some n.
Proof.
  unfold un_nat, SN. destruct (Z.of_nat n <? 0)%Z eqn:E; [apply Z.ltb_lt in E; lia|]. now rewrite Nat2Z.id.
Qed.

Lemma un_nats_sx l : un_nats (sx_nats l) = Some l.
Proof. unfold un_nats, sx_nats. apply optM_map. exact un_nat_SN. Qed.

Lemma un_bool_SB b : un_bool (SB b) = Some b.
Proof. destruct b; reflexivity. Qed.

Lemma un_kitem_sx k : un_kitem (sx_kitem k) = Some k.
Proof.
  destruct k as [n|]; [|reflexivity]. cbn [sx_kitem]. unfold SN. cbn [un_kitem].
  change (SI (Z.of_nat n)) with (SN n). now rewrite un_nat_SN.
Qed.

Lemma un_keys_sx d : un_keys (sx_keys d) = Some d.
Proof.
  unfold un_keys, sx_keys. apply optM_map. intros [n ks]. cbn [fst snd].
  now rewrite (optM_map _ _ _ un_kitem_sx).
Qed.

(* ------------------------------------------------------------------ reflexivity of the structural equalities *)
Lemma list_eqb_refl {A} (eqb : A -> A -> bool) l : (forall x, eqb x x = true) -> list_eqb eqb l l = true.
Proof. intros H. induction l as [|x l IH]; [reflexivity|]. cbn [list_eqb]. now rewrite H, IH. Qed.

Lemma axis_eqb_refl a : axis_eqb a a = true.
Proof. destruct a as [x|]; [apply str_eqb_refl|reflexivity]. Qed.

Lemma aspec_eqb_refl a : aspec_eqb a a = true.
Proof. unfold aspec_eqb. now rewrite str_eqb_refl, (list_eqb_refl _ _ axis_eqb_refl). Qed.

Lemma mapspec_eqb_refl m : mapspec_eqb m m = true.
Proof. unfold mapspec_eqb. now rewrite !(list_eqb_refl _ _ aspec_eqb_refl). Qed.

Lemma nats_eqb_refl l : list_eqb Nat.eqb l l = true.
Proof. apply list_eqb_refl. exact Nat.eqb_refl. Qed.

(* ------------------------------------------------------------------ CParse: whatever is accepted is well formed *)
Lemma mapM_mk_aspec_wf {X} (g : X -> str) (h : X -> list (option str)) l r :
  mapM (fun y => mk_aspec (g y) (h y)) l = Ok r -> forallb wf_aspec r = true.
Proof.
  revert r. induction l as [|y l IH]; intros r H; cbn [mapM] in H.
  - now injection H as <-.
  - unfold mk_aspec at 1 in H. destruct (valid_name (g y) && forallb valid_axis (h y)) eqn:V; [|discriminate].
    cbn [bind] in H. destruct (mapM _ l) as [r'|e]; [|discriminate]. cbn [bind] in H. injection H as <-.
    cbn [forallb]. unfold wf_aspec at 1. cbn [aname axes]. rewrite V. cbn [andb]. now apply IH.
Qed.

Lemma parse_indexed_arrays_wf x l : parse_indexed_arrays x = Ok l -> forallb wf_aspec l = true.
Proof.
  unfold parse_indexed_arrays. destruct (str_eqb (strip x) (s "...")); [intros H; now injection H as <-|].
  destruct (negb (mem_char "["%char x) || negb (mem_char "]"%char x)); [discriminate|].
  apply mapM_mk_aspec_wf.
Qed.

Lemma mk_mapspec_ok_wf i o m :
  forallb wf_aspec i = true -> forallb wf_aspec o = true -> mk_mapspec i o = Ok m -> wf_decl m = true.
Proof.
  intros Hi Ho. rewrite (mk_mapspec_wf i o Hi Ho).
  destruct (wf_decl {| ins := i; outs := o |}) eqn:W; [intros H; now injection H as <-|].
  destruct o; discriminate.
Qed.

Lemma parse_ok_wf x m : parse x = Ok m -> wf_decl m = true.
Proof.
  unfold parse. destruct (split_arrow x) as [|i [|o [|? ?]]]; try discriminate.
  destruct (parse_indexed_arrays i) as [i'|] eqn:Ei; [|discriminate]. cbn [bind].
  destruct (parse_indexed_arrays o) as [o'|] eqn:Eo; [|discriminate]. cbn [bind].
  apply mk_mapspec_ok_wf; eapply parse_indexed_arrays_wf; eassumption.
Qed.

Lemma case_parse x : spec_ok (CParse x) (run (CParse x)) = true.
Proof.
  cbn [spec_ok run]. rewrite un_ok_result, is_err_result.
  destruct (parse x) as [m|e] eqn:P; [|reflexivity]. rewrite un_mapspec_sx. exact (parse_ok_wf x m P).
Qed.

(* ------------------------------------------------------------------ CBuild *)
Lemma case_build i o : spec_ok (CBuild i o) (run (CBuild i o)) = true.
Proof.
  cbn [spec_ok run]. set (m := {| ins := raw_of i; outs := raw_of o |}).
  destruct (wf_decl m) eqn:W.
  - assert (build i o = Ok m) as -> by (apply build_accepts_iff_wf; auto).
    cbn [sx_of_result]. rewrite un_ok_ok, str_eqb_refl. cbn [andb].
    destruct (printable m) eqn:Pr; [|reflexivity].
    rewrite (parse_print m W Pr). cbn [sx_of_result]. rewrite un_ok_ok, un_mapspec_sx. apply mapspec_eqb_refl.
  - destruct (build_rejects_malformed i o W) as [e ->]. now rewrite is_err_result.
Qed.

(* ------------------------------------------------------------------ CShape *)
Lemma case_shape i o ish int : spec_ok (CShape i o ish int) (run (CShape i o ish int)) = true.
Proof.
  cbn [spec_ok run]. unfold shape_ok. set (m := {| ins := raw_of i; outs := raw_of o |}).
  destruct (wf_decl m && forallb nodup_axes (ins m) && nodup_str (map aname (ins m))
            && nodup_str (map fst ish) && nodup_str (map fst int)) eqn:G; cbn [negb]; [|reflexivity].
  apply andb_true_iff in G as [G G5]. apply andb_true_iff in G as [G G4]. apply andb_true_iff in G as [G G3].
  apply andb_true_iff in G as [W G2]. apply nodup_str_NoDup in G3, G4, G5.
  assert (build i o = Ok m) as -> by (apply build_accepts_iff_wf; auto).
  destruct (shape_correct m ish int W G2 G3 G4 G5) as [Hyes Hno].
  destruct (shape_request_ok m ish int).
  - destruct (Hyes eq_refl) as [sh [mask [-> Hres]]]. cbn [sx_of_result fst snd]. rewrite un_ok_ok, un_nats_sx.
    now rewrite (optM_map _ _ _ un_bool_SB).
  - destruct (Hno eq_refl) as [e ->]. now rewrite is_err_result.
Qed.

(* ------------------------------------------------------------------ CRename / CAddAxes *)
Lemma case_rename i o ren : spec_ok (CRename i o ren) (run (CRename i o ren)) = true.
Proof.
  cbn [spec_ok run]. set (m := {| ins := raw_of i; outs := raw_of o |}).
  destruct (wf_decl m) eqn:W; cbn [negb]; [|reflexivity].
  assert (build i o = Ok m) as -> by (apply build_accepts_iff_wf; auto).
  change {| ins := map (Run_C08.renamed ren) (ins m); outs := map (Run_C08.renamed ren) (outs m) |}
    with (rename_struct m ren).
  destruct (rename_wf m ren W) as [Hyes Hno].
  destruct (wf_decl (rename_struct m ren)) eqn:W'.
  - rewrite (Hyes eq_refl). cbn [sx_of_result]. rewrite un_ok_ok, un_mapspec_sx. apply mapspec_eqb_refl.
  - rewrite is_err_result. destruct (rename m ren) as [r|e] eqn:R; [|reflexivity].
    destruct (Hno r eq_refl) as [-> Wr]. congruence.
Qed.

Lemma fresh_axes_spec ax a :
  forallb (fun x => match x with Some _ => negb (existsb (axis_eqb x) (axes a)) | None => true end) ax = fresh_axes ax a.
Proof.
  unfold fresh_axes. rewrite existsb_negb_forallb, negb_involutive. apply forallb_pointwise.
  intros [x|]; reflexivity.
Qed.

Lemma case_add_axes i o ax : spec_ok (CAddAxes i o ax) (run (CAddAxes i o ax)) = true.
Proof.
  cbn [spec_ok run]. set (m := {| ins := raw_of i; outs := raw_of o |}).
  destruct (wf_decl m) eqn:W; cbn [negb]; [|reflexivity].
  assert (build i o = Ok m) as -> by (apply build_accepts_iff_wf; auto).
  change {| ins := map (fun a => {| aname := aname a; axes := axes a ++ ax |}) (ins m);
            outs := map (fun b => {| aname := aname b; axes := axes b ++ ax |}) (outs m) |}
    with (add_axes_struct m ax).
  rewrite (forallb_pointwise _ (fresh_axes ax) (ins m ++ outs m) (fresh_axes_spec ax)).
  destruct (add_axes_wf m ax) as [Hyes Hno].
  destruct (forallb (fresh_axes ax) (ins m ++ outs m) && wf_decl (add_axes_struct m ax)) eqn:G.
  - apply andb_true_iff in G as [G1 G2]. rewrite (Hyes G1 G2). cbn [sx_of_result].
    rewrite un_ok_ok, un_mapspec_sx. apply mapspec_eqb_refl.
  - rewrite is_err_result. destruct (add_axes m ax) as [r|e] eqn:R; [|reflexivity].
    destruct (Hno r eq_refl) as [-> [Wr Fr]]. rewrite Fr, Wr in G. discriminate.
Qed.

(* ------------------------------------------------------------------ CKeys *)
Lemma dedup_In x l : In x (dedup l) <-> In x l.
Proof.
  induction l as [|y l IH]; cbn [dedup]; [tauto|]. destruct (mem_str y l) eqn:E.
  - rewrite IH. split; [now right|]. intros [<-|H]; [now apply mem_str_In|exact H].
  - cbn [In]. now rewrite IH.
Qed.

Lemma dedup_NoDup l : NoDup (dedup l).
Proof.
  induction l as [|y l IH]; cbn [dedup]; [constructor|]. destruct (mem_str y l) eqn:E; [exact IH|].
  constructor; [|exact IH]. rewrite dedup_In. now apply mem_str_false.
Qed.

(* for a well-formed spec with distinct output indices, the number of distinct input indices (what output_key
   compares the rank with) is the number of external indices (what input_keys compares it with) *)
Lemma ext_len_input_indices m :
  wf_decl m = true -> NoDup (output_indices m) -> length (external_indices m) = n_input_indices m.
Proof.
  intros W Hout. unfold n_input_indices.
  assert (forall x, In x (external_indices m) <-> In x (dedup (input_indices_list m))) as Hiff.
  { intros x. rewrite dedup_In. split.
    - unfold external_indices. intros H. apply filter_In in H as [_ H]. now apply mem_str_In.
    - unfold input_indices_list. intros H. apply in_flat_map in H as [a [Ha Hx]].
      apply (input_axis_in_ext m W a x Ha). unfold indices in Hx. now apply somes_In. }
  pose proof (ext_NoDup m Hout) as N1. pose proof (dedup_NoDup (input_indices_list m)) as N2.
  apply Nat.le_antisymm; apply NoDup_incl_length; try assumption; intros x Hx; now apply Hiff.
Qed.

Lemma mapM_exists {A B} (f : A -> result B) (P : A -> B -> Prop) l :
  (forall x, In x l -> exists y, f x = Ok y /\ P x y) -> exists ys, mapM f l = Ok ys /\ Forall2 P l ys.
Proof.
  induction l as [|x l IH]; intros H; [exists []; split; [reflexivity|constructor]|].
  destruct (H x (or_introl eq_refl)) as [y [Hy Py]].
  destruct IH as [ys [Hys Pys]]; [intros; apply H; now right|].
  exists (y :: ys). cbn [mapM]. rewrite Hy. cbn [bind]. rewrite Hys. cbn [bind]. split; [reflexivity|now constructor].
Qed.

Lemma forallb2_map_Forall2 {A B C} (p : B -> C -> bool) (g : A -> B) l ys :
  Forall2 (fun x y => p (g x) y = true) l ys -> forallb2 p (map g l) ys = true.
Proof. induction 1 as [|x y l ys H _ IH]; [reflexivity|]. cbn [map forallb2]. now rewrite H, IH. Qed.

Lemma case_keys i o sh : spec_ok (CKeys i o sh) (run (CKeys i o sh)) = true.
Proof.
  cbn [spec_ok run]. unfold keys_ok. set (m := {| ins := raw_of i; outs := raw_of o |}).
  destruct (wf_for_keys m && (length sh =? length (external_indices m)) && forallb (fun d => 0 <? d) sh) eqn:G;
    cbn [negb]; [|reflexivity].
  apply andb_true_iff in G as [G Hpos]. apply andb_true_iff in G as [G Hlen]. apply Nat.eqb_eq in Hlen.
  unfold wf_for_keys in G. apply andb_true_iff in G as [G Hout]. apply andb_true_iff in G as [W Hnames].
  apply nodup_str_NoDup in Hout, Hnames.
  assert (build i o = Ok m) as -> by (apply build_accepts_iff_wf; auto).
  unfold run_keys.
  assert (length sh = n_input_indices m) as Hlen' by (rewrite Hlen; now apply ext_len_input_indices).
  rewrite (output_key_rowmajor m sh Hlen' Hpos).
  destruct (mapM_exists (input_keys m sh) (fun n d => input_keys_ok m (unravel sh n) d = true) (seq 0 (prod sh)))
    as [ds [-> Hds]].
  { intros n _. exact (input_keys_select m sh n W Hnames Hout Hlen Hpos). }
  cbn [sx_of_result]. rewrite !un_ok_ok.
  rewrite (optM_map _ _ _ un_nats_sx), (optM_map _ _ _ un_keys_sx).
  rewrite (list_eqb_refl _ _ nats_eqb_refl). cbn [andb].
  rewrite <- unravel_enumerates. now apply forallb2_map_Forall2.
Qed.

(* ------------------------------------------------------------------ CIdx: direct calls of the index helpers *)
Lemma strides_spec sh : strides sh = map (fun k => prod (skipn (S k) sh)) (seq 0 (length sh)).
Proof.
  induction sh as [|d t IH]; [reflexivity|]. cbn [strides length seq map skipn]. f_equal.
  rewrite IH, <- seq_shift, map_map. reflexivity.
Qed.

Lemma nth_error_seq0 N n : n < N -> nth_error (seq 0 N) n = Some n.
Proof.
  intros H. rewrite (nth_error_nth' _ 0) by (now rewrite seq_length). now rewrite seq_nth.
Qed.

Lemma all_indices_nth sh n : n < prod sh -> nth_error (all_indices sh) n = Some (unravel sh n).
Proof.
  intros H. rewrite <- unravel_enumerates. apply map_nth_error. now apply nth_error_seq0.
Qed.

Lemma merge_length {A} mask : forall (e i : list A),
  length e = n_true mask -> length i = n_false mask -> length (merge mask e i) = length mask.
Proof.
  unfold n_true, n_false.
  induction mask as [|[|] m IH]; intros e i He Hi; [reflexivity| |]; cbn [filter id negb length] in *.
  - destruct e as [|x e]; [discriminate|]. cbn [merge length]. f_equal. apply IH; [now injection He|exact Hi].
  - destruct i as [|x i]; [discriminate|]. cbn [merge length]. f_equal. apply IH; [exact He|now injection Hi].
Qed.

Lemma ext_of_filter {A} mask : forall (l : list A), ext_of mask l = map fst (filter (fun dm => snd dm) (combine l mask)).
Proof.
  induction mask as [|[|] m IH]; intros [|x l]; try reflexivity; cbn [ext_of combine filter snd map fst].
  - f_equal. apply IH.
  - apply IH.
Qed.

Lemma int_of_filter {A} mask : forall (l : list A),
  int_of mask l = map fst (filter (fun dm => negb (snd dm)) (combine l mask)).
Proof.
  induction mask as [|[|] m IH]; intros [|x l]; try reflexivity; cbn [int_of combine filter snd map fst negb].
  - apply IH.
  - f_equal. apply IH.
Qed.

Lemma case_idx c : spec_ok (CIdx c) (run (CIdx c)) = true.
Proof.
  cbn [spec_ok run]. destruct c as [sh|sh n|mask e i|sh mask|sh mask]; cbn [idx_ok idx_run].
  - cbn [sx_of_result]. rewrite un_ok_ok, un_nats_sx, <- strides_spec. apply nats_eqb_refl.
  - destruct (forallb (fun d => 0 <? d) sh && (n <? prod sh)) eqn:G; [|reflexivity].
    apply andb_true_iff in G as [Hpos Hn]. apply Nat.ltb_lt in Hn.
    unfold unravel_checked. rewrite (existsb_zero_false sh Hpos). cbn [sx_of_result].
    rewrite un_ok_ok, un_nats_sx, (all_indices_nth sh n Hn). cbn [opt_eqb]. apply nats_eqb_refl.
  - unfold select_by_mask. destruct ((length e =? n_true mask) && (length i =? n_false mask)) eqn:G.
    + apply andb_true_iff in G as [He Hi]. apply Nat.eqb_eq in He, Hi.
      rewrite He, Hi, !Nat.leb_refl. cbn [andb sx_of_result]. rewrite un_ok_ok, un_nats_sx.
      destruct (ext_of_merge mask e i He Hi) as [-> ->].
      now rewrite (merge_length mask e i He Hi), Nat.eqb_refl, !nats_eqb_refl.
    + destruct ((length e <? n_true mask) || (length i <? n_false mask)) eqn:S; [|reflexivity].
      rewrite is_err_result.
      assert ((n_true mask <=? length e) && (n_false mask <=? length i) = false) as ->; [|reflexivity].
      apply orb_true_iff in S as [S|S]; apply Nat.ltb_lt in S.
      * assert (n_true mask <=? length e = false) as -> by (apply Nat.leb_gt; lia). reflexivity.
      * assert (n_false mask <=? length i = false) as -> by (apply Nat.leb_gt; lia). apply andb_false_r.
  - destruct (length sh =? length mask); [|reflexivity]. cbn [sx_of_result].
    rewrite un_ok_ok, un_nats_sx, <- ext_of_filter. apply nats_eqb_refl.
  - destruct (length sh =? length mask); [|reflexivity]. cbn [sx_of_result].
    rewrite un_ok_ok, un_nats_sx, <- int_of_filter. apply nats_eqb_refl.
Qed.

(* ------------------------------------------------------------------ CAxes *)
Lemma un_axes_dict_sx d : un_axes_dict (sx_axes_dict d) = Some d.
Proof.
  unfold un_axes_dict, sx_axes_dict. apply optM_map. intros [n ax]. cbn [fst snd].
  now rewrite (optM_map _ _ _ un_axis_sx).
Qed.

Lemma un_dims_sx d : un_dims (sx_dims d) = Some d.
Proof. unfold un_dims, sx_dims. apply optM_map. intros [n r]. cbn [fst snd]. now rewrite un_nat_SN. Qed.

Lemma forallb2_nth {A B} (p : A -> B -> bool) : forall l1 l2,
  length l1 = length l2 ->
  (forall i x y, nth_error l1 i = Some x -> nth_error l2 i = Some y -> p x y = true) ->
  forallb2 p l1 l2 = true.
Proof.
  induction l1 as [|x l1 IH]; intros [|y l2] Hl H; try discriminate; [reflexivity|]. cbn [forallb2].
  rewrite (H 0 x y eq_refl eq_refl). cbn [andb]. apply IH; [now injection Hl|].
  intros i x' y' Hx Hy. exact (H (S i) x' y' Hx Hy).
Qed.

Lemma case_axes specs : spec_ok (CAxes specs) (run (CAxes specs)) = true.
Proof.
  cbn [spec_ok run]. unfold axes_ok.
  match goal with |- context [forallb wf_decl (map ?f specs)] => set (mk := f) end.
  destruct (forallb wf_decl (map mk specs)) eqn:W; cbn [negb]; [|reflexivity].
  assert (mapM (fun io => build (fst io) (snd io)) specs = Ok (map mk specs)) as ->.
  { apply mapM_ok_map. intros io Hio. apply build_accepts_iff_wf. split; [|reflexivity].
    rewrite forallb_forall in W. apply (W (mk io)). now apply in_map. }
  set (ms := map mk specs). set (all := all_aspecs ms).
  destruct (XrLabelSpec.consistent all) eqn:C.
  - pose proof (consistent_validate_ok ms C) as V. rewrite V. cbn [sx_of_result].
    rewrite un_ok_ok, un_axes_dict_sx, un_dims_sx.
    apply forallb_forall. intros a Ha.
    destruct (consistent_axes_sound ms V a Ha) as [ax [Hget [Hlen [Hown [Hfrom Hdim]]]]].
    rewrite Hdim. cbn [opt_eqb]. rewrite Nat.eqb_refl, andb_true_r.
    unfold axes_entry_ok. rewrite Hget, Hlen, Nat.eqb_refl. cbn [andb].
    apply andb_true_iff. split.
    + apply forallb2_nth; [unfold rank in Hlen; now rewrite Hlen|].
      intros i own got Ho Hg. destruct own as [x|]; [|reflexivity].
      rewrite (Hown i x Ho) in Hg. injection Hg as <-. cbn [opt_eqb]. apply str_eqb_refl.
    + apply forallb_forall. intros [i g] Hin. cbn [fst snd]. destruct g as [x|]; [|reflexivity].
      rewrite <- Hlen in Hin. apply in_combine_seq in Hin as [_ Hin]. rewrite Nat.sub_0_r in Hin.
      destruct (Hfrom i x Hin) as [b [Hb [Nb Hbx]]].
      apply existsb_exists. exists b. split; [exact Hb|].
      rewrite Nb, str_eqb_refl, Hbx. cbn [andb opt_eqb]. apply str_eqb_refl.
  - destruct (inconsistent_rejected ms C) as [e ->]. now rewrite is_err_result.
Qed.

(* ------------------------------------------------------------------ the capstone *)
Theorem model_meets_spec : forall c, spec_ok c (run c) = true.
Proof.
  intros [x|i o|i o ish int|i o sh|i o ren|i o ax|specs|c|fn].
  - apply case_parse.
  - apply case_build.
  - apply case_shape.
  - apply case_keys.
  - apply case_rename.
  - apply case_add_axes.
  - apply case_axes.
  - apply case_idx.
  - cbn [spec_ok run]. apply sx_eqb_refl.
Qed.
