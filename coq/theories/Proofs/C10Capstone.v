(* Capstone for the aliasing probes (C10): for EVERY probe case - any pipeline description, rewrite, side and mutation -
   the observation of the heap model satisfies the executable statement: either the probe is outside the model's
   domain (bad_case) or the untouched side is the same before and after the rewrite and the side that is not mutated
   is the same before and after the mutation of the other one. *)
From Verif Require Import Base.Prelude Base.StrOrd Base.StrUtil Base.Graph Model.Pipe Model.Rewrite Model.Alias
  Corr.PipeObs Corr.Run_C10 Proofs.GraphFacts Proofs.AliasFacts Proofs.AliasOwnFacts Proofs.AliasSepFacts.

Lemma sx_eqb_refl : forall x, sx_eqb x x = true.
Proof.
  fix IH 1. intros [z|t|l]; cbn.
  - apply Z.eqb_refl.
  - induction t as [|c t IHt]; cbn; [reflexivity|]. rewrite Ascii.eqb_refl. exact IHt.
  - induction l as [|a l IHl]; [reflexivity|]. rewrite IH. exact IHl.
Qed.

Lemma sx_state_step h R x h' r q call st : Sep h R -> In q R -> incl (operands x) R -> Alias.target x <> Some q ->
  Alias.step no_spec_ren h x = Some (h', r) -> sx_state h q call = Some st -> sx_state h' q call = Some st.
Proof.
  intros HS Hq Hop Ht E Hst. unfold sx_state in *.
  destruct (Alias.pobs h q) as [vs|] eqn:Ep; [|discriminate]. destruct (Alias.reify h q) as [p|] eqn:Er; [|discriminate].
  rewrite (sep_step_isolated no_spec_ren h R x h' r q vs HS Hq Hop Ht E Ep).
  rewrite (sep_step_reify no_spec_ren h R x h' r q p HS Hq Hop Ht E Er). exact Hst.
Qed.

Lemma in_app_last {A} (l : list A) x : In x (l ++ [x]).
Proof. apply in_or_app. right. left. reflexivity. Qed.

Lemma sep_last_ne h R l q : Sep h (R ++ [l]) -> In q R -> l <> q.
Proof.
  intros [_ SD] Hq ->. apply In_nth_error in Hq as [k Ek].
  assert (Hk : k < length R) by (apply nth_error_Some; congruence).
  refine (SD k (length R) q q _ _ _ q (objs_head h q) (objs_head h q)); [rewrite nth_error_app1 by lia; exact Ek| |lia].
  rewrite nth_error_app2 by lia. rewrite Nat.sub_diag. reflexivity.
Qed.

Theorem alias_probe_capstone ds rw side m callA callB :
  run_alias ds rw side m callA callB = bad_case
  \/ exists a y, run_alias ds rw side m callA callB = SL [sx_ok; a; a; y; y].
Proof.
  unfold run_alias.
  destruct (Alias.build [] ds) as [[h1 P]|] eqn:EB; [|left; reflexivity].
  destruct (build_sep [] ds h1 P [] EB (sep_nil [])) as [_ S1]. cbn [app] in S1.
  (* the roots after the optional second pipeline *)
  assert (HQ : exists R1 h1' Q, (match rw with AJoin qd => Alias.build h1 qd | _ => Some (h1, O) end) = Some (h1', Q)
                                /\ Sep h1' R1 /\ In P R1 /\ incl (operands (hop_of rw P Q)) R1
               \/ (match rw with AJoin qd => Alias.build h1 qd | _ => Some (h1, O) end) = None).
  { destruct rw as [| |qd| | | | |]; try (exists [P], h1, 0; left; split; [reflexivity|]; split; [exact S1|];
      split; [left; reflexivity|]; intros l [<-|[]]; left; reflexivity).
    destruct (Alias.build h1 qd) as [[h1' Q]|] eqn:EQ; [|exists [P], h1, 0; right; reflexivity].
    destruct (build_sep h1 qd h1' Q [P] EQ S1) as [_ S2]. exists ([P] ++ [Q]), h1', Q. left.
    split; [reflexivity|]. split; [exact S2|]. split; [left; reflexivity|].
    intros l [<-|[<-|[]]]; [left; reflexivity|right; left; reflexivity]. }
  destruct HQ as (R1 & h1' & Q & [(EQ & S1' & HP1 & Hop1)|EQ]); rewrite EQ; [|left; reflexivity].
  set (x := hop_of rw P Q) in *.
  destruct (Alias.target x) as [tp|] eqn:Et.
  - (* an in-place rewrite of P; the untouched side is a copy taken before *)
    assert (Htp : tp = P).
    { unfold x in Et. destruct rw; cbn in Et; try discriminate; injection Et as <-; reflexivity. }
    subst tp.
    destruct (Alias.pipeline_copy h1' P) as [[h2 A]|] eqn:EC; [|left; reflexivity].
    assert (S2 : Sep h2 (R1 ++ [A])).
    { apply (sep_add_fresh h1' h2 R1 A S1'); [eapply pipeline_copy_prefix with (r := (h2, A)); exact EC|].
      apply (pipeline_copy_fresh h1' P (h2, A) EC). }
    assert (HneAP : A <> P) by exact (sep_last_ne h2 R1 A P S2 HP1).
    destruct (sx_state h2 A callA) as [a0|] eqn:Ea0; [|left; reflexivity].
    destruct (Alias.step no_spec_ren h2 x) as [[h3 r]|] eqn:Es; [|left; reflexivity].
    assert (Hopx : incl (operands x) (R1 ++ [A])) by (intros l Hl; apply in_or_app; left; apply Hop1; exact Hl).
    assert (Hr : r = None).
    { destruct (step_kinds no_spec_ren h2 x h3 r Es) as [(Ht & _)|[(-> & _)|(-> & _)]]; [congruence|reflexivity|reflexivity]. }
    subst r. cbn [app].
    pose proof (step_sep no_spec_ren h2 (R1 ++ [A]) x h3 None S2 Hopx Es) as S3. cbn [result_roots] in S3. rewrite app_nil_r in S3.
    assert (Ea1 : sx_state h3 A callA = Some a0).
    { apply (sx_state_step h2 (R1 ++ [A]) x h3 None A callA a0 S2 (in_app_last R1 A) Hopx); [rewrite Et; congruence|exact Es|exact Ea0]. }
    rewrite Ea1.
    set (X := if side then A else P). set (Y := if side then P else A). set (callY := if side then callB else callA).
    destruct (sx_state h3 Y callY) as [y0|] eqn:Ey0; [|left; reflexivity].
    destruct (Alias.step no_spec_ren h3 (hop_of_mut m X)) as [[h4 r4]|] eqn:Em; [|left; reflexivity].
    assert (HX : In X (R1 ++ [A]) /\ In Y (R1 ++ [A]) /\ X <> Y).
    { unfold X, Y. destruct side; (split; [|split]); try apply in_app_last; try (apply in_or_app; left; exact HP1); congruence. }
    destruct HX as (HXin & HYin & HXY).
    assert (Htm : Alias.target (hop_of_mut m X) = Some X /\ operands (hop_of_mut m X) = [X]) by (destruct m; split; reflexivity).
    destruct Htm as [Htm Hom].
    assert (Ey1 : sx_state h4 Y callY = Some y0).
    { apply (sx_state_step h3 (R1 ++ [A]) (hop_of_mut m X) h4 r4 Y callY y0 S3 HYin); [|rewrite Htm; congruence|exact Em|exact Ey0].
      rewrite Hom. intros l [<-|[]]. exact HXin. }
    rewrite Ey1. right. exists a0, y0. reflexivity.
  - (* the rewrite returns a new pipeline B; the untouched side is P itself *)
    destruct (sx_state h1' P callA) as [a0|] eqn:Ea0; [|left; reflexivity].
    destruct (Alias.step no_spec_ren h1' x) as [[h3 r]|] eqn:Es; [|left; reflexivity].
    pose proof (step_sep no_spec_ren h1' R1 x h3 r S1' Hop1 Es) as S3.
    assert (Ea1 : sx_state h3 P callA = Some a0).
    { apply (sx_state_step h1' R1 x h3 r P callA a0 S1' HP1 Hop1); [rewrite Et; discriminate|exact Es|exact Ea0]. }
    rewrite Ea1.
    destruct (step_kinds no_spec_ren h1' x h3 r Es) as [(_ & _ & b & -> & Fb)|[(-> & _)|(-> & p0 & Htp & _)]]; [| |congruence].
    + cbn [result_roots] in S3.
      assert (HneB : b <> P) by exact (sep_last_ne h3 R1 b P S3 HP1).
      set (X := if side then P else b). set (Y := if side then b else P). set (callY := if side then callB else callA).
      destruct (sx_state h3 Y callY) as [y0|] eqn:Ey0; [|left; reflexivity].
      destruct (Alias.step no_spec_ren h3 (hop_of_mut m X)) as [[h4 r4]|] eqn:Em; [|left; reflexivity].
      assert (HX : In X (R1 ++ [b]) /\ In Y (R1 ++ [b]) /\ X <> Y).
      { unfold X, Y. destruct side; (split; [|split]); try apply in_app_last; try (apply in_or_app; left; exact HP1); congruence. }
      destruct HX as (HXin & HYin & HXY).
      assert (Htm : Alias.target (hop_of_mut m X) = Some X /\ operands (hop_of_mut m X) = [X]) by (destruct m; split; reflexivity).
      destruct Htm as [Htm Hom].
      assert (Ey1 : sx_state h4 Y callY = Some y0).
      { apply (sx_state_step h3 (R1 ++ [b]) (hop_of_mut m X) h4 r4 Y callY y0 S3 HYin); [|rewrite Htm; congruence|exact Em|exact Ey0].
        rewrite Hom. intros l [<-|[]]. exact HXin. }
      rewrite Ey1. right. exists a0, y0. reflexivity.
    + (* no pipeline returned although none is the target: B = P, X = Y = P; the probe is degenerate but still fine *)
      exfalso. unfold x in Es, Et. destruct rw; cbn in Et; try discriminate; cbn [hop_of Alias.step] in Es;
        apply obind_some in Es as (yy & _ & Es); discriminate.
Qed.

(* spec_ok (CAlias ..) (run (CAlias ..)) = true whenever the probe is inside the model's domain *)
Theorem alias_spec_ok ds rw side m callA callB :
  run (CAlias ds rw side m callA callB) = bad_case
  \/ spec_ok (CAlias ds rw side m callA callB) (run (CAlias ds rw side m callA callB)) = true.
Proof.
  cbn [run]. destruct (alias_probe_capstone ds rw side m callA callB) as [E|(a & y & E)]; [left; exact E|right].
  rewrite E. cbn [spec_ok]. rewrite !sx_eqb_refl. apply orb_true_r.
Qed.

(* non-vacuity of the sequence theorem: a built pipeline is a separated root set; copying it adds the copy to the
   roots; updating the defaults of the copy and dropping its function is a sequence the theorem applies to (for P) *)
Example sep_instance :
  let ds := [ {| Alias.d_name := s "f"; Alias.d_outs := [s "a"]; Alias.d_params := [(s "x", s "x"); (s "y", s "y")];
                 Alias.d_sigd := []; Alias.d_defs := [(s "y", s "dy")]; Alias.d_bound := []; Alias.d_cached := false |} ] in
  exists h P, Alias.build [] ds = Some (h, P) /\ Sep h [P]
    /\ exists h2 Q h3, steps_r no_spec_ren h [P] [Alias.HCopy P] = Some (h2, [P; Q])
       /\ steps_r no_spec_ren h [P] [Alias.HCopy P; Alias.HUpdateDefaults Q [(s "x", s "dx")]; Alias.HDrop Q (s "a")] = Some (h3, [P; Q])
       /\ Alias.pobs h3 P = Alias.pobs h P /\ Alias.pobs h3 Q <> Alias.pobs h2 Q.
Proof.
  cbv zeta.
  match goal with |- exists h P, Alias.build [] ?ds = _ /\ _ => destruct (Alias.build [] ds) as [[h P]|] eqn:E; [|vm_compute in E; discriminate] end.
  exists h, P. split; [reflexivity|]. split; [exact (proj2 (build_sep [] _ h P [] E (sep_nil [])))|].
  vm_compute in E. injection E as <- <-.
  eexists. eexists. eexists. split; [vm_compute; reflexivity|]. split; [vm_compute; reflexivity|].
  split; [vm_compute; reflexivity|]. vm_compute. discriminate.
Qed.
