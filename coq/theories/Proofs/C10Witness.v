(* The witness for the known finding simplify-shared-dependency, replayed on the model. *)
From Verif Require Corr.Run_C10.
From Verif Require Import Base.Prelude Model.Pipe Model.Rewrite.

Definition shared_dependency_case : Run_C10.case :=
  Run_C10.CRewrite
    [mkf (s "f0") [s "o0"] [(s "x", s "x")] [] [] false;
     mkf (s "f1") [s "o1"] [(s "o0", s "o0")] [] [] false;
     mkf (s "f2") [s "o2"] [(s "o0", s "o0")] [] [] false;
     mkf (s "f3") [s "o3"] [(s "o1", s "o1"); (s "o2", s "o2"); (s "w", s "w")] [] [] false]
    [OSimplify (s "o3") false] [] None.

Lemma simplify_refuted : exists c, Run_C10.spec_ok c (Run_C10.run c) = false.
Proof. exists shared_dependency_case. vm_compute. reflexivity. Qed.
