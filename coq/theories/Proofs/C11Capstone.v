(* C11 capstone for the case kind CSub: on every case outside the one remaining known-finding region the
   executable statement holds of the model's observation. *)
From Verif Require Import Base.Prelude Base.StrOrd Base.Graph Model.Pipe Model.SubPipe Corr.PipeObs Corr.Run_C11
                          Proofs.GraphFacts Proofs.PipeFacts Proofs.ArgCombFacts Proofs.SubPipeFacts.

Lemma un_strs_sx_strs l : un_strs (sx_strs l) = Some l.
Proof. unfold un_strs, sx_strs. induction l as [|x l IH]; cbn; [reflexivity|]. now rewrite IH. Qed.

Lemma sort_strs_In l x : In x (sort_strs l) <-> In x l.
Proof.
  unfold sort_strs. pose proof (sort_perm str_ltb l) as Hp. split; intros H.
  - eapply Permutation.Permutation_in; eauto.
  - eapply Permutation.Permutation_in; [apply Permutation.Permutation_sym|]; eauto.
Qed.

Lemma sufficientb_iff p kw o : sufficientb p kw o = true <-> sufficient p kw o.
Proof.
  unfold sufficientb, sufficient. rewrite forallb_forall. split.
  - intros H f cur Hf Hcur. specialize (H f Hf). rewrite forallb_forall in H. specialize (H cur Hcur).
    destruct (source_of p kw f cur); congruence.
  - intros H f Hf. apply forallb_forall. intros cur Hcur. specialize (H f cur Hf Hcur).
    destruct (source_of p kw f cur); congruence.
Qed.

Lemma computableb_true p Ip Sq : computableb p Ip Sq = true ->
  forall o, In o Sq -> is_output p o = true /\ sufficient p (kw_of Ip) o.
Proof.
  unfold computableb. rewrite forallb_forall. intros H o Ho. specialize (H o Ho). apply andb_true_iff in H as [H1 H2].
  split; [assumption|now apply sufficientb_iff].
Qed.

Lemma computableb_false p Ip Sq : computableb p Ip Sq = false ->
  exists o, In o Sq /\ ~ (is_output p o = true /\ sufficient p (kw_of Ip) o).
Proof.
  unfold computableb. intros H. apply forallb_false_exists in H as [o [Ho H]]. exists o. split; [assumption|].
  intros [H1 H2]. apply sufficientb_iff in H2. now rewrite H1, H2 in H.
Qed.

Lemma all_readb_nodes p Ip Sq : all_readb p Ip Sq = true ->
  forall k, In k Ip -> is_output p k = true \/ In k (root_arg_names p).
Proof.
  unfold all_readb. intros H k Hk. apply subset_str_incl in H. apply H in Hk. apply in_flat_map in Hk as [o [_ Hk]].
  unfold kw_names_read in Hk. apply in_flat_map in Hk as [f [Hf Hk]]. apply filter_In in Hk as [Hk Hb].
  destruct (is_output p k) eqn:Eo; [now left|right]. unfold root_arg_names. apply dedup_In, in_flat_map. exists f.
  split; [apply (needed_in_p p (kw_of Ip) (S (length p)) o f Hf)|]. apply filter_In. split; [assumption|]. now rewrite Hb, Eo.
Qed.

Lemma dead_defaults_okb_agree p Ip Sq : dead_defaults_okb p Ip Sq = true -> dead_defaults_agree p (kw_of Ip) Sq.
Proof.
  unfold dead_defaults_okb, dead_defaults_agree. cbv zeta. intros H f g cur v w o1 o2 Ho1 Ho2 Hf Hg Hv Hw Hbf Hbg Hop Hno.
  set (nd := flat_map (needed_top p (kw_of Ip)) Sq) in *.
  assert (Hex : existsb (fun h => mem_str cur (outs h)) nd = false).
  { destruct (existsb (fun h => mem_str cur (outs h)) nd) eqn:E; [|reflexivity]. exfalso.
    apply existsb_exists in E as [h [Hh E]]. apply mem_str_In in E. unfold nd in Hh. apply in_flat_map in Hh as [o [Ho Hh]].
    exact (Hno h o Ho Hh E). }
  set (d := flat_map _ nd) in H.
  assert (Hin : forall f v o, In o Sq -> In f (needed_top p (kw_of Ip) o) -> In (cur, v) (dflt f) -> ahas (bound f) cur = false ->
                  In (cur, v) d).
  { intros f0 v0 o Ho Hf0 Hd Hb. unfold d. apply in_flat_map. exists f0. split; [unfold nd; apply in_flat_map; eauto|].
    apply filter_In. split; [assumption|]. cbn [fst]. now rewrite Hb, Hop, Hex. }
  rewrite forallb_forall in H. specialize (H _ (Hin f v o1 Ho1 Hf Hv Hbf)). rewrite forallb_forall in H.
  specialize (H _ (Hin g w o2 Ho2 Hg Hw Hbg)). cbn [fst snd] in H. rewrite str_eqb_refl in H. cbn in H. apply str_eqb_eq. exact H.
Qed.

Lemma sub_ok_of_seteq p Ip Sq p' exact :
  seteq_str (map fid p') (needed_set p Ip Sq) = true ->
  sub_ok p Ip Sq exact (sx_of_result (fun p' => sx_strs (sort_strs (map fid p'))) (Ok p')) = true.
Proof.
  intros H. unfold seteq_str in H. apply andb_true_iff in H as [H1 H2]. apply subset_str_incl in H1, H2.
  unfold sub_ok, sx_of_result. cbn [un_ok]. replace (str_eqb (s "ok") (s "ok")) with true by (vm_compute; reflexivity).
  rewrite un_strs_sx_strs.
  assert (E1 : subset_str (needed_set p Ip Sq) (sort_strs (map fid p')) = true).
  { apply subset_str_incl. intros x Hx. apply sort_strs_In. now apply H2. }
  assert (E2 : subset_str (sort_strs (map fid p')) (needed_set p Ip Sq) = true).
  { apply subset_str_incl. intros x Hx. apply (proj1 (sort_strs_In _ _)) in Hx. now apply H1. }
  rewrite E1, E2. now destruct exact.
Qed.

Lemma sx_is_err_SErr {A} (f : A -> sx) e : sx_is_err (sx_of_result f (Err e)) = true.
Proof. unfold sx_of_result, SErr, sx_is_err. vm_compute. reflexivity. Qed.

Theorem sub_capstone p Ip Sq : dead_defaults_okb p Ip Sq = true ->
  spec_ok (CSub p Ip Sq) (run (CSub p Ip Sq)) = true.
Proof.
  intros HD. unfold spec_ok, run. destruct (constructible p) eqn:Ec; [|reflexivity].
  assert (Hwf : wf_pipeline p) by (unfold constructible in Ec; apply andb_true_iff in Ec as [Ec _]; exact Ec).
  unfold judge. destruct (negb (forallb (is_output p) Sq) || existsb (fun o => mem_str o Ip) Sq || match Sq with [] => true | _ => false end); [reflexivity|].
  destruct (computableb p Ip Sq) eqn:Ecomp.
  - destruct (all_readb p Ip Sq) eqn:Ear.
    + destruct (computable_accepted p Ip Sq (kw_of Ip) Hwf (akeys_kw_of Ip) (all_readb_nodes p Ip Sq Ear)
                  (computableb_true p Ip Sq Ecomp) (dead_defaults_okb_agree p Ip Sq HD)) as [p' Hs].
      rewrite Hs. apply sub_ok_of_seteq. now apply (subpipeline_needed_exact_set p Ip Sq p').
    + destruct (subpipeline p Ip (Some Sq)) as [p'|e] eqn:Hs.
      * apply orb_true_iff. right. apply sub_ok_of_seteq. now apply (subpipeline_needed_exact_set p Ip Sq p').
      * now rewrite sx_is_err_SErr.
  - destruct (uncomputable_rejected p Ip Sq (kw_of Ip) Hwf (akeys_kw_of Ip) (computableb_false p Ip Sq Ecomp)) as [e He].
    rewrite He. apply sx_is_err_SErr.
Qed.
