(* C13 capstone, Pipeline.map part: the boolean statement WITHOUT its store conjunct (Corr/C13Map.map_head_ok =
   map_judge false: exception unchanged, annotated with the failing function and the kwargs of that invocation, no
   later generation, sequential path stops there, ErrorSnapshot / reproduce) holds of the model's own observation
   for every map case whose run does not end in an exception of the library itself, provided the function names
   contain no '('.  The store conjunct compares with the denotation of C01 and is NOT covered here (it is evaluated
   on the model for every explored case by the engine, and the Prop-level statement is C13_prefix_results_kept). *)
From Coq Require Import Permutation.
From Verif Require Import Base.Prelude Base.StrUtil Base.Index Base.NdArr Model.MapSpec Model.MapSpecSpec
  Model.MapRun Model.MapDenote Model.SymBody Model.FailingMap Corr.C13Map.
From Verif Require Import Proofs.GraphFacts Proofs.FailingMapFacts.

(* ------------------------------------------------------------------ generic *)
Lemma sx_eqb_refl : forall x, sx_eqb x x = true.
Proof.
  fix IH 1. intros [z|t|l]; cbn [sx_eqb].
  - apply Z.eqb_refl.
  - apply str_eqb_refl.
  - induction l as [|a l IHl]; [reflexivity|]. rewrite (IH a). cbn [andb]. exact IHl.
Qed.

Lemma optM_map_some : forall A B (f : A -> option B) (g : A -> B) l,
  (forall x, In x l -> f x = Some (g x)) -> optM f l = Some (map g l).
Proof.
  induction l as [|x l IH]; intros H; simpl; [reflexivity|].
  rewrite (H x (or_introl eq_refl)). rewrite IH; [reflexivity|]. intros y Hy. apply H. now right.
Qed.

Lemma un_strs_sx_strs : forall l, un_strs (sx_strs l) = Some l.
Proof.
  intros l. unfold un_strs, sx_strs. rewrite (optM_map_some _ _ un_str (fun x => match x with SS v => v | _ => [] end)).
  - f_equal. rewrite map_map. simpl. apply map_id.
  - intros x Hx. apply in_map_iff in Hx. destruct Hx as (y & <- & _). reflexivity.
Qed.

Lemma un_kws_sx_kws : forall d, un_kws (sx_kws d) = Some d.
Proof.
  intros d. unfold un_kws, sx_kws. induction d as [|[k v] d IH]; simpl; [reflexivity|].
  simpl in IH. destruct (optM un_pair (map (fun kv : str * str => SL [SS (fst kv); SS (snd kv)]) d)); inversion IH.
  reflexivity.
Qed.

Lemma nodup_names_NoDup : forall l, nodup_names l = true <-> NoDup l.
Proof.
  induction l as [|x l IH]; simpl.
  - split; [constructor|reflexivity].
  - rewrite andb_true_iff, negb_true_iff, IH. split.
    + intros [H1 H2]. constructor; [now apply mem_str_not_In|exact H2].
    + intros H. inversion H; subst. split; [now apply mem_str_not_In|assumption].
Qed.

(* insertion sort is a permutation *)
Lemma ins_by_perm : forall A (key : A -> str) x l, Permutation (ins_by key x l) (x :: l).
Proof.
  induction l as [|y l IH]; simpl; [reflexivity|]. destruct (sltb (key x) (key y)); [reflexivity|].
  rewrite IH. apply perm_swap.
Qed.

Lemma sort_by_perm : forall A (key : A -> str) l, Permutation (sort_by key l) l.
Proof.
  intros A key l. unfold sort_by.
  enough (H : forall acc, Permutation (fold_left (fun acc x => ins_by key x acc) l acc) (l ++ acc)).
  { rewrite H. now rewrite app_nil_r. }
  induction l as [|x l IH]; intros acc; simpl; [reflexivity|].
  rewrite IH. rewrite ins_by_perm. symmetry. apply Permutation_middle.
Qed.

Lemma dict_get_perm : forall V (l l' : list (str * V)) k, Permutation l l' -> NoDup (map fst l) ->
  dict_get l k = dict_get l' k.
Proof.
  intros V l l' k H. induction H as [|[k0 v0] l l' H IH|[k1 v1] [k2 v2] l|l l' l'' H1 IH1 H2 IH2]; intros Hnd.
  - reflexivity.
  - simpl. simpl in Hnd. inversion Hnd; subst. destruct (str_eqb k k0); [reflexivity|apply IH; assumption].
  - simpl. simpl in Hnd. inversion Hnd as [|? ? Hn1 Hnd1]; subst.
    destruct (str_eqb k k1) eqn:E1, (str_eqb k k2) eqn:E2; try reflexivity.
    apply str_eqb_eq in E1. apply str_eqb_eq in E2. subst. exfalso. apply Hn1. left. reflexivity.
  - rewrite IH1; [|exact Hnd]. apply IH2. eapply Permutation_NoDup; [|exact Hnd]. apply Permutation_map. exact H1.
Qed.

Lemma dict_get_in : forall V (l : list (str * V)) k v, NoDup (map fst l) -> In (k, v) l -> dict_get l k = Some v.
Proof.
  induction l as [|[k0 v0] l IH]; intros k v Hnd Hin; [destruct Hin|]. simpl. simpl in Hnd. inversion Hnd; subst.
  destruct Hin as [Heq|Hin].
  - inversion Heq; subst. now rewrite str_eqb_refl.
  - destruct (str_eqb k k0) eqn:E; [|apply IH; assumption].
    apply str_eqb_eq in E. subst k0. exfalso. apply H1. apply in_map_iff. exists (k, v). split; [reflexivity|exact Hin].
Qed.

(* ------------------------------------------------------------------ call strings *)
Definition no_paren (x : str) : bool := forallb (fun ch => negb (Ascii.eqb ch "("%char)) x.

Lemma span_no_paren : forall f rest, no_paren f = true ->
  span (fun ch => negb (Ascii.eqb ch "("%char)) (f ++ "("%char :: rest) = (f, "("%char :: rest).
Proof.
  induction f as [|c f IH]; intros rest H; simpl in *.
  - reflexivity.
  - apply andb_true_iff in H. destruct H as [H1 H2]. rewrite H1. rewrite (IH rest H2). reflexivity.
Qed.

Lemma call_fname_sym_app : forall f kw, no_paren (fname f) = true -> call_fname (sym_app f kw) = fname f.
Proof. intros f kw H. unfold call_fname, sym_app. simpl. rewrite (span_no_paren _ _ H). reflexivity. Qed.

(* the kwargs of an invocation, listed in any order, render back to its call string *)
Lemma kws_are_render : forall f (sel : env) (d : list (str * str)) tgt,
  map fst sel = fparams f -> NoDup (fparams f) ->
  Permutation d (canon_kws sel) -> sym_app f sel = tgt -> kws_are f (sx_kws d) tgt = true.
Proof.
  intros f sel d tgt Hn Hnd Hp Happ. unfold kws_are. rewrite un_kws_sx_kws.
  assert (Hk : map fst (canon_kws sel) = fparams f).
  { unfold canon_kws. rewrite map_map. simpl. exact Hn. }
  assert (Hkd : NoDup (map fst d)).
  { eapply Permutation_NoDup; [apply Permutation_map; symmetry; exact Hp|]. rewrite Hk. exact Hnd. }
  assert (Hlen : length d = length (fparams f)).
  { rewrite (Permutation_length Hp). unfold canon_kws. rewrite map_length, <- Hn, map_length. reflexivity. }
  rewrite Hlen, Nat.eqb_refl. rewrite (proj2 (nodup_names_NoDup _) Hkd). cbn [andb].
  rewrite (optM_map_some _ _ _ (fun p => p ++ s "=" ++ match dict_get (canon_kws sel) p with Some v => v | None => [] end)).
  - rewrite <- Happ. unfold sym_app.
    assert (E : map (fun p => p ++ s "=" ++ match dict_get (canon_kws sel) p with Some v => v | None => [] end) (fparams f)
                = map (fun pv => fst pv ++ s "=" ++ canon (snd pv)) sel).
    { rewrite <- Hn. rewrite map_map. apply map_ext_in. intros [k v] Hin. simpl.
      rewrite (dict_get_in _ (canon_kws sel) k (canon v)); [reflexivity| |].
      - rewrite Hk. exact Hnd.
      - unfold canon_kws. apply in_map_iff. exists (k, v). split; [reflexivity|exact Hin]. }
    rewrite E. apply str_eqb_refl.
  - intros p Hp'. rewrite (dict_get_perm _ d (canon_kws sel) p Hp Hkd).
    assert (Hin : In p (map fst (canon_kws sel))) by (rewrite Hk; exact Hp').
    apply in_map_iff in Hin. destruct Hin as ([k v] & Ek & Hin). simpl in Ek. subst k.
    rewrite (dict_get_in _ _ _ _ (eq_ind_r (fun l => NoDup l) Hnd Hk) Hin). reflexivity.
Qed.

(* ------------------------------------------------------------------ log entries carry one value per parameter *)
Lemma mapM_fst : forall A B (g : A -> result B) (key : A -> str) (key' : B -> str) l r,
  (forall a b, g a = Ok b -> key' b = key a) -> mapM g l = Ok r -> map key' r = map key l.
Proof.
  induction l as [|a l IH]; intros r Hk H; simpl in H.
  - inversion H. reflexivity.
  - destruct (g a) as [b|e] eqn:E; simpl in H; [|discriminate].
    destruct (mapM g l) as [r'|e] eqn:E2; simpl in H; [|discriminate]. inversion H; subst. simpl.
    rewrite (Hk _ _ E). f_equal. apply IH; auto.
Qed.

Lemma func_kwargs_keys : forall f e kw, func_kwargs f e = Ok kw -> map fst kw = fparams f.
Proof.
  intros f e kw H. unfold func_kwargs in H.
  rewrite <- (map_id (fparams f)). eapply mapM_fst; [|exact H].
  intros p b Hb. simpl in Hb. destruct (lookup_arg f e p); simpl in Hb; inversion Hb. reflexivity.
Qed.

Lemma select_kwargs_keys : forall ms kw ext i sel, select_kwargs ms kw ext i = Ok sel -> map fst sel = map fst kw.
Proof.
  intros ms kw ext i sel H. unfold select_kwargs in H.
  destruct (input_keys ms ext i) as [keys|e]; simpl in H; [|discriminate].
  eapply mapM_fst; [|exact H].
  intros a b Hb. simpl in Hb. destruct (dict_get keys (fst a)).
  - destruct (index_val (snd a) l); simpl in Hb; inversion Hb. reflexivity.
  - inversion Hb. reflexivity.
Qed.

Section Shape.
  Variable ubody : mfunc -> env -> outcome (list val).
  Variable dump_sub stop : bool.

  Definition entry_shape (c : mcall) : Prop := map fst (snd c) = fparams (fst c).
  Definition task_shape (t : task) : Prop := map fst (t_kw t) = fparams (t_f t).

  Lemma exec_task_shape : forall st t st' r, task_shape t -> Forall entry_shape (m_log st) ->
    exec_task ubody dump_sub st t = (st', r) -> Forall entry_shape (m_log st').
  Proof.
    intros st t st' r Ht Hall H. unfold exec_task in H.
    destruct (match t_map t with
              | Some (ms, sh, mask, i) => select_kwargs ms (t_kw t) (ext_of mask sh) i
              | None => Ok (t_kw t) end) as [sel|e] eqn:Es.
    2:{ inversion H; subst. exact Hall. }
    assert (Hsel : entry_shape (t_f t, sel)).
    { unfold entry_shape. simpl. destruct (t_map t) as [[[[ms sh] mask] i]|].
      - rewrite (select_kwargs_keys _ _ _ _ _ Es). exact Ht.
      - inversion Es; subst. exact Ht. }
    assert (Hall' : Forall entry_shape (m_log st ++ [(t_f t, sel)])).
    { apply Forall_app. split; [exact Hall|constructor; [exact Hsel|constructor]]. }
    destruct (ubody (t_f t) sel) as [outs|e]. 2:{ inversion H; subst. exact Hall'. }
    destruct (negb (length outs =? length (fouts (t_f t)))). { inversion H; subst. exact Hall'. }
    destruct dump_sub.
    - simpl in H. destruct (dump_elem t outs (m_store st)); inversion H; subst; exact Hall'.
    - inversion H; subst. exact Hall'.
  Qed.

  Lemma exec_tasks_shape' : forall ts st st' rs, Forall task_shape ts -> Forall entry_shape (m_log st) ->
    exec_tasks ubody dump_sub stop ts st = (st', rs) -> Forall entry_shape (m_log st').
  Proof.
    induction ts as [|t ts IH]; intros st st' rs Ht Hall H; simpl in H.
    - inversion H; subst. exact Hall.
    - inversion Ht; subst. destruct (exec_task ubody dump_sub st t) as [st1 r] eqn:E.
      pose proof (exec_task_shape _ _ _ _ H2 Hall E) as H1.
      destruct (is_done r || negb stop).
      + destruct (exec_tasks ubody dump_sub stop ts st1) as [st2 rs'] eqn:E2. inversion H; subst. eapply IH; eauto.
      + inversion H; subst. exact H1.
  Qed.

  Lemma gen_tasks_shape : forall shapes gen e ts, gen_tasks shapes gen e = Ok ts -> Forall task_shape ts.
  Proof.
    intros shapes gen e ts H. unfold gen_tasks in H.
    destruct (mapM _ gen) as [tss|x] eqn:E; simpl in H; [|discriminate]. inversion H; subst.
    apply mapM_forall2 in E. clear H. induction E as [|f ts0 gen' tss' Hf _ IH]; simpl; [constructor|].
    apply Forall_app. split; [|exact IH].
    destruct (func_kwargs f e) as [kw|x] eqn:Ek; simpl in Hf; [|discriminate].
    apply func_kwargs_keys in Ek. unfold tasks_of in Hf. destruct (is_mapped f).
    - destruct (fspec f); [|discriminate]. destruct (dict_get shapes (hd [] (fouts f))) as [[sh mask]|]; [|discriminate].
      inversion Hf; subst. apply Forall_forall. intros t Ht. apply in_map_iff in Ht. destruct Ht as (i & <- & _).
      exact Ek.
    - inversion Hf; subst. constructor; [exact Ek|constructor].
  Qed.

  Lemma gen_run_shape : forall shapes gen st st' rs fl, Forall entry_shape (m_log st) ->
    gen_run ubody dump_sub stop shapes gen st = (st', rs, fl) -> Forall entry_shape (m_log st').
  Proof.
    intros shapes gen st st' rs fl Hall H. unfold gen_run in H.
    destruct (gen_tasks shapes gen (m_env st)) as [ts|x] eqn:Eg. 2:{ inversion H; subst. exact Hall. }
    destruct (exec_tasks ubody dump_sub stop ts st) as [st1 rs1] eqn:Ex.
    pose proof (exec_tasks_shape' _ _ _ _ (gen_tasks_shape _ _ _ _ Eg) Hall Ex) as H1.
    destruct (first_fail rs1) as [[t r]|].
    - destruct (salvage_all dump_sub (take_done rs1) gen (m_store st1)); inversion H; subst; exact H1.
    - destruct (post_funcs dump_sub rs1 gen st1) as [st2|x] eqn:Ep; inversion H; subst; [|exact H1].
      rewrite (post_funcs_log _ _ _ _ _ Ep). exact H1.
  Qed.

  Lemma gens_run_shape : forall shapes gens st st' tr fl, Forall entry_shape (m_log st) ->
    gens_run ubody dump_sub stop shapes gens st = (st', tr, fl) -> Forall entry_shape (m_log st').
  Proof.
    intros shapes. induction gens as [|g gs IH]; intros st st' tr fl Hall H; simpl in H.
    - inversion H; subst. exact Hall.
    - destruct (gen_run ubody dump_sub stop shapes g st) as [[st1 rs] fl1] eqn:Eg.
      pose proof (gen_run_shape _ _ _ _ _ _ Hall Eg) as H1. destruct fl1.
      + inversion H; subst. exact H1.
      + destruct (gens_run ubody dump_sub stop shapes gs st1) as [[st2 rss] fl2] eqn:Er. inversion H; subst.
        eapply IH; eauto.
  Qed.

  Lemma map_run_f_shape : forall gens inputs user st tr fl,
    map_run_f ubody dump_sub stop gens inputs user = (st, tr, fl) -> Forall entry_shape (m_log st).
  Proof.
    intros gens inputs user st tr fl H. unfold map_run_f in H.
    destruct (all_shapes user inputs (concat gens)).
    - eapply gens_run_shape; [|exact H]. constructor.
    - inversion H; subst. constructor.
  Qed.

  (* a log with a raising invocation splits at the first one *)
  Lemma first_raise_split : forall l, (exists c, In c l /\ mraises ubody c) ->
    exists l1 c l2, l = l1 ++ c :: l2 /\ all_ret ubody l1 /\ mraises ubody c.
  Proof.
    induction l as [|x l IH]; intros (c & Hin & Hr); [destruct Hin|].
    destruct (ubody (fst x) (snd x)) as [v|e] eqn:E.
    - destruct Hin as [->|Hin]; [destruct Hr as [e He]; rewrite E in He; discriminate|].
      destruct (IH (ex_intro _ c (conj Hin Hr))) as (l1 & c' & l2 & -> & Hd & Hr').
      exists (x :: l1), c', l2. split; [reflexivity|]. split; [constructor; [exists v; exact E|exact Hd]|exact Hr'].
    - exists [], x, l. split; [reflexivity|]. split; [constructor|exists e; exact E].
  Qed.
End Shape.

(* ------------------------------------------------------------------ generations = depth *)
From Verif Require Proofs.MapSpecFacts.

Lemma gens_ok_depth : forall fs gens k, gens_ok_from k fs gens = true ->
  forall pre g post, gens = pre ++ g :: post -> forall f, In f g -> depth_of fs f = k + length pre.
Proof.
  intros fs. induction gens as [|g0 gens IH]; intros k H pre g post E f Hf.
  - destruct pre; discriminate.
  - simpl in H. apply andb_true_iff in H. destruct H as [H H2]. apply andb_true_iff in H. destruct H as [_ H1].
    destruct pre as [|p0 pre]; simpl in E; inversion E; subst.
    + rewrite forallb_forall in H1. specialize (H1 f Hf). apply Nat.eqb_eq in H1. simpl. lia.
    + rewrite (IH (S k) H2 pre g post eq_refl f Hf). simpl. lia.
Qed.

Lemma in_concat_firstn : forall A (x : A) n (gens : list (list A)), In x (concat (firstn n gens)) ->
  exists pre g post, gens = pre ++ g :: post /\ length pre < n /\ In x g.
Proof.
  intros A x. induction n as [|n IH]; intros gens H; [destruct H|].
  destruct gens as [|g gens]; [destruct H|]. simpl in H. apply in_app_or in H. destruct H as [H|H].
  - exists [], g, gens. split; [reflexivity|]. split; [simpl; lia|exact H].
  - destruct (IH _ H) as (pre & g' & post & -> & Hl & Hin). exists (g :: pre), g', post.
    split; [reflexivity|]. split; [simpl; lia|exact Hin].
Qed.

Lemma func_named_found : forall fs f, NoDup (map fname fs) -> In f fs -> func_named fs (fname f) = Some f.
Proof.
  induction fs as [|g fs IH]; intros f Hnd Hin; [destruct Hin|]. unfold func_named. simpl. simpl in Hnd.
  inversion Hnd; subst. destruct Hin as [->|Hin].
  - now rewrite str_eqb_refl.
  - destruct (str_eqb (fname g) (fname f)) eqn:E.
    + apply str_eqb_eq in E. exfalso. apply H1. rewrite E. apply in_map. exact Hin.
    + apply IH; assumption.
Qed.

Lemma last_str_snoc : forall l x, last_str (l ++ [x]) = Some x.
Proof.
  induction l as [|y l IH]; intros x; simpl; [reflexivity|].
  rewrite IH. destruct (l ++ [x]) eqn:E; [destruct l; discriminate|reflexivity].
Qed.

Lemma mfail_body_raises : forall tgt e f kw e', mfail_body tgt e f kw = Raised e' -> e' = e /\ sym_app f kw = tgt.
Proof.
  unfold mfail_body. intros tgt e f kw e' H. destruct (str_eqb (sym_app f kw) tgt) eqn:E.
  - inversion H. split; [reflexivity|]. apply str_eqb_eq. exact E.
  - destruct (sym_body f kw); discriminate.
Qed.

Lemma mfail_body_at : forall tgt e f kw, sym_app f kw = tgt -> mfail_body tgt e f kw = Raised e.
Proof. unfold mfail_body. intros tgt e f kw H. rewrite H, str_eqb_refl. reflexivity. Qed.

(* ------------------------------------------------------------------ the capstone (without the store conjunct) *)
Definition names_ok_m (gens : list (list mfunc)) : bool := forallb (fun f => no_paren (fname f)) (concat gens).

Definition model_no_lib (gens : list (list mfunc)) (inputs : env) (user : shape_dict)
           (dump_sub par : bool) (tgt : str) (e : exn) : bool :=
  match snd (map_run_f (mfail_body tgt e) dump_sub (negb par) gens inputs user) with
  | Some (FailLib _) => false
  | _ => true
  end.

Theorem map_capstone_head : forall gens inputs user dump_sub par inproc tgt e,
  names_ok_m gens = true -> model_no_lib gens inputs user dump_sub par tgt e = true ->
  map_head_ok gens inputs user dump_sub par inproc tgt e (map_run gens inputs user dump_sub par inproc tgt e) = true.
Proof.
  intros gens inputs user dump_sub par inproc tgt e Hnames Hnolib.
  unfold map_head_ok, map_judge, map_run.
  destruct (gens_ok gens) eqn:Hgok; [|reflexivity]. cbn [negb].
  destruct (request_ok (concat gens) inputs) eqn:Hreq; [|reflexivity]. cbn [negb].
  set (b := mfail_body tgt e) in *. set (fs := concat gens) in *.
  unfold model_no_lib in Hnolib. fold b in Hnolib.
  destruct (map_run_f b dump_sub (negb par) gens inputs user) as [[st tr] fl] eqn:Erun. simpl in Hnolib.
  cbv beta iota.
  set (lg := map (fun c : mfunc * env => sym_app (fst c) (snd c)) (m_log st)).
  set (L := if par then sort_by (fun x : str => x) lg else lg).
  rewrite un_strs_sx_strs.
  assert (HL : forall x, In x L <-> In x lg).
  { intros x. unfold L. destruct par; [|tauto]. split; apply Permutation_in; [apply sort_by_perm|symmetry; apply sort_by_perm]. }
  destruct (mem_str tgt L) eqn:Emem; [|reflexivity]. cbn [negb].
  apply mem_str_In in Emem. apply HL in Emem. unfold lg in Emem. apply in_map_iff in Emem.
  destruct Emem as (c0 & Happ0 & Hin0).
  (* well-formedness facts *)
  unfold gens_ok in Hgok. fold fs in Hgok.
  apply andb_true_iff in Hgok. destruct Hgok as [Hgok Houts]. apply andb_true_iff in Hgok. destruct Hgok as [Hdepth Hfn].
  apply nodup_names_NoDup in Hfn.
  assert (Hnp : forall h, In h fs -> no_paren (fname h) = true).
  { intros h Hh. unfold names_ok_m in Hnames. rewrite forallb_forall in Hnames. auto. }
  assert (Hpar : forall h, In h fs -> NoDup (fparams h)).
  { intros h Hh. unfold request_ok in Hreq. apply andb_true_iff in Hreq. destruct Hreq as [Hreq _].
    apply andb_true_iff in Hreq. destruct Hreq as [Hreq _]. rewrite forallb_forall in Hreq.
    specialize (Hreq h Hh). unfold func_ok in Hreq. apply andb_true_iff in Hreq. destruct Hreq as [Hreq _].
    apply andb_true_iff in Hreq. destruct Hreq as [_ Hreq]. now apply MapSpecFacts.nodup_str_NoDup. }
  (* the failing invocation *)
  assert (Hr0 : mraises b c0) by (exists e; apply mfail_body_at; exact Happ0).
  destruct (first_raise_split b (m_log st) (ex_intro _ c0 (conj Hin0 Hr0))) as (l1 & c & l2 & Elog & Hret & [e' Hrc]).
  destruct (mfail_body_raises _ _ _ _ _ Hrc) as [-> Happ].
  destruct (map_error_surfaces_or_lib b dump_sub (negb par) _ _ _ _ _ _ _ _ _ _ Erun Elog Hret Hrc) as [[Hfl Hstop]|[x Hx]].
  2:{ subst fl. discriminate. }
  subst fl.
  destruct (map_no_later_generation b dump_sub (negb par) _ _ _ _ _ _ Erun) as (_ & Hall & Hlast).
  destruct (Hlast e c eq_refl) as (pre & g & post & Egens & Hlen & Hcg).
  pose proof (map_run_f_shape b dump_sub (negb par) _ _ _ _ _ _ Erun) as Hshape.
  destruct c as [f sel]. cbn [fst snd] in *.
  assert (Hf : In f fs).
  { unfold fs. rewrite Egens, concat_app. apply in_or_app. right. simpl. apply in_or_app. left. exact Hcg. }
  assert (Hsel : map fst sel = fparams f).
  { rewrite Forall_forall in Hshape. apply (Hshape (f, sel)). rewrite Elog. apply in_or_app. right. left. reflexivity. }
  assert (Hcf : call_fname tgt = fname f) by (rewrite <- Happ; apply call_fname_sym_app; auto).
  rewrite Hcf, (func_named_found fs f Hfn Hf).
  assert (Hdf : depth_of fs f = length pre).
  { rewrite (gens_ok_depth fs gens 0 Hdepth pre g post Egens f Hcg). reflexivity. }
  (* the conjuncts *)
  assert (C1 : sx_eqb (sx_raised e) (sx_raised e) = true) by apply sx_eqb_refl.
  assert (C2 : (if inproc then note_ok f (SL [SS (s "note"); SS (fname f); sx_kws (canon_kws sel)]) tgt else true) = true).
  { destruct inproc; [|reflexivity]. unfold note_ok. rewrite !str_eqb_refl. cbn [andb].
    eapply kws_are_render; eauto. }
  assert (C3 : forallb (fun c => call_depth fs c <=? depth_of fs f) L = true).
  { apply forallb_forall. intros x Hx. apply HL in Hx. unfold lg in Hx. apply in_map_iff in Hx.
    destruct Hx as ([h hsel] & <- & Hh). cbn [fst snd]. rewrite Forall_forall in Hall.
    specialize (Hall _ Hh). cbn [fst] in Hall. rewrite Hlen in Hall.
    destruct (in_concat_firstn _ _ _ _ Hall) as (pre' & g' & post' & Eg' & Hl' & Hin').
    assert (Hhf : In h fs).
    { unfold fs. rewrite Eg', concat_app. apply in_or_app. right. simpl. apply in_or_app. left. exact Hin'. }
    unfold call_depth. rewrite (call_fname_sym_app h hsel (Hnp h Hhf)), (func_named_found fs h Hfn Hhf).
    rewrite (gens_ok_depth fs gens 0 Hdepth pre' g' post' Eg' h Hin'), Hdf. apply Nat.leb_le. simpl. lia. }
  assert (C4 : (if par then true else opt_eqb str_eqb (last_str L) (Some tgt)) = true).
  { unfold L. destruct par; [reflexivity|]. specialize (Hstop eq_refl). subst l2. unfold lg. rewrite Elog, map_app.
    simpl. rewrite last_str_snoc. cbn [opt_eqb fst snd]. rewrite Happ. apply str_eqb_refl. }
  assert (C5 : (if inproc
                then snap_ok f (SL [SS (s "snap"); SS (fname f); sx_kws (sort_by fst (canon_kws sel)); sx_exn e;
                                    sx_exn e; sx_exn e]) tgt e
                else true) = true).
  { destruct inproc; [|reflexivity]. unfold snap_ok. rewrite !str_eqb_refl, !sx_eqb_refl. cbn [andb].
    rewrite !andb_true_r. eapply kws_are_render; eauto. apply sort_by_perm. }
  cbn [map_snapshot fst snd]. destruct inproc.
  - unfold mreproduce. cbn [fst snd]. rewrite Hrc.
    apply andb_true_iff; split; [apply andb_true_iff; split; [apply andb_true_iff; split;
      [apply andb_true_iff; split; [apply andb_true_iff; split; [exact C1|exact C2]|exact C3]|exact C4]|exact C5]|reflexivity].
  - apply andb_true_iff; split; [apply andb_true_iff; split; [apply andb_true_iff; split;
      [apply andb_true_iff; split; [apply andb_true_iff; split; [exact C1|exact C2]|exact C3]|exact C4]|exact C5]|reflexivity].
Qed.
