(* C13 capstone, pipeline(...) / Pipeline.run part: the boolean statement spec_ok holds of the model's own
   observation for EVERY case (every pipeline, output, keywords, flag, failing invocation and exception), provided
   the function names contain no '(' (they are identifiers; the call log renders an invocation as name(...)).
   This ties the executable statement that judges the implementation (Corr/C13Pipe.pipe_spec_ok) to the Prop-level
   theorems of Proofs/FailingFacts.v / FailingOnceFacts.v. *)
From Coq Require Import Permutation.
From Verif Require Import Base.Prelude Base.StrOrd Base.Graph Base.StrUtil Model.Pipe Model.Failing Corr.PipeObs Corr.C13Pipe.
From Verif Require Import Proofs.GraphFacts Proofs.FailingFacts Proofs.FailingOnceFacts.

(* ------------------------------------------------------------------ generic *)
Lemma sx_eqb_refl : forall x, sx_eqb x x = true.
Proof.
  fix IH 1. intros [z|t|l]; cbn [sx_eqb].
  - apply Z.eqb_refl.
  - apply str_eqb_refl.
  - induction l as [|a l IHl]; [reflexivity|]. rewrite (IH a). cbn [andb]. exact IHl.
Qed.

Lemma optM_map_some : forall A B (f : A -> option B) (g : A -> B) l,
  (forall x, In x l -> f x = Some (g x)) -> optM f l = Some (map g l).
Proof.
  induction l as [|x l IH]; intros H; simpl; [reflexivity|].
  rewrite (H x (or_introl eq_refl)). rewrite IH; [reflexivity|]. intros y Hy. apply H. now right.
Qed.

Lemma un_strs_sx_strs : forall l, un_strs (sx_strs l) = Some l.
Proof.
  intros l. unfold un_strs, sx_strs. rewrite (optM_map_some _ _ un_str (fun x => match x with SS v => v | _ => [] end)).
  - f_equal. rewrite map_map. simpl. apply map_id.
  - intros x Hx. apply in_map_iff in Hx. destruct Hx as (y & <- & _). reflexivity.
Qed.

Lemma un_alist_sx_alist : forall d, un_alist (sx_alist d) = Some d.
Proof.
  intros d. unfold un_alist, sx_alist. induction d as [|[k v] d IH]; simpl; [reflexivity|].
  simpl in IH. destruct (optM un_pair (map (fun kv : str * str => SL [SS (fst kv); SS (snd kv)]) d)); inversion IH.
  reflexivity.
Qed.

(* ------------------------------------------------------------------ call strings *)
Definition no_paren (x : str) : bool := forallb (fun ch => negb (Ascii.eqb ch "("%char)) x.

Lemma span_no_paren : forall f rest, no_paren f = true ->
  span (fun ch => negb (Ascii.eqb ch "("%char)) (f ++ "("%char :: rest) = (f, "("%char :: rest).
Proof.
  induction f as [|c f IH]; intros rest H; simpl in *.
  - reflexivity.
  - apply andb_true_iff in H. destruct H as [H1 H2]. rewrite H1. rewrite (IH rest H2). reflexivity.
Qed.

Lemma call_fname_app : forall f args, no_paren f = true -> call_fname (Sym.app f args) = f.
Proof. intros f args H. unfold call_fname, Sym.app. simpl. rewrite (span_no_paren f _ H). reflexivity. Qed.

Lemma fail_body_raises : forall tgt e f a e', fail_body tgt e f a = Raised e' -> e' = e /\ Sym.app f a = tgt.
Proof.
  unfold fail_body. intros tgt e f a e' H. destruct (str_eqb (Sym.app f a) tgt) eqn:E; inversion H.
  split; [reflexivity|]. apply str_eqb_eq. exact E.
Qed.

Lemma fail_body_at : forall tgt e f a, Sym.app f a = tgt -> fail_body tgt e f a = Raised e.
Proof. unfold fail_body. intros tgt e f a H. rewrite H, str_eqb_refl. reflexivity. Qed.

(* ------------------------------------------------------------------ association lists *)
Lemma aget_combine : forall (ks : list str) (vs : list str) k,
  NoDup ks -> length ks = length vs -> forall i v, nth_error ks i = Some k -> nth_error vs i = Some v ->
  aget (combine ks vs) k = Some v.
Proof.
  induction ks as [|k0 ks IH]; intros vs k Hnd Hlen i v Hk Hv; [destruct i; discriminate|].
  destruct vs as [|v0 vs]; [discriminate|]. simpl. inversion Hnd; subst.
  destruct i as [|i]; simpl in Hk, Hv.
  - inversion Hk; inversion Hv; subst. now rewrite str_eqb_refl.
  - destruct (str_eqb k k0) eqn:E.
    + apply str_eqb_eq in E. subst k0. exfalso. apply H1. eapply nth_error_In; eauto.
    + eapply IH; eauto.
Qed.

Lemma aget_perm : forall l l' k, Permutation l l' -> NoDup (akeys l) -> aget l k = aget l' k.
Proof.
  intros l l' k H. induction H as [|[k0 v0] l l' H IH|[k1 v1] [k2 v2] l|l l' l'' H1 IH1 H2 IH2]; intros Hnd.
  - reflexivity.
  - simpl. simpl in Hnd. inversion Hnd; subst. destruct (str_eqb k k0); [reflexivity|apply IH; assumption].
  - simpl. simpl in Hnd. inversion Hnd as [|? ? Hn1 Hnd1]; subst.
    destruct (str_eqb k k1) eqn:E1, (str_eqb k k2) eqn:E2; try reflexivity.
    apply str_eqb_eq in E1. apply str_eqb_eq in E2. subst. exfalso. apply Hn1. left. reflexivity.
  - rewrite IH1; [|exact Hnd]. apply IH2. unfold akeys in *. eapply Permutation_NoDup; [|exact Hnd].
    apply Permutation_map. exact H1.
Qed.

(* rebuilding the argument list of an invocation from a dict that holds one value per parameter *)
Lemma rebuild_args : forall (ps : list (str * str)) (key : str * str -> str) (d : alist) (args : alist),
  map fst args = map snd ps ->
  (forall i po a, nth_error ps i = Some po -> nth_error args i = Some a -> aget d (key po) = Some (snd a)) ->
  optM (fun po : str * str => option_map (fun v => (snd po, v)) (aget d (key po))) ps = Some args.
Proof.
  induction ps as [|po ps IH]; intros key d args Hn Hget.
  - destruct args; [reflexivity|discriminate].
  - destruct args as [|[o v] args]; [discriminate|]. simpl in Hn. inversion Hn as [[Ho Hrest]].
    simpl. rewrite (Hget 0 po (o, v) eq_refl eq_refl). simpl.
    rewrite (IH key d args Hrest); [rewrite <- Ho; reflexivity|].
    intros i po' a Hp Ha. apply (Hget (S i) po' a); assumption.
Qed.

Lemma map_fst_combine : forall (ks vs : list str), length ks = length vs -> map fst (combine ks vs) = ks.
Proof.
  induction ks as [|k ks IH]; intros vs H; [reflexivity|]. destruct vs as [|v vs]; [discriminate|].
  simpl. f_equal. apply IH. simpl in H. lia.
Qed.

Lemma count_nodup : forall x l, NoDup l -> In x l -> count_str x l = 1.
Proof.
  unfold count_str. induction l as [|y l IH]; intros Hnd Hin; [destruct Hin|]. simpl. inversion Hnd; subst.
  destruct (str_eqb x y) eqn:E.
  - apply str_eqb_eq in E. subst y. simpl. f_equal.
    assert (Z : filter (str_eqb x) l = []).
    { clear -H1. induction l as [|z l IHl]; [reflexivity|]. simpl. destruct (str_eqb x z) eqn:Ez.
      - apply str_eqb_eq in Ez. subst. exfalso. apply H1. now left.
      - apply IHl. intro Hx. apply H1. now right. }
    now rewrite Z.
  - destruct Hin as [->|Hin]; [rewrite str_eqb_refl in E; discriminate|]. apply IH; assumption.
Qed.

(* ------------------------------------------------------------------ the shape of log entries *)
Section Entries.
  Variable body : str -> alist -> result str.
  Variable pick : str -> str -> str.
  Variable p : pipeline.
  Variable kw : alist.

  (* an entry is an invocation of a function of the pipeline with one argument per parameter, under the ORIGINAL
     parameter names, in signature order *)
  Definition entry_ok (c : call) : Prop :=
    exists g, In g p /\ fst c = fname g /\ map fst (snd c) = map snd (params g).

  Definition entries (rec : rstate -> str -> rstate * result str) : Prop :=
    forall st o st' r, rec st o = (st', r) -> exists new, log st' = log st ++ new /\ Forall entry_ok new.

  Lemma get_args_entries : forall rec f, entries rec -> forall ps st acc st' r,
    get_args p kw rec f ps st acc = (st', r) ->
    (exists new, log st' = log st ++ new /\ Forall entry_ok new)
    /\ (forall args, r = Ok args -> map fst args = map fst acc ++ map snd ps).
  Proof.
    intros rec f Hrec. induction ps as [|[cur orig] t IH]; intros st acc st' r H; simpl in H.
    - inversion H; subst. split; [exists []; rewrite app_nil_r; split; [reflexivity|constructor]|].
      intros args Ha. inversion Ha; subst. now rewrite app_nil_r.
    - destruct (resolve p kw rec f st cur) as [st1 rv] eqn:E.
      assert (H1 : exists new, log st1 = log st ++ new /\ Forall entry_ok new).
      { unfold resolve in E. destruct (aget (bound f) cur).
        { inversion E; subst. exists []. rewrite app_nil_r. split; [reflexivity|constructor]. }
        destruct (aget kw cur).
        { inversion E; subst. exists []. rewrite app_nil_r. split; [reflexivity|constructor]. }
        destruct (is_output p cur); [eapply Hrec; eauto|].
        destruct (pdefault p cur); inversion E; subst; exists []; rewrite app_nil_r; (split; [reflexivity|constructor]). }
      destruct H1 as (n1 & E1 & F1). destruct rv as [v|e].
      + destruct (IH _ _ _ _ H) as [(n2 & E2 & F2) Hn]. simpl in E2. split.
        * exists (n1 ++ n2). split; [rewrite E2, E1; now rewrite app_assoc|apply Forall_app; auto].
        * intros args Ha. rewrite (Hn args Ha). rewrite map_app. simpl. now rewrite <- app_assoc.
      + inversion H; subst. split; [exists n1; auto|]. intros args Ha. discriminate.
  Qed.

  Lemma run_out_entries : forall fuel, entries (run_out body pick p kw fuel).
  Proof.
    induction fuel as [|n IH]; intros st o st' r H; simpl in H.
    - inversion H; subst. exists []. rewrite app_nil_r. split; [reflexivity|constructor].
    - destruct (aget (res st) o).
      { inversion H; subst. exists []. rewrite app_nil_r. split; [reflexivity|constructor]. }
      destruct (producer p o) as [f|] eqn:Ep.
      2:{ inversion H; subst. exists []. rewrite app_nil_r. split; [reflexivity|constructor]. }
      assert (Hf : In f p) by (unfold producer in Ep; apply find_some in Ep; tauto).
      destruct (get_args p kw (run_out body pick p kw n) f (params f) st []) as [st1 ra] eqn:E.
      destruct (get_args_entries _ f IH _ _ _ _ _ E) as [(n1 & E1 & F1) Hn].
      destruct ra as [args|e]. 2:{ inversion H; subst. exists n1. auto. }
      assert (Hc : entry_ok (fname f, args)).
      { exists f. split; [exact Hf|]. split; [reflexivity|]. simpl. apply (Hn args eq_refl). }
      assert (G : forall stx, log stx = log st1 ++ [(fname f, args)] ->
                              exists new, log stx = log st ++ new /\ Forall entry_ok new).
      { intros stx Hl. exists (n1 ++ [(fname f, args)]). split; [rewrite Hl, E1; now rewrite app_assoc|].
        apply Forall_app. split; [exact F1|constructor; [exact Hc|constructor]]. }
      destruct (body (fname f) args) as [v|e].
      + inversion H; subst. apply G. reflexivity.
      + inversion H; subst. apply G. reflexivity.
  Qed.

  Lemma run_entries : forall o full, Forall entry_ok (snd (Pipe.run body pick p o kw full)).
  Proof.
    intros o full. unfold Pipe.run.
    destruct (negb (is_node p o)); [constructor|]. destruct (ahas kw o); [constructor|].
    destruct (run_out body pick p kw (S (length p)) (init_state kw) o) as [st r] eqn:E.
    destruct (run_out_entries _ _ _ _ _ E) as (new & El & Fn). simpl in El. subst new.
    destruct r as [v|e]; [destruct (unused_kw kw st)|]; simpl; exact Fn.
  Qed.
End Entries.

(* ------------------------------------------------------------------ the capstone *)
From Verif Require Proofs.PipeFacts.

Definition names_ok (p : pipeline) : bool := forallb (fun f => no_paren (fname f)) p.

Lemma run_f_log : forall ub pick p o kw full,
  snd (run_f ub pick p o kw full) = snd (Pipe.run (enc ub) pick p o kw full).
Proof.
  intros. unfold run_f. destruct (Pipe.run (enc ub) pick p o kw full) as [r lg]. simpl.
  destruct r as [v|x]; [reflexivity|]. destruct x; try reflexivity.
  destruct (last_opt lg) as [c|]; [|reflexivity]. destruct (ub (fst c) (snd c)); reflexivity.
Qed.

Lemma last_opt_map : forall A B (f : A -> B) l x, last_opt (map f (l ++ [x])) = Some (f x).
Proof. intros. rewrite map_app. simpl. apply last_opt_snoc. Qed.

Lemma nth_error_map_fst : forall (ps : list (str * str)) i po, nth_error ps i = Some po ->
  nth_error (map fst ps) i = Some (fst po).
Proof. intros ps i po H. now rewrite nth_error_map, H. Qed.

Theorem pipe_capstone : forall p o kw full tgt e,
  names_ok p = true -> pipe_spec_ok p o kw full tgt e (pipe_run p o kw full tgt e) = true.
Proof.
  intros p o kw full tgt e Hnames. unfold pipe_spec_ok, pipe_run.
  destruct (wf_pipelineb p) eqn:Hwfb; [|reflexivity]. cbn [negb].
  set (b := fail_body tgt e).
  destruct (run_f b Sym.pick p o kw full) as [r lg] eqn:Erun.
  cbv beta iota. unfold sx_log. rewrite un_strs_sx_strs.
  destruct (mem_str tgt (map Sym.show_call lg)) eqn:Emem; [|reflexivity]. cbn [negb].
  (* the failing invocation *)
  apply mem_str_In in Emem. apply in_map_iff in Emem. destruct Emem as (c0 & Hshow0 & Hin0).
  assert (Hlog : snd (Pipe.run (enc b) Sym.pick p o kw full) = lg).
  { rewrite <- run_f_log, Erun. reflexivity. }
  assert (Hr0 : raises b c0).
  { exists e. apply fail_body_at. exact Hshow0. }
  destruct (run_never_swallows b Sym.pick p o kw full c0) as (e' & n & Hfst); [rewrite Hlog; exact Hin0|exact Hr0|].
  rewrite Erun in Hfst. simpl in Hfst. subst r.
  destruct (run_raised_sound _ _ _ _ _ _ _ _ _ Erun) as (lg1 & c & -> & Hret & Hrc & ->).
  destruct c as [cf args]. cbn [fst snd] in Hrc.
  destruct (fail_body_raises _ _ _ _ _ Hrc) as [-> Happ].
  (* the failing function *)
  pose proof (run_entries (enc b) Sym.pick p kw o full) as Hent. rewrite Hlog in Hent.
  assert (Hentc : entry_ok p (cf, args)).
  { rewrite Forall_forall in Hent. apply Hent. apply in_or_app. right. left. reflexivity. }
  destruct Hentc as (g & Hg & Hfn & Hargs). cbn [fst snd] in Hfn, Hargs.
  destruct (PipeFacts.wf_pipeline_elim p Hwfb) as (ls & Hwf).
  pose proof (PipeFacts.wf_funcs _ _ Hwf g Hg) as Hwg.
  assert (Hnp : forall h, In h p -> no_paren (fname h) = true).
  { intros h Hh. unfold names_ok in Hnames. rewrite forallb_forall in Hnames. auto. }
  assert (Htgt : tgt = Sym.app (fname g) args) by (rewrite <- Happ, Hfn; reflexivity).
  assert (Hcf : call_fname tgt = fname g) by (rewrite Htgt; apply call_fname_app; auto).
  assert (Hfind : func_named p (fname g) = Some g).
  { unfold func_named. destruct (find (fun f => str_eqb (fname f) (fname g)) p) as [g'|] eqn:Ef.
    - apply find_some in Ef. destruct Ef as [Hg' Hn']. apply str_eqb_eq in Hn'.
      f_equal. eapply PipeFacts.fname_inj; eauto.
    - exfalso. pose proof (find_none _ _ Ef g Hg) as Hn. simpl in Hn. rewrite str_eqb_refl in Hn. discriminate. }
  rewrite Hcf, Hfind.
  (* shape of the arguments *)
  assert (Hlen : length args = length (params g)).
  { rewrite <- (map_length fst args), Hargs, map_length. reflexivity. }
  assert (Hargs_eq : args = combine (map snd (params g)) (map snd args)).
  { rewrite <- Hargs. clear. induction args as [|[k v] l IH]; simpl; [reflexivity|]. now rewrite <- IH. }
  (* 1: same type and message *)
  assert (C1 : is_raised (sx_raised e) e = true) by apply sx_eqb_refl.
  (* 2: the note *)
  assert (C2 : note_ok g (sx_note (fst (note_of p (cf, args))) (snd (note_of p (cf, args)))) tgt = true).
  { unfold note_of. cbn [fst snd]. rewrite Hfn, Hfind. cbn [fst snd]. unfold note_ok, sx_note.
    rewrite str_eqb_refl, str_eqb_refl. cbn [andb]. rewrite un_alist_sx_alist.
    set (d := combine (pnames g) (map snd args)).
    assert (Hd1 : length d = length (params g)).
    { unfold d, pnames. rewrite combine_length, !map_length, Hlen. apply Nat.min_id. }
    assert (Hd2 : akeys d = pnames g).
    { unfold d, akeys. apply map_fst_combine. unfold pnames. rewrite !map_length. symmetry. exact Hlen. }
    rewrite Hd1, Nat.eqb_refl, Hd2. cbn [andb].
    rewrite (proj2 (nodup_strb_NoDup _) (PipeFacts.wff_pn_nd _ Hwg)). cbn [andb].
    unfold kwargs_are. apply orb_true_iff. left. unfold kwargs_by.
    rewrite (rebuild_args (params g) fst d args Hargs).
    - rewrite Htgt. apply str_eqb_refl.
    - intros i po a Hpo Ha. unfold d. eapply aget_combine.
      + exact (PipeFacts.wff_pn_nd _ Hwg).
      + unfold pnames. rewrite !map_length. symmetry. exact Hlen.
      + apply nth_error_map_fst. exact Hpo.
      + rewrite nth_error_map, Ha. reflexivity. }
  (* 3/4: last entry, called once *)
  assert (C3 : opt_eqb str_eqb (last_opt (map Sym.show_call (lg1 ++ [(cf, args)]))) (Some tgt) = true).
  { rewrite last_opt_map. cbn [opt_eqb]. unfold Sym.show_call. cbn [fst snd]. rewrite Happ. apply str_eqb_refl. }
  assert (C4 : (count_str (fname g) (map call_fname (map Sym.show_call (lg1 ++ [(cf, args)]))) =? 1) = true).
  { assert (Hm : map call_fname (map Sym.show_call (lg1 ++ [(cf, args)])) = map fst (lg1 ++ [(cf, args)])).
    { rewrite map_map. apply map_ext_in. intros x Hx. rewrite Forall_forall in Hent.
      destruct (Hent x Hx) as (h & Hh & Hfx & _). unfold Sym.show_call. rewrite Hfx. apply call_fname_app. auto. }
    rewrite Hm. rewrite count_nodup; [reflexivity| |].
    - pose proof (run_calls_once b Sym.pick p o kw full Hwfb) as Hnd. rewrite Hlog in Hnd. exact Hnd.
    - rewrite <- Hfn. apply in_map_iff. exists (cf, args). split; [reflexivity|]. apply in_or_app. right. left. reflexivity. }
  (* 5: the snapshot *)
  assert (Hsnap : run_snapshot b Sym.pick p o kw full = Some (snapshot_of (cf, args) e)).
  { unfold run_snapshot. unfold run_f in Erun.
    destruct (Pipe.run (enc b) Sym.pick p o kw full) as [r0 lg0]. simpl in Hlog. subst lg0.
    destruct r0 as [v|x]; [inversion Erun|]. destruct x; try (inversion Erun; fail).
    rewrite last_opt_snoc. cbn [fst snd]. rewrite Hrc. reflexivity. }
  rewrite Hsnap. cbn [sn_fname sn_kwargs sn_exn snapshot_of reproduce fst snd].
  assert (C5 : snap_ok g (SL [SS (s "snap"); SS cf; sx_sorted_dict args; sx_exn e;
                              sx_repro (b cf args); sx_repro (b cf args)]) tgt e = true).
  { rewrite Hrc. cbn [sx_repro]. unfold snap_ok. rewrite Hfn, !str_eqb_refl. cbn [andb].
    unfold sx_sorted_dict. rewrite un_alist_sx_alist.
    pose proof (sort_perm (fun a b0 : str * str => str_ltb (fst a) (fst b0)) args) as Hperm.
    fold (sort_by_key args) in Hperm.
    assert (Hk : NoDup (akeys args)) by (unfold akeys; rewrite Hargs; exact (PipeFacts.wff_orig_nd _ Hwg)).
    rewrite (Permutation_length Hperm), Hlen, Nat.eqb_refl. cbn [andb].
    assert (Hk' : NoDup (akeys (sort_by_key args))).
    { unfold akeys. eapply Permutation_NoDup; [|exact Hk]. apply Permutation_map. symmetry. exact Hperm. }
    rewrite (proj2 (nodup_strb_NoDup _) Hk'). cbn [andb].
    rewrite !sx_eqb_refl. rewrite !andb_true_r.
    unfold kwargs_are. apply orb_true_iff. right. unfold kwargs_by.
    rewrite (rebuild_args (params g) snd (sort_by_key args) args Hargs).
    - rewrite Htgt. apply str_eqb_refl.
    - intros i po a Hpo Ha. rewrite <- (aget_perm args _ _ (Permutation_sym Hperm) Hk).
      apply PipeFacts.aget_NoDup_In; [exact Hk|].
      assert (Hk0 : nth_error (map fst args) i = Some (snd po)) by (rewrite Hargs, nth_error_map, Hpo; reflexivity).
      rewrite nth_error_map, Ha in Hk0. inversion Hk0 as [Hk1].
      destruct a; simpl. eapply nth_error_In; eauto. }
  unfold reproduce, snapshot_of. cbn [sn_fname sn_kwargs fst snd].
  apply andb_true_iff; split; [apply andb_true_iff; split; [apply andb_true_iff; split;
    [apply andb_true_iff; split; [exact C1|exact C2]|exact C3]|exact C4]|exact C5].
Qed.
