(* The executable statement spec_ok holds of the model's own observation (pair cases), under the guards. *)
From Verif Require Import Base.Prelude Model.PyVal Model.ToHashable Model.ToHashableSpec Corr.Run_C15.
From Verif Require Import Proofs.ToHashableFacts.

Lemma un_bool_SB : forall b, un_bool (SB b) = Some b.
Proof. destruct b; reflexivity. Qed.

Lemma side_ok_model : forall fp v,
  wf v = true ->
  side_ok fp v (obs_side (to_hashable fp v)) (obs_stable (to_hashable fp v)) = true.
Proof.
  intros fp v Hwf. unfold side_ok. destruct (convertible fp v) eqn:Hc; [|reflexivity]. cbn [negb].
  destruct (total_on_supported fp v Hwf Hc) as [k Hk]. rewrite Hk.
  assert (Hh := key_hashable fp v k Hwf Hk).
  unfold obs_side, obs_stable, side_is_ok_hashable. rewrite Hh, !un_bool_SB.
  destruct (has_opaque v); reflexivity.
Qed.

Definition pair_guard (v : pyval) : bool :=
  supported v && no_pandas v.

Theorem spec_ok_pair : forall fp v w,
  pair_guard v = true -> pair_guard w = true -> spec_ok (CPair fp v w) (run (CPair fp v w)) = true.
Proof.
  intros fp v w Hv Hw. unfold pair_guard in Hv, Hw.
  repeat match goal with H : _ && _ = true |- _ => apply andb_true_iff in H; destruct H end.
  match goal with H : supported v = true |- _ => rename H into Hsv end.
  match goal with H : supported w = true |- _ => rename H into Hsw end.
  assert (Hwfv : wf v = true) by (unfold supported in Hsv; apply andb_true_iff in Hsv; tauto).
  assert (Hwfw : wf w = true) by (unfold supported in Hsw; apply andb_true_iff in Hsw; tauto).
  cbn [spec_ok run]. rewrite Hsv, Hsw. cbn [andb negb]. unfold run_pair.
  rewrite (side_ok_model fp v), (side_ok_model fp w) by auto. cbn [andb].
  destruct (to_hashable fp v) as [k|e] eqn:Hk; [|destruct e; reflexivity].
  destruct (to_hashable fp w) as [k'|e] eqn:Hk'; [|destruct e; reflexivity].
  cbn [obs_side side_is_ok]. replace (str_eqb (s "ok") (s "ok")) with true by reflexivity. cbn [andb].
  rewrite un_bool_SB.
  destruct (py_same v w) eqn:Hs.
  - rewrite (eq_implies_key_eq fp v w k k'); auto.
  - destruct (py_eq k k') eqn:He; [|reflexivity].
    rewrite (key_eq_implies_eq fp v w k k') in Hs; auto; discriminate.
Qed.

(* ---------- memoize: a stored result is returned only for equal arguments ---------- *)
Definition memo_inv (all : list pyval) (i : nat) (store : list (pyval * nat)) : Prop :=
  forall k j, In (k, j) store -> j < i /\ exists a, nth_error all j = Some a /\ memo_key a = Ok k.

Lemma memo_find_in : forall k store j, memo_find k store = Some j -> exists k', In (k', j) store /\ py_eq k' k = true.
Proof.
  induction store as [|[k' i] t IH]; intros j H; simpl in H; [discriminate|].
  destruct (py_eq k' k) eqn:E.
  - inversion H; subst. exists k'. simpl. auto.
  - destruct (IH j H) as (k2 & Hin & He). exists k2. simpl. auto.
Qed.

Lemma memo_run_ok : forall all, (forall a, In a all -> supported a = true /\ no_pandas a = true) ->
  forall rest i store, skipn i all = rest -> memo_inv all i store ->
  memo_ok all i (memo_run i rest store) = true.
Proof.
  intros all Hall. induction rest as [|a t IH]; intros i store Hsk Hinv; simpl; auto.
  assert (Hnth : nth_error all i = Some a).
  { clear -Hsk. revert i Hsk. induction all as [|x all IH]; intros i Hsk; destruct i; simpl in *; try discriminate.
    - inversion Hsk; auto.
    - auto. }
  assert (Hsk' : skipn (S i) all = t).
  { clear -Hsk. revert i Hsk. induction all as [|x all IH]; intros i Hsk; destruct i; simpl in *; try discriminate.
    - inversion Hsk; auto.
    - auto. }
  assert (Hinv' : memo_inv all (S i) store).
  { intros k j Hin. destruct (Hinv k j Hin) as [Hlt Hex]. split; auto. }
  destruct (memo_key a) as [k|e] eqn:Hk.
  - destruct (py_hashable k) eqn:Hh; cbn [negb].
    + destruct (memo_find k store) as [j|] eqn:Hf.
      * cbn [memo_ok]. rewrite IH by auto. rewrite andb_true_r.
        replace (sx_is_err (SN j)) with false by reflexivity.
        unfold SN. destruct (memo_find_in k store j Hf) as (k' & Hin & He).
        destruct (Hinv k' j Hin) as [Hlt (aj & Hj & Hkj)].
        rewrite Nat2Z.id. rewrite Hj, Hnth.
        assert (Hsame : py_same aj a = true).
        { destruct (Hall aj (nth_error_In _ _ Hj)) as [Hs1 Hp1].
          destruct (Hall a (nth_error_In _ _ Hnth)) as [Hs2 Hp2].
          eapply (key_eq_implies_eq true aj a k' k); eauto. }
        rewrite Hsame, orb_true_r, andb_true_r.
        apply andb_true_iff. split; [apply Z.leb_le; lia|apply Nat.leb_le; lia].
      * cbn [memo_ok]. replace (sx_is_err (SN i)) with false by reflexivity. unfold SN. rewrite Nat2Z.id.
        rewrite Nat.eqb_refl. cbn [orb]. rewrite andb_true_r.
        assert (H0 : ((0 <=? Z.of_nat i)%Z && (i <=? i)) = true).
        { apply andb_true_iff. split; [apply Z.leb_le; lia|apply Nat.leb_le; lia]. }
        rewrite H0. cbn [andb]. apply IH; auto.
        intros k2 j Hin. apply in_app_or in Hin. destruct Hin as [Hin|[Hin|[]]].
        -- apply Hinv'; auto.
        -- inversion Hin; subst. split; [lia|]. eauto.
    + cbn [memo_ok]. rewrite IH by auto. destruct TypeError; reflexivity.
  - cbn [memo_ok]. rewrite IH by auto. destruct e; reflexivity.
Qed.

Theorem spec_ok_memo : forall args,
  (forall a, In a args -> supported a = true /\ no_pandas a = true) ->
  spec_ok (CMemo args) (run (CMemo args)) = true.
Proof.
  intros args Hall. cbn [spec_ok run].
  assert (Hsup : forallb supported args = true) by (apply forallb_forall; intros a Ha; apply Hall; auto).
  rewrite Hsup. cbn [negb].
  assert (Hlen : forall rest i store, length (memo_run i rest store) = length rest).
  { induction rest as [|a t IH]; intros i store; simpl; auto.
    destruct (memo_key a); [destruct (negb (py_hashable a0)); [|destruct (memo_find a0 store)]|]; simpl; rewrite IH; auto. }
  rewrite Hlen, Nat.eqb_refl. cbn [andb].
  apply memo_run_ok; auto. intros k j [].
Qed.

(* ---------- re-keying after an in-place update: the key is a function of the value alone ---------- *)
Theorem spec_ok_rekey : forall v w,
  pair_guard v = true -> pair_guard w = true -> spec_ok (CRekey v w) (run (CRekey v w)) = true.
Proof.
  intros v w Hv Hw. unfold pair_guard in Hv, Hw.
  repeat match goal with H : _ && _ = true |- _ => apply andb_true_iff in H; destruct H end.
  match goal with H : supported v = true |- _ => rename H into Hsv end.
  match goal with H : supported w = true |- _ => rename H into Hsw end.
  assert (Hwfv : wf v = true) by (unfold supported in Hsv; apply andb_true_iff in Hsv; tauto).
  assert (Hwfw : wf w = true) by (unfold supported in Hsw; apply andb_true_iff in Hsw; tauto).
  cbn [spec_ok run]. rewrite Hsv, Hsw. cbn [andb negb].
  destruct (to_hashable true v) as [k0|e] eqn:Hk0; [|destruct e; reflexivity].
  destruct (to_hashable true w) as [k1|e] eqn:Hk1; [|destruct e; reflexivity].
  replace (sx_is_err (SL [SB (py_eq k1 k1); SB (py_eq k1 k0)])) with false by (destruct (py_eq k1 k1); reflexivity).
  rewrite !un_bool_SB. unfold py_eq at 1. rewrite rel_refl. cbn [andb].
  destruct (py_same w v) eqn:Hs.
  - rewrite (eq_implies_key_eq true w v k1 k0); auto.
  - destruct (py_eq k1 k0) eqn:He; [|reflexivity].
    rewrite (key_eq_implies_eq true w v k1 k0) in Hs; auto; discriminate.
Qed.

(* ---------- DiskCache file names ---------- *)
Theorem spec_ok_pickle : forall v, spec_ok (CPickle v) (run (CPickle v)) = true.
Proof.
  intros v. cbn [spec_ok run]. destruct (negb (supported v && negb (has_opaque v))); [reflexivity|].
  destruct (to_hashable true v) as [k|e]; [reflexivity|destruct e; reflexivity].
Qed.

(* ---------- capstone: the executable statement holds of the model's observation for every case kind,
   outside the one remaining known region (pandas values) ---------- *)
Definition case_guard (c : case) : bool :=
  match c with
  | CPair _ v w => pair_guard v && pair_guard w
  | CMemo args => forallb pair_guard args
  | CPickle _ => true
  | CRekey v w => pair_guard v && pair_guard w
  end.

Theorem spec_ok_all : forall c, case_guard c = true -> spec_ok c (run c) = true.
Proof.
  intros c H. destruct c as [fp v w|args|v|v w]; cbn [case_guard] in H.
  - apply andb_true_iff in H. destruct H. apply spec_ok_pair; auto.
  - apply spec_ok_memo. intros a Ha. rewrite forallb_forall in H. specialize (H a Ha).
    unfold pair_guard in H. apply andb_true_iff in H. exact H.
  - apply spec_ok_pickle.
  - apply andb_true_iff in H. destruct H. apply spec_ok_rekey; auto.
Qed.
