(* The canonical sort key (Model/PyVal.ck, ckey): its order is a strict total order, sorting keys is canonical. *)
From Coq Require Import Permutation Sorted.
From Verif Require Import Base.Prelude Model.PyVal Proofs.PyValFacts.

(* ---------- induction over nested keys ---------- *)
Section CkInd.
  Variable P : ck -> Prop.
  Hypothesis H : forall t p ks, Forall P ks -> P (CK t p ks).
  Fixpoint ck_ind2 (a : ck) : P a :=
    match a with
    | CK t p ks =>
        H t p ks ((fix go (l : list ck) : Forall P l :=
                     match l with [] => Forall_nil _ | x :: r => Forall_cons x (ck_ind2 x) (go r) end) ks)
    end.
End CkInd.

Fixpoint eqk (l l' : list ck) : bool :=
  match l, l' with
  | [], [] => true
  | x :: r, y :: r' => ck_eqb x y && eqk r r'
  | _, _ => false
  end.
Fixpoint lexk (l l' : list ck) : bool :=
  match l, l' with
  | _, [] => false
  | [], _ :: _ => true
  | x :: r, y :: r' => ck_ltb x y || (ck_eqb x y && lexk r r')
  end.

Lemma ck_eqb_unfold : forall t p ks t' p' ks',
  ck_eqb (CK t p ks) (CK t' p' ks') = list_eqb Z.eqb t t' && list_eqb Z.eqb p p' && eqk ks ks'.
Proof.
  reflexivity.
Qed.
Lemma ck_ltb_unfold : forall t p ks t' p' ks',
  ck_ltb (CK t p ks) (CK t' p' ks') =
  lex_ltb t t' || (list_eqb Z.eqb t t' && (lex_ltb p p' || (list_eqb Z.eqb p p' && lexk ks ks'))).
Proof.
  reflexivity.
Qed.

Lemma zlist_eqb_refl : forall a, list_eqb Z.eqb a a = true.
Proof. induction a; simpl; auto. rewrite Z.eqb_refl. auto. Qed.
Lemma zlist_eqb_iff : forall a b, list_eqb Z.eqb a b = true <-> a = b.
Proof. intros a b. split; [apply list_eqb_Z_eq|intros ->; apply zlist_eqb_refl]. Qed.

Lemma ck_eqb_iff : forall a b, ck_eqb a b = true <-> a = b.
Proof.
  induction a as [t p ks IH] using ck_ind2. intros [t' p' ks']. rewrite ck_eqb_unfold. split.
  - intros H. apply andb_true_iff in H. destruct H as [H Hk]. apply andb_true_iff in H. destruct H as [Ht Hp].
    apply list_eqb_Z_eq in Ht, Hp. subst. f_equal.
    revert ks' Hk. induction IH as [|x r Hx _ IHr]; intros ks' Hk; destruct ks' as [|y r']; simpl in Hk; try discriminate; auto.
    apply andb_true_iff in Hk. destruct Hk as [H1 H2]. apply Hx in H1. subst. f_equal. auto.
  - intros E. inversion E; subst. rewrite !zlist_eqb_refl. simpl.
    clear E. induction IH as [|x r Hx _ IHr]; simpl; auto. rewrite (proj2 (Hx x) eq_refl). auto.
Qed.
Lemma ck_eqb_refl : forall a, ck_eqb a a = true.
Proof. intros. apply ck_eqb_iff. reflexivity. Qed.

(* ---------- strict total order ---------- *)
Definition cklt (a b : ck) : Prop := ck_ltb a b = true.

Lemma lex_ltb_irrefl : forall a, lex_ltb a a = false.
Proof. intros a. destruct (lex_ltb a a) eqn:E; auto. exfalso. exact (lex_irrefl a E). Qed.

Definition ck_good (a : ck) : Prop :=
  ck_ltb a a = false
  /\ (forall b c, ck_ltb a b = true -> ck_ltb b c = true -> ck_ltb a c = true)
  /\ (forall b, ck_ltb a b = true \/ a = b \/ ck_ltb b a = true).

Lemma lexk_irrefl : forall l, Forall ck_good l -> lexk l l = false.
Proof.
  induction 1 as [|x r (Hx & _ & _) _ IH]; simpl; auto. rewrite Hx, ck_eqb_refl, IH. reflexivity.
Qed.
Lemma lexk_trans : forall l, Forall ck_good l -> forall l' l'', lexk l l' = true -> lexk l' l'' = true -> lexk l l'' = true.
Proof.
  induction 1 as [|x r (_ & Hx & _) _ IH]; intros l' l'' H1 H2.
  - destruct l' as [|y r']; [discriminate|]. destruct l''; [simpl in H2; discriminate|]. reflexivity.
  - destruct l' as [|y r']; [discriminate|]. destruct l'' as [|z r'']; [simpl in H2; discriminate|].
    simpl in *. apply orb_true_iff in H1. apply orb_true_iff in H2. apply orb_true_iff.
    destruct H1 as [H1|H1]; destruct H2 as [H2|H2].
    + left. eapply Hx; eauto.
    + apply andb_true_iff in H2. destruct H2 as [E _]. apply ck_eqb_iff in E. subst. auto.
    + apply andb_true_iff in H1. destruct H1 as [E _]. apply ck_eqb_iff in E. subst. auto.
    + apply andb_true_iff in H1. destruct H1 as [E1 H1]. apply andb_true_iff in H2. destruct H2 as [E2 H2].
      apply ck_eqb_iff in E1, E2. subst. right. rewrite ck_eqb_refl. simpl. eapply IH; eauto.
Qed.
Lemma lexk_total : forall l, Forall ck_good l -> forall l', lexk l l' = true \/ l = l' \/ lexk l' l = true.
Proof.
  induction 1 as [|x r (_ & _ & Hx) _ IH]; intros l'; destruct l' as [|y r']; simpl; auto.
  destruct (Hx y) as [H|[H|H]].
  - rewrite H. auto.
  - subst y. rewrite ck_eqb_refl. destruct (IH r') as [H|[H|H]].
    + rewrite H. left. apply orb_true_r.
    + subst. auto.
    + rewrite H. right. right. apply orb_true_r.
  - rewrite H. auto.
Qed.

Lemma ck_all_good : forall a, ck_good a.
Proof.
  induction a as [t p ks IH] using ck_ind2. repeat split.
  - rewrite ck_ltb_unfold, !lex_ltb_irrefl, !zlist_eqb_refl, (lexk_irrefl ks IH). reflexivity.
  - intros [t' p' ks'] [t'' p'' ks'']. rewrite !ck_ltb_unfold. intros H1 H2.
    apply orb_true_iff in H1. apply orb_true_iff in H2. apply orb_true_iff.
    destruct H1 as [H1|H1]; destruct H2 as [H2|H2].
    + left. eapply lex_trans; eauto.
    + apply andb_true_iff in H2. destruct H2 as [E _]. apply list_eqb_Z_eq in E. subst. auto.
    + apply andb_true_iff in H1. destruct H1 as [E _]. apply list_eqb_Z_eq in E. subst. auto.
    + apply andb_true_iff in H1. destruct H1 as [E1 H1]. apply andb_true_iff in H2. destruct H2 as [E2 H2].
      apply list_eqb_Z_eq in E1, E2. subst. right. rewrite zlist_eqb_refl. cbn [andb].
      apply orb_true_iff in H1. apply orb_true_iff in H2. apply orb_true_iff.
      destruct H1 as [H1|H1]; destruct H2 as [H2|H2].
      * left. eapply lex_trans; eauto.
      * apply andb_true_iff in H2. destruct H2 as [E _]. apply list_eqb_Z_eq in E. subst. auto.
      * apply andb_true_iff in H1. destruct H1 as [E _]. apply list_eqb_Z_eq in E. subst. auto.
      * apply andb_true_iff in H1. destruct H1 as [E1 H1]. apply andb_true_iff in H2. destruct H2 as [E2 H2].
        apply list_eqb_Z_eq in E1, E2. subst. right. rewrite zlist_eqb_refl. cbn [andb]. eapply lexk_trans; eauto.
  - intros [t' p' ks']. rewrite !ck_ltb_unfold.
    destruct (lex_total t t') as [H|[H|H]]; unfold lexlt in H.
    + rewrite H. auto.
    + subst t'. rewrite lex_ltb_irrefl, zlist_eqb_refl. cbn [orb andb].
      destruct (lex_total p p') as [H|[H|H]]; unfold lexlt in H.
      * rewrite H. auto.
      * subst p'. rewrite lex_ltb_irrefl, zlist_eqb_refl. cbn [orb andb].
        destruct (lexk_total ks IH ks') as [H|[H|H]]; [auto|subst; auto|auto].
      * rewrite H. auto.
    + rewrite H. auto.
Qed.

Lemma ck_irrefl : forall a, ~ cklt a a.
Proof. intros a H. unfold cklt in H. destruct (ck_all_good a) as (E & _ & _). congruence. Qed.
Lemma ck_trans : forall a b c, cklt a b -> cklt b c -> cklt a c.
Proof. intros a b c. unfold cklt. destruct (ck_all_good a) as (_ & T & _). apply T. Qed.
Lemma ck_total : forall a b, cklt a b \/ a = b \/ cklt b a.
Proof. intros a b. unfold cklt. destruct (ck_all_good a) as (_ & _ & T). apply T. Qed.
Lemma ck_asym : forall a b, cklt a b -> ck_ltb b a = false.
Proof.
  intros a b H. destruct (ck_ltb b a) eqn:E; auto. exfalso. exact (ck_irrefl a (ck_trans _ _ _ H E)).
Qed.

(* ---------- sorting keys is canonical ---------- *)
Lemma ck_insert_perm : forall x l, Permutation (x :: l) (ck_insert x l).
Proof.
  induction l as [|y t IH]; simpl; auto. destruct (ck_ltb y x); auto.
  apply Permutation_trans with (y :: x :: t); [apply perm_swap|]. apply perm_skip. exact IH.
Qed.
Lemma ck_sort_perm : forall l, Permutation l (ck_sort l).
Proof.
  induction l as [|x l IH]; simpl; auto.
  apply Permutation_trans with (x :: ck_sort l); auto. apply ck_insert_perm.
Qed.

Lemma ck_le_lt : forall z x y, ck_ltb z x = false -> ck_ltb z y = true -> ck_ltb x y = true.
Proof.
  intros z x y Hzx Hzy. destruct (ck_total x z) as [H|[H|H]]; unfold cklt in H.
  - exact (ck_trans _ _ _ H Hzy).
  - subst. exact Hzy.
  - congruence.
Qed.

Lemma ck_insert_comm : forall x y l, ck_insert x (ck_insert y l) = ck_insert y (ck_insert x l).
Proof.
  intros x y l. induction l as [|z t IH]; simpl.
  - destruct (ck_total x y) as [H|[H|H]]; unfold cklt in H.
    + rewrite H, (ck_asym _ _ H). reflexivity.
    + subst. reflexivity.
    + rewrite H, (ck_asym _ _ H). reflexivity.
  - destruct (ck_ltb z y) eqn:Ezy; destruct (ck_ltb z x) eqn:Ezx; simpl; rewrite ?Ezy, ?Ezx.
    + f_equal. exact IH.
    + rewrite (ck_le_lt z x y Ezx Ezy). simpl. rewrite ?Ezy. reflexivity.
    + rewrite (ck_le_lt z y x Ezy Ezx). simpl. rewrite ?Ezx. reflexivity.
    + destruct (ck_total x y) as [H|[H|H]]; unfold cklt in H.
      * rewrite H, (ck_asym _ _ H). simpl. rewrite ?Ezy. reflexivity.
      * subst. reflexivity.
      * rewrite H, (ck_asym _ _ H). simpl. rewrite ?Ezx. reflexivity.
Qed.

Lemma ck_sort_canon : forall l l', Permutation l l' -> ck_sort l = ck_sort l'.
Proof.
  induction 1; simpl; auto.
  - rewrite IHPermutation. reflexivity.
  - apply ck_insert_comm.
  - congruence.
Qed.

(* ---------- the key identifies a hashable value up to Python's == ---------- *)
Ltac tagneq H := inversion H as [[Ht Hp Hk]]; try (vm_compute in Ht; discriminate).

Lemma ckey_atoms : forall a b, wf (PA a) = true -> atom_hashable a = true -> wf (PA b) = true -> atom_hashable b = true ->
  (atom_eq a b = true <-> ckey (PA a) = ckey (PA b)).
Proof.
  intros a b Wa Ha Wb Hb.
  destruct a; try discriminate; destruct b; try discriminate;
    unfold atom_eq; cbn [numval ckey]; (split; intros H; [try discriminate|try (tagneq H; fail)]).
  all: try (apply Z.eqb_eq in H; rewrite H; reflexivity).
  all: try (apply Z.eqb_eq; congruence).
  all: try (apply str_eqb_eq in H; subst; reflexivity).
  all: try (injection H as E; apply codes_inj in E; subst; apply str_eqb_refl).
  all: try reflexivity.
Qed.

Lemma ckey_list_iff : forall l l',
  Forall (fun x => wf x = true -> py_hashable x = true -> forall y, wf y = true -> py_hashable y = true ->
                   (rel false x y = true <-> ckey x = ckey y)) l ->
  forallb wf l = true -> forallb py_hashable l = true -> forallb wf l' = true -> forallb py_hashable l' = true ->
  (rel_list false l l' = true <-> map ckey l = map ckey l').
Proof.
  induction l as [|x t IH]; intros l' HF Hw Hh Hw' Hh'; destruct l' as [|y t']; simpl; split; intros H;
    try discriminate; auto.
  - inversion HF as [|? ? Hx Ht]; subst. simpl in Hw, Hh, Hw', Hh'.
    apply andb_true_iff in Hw, Hh, Hw', Hh'. destruct Hw, Hh, Hw', Hh'.
    apply andb_true_iff in H. destruct H as [Hr1 Hr2]. f_equal.
    + apply Hx; auto.
    + apply IH; auto.
  - inversion HF as [|? ? Hx Ht]; subst. simpl in Hw, Hh, Hw', Hh'.
    apply andb_true_iff in Hw, Hh, Hw', Hh'. destruct Hw, Hh, Hw', Hh'.
    inversion H as [[E1 E2]]. apply andb_true_iff. split.
    + apply Hx; auto.
    + apply IH; auto.
Qed.

Lemma nodup_by_NoDup_map {A B} (eqb : A -> A -> bool) (f : A -> B) : forall l,
  (forall x y, In x l -> In y l -> f x = f y -> eqb x y = true) ->
  nodup_by eqb l = true -> NoDup (map f l).
Proof.
  induction l as [|x t IH]; intros Hf Hnd; simpl; [constructor|].
  simpl in Hnd. apply andb_true_iff in Hnd. destruct Hnd as [Hx Ht]. constructor.
  - intro Hin. apply in_map_iff in Hin. destruct Hin as (y & Hy & Hyin).
    apply negb_true_iff in Hx. assert (existsb (eqb x) t = true); [|congruence].
    apply existsb_exists. exists y. split; auto. apply Hf; simpl; auto.
  - apply IH; auto. intros; apply Hf; simpl; auto.
Qed.

Theorem ckey_rel_iff : forall a, wf a = true -> py_hashable a = true ->
  forall b, wf b = true -> py_hashable b = true -> (rel false a b = true <-> ckey a = ckey b).
Proof.
  induction a as [a|sk l IH|sk l IH|mk kvs IH|n d i x|c i] using pyval_ind2; intros Wa Ha b Wb Hb;
    try (simpl in Ha; discriminate).
  - destruct b as [b|sk' l'|sk' l'| | |]; try (simpl in Hb; discriminate).
    + rewrite rel_atom_l. apply ckey_atoms; auto.
    + destruct sk'; try (simpl in Hb; discriminate). rewrite rel_atom_l.
      split; intros H; [discriminate|]. destruct a; simpl in Ha; try discriminate; simpl in Wa; try discriminate;
        cbn [ckey] in H; tagneq H.
    + destruct sk'; try (simpl in Hb; discriminate). rewrite rel_atom_l.
      split; intros H; [discriminate|]. destruct a; simpl in Ha; try discriminate; simpl in Wa; try discriminate;
        cbn [ckey] in H; tagneq H.
  - destruct sk; try (simpl in Ha; discriminate).
    destruct b as [b|sk' l'|sk' l'| | |]; try (simpl in Hb; discriminate).
    + split; intros H; [discriminate|]. destruct b; simpl in Hb; try discriminate; simpl in Wb; try discriminate;
        cbn [ckey] in H; tagneq H.
    + destruct sk'; try (simpl in Hb; discriminate). rewrite rel_seq_unfold. cbn [seqkind_loose seqkind_eqb andb].
      simpl in Wa, Wb. rewrite andb_true_r in Wa, Wb. simpl in Ha, Hb.
      rewrite (ckey_list_iff l l' IH Wa Ha Wb Hb). cbn [ckey]. split; intros H; [rewrite H; reflexivity|].
      inversion H; auto.
    + destruct sk'; try (simpl in Hb; discriminate). split; intros H; [discriminate|]. cbn [ckey] in H. tagneq H.
  - destruct sk; try (simpl in Ha; discriminate).
    destruct b as [b|sk' l'|sk' l'| | |]; try (simpl in Hb; discriminate).
    + split; intros H; [discriminate|]. destruct b; simpl in Hb; try discriminate; simpl in Wb; try discriminate;
        cbn [ckey] in H; tagneq H.
    + destruct sk'; try (simpl in Hb; discriminate). split; intros H; [discriminate|]. cbn [ckey] in H. tagneq H.
    + destruct sk'; try (simpl in Hb; discriminate). rewrite rel_set_unfold. cbn [negb orb andb ckey].
      simpl in Wa, Wb.
      apply andb_true_iff in Wa. destruct Wa as [Wa Nd]. apply andb_true_iff in Wa. destruct Wa as [Wl Hl].
      apply andb_true_iff in Wb. destruct Wb as [Wb Nd']. apply andb_true_iff in Wb. destruct Wb as [Wl' Hl'].
      rewrite forallb_forall in Wl, Hl, Wl', Hl'. rewrite Forall_forall in IH.
      assert (Hnd : NoDup (map ckey l)).
      { apply (nodup_by_NoDup_map (rel false)); auto. intros x y Hx Hy E. apply (IH x Hx); auto. }
      split; intros H.
      * apply andb_true_iff in H. destruct H as [Hlen Hall]. apply Nat.eqb_eq in Hlen.
        rewrite forallb_forall in Hall. f_equal. apply ck_sort_canon.
        apply NoDup_Permutation_bis; auto.
        -- rewrite !map_length. lia.
        -- intros k Hk. apply in_map_iff in Hk. destruct Hk as (x & <- & Hx).
           specialize (Hall x Hx). apply existsb_exists in Hall. destruct Hall as (y & Hy & Hxy).
           apply in_map_iff. exists y. split; auto. symmetry. apply (IH x Hx); auto.
      * inversion H as [Hs].
        assert (Hp : Permutation (map ckey l) (map ckey l')).
        { apply Permutation_trans with (ck_sort (map ckey l)); [apply ck_sort_perm|].
          rewrite Hs. apply Permutation_sym. apply ck_sort_perm. }
        apply andb_true_iff. split.
        -- apply Nat.eqb_eq. apply Permutation_length in Hp. rewrite !map_length in Hp. exact Hp.
        -- apply forallb_forall. intros x Hx. apply existsb_exists.
           assert (Hin : In (ckey x) (map ckey l')) by (apply (Permutation_in _ Hp); apply in_map; auto).
           apply in_map_iff in Hin. destruct Hin as (y & Hy & Hyin). exists y. split; auto.
           apply (IH x Hx); auto.
Qed.
