(* Base facts for C09: cache keys and policies (lawfulness of the own SimpleCache / LRUCache models), facts about
   Pipe.eval (fuel monotonicity, determinism), well-formed pipelines (unique producers, consistent defaults), and the
   rank function induced by the Kahn layering (every upstream function has a smaller rank). *)
From Verif Require Import Base.Prelude Base.StrOrd Base.Graph Model.Pipe Model.CacheSem Model.CacheSemSpec Proofs.GraphFacts.

(* ------------------------------------------------------------------ boolean equalities *)
Lemma list_eqb_iff {A} (eqb : A -> A -> bool) :
  (forall a b, eqb a b = true <-> a = b) -> forall l l', list_eqb eqb l l' = true <-> l = l'.
Proof.
  intros Heq. induction l as [|x l IH]; intros [|y l']; cbn; split; intros H; try discriminate; try reflexivity.
  - apply andb_true_iff in H as [H1 H2]. apply Heq in H1. apply IH in H2. now subst.
  - injection H as -> ->. apply andb_true_iff; split; [now apply Heq | now apply IH].
Qed.

Lemma pair_eqb_eq a b : pair_eqb a b = true <-> a = b.
Proof.
  destruct a as [a1 a2], b as [b1 b2]. unfold pair_eqb. cbn. rewrite andb_true_iff, !str_eqb_eq.
  split; [intros [-> ->]; reflexivity | intros H; injection H as -> ->; auto].
Qed.

Lemma alist_eqb_eq a b : alist_eqb a b = true <-> a = b.
Proof. apply list_eqb_iff. apply pair_eqb_eq. Qed.

Lemma strs_eqb_eq (a b : list str) : list_eqb str_eqb a b = true <-> a = b.
Proof. apply list_eqb_iff. apply str_eqb_eq. Qed.

Lemma ckey_eqb_eq a b : ckey_eqb a b = true <-> a = b.
Proof.
  destruct a as [o1 r1|o1 r1], b as [o2 r2|o2 r2]; cbn; try (split; [discriminate | intros H; discriminate H]);
    rewrite andb_true_iff, strs_eqb_eq, alist_eqb_eq; (split; [intros [-> ->]; reflexivity | intros H; injection H as -> ->; auto]).
Qed.

Lemma ckey_eqb_refl a : ckey_eqb a a = true.
Proof. now apply ckey_eqb_eq. Qed.

Lemma ckey_eqb_neq a b : ckey_eqb a b = false <-> a <> b.
Proof.
  split.
  - intros H E. apply ckey_eqb_eq in E. congruence.
  - intros H. destruct (ckey_eqb a b) eqn:E; [|reflexivity]. apply ckey_eqb_eq in E. contradiction.
Qed.

(* ------------------------------------------------------------------ lawful policies *)
(* --- SimpleCache --- *)
Lemma simple_lookup c k : lookup simple_policy c k = sfind c k.
Proof. unfold lookup. cbn. destruct (sfind c k); reflexivity. Qed.

Lemma sfind_sset c k v k' v' :
  sfind (sset c k v) k' = Some v' -> (k' = k /\ v' = v) \/ sfind c k' = Some v'.
Proof.
  induction c as [|[k1 v1] c IH]; cbn.
  - destruct (ckey_eqb k' k) eqn:E; [|discriminate]. intros H. injection H as <-. apply ckey_eqb_eq in E. auto.
  - destruct (ckey_eqb k k1) eqn:E1; cbn.
    + apply ckey_eqb_eq in E1. subst k1. destruct (ckey_eqb k' k) eqn:E2.
      * intros H. injection H as <-. apply ckey_eqb_eq in E2. auto.
      * auto.
    + destruct (ckey_eqb k' k1) eqn:E2; auto.
Qed.

Lemma sfind_sset_same c k v : sfind (sset c k v) k = Some v.
Proof.
  induction c as [|[k1 v1] c IH]; cbn.
  - now rewrite ckey_eqb_refl.
  - destruct (ckey_eqb k k1) eqn:E1; cbn; rewrite E1; auto.
Qed.

Lemma sfind_sset_other c k v k' : k' <> k -> sfind (sset c k v) k' = sfind c k'.
Proof.
  intros Hn. induction c as [|[k1 v1] c IH]; cbn.
  - apply ckey_eqb_neq in Hn. now rewrite Hn.
  - destruct (ckey_eqb k k1) eqn:E1; cbn.
    + apply ckey_eqb_eq in E1. subst k1. apply ckey_eqb_neq in Hn. now rewrite Hn.
    + destruct (ckey_eqb k' k1); auto.
Qed.

Lemma simple_lawful : lawful simple_policy (fun _ => True).
Proof.
  constructor; try (intros; exact I).
  - intros c k _ H. cbn in *. destruct (sfind c k); [discriminate | discriminate H].
  - intros c k v _ H. cbn in *. now rewrite H.
  - intros c k k' v _ H. exact H.
  - intros c k v k' v' _ H. rewrite simple_lookup in *. now apply sfind_sset.
  - intros c k _. reflexivity.
Qed.

(* --- LRUCache --- *)
Definition nodupk (d : simple) : Prop := NoDup (map fst d).

Lemma sfind_In d k v : sfind d k = Some v -> In k (map fst d).
Proof.
  induction d as [|[k1 v1] d IH]; cbn; [discriminate|].
  destruct (ckey_eqb k k1) eqn:E; [apply ckey_eqb_eq in E; auto | auto].
Qed.

Lemma sset_keys d k v x : In x (map fst (sset d k v)) <-> In x (map fst d) \/ x = k.
Proof.
  induction d as [|[k1 v1] d IH]; cbn.
  - split; [intros [H|[]]; auto | intros [[]|H]; auto].
  - destruct (ckey_eqb k k1) eqn:E; cbn.
    + apply ckey_eqb_eq in E. subst. split; [tauto | intros [H|H]; auto].
    + rewrite IH. tauto.
Qed.

Lemma sset_nodupk d k v : nodupk d -> nodupk (sset d k v).
Proof.
  unfold nodupk. induction d as [|[k1 v1] d IH]; cbn; intros H.
  - constructor; [intros []|constructor].
  - inversion H as [|? ? Hn Hd]; subst. destruct (ckey_eqb k k1) eqn:E; cbn.
    + constructor; assumption.
    + constructor; [|auto]. rewrite sset_keys. intros [H1|H1]; [contradiction|]. subst.
      rewrite ckey_eqb_refl in E. discriminate.
Qed.

Lemma sdel_keys d e x : In x (map fst (sdel d e)) -> In x (map fst d).
Proof.
  induction d as [|[k1 v1] d IH]; cbn; [auto|].
  destruct (ckey_eqb e k1); cbn; [auto|]. intros [H|H]; auto.
Qed.

Lemma sdel_nodupk d e : nodupk d -> nodupk (sdel d e).
Proof.
  unfold nodupk. induction d as [|[k1 v1] d IH]; cbn; intros H; [constructor|].
  inversion H as [|? ? Hn Hd]; subst. destruct (ckey_eqb e k1); cbn; [assumption|].
  constructor; [|auto]. intros Hi. apply sdel_keys in Hi. contradiction.
Qed.

Lemma sfind_sdel d e k v : nodupk d -> sfind (sdel d e) k = Some v -> sfind d k = Some v.
Proof.
  unfold nodupk. induction d as [|[k1 v1] d IH]; cbn; intros Hd H; [discriminate|].
  inversion Hd as [|? ? Hn Hd']; subst.
  destruct (ckey_eqb e k1) eqn:E1.
  - apply ckey_eqb_eq in E1. subst k1. destruct (ckey_eqb k e) eqn:E2; [|assumption].
    apply ckey_eqb_eq in E2. subst k. apply sfind_In in H. contradiction.
  - cbn in H. destruct (ckey_eqb k k1); auto.
Qed.

Lemma lru_lookup c k : lookup lru_policy c k = sfind (ldict c) k.
Proof. unfold lookup. cbn. unfold lru_get. destruct (sfind (ldict c) k); reflexivity. Qed.

Lemma lru_get_dict c k : ldict (snd (lru_get c k)) = ldict c.
Proof. unfold lru_get. destruct (sfind (ldict c) k); reflexivity. Qed.

Lemma lru_lawful : lawful lru_policy (fun c => nodupk (ldict c)).
Proof.
  constructor.
  - intros c k H. cbn. now rewrite lru_get_dict.
  - intros c k v H. cbn. unfold lru_put.
    destruct (length (lqueue c) <? lmax c); cbn; [now apply sset_nodupk|].
    destruct (lqueue c); cbn; [now apply sset_nodupk|]. apply sdel_nodupk. now apply sset_nodupk.
  - intros c H. cbn. constructor.
  - intros c k _ H. cbn in *. unfold lru_get. destruct (sfind (ldict c) k); [discriminate | discriminate H].
  - intros c k v _ H. cbn in *. unfold lru_get in H. destruct (sfind (ldict c) k); [reflexivity | discriminate H].
  - intros c k k' v _ H. rewrite lru_lookup in *. cbn in H. now rewrite lru_get_dict in H.
  - intros c k v k' v' Hg H. rewrite lru_lookup in *. cbn in H. unfold lru_put in H.
    destruct (length (lqueue c) <? lmax c); cbn in H; [now apply sfind_sset|].
    destruct (lqueue c); cbn in H; [now apply sfind_sset|].
    apply sfind_sdel in H; [now apply sfind_sset | now apply sset_nodupk].
  - intros c k _. reflexivity.
Qed.

(* ------------------------------------------------------------------ association lists *)
Lemma aget_In l k v : aget l k = Some v -> In (k, v) l.
Proof.
  induction l as [|[k1 v1] l IH]; cbn; [discriminate|].
  destruct (str_eqb k k1) eqn:E; [|auto]. apply str_eqb_eq in E. subst. intros H. injection H as ->. now left.
Qed.

Lemma aget_None l k : aget l k = None <-> ~ In k (akeys l).
Proof.
  induction l as [|[k1 v1] l IH]; cbn; [tauto|].
  destruct (str_eqb k k1) eqn:E.
  - apply str_eqb_eq in E. subst. split; [discriminate | intros H; exfalso; auto].
  - apply str_eqb_neq in E. rewrite IH. split; [intros H [H1|H1]; [congruence|auto] | auto].
Qed.

Lemma aget_Some_key l k v : aget l k = Some v -> In k (akeys l).
Proof. intros H. apply aget_In in H. unfold akeys. apply in_map_iff. now exists (k, v). Qed.

Lemma ahas_true l k : ahas l k = true <-> aget l k <> None.
Proof. unfold ahas. destruct (aget l k); split; intros H; try reflexivity; try discriminate; congruence. Qed.

Lemma ahas_false l k : ahas l k = false <-> aget l k = None.
Proof. unfold ahas. destruct (aget l k); split; intros H; try reflexivity; try discriminate. Qed.

Lemma aget_aset_same l k v : aget (aset l k v) k = Some v.
Proof.
  induction l as [|[k1 v1] l IH]; cbn; [now rewrite str_eqb_refl|].
  destruct (str_eqb k k1) eqn:E; cbn; rewrite E; auto.
Qed.

Lemma aget_aset_other l k v k' : k' <> k -> aget (aset l k v) k' = aget l k'.
Proof.
  intros Hn. induction l as [|[k1 v1] l IH]; cbn.
  - apply str_eqb_neq in Hn. now rewrite Hn.
  - destruct (str_eqb k k1) eqn:E; cbn.
    + apply str_eqb_eq in E. subst k1. apply str_eqb_neq in Hn. now rewrite Hn.
    + destruct (str_eqb k' k1); auto.
Qed.

(* ------------------------------------------------------------------ mapM *)
Lemma mapM_ok_ext {A B} (f g : A -> result B) l ys :
  (forall x y, In x l -> f x = Ok y -> g x = Ok y) -> mapM f l = Ok ys -> mapM g l = Ok ys.
Proof.
  revert ys. induction l as [|x l IH]; intros ys Hfg H; cbn in *; [assumption|].
  destruct (f x) as [y|e] eqn:Ef; cbn in H; [|discriminate].
  rewrite (Hfg x y (or_introl eq_refl) Ef). cbn.
  destruct (mapM f l) as [ys'|e] eqn:Em; cbn in H; [|discriminate].
  rewrite (IH ys'); [assumption | intros a b Ha; apply Hfg; now right | reflexivity].
Qed.

Lemma mapM_ext {A B} (f g : A -> result B) l :
  (forall x, In x l -> f x = g x) -> mapM f l = mapM g l.
Proof.
  induction l as [|x l IH]; intros H; cbn; [reflexivity|].
  rewrite (H x (or_introl eq_refl)). destruct (g x); cbn; [|reflexivity].
  rewrite IH; [reflexivity|]. intros y Hy. apply H. now right.
Qed.

Lemma mapM_ok_In {A B} (f : A -> result B) l ys x :
  mapM f l = Ok ys -> In x l -> exists y, f x = Ok y.
Proof.
  revert ys. induction l as [|a l IH]; intros ys H Hi; [destruct Hi|].
  cbn in H. destruct (f a) as [y|e] eqn:Ef; cbn in H; [|discriminate].
  destruct (mapM f l) as [ys'|e] eqn:Em; cbn in H; [|discriminate].
  destruct Hi as [->|Hi]; [eauto | eapply IH; eauto].
Qed.

(* ------------------------------------------------------------------ Pipe.eval: monotone in the fuel, deterministic *)
Section Eval.
  Variable body : str -> alist -> result str.
  Variable pick : str -> str -> str.

  Notation eval_raw := (eval_raw body pick).

  Lemma eval_S n p kw o :
    eval body pick (S n) p kw o =
    match producer p o with
    | None => Err KeyError
    | Some f => do r <- eval_raw n p kw f; Ok (route pick f o r)
    end.
  Proof.
    cbn. destruct (producer p o); [|reflexivity]. unfold eval_raw.
    destruct (args_with _ p kw p0); reflexivity.
  Qed.

  Lemma arg_val_mono (rec rec' : str -> result str) p kw f cur v :
    (forall c w, rec c = Ok w -> rec' c = Ok w) ->
    arg_val rec p kw f cur = Ok v -> arg_val rec' p kw f cur = Ok v.
  Proof.
    intros Hr. unfold arg_val. destruct (aget (bound f) cur); [auto|].
    destruct (aget kw cur); [auto|]. destruct (is_output p cur); [apply Hr | auto].
  Qed.

  Lemma args_with_mono (rec rec' : str -> result str) p kw f args :
    (forall c w, rec c = Ok w -> rec' c = Ok w) ->
    args_with rec p kw f = Ok args -> args_with rec' p kw f = Ok args.
  Proof.
    intros Hr. unfold args_with. apply mapM_ok_ext. intros x y _ H.
    destruct (arg_val rec p kw f (fst x)) as [v|e] eqn:E; cbn in H; [|discriminate].
    now rewrite (arg_val_mono _ _ _ _ _ _ _ Hr E).
  Qed.

  Lemma eval_mono p kw : forall n o v, eval body pick n p kw o = Ok v ->
    forall m, n <= m -> eval body pick m p kw o = Ok v.
  Proof.
    induction n as [|n IH]; intros o v H m Hle; [discriminate|].
    destruct m as [|m]; [lia|]. rewrite eval_S in *.
    destruct (producer p o) as [f|]; [|discriminate]. unfold eval_raw in *.
    destruct (args_with (eval body pick n p kw) p kw f) as [args|e] eqn:Ea; cbn in H; [|discriminate].
    rewrite (args_with_mono _ (eval body pick m p kw) _ _ _ _ (fun c w Hc => IH c w Hc m ltac:(lia)) Ea).
    exact H.
  Qed.

  Lemma eval_det p kw n m o v w :
    eval body pick n p kw o = Ok v -> eval body pick m p kw o = Ok w -> v = w.
  Proof.
    intros H1 H2. pose proof (eval_mono _ _ _ _ _ H1 (max n m) ltac:(lia)) as H1'.
    pose proof (eval_mono _ _ _ _ _ H2 (max n m) ltac:(lia)) as H2'. congruence.
  Qed.

  Lemma eval_raw_mono p kw n m f r :
    eval_raw n p kw f = Ok r -> n <= m -> eval_raw m p kw f = Ok r.
  Proof.
    unfold eval_raw. intros H Hle.
    destruct (args_with (eval body pick n p kw) p kw f) as [args|e] eqn:Ea; cbn in H; [|discriminate].
    rewrite (args_with_mono _ (eval body pick m p kw) _ _ _ _ (fun c w Hc => eval_mono _ _ _ _ _ Hc m Hle) Ea).
    exact H.
  Qed.

  Lemma eval_raw_det p kw n m f r r' :
    eval_raw n p kw f = Ok r -> eval_raw m p kw f = Ok r' -> r = r'.
  Proof.
    intros H1 H2. pose proof (eval_raw_mono _ _ _ (max n m) _ _ H1 ltac:(lia)) as H1'.
    pose proof (eval_raw_mono _ _ _ (max n m) _ _ H2 ltac:(lia)) as H2'. congruence.
  Qed.
End Eval.

(* ------------------------------------------------------------------ well-formed pipelines *)
Lemma wf_parts p : wf_pipeline p ->
  forallb wf_func p = true /\ NoDup (all_outputs p) /\ consistent_defaults p = true /\ acyclicb (fgraph p) = true.
Proof.
  unfold wf_pipeline, wf_pipelineb. rewrite !andb_true_iff. intros [[[[H1 H2] H3] H4] H5].
  repeat split; try assumption. now apply nodup_strb_NoDup.
Qed.

Lemma wf_fnames p : wf_pipeline p -> NoDup (map fname p).
Proof.
  unfold wf_pipeline, wf_pipelineb. rewrite !andb_true_iff. intros [[[[H1 H2] H3] H4] H5]. now apply nodup_strb_NoDup.
Qed.

Lemma fname_inj p f g : NoDup (map fname p) -> In f p -> In g p -> fname f = fname g -> f = g.
Proof.
  induction p as [|a p IH]; cbn; intros Hnd Hf Hg He; [destruct Hf|].
  inversion Hnd as [|? ? Hn Hd]; subst.
  destruct Hf as [->|Hf], Hg as [->|Hg]; try reflexivity.
  - exfalso. apply Hn. rewrite He. now apply in_map.
  - exfalso. apply Hn. rewrite <- He. now apply in_map.
  - now apply IH.
Qed.

Lemma wf_func_parts f : wf_func f = true ->
  outs f <> [] /\ (forall k, ahas (bound f) k = true -> aget (dflt f) k = None).
Proof.
  unfold wf_func. rewrite !andb_true_iff. intros [[[[[[[[[H1 _] _] _] _] _] _] _] _] H10]. split.
  - destruct (outs f); [discriminate | discriminate].
  - intros k Hk. destruct (aget (dflt f) k) eqn:E; [|reflexivity].
    apply aget_Some_key in E. rewrite forallb_forall in H10. specialize (H10 k E). now rewrite Hk in H10.
Qed.

Lemma producer_In p o f : producer p o = Some f -> In f p /\ In o (outs f).
Proof.
  unfold producer. intros H. apply find_some in H as [H1 H2]. split; [assumption | now apply mem_str_In].
Qed.

Lemma NoDup_app_disj {A} (a b : list A) x : NoDup (a ++ b) -> In x a -> In x b -> False.
Proof.
  induction a as [|y a IH]; cbn; intros H Ha Hb; [destruct Ha|].
  inversion H as [|? ? Hn Hd]; subst. destruct Ha as [->|Ha].
  - apply Hn. apply in_app_iff. now right.
  - now apply IH.
Qed.

Lemma NoDup_app_r {A} (a b : list A) : NoDup (a ++ b) -> NoDup b.
Proof. induction a as [|y a IH]; cbn; intros H; [assumption|]. inversion H; auto. Qed.

Lemma producer_unique p o f : NoDup (all_outputs p) -> In f p -> In o (outs f) -> producer p o = Some f.
Proof.
  unfold all_outputs, producer. induction p as [|g p IH]; cbn; intros Hnd Hf Ho; [destruct Hf|].
  destruct (mem_str o (outs g)) eqn:E.
  - destruct Hf as [->|Hf]; [reflexivity|]. exfalso. apply mem_str_In in E.
    apply (NoDup_app_disj _ _ o Hnd E). apply in_flat_map. eauto.
  - destruct Hf as [->|Hf].
    + apply mem_str_not_In in E. contradiction.
    + apply IH; [eapply NoDup_app_r; eassumption | assumption | assumption].
Qed.

Lemma same_outs_eq p f g : wf_pipeline p -> In f p -> In g p -> outs f = outs g -> f = g.
Proof.
  intros Hwf Hf Hg He. destruct (wf_parts _ Hwf) as [Hfs [Hnd _]].
  rewrite forallb_forall in Hfs. destruct (wf_func_parts _ (Hfs f Hf)) as [Hne _].
  destruct (outs f) as [|o t] eqn:Eo; [congruence|].
  assert (H1 : producer p o = Some f) by (apply producer_unique; [assumption|assumption|rewrite Eo; now left]).
  assert (H2 : producer p o = Some g) by (apply producer_unique; [assumption|assumption|rewrite <- He; now left]).
  congruence.
Qed.

Lemma is_output_true p o : is_output p o = true <-> exists f, producer p o = Some f.
Proof. unfold is_output. destruct (producer p o); split; intros H; eauto; try discriminate. destruct H; discriminate. Qed.

Lemma is_output_false p o : is_output p o = false <-> producer p o = None.
Proof. unfold is_output. destruct (producer p o); split; intros H; try reflexivity; try discriminate. Qed.

(* ---------- defaults ---------- *)
Lemma consistent_get p k v : consistent_defaults p = true -> In (k, v) (pdefaults p) -> aget (pdefaults p) k = Some v.
Proof.
  unfold consistent_defaults. rewrite forallb_forall. intros H Hi. specialize (H (k, v) Hi). cbn in H.
  destruct (aget (pdefaults p) k) as [w|]; [|discriminate]. apply str_eqb_eq in H. now subst.
Qed.

Lemma pdefault_eq p k : consistent_defaults p = true -> pdefault p k = default_of p k.
Proof.
  intros Hc. unfold pdefault, default_of. destruct (aget (rev (pdefaults p)) k) as [v|] eqn:E.
  - apply aget_In in E. apply in_rev in E. symmetry. now apply consistent_get.
  - symmetry. apply aget_None. apply aget_None in E. intros Hi. apply E. unfold akeys in *.
    rewrite map_rev. now apply -> in_rev.
Qed.

Lemma func_dflt_is_default p f cur v : wf_pipeline p -> In f p -> aget (dflt f) cur = Some v ->
  is_output p cur = false -> default_of p cur = Some v.
Proof.
  intros Hwf Hf Hd Ho. destruct (wf_parts _ Hwf) as [Hfs [_ [Hc _]]].
  rewrite forallb_forall in Hfs. destruct (wf_func_parts _ (Hfs f Hf)) as [_ Hb].
  unfold default_of. apply consistent_get; [assumption|]. unfold pdefaults. apply in_flat_map. exists f. split; [assumption|].
  apply filter_In. split; [now apply aget_In|]. cbn. rewrite Ho. cbn.
  destruct (ahas (bound f) cur) eqn:E; [|reflexivity]. rewrite (Hb cur E) in Hd. discriminate.
Qed.

(* ---------- the rank of a function: position of its Kahn layer ---------- *)
Definition rk (ls : list (list str)) (p : pipeline) (o : str) : nat :=
  match producer p o with Some f => rank_of ls (fid f) | None => O end.

Lemma fid_In_outs f : outs f <> [] -> In (fid f) (outs f).
Proof. unfold fid. destruct (outs f); [congruence | intros _; now left]. Qed.

Lemma rk_edge p ls o f cur g :
  wf_pipeline p -> topo_generations (fgraph p) = Some ls ->
  producer p o = Some f -> In cur (pnames f) -> aget (bound f) cur = None -> producer p cur = Some g ->
  rk ls p cur < rk ls p o /\ rk ls p o < length p.
Proof.
  intros Hwf Hls Hf Hcur Hb Hg. destruct (topo_rank _ _ Hls) as [Hlt Hedge].
  destruct (wf_parts _ Hwf) as [Hfs _]. rewrite forallb_forall in Hfs.
  apply producer_In in Hf as Hf'. destruct Hf' as [Hfp _]. apply producer_In in Hg as Hg'. destruct Hg' as [Hgp _].
  unfold rk. rewrite Hf, Hg.
  assert (Nf : In (fid f) (nodes (fgraph p))) by (cbn; now apply in_map).
  assert (Ng : In (fid g) (nodes (fgraph p))) by (cbn; now apply in_map).
  split.
  - apply Hedge; try assumption. cbn. apply in_flat_map. exists f. split; [assumption|].
    apply in_map_iff. exists (fid g). split; [reflexivity|]. apply dedup_In. apply filter_In. split.
    + unfold fpreds. apply in_flat_map. exists cur. split; [assumption|]. unfold dep_node.
      assert (Hh : ahas (bound f) cur = false) by now apply ahas_false. rewrite Hh, Hg. now left.
    + apply is_output_true. destruct (wf_func_parts _ (Hfs g Hgp)) as [Hne _].
      unfold producer. destruct (find (fun f0 => mem_str (fid g) (outs f0)) p) eqn:E; [eauto|].
      exfalso. apply (find_none _ _ E g) in Hgp. apply fid_In_outs in Hne. apply mem_str_In in Hne. congruence.
  - specialize (Hlt _ Nf). cbn in Hlt. now rewrite map_length in Hlt.
Qed.

Lemma wf_topo p : wf_pipeline p -> exists ls, topo_generations (fgraph p) = Some ls.
Proof.
  intros Hwf. destruct (wf_parts _ Hwf) as [_ [_ [_ Ha]]]. unfold acyclicb in Ha.
  destruct (topo_generations (fgraph p)); [eauto | discriminate].
Qed.
