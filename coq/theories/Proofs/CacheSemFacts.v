(* Proofs for C09 (Model/CacheSem.v, repaired code = legacy flag false).

   Structure
     1. _update_all_results as a finite map
     2. the cache key identifies the raw result:   eval_raw under the keywords = eval_raw under the key's root values
     3. cache_inv (every resident entry is the raw result of its function for the key's root values) and the state
        invariant of a run (every memoised value is the value of the specification Pipe.eval)
     4. soundness of crun_out w.r.t. Pipe.eval (for the cached and the uncached twin), preservation of cache_inv
     5. completeness: whenever the specification has a value, the cached run returns it (fuel: Kahn rank)
     6. the unused-keyword check / full_output dictionary: simulation of the uncached run by the cached run as long as
        no result was returned early from the cache
     7. histories: cache_transparent; no re-execution of resident entries; the map path *)
From Coq Require Import Permutation.
From Verif Require Import Base.Prelude Base.StrOrd Base.Graph Model.Pipe Model.CacheSem Model.CacheSemSpec
  Proofs.GraphFacts Proofs.CacheSemBase.
From Verif Require Proofs.RootArgsFacts.

Section Facts.
  Variable body : str -> alist -> result str.
  Variable pick : str -> str -> str.
  Context {C : Type}.
  Variable P : policy C.
  Variable good : C -> Prop.
  Hypothesis LAW : lawful P good.

  (* ---------------------------------------------------------------- 1. _update_all_results *)
  Lemma fold_upd_get (r : str) (l : list str) : forall rs x,
    aget (fold_left (fun acc n => if ahas acc n then acc else aset acc n (pick n r)) l rs) x =
    match aget rs x with Some v => Some v | None => if mem_str x l then Some (pick x r) else None end.
  Proof.
    induction l as [|a l IH]; intros rs x; cbn [fold_left mem_str].
    - destruct (aget rs x); reflexivity.
    - rewrite IH. destruct (ahas rs a) eqn:Ea.
      + destruct (aget rs x) eqn:Ex; [reflexivity|]. destruct (str_eqb x a) eqn:E; [|reflexivity].
        apply str_eqb_eq in E. subst. apply ahas_true in Ea. congruence.
      + apply ahas_false in Ea. destruct (str_eqb x a) eqn:E.
        * apply str_eqb_eq in E. subst. rewrite aget_aset_same, Ea. reflexivity.
        * apply str_eqb_neq in E. rewrite (aget_aset_other _ _ _ _ E). reflexivity.
  Qed.

  Lemma upd_get_multi f r rs x : multi f = true ->
    aget (update_all_results pick f r rs) x =
    match aget rs x with Some v => Some v | None => if mem_str x (outs f) then Some (pick x r) else None end.
  Proof. intros Hm. unfold update_all_results. rewrite Hm. apply fold_upd_get. Qed.

  Lemma upd_get_single f r rs x : multi f = false ->
    aget (update_all_results pick f r rs) x = if str_eqb x (fid f) then Some r else aget rs x.
  Proof.
    intros Hm. unfold update_all_results. rewrite Hm. destruct (str_eqb x (fid f)) eqn:E.
    - apply str_eqb_eq in E. subst. apply aget_aset_same.
    - apply str_eqb_neq in E. now apply aget_aset_other.
  Qed.

  Lemma single_outs f : wf_func f = true -> multi f = false -> outs f = [fid f].
  Proof.
    intros Hwf Hm. destruct (wf_func_parts _ Hwf) as [Hne _]. unfold multi in Hm. unfold fid.
    destruct (outs f) as [|a [|b t]]; [congruence | reflexivity | discriminate].
  Qed.

  (* after the update every output of f has a value *)
  Lemma upd_has f r rs o : wf_func f = true -> In o (outs f) -> aget (update_all_results pick f r rs) o <> None.
  Proof.
    intros Hwf Ho. destruct (multi f) eqn:Hm.
    - rewrite upd_get_multi by assumption. destruct (aget rs o); [discriminate|].
      apply mem_str_In in Ho. rewrite Ho. discriminate.
    - rewrite upd_get_single by assumption. rewrite (single_outs _ Hwf Hm) in Ho. destruct Ho as [<-|[]].
      rewrite str_eqb_refl. discriminate.
  Qed.

  Lemma upd_dom f r rs x : aget rs x <> None -> aget (update_all_results pick f r rs) x <> None.
  Proof.
    intros H. destruct (multi f) eqn:Hm.
    - rewrite upd_get_multi by assumption. destruct (aget rs x); [discriminate | congruence].
    - rewrite upd_get_single by assumption. destruct (str_eqb x (fid f)); [discriminate | assumption].
  Qed.

  Lemma upd_other f r rs x : ~ In x (outs f) -> wf_func f = true -> aget (update_all_results pick f r rs) x = aget rs x.
  Proof.
    intros Hn Hwf. destruct (multi f) eqn:Hm.
    - rewrite upd_get_multi by assumption. destruct (aget rs x); [reflexivity|].
      apply mem_str_not_In in Hn. now rewrite Hn.
    - rewrite upd_get_single by assumption. rewrite (single_outs _ Hwf Hm) in Hn.
      destruct (str_eqb x (fid f)) eqn:E; [|reflexivity]. apply str_eqb_eq in E. subst. exfalso. apply Hn. now left.
  Qed.

  Section OnPipeline.
    Variable p : pipeline.
    Hypothesis WF : wf_pipeline p.
    Hypothesis ROOTS : roots_okb p = true.
    Variable ls : list (list str).
    Hypothesis LS : topo_generations (fgraph p) = Some ls.

    Let NODUP : NoDup (all_outputs p).
    Proof. exact (proj1 (proj2 (wf_parts _ WF))). Qed.
    Let CONS : consistent_defaults p = true.
    Proof. exact (proj1 (proj2 (proj2 (wf_parts _ WF)))). Qed.
    Lemma wf_f f : In f p -> wf_func f = true.
    Proof. intros H. pose proof (proj1 (wf_parts _ WF)) as Hf. rewrite forallb_forall in Hf. now apply Hf. Qed.

    Notation RK := (rk ls p).

    Lemma rk_lt_len o f : producer p o = Some f -> RK o < length p.
    Proof.
      intros Hf. destruct (topo_rank _ _ LS) as [Hlt _]. unfold rk. rewrite Hf.
      apply producer_In in Hf as [Hfp _].
      specialize (Hlt (fid f)). cbn in Hlt. rewrite map_length in Hlt. apply Hlt. now apply in_map.
    Qed.

    Lemma rk_up o f cur : producer p o = Some f -> In cur (pnames f) -> aget (bound f) cur = None ->
      is_output p cur = true -> RK cur < RK o.
    Proof.
      intros Hf Hc Hb Ho. apply is_output_true in Ho as [g Hg]. now apply (rk_edge p ls o f cur g WF LS Hf Hc Hb Hg).
    Qed.

    Lemma rk_same_func o o' f : producer p o = Some f -> In o' (outs f) -> RK o' = RK o.
    Proof.
      intros Hf Ho'. apply producer_In in Hf as Hf'. destruct Hf' as [Hfp _].
      unfold rk. rewrite Hf. now rewrite (producer_unique p o' f NODUP Hfp Ho').
    Qed.

    (* ---------------------------------------------------------------- 2. the key identifies the raw result *)
    Definition freads (M : nat) (ra : list str) (g : pfunc) : bool :=
      forallb (fun cur => if ahas (bound g) cur then true
                          else if is_output p cur then reads_ok M p ra cur
                          else mem_str cur ra) (pnames g).

    Lemma reads_ok_S M ra n :
      reads_ok (S M) p ra n = match producer p n with None => true | Some g => freads M ra g end.
    Proof. reflexivity. Qed.

    Lemma reads_lift ra : forall M' n M, RK n < M -> reads_ok M p ra n = true -> reads_ok M' p ra n = true.
    Proof.
      induction M' as [|M' IH]; intros n M Hrk H; [reflexivity|].
      destruct M as [|M0]; [lia|]. rewrite reads_ok_S in *.
      destruct (producer p n) as [g|] eqn:Hg; [|reflexivity].
      unfold freads in *. rewrite forallb_forall in *. intros cur Hc. specialize (H cur Hc).
      destruct (ahas (bound g) cur) eqn:Eb; [reflexivity|]. destruct (is_output p cur) eqn:Eo; [|assumption].
      apply (IH cur M0); [|assumption].
      assert (RK cur < RK n) by (apply (rk_up n g cur); try assumption; now apply ahas_false). lia.
    Qed.

    Lemma roots_of o f ra : producer p o = Some f -> root_args p o = Ok ra ->
      all_root p ra = true /\ forall M, freads M ra f = true.
    Proof.
      intros Hf Hra. unfold roots_okb in ROOTS. rewrite forallb_forall in ROOTS.
      apply producer_In in Hf as Hf'. destruct Hf' as [Hfp Ho].
      assert (Hin : In o (all_outputs p)) by (unfold all_outputs; apply in_flat_map; eauto).
      specialize (ROOTS o Hin). rewrite Hra in ROOTS. apply andb_true_iff in ROOTS as [H1 H2]. split; [assumption|].
      intros M. pose proof (reads_lift ra (S M) o (S (length p)) ltac:(pose proof (rk_lt_len o f Hf); lia) H2) as H3.
      rewrite reads_ok_S, Hf in H3. exact H3.
    Qed.

    Lemma roots_exist o f : producer p o = Some f -> exists ra, root_args p o = Ok ra.
    Proof.
      intros Hf. unfold roots_okb in ROOTS. rewrite forallb_forall in ROOTS.
      apply producer_In in Hf as [Hfp Ho].
      assert (Hin : In o (all_outputs p)) by (unfold all_outputs; apply in_flat_map; eauto).
      specialize (ROOTS o Hin). destruct (root_args p o); [eauto | discriminate].
    Qed.

    Lemma key_items_spec f kw : forall ra rv, key_items false p f kw ra = Some rv ->
      (forall k, In k ra -> aget rv k = key_val false p f kw k /\ aget rv k <> None)
      /\ (forall k, aget rv k <> None -> In k ra).
    Proof.
      induction ra as [|a ra IH]; intros rv H; cbn [key_items] in H.
      - injection H as <-. split; [intros k Hk; destruct Hk|]. intros k Hk. cbn in Hk. congruence.
      - destruct (key_val false p f kw a) as [v|] eqn:Ev; [|discriminate].
        destruct (key_items false p f kw ra) as [l|] eqn:El; [|discriminate]. injection H as <-.
        destruct (IH l eq_refl) as [IH1 IH2]. split.
        + intros k Hk. cbn [aget]. destruct (str_eqb k a) eqn:E.
          * apply str_eqb_eq in E. subst. split; [now rewrite Ev | discriminate].
          * destruct Hk as [->|Hk]; [rewrite str_eqb_refl in E; discriminate|]. now apply IH1.
        + intros k Hk. cbn [aget] in Hk. destruct (str_eqb k a) eqn:E.
          * apply str_eqb_eq in E. subst. now left.
          * right. now apply IH2.
    Qed.

    Lemma no_supplied kw k v : supplies_output p kw = false -> aget kw k = Some v -> is_output p k = false.
    Proof.
      unfold supplies_output. intros H Hk. apply aget_Some_key in Hk.
      destruct (is_output p k) eqn:E; [|reflexivity].
      assert (existsb (is_output p) (akeys kw) = true) by (apply existsb_exists; eauto). congruence.
    Qed.

    Lemma all_root_spec ra k : all_root p ra = true -> In k ra -> is_output p k = false.
    Proof.
      unfold all_root. rewrite forallb_forall. intros H Hk. specialize (H k Hk). now apply negb_true_iff in H.
    Qed.

    Section Key.
      Variable kw rv : alist.
      Variable f : pfunc.
      Variable ra : list str.
      Hypothesis Hf : In f p.
      Hypothesis Hsup : supplies_output p kw = false.
      Hypothesis Hroot : all_root p ra = true.
      Hypothesis Hitems : key_items false p f kw ra = Some rv.

      Lemma key_arg (rec rec' : str -> result str) g cur M :
        freads (S M) ra g = true -> In cur (pnames g) ->
        (is_output p cur = true -> aget (bound g) cur = None -> reads_ok (S M) p ra cur = true -> rec cur = rec' cur) ->
        arg_val rec p kw g cur = arg_val rec' p rv g cur.
      Proof.
        intros Hfr Hc Hrec. unfold freads in Hfr. rewrite forallb_forall in Hfr. specialize (Hfr cur Hc).
        destruct (key_items_spec f kw ra rv Hitems) as [K1 K2].
        unfold arg_val. destruct (aget (bound g) cur) eqn:Eb; [reflexivity|].
        assert (Hb : ahas (bound g) cur = false) by now apply ahas_false. rewrite Hb in Hfr.
        destruct (is_output p cur) eqn:Eo.
        - destruct (aget kw cur) eqn:Ek; [rewrite (no_supplied kw cur s Hsup Ek) in Eo; discriminate|].
          destruct (aget rv cur) eqn:Er.
          + assert (In cur ra) by (apply K2; congruence). rewrite (all_root_spec ra cur Hroot H) in Eo. discriminate.
          + now apply Hrec.
        - apply mem_str_In in Hfr. destruct (K1 cur Hfr) as [K1a K1b]. rewrite K1a in *.
          unfold key_val in *. cbn in *. destruct (aget kw cur) eqn:Ek; [reflexivity|].
          destruct (func_default p f cur) as [d|] eqn:Ed; [|congruence].
          assert (Hd : default_of p cur = Some d).
          { unfold func_default in Ed. destruct (aget (dflt f) cur) eqn:E1.
            - injection Ed as <-. now apply (func_dflt_is_default p f).
            - destruct (mem_str cur (pnames f)); [|discriminate]. now rewrite <- pdefault_eq. }
          now rewrite Hd.
      Qed.

      Lemma key_eval : forall m n, (forall M, reads_ok M p ra n = true) ->
        eval body pick m p kw n = eval body pick m p rv n.
      Proof.
        induction m as [|m IH]; intros n Hn; [reflexivity|].
        rewrite !eval_S. destruct (producer p n) as [g|] eqn:Hg; [|reflexivity].
        assert (Hfr : forall M, freads M ra g = true).
        { intros M. specialize (Hn (S M)). now rewrite reads_ok_S, Hg in Hn. }
        assert (Ha : args_with (eval body pick m p kw) p kw g = args_with (eval body pick m p rv) p rv g).
        { unfold args_with. apply mapM_ext. intros [cur orig] Hin. cbn [fst snd].
          rewrite (key_arg (eval body pick m p kw) (eval body pick m p rv) g cur 0); [reflexivity | apply Hfr | |].
          - unfold pnames. apply in_map_iff. now exists (cur, orig).
          - intros Ho Hb _. apply IH. intros M. specialize (Hfr M). unfold freads in Hfr. rewrite forallb_forall in Hfr.
            assert (Hc : In cur (pnames g)) by (unfold pnames; apply in_map_iff; now exists (cur, orig)).
            specialize (Hfr cur Hc). apply ahas_false in Hb. now rewrite Hb, Ho in Hfr. }
        unfold eval_raw. now rewrite Ha.
      Qed.

      Lemma key_raw m g : (forall M, freads M ra g = true) -> eval_raw body pick m p kw g = eval_raw body pick m p rv g.
      Proof.
        intros Hfr.
        assert (Ha : args_with (eval body pick m p kw) p kw g = args_with (eval body pick m p rv) p rv g).
        { unfold args_with. apply mapM_ext. intros [cur orig] Hin. cbn [fst snd].
          rewrite (key_arg (eval body pick m p kw) (eval body pick m p rv) g cur 0); [reflexivity | apply Hfr | |].
          - unfold pnames. apply in_map_iff. now exists (cur, orig).
          - intros Ho Hb _. apply key_eval. intros M. specialize (Hfr M). unfold freads in Hfr. rewrite forallb_forall in Hfr.
            assert (Hc : In cur (pnames g)) by (unfold pnames; apply in_map_iff; now exists (cur, orig)).
            specialize (Hfr cur Hc). apply ahas_false in Hb. now rewrite Hb, Ho in Hfr. }
        unfold eval_raw. now rewrite Ha.
      Qed.
    End Key.

    (* ---------------------------------------------------------------- 3. invariants *)
    (* every resident entry is the raw result of its function: for a call key, in the evaluation whose keywords are
       the key's root values (DESIGN: `(o, rootvals) |-> v  satisfies  v = eval p rootvals o`); for a map key, of the
       user function on those keyword arguments *)
    Notation entry_ok := (entry_ok body pick p).
    Notation cache_inv := (cache_inv body pick P good p).

    Lemma cache_inv_get c k : cache_inv c -> cache_inv (snd (cget P c k)).
    Proof.
      intros [Hg He]. split; [now apply (L_good_get P good LAW)|].
      intros k' v Hl. apply He. now apply (L_get P good LAW c k k' v Hg).
    Qed.

    Lemma cache_inv_put c k v : cache_inv c -> entry_ok k v -> cache_inv (cput P c k v).
    Proof.
      intros [Hg He] Hk. split; [now apply (L_good_put P good LAW)|].
      intros k' v' Hl. destruct (L_put P good LAW c k v k' v' Hg Hl) as [[-> ->]|H]; [assumption | now apply He].
    Qed.

    Lemma cache_inv_hit c k : cache_inv c -> cmem P c k = true ->
      exists r, fst (cget P c k) = Some r /\ entry_ok k r.
    Proof.
      intros [Hg He] Hm. pose proof (L_some P good LAW c k Hg Hm) as Hs.
      destruct (fst (cget P c k)) as [r|] eqn:E; [|congruence]. exists r. split; [reflexivity|].
      apply He. unfold lookup. now rewrite Hm.
    Qed.

    Section OnCall.
      Variable kw : alist.
      Variable full use : bool.
      Notation RUN := (crun_out body pick P false use p kw full).
      Notation ARGS := (cget_args p kw).

      (* ---- crun_out, one unfolding, in named pieces ---- *)
      Definition the_key (f : pfunc) (ra : list str) : option ckey :=
        if use && cached f then cache_key false p f kw ra else None.
      Definition found_of (st : @xstate C) (key : option ckey) : option (option str * C) :=
        match key with
        | Some k => if cmem P (xc st) k then Some (cget P (xc st) k) else None
        | None => None
        end.
      Definition hit_branch (n : nat) (st : @xstate C) (o : str) (f : pfunc) (ov : option str) (c1 : C)
        : @xstate C * result str :=
        let st0 := x_c st c1 in
        match hit_value f ov with
        | Err e => (st0, Err e)
        | Ok r =>
            let st1 := x_res st0 (update_all_results pick f r (xres st0)) in
            if negb full then let st2 := x_hit st1 in (st2, out_of (xres st2) o)
            else let '(st2, ra2) := ARGS (RUN n) f (params f) st1 [] in
                 match ra2 with
                 | Err e => (st2, Err e)
                 | Ok _ => (st2, out_of (xres st2) o)
                 end
        end.
      Definition miss_branch (n : nat) (st : @xstate C) (o : str) (f : pfunc) (key : option ckey)
        : @xstate C * result str :=
        let '(st1, ra1) := ARGS (RUN n) f (params f) st [] in
        match ra1 with
        | Err e => (st1, Err e)
        | Ok args =>
            let st2 := x_log st1 (fname f, args) in
            match body (fname f) args with
            | Err e => (st2, Err e)
            | Ok r =>
                let st3 := match key with Some k => x_c st2 (cput P (xc st2) k r) | None => st2 end in
                let rs := update_all_results pick f r (xres st3) in
                (x_res st3 rs, out_of rs o)
            end
        end.
      Definition run_func (n : nat) (st : @xstate C) (o : str) (f : pfunc) (key : option ckey)
        : @xstate C * result str :=
        match found_of st key with
        | Some (ov, c1) => hit_branch n st o f ov c1
        | None => miss_branch n st o f key
        end.

      Lemma crun_out_S n st o :
        RUN (S n) st o =
        match aget (xres st) o with
        | Some v => (st, Ok v)
        | None =>
            match producer p o with
            | None => (st, Err KeyError)
            | Some f =>
                match root_args p o with
                | Err e => (st, Err e)
                | Ok ra => run_func n st o f (the_key f ra)
                end
            end
        end.
      Proof. reflexivity. Qed.

      Lemma cget_args_cons (rec : @xstate C -> str -> @xstate C * result str) f cur orig t (st : @xstate C) acc :
        ARGS rec f ((cur, orig) :: t) st acc =
        let '(st1, rv) := cresolve p kw rec f st cur in
        match rv with
        | Err e => (st1, Err e)
        | Ok v => ARGS rec f t (x_use st1 cur) (acc ++ [(orig, v)])
        end.
      Proof. reflexivity. Qed.

      (* ---- the specification values ---- *)
      Definition EvalOk (n v : str) : Prop := exists m, eval body pick m p kw n = Ok v.
      Definition RawOk (f : pfunc) (r : str) : Prop := exists m, eval_raw body pick m p kw f = Ok r.
      Definition arg_ok (f : pfunc) (cur v : str) : Prop :=
        exists m, arg_val (eval body pick m p kw) p kw f cur = Ok v.

      (* all_results: contains the keywords; every entry is a keyword or the specification's value *)
      Definition res_ok (rs : alist) : Prop :=
        (forall n v, aget kw n = Some v -> aget rs n = Some v)
        /\ (forall n v, aget rs n = Some v -> aget kw n = Some v \/ (aget kw n = None /\ EvalOk n v)).
      Definition inv (st : xstate) : Prop := res_ok (xres st) /\ cache_inv (xc st).
      Definition dom_le (a b : @xstate C) : Prop := forall n, aget (xres a) n <> None -> aget (xres b) n <> None.

      Lemma dom_le_refl a : dom_le a a.
      Proof. intros n H. exact H. Qed.
      Lemma dom_le_trans a b c : dom_le a b -> dom_le b c -> dom_le a c.
      Proof. intros H1 H2 n H. apply H2. now apply H1. Qed.

      Lemma EvalOk_det n v w : EvalOk n v -> EvalOk n w -> v = w.
      Proof. intros [m1 H1] [m2 H2]. exact (eval_det body pick p kw m1 m2 n v w H1 H2). Qed.

      Lemma res_ok_get rs n v : res_ok rs -> aget kw n = None -> aget rs n = Some v -> EvalOk n v.
      Proof. intros [_ H] Hk Hr. destruct (H n v Hr) as [H1|[_ H1]]; [congruence | assumption]. Qed.

      Lemma raw_gives_eval f r o : In f p -> In o (outs f) -> RawOk f r -> EvalOk o (route pick f o r).
      Proof.
        intros Hf Ho [m Hm]. exists (S m). rewrite eval_S. rewrite (producer_unique p o f NODUP Hf Ho).
        now rewrite Hm.
      Qed.

      Lemma upd_res_ok f r rs : res_ok rs -> In f p -> RawOk f r -> (multi f = false -> aget kw (fid f) = None) ->
        res_ok (update_all_results pick f r rs).
      Proof.
        intros [H1 H2] Hf Hr Hs. pose proof (wf_f f Hf) as Hwf. split.
        - intros n v Hk. destruct (multi f) eqn:Hm.
          + rewrite upd_get_multi by assumption. now rewrite (H1 n v Hk).
          + rewrite upd_get_single by assumption. destruct (str_eqb n (fid f)) eqn:E; [|now apply H1].
            apply str_eqb_eq in E. subst. rewrite (Hs eq_refl) in Hk. discriminate.
        - intros n v Hn. destruct (multi f) eqn:Hm.
          + rewrite upd_get_multi in Hn by assumption. destruct (aget rs n) as [v0|] eqn:E0.
            * injection Hn as <-. now apply H2.
            * destruct (mem_str n (outs f)) eqn:Em; [|discriminate]. injection Hn as <-.
              apply mem_str_In in Em. destruct (aget kw n) as [w|] eqn:Ek.
              -- rewrite (H1 n w Ek) in E0. discriminate.
              -- right. split; [reflexivity|]. pose proof (raw_gives_eval f r n Hf Em Hr) as He.
                 unfold route in He. now rewrite Hm in He.
          + rewrite upd_get_single in Hn by assumption. destruct (str_eqb n (fid f)) eqn:E; [|now apply H2].
            apply str_eqb_eq in E. subst. injection Hn as <-. right. split; [now apply Hs|].
            assert (Ho : In (fid f) (outs f)) by (rewrite (single_outs f Hwf Hm); now left).
            pose proof (raw_gives_eval f r (fid f) Hf Ho Hr) as He. unfold route in He. now rewrite Hm in He.
      Qed.

      Lemma single_requested f o : In f p -> In o (outs f) -> aget kw o = None -> multi f = false -> aget kw (fid f) = None.
      Proof.
        intros Hf Ho Hk Hm. rewrite (single_outs f (wf_f f Hf) Hm) in Ho. destruct Ho as [<-|[]]. exact Hk.
      Qed.

      (* one common fuel for all parameters *)
      Lemma args_combine f : forall ps vs,
        Forall2 (fun (po ov : str * str) => fst ov = snd po /\ arg_ok f (fst po) (snd ov)) ps vs ->
        exists m, mapM (fun po : str * str => do v <- arg_val (eval body pick m p kw) p kw f (fst po); Ok (snd po, v)) ps
                  = Ok vs.
      Proof.
        induction 1 as [|[cur orig] [o' v] ps vs [Ho [m1 Hv]] _ [m2 IH]]; [exists 0; reflexivity|].
        cbn in Ho, Hv. subst o'. exists (max m1 m2). cbn [mapM fst snd].
        rewrite (arg_val_mono (eval body pick m1 p kw) (eval body pick (max m1 m2) p kw) p kw f cur v
                   (fun c w Hc => eval_mono body pick p kw m1 c w Hc (max m1 m2) ltac:(lia)) Hv).
        cbn.
        assert (Ht : mapM (fun po : str * str => do v0 <- arg_val (eval body pick (max m1 m2) p kw) p kw f (fst po);
                                                 Ok (snd po, v0)) ps = Ok vs).
        { apply (mapM_ok_ext (fun po : str * str => do v0 <- arg_val (eval body pick m2 p kw) p kw f (fst po);
                                                    Ok (snd po, v0))); [|exact IH].
          intros x y _ Hx.
          destruct (arg_val (eval body pick m2 p kw) p kw f (fst x)) as [v0|e] eqn:E; cbn in Hx; [|discriminate].
          now rewrite (arg_val_mono _ (eval body pick (max m1 m2) p kw) p kw f (fst x) v0
                         (fun c w Hc => eval_mono body pick p kw m2 c w Hc (max m1 m2) ltac:(lia)) E). }
        now rewrite Ht.
      Qed.

      (* ---------------------------------------------------------------- 4. soundness *)
      (* whatever the result (also when an exception propagates): the invariants survive; an Ok result is the
         specification's value *)
      Definition sound_at (n : nat) : Prop :=
        forall st o st' r, inv st -> aget kw o = None -> RUN n st o = (st', r) ->
                           inv st' /\ dom_le st st' /\ forall v, r = Ok v -> EvalOk o v.

      Lemma sound_resolve n f st cur st1 rv : sound_at n -> inv st ->
        cresolve p kw (RUN n) f st cur = (st1, rv) ->
        inv st1 /\ dom_le st st1 /\ forall v, rv = Ok v -> arg_ok f cur v.
      Proof.
        intros IH Hi H. unfold cresolve in H. unfold arg_ok, arg_val.
        destruct (aget (bound f) cur) as [b|] eqn:Eb.
        { injection H as <- <-. split; [exact Hi | split; [apply dom_le_refl|]]. intros v Hv. injection Hv as <-. now exists 0. }
        destruct (aget kw cur) as [w|] eqn:Ek.
        { injection H as <- <-. split; [exact Hi | split; [apply dom_le_refl|]]. intros v Hv. injection Hv as <-. now exists 0. }
        destruct (is_output p cur) eqn:Eo.
        { destruct (IH st cur st1 rv Hi Ek H) as [Hi1 [Hd He]]. split; [exact Hi1 | split; [exact Hd|]].
          intros v Hv. destruct (He v Hv) as [m Hm]. now exists m. }
        destruct (pdefault p cur) as [d|] eqn:Ed.
        - injection H as <- <-. split; [exact Hi | split; [apply dom_le_refl|]]. intros v Hv. injection Hv as <-.
          exists 0. rewrite <- (pdefault_eq p cur CONS). now rewrite Ed.
        - injection H as <- <-. split; [exact Hi | split; [apply dom_le_refl|]]. intros v Hv. discriminate.
      Qed.

      Lemma sound_args n f : sound_at n -> forall ps st acc st' ra, inv st ->
        ARGS (RUN n) f ps st acc = (st', ra) ->
        inv st' /\ dom_le st st'
        /\ forall args, ra = Ok args ->
             exists vs, args = acc ++ vs
                        /\ Forall2 (fun (po ov : str * str) => fst ov = snd po /\ arg_ok f (fst po) (snd ov)) ps vs.
      Proof.
        intros IH. induction ps as [|[cur orig] t IHt]; intros st acc st' ra Hi H.
        - cbn in H. injection H as <- <-. split; [exact Hi | split; [apply dom_le_refl|]].
          intros args Ha. injection Ha as <-. exists []. split; [now rewrite app_nil_r | constructor].
        - rewrite cget_args_cons in H. destruct (cresolve p kw (RUN n) f st cur) as [st1 rv] eqn:Er.
          destruct (sound_resolve n f st cur st1 rv IH Hi Er) as [Hi1 [Hd1 Ha]].
          destruct rv as [v|e].
          + destruct (IHt (x_use st1 cur) (acc ++ [(orig, v)]) st' ra Hi1 H) as [Hi2 [Hd2 Hf2]].
            split; [exact Hi2 | split].
            * intros x Hx. apply Hd2. cbn. now apply Hd1.
            * intros args Hargs. destruct (Hf2 args Hargs) as [vs [E Hf]].
              exists ((orig, v) :: vs). split; [now rewrite E, <- app_assoc|]. constructor; [|assumption].
              split; [reflexivity | now apply Ha].
          + injection H as <- <-. split; [exact Hi1 | split; [exact Hd1|]]. intros args Hargs. discriminate.
      Qed.

      Lemma sound_args_raw n f st st' args : sound_at n -> inv st ->
        ARGS (RUN n) f (params f) st [] = (st', Ok args) ->
        inv st' /\ dom_le st st' /\ exists m, args_with (eval body pick m p kw) p kw f = Ok args.
      Proof.
        intros IH Hi H. destruct (sound_args n f IH (params f) st [] st' (Ok args) Hi H) as [Hi' [Hd Hf]].
        destruct (Hf args eq_refl) as [vs [Ha Hf2]].
        cbn in Ha. subst vs. split; [exact Hi' | split; [exact Hd|]]. exact (args_combine f _ _ Hf2).
      Qed.

      (* facts about a key that was computed *)
      Lemma the_key_spec f ra k : the_key f ra = Some k ->
        supplies_output p kw = false /\ exists rv, key_items false p f kw ra = Some rv /\ k = KCall (outs f) rv.
      Proof.
        unfold the_key, cache_key. destruct (use && cached f); [|discriminate]. cbn.
        destruct (supplies_output p kw); [discriminate|]. intros H. split; [reflexivity|].
        destruct (key_items false p f kw ra) as [rv|]; [|discriminate]. injection H as <-. eauto.
      Qed.

      (* the entry of a computed key and the raw result under the keywords are the same thing *)
      Lemma key_entry o f ra k r : producer p o = Some f -> root_args p o = Ok ra -> the_key f ra = Some k ->
        (entry_ok k r <-> RawOk f r).
      Proof.
        intros Hf Hra Hk. destruct (the_key_spec f ra k Hk) as [Hsup [rv [Hit ->]]].
        destruct (roots_of o f ra Hf Hra) as [Hroot Hfr]. apply producer_In in Hf as Hf'. destruct Hf' as [Hfp _].
        split.
        - intros [f' [Hf' [Ho [m Hm]]]]. rewrite (same_outs_eq p f' f WF Hf' Hfp Ho) in Hm.
          exists m. now rewrite (key_raw kw rv f ra Hfp Hsup Hroot Hit m f Hfr).
        - intros [m Hm]. exists f. repeat split; try assumption; try reflexivity. exists m.
          now rewrite <- (key_raw kw rv f ra Hfp Hsup Hroot Hit m f Hfr).
      Qed.

      Lemma sound_hit n st o f ra k ov c1 st' r0 : sound_at n -> inv st -> aget kw o = None ->
        producer p o = Some f -> root_args p o = Ok ra -> the_key f ra = Some k ->
        cmem P (xc st) k = true -> cget P (xc st) k = (ov, c1) ->
        hit_branch n st o f ov c1 = (st', r0) -> inv st' /\ dom_le st st' /\ forall v, r0 = Ok v -> EvalOk o v.
      Proof.
        intros IH [Hres Hc] Hko Hf Hra Hk Hm Hg H.
        apply producer_In in Hf as Hf'. destruct Hf' as [Hfp Ho].
        destruct (cache_inv_hit (xc st) k Hc Hm) as [r [Hr He]]. rewrite Hg in Hr. cbn in Hr. subst ov.
        apply (key_entry o f ra k r Hf Hra Hk) in He.
        pose proof (cache_inv_get (xc st) k Hc) as Hc1. rewrite Hg in Hc1. cbn in Hc1.
        unfold hit_branch in H. cbn [hit_value] in H.
        assert (Hres1 : res_ok (update_all_results pick f r (xres st))).
        { apply upd_res_ok; try assumption. now apply (single_requested f o). }
        assert (Hd1 : forall x, aget (xres st) x <> None -> aget (update_all_results pick f r (xres st)) x <> None)
          by (intros x; apply upd_dom).
        destruct (negb full).
        - cbn in H. injection H as <- <-.
          split; [split; [exact Hres1 | exact Hc1] | split; [exact Hd1|]].
          intros v Hv. unfold out_of in Hv. cbn in Hv.
          destruct (aget (update_all_results pick f r (xres st)) o) as [v0|] eqn:Ev; [|discriminate].
          injection Hv as <-. now apply (res_ok_get _ o v0 Hres1).
        - cbn [x_c x_res xres] in H.
          destruct (ARGS (RUN n) f (params f) _ []) as [st2 ra2] eqn:Ea in H.
          assert (Hi1 : inv (x_res (x_c st c1) (update_all_results pick f r (xres st))))
            by (split; [exact Hres1 | exact Hc1]).
          destruct (sound_args n f IH _ _ _ st2 ra2 Hi1 Ea) as [Hi2 [Hd2 _]].
          assert (Hd : dom_le st st2) by (intros x Hx; apply Hd2; cbn; now apply Hd1).
          destruct ra2 as [args|e]; injection H as <- <-; (split; [exact Hi2 | split; [exact Hd|]]); intros v Hv; [|discriminate].
          unfold out_of in Hv. destruct (aget (xres st2) o) as [v0|] eqn:Ev; [|discriminate]. injection Hv as <-.
          now apply (res_ok_get _ o v0 (proj1 Hi2)).
      Qed.

      Lemma sound_miss n st o f ra st' r0 : sound_at n -> inv st -> aget kw o = None ->
        producer p o = Some f -> root_args p o = Ok ra ->
        miss_branch n st o f (the_key f ra) = (st', r0) -> inv st' /\ dom_le st st' /\ forall v, r0 = Ok v -> EvalOk o v.
      Proof.
        intros IH Hi Hko Hf Hra H. apply producer_In in Hf as Hf'. destruct Hf' as [Hfp Ho].
        unfold miss_branch in H.
        destruct (ARGS (RUN n) f (params f) st []) as [st1 ra1] eqn:Ea.
        destruct (sound_args n f IH _ _ _ st1 ra1 Hi Ea) as [Hi1 [Hd1 _]].
        destruct ra1 as [args|e]; [|injection H as <- <-; split; [exact Hi1 | split; [exact Hd1 | intros v Hv; discriminate]]].
        destruct (sound_args_raw n f st st1 args IH Hi Ea) as [[Hres1 Hc1] [_ [m Hm]]].
        destruct (body (fname f) args) as [r|e] eqn:Eb;
          [|injection H as <- <-; split; [exact Hi1 | split; [exact Hd1 | intros v Hv; discriminate]]].
        assert (Hraw : RawOk f r) by (exists m; unfold eval_raw; now rewrite Hm).
        injection H as <- <-. cbn [xres xc x_res x_log x_c] in *.
        set (st3 := match the_key f ra with Some k => _ | None => _ end) in *.
        assert (E3 : xres st3 = xres st1) by (subst st3; destruct (the_key f ra); reflexivity).
        assert (Hc3 : cache_inv (xc st3)).
        { subst st3. destruct (the_key f ra) as [k|] eqn:Ek; [|exact Hc1]. cbn.
          apply cache_inv_put; [exact Hc1|]. now apply (key_entry o f ra k r Hf Hra Ek). }
        rewrite E3 in *.
        assert (Hres' : res_ok (update_all_results pick f r (xres st1))).
        { apply upd_res_ok; try assumption. now apply (single_requested f o). }
        split; [split; [exact Hres' | exact Hc3] | split].
        - intros x Hx. cbn. apply upd_dom. now apply Hd1.
        - intros v Hv. unfold out_of in Hv.
          destruct (aget (update_all_results pick f r (xres st1)) o) as [v0|] eqn:Ev; [|discriminate].
          injection Hv as <-. now apply (res_ok_get _ o v0 Hres').
      Qed.

      Lemma sound : forall n, sound_at n.
      Proof.
        induction n as [|n IH]; intros st o st' r Hi Hko H.
        { cbn in H. injection H as <- <-. split; [exact Hi | split; [apply dom_le_refl | intros v Hv; discriminate]]. }
        rewrite crun_out_S in H. destruct (aget (xres st) o) as [v0|] eqn:Eres.
        { injection H as <- <-. split; [exact Hi | split; [apply dom_le_refl|]]. intros v Hv. injection Hv as <-.
          now apply (res_ok_get _ o v0 (proj1 Hi)). }
        destruct (producer p o) as [f|] eqn:Hf;
          [|injection H as <- <-; split; [exact Hi | split; [apply dom_le_refl | intros v Hv; discriminate]]].
        destruct (root_args p o) as [ra|e] eqn:Hra;
          [|injection H as <- <-; split; [exact Hi | split; [apply dom_le_refl | intros v Hv; discriminate]]].
        unfold run_func in H. destruct (found_of st (the_key f ra)) as [[ov c1]|] eqn:Efound.
        - unfold found_of in Efound. destruct (the_key f ra) as [k|] eqn:Ek; [|discriminate].
          destruct (cmem P (xc st) k) eqn:Em; [|discriminate]. injection Efound as Eg.
          now apply (sound_hit n st o f ra k ov c1 st' r IH Hi Hko Hf Hra Ek Em Eg).
        - now apply (sound_miss n st o f ra st' r IH Hi Hko Hf Hra).
      Qed.

      (* ---------------------------------------------------------------- 5. completeness *)
      Definition complete_at (n : nat) : Prop :=
        forall st o v, inv st -> aget kw o = None -> EvalOk o v -> RK o < n -> exists st' v', RUN n st o = (st', Ok v').

      Lemma eval_ok_inv o v : EvalOk o v ->
        exists f m args r, producer p o = Some f /\ args_with (eval body pick m p kw) p kw f = Ok args
                           /\ body (fname f) args = Ok r.
      Proof.
        intros [m Hm]. destruct m as [|m]; [discriminate|]. rewrite eval_S in Hm.
        destruct (producer p o) as [f|]; [|discriminate]. unfold eval_raw in Hm.
        destruct (args_with (eval body pick m p kw) p kw f) as [args|e] eqn:Ea; cbn in Hm; [|discriminate].
        destruct (body (fname f) args) as [r|e] eqn:Eb; cbn in Hm; [|discriminate].
        exists f, m, args, r. auto.
      Qed.

      Lemma complete_args n f o : complete_at n -> producer p o = Some f -> RK o < S n ->
        forall ps st acc, inv st -> incl (map fst ps) (pnames f) ->
          (forall cur, In cur (map fst ps) -> exists v, arg_ok f cur v) ->
          exists st' args, ARGS (RUN n) f ps st acc = (st', Ok args).
      Proof.
        intros IH Hf Hrk. induction ps as [|[cur orig] t IHt]; intros st acc Hi Hincl Hargs.
        - cbn. eauto.
        - rewrite cget_args_cons.
          assert (Hc : In cur (pnames f)) by (apply Hincl; now left).
          destruct (Hargs cur (or_introl eq_refl)) as [v [m Hv]].
          assert (Hres : exists st1 v1, cresolve p kw (RUN n) f st cur = (st1, Ok v1)).
          { unfold cresolve. unfold arg_val in Hv. destruct (aget (bound f) cur) as [b|] eqn:Eb; [eauto|].
            destruct (aget kw cur) as [w|] eqn:Ek; [eauto|]. destruct (is_output p cur) eqn:Eo.
            - apply (IH st cur v Hi Ek); [now exists m|]. pose proof (rk_up o f cur Hf Hc Eb Eo). lia.
            - rewrite <- (pdefault_eq p cur CONS) in Hv. destruct (pdefault p cur); [eauto | discriminate]. }
          destruct Hres as [st1 [v1 Hr]]. rewrite Hr.
          destruct (sound_resolve n f st cur st1 (Ok v1) (sound n) Hi Hr) as [Hi1 _].
          apply IHt; [exact Hi1 | |].
          + intros x Hx. apply Hincl. now right.
          + intros x Hx. apply Hargs. now right.
      Qed.

      Lemma complete_ok : forall n, complete_at n.
      Proof.
        induction n as [|n IH]; intros st o v Hi Hko He Hrk; [lia|].
        rewrite crun_out_S. destruct (aget (xres st) o) as [v0|] eqn:Eres; [eauto|].
        destruct (eval_ok_inv o v He) as [f [m [args0 [r0 [Hf [Ha0 Hb0]]]]]]. rewrite Hf.
        destruct (roots_exist o f Hf) as [ra Hra]. rewrite Hra.
        apply producer_In in Hf as Hf'. destruct Hf' as [Hfp Ho]. pose proof (wf_f f Hfp) as Hwf.
        assert (Hargs : forall cur, In cur (map fst (params f)) -> exists w, arg_ok f cur w).
        { intros cur Hc. apply in_map_iff in Hc as [[c1 o1] [<- Hin]]. unfold args_with in Ha0.
          destruct (mapM_ok_In _ _ _ _ Ha0 Hin) as [y Hy]. cbn in Hy.
          destruct (arg_val (eval body pick m p kw) p kw f c1) as [w|e] eqn:E; [|discriminate]. exists w. now exists m. }
        assert (CA : forall st0, inv st0 -> exists st' args, ARGS (RUN n) f (params f) st0 [] = (st', Ok args)).
        { intros st0 Hi0. apply (complete_args n f o IH Hf Hrk); [exact Hi0 | apply incl_refl | exact Hargs]. }
        unfold run_func. destruct (found_of st (the_key f ra)) as [[ov c1]|] eqn:Efound.
        - unfold found_of in Efound. destruct (the_key f ra) as [k|] eqn:Ek; [|discriminate].
          destruct (cmem P (xc st) k) eqn:Em; [|discriminate]. injection Efound as Eg.
          destruct Hi as [Hres Hc].
          destruct (cache_inv_hit (xc st) k Hc Em) as [r [Hr Hent]]. rewrite Eg in Hr. cbn in Hr. subst ov.
          apply (key_entry o f ra k r Hf Hra Ek) in Hent.
          pose proof (cache_inv_get (xc st) k Hc) as Hc1. rewrite Eg in Hc1. cbn in Hc1.
          unfold hit_branch. cbn [hit_value].
          assert (Hi1 : inv (x_res (x_c st c1) (update_all_results pick f r (xres st)))).
          { split; [|exact Hc1]. apply upd_res_ok; try assumption. now apply (single_requested f o). }
          destruct (negb full).
          + cbn. unfold out_of. pose proof (upd_has f r (xres st) o Hwf Ho) as Hh.
            destruct (aget (update_all_results pick f r (xres st)) o); [eauto | congruence].
          + cbn [x_c x_res xres]. destruct (CA _ Hi1) as [st2 [args Ea]]. rewrite Ea.
            destruct (sound_args_raw n f _ st2 args (sound n) Hi1 Ea) as [_ [Hd _]].
            unfold out_of. pose proof (Hd o (upd_has f r (xres st) o Hwf Ho)) as Hh.
            destruct (aget (xres st2) o); [eauto | congruence].
        - unfold miss_branch. destruct (CA st Hi) as [st1 [args Ea]]. rewrite Ea.
          destruct (sound_args_raw n f st st1 args (sound n) Hi Ea) as [_ [_ [m' Hm']]].
          assert (args = args0).
          { pose proof (args_with_mono (eval body pick m p kw) (eval body pick (max m m') p kw) p kw f args0
                          (fun c w Hc => eval_mono body pick p kw m c w Hc (max m m') ltac:(lia)) Ha0) as H1.
            pose proof (args_with_mono (eval body pick m' p kw) (eval body pick (max m m') p kw) p kw f args
                          (fun c w Hc => eval_mono body pick p kw m' c w Hc (max m m') ltac:(lia)) Hm') as H2.
            congruence. }
          subst args0. rewrite Hb0. unfold out_of.
          set (st3 := match the_key f ra with Some k => _ | None => _ end).
          pose proof (upd_has f r0 (xres st3) o Hwf Ho) as Hh.
          destruct (aget (update_all_results pick f r0 (xres st3)) o); [eauto | congruence].
      Qed.

      Lemma complete n st o v : inv st -> aget kw o = None -> EvalOk o v -> RK o < n ->
        exists st', RUN n st o = (st', Ok v) /\ inv st' /\ dom_le st st'.
      Proof.
        intros Hi Hko He Hrk. destruct (complete_ok n st o v Hi Hko He Hrk) as [st' [v' H]].
        destruct (sound n st o st' (Ok v') Hi Hko H) as [Hi' [Hd He']].
        rewrite (EvalOk_det o v v' He (He' v' eq_refl)). eauto.
      Qed.

      (* ---------------------------------------------------------------- 6a. xhit is monotone; frame property *)
      Definition hit_mono_at (n : nat) : Prop :=
        forall st o st' r, RUN n st o = (st', r) -> xhit st = true -> xhit st' = true.

      Lemma hit_mono_args n f : hit_mono_at n -> forall ps st acc st' r,
        ARGS (RUN n) f ps st acc = (st', r) -> xhit st = true -> xhit st' = true.
      Proof.
        intros IH. induction ps as [|[cur orig] t IHt]; intros st acc st' r H Hx.
        - cbn in H. now injection H as <- _.
        - rewrite cget_args_cons in H. destruct (cresolve p kw (RUN n) f st cur) as [st1 rv] eqn:Er.
          assert (H1 : xhit st1 = true).
          { unfold cresolve in Er. destruct (aget (bound f) cur); [now injection Er as <- _|].
            destruct (aget kw cur); [now injection Er as <- _|]. destruct (is_output p cur); [now apply (IH st cur st1 rv)|].
            destruct (pdefault p cur); now injection Er as <- _. }
          destruct rv as [v|e]; [|now injection H as <- _]. now apply (IHt (x_use st1 cur) _ st' r H).
      Qed.

      Lemma hit_mono : forall n, hit_mono_at n.
      Proof.
        induction n as [|n IH]; intros st o st' r H Hx; [cbn in H; now injection H as <- _|].
        rewrite crun_out_S in H. destruct (aget (xres st) o); [now injection H as <- _|].
        destruct (producer p o) as [f|]; [|now injection H as <- _].
        destruct (root_args p o) as [ra|e]; [|now injection H as <- _].
        unfold run_func in H. destruct (found_of st (the_key f ra)) as [[ov c1]|].
        - unfold hit_branch in H. destruct (hit_value f ov) as [r0|e]; [|now injection H as <- _].
          destruct (negb full); [now injection H as <- _|]. cbn zeta in H.
          destruct (ARGS (RUN n) f (params f) _ []) as [st2 ra2] eqn:Ea.
          assert (H2 : xhit st2 = true) by (apply (hit_mono_args n f IH _ _ _ _ _ Ea); exact Hx).
          destruct ra2; now injection H as <- _.
        - unfold miss_branch in H. destruct (ARGS (RUN n) f (params f) st []) as [st1 ra1] eqn:Ea.
          assert (H1 : xhit st1 = true) by (apply (hit_mono_args n f IH _ _ _ _ _ Ea); exact Hx).
          destruct ra1 as [args|e]; [|now injection H as <- _].
          destruct (body (fname f) args); [|now injection H as <- _].
          injection H as <- _. destruct (the_key f ra); exact H1.
      Qed.

      (* with full_output, and in the uncached twin, nothing is returned early *)
      Definition hit_full_at (n : nat) : Prop :=
        forall st o st' r, full = true \/ use = false -> RUN n st o = (st', r) -> xhit st' = xhit st.

      Lemma hit_full_args n f : hit_full_at n -> full = true \/ use = false -> forall ps st acc st' r,
        ARGS (RUN n) f ps st acc = (st', r) -> xhit st' = xhit st.
      Proof.
        intros IH Hq. induction ps as [|[cur orig] t IHt]; intros st acc st' r H.
        - cbn in H. now injection H as <- _.
        - rewrite cget_args_cons in H. destruct (cresolve p kw (RUN n) f st cur) as [st1 rv] eqn:Er.
          assert (H1 : xhit st1 = xhit st).
          { unfold cresolve in Er. destruct (aget (bound f) cur); [now injection Er as <- _|].
            destruct (aget kw cur); [now injection Er as <- _|]. destruct (is_output p cur); [now apply (IH st cur st1 rv)|].
            destruct (pdefault p cur); now injection Er as <- _. }
          destruct rv as [v|e]; [|now injection H as <- _]. rewrite <- H1. now apply (IHt (x_use st1 cur) _ st' r H).
      Qed.

      Lemma hit_full : forall n, hit_full_at n.
      Proof.
        induction n as [|n IH]; intros st o st' r Hq H; [cbn in H; now injection H as <- _|].
        rewrite crun_out_S in H. destruct (aget (xres st) o); [now injection H as <- _|].
        destruct (producer p o) as [f|]; [|now injection H as <- _].
        destruct (root_args p o) as [ra|e]; [|now injection H as <- _].
        unfold run_func in H. destruct (found_of st (the_key f ra)) as [[ov c1]|] eqn:Efound.
        - assert (Hfull : full = true).
          { destruct Hq as [Hq|Hq]; [exact Hq|]. unfold found_of, the_key in Efound. rewrite Hq in Efound. discriminate. }
          unfold hit_branch in H. destruct (hit_value f ov) as [r0|e]; [|now injection H as <- _].
          destruct (negb full) eqn:En; [rewrite Hfull in En; discriminate|]. cbn zeta in H.
          destruct (ARGS (RUN n) f (params f) _ []) as [st2 ra2] eqn:Ea.
          pose proof (hit_full_args n f IH Hq _ _ _ _ _ Ea) as H2. cbn in H2.
          destruct ra2; now injection H as <- _.
        - unfold miss_branch in H. destruct (ARGS (RUN n) f (params f) st []) as [st1 ra1] eqn:Ea.
          pose proof (hit_full_args n f IH Hq _ _ _ _ _ Ea) as H1.
          destruct ra1 as [args|e]; [|now injection H as <- _].
          destruct (body (fname f) args); [|now injection H as <- _].
          injection H as <- _. destruct (the_key f ra); exact H1.
      Qed.

      (* a run for o never touches names of larger rank *)
      Definition frame_at (n : nat) : Prop :=
        forall st o st' r x, RUN n st o = (st', r) -> RK o < RK x -> aget (xres st') x = aget (xres st) x.

      Lemma frame_args n f o : frame_at n -> producer p o = Some f ->
        forall ps, incl (map fst ps) (pnames f) ->
        forall st acc st' r x, ARGS (RUN n) f ps st acc = (st', r) -> RK o <= RK x -> aget (xres st') x = aget (xres st) x.
      Proof.
        intros IH Hf. induction ps as [|[cur orig] t IHt]; intros Hincl st acc st' r x H Hx.
        - cbn in H. now injection H as <- _.
        - rewrite cget_args_cons in H. destruct (cresolve p kw (RUN n) f st cur) as [st1 rv] eqn:Er.
          assert (Hc : In cur (pnames f)) by (apply Hincl; now left).
          assert (H1 : aget (xres st1) x = aget (xres st) x).
          { unfold cresolve in Er. destruct (aget (bound f) cur) eqn:Eb; [now injection Er as <- _|].
            destruct (aget kw cur); [now injection Er as <- _|]. destruct (is_output p cur) eqn:Eo.
            - apply (IH st cur st1 rv x Er). pose proof (rk_up o f cur Hf Hc Eb Eo). lia.
            - destruct (pdefault p cur); now injection Er as <- _. }
          destruct rv as [v|e]; [|now injection H as <- _].
          rewrite <- H1. apply (IHt (fun y Hy => Hincl y (or_intror Hy)) (x_use st1 cur) _ st' r x H Hx).
      Qed.

      Lemma not_out_of_rank o f x : producer p o = Some f -> RK o < RK x -> ~ In x (outs f).
      Proof. intros Hf Hlt Hin. pose proof (rk_same_func o x f Hf Hin). lia. Qed.

      Lemma frame : forall n, frame_at n.
      Proof.
        induction n as [|n IH]; intros st o st' r x H Hx; [cbn in H; now injection H as <- _|].
        rewrite crun_out_S in H. destruct (aget (xres st) o); [now injection H as <- _|].
        destruct (producer p o) as [f|] eqn:Hf; [|now injection H as <- _].
        destruct (root_args p o) as [ra|e]; [|now injection H as <- _].
        apply producer_In in Hf as Hf'. destruct Hf' as [Hfp _]. pose proof (wf_f f Hfp) as Hwf.
        pose proof (not_out_of_rank o f x Hf Hx) as Hnx.
        unfold run_func in H. destruct (found_of st (the_key f ra)) as [[ov c1]|].
        - unfold hit_branch in H. destruct (hit_value f ov) as [r0|e]; [|now injection H as <- _].
          destruct (negb full).
          + injection H as <- _. cbn. now apply upd_other.
          + cbn zeta in H. destruct (ARGS (RUN n) f (params f) _ []) as [st2 ra2] eqn:Ea.
            pose proof (frame_args n f o IH Hf (params f) (incl_refl _) _ _ _ _ x Ea ltac:(lia)) as H2.
            cbn in H2. rewrite (upd_other f r0 (xres st) x Hnx Hwf) in H2.
            destruct ra2; now injection H as <- _.
        - unfold miss_branch in H. destruct (ARGS (RUN n) f (params f) st []) as [st1 ra1] eqn:Ea.
          pose proof (frame_args n f o IH Hf (params f) (incl_refl _) _ _ _ _ x Ea ltac:(lia)) as H1.
          destruct ra1 as [args|e]; [|now injection H as <- _].
          destruct (body (fname f) args) as [r0|e]; [|now injection H as <- _].
          injection H as <- _. cbn. rewrite upd_other by assumption. destruct (the_key f ra); exact H1.
      Qed.

      (* ---------------------------------------------------------------- 8. no re-execution of a resident entry *)
      Section NoReexec.
        Variable f0 : pfunc.
        Hypothesis Hf0 : In f0 p.
        Variable k0 : ckey.
        (* the key that a request for an output of f0 computes in this call *)
        Hypothesis Hkey : forall o ra, In o (outs f0) -> root_args p o = Ok ra -> the_key f0 ra = Some k0.
        (* the policy never evicts (SimpleCache, DiskCache without max_size) *)
        Hypothesis STABLE : forall c k k' v, cmem P c k = true ->
          cmem P (cput P c k' v) k = true /\ cmem P (snd (cget P c k')) k = true.

        Definition quiet (st : @xstate C) : Prop :=
          cmem P (xc st) k0 = true /\ forall c, In c (xlog st) -> fst c <> fname f0.
        Definition quiet_at (n : nat) : Prop := forall st o st' r, quiet st -> RUN n st o = (st', r) -> quiet st'.

        Lemma quiet_args n f : quiet_at n -> forall ps st acc st' r,
          quiet st -> ARGS (RUN n) f ps st acc = (st', r) -> quiet st'.
        Proof.
          intros IH. induction ps as [|[cur orig] t IHt]; intros st acc st' r Hq H.
          - cbn in H. now injection H as <- _.
          - rewrite cget_args_cons in H. destruct (cresolve p kw (RUN n) f st cur) as [st1 rv] eqn:Er.
            assert (H1 : quiet st1).
            { unfold cresolve in Er. destruct (aget (bound f) cur); [now injection Er as <- _|].
              destruct (aget kw cur); [now injection Er as <- _|]. destruct (is_output p cur); [now apply (IH st cur st1 rv)|].
              destruct (pdefault p cur); now injection Er as <- _. }
            destruct rv as [v|e]; [|now injection H as <- _]. now apply (IHt (x_use st1 cur) _ st' r H1 H).
        Qed.

        Lemma quiet_all : forall n, quiet_at n.
        Proof.
          induction n as [|n IH]; intros st o st' r Hq H; [cbn in H; now injection H as <- _|].
          rewrite crun_out_S in H. destruct (aget (xres st) o); [now injection H as <- _|].
          destruct (producer p o) as [f|] eqn:Hf; [|now injection H as <- _].
          destruct (root_args p o) as [ra|e] eqn:Hra; [|now injection H as <- _].
          apply producer_In in Hf as Hf'. destruct Hf' as [Hfp Ho].
          unfold run_func in H. destruct (found_of st (the_key f ra)) as [[ov c1]|] eqn:Efound.
          - unfold found_of in Efound. destruct (the_key f ra) as [k|]; [|discriminate].
            destruct (cmem P (xc st) k); [|discriminate]. injection Efound as Eg.
            assert (Hq0 : quiet (x_c st c1)).
            { destruct Hq as [Hm Hl]. split; [|exact Hl]. cbn.
              pose proof (proj2 (STABLE (xc st) k0 k [] Hm)) as Hs. rewrite Eg in Hs. exact Hs. }
            unfold hit_branch in H. destruct (hit_value f ov) as [r0|e]; [|now injection H as <- _].
            destruct (negb full); [now injection H as <- _|]. cbn zeta in H.
            destruct (ARGS (RUN n) f (params f) _ []) as [st2 ra2] eqn:Ea.
            assert (H2 : quiet st2).
            { apply (quiet_args n f IH _ _ _ _ _ (Hq0 : quiet (x_res (x_c st c1) (update_all_results pick f r0 (xres (x_c st c1))))) Ea). }
            destruct ra2; now injection H as <- _.
          - assert (Hne : f <> f0).
            { intros ->. unfold found_of in Efound. rewrite (Hkey o ra Ho Hra) in Efound.
              destruct Hq as [Hm _]. rewrite Hm in Efound. discriminate. }
            unfold miss_branch in H. destruct (ARGS (RUN n) f (params f) st []) as [st1 ra1] eqn:Ea.
            assert (H1 : quiet st1) by (apply (quiet_args n f IH _ _ _ _ _ Hq Ea)).
            destruct ra1 as [args|e]; [|now injection H as <- _].
            assert (H2 : quiet (x_log st1 (fname f, args))).
            { destruct H1 as [Hm Hl]. split; [exact Hm|]. cbn. intros c Hc. apply in_app_iff in Hc as [Hc|[<-|[]]]; [now apply Hl|].
              cbn. intros E. apply Hne. exact (fname_inj p f f0 (wf_fnames p WF) Hfp Hf0 E). }
            destruct (body (fname f) args) as [r0|e]; [|now injection H as <- _].
            injection H as <- _. destruct (the_key f ra) as [k|]; [|exact H2].
            destruct H2 as [Hm Hl]. split; [|exact Hl]. cbn. exact (proj1 (STABLE _ k0 k r0 Hm)).
        Qed.
      End NoReexec.
    End OnCall.

    (* ---------------------------------------------------------------- 6b. the cached run simulates the uncached run
       as long as no result was returned early from the cache (xhit stays false): same used_parameters, same
       all_results - except, while the arguments of a function that hit with full_output are being collected, the
       outputs X of the functions on the stack (they were written early) *)
    Section Twin.
      Variable kw : alist.
      Variable full : bool.
      Notation RUNC := (crun_out body pick P false true p kw full).
      Notation RUNU := (crun_out body pick P false false p kw full).
      Notation ARGS := (cget_args p kw).
      Notation INV := (inv kw).

      Definition simR (X : list str) (stc stu : @xstate C) : Prop :=
        xused stc = xused stu /\ forall n, ~ In n X -> aget (xres stc) n = aget (xres stu) n.

      Definition sim_at (n : nat) : Prop :=
        forall X stc stu o stc' rc stu' v,
          simR X stc stu -> (forall x, In x X -> RK o < RK x) -> INV stc -> INV stu -> aget kw o = None ->
          RUNC n stc o = (stc', rc) -> RUNU n stu o = (stu', Ok v) -> xhit stc' = false ->
          rc = Ok v /\ simR X stc' stu'.

      Lemma simR_use X stc stu k : simR X stc stu -> simR X (x_use stc k) (x_use stu k).
      Proof. intros [H1 H2]. split; [cbn; now rewrite H1 | exact H2]. Qed.

      Lemma sim_args n f o : sim_at n -> producer p o = Some f ->
        forall ps, incl (map fst ps) (pnames f) ->
        forall X stc stu acc stc' rac stu' args,
          simR X stc stu -> (forall x, In x X -> RK o <= RK x) -> INV stc -> INV stu ->
          ARGS (RUNC n) f ps stc acc = (stc', rac) -> ARGS (RUNU n) f ps stu acc = (stu', Ok args) -> xhit stc' = false ->
          rac = Ok args /\ simR X stc' stu'.
      Proof.
        intros IH Hf. induction ps as [|[cur orig] t IHt]; intros Hincl X stc stu acc stc' rac stu' args HR HX Hic Hiu Hc Hu Hh.
        - cbn in Hc, Hu. injection Hc as <- <-. injection Hu as <- <-. now split.
        - rewrite cget_args_cons in Hc, Hu.
          destruct (cresolve p kw (RUNC n) f stc cur) as [stc1 rvc] eqn:Erc.
          destruct (cresolve p kw (RUNU n) f stu cur) as [stu1 rvu] eqn:Eru.
          destruct rvu as [vu|e]; [|discriminate].
          assert (Hcur : In cur (pnames f)) by (apply Hincl; now left).
          assert (Hh1 : xhit stc1 = false).
          { destruct (xhit stc1) eqn:E; [|reflexivity]. destruct rvc as [vc|e]; cbn beta iota in Hc.
            - rewrite (hit_mono_args kw full true n f (hit_mono kw full true n) t (x_use stc1 cur) (acc ++ [(orig, vc)])
                         stc' rac Hc E) in Hh. discriminate.
            - injection Hc as <- _. congruence. }
          assert (Hstep : rvc = Ok vu /\ simR X stc1 stu1 /\ INV stc1 /\ INV stu1).
          { pose proof (sound_resolve kw full false n f stu cur stu1 (Ok vu) (sound kw full false n) Hiu Eru) as [Hiu1 _].
            unfold cresolve in Erc, Eru. destruct (aget (bound f) cur) eqn:Eb.
            { injection Erc as <- <-. injection Eru as <- <-. auto. }
            destruct (aget kw cur) eqn:Ek.
            { injection Erc as <- <-. injection Eru as <- <-. auto. }
            destruct (is_output p cur) eqn:Eo.
            - assert (HX' : forall x, In x X -> RK cur < RK x).
              { intros x Hx. pose proof (HX x Hx). pose proof (rk_up o f cur Hf Hcur Eb Eo). lia. }
              destruct (IH X stc stu cur stc1 rvc stu1 vu HR HX' Hic Hiu Ek Erc Eru Hh1) as [-> HR1].
              pose proof (sound kw full true n stc cur stc1 (Ok vu) Hic Ek Erc) as [Hic1 _]. auto.
            - destruct (pdefault p cur); [|discriminate]. injection Erc as <- <-. injection Eru as <- <-. auto. }
          destruct Hstep as [-> [HR1 [Hic1 Hiu1]]]. cbn beta iota in Hc, Hu.
          apply (IHt (fun y Hy => Hincl y (or_intror Hy)) X (x_use stc1 cur) (x_use stu1 cur) (acc ++ [(orig, vu)])
                   stc' rac stu' args); try assumption. now apply simR_use.
      Qed.

      (* the two updates of all_results agree outside X *)
      Lemma simR_upd X stc stu f r : simR X stc stu ->
        simR X (x_res stc (update_all_results pick f r (xres stc))) (x_res stu (update_all_results pick f r (xres stu))).
      Proof.
        intros [H1 H2]. split; [exact H1|]. intros n Hn. cbn. destruct (multi f) eqn:Hm.
        - rewrite !upd_get_multi by assumption. now rewrite (H2 n Hn).
        - rewrite !upd_get_single by assumption. now rewrite (H2 n Hn).
      Qed.

      Lemma sim : forall n, sim_at n.
      Proof.
        induction n as [|n IH]; intros X stc stu o stc' rc stu' v HR HX Hic Hiu Hko Hc Hu Hh; [discriminate|].
        rewrite crun_out_S in Hc, Hu.
        assert (HoX : ~ In o X) by (intros Hi; specialize (HX o Hi); lia).
        rewrite (proj2 HR o HoX) in Hc. destruct (aget (xres stu) o) as [v0|] eqn:Eres.
        { injection Hc as <- <-. injection Hu as <- <-. now split. }
        destruct (producer p o) as [f|] eqn:Hf; [|discriminate].
        destruct (root_args p o) as [ra|e] eqn:Hra; [|discriminate].
        apply producer_In in Hf as Hf'. destruct Hf' as [Hfp Ho]. pose proof (wf_f f Hfp) as Hwf.
        (* the uncached twin: a miss without key *)
        unfold run_func in Hu. change (the_key kw false f ra) with (@None ckey) in Hu. cbn [found_of] in Hu.
        unfold miss_branch in Hu.
        destruct (ARGS (RUNU n) f (params f) stu []) as [stu1 rau] eqn:Eau. destruct rau as [argsu|e]; [|discriminate].
        destruct (body (fname f) argsu) as [ru|e] eqn:Ebu; [|discriminate].
        injection Hu as <- Hvu. cbn [xres x_res x_log] in Hvu.
        destruct (sound_args_raw kw full false n f stu stu1 argsu (sound kw full false n) Hiu Eau) as [Hiu1 [_ [mu Hmu]]].
        assert (Hrawu : RawOk kw f ru) by (exists mu; unfold eval_raw; now rewrite Hmu).
        unfold run_func in Hc. destruct (found_of stc (the_key kw true f ra)) as [[ov c1]|] eqn:Efound.
        - (* a hit *)
          unfold found_of in Efound. destruct (the_key kw true f ra) as [k|] eqn:Ek; [|discriminate].
          destruct (cmem P (xc stc) k) eqn:Em; [|discriminate]. injection Efound as Eg.
          destruct Hic as [Hresc Hcc].
          destruct (cache_inv_hit (xc stc) k Hcc Em) as [r [Hr Hent]]. rewrite Eg in Hr. cbn in Hr. subst ov.
          apply (key_entry kw true o f ra k r Hf Hra Ek) in Hent.
          assert (r = ru) by (destruct Hent as [m1 H1]; destruct Hrawu as [m2 H2]; exact (eval_raw_det body pick p kw m1 m2 f r ru H1 H2)).
          subst ru.
          pose proof (cache_inv_get (xc stc) k Hcc) as Hc1. rewrite Eg in Hc1. cbn in Hc1.
          unfold hit_branch in Hc. cbn [hit_value] in Hc. destruct (negb full).
          { cbn in Hc. injection Hc as <- _. cbn in Hh. discriminate. }
          cbn [x_c x_res xres] in Hc.
          destruct (ARGS (RUNC n) f (params f) _ []) as [stc2 rac] eqn:Eac in Hc.
          assert (Hh2 : xhit stc2 = false) by (destruct rac; injection Hc as <- _; exact Hh).
          set (stc1 := x_res (x_c stc c1) (update_all_results pick f r (xres stc))) in *.
          assert (Hic1 : INV stc1).
          { split; [|exact Hc1]. apply upd_res_ok; try assumption. now apply (single_requested kw f o). }
          assert (HR1 : simR (outs f ++ X) stc1 stu).
          { split; [exact (proj1 HR)|]. intros x Hx. cbn. rewrite upd_other; [|intros Hi; apply Hx, in_app_iff; now left | exact Hwf].
            apply (proj2 HR). intros Hi. apply Hx, in_app_iff. now right. }
          assert (HX1 : forall x, In x (outs f ++ X) -> RK o <= RK x).
          { intros x Hx. apply in_app_iff in Hx as [Hx|Hx]; [rewrite (rk_same_func o x f Hf Hx); lia | specialize (HX x Hx); lia]. }
          destruct (sim_args n f o IH Hf (params f) (incl_refl _) (outs f ++ X) stc1 stu [] stc2 rac stu1 argsu
                      HR1 HX1 Hic1 Hiu Eac Eau Hh2) as [-> HR2].
          injection Hc as <- <-.
          (* all_results of the two twins agree outside X again *)
          assert (HR3 : simR X stc2 (x_res (x_log stu1 (fname f, argsu)) (update_all_results pick f r (xres stu1)))).
          { split; [exact (proj1 HR2)|]. intros x Hx. cbn [xres x_res x_log].
            destruct (in_dec str_eq_dec x (outs f)) as [Hi|Hn].
            - pose proof (frame_args kw full true n f o (frame kw full true n) Hf (params f) (incl_refl _) _ _ _ _ x Eac
                            ltac:(rewrite (rk_same_func o x f Hf Hi); lia)) as F1.
              pose proof (frame_args kw full false n f o (frame kw full false n) Hf (params f) (incl_refl _) _ _ _ _ x Eau
                            ltac:(rewrite (rk_same_func o x f Hf Hi); lia)) as F2.
              rewrite F1. subst stc1. cbn [xres x_res x_c].
              destruct (multi f) eqn:Hm.
              + rewrite !upd_get_multi by assumption. now rewrite F2, (proj2 HR x Hx).
              + rewrite !upd_get_single by assumption. now rewrite F2, (proj2 HR x Hx).
            - rewrite upd_other by assumption. apply (proj2 HR2). intros Hi. apply in_app_iff in Hi as [Hi|Hi]; contradiction. }
          split; [|exact HR3]. rewrite <- Hvu. unfold out_of. now rewrite (proj2 HR3 o HoX).
        - (* a miss *)
          unfold miss_branch in Hc.
          destruct (ARGS (RUNC n) f (params f) stc []) as [stc1 rac] eqn:Eac.
          assert (Hh1 : xhit stc1 = false).
          { destruct rac as [a|e]; [|injection Hc as <- _; exact Hh]. destruct (body (fname f) a); injection Hc as <- _; [|exact Hh].
            destruct (the_key kw true f ra); exact Hh. }
          assert (HX1 : forall x, In x X -> RK o <= RK x) by (intros x Hx; specialize (HX x Hx); lia).
          destruct (sim_args n f o IH Hf (params f) (incl_refl _) X stc stu [] stc1 rac stu1 argsu
                      HR HX1 Hic Hiu Eac Eau Hh1) as [-> HR1].
          rewrite Ebu in Hc. injection Hc as <- <-.
          set (stc3 := match the_key kw true f ra with
                       | Some k => x_c (x_log stc1 (fname f, argsu)) (cput P (xc (x_log stc1 (fname f, argsu))) k ru)
                       | None => x_log stc1 (fname f, argsu)
                       end).
          assert (E1 : xused stc3 = xused stc1) by (subst stc3; destruct (the_key kw true f ra); reflexivity).
          assert (E2 : xres stc3 = xres stc1) by (subst stc3; destruct (the_key kw true f ra); reflexivity).
          assert (HR2 : simR X (x_res stc3 (update_all_results pick f ru (xres stc3)))
                           (x_res (x_log stu1 (fname f, argsu)) (update_all_results pick f ru (xres stu1)))).
          { apply (simR_upd X stc3 (x_log stu1 (fname f, argsu)) f ru).
            split; [rewrite E1; exact (proj1 HR1) | intros x Hx; rewrite E2; exact (proj2 HR1 x Hx)]. }
          split; [|exact HR2]. rewrite <- Hvu. unfold out_of.
          pose proof (proj2 HR2 o HoX) as E. cbn [xres x_res x_log] in E. rewrite E2 in E.
          clear HR2 E1 E2. subst stc3. destruct (the_key kw true f ra); cbn [xres x_c x_log]; now rewrite E.
      Qed.

      (* ---------------------------------------------------------------- 7a. one call of both twins *)
      Lemma init_inv c : cache_inv c -> INV (cinit kw c).
      Proof.
        intros Hc. split; [|exact Hc]. split; cbn.
        - intros n v H. exact H.
        - intros n v H. now left.
      Qed.

      (* whatever happens in a call, the cache still satisfies cache_inv *)
      Lemma crun_cache_inv use c o r lg c' : cache_inv c ->
        crun body pick P false use p c o kw full = (r, lg, c') -> cache_inv c'.
      Proof.
        intros Hc H. unfold crun in H. destruct (negb (is_node p o)); [now injection H as _ _ <-|].
        destruct (ahas kw o) eqn:Ek; [now injection H as _ _ <-|]. apply ahas_false in Ek.
        destruct (crun_out body pick P false use p kw full (S (length p)) (cinit kw c) o) as [st r0] eqn:Er.
        destruct (sound kw full use (S (length p)) (cinit kw c) o st r0 (init_inv c Hc) Ek Er) as [[_ Hc'] _].
        destruct r0 as [v|e]; [|now injection H as _ _ <-].
        destruct (negb (xhit st) && _); now injection H as _ _ <-.
      Qed.

      Theorem call_transparent cu cc o out_u lgu cu' : cache_inv cu -> cache_inv cc ->
        crun body pick P false false p cu o kw full = (Ok out_u, lgu, cu') ->
        exists out_c lgc cc', crun body pick P false true p cc o kw full = (Ok out_c, lgc, cc')
                              /\ outcome_eq out_u out_c.
      Proof.
        intros Hcu Hcc H. unfold crun in *. destruct (negb (is_node p o)); [discriminate|].
        destruct (ahas kw o) eqn:Ek; [discriminate|]. apply ahas_false in Ek.
        destruct (RUNU (S (length p)) (cinit kw cu) o) as [stu ru] eqn:Eu.
        destruct ru as [v|e]; [|discriminate].
        pose proof (hit_full kw full false (S (length p)) _ _ _ _ (or_intror eq_refl) Eu) as Hxu. cbn in Hxu.
        rewrite Hxu in H. cbn [negb andb] in H.
        destruct (cunused kw stu) as [|a l] eqn:Eun; [|discriminate]. injection H as <- _ _.
        pose proof (init_inv cu Hcu) as Hiu. pose proof (init_inv cc Hcc) as Hic.
        destruct (sound kw full false (S (length p)) (cinit kw cu) o stu (Ok v) Hiu Ek Eu) as [_ [_ He]].
        specialize (He v eq_refl).
        assert (Hrk : RK o < S (length p)).
        { destruct (eval_ok_inv kw o v He) as [f [_ [_ [_ [Hf _]]]]]. pose proof (rk_lt_len o f Hf). lia. }
        destruct (complete kw full true (S (length p)) (cinit kw cc) o v Hic Ek He Hrk) as [stc [Ec [Hic' _]]].
        rewrite Ec. destruct (xhit stc) eqn:Exc.
        - (* a result was returned early from the cache: the unused-keyword check is skipped; full_output is off *)
          cbn [negb andb]. destruct full eqn:Efull.
          + rewrite (hit_full kw true true (S (length p)) _ _ _ _ (or_introl eq_refl) Ec) in Exc. discriminate.
          + eexists _, _, _. split; reflexivity.
        - assert (HR0 : simR [] (cinit kw cc) (cinit kw cu)) by (split; [reflexivity | intros n _; reflexivity]).
          destruct (sim (S (length p)) [] (cinit kw cc) (cinit kw cu) o stc (Ok v) stu v HR0
                      (fun x Hx => match Hx with end) Hic Hiu Ek Ec Eu Exc) as [_ [Hused Hres]].
          assert (Eunc : cunused kw stc = []) by (unfold cunused in *; now rewrite Hused).
          rewrite Eunc. cbn [negb andb]. eexists _, _, _. split; [reflexivity|].
          destruct full; cbn; [|reflexivity]. intros n. symmetry. apply Hres. intros [].
      Qed.
    End Twin.

    (* ---------------------------------------------------------------- the uncached twin is Pipe.run (the model of C02) *)
    Section Uncached.
      Variable kw : alist.
      Variable full : bool.
      Notation RUNU := (crun_out body pick P false false p kw full).
      Definition proj (st : @xstate C) : rstate := {| res := xres st; used := xused st; log := xlog st |}.

      Definition unc_at (n : nat) : Prop :=
        forall st o st' r, RUNU n st o = (st', r) ->
          run_out body pick p kw n (proj st) o = (proj st', r) /\ xc st' = xc st /\ xhit st' = xhit st.

      Lemma unc_args n f : unc_at n -> forall ps st acc st' r,
        cget_args p kw (RUNU n) f ps st acc = (st', r) ->
        get_args p kw (run_out body pick p kw n) f ps (proj st) acc = (proj st', r) /\ xc st' = xc st /\ xhit st' = xhit st.
      Proof.
        intros IH. induction ps as [|[cur orig] t IHt]; intros st acc st' r H.
        - cbn in H. injection H as <- <-. cbn. auto.
        - rewrite cget_args_cons in H. cbn [get_args]. unfold cresolve in H. unfold resolve.
          destruct (aget (bound f) cur) as [b|] eqn:Eb; [exact (IHt (x_use st cur) _ st' r H)|].
          destruct (aget kw cur) as [w|] eqn:Ek; [exact (IHt (x_use st cur) _ st' r H)|].
          cbn [res proj]. destruct (is_output p cur) eqn:Eo.
          + destruct (RUNU n st cur) as [st1 rv] eqn:Er. destruct (IH st cur st1 rv Er) as [E1 [E2 E3]]. rewrite E1.
            destruct rv as [v|e].
            * destruct (IHt (x_use st1 cur) _ st' r H) as [F1 [F2 F3]]. cbn in F2, F3. split; [exact F1 | split; congruence].
            * injection H as <- <-. auto.
          + destruct (pdefault p cur) as [d|]; [exact (IHt (x_use st cur) _ st' r H)|]. injection H as <- <-. auto.
      Qed.

      Lemma unc : forall n, unc_at n.
      Proof.
        induction n as [|n IH]; intros st o st' r H; [cbn in H; injection H as <- <-; cbn; auto|].
        rewrite crun_out_S in H. cbn [run_out res proj]. destruct (aget (xres st) o); [injection H as <- <-; auto|].
        destruct (producer p o) as [f|] eqn:Hf; [|injection H as <- <-; auto].
        destruct (roots_exist o f Hf) as [ra Hra]. rewrite Hra in H.
        unfold run_func in H. change (the_key kw false f ra) with (@None ckey) in H. cbn [found_of] in H.
        unfold miss_branch in H. destruct (cget_args p kw (RUNU n) f (params f) st []) as [st1 ra1] eqn:Ea.
        destruct (unc_args n f IH _ _ _ _ _ Ea) as [E1 [E2 E3]]. rewrite E1.
        destruct ra1 as [args|e]; [|injection H as <- <-; auto].
        destruct (body (fname f) args) as [r0|e]; injection H as <- <-; cbn; auto.
      Qed.

      Theorem uncached_twin_is_pipe_run c o :
        crun body pick P false false p c o kw full = (fst (run body pick p o kw full), snd (run body pick p o kw full), c).
      Proof.
        unfold crun, run. destruct (negb (is_node p o)); [reflexivity|]. destruct (ahas kw o); [reflexivity|].
        destruct (RUNU (S (length p)) (cinit kw c) o) as [st r] eqn:Er.
        destruct (unc (S (length p)) _ _ _ _ Er) as [E1 [E2 E3]]. cbn in E2, E3.
        change (proj (cinit kw c)) with (init_state kw) in E1. rewrite E1.
        destruct r as [v|e]; [|cbn; now rewrite E2]. rewrite E3. cbn [negb andb].
        unfold cunused, unused_kw. cbn [used proj].
        destruct (filter (fun k => negb (mem_str k (xused st))) (akeys kw)); cbn; now rewrite E2.
      Qed.
    End Uncached.

    (* a repeated call does not re-execute a cached function whose entry is resident (policies that never evict) *)
    Theorem no_reexec_resident kw full c o f0 k0 r lg c' :
      In f0 p ->
      (forall o' ra, In o' (outs f0) -> root_args p o' = Ok ra -> the_key kw true f0 ra = Some k0) ->
      (forall c k k' v, cmem P c k = true -> cmem P (cput P c k' v) k = true /\ cmem P (snd (cget P c k')) k = true) ->
      cmem P c k0 = true ->
      crun body pick P false true p c o kw full = (r, lg, c') ->
      (forall call, In call lg -> fst call <> fname f0) /\ cmem P c' k0 = true.
    Proof.
      intros Hf0 Hkey STABLE Hm H. unfold crun in H.
      destruct (negb (is_node p o)); [injection H as _ <- <-; split; [intros call []|exact Hm]|].
      destruct (ahas kw o); [injection H as _ <- <-; split; [intros call []|exact Hm]|].
      destruct (crun_out body pick P false true p kw full (S (length p)) (cinit kw c) o) as [st r0] eqn:Er.
      assert (Hq0 : quiet f0 k0 (cinit kw c)) by (split; [exact Hm | intros call []]).
      destruct (quiet_all kw full true f0 Hf0 k0 Hkey STABLE (S (length p)) _ _ _ _ Hq0 Er) as [Hm' Hl].
      destruct r0 as [v|e]; [|injection H as _ <- <-; now split].
      destruct (negb (xhit st) && _); injection H as _ <- <-; now split.
    Qed.

    (* ---------------------------------------------------------------- 9. the map path *)
    Lemma aget_In_iff l k v : NoDup (akeys l) -> (aget l k = Some v <-> In (k, v) l).
    Proof.
      intros Hnd. split; [apply aget_In|]. induction l as [|[k1 v1] l IH]; intros Hi; [destruct Hi|].
      cbn in Hnd. inversion Hnd as [|? ? Hn Hd]; subst. cbn. destruct Hi as [E|Hi].
      - injection E as -> ->. now rewrite str_eqb_refl.
      - destruct (str_eqb k k1) eqn:E; [|now apply IH]. apply str_eqb_eq in E. subst. exfalso. apply Hn.
        unfold akeys. apply in_map_iff. now exists (k1, v).
    Qed.

    Lemma aget_perm l l' k : Permutation l l' -> NoDup (akeys l) -> aget l k = aget l' k.
    Proof.
      intros Hp Hnd. assert (Hnd' : NoDup (akeys l')) by (unfold akeys; eapply Permutation_NoDup; [apply Permutation_map; exact Hp | exact Hnd]).
      destruct (aget l k) as [v|] eqn:E.
      - symmetry. apply aget_In_iff; [exact Hnd'|]. eapply Permutation_in; [exact Hp|]. now apply aget_In_iff.
      - destruct (aget l' k) as [v|] eqn:E'; [|reflexivity]. apply aget_In_iff in E'; [|exact Hnd'].
        apply (Permutation_in _ (Permutation_sym Hp)) in E'. apply aget_In_iff in E'; [congruence | exact Hnd].
    Qed.

    Lemma call_args_sorted f kws kws' : NoDup (akeys kws) -> NoDup (akeys kws') ->
      sort_by_key kws' = sort_by_key kws -> call_args f kws' = call_args f kws.
    Proof.
      intros H1 H2 E. unfold call_args. apply flat_map_ext. intros [cur orig]. cbn [fst snd].
      assert (Ha : aget kws' cur = aget kws cur).
      { rewrite (aget_perm kws' (sort_by_key kws') cur (Permutation_sym (sort_perm _ _)) H2).
        rewrite E. symmetry. apply aget_perm; [apply Permutation_sym, sort_perm | exact H1]. }
      now rewrite Ha.
    Qed.

    (* _get_or_set_cache returns what the user function returns, whatever the policy evicted *)
    (* the two atomic steps of an invocation, each from ANY cache satisfying the invariant (whatever the other
       clients of a shared cache did in between): a value that is read is the user function's value ... *)
    Lemma gos_read_ok f kws c v c1 : In f p -> NoDup (akeys kws) -> cache_inv c ->
      gos_read P f kws c = (Some v, c1) -> body (fname f) (call_args f kws) = Ok v.
    Proof.
      intros Hf Hnd Hc H. unfold gos_read in H. destruct Hc as [Hg He].
      assert (Hm : cmem P c (map_key f kws) = true) by (apply (L_get_mem P good LAW c _ v Hg); now rewrite H).
      assert (Hl : lookup P c (map_key f kws) = Some v) by (unfold lookup; now rewrite Hm, H).
      destruct (He _ _ Hl) as [f' [kws' [Hf' [Ho [Hnd' [Es Hb]]]]]].
      rewrite (same_outs_eq p f' f WF Hf' Hf Ho) in Hb. now rewrite <- (call_args_sorted f kws kws' Hnd Hnd' Es).
    Qed.

    Lemma gos_read_inv f kws c : cache_inv c -> cache_inv (snd (gos_read P f kws c)).
    Proof. apply cache_inv_get. Qed.

    (* ... and writing the user function's value keeps the invariant *)
    Lemma gos_write_inv f kws c v : In f p -> NoDup (akeys kws) -> cache_inv c ->
      body (fname f) (call_args f kws) = Ok v -> cache_inv (gos_write P f kws c v).
    Proof.
      intros Hf Hnd Hc Hb. apply cache_inv_put; [exact Hc|]. exists f, kws. repeat split; try assumption; reflexivity.
    Qed.

    (* _get_or_set_cache returns what the user function returns, whatever the policy evicted *)
    Lemma get_or_set_ok f kws c r c' ex : In f p -> NoDup (akeys kws) -> cache_inv c ->
      get_or_set body P f kws c = (r, c', ex) -> r = body (fname f) (call_args f kws) /\ cache_inv c'.
    Proof.
      intros Hf Hnd Hc H. unfold get_or_set in H. destruct (gos_read P f kws c) as [ov c1] eqn:Eg.
      pose proof (gos_read_inv f kws c Hc) as Hc1. rewrite Eg in Hc1. cbn in Hc1.
      destruct ov as [v|].
      - injection H as <- <- _. split; [|exact Hc1]. symmetry. exact (gos_read_ok f kws c v c1 Hf Hnd Hc Eg).
      - destruct (body (fname f) (call_args f kws)) as [v|e] eqn:Eb; injection H as <- <- _.
        + split; [reflexivity|]. now apply gos_write_inv.
        + split; [reflexivity | exact Hc1].
    Qed.

    Theorem map_calls_transparent : forall calls c,
      (forall f kws, In (f, kws) calls -> In f p /\ NoDup (akeys kws)) -> cache_inv c ->
      fst (map_calls body P calls c) = map (fun fk => body (fname (fst fk)) (call_args (fst fk) (snd fk))) calls
      /\ cache_inv (snd (map_calls body P calls c)).
    Proof.
      induction calls as [|[f kws] t IH]; intros c Hall Hc; [split; [reflexivity | exact Hc]|].
      cbn [map_calls]. destruct (get_or_set body P f kws c) as [[r c1] ex] eqn:Eg.
      destruct (Hall f kws (or_introl eq_refl)) as [Hf Hnd].
      destruct (get_or_set_ok f kws c r c1 ex Hf Hnd Hc Eg) as [-> Hc1].
      destruct (map_calls body P t c1) as [rs c2] eqn:Em.
      destruct (IH c1 (fun g k H => Hall g k (or_intror H)) Hc1) as [E1 E2]. rewrite Em in E1, E2. cbn in *.
      split; [now rewrite E1 | exact E2].
    Qed.

  End OnPipeline.

  (* ---------------------------------------------------------------- 7b. histories *)
  Notation cache_inv := (cache_inv body pick P good).
  Definition hist_good (p : pipeline) (h : list step) : Prop :=
    forall q, In q (hist_pipelines p h) -> wf_pipeline q /\ roots_okb q = true.

  Lemma cache_inv_clear p p' c : cache_inv p c -> cache_inv p' (cclear P c).
  Proof.
    intros [Hg _]. split; [now apply (L_good_clear P good LAW)|].
    intros k v H. rewrite (L_clear P good LAW c k Hg) in H. discriminate.
  Qed.

  Lemma mutate_err_same m p p' e : mutate m p = (p', Err e) ->
    match m with UpdBound _ _ | Replace _ => p' = p | _ => True end.
  Proof.
    destruct m as [o kw full|d|o b|new]; cbn; try (intros _; exact I).
    - unfold upd_bound. destruct (producer p o); [|now intros H; injection H as <- _].
      destruct (negb (subset_str (akeys b) (pnames p0))); [now intros H; injection H as <- _ | discriminate].
    - unfold replace_func. destruct (existsb _ p); [discriminate | now intros H; injection H as <- _].
  Qed.

  Lemma hist_good_head p h : hist_good p h -> wf_pipeline p /\ roots_okb p = true.
  Proof. intros H. apply H. destruct h; now left. Qed.

  Lemma hist_good_tail p m h : hist_good p (m :: h) -> hist_good (fst (mutate m p)) h.
  Proof. intros H q Hq. apply H. cbn. now right. Qed.

  Theorem cache_transparent_inv : forall h p cu cc, hist_good p h -> cache_inv p cu -> cache_inv p cc ->
    Forall2 step_transparent (exec_hist body pick P false false p cu h) (exec_hist body pick P false true p cc h).
  Proof.
    induction h as [|m h IH]; intros p cu cc Hg Hcu Hcc; [constructor|].
    destruct (hist_good_head _ _ Hg) as [WF ROOTS]. destruct (wf_topo p WF) as [ls LS].
    pose proof (hist_good_tail _ _ _ Hg) as Hg'.
    destruct m as [o kw full|d|o b|new].
    - cbn [exec_hist]. cbn [mutate fst] in Hg'.
      destruct (crun body pick P false false p cu o kw full) as [[ru lu] cu'] eqn:Eu.
      destruct (crun body pick P false true p cc o kw full) as [[rc lc] cc'] eqn:Ec.
      constructor.
      + cbn. intros out_u ->.
        destruct (call_transparent p WF ROOTS ls LS kw full cu cc o out_u lu cu' Hcu Hcc Eu) as [out_c [lgc [cc'' [Ec' Heq]]]].
        rewrite Ec in Ec'. injection Ec' as -> _ _. eauto.
      + apply IH; [exact Hg' | |].
        * exact (crun_cache_inv p WF ROOTS ls LS kw full false cu o ru lu cu' Hcu Eu).
        * exact (crun_cache_inv p WF ROOTS ls LS kw full true cc o rc lc cc' Hcc Ec).
    - cbn [exec_hist]. destruct (mutate (UpdDefaults d) p) as [p' r] eqn:Em. cbn [fst] in Hg'.
      constructor; [reflexivity|]. apply IH; [exact Hg' | |]; destruct r; now apply (cache_inv_clear p).
    - cbn [exec_hist]. destruct (mutate (UpdBound o b) p) as [p' r] eqn:Em. cbn [fst] in Hg'.
      constructor; [reflexivity|]. destruct r as [u|e].
      + apply IH; [exact Hg' | |]; now apply (cache_inv_clear p).
      + pose proof (mutate_err_same _ _ _ _ Em) as E. cbn in E. subst p'. now apply IH.
    - cbn [exec_hist]. destruct (mutate (Replace new) p) as [p' r] eqn:Em. cbn [fst] in Hg'.
      constructor; [reflexivity|]. destruct r as [u|e].
      + apply IH; [exact Hg' | |]; now apply (cache_inv_clear p).
      + pose proof (mutate_err_same _ _ _ _ Em) as E. cbn in E. subst p'. now apply IH.
  Qed.
End Facts.

(* ---------------------------------------------------------------- 10. the statements of Props/C09.v *)
Lemma hist_goodb_good p h : hist_goodb p h = true -> hist_good p h.
Proof.
  unfold hist_goodb, hist_good. rewrite forallb_forall. intros H q Hq. specialize (H q Hq).
  apply andb_true_iff in H as [H1 H2]. now split.
Qed.

Lemma empty_cache_inv body pick {C} (P : policy C) good p c : empty_cache P good c -> cache_inv body pick P good p c.
Proof. intros [Hg He]. split; [exact Hg|]. intros k v H. rewrite He in H. discriminate. Qed.

Theorem cache_transparent body pick {C} (P : policy C) good : lawful P good ->
  forall p h c0, hist_goodb p h = true -> empty_cache P good c0 ->
  Forall2 step_transparent (exec_hist body pick P false false p c0 h) (exec_hist body pick P false true p c0 h).
Proof.
  intros LAW p h c0 Hg He. apply (cache_transparent_inv body pick P good LAW); [now apply hist_goodb_good | |];
    now apply empty_cache_inv.
Qed.

Lemma simple_empty : empty_cache simple_policy (fun _ => True) [].
Proof. split; [exact I | reflexivity]. Qed.

Lemma lru_empty_ok n : empty_cache lru_policy (fun c => nodupk (ldict c)) (lru_empty n).
Proof. split; [constructor | reflexivity]. Qed.

Lemma simple_never_evicts : never_evicts simple_policy.
Proof.
  intros c k k' v H. cbn in *. split; [|exact H].
  destruct (ckey_eqb k k') eqn:E.
  - apply ckey_eqb_eq in E. subst. now rewrite sfind_sset_same.
  - apply ckey_eqb_neq in E. now rewrite (sfind_sset_other c k' v k E).
Qed.

(* the boolean used in the refutations is implied by transparency *)
Lemma step_transparentb_complete u c : step_transparent u c -> step_transparentb u c = true.
Proof.
  destruct u as [ru lu|a], c as [rc lc|b]; cbn; try contradiction; try reflexivity.
  destruct ru as [[v|d]|e]; [| |reflexivity]; intros H; destruct (H _ eq_refl) as [out_c [-> Ho]];
    destruct out_c as [w|d']; cbn in Ho; try contradiction; [subst; apply str_eqb_refl | reflexivity].
Qed.

Lemma all_transparentb_complete u c : Forall2 step_transparent u c -> all_transparentb u c = true.
Proof.
  induction 1 as [|a b u c Hab _ IH]; [reflexivity|]. cbn. now rewrite (step_transparentb_complete a b Hab), IH.
Qed.

(* root_args only depends on the producing function *)
Lemma root_args_same p o o' f : producer p o = Some f -> producer p o' = Some f -> root_args p o = root_args p o'.
Proof.
  intros H1 H2. unfold root_args, arg_combinations, is_node, is_output. now rewrite H1, H2.
Qed.

Theorem no_reexec_resident' body pick {C} (P : policy C) p : wf_pipeline p -> never_evicts P ->
  forall kw full c o f0 o0 ra k0 r lg c',
    In f0 p -> In o0 (outs f0) -> root_args p o0 = Ok ra -> the_key p kw true f0 ra = Some k0 ->
    cmem P c k0 = true ->
    crun body pick P false true p c o kw full = (r, lg, c') ->
    (forall call, In call lg -> fst call <> fname f0) /\ cmem P c' k0 = true.
Proof.
  intros WF NE kw full c o f0 o0 ra k0 r lg c' Hf Ho0 Hra Hk Hm H.
  apply (no_reexec_resident body pick P p WF kw full c o f0 k0 r lg c' Hf); try assumption.
  intros o' ra' Ho' Hra'. pose proof (proj1 (proj2 (wf_parts p WF))) as Hnd.
  rewrite (root_args_same p o' o0 f0 (producer_unique p o' f0 Hnd Hf Ho') (producer_unique p o0 f0 Hnd Hf Ho0)) in Hra'.
  rewrite Hra in Hra'. injection Hra' as <-. exact Hk.
Qed.

(* ---------------------------------------------------------------- 11. roots_okb is a consequence of well-formedness *)
Lemma hist_wfb_goodb p h : hist_wfb p h = true -> hist_goodb p h = true.
Proof.
  unfold hist_wfb, hist_goodb. rewrite !forallb_forall. intros H q Hq. specialize (H q Hq).
  rewrite H. cbn. now apply RootArgsFacts.roots_okb_of_wf.
Qed.

Theorem cache_transparent_wf body pick {C} (P : policy C) good : lawful P good ->
  forall p h c0, hist_wfb p h = true -> empty_cache P good c0 ->
  Forall2 step_transparent (exec_hist body pick P false false p c0 h) (exec_hist body pick P false true p c0 h).
Proof. intros LAW p h c0 Hw He. apply (cache_transparent body pick P good LAW); [now apply hist_wfb_goodb | exact He]. Qed.

Lemma hist_wf_good p h : (forall q, In q (hist_pipelines p h) -> wf_pipeline q) -> hist_good p h.
Proof. intros H q Hq. split; [now apply H | apply RootArgsFacts.roots_okb_of_wf; now apply H]. Qed.

(* Pipeline.run validates its keywords before anything else (Pipe.run_precheck); when it passes, the call is `crun` *)
Lemma crun_checked_pass body pick {C} (P : policy C) legacy use p c o kw full :
  run_precheck p o kw = Ok tt ->
  crun_checked body pick P legacy use p c o kw full = crun body pick P legacy use p c o kw full.
Proof. unfold crun_checked. now intros ->. Qed.
Lemma crun_checked_reject body pick {C} (P : policy C) legacy use p c o kw full e :
  run_precheck p o kw = Err e -> crun_checked body pick P legacy use p c o kw full = (Err e, [], c).
Proof. unfold crun_checked. now intros ->. Qed.
