(* C14 - proofs about the cache models (Model/Caches.v) and their abstract specifications
   (Model/CachesSpec.v). *)
From Verif Require Import Base.Prelude Model.Caches Model.CachesSpec.

(* ================================================================== association lists *)
Section AListFacts.
  Context {V : Type}.
  Implicit Types (d : list (nat * V)) (k : nat) (v : V).

  Lemma amem_In : forall k d, amem k d = true <-> In k (map fst d).
  Proof.
    intros k d. unfold amem. induction d as [|[k' v'] t IH]; cbn.
    - split; [discriminate | tauto].
    - destruct (Nat.eqb k k') eqn:E.
      + apply Nat.eqb_eq in E. subst. split; auto.
      + apply Nat.eqb_neq in E. rewrite IH. split; [auto | intros [H|H]; [congruence | auto]].
  Qed.

  Lemma amem_false_In : forall k d, amem k d = false <-> ~ In k (map fst d).
  Proof.
    intros k d. rewrite <- amem_In. destruct (amem k d).
    - split; [discriminate | intros H; exfalso; apply H; reflexivity].
    - split; [intros _ H; discriminate | auto].
  Qed.

  Lemma amem_aget : forall k d, amem k d = true -> exists v, aget k d = Some v.
  Proof. intros k d. unfold amem. destruct (aget k d); [eauto | discriminate]. Qed.

  Lemma aget_amem : forall k d v, aget k d = Some v -> amem k d = true.
  Proof. intros k d v H. unfold amem. now rewrite H. Qed.

  Lemma amem_none : forall k d, amem k d = false -> aget k d = None.
  Proof. intros k d. unfold amem. destruct (aget k d); [discriminate | auto]. Qed.

  Lemma aget_aset_same : forall k v d, aget k (aset k v d) = Some v.
  Proof.
    intros k v d. induction d as [|[k' v'] t IH]; cbn.
    - now rewrite Nat.eqb_refl.
    - destruct (Nat.eqb k k') eqn:E; cbn; rewrite ?Nat.eqb_refl, ?E; auto.
  Qed.

  Lemma aget_aset_other : forall k k' v d, k <> k' -> aget k' (aset k v d) = aget k' d.
  Proof.
    intros k k' v d N. induction d as [|[k2 v2] t IH]; cbn.
    - destruct (Nat.eqb k' k) eqn:E; auto. apply Nat.eqb_eq in E. congruence.
    - destruct (Nat.eqb k k2) eqn:E; cbn.
      + apply Nat.eqb_eq in E. subst k2.
        destruct (Nat.eqb k' k) eqn:E2; auto. apply Nat.eqb_eq in E2. congruence.
      + destruct (Nat.eqb k' k2); auto.
  Qed.

  Lemma aget_adel_other : forall k k' d, k <> k' -> aget k' (adel k d) = aget k' d.
  Proof.
    intros k k' d N. induction d as [|[k2 v2] t IH]; cbn; auto.
    destruct (Nat.eqb k k2) eqn:E; cbn.
    - apply Nat.eqb_eq in E. subst k2.
      destruct (Nat.eqb k' k) eqn:E2; auto. apply Nat.eqb_eq in E2. congruence.
    - destruct (Nat.eqb k' k2); auto.
  Qed.

  Lemma keys_aset : forall k v d,
    map fst (aset k v d) = if amem k d then map fst d else map fst d ++ [k].
  Proof.
    intros k v d. unfold amem. induction d as [|[k' v'] t IH]; cbn; auto.
    destruct (Nat.eqb k k') eqn:E; cbn.
    - apply Nat.eqb_eq in E. now subst.
    - rewrite IH. destruct (aget k t); auto.
  Qed.

  Lemma keys_adel : forall k d, map fst (adel k d) = qremove k (map fst d).
  Proof.
    intros k d. induction d as [|[k' v'] t IH]; cbn; auto.
    destruct (Nat.eqb k k'); cbn; congruence.
  Qed.

  Lemma length_keys : forall d, length (map fst d) = length d.
  Proof. intros. apply map_length. Qed.
End AListFacts.

(* ================================================================== queues (lists of keys) *)
Lemma qmem_In : forall k q, qmem k q = true <-> In k q.
Proof.
  intros k q. induction q as [|x t IH]; cbn.
  - split; [discriminate | tauto].
  - rewrite orb_true_iff, IH, Nat.eqb_eq. split; intros [H|H]; auto.
Qed.

Lemma qremove_notin : forall k q, ~ In k q -> qremove k q = q.
Proof.
  intros k q. induction q as [|x t IH]; cbn; auto. intros N.
  destruct (Nat.eqb k x) eqn:E.
  - apply Nat.eqb_eq in E. subst. exfalso. auto.
  - f_equal. auto.
Qed.

Lemma In_qremove : forall k x q, In x (qremove k q) -> In x q.
Proof.
  intros k x q. induction q as [|y t IH]; cbn; auto.
  destruct (Nat.eqb k y); cbn; intuition.
Qed.

Lemma In_qremove_iff : forall k x q, NoDup q -> (In x (qremove k q) <-> In x q /\ x <> k).
Proof.
  intros k x q ND. induction ND as [|y t NI ND IH]; cbn.
  - tauto.
  - destruct (Nat.eqb k y) eqn:E.
    + apply Nat.eqb_eq in E. subst y. split.
      * intros H. split; auto. intros ->. auto.
      * intros [[H|H] N]; [congruence | auto].
    + apply Nat.eqb_neq in E. cbn. rewrite IH. split.
      * intros [H|[H N]]; [subst; split; auto | split; auto].
      * intros [[H|H] N]; auto.
  Qed.

Lemma NoDup_qremove : forall k q, NoDup q -> NoDup (qremove k q).
Proof.
  intros k q ND. induction ND as [|y t NI ND IH]; cbn; [constructor|].
  destruct (Nat.eqb k y); auto. constructor; auto. intros H. apply NI. eapply In_qremove; eauto.
Qed.

Lemma length_qremove : forall k q, In k q -> S (length (qremove k q)) = length q.
Proof.
  intros k q. induction q as [|y t IH]; cbn; [tauto|]. intros H.
  destruct (Nat.eqb k y) eqn:E; auto. apply Nat.eqb_neq in E. cbn. f_equal. apply IH.
  destruct H; [congruence | auto].
Qed.

Lemma NoDup_snoc : forall (k : nat) q, NoDup q -> ~ In k q -> NoDup (q ++ [k]).
Proof.
  intros k q ND NI. induction ND as [|y t N1 ND IH]; cbn.
  - constructor; [tauto | constructor].
  - constructor.
    + rewrite in_app_iff. cbn. intros [H|[H|[]]]; [auto | subst; apply NI; now left].
    + apply IH. intros H. apply NI. now right.
Qed.

Lemma same_set_length : forall (a b : list nat),
  NoDup a -> NoDup b -> (forall x, In x a <-> In x b) -> length a = length b.
Proof.
  intros a b Na Nb H. apply Nat.le_antisymm; apply NoDup_incl_length; auto; intros x Hx; apply H; auto.
Qed.

(* ================================================================== LRUCache: invariant, no raise *)
Definition lru_inv (mx : nat) (st : lru) : Prop :=
  NoDup (l_queue st)
  /\ NoDup (map fst (l_dict st))
  /\ (forall k, In k (l_queue st) <-> In k (map fst (l_dict st)))
  /\ length (l_dict st) <= mx.

Lemma lru_inv_len : forall mx st, lru_inv mx st -> length (l_queue st) = length (l_dict st).
Proof.
  intros mx st (Nq & Nk & EQ & _). rewrite <- (length_keys (l_dict st)). now apply same_set_length.
Qed.

Lemma lru_inv_empty : forall mx, lru_inv mx lru_empty.
Proof. intros. unfold lru_inv; cbn. repeat split; try constructor; auto; tauto || lia. Qed.

(* moving a resident key to the back of the queue *)
Lemma touch_inv : forall mx d q k,
  lru_inv mx (mkLru d q) -> In k q -> forall d', map fst d' = map fst d ->
  lru_inv mx (mkLru d' (qremove k q ++ [k])).
Proof.
  intros mx d q k (Nq & Nk & EQ & LE) Hk d' Hd'. cbn in *. unfold lru_inv; cbn. rewrite Hd'.
  repeat split; auto.
  - apply NoDup_snoc; [now apply NoDup_qremove|]. rewrite In_qremove_iff by auto. tauto.
  - rewrite in_app_iff, In_qremove_iff by auto. cbn. intros [[H _]|[H|[]]]; [now apply EQ | subst; now apply EQ].
  - intros H. rewrite in_app_iff, In_qremove_iff by auto. cbn. apply EQ in H.
    destruct (Nat.eq_dec k0 k); [subst; auto | auto].
  - rewrite <- (length_keys d'), Hd', length_keys. auto.
Qed.

Lemma lru_put_ok : forall mx st k v, 1 <= mx -> lru_inv mx st ->
  lru_inv mx (fst (lru_put mx st k v)) /\ snd (lru_put mx st k v) = ONone.
Proof.
  intros mx [d q] k v Hmx Hinv. pose proof (lru_inv_len _ _ Hinv) as HL.
  pose proof Hinv as (Nq & Nk & EQ & LE). cbn in *. unfold lru_put; cbn.
  destruct (amem k d) eqn:Ek.
  - (* resident *)
    assert (Hq : In k q) by (apply EQ, amem_In; auto).
    destruct (qmem k q) eqn:Eq; [|apply qmem_In in Hq; congruence]. cbn. split; auto.
    apply touch_inv with (d := d); auto. rewrite keys_aset, Ek. auto.
  - assert (NK : ~ In k (map fst d)) by (apply amem_false_In; auto).
    assert (NQ : ~ In k q) by (rewrite EQ; auto).
    destruct (mx <=? length q) eqn:Efull.
    + (* full: evict the head *)
      apply Nat.leb_le in Efull. destruct q as [|h q']; [cbn in Efull; lia|].
      assert (Hh : amem h d = true) by (apply amem_In, EQ; now left).
      rewrite Hh. cbn. split; auto. inversion Nq as [|? ? Nh Nq']; subst.
      assert (Ekd : amem k (adel h d) = false).
      { apply amem_false_In. rewrite keys_adel. intros H. apply In_qremove in H. auto. }
      unfold lru_inv; cbn. rewrite keys_aset, Ekd, keys_adel.
      repeat split.
      * apply NoDup_snoc; auto. intros H. apply NQ. now right.
      * apply NoDup_snoc; [now apply NoDup_qremove|]. intros H. apply In_qremove in H. auto.
      * rewrite !in_app_iff, In_qremove_iff by auto. cbn. intros [H|[H|[]]]; auto.
        left. split; [apply EQ; now right | intros ->; auto].
      * rewrite !in_app_iff, In_qremove_iff by auto. cbn. intros [[H N]|[H|[]]]; auto.
        apply EQ in H. destruct H; [congruence | auto].
      * rewrite <- (length_keys (aset k v (adel h d))), keys_aset, Ekd, keys_adel, app_length. cbn.
        assert (In h (map fst d)) by (apply amem_In; auto).
        pose proof (length_qremove h (map fst d) H). rewrite length_keys in *. lia.
    + apply Nat.leb_gt in Efull. cbn. split; auto.
      unfold lru_inv; cbn. rewrite keys_aset, Ek.
      repeat split.
      * apply NoDup_snoc; auto.
      * apply NoDup_snoc; auto.
      * rewrite !in_app_iff. intros [H|H]; auto. left. now apply EQ.
      * rewrite !in_app_iff. intros [H|H]; auto. left. now apply EQ.
      * rewrite <- (length_keys (aset k v d)), keys_aset, Ek, app_length, length_keys. cbn. lia.
Qed.

Lemma lru_get_ok : forall mx st k, lru_inv mx st ->
  lru_inv mx (fst (lru_get st k)) /\ is_raised (snd (lru_get st k)) = false.
Proof.
  intros mx [d q] k Hinv. pose proof Hinv as (Nq & Nk & EQ & LE). cbn in *. unfold lru_get; cbn.
  destruct (amem k d) eqn:Ek; cbn; auto.
  destruct (amem_aget _ _ Ek) as [v Hv]. rewrite Hv.
  assert (Hq : In k q) by (apply EQ, amem_In; auto).
  destruct (qmem k q) eqn:Eq; [|apply qmem_In in Hq; congruence]. cbn. split; auto.
  apply touch_inv with (d := d); auto.
Qed.

Lemma lru_step_ok : forall D mx st (o : op D), 1 <= mx -> lru_inv mx st ->
  lru_inv mx (fst (lru_step mx st o)) /\ is_raised (snd (lru_step mx st o)) = false.
Proof.
  intros D mx st o Hmx Hinv. destruct o as [k v d|k|k| |]; cbn.
  - destruct (lru_put_ok mx st k v Hmx Hinv) as [H1 H2]. split; auto. now rewrite H2.
  - now apply lru_get_ok.
  - auto.
  - auto.
  - split; auto. apply lru_inv_empty.
Qed.

Lemma final_snoc : forall S O (step : S -> O -> S * out) st ops o,
  final step st (ops ++ [o]) = fst (step (final step st ops) o).
Proof. intros. unfold final. now rewrite fold_left_app. Qed.

(* lru_inv: the invariant holds in every reachable state *)
Theorem lru_inv_reachable : forall D mx (ops : list (op D)), 1 <= mx ->
  lru_inv mx (final (lru_step mx) lru_empty ops).
Proof.
  intros D mx ops Hmx. induction ops as [|o ops IH] using rev_ind.
  - apply lru_inv_empty.
  - rewrite final_snoc. now apply lru_step_ok.
Qed.

Lemma run_ops_no_raise_gen : forall S O (step : S -> O -> S * out) (I : S -> Prop),
  (forall st o, I st -> I (fst (step st o)) /\ is_raised (snd (step st o)) = false) ->
  forall ops st, I st -> forallb (fun r => negb (is_raised r)) (run_ops step st ops) = true.
Proof.
  intros S O step I Hstep ops. induction ops as [|o t IH]; intros st Hst; cbn; auto.
  destruct (Hstep st o Hst) as [H1 H2]. destruct (step st o) as [st' r]. cbn in *.
  rewrite H2. cbn. auto.
Qed.

(* lru_no_raise: no operation of any sequence raises *)
Theorem lru_no_raise : forall D mx (ops : list (op D)), 1 <= mx ->
  forallb (fun r => negb (is_raised r)) (run_ops (lru_step mx) lru_empty ops) = true.
Proof.
  intros D mx ops Hmx. apply run_ops_no_raise_gen with (I := lru_inv mx).
  - intros. now apply lru_step_ok.
  - apply lru_inv_empty.
Qed.

(* ================================================================== LRUCache refines the recency list *)
Definition getd (k : nat) (d : list (nat * nat)) : nat :=
  match aget k d with Some v => v | None => 0 end.
(* abstraction: the queue decorated with the values of the dict *)
Definition lru_abs (st : lru) : list kv := map (fun k => (k, getd k (l_dict st))) (l_queue st).

Lemma getd_aset_same : forall k v d, getd k (aset k v d) = v.
Proof. intros. unfold getd. now rewrite aget_aset_same. Qed.
Lemma getd_aset_other : forall k x v d, k <> x -> getd x (aset k v d) = getd x d.
Proof. intros. unfold getd. now rewrite aget_aset_other. Qed.
Lemma getd_adel_other : forall k x d, k <> x -> getd x (adel k d) = getd x d.
Proof. intros. unfold getd. now rewrite aget_adel_other. Qed.

Lemma lookup_map : forall (f : nat -> nat) k q,
  lookup k (map (fun x => (x, f x)) q) = if qmem k q then Some (f k) else None.
Proof.
  intros f k q. unfold lookup. induction q as [|x t IH]; cbn; auto.
  rewrite (Nat.eqb_sym k x). destruct (Nat.eqb x k) eqn:E; cbn.
  - apply Nat.eqb_eq in E. now subst.
  - apply IH.
Qed.

Lemma without_map_notin : forall (f : nat -> nat) k q, ~ In k q ->
  without k (map (fun x => (x, f x)) q) = map (fun x => (x, f x)) q.
Proof.
  intros f k q. unfold without. induction q as [|x t IH]; cbn; auto. intros N.
  destruct (Nat.eqb x k) eqn:E; cbn.
  - apply Nat.eqb_eq in E. subst. exfalso. auto.
  - f_equal. auto.
Qed.

Lemma without_map : forall (f : nat -> nat) k q, NoDup q ->
  without k (map (fun x => (x, f x)) q) = map (fun x => (x, f x)) (qremove k q).
Proof.
  intros f k q ND. induction ND as [|x t NI ND IH]; cbn; auto.
  rewrite (Nat.eqb_sym k x). destruct (Nat.eqb x k) eqn:E; cbn.
  - apply Nat.eqb_eq in E. subst. now apply without_map_notin.
  - f_equal. apply IH.
Qed.

Lemma lru_abs_length : forall st, length (lru_abs st) = length (l_queue st).
Proof. intros. unfold lru_abs. apply map_length. Qed.

Lemma lru_abs_lookup : forall mx st k, lru_inv mx st -> lookup k (lru_abs st) = aget k (l_dict st).
Proof.
  intros mx [d q] k (Nq & Nk & EQ & LE). cbn in *. unfold lru_abs; cbn. rewrite lookup_map.
  destruct (qmem k q) eqn:E.
  - apply qmem_In, EQ, amem_In in E. destruct (amem_aget _ _ E) as [v Hv]. unfold getd. now rewrite Hv.
  - symmetry. apply amem_none. apply amem_false_In. rewrite <- EQ. intros H. apply qmem_In in H. congruence.
Qed.

Arguments lru_abs : simpl never.

(* one step of the code = one step of the recency-list specification *)
Lemma lru_step_refines : forall D mx st (o : op D), 1 <= mx -> lru_inv mx st ->
  lru_spec_step mx (lru_abs st) o = (lru_abs (fst (lru_step mx st o)), snd (lru_step mx st o)).
Proof.
  intros D mx [d q] o Hmx Hinv. pose proof (lru_inv_len _ _ Hinv) as HL.
  pose proof (fun k => lru_abs_lookup mx (mkLru d q) k Hinv) as HLK.
  pose proof Hinv as (Nq & Nk & EQ & LE). cbn in *.
  destruct o as [k v dd|k|k| |]; cbn.
  - (* put *)
    rewrite HLK. unfold lru_put; cbn. destruct (amem k d) eqn:Ek.
    + destruct (amem_aget _ _ Ek) as [v0 Hv0]. rewrite Hv0.
      assert (Hq : In k q) by (apply EQ, amem_In; auto).
      destruct (qmem k q) eqn:Eq; [|apply qmem_In in Hq; congruence]. cbn. f_equal.
      unfold lru_abs; cbn [l_dict l_queue fst snd]. rewrite without_map by auto. rewrite map_app. cbn [map]. rewrite getd_aset_same.
      f_equal. apply map_ext_in. intros x Hx. rewrite getd_aset_other; auto.
      apply In_qremove_iff in Hx; auto. intros ->. tauto.
    + rewrite (amem_none _ _ Ek).
      assert (NK : ~ In k (map fst d)) by (apply amem_false_In; auto).
      assert (NQ : ~ In k q) by (rewrite EQ; auto).
      rewrite lru_abs_length. cbn.
      destruct (mx <=? length q) eqn:Efull.
      * apply Nat.leb_le in Efull. destruct q as [|h q']; [cbn in Efull; lia|].
        assert (Hh : amem h d = true) by (apply amem_In, EQ; now left).
        rewrite Hh. cbn. f_equal. unfold lru_abs; cbn [l_dict l_queue fst snd]. rewrite map_app. cbn [map]. rewrite getd_aset_same.
        f_equal. apply map_ext_in. intros x Hx. inversion Nq as [|? ? Nh Nq']; subst.
        rewrite getd_aset_other, getd_adel_other; auto.
        -- intros ->. auto.
        -- intros ->. apply NQ. now right.
      * cbn. f_equal. unfold lru_abs; cbn [l_dict l_queue fst snd]. rewrite map_app. cbn [map]. rewrite getd_aset_same.
        f_equal. apply map_ext_in. intros x Hx. rewrite getd_aset_other; auto. intros ->. auto.
  - (* get *)
    rewrite HLK. unfold lru_get; cbn. destruct (amem k d) eqn:Ek; cbn.
    + destruct (amem_aget _ _ Ek) as [v0 Hv0]. rewrite Hv0.
      assert (Hq : In k q) by (apply EQ, amem_In; auto).
      destruct (qmem k q) eqn:Eq; [|apply qmem_In in Hq; congruence]. cbn. f_equal.
      unfold lru_abs; cbn [l_dict l_queue fst snd]. rewrite without_map by auto. rewrite map_app. cbn [map]. f_equal.
      unfold getd. now rewrite Hv0.
    + now rewrite (amem_none _ _ Ek).
  - (* in *)
    rewrite HLK. unfold amem. destruct (aget k d); auto.
  - (* len *)
    rewrite lru_abs_length. cbn. now rewrite HL.
  - reflexivity.
Qed.

Lemma refines_gen : forall S T O (step : S -> O -> S * out) (spec : T -> O -> T * out)
                           (I : S -> Prop) (abs : S -> T),
  (forall st o, I st -> I (fst (step st o))) ->
  (forall st o, I st -> spec (abs st) o = (abs (fst (step st o)), snd (step st o))) ->
  forall ops st, I st -> run_ops step st ops = run_ops spec (abs st) ops.
Proof.
  intros S T O step spec I abs HI HS ops. induction ops as [|o t IH]; intros st Hst; cbn; auto.
  rewrite (HS st o Hst). pose proof (HI st o Hst) as H'. destruct (step st o) as [st' r]. cbn in *.
  f_equal. auto.
Qed.

(* lru_refines: on every operation sequence the code produces exactly the outputs of the recency list *)
Theorem lru_refines : forall D mx (ops : list (op D)), 1 <= mx ->
  run_ops (lru_step mx) lru_empty ops = run_ops (lru_spec_step mx) [] ops.
Proof.
  intros D mx ops Hmx.
  apply (refines_gen _ _ _ (lru_step mx) (lru_spec_step mx) (lru_inv mx) lru_abs).
  - intros st o H. now apply lru_step_ok.
  - intros st o H. now apply lru_step_refines.
  - apply lru_inv_empty.
Qed.

(* ================================================================== the recency list satisfies the property text *)
Lemma lookup_app : forall k (a b : list kv),
  lookup k (a ++ b) = match lookup k a with Some x => Some x | None => lookup k b end.
Proof.
  intros k a b. unfold lookup. induction a as [|[x vx] t IH]; cbn; auto.
  destruct (Nat.eqb x k); cbn; auto.
Qed.

Lemma lookup_without_same : forall k (l : list kv), lookup k (without k l) = None.
Proof.
  intros k l. unfold lookup, without. induction l as [|[x vx] t IH]; cbn; auto.
  destruct (Nat.eqb x k) eqn:E; cbn; auto. now rewrite E.
Qed.

Lemma lookup_without_other : forall k k' (l : list kv), k <> k' -> lookup k' (without k l) = lookup k' l.
Proof.
  intros k k' l N. unfold lookup, without. induction l as [|[x vx] t IH]; cbn; auto.
  destruct (Nat.eqb x k) eqn:E; cbn.
  - apply Nat.eqb_eq in E. subst x. destruct (Nat.eqb k k') eqn:E2; auto.
    apply Nat.eqb_eq in E2. congruence.
  - destruct (Nat.eqb x k'); auto.
Qed.

Lemma lookup_In : forall k (l : list kv) v, lookup k l = Some v -> In k (map fst l).
Proof.
  intros k l v. unfold lookup. induction l as [|[x vx] t IH]; cbn; [discriminate|].
  destruct (Nat.eqb x k) eqn:E; cbn.
  - apply Nat.eqb_eq in E. auto.
  - auto.
Qed.

Lemma lookup_notin : forall k (l : list kv), ~ In k (map fst l) -> lookup k l = None.
Proof.
  intros k l N. destruct (lookup k l) eqn:E; auto. apply lookup_In in E. tauto.
Qed.

Lemma keys_without : forall k (l : list kv),
  map fst (without k l) = filter (fun x => negb (x =? k)) (map fst l).
Proof.
  intros k l. unfold without. induction l as [|[x vx] t IH]; cbn; auto.
  destruct (Nat.eqb x k); cbn; congruence.
Qed.

Lemma filter_len_le : forall A (f : A -> bool) (l : list A), length (filter f l) <= length l.
Proof. intros A f l. induction l as [|x t IH]; cbn; auto. destruct (f x); cbn; lia. Qed.

Lemma without_shorter : forall k (l : list kv) v, lookup k l = Some v -> S (length (without k l)) <= length l.
Proof.
  intros k l v. unfold lookup, without. induction l as [|[x vx] t IH]; cbn; [discriminate|].
  destruct (Nat.eqb x k) eqn:E; cbn.
  - intros _. apply le_n_S. apply filter_len_le.
  - intros H. apply IH in H. apply le_n_S. exact H.
Qed.

Lemma NoDup_keys_touch : forall k v (l : list kv), NoDup (map fst l) -> NoDup (map fst (without k l ++ [(k, v)])).
Proof.
  intros k v l ND. rewrite map_app, keys_without. cbn. apply NoDup_snoc.
  - now apply NoDup_filter.
  - rewrite filter_In, Nat.eqb_refl. cbn. intros [_ H]. discriminate.
Qed.

Lemma lookup_tl : forall k (l : list kv) v, NoDup (map fst l) -> lookup k (tl l) = Some v -> lookup k l = Some v.
Proof.
  intros k [|[x vx] t] v ND H; cbn in *; auto. unfold lookup in *. cbn.
  destruct (Nat.eqb x k) eqn:E; auto. apply Nat.eqb_eq in E. subst x.
  inversion ND as [|? ? NI _]; subst. exfalso. apply NI. eapply lookup_In. exact H.
Qed.

Definition spec_good {D} (mx : nat) (l : list kv) (hist : list (op D)) : Prop :=
  length l <= mx /\ NoDup (map fst l) /\ forall k v, lookup k l = Some v -> latest k hist = Some v.

Lemma lru_spec_step_good : forall D mx l hist (o : op D), 1 <= mx -> spec_good mx l hist ->
  spec_good mx (fst (lru_spec_step mx l o)) (o :: hist).
Proof.
  intros D mx l hist o Hmx (LE & ND & LAT). destruct o as [k v dd|k|k| |]; cbn.
  - (* put *)
    destruct (lookup k l) as [v0|] eqn:Ek.
    + repeat split.
      * rewrite app_length. cbn. pose proof (without_shorter _ _ _ Ek). lia.
      * now apply NoDup_keys_touch.
      * intros k' v'. cbn [latest]. rewrite lookup_app. destruct (Nat.eq_dec k k') as [<-|N].
        -- rewrite lookup_without_same. unfold lookup; cbn. rewrite Nat.eqb_refl. cbn. auto.
        -- rewrite lookup_without_other by auto. apply Nat.eqb_neq in N. rewrite N.
           destruct (lookup k' l) eqn:E'.
           ++ intros H. inversion H; subst. auto.
           ++ unfold lookup; cbn. rewrite N. cbn. discriminate.
    + assert (NK : ~ In k (map fst l)).
      { intros H. apply in_map_iff in H. destruct H as [[x vx] [Hx Hin]]. cbn in Hx. subst x.
        clear - Ek Hin. unfold lookup in Ek. induction l as [|[y vy] t IH]; cbn in *; auto.
        destruct (Nat.eqb y k) eqn:E; cbn in *; [discriminate|].
        destruct Hin as [H|H]; [inversion H; subst; rewrite Nat.eqb_refl in E; discriminate | auto]. }
      set (l1 := if mx <=? length l then tl l else l).
      assert (L1 : length l1 + 1 <= mx).
      { unfold l1. destruct (mx <=? length l) eqn:E.
        - apply Nat.leb_le in E. destruct l; cbn in *; lia.
        - apply Nat.leb_gt in E. lia. }
      assert (SUB : forall x, In x (map fst l1) -> In x (map fst l)).
      { unfold l1. destruct (mx <=? length l); auto. destruct l; cbn; auto. }
      assert (ND1 : NoDup (map fst l1)).
      { unfold l1. destruct (mx <=? length l); auto. destruct l; cbn in *; auto. now inversion ND. }
      assert (LK1 : forall k' v', lookup k' l1 = Some v' -> lookup k' l = Some v').
      { unfold l1. destruct (mx <=? length l); auto. intros. now apply lookup_tl. }
      repeat split.
      * rewrite app_length. cbn. lia.
      * rewrite map_app. cbn. apply NoDup_snoc; auto.
      * intros k' v'. cbn [latest]. rewrite lookup_app. destruct (Nat.eq_dec k k') as [<-|N].
        -- rewrite (lookup_notin k l1) by auto. unfold lookup; cbn. rewrite Nat.eqb_refl. cbn. auto.
        -- apply Nat.eqb_neq in N. rewrite N. destruct (lookup k' l1) eqn:E'.
           ++ intros H. inversion H; subst. auto.
           ++ unfold lookup; cbn. rewrite N. cbn. discriminate.
  - (* get *)
    destruct (lookup k l) as [v0|] eqn:Ek; cbn.
    + repeat split.
      * rewrite app_length. cbn. pose proof (without_shorter _ _ _ Ek). lia.
      * now apply NoDup_keys_touch.
      * intros k' v'. cbn [latest]. rewrite lookup_app. destruct (Nat.eq_dec k k') as [<-|N].
        -- rewrite lookup_without_same. unfold lookup; cbn. rewrite Nat.eqb_refl. cbn.
           intros H. inversion H; subst. auto.
        -- rewrite lookup_without_other by auto. destruct (lookup k' l) eqn:E'.
           ++ intros H. inversion H; subst. auto.
           ++ unfold lookup; cbn. apply Nat.eqb_neq in N. rewrite N. cbn. discriminate.
    + repeat split; auto.
  - repeat split; auto.
  - repeat split; auto.
  - repeat split; cbn; try lia; try constructor. intros k v. unfold lookup; cbn. discriminate.
Qed.

(* In every reachable state of the recency list: at most max_size entries, and a resident key carries
   the value most recently put for it (so `in` is true exactly when `get` returns that value: both read
   the same lookup). *)
Theorem lru_spec_sound : forall D mx (ops : list (op D)), 1 <= mx ->
  spec_good mx (final (lru_spec_step mx) [] ops) (rev ops).
Proof.
  intros D mx ops Hmx. induction ops as [|o ops IH] using rev_ind.
  - cbn. repeat split; cbn; try lia; try constructor. intros k v. unfold lookup; cbn. discriminate.
  - rewrite final_snoc, rev_app_distr. cbn. now apply lru_spec_step_good.
Qed.

Lemma final_abs_gen : forall S T O (step : S -> O -> S * out) (spec : T -> O -> T * out)
                             (I : S -> Prop) (abs : S -> T),
  (forall st o, I st -> I (fst (step st o))) ->
  (forall st o, I st -> spec (abs st) o = (abs (fst (step st o)), snd (step st o))) ->
  forall ops st, I st -> I (final step st ops) /\ abs (final step st ops) = final spec (abs st) ops.
Proof.
  intros S T O step spec I abs HI HS ops. induction ops as [|o t IH]; intros st Hst; cbn; auto.
  specialize (IH (fst (step st o)) (HI st o Hst)). destruct IH as [I1 E1]. split; auto.
  unfold final in *. cbn. rewrite E1. now rewrite (HS st o Hst).
Qed.

(* the same, stated on the code model: presence <-> latest value, size bound *)
Theorem lru_presence_latest : forall D mx (ops : list (op D)) k, 1 <= mx ->
  let st := final (lru_step mx) lru_empty ops in
  length (l_dict st) <= mx
  /\ (amem k (l_dict st) = true <-> exists v, aget k (l_dict st) = Some v)
  /\ (forall v, aget k (l_dict st) = Some v -> latest k (rev ops) = Some v).
Proof.
  intros D mx ops k Hmx st.
  destruct (final_abs_gen _ _ _ (lru_step mx) (lru_spec_step mx) (lru_inv mx) lru_abs
              (fun st o H => proj1 (lru_step_ok D mx st o Hmx H))
              (fun st o H => lru_step_refines D mx st o Hmx H) ops lru_empty (lru_inv_empty mx)) as [Hinv Habs].
  fold st in Hinv, Habs. destruct (lru_spec_sound D mx ops Hmx) as (_ & _ & LAT).
  repeat split.
  - apply Hinv.
  - apply amem_aget.
  - intros [v Hv]. eapply aget_amem; eauto.
  - intros v Hv. apply LAT. change (@nil kv) with (lru_abs lru_empty). rewrite <- Habs.
    now rewrite (lru_abs_lookup mx st k Hinv).
Qed.

(* ================================================================== SimpleCache is the history map *)
Lemma refines_rel : forall S T O (step : S -> O -> S * out) (spec : T -> O -> T * out) (R : S -> T -> Prop),
  (forall st t o, R st t -> snd (step st o) = snd (spec t o) /\ R (fst (step st o)) (fst (spec t o))) ->
  forall ops st t, R st t -> run_ops step st ops = run_ops spec t ops.
Proof.
  intros S T O step spec R H ops. induction ops as [|o r IH]; intros st t HR; cbn; auto.
  destruct (H st t o HR) as [H1 H2]. destruct (step st o) as [st' x]. destruct (spec t o) as [t' y].
  cbn in *. subst. f_equal. auto.
Qed.

Lemma live_keys_latest : forall D (hist : list (op D)) k,
  In k (live_keys hist) <-> exists v, latest k hist = Some v.
Proof.
  intros D hist k. induction hist as [|o t IH]; cbn.
  - split; [tauto | intros [v H]; discriminate].
  - destruct o as [k' v' d'|k'|k'| |]; cbn; auto.
    + destruct (existsb (Nat.eqb k') (live_keys t)) eqn:E.
      * destruct (Nat.eqb k' k) eqn:E2.
        -- apply Nat.eqb_eq in E2. subst k'. split; [eauto|]. intros _.
           apply existsb_exists in E. destruct E as [x [Hx Hx2]]. apply Nat.eqb_eq in Hx2. now subst.
        -- auto.
      * cbn. destruct (Nat.eqb k' k) eqn:E2.
        -- apply Nat.eqb_eq in E2. subst. split; eauto.
        -- apply Nat.eqb_neq in E2. rewrite <- IH. split; [intros [H|H]; [congruence|auto] | auto].
    + split; [tauto | intros [v H]; discriminate].
Qed.

Definition simple_rel {D} (st : simple) (hist : list (op D)) : Prop :=
  (forall k, aget k st = latest k hist) /\ length st = length (live_keys hist).

Lemma simple_step_rel : forall D (st : simple) (hist : list (op D)) o, simple_rel st hist ->
  snd (simple_step st o) = snd (simple_spec_step hist o)
  /\ simple_rel (fst (simple_step st o)) (fst (simple_spec_step hist o)).
Proof.
  intros D st hist o [HG HL]. destruct o as [k v d|k|k| |]; cbn.
  - split; auto. split.
    + intros k'. cbn [latest]. destruct (Nat.eqb k k') eqn:E.
      * apply Nat.eqb_eq in E. subst. apply aget_aset_same.
      * apply Nat.eqb_neq in E. rewrite aget_aset_other; auto.
    + cbn [live_keys]. rewrite <- (length_keys (aset k v st)), keys_aset.
      assert (EQ : existsb (Nat.eqb k) (live_keys hist) = amem k st).
      { unfold amem. rewrite HG. destruct (latest k hist) eqn:E.
        - apply existsb_exists. exists k. rewrite Nat.eqb_refl. split; auto. apply live_keys_latest. eauto.
        - destruct (existsb (Nat.eqb k) (live_keys hist)) eqn:E2; auto.
          apply existsb_exists in E2. destruct E2 as [x [Hx Hx2]]. apply Nat.eqb_eq in Hx2. subst x.
          apply live_keys_latest in Hx. destruct Hx as [v0 Hv0]. congruence. }
      rewrite EQ. destruct (amem k st); cbn; rewrite ?app_length, length_keys; cbn; lia.
  - rewrite HG. split; [destruct (latest k hist); auto | split; auto].
  - unfold amem. rewrite HG. split; [destruct (latest k hist); auto | split; auto].
  - rewrite HL. split; [auto | split; auto].
  - split; auto. split; auto.
Qed.

(* simple_is_map: SimpleCache answers every operation of every sequence like the unbounded map given by
   the history (get = value of the latest put since the last clear, in = such a put exists,
   len = number of distinct keys put since the last clear) and never raises *)
Theorem simple_is_map : forall D (ops : list (op D)),
  run_ops simple_step [] ops = run_ops simple_spec_step [] ops.
Proof.
  intros D ops. apply refines_rel with (R := simple_rel).
  - intros. now apply simple_step_rel.
  - split; auto.
Qed.

Theorem simple_no_raise : forall D (ops : list (op D)),
  forallb (fun r => negb (is_raised r)) (run_ops simple_step [] ops) = true.
Proof.
  intros D ops. apply run_ops_no_raise_gen with (I := fun _ => True); auto.
  intros st o _. split; auto. destruct o; cbn; auto. destruct (aget k st); auto.
Qed.

(* ================================================================== HybridCache: invariant, no raise *)
Lemma amem_keys_eq : forall V W (a : list (nat * V)) (b : list (nat * W)) k,
  map fst a = map fst b -> amem k a = amem k b.
Proof.
  intros V W a b k E. destruct (amem k a) eqn:Ea, (amem k b) eqn:Eb; auto.
  - apply amem_In in Ea. rewrite E in Ea. apply amem_In in Ea. congruence.
  - apply amem_In in Eb. rewrite <- E in Eb. apply amem_In in Eb. congruence.
Qed.

Lemma mapM_map : forall X Y (f : X -> result Y) (g : X -> Y) l,
  (forall x, In x l -> f x = Ok (g x)) -> mapM f l = Ok (map g l).
Proof.
  intros X Y f g l. induction l as [|x t IH]; intros H; cbn; auto.
  rewrite (H x) by now left. cbn. rewrite IH; auto. intros y Hy. apply H. now right.
Qed.

Lemma aget_map : forall V W (h : nat * V -> W) (l : list (nat * V)) k,
  aget k (map (fun kv => (fst kv, h kv)) l) = option_map (fun v => h (k, v)) (aget k l).
Proof.
  intros V W h l k. induction l as [|[k' v'] t IH]; cbn; auto.
  destruct (Nat.eqb k k') eqn:E; auto. apply Nat.eqb_eq in E. now subst.
Qed.

Lemma aget_In_NoDup : forall V (l : list (nat * V)) kv,
  NoDup (map fst l) -> In kv l -> aget (fst kv) l = Some (snd kv).
Proof.
  intros V l kv ND. induction l as [|[k' v'] t IH]; cbn; [tauto|]. intros [H|H].
  - subst kv. cbn. now rewrite Nat.eqb_refl.
  - inversion ND as [|? ? NI ND']; subst. destruct (Nat.eqb (fst kv) k') eqn:E.
    + apply Nat.eqb_eq in E. subst k'. exfalso. apply NI. apply in_map_iff. exists kv. auto.
    + auto.
Qed.

Lemma fold_add_ge : forall l a x, In x l -> x <= fold_left Nat.add l a.
Proof.
  assert (G : forall l a, a <= fold_left Nat.add l a).
  { induction l as [|y t IH]; intros a; cbn; auto. specialize (IH (a + y)). lia. }
  induction l as [|y t IH]; intros a x; cbn; [tauto|]. intros [H|H].
  - subst. specialize (G t (a + x)). lia.
  - auto.
Qed.

Lemma Forall_aset : forall V (P : nat * V -> Prop) k v (d : list (nat * V)),
  P (k, v) -> Forall P d -> Forall P (aset k v d).
Proof.
  intros V P k v d Hv H. induction H as [|[k' v'] t Hx Ht IH]; cbn.
  - constructor; auto.
  - destruct (Nat.eqb k k'); constructor; auto.
Qed.

Lemma Forall_adel : forall V (P : nat * V -> Prop) k (d : list (nat * V)),
  Forall P d -> Forall P (adel k d).
Proof.
  intros V P k d H. induction H as [|[k' v'] t Hx Ht IH]; cbn; auto.
  destruct (Nat.eqb k k'); auto.
Qed.

Section HybridFacts.
  Variable A : arith.
  Variables aw dw : num A.
  Variable mx : nat.
  Hypothesis Hmx : 1 <= mx.

  Notation hstep := (hyb_step A aw dw mx true).

  Definition hyb_inv (st : hyb A) : Prop :=
    map fst (h_cnt st) = map fst (h_dict st)
    /\ map fst (h_dur st) = map fst (h_dict st)
    /\ NoDup (map fst (h_dict st))
    /\ length (h_dict st) <= mx
    /\ Forall (fun kv => 1 <= snd kv) (h_cnt st).

  Lemma hyb_inv_empty : hyb_inv hyb_empty.
  Proof. unfold hyb_inv; cbn. repeat split; auto; try constructor. lia. Qed.

  Lemma argmin_In : forall l b, In (argmin A b l) (map fst (b :: l)).
  Proof.
    induction l as [|[k x] t IH]; intros b; cbn; auto.
    destruct (nltb A x (snd b)).
    - specialize (IH (k, x)). cbn in IH. tauto.
    - specialize (IH b). cbn in IH. tauto.
  Qed.

  (* what _expire computes, in closed form *)
  Definition tot_c (st : hyb A) : nat := fold_left Nat.add (map snd (h_cnt st)) 0.
  Definition tot_d (st : hyb A) : num A := fold_left (nadd A) (map snd (h_dur st)) (n0 A).
  Definition ncount (st : hyb A) (c : nat) : num A := ndiv A (nnat A c) (nnat A (tot_c st)).
  Definition ndur (st : hyb A) (d : num A) : num A :=
    if nzero A (tot_d st) then n0 A else ndiv A d (tot_d st).
  Definition score_of (st : hyb A) (kv : nat * nat) : num A :=
    nadd A (nmul A aw (ncount st (snd kv)))
           (nmul A dw (match aget (fst kv) (h_dur st) with Some d => ndur st d | None => n0 A end)).
  Definition score_list (st : hyb A) : list (nat * num A) :=
    map (fun kv => (fst kv, score_of st kv)) (h_cnt st).
  Definition victim (st : hyb A) : nat :=
    match score_list st with b :: r => argmin A b r | [] => 0 end.

  Lemma victim_In : forall st, h_cnt st <> [] -> In (victim st) (map fst (h_cnt st)).
  Proof.
    intros st NE. unfold victim. destruct (score_list st) as [|b r] eqn:E.
    - unfold score_list in E. destruct (h_cnt st); [congruence | discriminate].
    - pose proof (argmin_In r b) as H. rewrite <- E in H. unfold score_list in H.
      rewrite map_map in H. cbn in H. exact H.
  Qed.

  Lemma hyb_expire_eq : forall st, hyb_inv st -> h_dict st <> [] ->
    hyb_expire A aw dw true st
    = (mkHyb (adel (victim st) (h_dict st)) (adel (victim st) (h_cnt st)) (adel (victim st) (h_dur st)), None).
  Proof.
    intros st (Kc & Kd & ND & LE & POS) NE.
    assert (NEc : h_cnt st <> []).
    { intros H. rewrite H in Kc. cbn in Kc. destruct (h_dict st); [congruence | discriminate]. }
    assert (NDc : NoDup (map fst (h_cnt st))) by (rewrite Kc; auto).
    unfold hyb_expire.
    (* normalized counts *)
    assert (E1 : norm_counts A (h_cnt st) = Ok (map (fun kv => (fst kv, ncount st (snd kv))) (h_cnt st))).
    { unfold norm_counts. apply mapM_map. intros kv Hin. fold (tot_c st).
      assert (1 <= tot_c st).
      { unfold tot_c. rewrite Forall_forall in POS. specialize (POS kv Hin).
        pose proof (fold_add_ge (map snd (h_cnt st)) 0 (snd kv) (in_map snd _ _ Hin)). lia. }
      destruct (tot_c st =? 0) eqn:E; [apply Nat.eqb_eq in E; lia | reflexivity]. }
    rewrite E1.
    assert (E2 : norm_durs A true (h_dur st) = Ok (map (fun kv => (fst kv, ndur st (snd kv))) (h_dur st))).
    { unfold norm_durs. apply mapM_map. intros kv Hin. fold (tot_d st). unfold ndur.
      destruct (nzero A (tot_d st)); reflexivity. }
    rewrite E2.
    assert (E3 : scores A aw dw (h_cnt st) (map (fun kv => (fst kv, ncount st (snd kv))) (h_cnt st))
                        (map (fun kv => (fst kv, ndur st (snd kv))) (h_dur st)) = Ok (score_list st)).
    { unfold scores, score_list. apply mapM_map. intros kv Hin.
      rewrite (aget_map _ _ (fun kv => ncount st (snd kv))), (aget_map _ _ (fun kv => ndur st (snd kv))).
      rewrite (aget_In_NoDup _ _ kv NDc Hin). cbn.
      assert (Hk : In (fst kv) (map fst (h_dur st))) by (rewrite Kd, <- Kc; now apply in_map).
      apply amem_In in Hk. destruct (amem_aget _ _ Hk) as [d Hd]. unfold score_of. rewrite Hd. reflexivity. }
    rewrite E3. pose proof (victim_In st NEc) as HV. unfold victim in *.
    destruct (score_list st) as [|b r] eqn:ES.
    - unfold score_list in ES. destruct (h_cnt st); [congruence | discriminate].
    - set (k := argmin A b r) in *.
      assert (M1 : amem k (h_dict st) = true) by (apply amem_In; rewrite <- Kc; auto).
      assert (M2 : amem k (h_cnt st) = true) by (apply amem_In; auto).
      assert (M3 : amem k (h_dur st) = true) by (apply amem_In; rewrite Kd, <- Kc; auto).
      rewrite M1, M2, M3. reflexivity.
  Qed.

  Lemma hyb_del_inv : forall st k, hyb_inv st -> In k (map fst (h_dict st)) ->
    hyb_inv (mkHyb (adel k (h_dict st)) (adel k (h_cnt st)) (adel k (h_dur st)))
    /\ S (length (adel k (h_dict st))) = length (h_dict st).
  Proof.
    intros st k (Kc & Kd & ND & LE & POS) Hk.
    assert (L : S (length (adel k (h_dict st))) = length (h_dict st)).
    { rewrite <- (length_keys (adel k (h_dict st))), keys_adel, <- (length_keys (h_dict st)).
      now apply length_qremove. }
    split; auto. unfold hyb_inv; cbn. rewrite !keys_adel, Kc, Kd. repeat split; auto.
    - now apply NoDup_qremove.
    - lia.
    - now apply Forall_adel.
  Qed.

  Lemma hyb_set_inv : forall st k v d, hyb_inv st ->
    (amem k (h_dict st) = false -> S (length (h_dict st)) <= mx) ->
    hyb_inv (mkHyb (aset k v (h_dict st)) (aset k 1 (h_cnt st)) (aset k d (h_dur st))).
  Proof.
    intros st k v d (Kc & Kd & ND & LE & POS) Hroom. unfold hyb_inv; cbn.
    rewrite !keys_aset, (amem_keys_eq _ _ _ _ k Kc), (amem_keys_eq _ _ _ _ k Kd), Kc, Kd.
    repeat split; auto.
    - destruct (amem k (h_dict st)) eqn:E; auto. apply NoDup_snoc; auto. now apply amem_false_In.
    - rewrite <- (length_keys (aset k v (h_dict st))), keys_aset.
      destruct (amem k (h_dict st)) eqn:E; rewrite ?app_length, length_keys; cbn; auto.
      specialize (Hroom eq_refl). lia.
    - apply Forall_aset; auto.
  Qed.

  Lemma hyb_put_ok : forall st k v d, hyb_inv st ->
    hyb_inv (fst (hyb_put A aw dw mx true st k v d)) /\ snd (hyb_put A aw dw mx true st k v d) = ONone.
  Proof.
    intros st k v d Hinv. pose proof Hinv as (Kc & Kd & ND & LE & POS). unfold hyb_put.
    destruct (mx <=? length (h_dict st)) eqn:Efull.
    - apply Nat.leb_le in Efull.
      assert (NE : h_dict st <> []) by (intros H; rewrite H in Efull; cbn in Efull; lia).
      rewrite (hyb_expire_eq st Hinv NE). cbn.
      assert (HV : In (victim st) (map fst (h_dict st))).
      { rewrite <- Kc. apply victim_In. intros H. rewrite H in Kc. cbn in Kc.
        destruct (h_dict st); [congruence | discriminate]. }
      destruct (hyb_del_inv st (victim st) Hinv HV) as [I1 L1]. split; auto.
      apply (hyb_set_inv _ k v d I1). cbn. intros _. lia.
    - apply Nat.leb_gt in Efull. cbn. split; auto. apply hyb_set_inv; auto.
  Qed.

  Lemma hyb_get_ok : forall st k, hyb_inv st ->
    hyb_inv (fst (hyb_get A st k)) /\ is_raised (snd (hyb_get A st k)) = false.
  Proof.
    intros st k Hinv. pose proof Hinv as (Kc & Kd & ND & LE & POS). unfold hyb_get.
    destruct (amem k (h_dict st)) eqn:Ek; cbn; auto.
    assert (Ec : amem k (h_cnt st) = true) by (rewrite (amem_keys_eq _ _ _ _ k Kc); auto).
    destruct (amem_aget _ _ Ec) as [c Hc]. rewrite Hc.
    destruct (amem_aget _ _ Ek) as [v Hv]. rewrite Hv. cbn. split; auto.
    unfold hyb_inv; cbn. rewrite keys_aset, Ec. repeat split; auto.
    apply Forall_aset; auto. cbn. lia.
  Qed.

  Lemma hyb_step_ok : forall st o, hyb_inv st ->
    hyb_inv (fst (hstep st o)) /\ is_raised (snd (hstep st o)) = false.
  Proof.
    intros st o Hinv. destruct o as [k v d|k|k| |]; cbn.
    - destruct (hyb_put_ok st k v d Hinv) as [H1 H2]. split; auto. now rewrite H2.
    - now apply hyb_get_ok.
    - auto.
    - auto.
    - split; auto. apply hyb_inv_empty.
  Qed.

  (* hybrid_inv: the three dicts have the same keys in the same order, no duplicates, at most max_size
     entries, every access count >= 1 - in every reachable state *)
  Theorem hyb_inv_reachable : forall ops, hyb_inv (final hstep hyb_empty ops).
  Proof.
    intros ops. induction ops as [|o ops IH] using rev_ind.
    - apply hyb_inv_empty.
    - rewrite final_snoc. now apply hyb_step_ok.
  Qed.

  (* hybrid_no_raise: for every arithmetic (in particular IEEE floats incl. zero, inf, nan durations) *)
  Theorem hyb_no_raise : forall ops,
    forallb (fun r => negb (is_raised r)) (run_ops hstep hyb_empty ops) = true.
  Proof.
    intros ops. apply run_ops_no_raise_gen with (I := hyb_inv).
    - intros. now apply hyb_step_ok.
    - apply hyb_inv_empty.
  Qed.
End HybridFacts.

(* ================================================================== HybridCache: the victim has a minimal score *)
Section HybridPolicy.
  Variable A : arith.
  Variables aw dw : num A.
  Variable mx : nat.
  Hypothesis Hmx : 1 <= mx.
  (* `<` on scores is a strict order (true of IEEE `<`, also in the presence of nan, where it is just empty;
     not derivable here because the arithmetic is abstract) *)
  Hypothesis Hirr : forall x, nltb A x x = false.
  Hypothesis Htrans : forall x y z, nltb A x y = true -> nltb A y z = true -> nltb A x z = true.

  Lemma nltb_asym : forall x y, nltb A x y = true -> nltb A y x = false.
  Proof.
    intros x y H. destruct (nltb A y x) eqn:E; auto. pose proof (Htrans _ _ _ H E) as C. now rewrite Hirr in C.
  Qed.

  Lemma argmin_spec : forall l b,
    exists sv, In (argmin A b l, sv) (b :: l)
               /\ (sv = snd b \/ nltb A sv (snd b) = true)
               /\ forall x, In x l -> nltb A (snd x) sv = false.
  Proof.
    induction l as [|[k x] t IH]; intros b; cbn [argmin].
    - exists (snd b). split; [left; now destruct b | split; auto]. intros x [].
    - destruct (nltb A x (snd b)) eqn:E.
      + destruct (IH (k, x)) as (sv & Hin & Hle & Hall). cbn [snd] in *. exists sv. split; [now right|]. split.
        * right. destruct Hle as [->|Hle]; auto. eapply Htrans; eauto.
        * intros y [<-|Hy]; auto. cbn [snd]. destruct Hle as [->|Hle]; [apply Hirr | now apply nltb_asym].
      + destruct (IH b) as (sv & Hin & Hle & Hall). exists sv. split.
        * destruct Hin as [H|H]; [now left | right; now right].
        * split; auto. intros y [<-|Hy]; auto. cbn [snd]. destruct Hle as [->|Hle]; auto.
          destruct (nltb A x sv) eqn:E2; auto. rewrite (Htrans _ _ _ E2 Hle) in E. discriminate.
  Qed.

  Lemma argmin_min : forall l b,
    exists sv, In (argmin A b l, sv) (b :: l) /\ forall x, In x (b :: l) -> nltb A (snd x) sv = false.
  Proof.
    intros l b. destruct (argmin_spec l b) as (sv & Hin & Hle & Hall). exists sv. split; auto.
    intros x [<-|Hx]; auto. destruct Hle as [->|Hle]; [apply Hirr | now apply nltb_asym].
  Qed.

  (* hybrid_policy: a put into a full cache removes exactly one entry, the key `victim st`; its score
       access_weight * count/sum(counts) + duration_weight * duration/sum(durations)   (score_list st)
     is not greater than the score of any other entry, and then stores the new entry *)
  Theorem hyb_policy : forall ops k v d,
    let st := final (hyb_step A aw dw mx true) hyb_empty ops in
    mx <= length (h_dict st) ->
    hyb_put A aw dw mx true st k v d
    = (mkHyb (aset k v (adel (victim A aw dw st) (h_dict st))) (aset k 1 (adel (victim A aw dw st) (h_cnt st)))
             (aset k d (adel (victim A aw dw st) (h_dur st))), ONone)
    /\ In (victim A aw dw st) (map fst (h_dict st))
    /\ exists sv, In (victim A aw dw st, sv) (score_list A aw dw st)
                  /\ forall k' s, In (k', s) (score_list A aw dw st) -> nltb A s sv = false.
  Proof.
    intros ops k v d st Hfull. pose proof (hyb_inv_reachable A aw dw mx Hmx ops) as Hinv. fold st in Hinv.
    pose proof Hinv as (Kc & Kd & ND & LE & POS).
    assert (NE : h_dict st <> []) by (intros H; rewrite H in Hfull; cbn in Hfull; lia).
    assert (NEc : h_cnt st <> []).
    { intros H. rewrite H in Kc. cbn in Kc. destruct (h_dict st); [congruence | discriminate]. }
    split; [|split].
    - unfold hyb_put. apply Nat.leb_le in Hfull. rewrite Hfull.
      rewrite (hyb_expire_eq A aw dw mx Hmx st Hinv NE). reflexivity.
    - rewrite <- Kc. now apply victim_In.
    - unfold victim. destruct (score_list A aw dw st) as [|b r] eqn:ES.
      + unfold score_list in ES. destruct (h_cnt st); [congruence | discriminate].
      + destruct (argmin_min r b) as (sv & Hin & Hall). exists sv. split; auto.
        intros k' s Hks. apply (Hall (k', s) Hks).
  Qed.
End HybridPolicy.

(* ================================================================== DiskCache: invariant, no raise, oldest file *)
Definition ct (x : nat * (nat * nat)) : nat := snd (snd x).

Lemma In_adel : forall V k (d : list (nat * V)) y, In y (adel k d) -> In y d.
Proof.
  intros V k d y. induction d as [|[k' v'] t IH]; cbn; auto.
  destruct (Nat.eqb k k'); cbn; intuition.
Qed.

Lemma In_adel_neq : forall V k (d : list (nat * V)) y, NoDup (map fst d) -> In y (adel k d) -> fst y <> k.
Proof.
  intros V k d y ND. induction d as [|[k' v'] t IH]; cbn; [tauto|].
  inversion ND as [|? ? NI ND']; subst. destruct (Nat.eqb k k') eqn:E.
  - apply Nat.eqb_eq in E. subst k'. intros H Hk. apply NI. rewrite <- Hk. now apply in_map.
  - apply Nat.eqb_neq in E. cbn. intros [H|H]; [subst; cbn; auto | auto].
Qed.

Lemma adel_removed : forall V k (d : list (nat * V)) x, In x d -> ~ In x (adel k d) -> fst x = k.
Proof.
  intros V k d x. induction d as [|[k' v'] t IH]; cbn; [tauto|].
  destruct (Nat.eqb k k') eqn:E.
  - apply Nat.eqb_eq in E. subst k'. intros [H|H] N; [now subst | tauto].
  - cbn. intros [H|H] N; [tauto | apply IH; tauto].
Qed.

Lemma length_adel : forall V k (d : list (nat * V)), amem k d = true -> S (length (adel k d)) = length d.
Proof.
  intros V k d H. rewrite <- (length_keys (adel k d)), keys_adel, <- (length_keys d).
  apply length_qremove. now apply amem_In.
Qed.

Lemma NoDup_map_adel : forall V W (f : nat * V -> W) k (d : list (nat * V)),
  NoDup (map f d) -> NoDup (map f (adel k d)).
Proof.
  intros V W f k d. induction d as [|[k' v'] t IH]; cbn; auto. intros ND.
  inversion ND as [|? ? NI ND']; subst. destruct (Nat.eqb k k'); auto. cbn. constructor; auto.
  intros H. apply NI. apply in_map_iff in H. destruct H as [y [Hy Hin]]. apply in_map_iff. exists y.
  split; auto. eapply In_adel; eauto.
Qed.

Lemma In_aset : forall V k v (d : list (nat * V)) y, In y (aset k v d) -> y = (k, v) \/ In y d.
Proof.
  intros V k v d y. induction d as [|[k' v'] t IH]; cbn.
  - intros [H|[]]; auto.
  - destruct (Nat.eqb k k'); cbn; intuition.
Qed.

Lemma NoDup_map_aset : forall V W (f : nat * V -> W) k v (d : list (nat * V)),
  NoDup (map f d) -> (forall x, In x d -> f x <> f (k, v)) -> NoDup (map f (aset k v d)).
Proof.
  intros V W f k v d. induction d as [|[k' v'] t IH]; cbn; intros ND NEW.
  - constructor; [tauto | constructor].
  - inversion ND as [|? ? NI ND']; subst. destruct (Nat.eqb k k'); cbn.
    + constructor; auto. intros H. apply in_map_iff in H. destruct H as [y [Hy Hin]].
      apply (NEW y); auto.
    + constructor; [|apply IH; auto]. intros H. apply in_map_iff in H. destruct H as [y [Hy Hin]].
      apply In_aset in Hin. destruct Hin as [->|Hin].
      * apply (NEW (k', v')); auto.
      * apply NI. apply in_map_iff. eauto.
Qed.

Lemma NoDup_map_inj : forall X Y (f : X -> Y) l x y,
  NoDup (map f l) -> In x l -> In y l -> f x = f y -> x = y.
Proof.
  intros X Y f l x y. induction l as [|z t IH]; cbn; [tauto|]. intros ND.
  inversion ND as [|? ? NI ND']; subst. intros [Hx|Hx] [Hy|Hy] E; subst; auto.
  - exfalso. apply NI. rewrite E. now apply in_map.
  - exfalso. apply NI. rewrite <- E. now apply in_map.
Qed.

Lemma argmin_t_spec : forall l b,
  exists t, In (argmin_t b l, t) (b :: l) /\ t <= snd b /\ forall x, In x l -> t <= snd x.
Proof.
  induction l as [|[k x] r IH]; intros b; cbn [argmin_t].
  - exists (snd b). split; [left; now destruct b | split; auto]. intros x [].
  - destruct (x <? snd b) eqn:E.
    + apply Nat.ltb_lt in E. destruct (IH (k, x)) as (t & Hin & Hle & Hall). cbn [snd] in *.
      exists t. split; [now right|]. split; [lia|]. intros y [<-|Hy]; cbn [snd]; auto.
    + apply Nat.ltb_ge in E. destruct (IH b) as (t & Hin & Hle & Hall). exists t. split.
      * destruct Hin as [H|H]; [now left | right; now right].
      * split; auto. intros y [<-|Hy]; cbn [snd]; auto. lia.
Qed.

Lemma file_eq_dec : forall a b : nat * (nat * nat), {a = b} + {a <> b}.
Proof. repeat decide equality. Qed.

(* the eviction loop of the repaired code: it never raises, removes exactly n files, and every removed
   file is older than every kept file *)
Lemma evict_loop_ok : forall n files, n <= length files -> NoDup (map fst files) -> NoDup (map ct files) ->
  exists files', evict_loop true n (map fst files) files = (files', None)
    /\ length files' + n = length files
    /\ incl files' files
    /\ NoDup (map fst files') /\ NoDup (map ct files')
    /\ (forall x y, In x files -> ~ In x files' -> In y files' -> ct x < ct y).
Proof.
  induction n as [|n IH]; intros files Hn NDk NDc.
  - exists files. cbn. repeat split; auto; try lia. { apply incl_refl. } intros x y Hx Nx. tauto.
  - cbn [evict_loop].
    set (g := fun k => (k, match aget k files with Some vt => snd vt | None => 0 end)).
    assert (E1 : mapM (fun k => match aget k files with
                                | Some vt => Ok (k, snd vt)
                                | None => Err FileNotFoundError end) (map fst files)
                 = Ok (map g (map fst files))).
    { apply mapM_map. intros k Hk. apply amem_In in Hk. destruct (amem_aget _ _ Hk) as [vt Hvt].
      unfold g. now rewrite Hvt. }
    rewrite E1.
    assert (G : forall y, In y files -> g (fst y) = (fst y, ct y)).
    { intros y Hy. unfold g. now rewrite (aget_In_NoDup _ _ y NDk Hy). }
    destruct (map g (map fst files)) as [|b rest] eqn:ES.
    { apply (f_equal (@length _)) in ES. rewrite !map_length in ES. cbn in ES. lia. }
    destruct (argmin_t_spec rest b) as (tm & Hin & Hb & Hall).
    set (o := argmin_t b rest) in *. rewrite <- ES in Hin.
    apply in_map_iff in Hin. destruct Hin as (ko & Hg & Hko). unfold g in Hg. inversion Hg as [[Eo Etm]].
    subst ko. clear Hg.
    assert (Mo : amem o files = true) by now apply amem_In.
    assert (MIN : forall y, In y files -> tm <= ct y).
    { intros y Hy. assert (Hy' : In (g (fst y)) (b :: rest)) by (rewrite <- ES; apply in_map; now apply in_map).
      rewrite (G y Hy) in Hy'. destruct Hy' as [Hy'|Hy'].
      - clear - Hb Hy'. rewrite Hy' in Hb. exact Hb.
      - apply (Hall _ Hy'). }
    destruct (IH (adel o files)) as (files' & Ev & Len & Inc & NDk' & NDc' & Pol).
    { pose proof (length_adel _ o files Mo). lia. }
    { rewrite keys_adel. now apply NoDup_qremove. }
    { now apply NoDup_map_adel. }
    exists files'. rewrite <- keys_adel. split; [exact Ev|].
    split; [pose proof (length_adel _ o files Mo); lia|].
    split; [intros y Hy; eapply In_adel; apply Inc; exact Hy|].
    split; auto. split; auto.
    intros x y Hx Nx Hy. destruct (in_dec file_eq_dec x (adel o files)) as [Hx1|Hx1].
    + apply Pol; auto.
    + pose proof (adel_removed _ o files x Hx Hx1) as Ex.
      assert (Hy0 : In y files) by (eapply In_adel; apply Inc; exact Hy).
      assert (Ny : fst y <> o) by (eapply In_adel_neq; [exact NDk | apply Inc; exact Hy]).
      assert (Ctx : ct x = tm).
      { pose proof (aget_In_NoDup _ _ x NDk Hx) as Hgx. rewrite Ex in Hgx. rewrite Hgx in Etm. exact Etm. }
      pose proof (MIN y Hy0) as Hle.
      assert (ct x <> ct y).
      { intros E. apply (NoDup_map_inj _ _ ct files x y NDc Hx Hy0) in E. subst y. congruence. }
      lia.
Qed.

Lemma evict_if_needed_ok : forall files m, NoDup (map fst files) -> NoDup (map ct files) ->
  exists files', evict_if_needed true files m = (files', None)
    /\ incl files' files
    /\ NoDup (map fst files') /\ NoDup (map ct files')
    /\ (forall n, m = Some n -> length files' <= n)
    /\ (forall x y, In x files -> ~ In x files' -> In y files' -> ct x < ct y).
Proof.
  intros files [n|] NDk NDc; cbn.
  - destruct (evict_loop_ok (length files - n) files) as (files' & Ev & Len & Inc & N1 & N2 & Pol); auto; try lia.
    exists files'. repeat split; auto. intros n' E. inversion E; subst. lia.
  - exists files. repeat split; auto. { apply incl_refl. } { discriminate. } tauto.
Qed.

Section DiskFacts.
  Variable wl : bool.
  Variable ls : nat.
  Hypothesis Hls : wl = true -> 1 <= ls.

  Definition disk_inv (st : disk) : Prop :=
    NoDup (map fst (d_files st)) /\ NoDup (map ct (d_files st))
    /\ Forall (fun x => ct x < d_clock st) (d_files st)
    /\ lru_inv ls (d_lru st).

  Lemma mk_disk_inv : forall f c l m,
    NoDup (map fst f) -> NoDup (map ct f) -> Forall (fun x => ct x < c) f -> lru_inv ls l ->
    disk_inv (mkDisk f c l m).
  Proof. intros. unfold disk_inv; cbn. auto. Qed.

  Lemma disk_open_inv : forall m, disk_inv (disk_open [] 0 m).
  Proof. intros m. apply mk_disk_inv; [constructor | constructor | constructor | apply lru_inv_empty]. Qed.

  Lemma front_put_ok : forall l k v, lru_inv ls l ->
    exists l1, (if wl then lru_put ls l k v else (l, ONone)) = (l1, ONone) /\ lru_inv ls l1.
  Proof.
    intros l k v Hl. destruct wl eqn:E.
    - destruct (lru_put_ok ls l k v (Hls eq_refl) Hl) as [H1 H2].
      destruct (lru_put ls l k v) as [l1 o]. cbn in *. subst o. eauto.
    - eauto.
  Qed.

  (* the put of the repaired code, in closed form *)
  Lemma disk_put_spec : forall st k v, disk_inv st ->
    let files1 := adel k (d_files st) ++ [(k, (v, d_clock st))] in
    exists files' l1,
      disk_put wl ls true st k v = (mkDisk files' (S (d_clock st)) l1 (d_max st), ONone)
      /\ disk_inv (mkDisk files' (S (d_clock st)) l1 (d_max st))
      /\ incl files' files1
      /\ (forall n, d_max st = Some n -> length files' <= n)
      /\ (forall x y, In x files1 -> ~ In x files' -> In y files' -> ct x < ct y).
  Proof.
    intros st k v (NDk & NDc & LT & HL) files1.
    assert (NDk1 : NoDup (map fst files1)).
    { unfold files1. rewrite map_app, keys_adel. cbn [map fst]. apply NoDup_snoc; [now apply NoDup_qremove|].
      rewrite In_qremove_iff by auto. tauto. }
    assert (NDc1 : NoDup (map ct files1)).
    { unfold files1. rewrite map_app. cbn [map]. apply NoDup_snoc; [now apply NoDup_map_adel|].
      unfold ct at 1. cbn [snd]. intros H. apply in_map_iff in H. destruct H as [y [Hy Hin]]. apply In_adel in Hin.
      rewrite Forall_forall in LT. specialize (LT y Hin). lia. }
    assert (LT1 : Forall (fun x => ct x < S (d_clock st)) files1).
    { unfold files1. apply Forall_app. split.
      - apply Forall_adel. eapply Forall_impl; [|exact LT]. cbn. intros. lia.
      - constructor; [unfold ct; cbn; lia | constructor]. }
    destruct (front_put_ok (d_lru st) k v HL) as (l1 & El & Hl1).
    destruct (evict_if_needed_ok files1 (d_max st) NDk1 NDc1) as (files' & Ev & Inc & N1 & N2 & Bd & Pol).
    exists files', l1. unfold disk_put. fold files1. rewrite El. cbn [is_raised]. rewrite Ev.
    split; [reflexivity|]. split; [|auto].
    apply mk_disk_inv; auto. rewrite Forall_forall in *. intros x Hx. apply LT1. now apply Inc.
  Qed.

  Lemma disk_get_ok : forall st k, disk_inv st ->
    disk_inv (fst (disk_get wl ls st k)) /\ is_raised (snd (disk_get wl ls st k)) = false.
  Proof.
    intros st k (NDk & NDc & LT & HL). unfold disk_get.
    destruct (wl && amem k (l_dict (d_lru st))) eqn:E.
    - destruct (lru_get_ok ls (d_lru st) k HL) as [H1 H2]. destruct (lru_get (d_lru st) k) as [l1 o].
      cbn in *. split; auto. apply mk_disk_inv; auto.
    - destruct (aget k (d_files st)) as [vt|] eqn:Ef.
      + destruct wl eqn:Ew.
        * destruct (lru_put_ok ls (d_lru st) k (fst vt) (Hls eq_refl) HL) as [H1 H2].
          destruct (lru_put ls (d_lru st) k (fst vt)) as [l1 o]. cbn in *. subst o. cbn.
          split; auto. apply mk_disk_inv; auto.
        * cbn. split; auto. destruct st; apply mk_disk_inv; auto.
      + cbn. split; auto. destruct st; apply mk_disk_inv; auto.
  Qed.

  Lemma disk_step_ok : forall D st (o : dop D), disk_inv st ->
    disk_inv (fst (disk_step wl ls true st o)) /\ is_raised (snd (disk_step wl ls true st o)) = false.
  Proof.
    intros D st o Hinv. destruct o as [[k v d|k|k| |]|m]; cbn.
    - destruct (disk_put_spec st k v Hinv) as (files' & l1 & E & I1 & _). rewrite E. cbn. auto.
    - now apply disk_get_ok.
    - auto.
    - auto.
    - split; auto. apply mk_disk_inv; [constructor | constructor | constructor | apply lru_inv_empty].
    - split; auto. destruct Hinv as (NDk & NDc & LT & HL). apply mk_disk_inv; auto. apply lru_inv_empty.
  Qed.

  (* disk_inv: distinct file names and ctimes, the LRU front consistent - in every reachable state,
     including after re-opening the directory with any max_size *)
  Theorem disk_inv_reachable : forall D m0 (ops : list (dop D)),
    disk_inv (final (disk_step wl ls true) (disk_open [] 0 m0) ops).
  Proof.
    intros D m0 ops. induction ops as [|o ops IH] using rev_ind.
    - apply disk_open_inv.
    - rewrite final_snoc. now apply disk_step_ok.
  Qed.

  (* disk_no_raise *)
  Theorem disk_no_raise : forall D m0 (ops : list (dop D)),
    forallb (fun r => negb (is_raised r)) (run_ops (disk_step wl ls true) (disk_open [] 0 m0) ops) = true.
  Proof.
    intros D m0 ops. apply run_ops_no_raise_gen with (I := disk_inv).
    - intros. now apply disk_step_ok.
    - apply disk_open_inv.
  Qed.

  (* disk_policy: after ANY history (also: directory re-opened with a smaller max_size) a put leaves at most
     max_size files, and every file it deleted is older than every file it kept *)
  Theorem disk_policy : forall D m0 (ops : list (dop D)) k v,
    let st := final (disk_step wl ls true) (disk_open [] 0 m0) ops in
    let written := adel k (d_files st) ++ [(k, (v, d_clock st))] in
    let st' := fst (disk_put wl ls true st k v) in
    incl (d_files st') written
    /\ (forall n, d_max st = Some n -> length (d_files st') <= n)
    /\ (forall x y, In x written -> ~ In x (d_files st') -> In y (d_files st') -> ct x < ct y).
  Proof.
    intros D m0 ops k v st written st'.
    destruct (disk_put_spec st k v (disk_inv_reachable D m0 ops)) as (files' & l1 & E & _ & Inc & Bd & Pol).
    unfold st'. fold st in E. rewrite E. cbn. auto.
  Qed.

  (* len <= max_size in every reachable state when the directory is always re-opened with the same max_size *)
  Theorem disk_bound : forall D m0 (ops : list (dop D)),
    Forall (fun o => match o with Reopen m => m = m0 | DOp _ => True end) ops ->
    let st := final (disk_step wl ls true) (disk_open [] 0 m0) ops in
    d_max st = m0 /\ forall n, m0 = Some n -> length (d_files st) <= n.
  Proof.
    intros D m0 ops. induction ops as [|o ops IH] using rev_ind; intros Hall.
    - cbn. split; auto. intros; lia.
    - apply Forall_app in Hall. destruct Hall as [H1 H2]. inversion H2 as [|? ? Ho _]; subst.
      specialize (IH H1). cbn zeta in *. rewrite final_snoc.
      pose proof (disk_inv_reachable D m0 ops) as Hinv.
      set (st := final (disk_step wl ls true) (disk_open [] 0 m0) ops) in *.
      destruct IH as [Emax Hb]. destruct o as [[k v d|k|k| |]|m]; cbn.
      + destruct (disk_put_spec st k v Hinv) as (files' & l1 & E & _ & _ & Bd & _). rewrite E. cbn.
        split; auto. intros n En. apply Bd. congruence.
      + unfold disk_get. destruct (wl && amem k (l_dict (d_lru st))).
        * destruct (lru_get (d_lru st) k). cbn. auto.
        * destruct (aget k (d_files st)); [|cbn; auto]. destruct wl; [|cbn; auto].
          destruct (lru_put ls (d_lru st) k (fst p)). cbn. auto.
      + auto.
      + auto.
      + split; auto. intros; lia.
      + subst m. split; auto.
  Qed.
End DiskFacts.

(* ================================================================== HybridCache refines the scored entry list *)
Section HybridRefines.
  Variable A : arith.
  Variables aw dw : num A.
  Variable mx : nat.
  Hypothesis Hmx : 1 <= mx.

  Notation hstep := (hyb_step A aw dw mx true).
  Notation sstep := (hyb_spec_step A aw dw mx).
  Notation ent := (entry A).

  Section Proj.
    Context {V : Type}.
    Variable g : ent -> V.
    Definition proj (l : list ent) : list (nat * V) := map (fun e => (e_key e, g e)) l.

    Lemma keys_proj : forall l, map fst (proj l) = map e_key l.
    Proof. intros l. unfold proj. rewrite map_map. reflexivity. Qed.

    Lemma aget_proj : forall k l, aget k (proj l) = option_map g (e_find A k l).
    Proof.
      intros k l. unfold proj, e_find. induction l as [|x t IH]; cbn; auto.
      rewrite (Nat.eqb_sym k (e_key x)). destruct (Nat.eqb (e_key x) k); auto.
    Qed.

    Lemma aset_proj : forall r l, aset (e_key r) (g r) (proj l) = proj (upsert A r l).
    Proof.
      intros r l. unfold proj. induction l as [|x t IH]; cbn; auto.
      rewrite (Nat.eqb_sym (e_key r) (e_key x)). destruct (Nat.eqb (e_key x) (e_key r)); cbn; congruence.
    Qed.

    Lemma proj_upsert_same : forall r r0 l,
      e_find A (e_key r) l = Some r0 -> g r = g r0 -> proj (upsert A r l) = proj l.
    Proof.
      intros r r0 l. unfold proj, e_find. induction l as [|x t IH]; cbn; [discriminate|].
      destruct (Nat.eqb (e_key x) (e_key r)) eqn:E; cbn.
      - apply Nat.eqb_eq in E. intros H Hg. inversion H; subst. now rewrite E, Hg.
      - intros H Hg. f_equal. auto.
    Qed.

    Lemma e_without_notin : forall k l, ~ In k (map e_key l) -> e_without A k l = l.
    Proof.
      intros k l. unfold e_without. induction l as [|x t IH]; cbn; auto. intros N.
      destruct (Nat.eqb (e_key x) k) eqn:E; cbn.
      - apply Nat.eqb_eq in E. exfalso. auto.
      - f_equal. auto.
    Qed.

    Lemma adel_proj : forall k l, NoDup (map e_key l) -> adel k (proj l) = proj (e_without A k l).
    Proof.
      intros k l ND. unfold proj. induction l as [|x t IH]; cbn; auto.
      inversion ND as [|? ? NI ND']; subst.
      rewrite (Nat.eqb_sym k (e_key x)). destruct (Nat.eqb (e_key x) k) eqn:E; cbn.
      - apply Nat.eqb_eq in E. subst k. fold (e_without A (e_key x) t). now rewrite e_without_notin.
      - f_equal. fold (e_without A k t). auto.
    Qed.
  End Proj.

  Lemma e_find_key : forall k l r, e_find A k l = Some r -> e_key r = k /\ In r l.
  Proof.
    intros k l r H. unfold e_find in H. apply find_some in H. destruct H as [H1 H2].
    apply Nat.eqb_eq in H2. auto.
  Qed.

  Lemma e_find_In : forall l e, NoDup (map e_key l) -> In e l -> e_find A (e_key e) l = Some e.
  Proof.
    intros l e ND. unfold e_find. induction l as [|x t IH]; cbn; [tauto|].
    inversion ND as [|? ? NI ND']; subst. intros [H|H].
    - subst. now rewrite Nat.eqb_refl.
    - destruct (Nat.eqb (e_key x) (e_key e)) eqn:E; auto. apply Nat.eqb_eq in E.
      exfalso. apply NI. rewrite E. now apply in_map.
  Qed.

  Lemma keys_e_without : forall k l,
    map e_key (e_without A k l) = filter (fun x => negb (x =? k)) (map e_key l).
  Proof.
    intros k l. unfold e_without. induction l as [|x t IH]; cbn; auto.
    destruct (Nat.eqb (e_key x) k); cbn; congruence.
  Qed.

  Lemma argmin_lowest : forall (sc : ent -> num A) t b,
    argmin A (e_key b, sc b) (map (fun e => (e_key e, sc e)) t) = e_key (lowest A sc b t).
  Proof.
    intros sc t. induction t as [|x r IH]; intros b; cbn; auto.
    destruct (nltb A (sc x) (sc b)); auto.
  Qed.

  Definition hyb_rel (st : hyb A) (l : list ent) : Prop :=
    h_dict st = proj e_val l /\ h_cnt st = proj e_cnt l /\ h_dur st = proj e_dur l /\ NoDup (map e_key l).

  Lemma hyb_rel_scores : forall st l, hyb_rel st l ->
    score_list A aw dw st = map (fun e => (e_key e, score A aw dw l e)) l.
  Proof.
    intros st l (Ed & Ec & Eu & ND). unfold score_list. rewrite Ec. unfold proj at 1. rewrite map_map.
    apply map_ext_in. intros e He. cbn [fst snd]. f_equal. unfold score_of, score. cbn [fst snd].
    assert (T1 : tot_c A st = total_cnt A l).
    { unfold tot_c, total_cnt. rewrite Ec. unfold proj. now rewrite map_map. }
    assert (T2 : tot_d A st = total_dur A l).
    { unfold tot_d, total_dur. rewrite Eu. unfold proj. now rewrite map_map. }
    rewrite Eu, aget_proj, (e_find_In l e ND He). cbn. unfold ncount, ndur. now rewrite T1, T2.
  Qed.

  Lemma hyb_rel_victim : forall st b t, hyb_rel st (b :: t) ->
    victim A aw dw st = e_key (lowest A (score A aw dw (b :: t)) b t).
  Proof.
    intros st b t HR. unfold victim. rewrite (hyb_rel_scores st _ HR). cbn [map]. apply argmin_lowest.
  Qed.

  Lemma hyb_rel_upsert : forall st l r, hyb_rel st l ->
    hyb_rel (mkHyb (aset (e_key r) (e_val r) (h_dict st)) (aset (e_key r) (e_cnt r) (h_cnt st))
                   (aset (e_key r) (e_dur r) (h_dur st))) (upsert A r l).
  Proof.
    intros st l r (Ed & Ec & Eu & ND). unfold hyb_rel; cbn. rewrite Ed, Ec, Eu, !aset_proj.
    repeat split; auto.
    rewrite <- (keys_proj e_val), <- aset_proj, keys_aset, keys_proj.
    destruct (amem (e_key r) (proj e_val l)) eqn:E; auto.
    apply NoDup_snoc; auto. apply amem_false_In in E. now rewrite keys_proj in E.
  Qed.

  Lemma hyb_step_refines : forall st l o, hyb_inv A mx st -> hyb_rel st l ->
    snd (hstep st o) = snd (sstep l o) /\ hyb_rel (fst (hstep st o)) (fst (sstep l o)).
  Proof.
    intros st l o Hinv HR. pose proof HR as (Ed & Ec & Eu & ND).
    assert (LEN : length (h_dict st) = length l) by (rewrite Ed; unfold proj; apply map_length).
    destruct o as [k v d|k|k| |]; cbn [hyb_step hyb_spec_step fst snd].
    - (* put *)
      unfold hyb_put. rewrite LEN. destruct (mx <=? length l) eqn:Efull.
      + apply Nat.leb_le in Efull.
        assert (NE : h_dict st <> []) by (intros H; rewrite H in LEN; cbn in LEN; lia).
        rewrite (hyb_expire_eq A aw dw mx Hmx st Hinv NE). cbn [fst snd]. split; auto.
        destruct l as [|b t]; [cbn in Efull; lia|].
        rewrite (hyb_rel_victim st b t HR). cbn [evict_lowest].
        set (w := e_key (lowest A (score A aw dw (b :: t)) b t)).
        apply (hyb_rel_upsert (mkHyb (adel w (h_dict st)) (adel w (h_cnt st)) (adel w (h_dur st)))
                              (e_without A w (b :: t)) (mkEntry k v 1 d)).
        unfold hyb_rel; cbn [h_dict h_cnt h_dur]. rewrite Ed, Ec, Eu, !adel_proj by auto.
        repeat split; auto. rewrite keys_e_without. now apply NoDup_filter.
      + cbn [fst snd]. split; auto. apply (hyb_rel_upsert st l (mkEntry k v 1 d) HR).
    - (* get *)
      unfold hyb_get. unfold amem. rewrite Ed, aget_proj.
      destruct (e_find A k l) as [r|] eqn:Ef; cbn [option_map negb].
      + destruct (e_find_key _ _ _ Ef) as [Ek Hin]. rewrite Ec, aget_proj, Ef. cbn [option_map].
        cbn [option_map fst snd]. split; auto.
        assert (Ef' : e_find A (e_key (mkEntry k (e_val r) (e_cnt r + 1) (e_dur r))) l = Some r) by (cbn; exact Ef).
        pose proof (proj_upsert_same e_val _ r l Ef' eq_refl) as PV.
        pose proof (proj_upsert_same e_dur _ r l Ef' eq_refl) as PD.
        pose proof (aset_proj e_cnt (mkEntry k (e_val r) (e_cnt r + 1) (e_dur r)) l) as PC.
        cbn [e_key e_cnt] in PC.
        unfold hyb_rel; cbn [h_dict h_cnt h_dur]. rewrite PV, PD. split; [reflexivity|].
        split; [exact PC|]. split; [exact Eu|].
        rewrite <- (keys_proj e_val), PV, keys_proj. exact ND.
      + cbn [fst snd]. split; auto.
    - (* in *)
      unfold amem. rewrite Ed, aget_proj. destruct (e_find A k l); cbn; split; auto.
    - rewrite LEN. split; auto.
    - split; auto. unfold hyb_rel; cbn.
      split; [reflexivity|split; [reflexivity|split; [reflexivity|constructor]]].
  Qed.

  (* hybrid_refines: on every operation sequence the three-dict code produces exactly the outputs of ONE
     list of entries (key, value, count, duration) where a put into a full cache first drops the first entry
     with the lowest score  aw * count/sum(counts) + dw * duration/sum(durations) *)
  Theorem hyb_refines : forall ops, run_ops hstep hyb_empty ops = run_ops sstep [] ops.
  Proof.
    intros ops. apply refines_rel with (R := fun st l => hyb_inv A mx st /\ hyb_rel st l).
    - intros st l o [Hinv HR]. destruct (hyb_step_refines st l o Hinv HR) as [H1 H2].
      split; auto. split; auto. now apply hyb_step_ok.
    - split; [apply hyb_inv_empty; exact Hmx|]. unfold hyb_rel; cbn.
      split; [reflexivity|split; [reflexivity|split; [reflexivity|constructor]]].
  Qed.
End HybridRefines.

(* ================================================================== the defects of the code before the fixes *)
(* exact integer arithmetic: an instance of `arith` whose `<` is a strict order (non-vacuity of hyb_policy) *)
Definition zarith : arith := mkArith Z Z.add Z.mul Z.div Z.ltb (Z.eqb 0) 0%Z Z.of_nat.

Lemma zarith_irr : forall x : num zarith, nltb zarith x x = false.
Proof. intros x. apply Z.ltb_irrefl. Qed.
Lemma zarith_trans : forall x y z : num zarith,
  nltb zarith x y = true -> nltb zarith y z = true -> nltb zarith x z = true.
Proof. cbn. intros x y z H1 H2. apply Z.ltb_lt in H1, H2. apply Z.ltb_lt. lia. Qed.

(* LRUCache before c9015ac: max_size=2, put a, put a, put b, put c raises KeyError *)
Lemma lru_v0_keyerror :
  run_ops (@lru_step_v0 unit 2) lru_empty [Put 0 1 tt; Put 0 2 tt; Put 1 3 tt; Put 2 4 tt]
  = [ONone; ONone; ONone; Raised KeyError].
Proof. reflexivity. Qed.
(* max_size=1: put a, put a leaves a absent *)
Lemma lru_v0_self_evict :
  run_ops (@lru_step_v0 unit 1) lru_empty [Put 0 1 tt; Put 0 2 tt; Mem 0; Len]
  = [ONone; ONone; OBool false; OLen 0].
Proof. reflexivity. Qed.
(* HybridCache before 7aec4e6: max_size=1, put(a, dur 0), put(b, dur 0) raises ZeroDivisionError *)
Lemma hyb_v0_zerodiv :
  run_ops (hyb_step zarith 1%Z 1%Z 1 false) hyb_empty [Put 0 1 0%Z; Put 1 2 0%Z]
  = [ONone; Raised ZeroDivisionError].
Proof. reflexivity. Qed.
(* DiskCache before e60e797: three files, reopened with max_size=1, the next put raises FileNotFoundError *)
Lemma disk_v0_filenotfound :
  run_ops (@disk_step true 2 false unit) (disk_open [] 0 (Some 3))
          [DOp (Put 0 1 tt); DOp (Put 1 2 tt); DOp (Put 2 3 tt); Reopen (Some 1); DOp (Put 3 4 tt)]
  = [ONone; ONone; ONone; ONone; Raised FileNotFoundError].
Proof. reflexivity. Qed.

(* ================================================================== DiskCache refines files-in-creation-order + LRU front *)
From Coq Require Import Sorted.

Definition strip (x : nat * (nat * nat)) : kv := (fst x, fst (snd x)).

Lemma SS_snoc : forall l c, StronglySorted lt l -> Forall (fun y => y < c) l -> StronglySorted lt (l ++ [c]).
Proof.
  intros l c H. induction H as [|a l Hs IH Hf]; cbn; intros HF.
  - constructor; constructor.
  - inversion HF as [|? ? Ha Hl]; subst. constructor; auto. apply Forall_app. split; auto.
Qed.

Lemma SS_map_adel : forall k (files : list (nat * (nat * nat))),
  StronglySorted lt (map ct files) -> StronglySorted lt (map ct (adel k files)).
Proof.
  intros k files. induction files as [|[k' vt] t IH]; cbn; auto. intros H.
  inversion H as [|a l Hs Hf]; subst. destruct (Nat.eqb k k'); auto. cbn. constructor; auto.
  rewrite Forall_forall in *. intros y Hy. apply in_map_iff in Hy. destruct Hy as [z [Hz Hin]].
  apply In_adel in Hin. apply Hf. apply in_map_iff. eauto.
Qed.

Lemma SS_skipn : forall n (l : list nat), StronglySorted lt l -> StronglySorted lt (skipn n l).
Proof.
  induction n as [|n IH]; intros l H; cbn; auto. destruct l; auto. inversion H; subst. auto.
Qed.

Lemma argmin_t_head : forall rest b, Forall (fun x => snd b < snd x) rest -> argmin_t b rest = fst b.
Proof.
  induction rest as [|[k x] r IH]; intros b H; cbn [argmin_t]; auto.
  inversion H as [|? ? Hx Hr]; subst. cbn [snd] in Hx.
  destruct (x <? snd b) eqn:E; [apply Nat.ltb_lt in E; lia | apply IH; exact Hr].
Qed.

(* on a directory listed in order of writing the loop deletes the first n files *)
Lemma evict_sorted : forall n files, n <= length files -> NoDup (map fst files) ->
  StronglySorted lt (map ct files) -> evict_loop true n (map fst files) files = (skipn n files, None).
Proof.
  induction n as [|n IH]; intros files Hn ND SS; [reflexivity|].
  destruct files as [|x0 r]; [cbn in Hn; lia|].
  assert (G : forall y, In y (x0 :: r) -> aget (fst y) (x0 :: r) = Some (snd y))
    by (intros; now apply aget_In_NoDup).
  cbn [evict_loop].
  rewrite (mapM_map _ _ _ (fun k => (k, match aget k (x0 :: r) with Some vt => snd vt | None => 0 end))).
  2:{ intros k Hk. apply amem_In in Hk. destruct (amem_aget _ _ Hk) as [vt Hvt]. now rewrite Hvt. }
  rewrite map_map. rewrite (map_ext_in _ (fun y => (fst y, ct y))).
  2:{ intros y Hy. rewrite (G y Hy). reflexivity. }
  cbn [map] in *. inversion SS as [|a l Hs Hf]; subst. inversion ND as [|a l Hn0 Hnd]; subst.
  rewrite argmin_t_head.
  2:{ cbn [snd]. apply Forall_map. rewrite Forall_forall in *. intros y Hy. cbn [snd]. apply Hf. now apply in_map. }
  destruct x0 as [k0 vt0]. cbn [fst adel qremove]. rewrite !Nat.eqb_refl. cbn [skipn].
  apply IH; auto. cbn in Hn. lia.
Qed.

Lemma strip_without_notin : forall k (t : list (nat * (nat * nat))), ~ In k (map fst t) ->
  without k (map strip t) = map strip t.
Proof.
  intros k t. unfold without. induction t as [|[k2 vt2] t2 IH]; cbn; auto. intros N.
  destruct (Nat.eqb k2 k) eqn:E; cbn.
  - apply Nat.eqb_eq in E. subst. exfalso. auto.
  - f_equal. auto.
Qed.

Lemma strip_adel : forall k (files : list (nat * (nat * nat))), NoDup (map fst files) ->
  map strip (adel k files) = without k (map strip files).
Proof.
  intros k files ND. induction files as [|[k' vt] t IH]; cbn; auto.
  inversion ND as [|? ? NI ND']; subst. rewrite (Nat.eqb_sym k k'). destruct (Nat.eqb k' k) eqn:E.
  - apply Nat.eqb_eq in E. subst k'. rewrite <- (strip_without_notin k t NI) at 1.
    unfold without. cbn [map filter strip fst]. try rewrite Nat.eqb_refl. reflexivity.
  - cbn [map]. unfold without in *. cbn [map filter strip fst]. try rewrite E. cbn [negb]. f_equal. apply IH. exact ND'.
Qed.

Lemma lookup_strip : forall k (files : list (nat * (nat * nat))),
  lookup k (map strip files) = option_map fst (aget k files).
Proof.
  intros k files. unfold lookup. induction files as [|[k' vt] t IH]; cbn; auto.
  rewrite (Nat.eqb_sym k k'). destruct (Nat.eqb k' k); cbn; auto.
Qed.

Section DiskRefines.
  Variable wl : bool.
  Variable ls : nat.
  Hypothesis Hls : wl = true -> 1 <= ls.

  Definition disk_good (st : disk) : Prop := disk_inv ls st /\ StronglySorted lt (map ct (d_files st)).
  Definition disk_abs (st : disk) : disk_spec :=
    mkDS (map strip (d_files st)) (lru_abs (d_lru st)) (d_max st).

  Lemma front_put_refines : forall l k v, lru_inv ls l ->
    front_put wl ls (lru_abs l) k v = lru_abs (fst (if wl then lru_put ls l k v else (l, ONone))).
  Proof.
    intros l k v Hl. unfold front_put. destruct wl eqn:E; auto.
    rewrite (lru_step_refines unit ls l (Put k v tt) (Hls eq_refl) Hl). reflexivity.
  Qed.

  Lemma disk_step_refines : forall D st (o : dop D), disk_good st ->
    disk_good (fst (disk_step wl ls true st o))
    /\ disk_spec_step wl ls (disk_abs st) o = (disk_abs (fst (disk_step wl ls true st o)), snd (disk_step wl ls true st o)).
  Proof.
    intros D st o [Hinv SS]. pose proof Hinv as (NDk & NDc & LT & HL).
    destruct o as [[k v d|k|k| |]|m]; cbn [disk_step disk_spec_step].
    - (* put *)
      unfold disk_put. set (files1 := adel k (d_files st) ++ [(k, (v, d_clock st))]).
      assert (NDk1 : NoDup (map fst files1)).
      { unfold files1. rewrite map_app, keys_adel. cbn [map fst]. apply NoDup_snoc; [now apply NoDup_qremove|].
        rewrite In_qremove_iff by auto. tauto. }
      assert (SS1 : StronglySorted lt (map ct files1)).
      { unfold files1. rewrite map_app. cbn [map]. apply SS_snoc; [now apply SS_map_adel|].
        unfold ct at 2. cbn [snd]. apply Forall_map. apply Forall_adel. exact LT. }
      destruct (front_put_ok wl ls Hls (d_lru st) k v HL) as (l1 & El & Hl1).
      pose proof (front_put_refines (d_lru st) k v HL) as FR. rewrite El in *. cbn [fst] in FR.
      cbn [is_raised].
      assert (EV : evict_if_needed true files1 (d_max st)
                   = (match d_max st with Some m => skipn (length files1 - m) files1 | None => files1 end, None)).
      { unfold evict_if_needed. destruct (d_max st) as [m|]; auto. apply evict_sorted; auto. lia. }
      rewrite EV. cbn [fst snd]. split.
      + (* invariant *)
        destruct (disk_put_spec wl ls Hls st k v Hinv) as (f' & l' & E & I' & _).
        unfold disk_put in E. fold files1 in E. rewrite El in E. cbn [is_raised] in E. rewrite EV in E.
        inversion E; subst. split; [exact I'|]. cbn [d_files].
        destruct (d_max st); [rewrite <- skipn_map; now apply SS_skipn | exact SS1].
      + unfold disk_abs; cbn [d_files d_lru d_max s_files s_front s_max]. f_equal. f_equal; [|exact FR].
        assert (ES : map strip files1 = without k (map strip (d_files st)) ++ [(k, v)]).
        { unfold files1. rewrite map_app, strip_adel by auto. reflexivity. }
        rewrite <- ES. unfold bound. destruct (d_max st) as [m|]; auto.
        rewrite skipn_map, !map_length. reflexivity.
    - (* get *)
      unfold disk_get. unfold disk_abs; cbn [s_front s_files s_max].
      rewrite (lru_abs_lookup ls (d_lru st) k HL).
      destruct (Bool.bool_dec wl true) as [Ew|Ew].
      + rewrite Ew. cbn [andb]. destruct (amem k (l_dict (d_lru st))) eqn:Em.
        * destruct (amem_aget _ _ Em) as [v0 Hv0]. rewrite Hv0.
          pose proof (lru_step_refines unit ls (d_lru st) (Get k) (Hls Ew) HL) as GR.
          cbn [lru_spec_step lru_step lru_step_with] in GR.
          rewrite (lru_abs_lookup ls (d_lru st) k HL), Hv0 in GR.
          destruct (lru_get_ok ls (d_lru st) k HL) as [G1 G2].
          destruct (lru_get (d_lru st) k) as [l1 o1]. cbn [fst snd] in *. inversion GR; subst. split.
          -- split; [apply mk_disk_inv; auto | exact SS].
          -- unfold disk_abs. cbn [d_files d_lru d_max fst snd s_files s_front s_max]. rewrite H0. reflexivity.
        * rewrite (amem_none _ _ Em), lookup_strip.
          destruct (aget k (d_files st)) as [vt|] eqn:Ef; cbn [option_map].
          -- destruct (front_put_ok wl ls Hls (d_lru st) k (fst vt) HL) as (l1 & El & Hl1).
             pose proof (front_put_refines (d_lru st) k (fst vt) HL) as FR. rewrite Ew in El, FR.
             rewrite El in *. cbn [fst snd is_raised] in *. split.
             ++ split; [apply mk_disk_inv; auto | exact SS].
             ++ unfold disk_abs. cbn [d_files d_lru d_max fst snd s_files s_front s_max]. rewrite FR. reflexivity.
          -- cbn [fst snd]. split; [split; auto | reflexivity].
      + apply Bool.not_true_is_false in Ew. rewrite Ew. cbn [andb].
        rewrite lookup_strip. destruct (aget k (d_files st)) as [vt|] eqn:Ef; cbn [option_map fst snd].
        * split; [split; auto|]. unfold disk_abs. unfold front_put. reflexivity.
        * split; [split; auto | reflexivity].
    - (* in *)
      cbn [fst snd]. split; [split; auto|]. unfold disk_abs; cbn [s_front s_files s_max].
      rewrite (lru_abs_lookup ls (d_lru st) k HL), lookup_strip. f_equal. f_equal.
      unfold amem. destruct (aget k (l_dict (d_lru st))), (aget k (d_files st)); reflexivity.
    - cbn [fst snd]. split; [split; auto|]. unfold disk_abs; cbn [s_files]. now rewrite map_length.
    - cbn [fst snd]. split; [|reflexivity]. split; [|constructor].
      apply mk_disk_inv; [constructor | constructor | constructor | apply lru_inv_empty].
    - cbn [fst snd]. split; [|reflexivity]. split; [|exact SS].
      apply mk_disk_inv; auto. apply lru_inv_empty.
  Qed.

  (* disk_refines: on every sequence of put/get/in/len/clear/reopen the code produces exactly the outputs of
     the creation-ordered bounded file list with an LRU front *)
  Theorem disk_refines : forall D m0 (ops : list (dop D)),
    run_ops (disk_step wl ls true) (disk_open [] 0 m0) ops
    = run_ops (disk_spec_step wl ls) (mkDS [] [] m0) ops.
  Proof.
    intros D m0 ops.
    apply (refines_gen _ _ _ (disk_step wl ls true) (disk_spec_step wl ls) disk_good disk_abs).
    - intros st o H. apply (disk_step_refines D st o H).
    - intros st o H. apply (disk_step_refines D st o H).
    - split; [apply disk_open_inv | constructor].
  Qed.
End DiskRefines.

(* ================================================================== DiskCache: len <= max_size, general form *)
(* a <= b for max_size values, None = unbounded *)
Definition opt_le (a b : option nat) : bool :=
  match a, b with
  | _, None => true
  | None, Some _ => false
  | Some x, Some y => x <=? y
  end.

(* Scanning the history: is `len <= max_size` guaranteed at its end?  It is at creation, after every put and
   after clear; get / in / len keep it; re-opening keeps it iff it held and the new max_size is not smaller. *)
Fixpoint settled {D} (flag : bool) (mx : option nat) (ops : list (dop D)) : bool * option nat :=
  match ops with
  | [] => (flag, mx)
  | DOp (Put _ _ _) :: t => settled true mx t
  | DOp Clear :: t => settled true mx t
  | DOp _ :: t => settled flag mx t
  | Reopen m :: t => settled (flag && opt_le mx m) m t
  end.

Section DiskBound.
  Variable wl : bool.
  Variable ls : nat.
  Hypothesis Hls : wl = true -> 1 <= ls.

  Definition bounded (st : disk) : Prop := forall n, d_max st = Some n -> length (d_files st) <= n.

  Lemma disk_bound_gen : forall D (ops : list (dop D)) st flag,
    disk_inv ls st -> (flag = true -> bounded st) ->
    let st' := final (disk_step wl ls true) st ops in
    d_max st' = snd (settled flag (d_max st) ops)
    /\ (fst (settled flag (d_max st) ops) = true -> bounded st').
  Proof.
    intros D ops. unfold final. induction ops as [|o t IH]; intros st flag Hinv Hb; cbn [fold_left settled].
    - cbn. auto.
    - pose proof (disk_step_ok wl ls Hls D st o Hinv) as [Hinv' _].
      destruct o as [[k v d|k|k| |]|m]; cbn [disk_step fst] in *.
      + destruct (disk_put_spec wl ls Hls st k v Hinv) as (files' & l1 & E & _ & _ & Bd & _).
        rewrite E in *. cbn [fst] in *. apply (IH _ true Hinv'). intros _ n Hn. cbn in *. auto.
      + assert (E : d_files (fst (disk_get wl ls st k)) = d_files st /\ d_max (fst (disk_get wl ls st k)) = d_max st).
        { unfold disk_get. destruct (wl && amem k (l_dict (d_lru st))).
          - destruct (lru_get (d_lru st) k). cbn. auto.
          - destruct (aget k (d_files st)); [|cbn; auto]. destruct wl; [|cbn; auto].
            destruct (lru_put ls (d_lru st) k (fst p)). cbn. auto. }
        destruct E as [E1 E2]. rewrite <- E2. apply (IH _ flag Hinv').
        intros Hf n Hn. rewrite E1. apply (Hb Hf). congruence.
      + apply (IH _ flag Hinv' Hb).
      + apply (IH _ flag Hinv' Hb).
      + apply (IH _ true Hinv'). intros _ n Hn. cbn. lia.
      + apply (IH _ (flag && opt_le (d_max st) m) Hinv'). cbn [disk_open d_max d_files].
        intros Hf n Hn. cbn in Hn. apply andb_prop in Hf. destruct Hf as [Hf Hle]. subst m.
        destruct (d_max st) as [n0|] eqn:E0; cbn in Hle; [|discriminate].
        apply Nat.leb_le in Hle. specialize (Hb Hf n0 E0). cbn. lia.
  Qed.

  (* disk_bound, general: whenever the scan says "settled", len <= max_size; no hypothesis on the Reopens *)
  Theorem disk_bound_general : forall D m0 (ops : list (dop D)),
    let st := final (disk_step wl ls true) (disk_open [] 0 m0) ops in
    d_max st = snd (settled true m0 ops)
    /\ (fst (settled true m0 ops) = true -> forall n, d_max st = Some n -> length (d_files st) <= n).
  Proof.
    intros D m0 ops. apply (disk_bound_gen D ops (disk_open [] 0 m0) true (disk_open_inv ls m0)).
    intros _ n _. cbn. lia.
  Qed.

  Lemma settled_after_put : forall D (ops2 : list (dop D)) flag mx,
    (forall o, In o ops2 -> match o with Reopen _ => False | DOp _ => True end) ->
    flag = true -> fst (settled flag mx ops2) = true.
  Proof.
    intros D ops2. induction ops2 as [|o t IH]; intros flag mx Hno Hf; cbn; auto.
    assert (Ht : forall o, In o t -> match o with Reopen _ => False | DOp _ => True end)
      by (intros; apply Hno; now right).
    destruct o as [[k v d|k|k| |]|m]; auto. exfalso. apply (Hno (Reopen m)). now left.
  Qed.

  Lemma settled_app : forall D (ops1 ops2 : list (dop D)) flag mx,
    settled flag mx (ops1 ++ ops2) = settled (fst (settled flag mx ops1)) (snd (settled flag mx ops1)) ops2.
  Proof.
    intros D ops1. induction ops1 as [|o t IH]; intros ops2 flag mx; cbn; auto.
    destruct o as [[k v d|k|k| |]|m]; auto.
  Qed.

  (* in particular: after ANY history (e.g. a reopen with a smaller max_size that left too many files) the
     bound holds from the next put on, until the directory is re-opened again *)
  Theorem disk_bound_after_put : forall D m0 (ops1 ops2 : list (dop D)) k v d,
    (forall o, In o ops2 -> match o with Reopen _ => False | DOp _ => True end) ->
    let st := final (disk_step wl ls true) (disk_open [] 0 m0) (ops1 ++ DOp (Put k v d) :: ops2) in
    forall n, d_max st = Some n -> length (d_files st) <= n.
  Proof.
    intros D m0 ops1 ops2 k v d Hno st.
    destruct (disk_bound_general D m0 (ops1 ++ DOp (Put k v d) :: ops2)) as [_ Hb]. apply Hb.
    rewrite settled_app. cbn [settled]. now apply settled_after_put.
  Qed.
End DiskBound.
