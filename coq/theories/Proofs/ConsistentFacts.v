(* C04: for a valid request, what RunInfo.create records is consistent with what the run stores
   (the hypothesis `finished_consistent` of Proofs/ReloadFacts.v), so the reload theorems hold unconditionally. *)
From Verif Require Import Base.Prelude Base.StrUtil Base.Index Base.NdArr Model.MapSpec Model.MapSpecSpec Model.MapRun
  Model.MapDenote Model.SymBody Model.RunInfoCodec Model.FSStore Corr.Run_C04 Corr.Valid_C04
  Proofs.StrFacts Proofs.IndexFacts Proofs.MapSpecFacts Proofs.MapSpecShape Proofs.MapSpecParse Proofs.ListFacts
  Proofs.PlaceFacts Proofs.SelectFacts Proofs.MapRunFacts Proofs.RunInfoFacts Proofs.FSStoreFacts Proofs.ReloadFacts.

(* ================================================================================================= *)
(* 1. sorted(set(...))                                                                                *)

Lemma str_ltb_trichotomy a : forall b, str_ltb a b = false -> str_eqb a b = false -> str_ltb b a = true.
Proof.
  induction a as [|x a IH]; intros [|y b]; cbn [str_ltb str_eqb]; intros H1 H2; try discriminate; try reflexivity.
  destruct (code x <? code y) eqn:E1; [discriminate|].
  destruct (code y <? code x) eqn:E2; [reflexivity|].
  apply Nat.ltb_ge in E1, E2. assert (E : code x = code y) by lia.
  unfold code in E. apply (f_equal ascii_of_nat) in E. rewrite !ascii_nat_embedding in E. subst y.
  rewrite Ascii.eqb_refl in H2. cbn [andb] in H2. now apply IH.
Qed.

Lemma str_ltb_trans a : forall b c, str_ltb a b = true -> str_ltb b c = true -> str_ltb a c = true.
Proof.
  induction a as [|x a IH]; intros [|y b] [|z c]; cbn [str_ltb]; intros H1 H2; try discriminate; try reflexivity.
  destruct (code x <? code y) eqn:E1.
  - apply Nat.ltb_lt in E1. destruct (code y <? code z) eqn:E2.
    + apply Nat.ltb_lt in E2. assert (E : code x <? code z = true) by (apply Nat.ltb_lt; lia). now rewrite E.
    + destruct (code z <? code y) eqn:E3; [discriminate|]. apply Nat.ltb_ge in E2, E3.
      assert (E : code x <? code z = true) by (apply Nat.ltb_lt; lia). now rewrite E.
  - destruct (code y <? code x) eqn:E1'; [discriminate|]. apply Nat.ltb_ge in E1, E1'.
    destruct (code y <? code z) eqn:E2.
    + apply Nat.ltb_lt in E2. assert (E : code x <? code z = true) by (apply Nat.ltb_lt; lia). now rewrite E.
    + destruct (code z <? code y) eqn:E3; [discriminate|]. apply Nat.ltb_ge in E2, E3.
      assert (E : code x <? code z = false) by (apply Nat.ltb_ge; lia). rewrite E.
      assert (E' : code z <? code x = false) by (apply Nat.ltb_ge; lia). rewrite E'. eapply IH; eauto.
Qed.

(* all elements of l are above x *)
Definition above (x : str) (l : list str) : Prop := forall y, In y l -> str_ltb x y = true.

Lemma sorted_strict_cons x l : sorted_strict (x :: l) = true <-> (match l with [] => True | y :: _ => str_ltb x y = true end) /\ sorted_strict l = true.
Proof.
  destruct l as [|y t]; cbn [sorted_strict]; [tauto|]. rewrite andb_true_iff. tauto.
Qed.

Lemma insert_str_in x l y : In y (insert_str x l) <-> y = x \/ In y l.
Proof.
  induction l as [|z l IH]; cbn [insert_str]; [cbn; intuition|].
  destruct (str_ltb x z); [cbn; intuition|].
  destruct (str_eqb x z) eqn:E.
  - apply str_eqb_eq in E. subst z. cbn. intuition.
  - cbn [In]. rewrite IH. intuition.
Qed.

Lemma insert_str_sorted x l : sorted_strict l = true -> sorted_strict (insert_str x l) = true.
Proof.
  induction l as [|z l IH]; intros H; [reflexivity|].
  cbn [insert_str]. destruct (str_ltb x z) eqn:E1.
  - apply sorted_strict_cons. split; assumption.
  - destruct (str_eqb x z) eqn:E2; [exact H|].
    apply sorted_strict_cons in H as [Hh Ht]. apply sorted_strict_cons. split; [|now apply IH].
    pose proof (str_ltb_trichotomy x z E1 E2) as Hzx.
    destruct l as [|w l']; cbn [insert_str]; [exact Hzx|].
    destruct (str_ltb x w); [exact Hzx|]. destruct (str_eqb x w); exact Hh.
Qed.

Lemma sort_set_sorted_strict l : sorted_strict (sort_set l) = true.
Proof. induction l as [|x l IH]; [reflexivity|]. cbn [sort_set fold_right]. now apply insert_str_sorted. Qed.

Lemma sort_set_in l y : In y (sort_set l) <-> In y l.
Proof.
  induction l as [|x l IH]; [reflexivity|]. cbn [sort_set fold_right]. fold (sort_set l).
  rewrite insert_str_in, IH. cbn. intuition.
Qed.

(* ================================================================================================= *)
(* 2. dicts built by repeated assignment                                                              *)

Lemma dict_set_keys_nodup {V} (d : list (str * V)) k v : NoDup (map fst d) -> NoDup (map fst (dict_set d k v)).
Proof.
  induction d as [|[k' v'] d IH]; intros H; cbn [dict_set].
  - cbn. constructor; [intros []|constructor].
  - destruct (str_eqb k k') eqn:E; [exact H|]. cbn [map fst] in *. inversion H as [|? ? Hk Hd]; subst.
    constructor; [|now apply IH].
    intros Hin. apply Hk. clear -Hin E. induction d as [|[k2 v2] d IH]; cbn [dict_set map fst In] in *.
    + destruct Hin as [->|[]]. now rewrite str_eqb_refl in E.
    + destruct (str_eqb k k2) eqn:E2; cbn [map fst In] in Hin; [exact Hin|].
      destruct Hin as [->|Hin]; [now left|right; now apply IH].
Qed.

Lemma odict_get_set {V} (d : list (okey * V)) k v k' :
  odict_get (odict_set d k v) k' = if okey_eqb k' k then Some v else odict_get d k'.
Proof.
  induction d as [|[k0 v0] d IH]; cbn [odict_set odict_get].
  - reflexivity.
  - destruct (okey_eqb k k0) eqn:E; cbn [odict_get].
    + apply okey_eqb_eq in E. subst k0. destruct (okey_eqb k' k); reflexivity.
    + rewrite IH. destruct (okey_eqb k' k0) eqn:E2; [|reflexivity].
      apply okey_eqb_eq in E2. subst k0. destruct (okey_eqb k' k) eqn:E3; [|reflexivity].
      apply okey_eqb_eq in E3. subst k'. now rewrite okey_eqb_refl in E.
Qed.

Lemma odict_set_keys {V} (d : list (okey * V)) k v k' :
  In k' (map fst (odict_set d k v)) <-> k' = k \/ In k' (map fst d).
Proof.
  induction d as [|[k0 v0] d IH]; cbn [odict_set map fst In]; [intuition|].
  destruct (okey_eqb k k0) eqn:E.
  - apply okey_eqb_eq in E. subst k0. cbn [map fst In]. intuition.
  - cbn [map fst In]. rewrite IH. intuition.
Qed.

Lemma odict_set_keys_nodup {V} (d : list (okey * V)) k v : NoDup (map fst d) -> NoDup (map fst (odict_set d k v)).
Proof.
  induction d as [|[k' v'] d IH]; intros H; cbn [odict_set].
  - cbn. constructor; [intros []|constructor].
  - destruct (okey_eqb k k') eqn:E; [exact H|]. cbn [map fst] in *. inversion H as [|? ? Hk Hd]; subst.
    constructor; [|now apply IH].
    intros Hin. apply odict_set_keys in Hin as [->|Hin]; [now rewrite okey_eqb_refl in E|contradiction].
Qed.

(* {k: v for k, v in L}: the keys are those of L, without repetition; the value of k is its last binding *)
Section FoldSet.
  Context {V : Type}.
  Definition from_pairs (L : list (okey * V)) : list (okey * V) :=
    fold_left (fun d kv => odict_set d (fst kv) (snd kv)) L [].

  Lemma fold_set_keys : forall (L acc : list (okey * V)) k,
    In k (map fst (fold_left (fun d kv => odict_set d (fst kv) (snd kv)) L acc)) <-> In k (map fst acc) \/ In k (map fst L).
  Proof.
    induction L as [|[k0 v0] L IH]; intros acc k; cbn [fold_left map fst In]; [intuition|].
    rewrite IH, odict_set_keys. intuition.
  Qed.

  Lemma fold_set_nodup : forall (L acc : list (okey * V)),
    NoDup (map fst acc) -> NoDup (map fst (fold_left (fun d kv => odict_set d (fst kv) (snd kv)) L acc)).
  Proof.
    induction L as [|[k0 v0] L IH]; intros acc H; cbn [fold_left]; [exact H|]. apply IH. now apply odict_set_keys_nodup.
  Qed.

  Lemma fold_set_get : forall (L acc : list (okey * V)) k v0,
    (forall v, In (k, v) L -> v = v0) ->
    (odict_get acc k = Some v0 \/ (odict_get acc k = None /\ exists v, In (k, v) L)) ->
    odict_get (fold_left (fun d kv => odict_set d (fst kv) (snd kv)) L acc) k = Some v0.
  Proof.
    induction L as [|[k1 v1] L IH]; intros acc k v0 Hall Hacc; cbn [fold_left].
    - destruct Hacc as [H|[_ [v []]]]. exact H.
    - apply IH.
      + intros v Hv. apply Hall. now right.
      + cbn [fst snd]. rewrite odict_get_set. destruct (okey_eqb k k1) eqn:E.
        * apply okey_eqb_eq in E. subst k1. left. f_equal. apply Hall. now left.
        * destruct Hacc as [H|[Hn [v [Hv|Hv]]]].
          -- now left.
          -- injection Hv as -> ->. now rewrite okey_eqb_refl in E.
          -- right. split; [exact Hn|]. eauto.
  Qed.
End FoldSet.

Lemma odict_get_in {V} (d : list (okey * V)) k v : odict_get d k = Some v -> In k (map fst d).
Proof.
  induction d as [|[k' v'] d IH]; cbn [odict_get]; [discriminate|].
  destruct (okey_eqb k k') eqn:E; [apply okey_eqb_eq in E; subst; now left|]. intros H. right. now apply IH.
Qed.

Lemma odict_get_map {V W} (g : V -> W) (d : list (okey * V)) k :
  odict_get (map (fun kv => (fst kv, g (snd kv))) d) k = option_map g (odict_get d k).
Proof.
  induction d as [|[k' v'] d IH]; cbn [map odict_get fst snd]; [reflexivity|].
  destruct (okey_eqb k k'); [reflexivity|exact IH].
Qed.

(* name_mapping[names]: the key whose at_least_tuple is `names`, when that determines the key *)
Lemma name_mapping_get_unique {V} (d : list (okey * V)) names key :
  In key (map fst d) -> at_least_tuple key = names ->
  (forall k, In k (map fst d) -> at_least_tuple k = names -> k = key) ->
  name_mapping_get d names = Some key.
Proof.
  induction d as [|[k v] d IH]; intros Hin Hat Huniq; [contradiction|].
  cbn [name_mapping_get].
  destruct (name_mapping_get d names) as [k'|] eqn:E.
  - f_equal.
    assert (G : forall (d : list (okey * V)) k', name_mapping_get d names = Some k' -> In k' (map fst d) /\ at_least_tuple k' = names).
    { clear. induction d as [|[k v] d IH]; intros k' H; [discriminate|]. cbn [name_mapping_get] in H.
      destruct (name_mapping_get d names) as [k2|] eqn:E2.
      - injection H as <-. destruct (IH k2 eq_refl) as [H1 H2]. split; [now right|exact H2].
      - destruct (list_eqb str_eqb (at_least_tuple k) names) eqn:E3; [|discriminate]. injection H as <-.
        split; [now left|]. now apply (list_eqb_eq str_eqb str_eqb_eq). }
    destruct (G d k' E) as [H1 H2]. apply Huniq; [now right|exact H2].
  - cbn [map fst In] in Hin. destruct Hin as [->|Hin].
    + assert (El : list_eqb str_eqb (at_least_tuple key) names = true) by (apply (list_eqb_eq str_eqb str_eqb_eq); exact Hat).
      now rewrite El.
    + exfalso. pose proof (IH Hin Hat (fun k0 Hk0 => Huniq k0 (or_intror Hk0))) as E'. congruence.
Qed.

(* ================================================================================================= *)
(* 3. invariants of the run (Model/MapRun.v): recorded shapes and stored arrays                        *)

Lemma go_shape_lengths m ish int o0 : forall axs k sh mask,
  go_shape m ish int o0 axs k = Ok (sh, mask) -> length sh = length mask.
Proof.
  induction axs as [|[x|] t IH]; intros k sh mask H; cbn [go_shape] in H.
  - injection H as <- <-. reflexivity.
  - destruct (filter _ (ins m)) as [|r0 rs].
    + destruct (dict_get int (aname o0)) as [iv|]; [|discriminate].
      destruct (nth_error iv k) as [d|]; [|discriminate].
      destruct (go_shape m ish int o0 t (S k)) as [[sh' mask']|] eqn:E; [|discriminate]. cbn [bind fst snd] in H.
      injection H as <- <-. cbn [length]. f_equal. eapply IH; eauto.
    + destruct (common_dim ish x (r0 :: rs)) as [d|]; [|discriminate]. cbn [bind] in H.
      destruct (go_shape m ish int o0 t k) as [[sh' mask']|] eqn:E; [|discriminate]. cbn [bind fst snd] in H.
      injection H as <- <-. cbn [length]. f_equal. eapply IH; eauto.
  - discriminate.
Qed.

Lemma shape_lengths m ish int sh mask : shape m ish int = Ok (sh, mask) -> length sh = length mask.
Proof.
  rewrite shape_unfold. destruct (validate_shapes m ish int); [|discriminate]. cbn [bind].
  destruct (outs m) as [|o0 rest]; [discriminate|]. apply go_shape_lengths.
Qed.

Lemma dict_get_prefix {V} (l : list str) (v : V) rest o :
  dict_get (map (fun o => (o, v)) l ++ rest) o = if mem_str o l then Some v else dict_get rest o.
Proof.
  induction l as [|x l IH]; cbn [map app dict_get mem_str]; [reflexivity|].
  destruct (str_eqb o x); [reflexivity|exact IH].
Qed.

Lemma sto_array_wf sh s : shp (sto_array sh s) = sh /\ nd_wf (sto_array sh s) = true.
Proof.
  unfold sto_array, nd_of_fun, nd_wf. cbn [shp dat]. split; [reflexivity|].
  rewrite map_length, all_indices_length. apply Nat.eqb_refl.
Qed.

Lemma NoDup_app_left {A} (l1 l2 : list A) : NoDup (l1 ++ l2) -> NoDup l1.
Proof.
  induction l1 as [|x l1 IH]; intros H; [constructor|]. cbn [app] in H. inversion H as [|? ? Hx Hl]; subst.
  constructor; [|now apply IH]. intros Hin. apply Hx. apply in_or_app. now left.
Qed.

Lemma NoDup_app_right {A} (l1 l2 : list A) : NoDup (l1 ++ l2) -> NoDup l2.
Proof. induction l1 as [|x l1 IH]; intros H; [exact H|]. cbn [app] in H. inversion H; subst. now apply IH. Qed.

Lemma NoDup_app_disjoint {A} (l1 l2 : list A) x : NoDup (l1 ++ l2) -> In x l1 -> In x l2 -> False.
Proof.
  induction l1 as [|y l1 IH]; intros H H1 H2; [contradiction|]. cbn [app] in H. inversion H as [|? ? Hy Hl]; subst.
  destruct H1 as [->|H1]; [apply Hy; apply in_or_app; now right|now apply IH].
Qed.

Definition out_name (x : str * val * val) : str := fst (fst x).

Record run_inv (D : list mfunc) (st : run_state) : Prop := {
  inv_names : forall x, In x (r_out st) -> exists f, In f D /\ In (out_name x) (fouts f);
  inv_shapes : forall f ms, In f D -> fspec f = Some ms ->
     exists sm, length (fst sm) = length (snd sm) /\ forall o, In o (fouts f) -> dict_get (r_shapes st) o = Some sm;
  inv_mapped : forall x f, In x (r_out st) -> In f D -> is_mapped f = true -> In (out_name x) (fouts f) ->
     exists a sm, snd x = VA a /\ dict_get (r_shapes st) (out_name x) = Some sm /\ shp a = fst sm /\ nd_wf a = true
}.

Section RunInv.
  Variable body : mfunc -> env -> result (list val).
  Variable user : shape_dict.

  Lemma run_func_inv D st f st' :
    run_func body user st f = Ok st' -> run_inv D st ->
    (forall o g, In o (fouts f) -> In g D -> ~ In o (fouts g)) ->
    run_inv (D ++ [f]) st'.
  Proof.
    intros Hrun [Hn Hs Hm] Hdisj. unfold run_func in Hrun.
    destruct (func_shape user (r_shapes st) f) as [shm|] eqn:Eshm; [|discriminate]. cbn [bind] in Hrun.
    destruct (func_kwargs f (r_env st)) as [kw|]; [|discriminate]. cbn [bind] in Hrun.
    set (shapes' := match shm with
                    | Some sm => map (fun o => (o, sm)) (fouts f) ++ r_shapes st
                    | None => r_shapes st end) in *.
    (* shapes of earlier outputs are not shadowed *)
    assert (Hold : forall o g, In g D -> In o (fouts g) -> dict_get shapes' o = dict_get (r_shapes st) o).
    { intros o g Hg Ho. unfold shapes'. destruct shm as [sm|]; [|reflexivity]. rewrite dict_get_prefix.
      destruct (mem_str o (fouts f)) eqn:E; [|reflexivity]. apply mem_str_In in E. exfalso. exact (Hdisj o g E Hg Ho). }
    (* the shape recorded for f itself *)
    assert (Hnew : forall ms, fspec f = Some ms ->
              exists sm, shm = Some sm /\ length (fst sm) = length (snd sm)
                         /\ forall o, In o (fouts f) -> dict_get shapes' o = Some sm).
    { intros ms Hms. unfold func_shape in Eshm. rewrite Hms in Eshm.
      destruct (shape ms _ _) as [[sh mask]|] eqn:Esh; [|discriminate]. cbn [bind] in Eshm. injection Eshm as <-.
      exists (sh, mask). split; [reflexivity|]. split; [cbn [fst snd]; eapply shape_lengths; eauto|].
      intros o Ho. unfold shapes'. rewrite dict_get_prefix. apply mem_str_In in Ho. now rewrite Ho. }
    assert (Hst' : r_shapes st' = shapes' /\
                   exists new : list (str * val * val),
                     r_out st' = r_out st ++ new
                     /\ (forall x, In x new -> In (out_name x) (fouts f))
                     /\ (is_mapped f = true -> forall x, In x new ->
                           exists a sm, snd x = VA a /\ dict_get shapes' (out_name x) = Some sm /\ shp a = fst sm /\ nd_wf a = true)).
    { destruct (is_mapped f) eqn:Emap.
      - destruct (fspec f) as [ms|] eqn:Ems; [|discriminate].
        destruct (Hnew ms eq_refl) as [[sh mask] [-> [Hlen Hget]]].
        destruct (run_mapped body f ms kw sh mask) as [[[arrs stored] n]|] eqn:Erm; [|discriminate]. cbn [bind] in Hrun.
        injection Hrun as <-. cbn [r_shapes r_out]. split; [reflexivity|].
        eexists. split; [reflexivity|]. split.
        + intros x Hx. apply in_map_iff in Hx as [y [<- Hy]]. unfold out_name. cbn [fst].
          destruct y as [o [a1 a2]]. apply in_combine_l in Hy. exact Hy.
        + intros _ x Hx. apply in_map_iff in Hx as [y [<- Hy]]. destruct y as [o [a1 a2]]. cbn [fst snd out_name].
          pose proof (in_combine_l _ _ _ _ Hy) as Ho. apply in_combine_r in Hy. apply in_combine_r in Hy.
          unfold run_mapped in Erm. destruct (fold_left _ _ _) as [fin|]; [|discriminate]. cbn [bind] in Erm.
          injection Erm as _ <- _. apply in_map_iff in Hy as [s0 [<- _]].
          destruct (sto_array_wf sh s0) as [H1 H2].
          exists (sto_array sh s0), (sh, mask). repeat split; auto.
      - destruct (body f kw) as [outs|]; [|discriminate]. cbn [bind] in Hrun.
        destruct (negb (length outs =? length (fouts f))); [discriminate|].
        injection Hrun as <-. cbn [r_shapes r_out]. split; [reflexivity|].
        eexists. split; [reflexivity|]. split; [|discriminate].
        intros x Hx. apply in_map_iff in Hx as [y [<- Hy]]. unfold out_name. cbn [fst].
        destruct y as [o v]. apply in_combine_l in Hy. exact Hy. }
    destruct Hst' as [Hsh [new [Hout [Hnames Hmapped]]]].
    constructor.
    - intros x Hx. rewrite Hout in Hx. apply in_app_or in Hx as [Hx|Hx].
      + destruct (Hn x Hx) as [g [Hg Ho]]. exists g. split; [apply in_or_app; now left|exact Ho].
      + exists f. split; [apply in_or_app; right; now left|now apply Hnames].
    - intros g ms Hg Hms. rewrite Hsh. apply in_app_or in Hg as [Hg|[<-|[]]].
      + destruct (Hs g ms Hg Hms) as [sm [Hlen Hget]]. exists sm. split; [exact Hlen|].
        intros o Ho. rewrite (Hold o g Hg Ho). now apply Hget.
      + destruct (Hnew ms Hms) as [sm [_ [Hlen Hget]]]. exists sm. split; assumption.
    - intros x g Hx Hg Hmap Ho. rewrite Hout in Hx. rewrite Hsh.
      apply in_app_or in Hx as [Hx|Hx]; apply in_app_or in Hg as [Hg|[<-|[]]].
      + destruct (Hm x g Hx Hg Hmap Ho) as [a [sm [H1 [H2 [H3 H4]]]]]. exists a, sm. repeat split; auto.
        now rewrite (Hold _ g Hg Ho).
      + exfalso. destruct (Hn x Hx) as [g' [Hg' Ho']]. exact (Hdisj _ g' Ho Hg' Ho').
      + exfalso. exact (Hdisj _ g (Hnames x Hx) Hg Ho).
      + now apply Hmapped.
  Qed.

  Lemma fold_run_inv : forall rest D st0 st,
    fold_left (fun acc f => do st <- acc; run_func body user st f) rest (Ok st0) = Ok st ->
    run_inv D st0 -> NoDup (flat_map fouts (D ++ rest)) -> run_inv (D ++ rest) st.
  Proof.
    induction rest as [|f rest IH]; intros D st0 st Hfold Hinv Hnd.
    - cbn in Hfold. injection Hfold as <-. now rewrite app_nil_r.
    - cbn [fold_left bind] in Hfold.
      destruct (run_func body user st0 f) as [st1|] eqn:E1.
      + change (D ++ f :: rest) with (D ++ [f] ++ rest) in *. rewrite app_assoc in *.
        apply (IH (D ++ [f]) st1 st Hfold); [|exact Hnd].
        apply (run_func_inv D st0 f st1 E1 Hinv).
        intros o g Ho Hg Hog.
        rewrite flat_map_app in Hnd. apply NoDup_app_left in Hnd. rewrite flat_map_app in Hnd.
        cbn [flat_map] in Hnd. rewrite app_nil_r in Hnd.
        apply (NoDup_app_disjoint _ _ o Hnd); [apply in_flat_map; eauto|exact Ho].
      + rewrite fold_left_bind_err in Hfold. discriminate.
  Qed.

  Lemma map_run_inv p inputs st :
    map_run body p inputs user = Ok st -> NoDup (flat_map fouts p) -> run_inv p st.
  Proof.
    intros H Hnd. unfold map_run in H.
    apply (fold_run_inv p [] _ st H); [|exact Hnd].
    constructor; cbn [r_out]; intros; contradiction.
  Qed.
End RunInv.

(* ================================================================================================= *)
(* 4. the outputs of the run and the recorded shapes                                                   *)

Lemma mapM_result_in {A B} (g : A -> result B) : forall l r y, mapM g l = Ok r -> In y r -> exists x, In x l /\ g x = Ok y.
Proof.
  induction l as [|a l IH]; intros r y H Hy; cbn [mapM] in H.
  - injection H as <-. contradiction.
  - destruct (g a) as [b|] eqn:Ea; [|discriminate]. cbn [bind] in H. destruct (mapM g l) as [r'|] eqn:El; [|discriminate].
    cbn [bind] in H. injection H as <-. destruct Hy as [<-|Hy].
    + exists a. split; [now left|exact Ea].
    + destruct (IH r' y eq_refl Hy) as [x [Hx Hg]]. exists x. split; [now right|exact Hg].
Qed.

Lemma mapM_map_result {A B} (g : A -> result B) (h : B -> A) : forall l r,
  mapM g l = Ok r -> (forall x y, g x = Ok y -> h y = x) -> map h r = l.
Proof.
  induction l as [|a l IH]; intros r H Hh; cbn [mapM] in H.
  - now injection H as <-.
  - destruct (g a) as [b|] eqn:Ea; [|discriminate]. cbn [bind] in H. destruct (mapM g l) as [r'|] eqn:El; [|discriminate].
    cbn [bind] in H. injection H as <-. cbn [map]. f_equal; [now apply Hh|now apply IH].
Qed.

Lemma flat_map_nodup_inj {A B} (g : A -> list B) : forall l a b x,
  NoDup (flat_map g l) -> In a l -> In b l -> In x (g a) -> In x (g b) -> a = b.
Proof.
  induction l as [|y l IH]; intros a b x Hnd Ha Hb Hxa Hxb; [contradiction|].
  cbn [flat_map] in Hnd. destruct Ha as [->|Ha], Hb as [->|Hb]; auto.
  - exfalso. apply (NoDup_app_disjoint _ _ x Hnd Hxa). apply in_flat_map. eauto.
  - exfalso. apply (NoDup_app_disjoint _ _ x Hnd Hxb). apply in_flat_map. eauto.
  - apply (IH a b x); auto. now apply NoDup_app_right in Hnd.
Qed.

(* one output of outs_of_run *)
Definition desc_of (storage : storage_cfg) (st : run_state) (f : mfunc) (o : str) : result out_desc :=
  match find (fun x => str_eqb (fst (fst x)) o) (r_out st) with
  | None => Err KeyError
  | Some (_, _, stored) =>
      if is_mapped f then
        match stored with
        | VA a => do sm <- get_or (dict_get (r_shapes st) o) KeyError;
                  do k <- storage_class storage (output_key_of f);
                  Ok (OMapped o k (snd sm) a)
        | VS _ => Err AssertionError
        end
      else Ok (OSingle o stored)
  end.

Lemma outs_of_run_unfold funcs storage st :
  outs_of_run funcs storage st = do l <- mapM (fun f => mapM (desc_of storage st f) (fouts f)) funcs; Ok (concat l).
Proof. reflexivity. Qed.

Lemma desc_of_name storage st f o d : desc_of storage st f o = Ok d -> od_name d = o.
Proof.
  unfold desc_of. destruct (find _ _) as [[[o' ret] stored]|]; [|discriminate].
  destruct (is_mapped f).
  - destruct stored as [x|a]; [discriminate|]. destruct (dict_get _ o); [|discriminate]. cbn [get_or bind].
    destruct (storage_class _ _); [|discriminate]. cbn [bind]. now intros [= <-].
  - now intros [= <-].
Qed.

Lemma outs_names funcs storage st outs :
  outs_of_run funcs storage st = Ok outs -> map od_name outs = flat_map fouts funcs.
Proof.
  rewrite outs_of_run_unfold. destruct (mapM _ funcs) as [l|] eqn:El; [|discriminate]. cbn [bind]. intros [= <-].
  revert l El. induction funcs as [|f funcs IH]; intros l El; cbn [mapM] in El.
  - now injection El as <-.
  - destruct (mapM (desc_of storage st f) (fouts f)) as [ds|] eqn:Ed; [|discriminate]. cbn [bind] in El.
    destruct (mapM _ funcs) as [l'|] eqn:El'; [|discriminate]. cbn [bind] in El. injection El as <-.
    cbn [concat flat_map]. rewrite map_app. f_equal; [|now apply IH].
    apply (mapM_map_result _ _ _ _ Ed). intros x y. apply desc_of_name.
Qed.

Lemma outs_inv funcs storage st outs d :
  outs_of_run funcs storage st = Ok outs -> In d outs ->
  exists f o, In f funcs /\ In o (fouts f) /\ desc_of storage st f o = Ok d.
Proof.
  rewrite outs_of_run_unfold. destruct (mapM _ funcs) as [l|] eqn:El; [|discriminate]. cbn [bind]. intros [= <-] Hd.
  apply in_concat in Hd as [ds [Hds Hd]].
  destruct (mapM_result_in _ _ _ _ El Hds) as [f [Hf Hm]].
  destruct (mapM_result_in _ _ _ _ Hm Hd) as [o [Ho Hdo]]. eauto.
Qed.

Lemma outs_fwd funcs storage st outs f o :
  outs_of_run funcs storage st = Ok outs -> In f funcs -> In o (fouts f) ->
  exists d, desc_of storage st f o = Ok d /\ In d outs.
Proof.
  rewrite outs_of_run_unfold. destruct (mapM _ funcs) as [l|] eqn:El; [|discriminate]. cbn [bind]. intros [= <-] Hf Ho.
  destruct (mapM_inv_in _ _ _ f El Hf) as [ds [Hds Hin]].
  destruct (mapM_inv_in _ _ _ o Hds Ho) as [d [Hd Hind]].
  exists d. split; [exact Hd|]. apply in_concat. eauto.
Qed.

(* ---------- create_shapes ---------- *)
Definition shape_entries (shapes : shapes_t) (f : mfunc) : result (list (okey * (list nat * list bool))) :=
  match fspec f, fouts f with
  | None, _ => Ok []
  | Some _, [] => Err IndexError
  | Some _, [o] => do sm <- get_or (dict_get shapes o) KeyError; Ok [(KName o, sm)]
  | Some _, o :: _ => do sm <- get_or (dict_get shapes o) KeyError;
                      Ok ((KTup (fouts f), sm) :: map (fun o' => (KName o', sm)) (fouts f))
  end.

Definition root_entries (funcs : list mfunc) (inputs : env) : list (okey * (list nat * list bool)) :=
  flat_map (fun kv => match snd kv with
                      | VA a => if mem_str (fst kv) (mapspec_names funcs)
                                then [(KName (fst kv), (shp a, repeat true (length (shp a))))] else []
                      | VS _ => [] end) inputs.

Lemma create_shapes_unfold funcs inputs shapes :
  create_shapes funcs inputs shapes
  = do per <- mapM (shape_entries shapes) funcs; Ok (from_pairs (root_entries funcs inputs ++ concat per)).
Proof. reflexivity. Qed.

Lemma output_key_at_least f : fouts f <> [] -> at_least_tuple (output_key_of f) = fouts f.
Proof. unfold output_key_of. destruct (fouts f) as [|o [|o' t]]; [contradiction|reflexivity|reflexivity]. Qed.

Section CreateShapes.
  Variables (funcs : list mfunc) (inputs : env) (shapes : shapes_t).
  Variable sm : list (okey * (list nat * list bool)).
  Hypothesis Hcs : create_shapes funcs inputs shapes = Ok sm.
  Hypothesis Hnd : NoDup (flat_map fouts funcs ++ map fst inputs).
  Hypothesis Hsh : forall f ms, In f funcs -> fspec f = Some ms ->
                     exists v, forall o, In o (fouts f) -> dict_get shapes o = Some v.

  (* where an entry of the list given to the dict comprehension comes from *)
  Definition entry_origin (k : okey) (v : list nat * list bool) : Prop :=
    (exists n, k = KName n /\ In n (map fst inputs))
    \/ (exists f ms, In f funcs /\ fspec f = Some ms /\ (forall o, In o (fouts f) -> dict_get shapes o = Some v)
                    /\ ((exists o, k = KName o /\ In o (fouts f)) \/ (k = KTup (fouts f) /\ 2 <= length (fouts f)))).

  Lemma entries_origin per : mapM (shape_entries shapes) funcs = Ok per ->
    forall k v, In (k, v) (root_entries funcs inputs ++ concat per) -> entry_origin k v.
  Proof.
    intros Hper k v Hin. apply in_app_or in Hin as [Hin|Hin].
    - left. unfold root_entries in Hin. apply in_flat_map in Hin as [[n x] [Hnx Hin]]. cbn [fst snd] in Hin.
      destruct x as [y|a]; [contradiction|]. destruct (mem_str n (mapspec_names funcs)); [|contradiction].
      destruct Hin as [[= <- <-]|[]]. exists n. split; [reflexivity|]. apply (in_map fst) in Hnx. exact Hnx.
    - right. apply in_concat in Hin as [es [Hes Hin]].
      destruct (mapM_result_in _ _ _ _ Hper Hes) as [f [Hf He]].
      unfold shape_entries in He. destruct (fspec f) as [ms|] eqn:Ems; [|injection He as <-; contradiction].
      destruct (Hsh f ms Hf Ems) as [v0 Hv0].
      destruct (fouts f) as [|o [|o' t]] eqn:Eo; [discriminate| |].
      + rewrite (Hv0 o) in He by (now left). cbn [get_or bind] in He. injection He as <-.
        destruct Hin as [[= <- <-]|[]]. exists f, ms. repeat split; auto.
        * rewrite Eo. exact Hv0.
        * left. exists o. split; [reflexivity|]. rewrite Eo. now left.
      + rewrite (Hv0 o) in He by (now left). cbn [get_or bind] in He. injection He as <-.
        exists f, ms. split; [exact Hf|]. split; [exact Ems|].
        destruct Hin as [[= <- <-]|Hin].
        * split; [rewrite Eo; exact Hv0|]. right. rewrite Eo. split; [reflexivity|cbn; lia].
        * change (In (k, v) (map (fun o2 : str => (KName o2, v0)) (o :: o' :: t))) in Hin.
          apply in_map_iff in Hin as [o2 [[= <- <-] Ho2]]. split; [rewrite Eo; exact Hv0|].
          left. exists o2. split; [reflexivity|]. rewrite Eo. exact Ho2.
  Qed.

  Lemma entries_have_key per f ms v : mapM (shape_entries shapes) funcs = Ok per ->
    In f funcs -> fspec f = Some ms -> (forall o, In o (fouts f) -> dict_get shapes o = Some v) ->
    In (output_key_of f, v) (root_entries funcs inputs ++ concat per).
  Proof.
    intros Hper Hf Hms Hv. apply in_or_app. right.
    destruct (mapM_inv_in _ _ _ f Hper Hf) as [es [He Hes]].
    apply in_concat. exists es. split; [exact Hes|].
    unfold shape_entries in He. rewrite Hms in He. unfold output_key_of.
    destruct (fouts f) as [|o [|o' t]] eqn:Eo; [discriminate| |].
    - rewrite (Hv o) in He by (now left). cbn [get_or bind] in He. injection He as <-. now left.
    - rewrite (Hv o) in He by (now left). cbn [get_or bind] in He. injection He as <-. now left.
  Qed.

  Lemma origin_same_key f ms v k v' :
    In f funcs -> fspec f = Some ms -> fouts f <> [] -> (forall o, In o (fouts f) -> dict_get shapes o = Some v) ->
    entry_origin k v' -> k = output_key_of f -> v' = v.
  Proof.
    intros Hf Hms Hne Hv Horig ->.
    assert (Hnd1 : NoDup (flat_map fouts funcs)) by (now apply NoDup_app_left in Hnd).
    destruct Horig as [[n [Hk Hn]]|[g [ms' [Hg [Hms' [Hv' Hk]]]]]].
    - exfalso. unfold output_key_of in Hk. destruct (fouts f) as [|o [|o' t]] eqn:Eo; try discriminate.
      injection Hk as ->. apply (NoDup_app_disjoint _ _ n Hnd); [|exact Hn].
      apply in_flat_map. exists f. split; [exact Hf|]. rewrite Eo. now left.
    - assert (exists o, In o (fouts f) /\ In o (fouts g)) as [o [Hof Hog]].
      { unfold output_key_of in Hk. destruct (fouts f) as [|o [|o' t]] eqn:Eo; [contradiction| |].
        - destruct Hk as [[o2 [[= <-] Ho2]]|[Hk _]]; [|discriminate]. exists o. split; [now left|exact Ho2].
        - destruct Hk as [[o2 [Hk _]]|[[= Hk] _]]; [discriminate|]. exists o. split; [now left|]. rewrite <- Hk. now left. }
      assert (f = g) by (apply (flat_map_nodup_inj fouts funcs f g o); auto). subst g.
      specialize (Hv o Hof). specialize (Hv' o Hof). congruence.
  Qed.

  Lemma create_shapes_get f ms v :
    In f funcs -> fspec f = Some ms -> fouts f <> [] -> (forall o, In o (fouts f) -> dict_get shapes o = Some v) ->
    odict_get sm (output_key_of f) = Some v.
  Proof.
    intros Hf Hms Hne Hv. rewrite create_shapes_unfold in Hcs.
    destruct (mapM (shape_entries shapes) funcs) as [per|] eqn:Hper; [|discriminate]. cbn [bind] in Hcs. injection Hcs as <-.
    unfold from_pairs. apply fold_set_get.
    - intros v' Hin. eapply (origin_same_key f ms v); eauto. eapply entries_origin; eauto.
    - right. split; [reflexivity|]. exists v. eapply entries_have_key; eauto.
  Qed.

  Lemma create_shapes_keys k : In k (map fst sm) -> exists v, entry_origin k v.
  Proof.
    rewrite create_shapes_unfold in Hcs.
    destruct (mapM (shape_entries shapes) funcs) as [per|] eqn:Hper; [|discriminate]. cbn [bind] in Hcs. injection Hcs as <-.
    intros Hk. unfold from_pairs in Hk. apply fold_set_keys in Hk as [[]|Hk].
    apply in_map_iff in Hk as [[k' v] [<- Hin]]. exists v. eapply entries_origin; eauto.
  Qed.

  Lemma create_shapes_nodup : NoDup (map fst sm).
  Proof.
    rewrite create_shapes_unfold in Hcs.
    destruct (mapM (shape_entries shapes) funcs) as [per|]; [|discriminate]. cbn [bind] in Hcs. injection Hcs as <-.
    apply fold_set_nodup. constructor.
  Qed.
End CreateShapes.

(* ================================================================================================= *)
(* 5. the recorded RunInfo is well-formed                                                             *)

Lemma wf_keys_from_nodup {V} (d : list (okey * V)) :
  (forall k, In k (map fst d) -> wf_okey k = true) -> NoDup (map fst d) -> wf_keys d = true.
Proof.
  intros Hwf Hnd. apply wf_keys_spec. split.
  - intros kv Hkv. apply Hwf. now apply in_map.
  - rewrite <- (map_map fst tuple_to_str). apply NoDup_map_inj_in; [|exact Hnd].
    intros a b Ha Hb E. apply tuple_to_str_inj; auto.
Qed.

Lemma map_fst_map_snd {K V W} (g : V -> W) (d : list (K * V)) : map fst (map (fun kv => (fst kv, g (snd kv))) d) = map fst d.
Proof. rewrite map_map. apply map_ext. reflexivity. Qed.

Lemma fold_left_map_arg' {A B C} (f : A -> C -> A) (h : B -> C) l : forall a,
  fold_left (fun acc x => f acc (h x)) l a = fold_left f (map h l) a.
Proof. induction l as [|x l IH]; intros a; cbn; [reflexivity|apply IH]. Qed.

Lemma fold_norm_wf (F : okey -> okey) (d : list (okey * str)) :
  (forall kv, In kv d -> wf_okey (F (fst kv)) = true) ->
  wf_keys (fold_left (fun acc kv => odict_set acc (F (fst kv)) (snd kv)) d []) = true.
Proof.
  intros H.
  assert (E : fold_left (fun acc kv => odict_set acc (F (fst kv)) (snd kv)) d []
              = from_pairs (map (fun kv : okey * str => (F (fst kv), snd kv)) d)).
  { unfold from_pairs. rewrite <- (fold_left_map_arg' (fun acc kv => odict_set acc (fst kv) (snd kv))
                                     (fun kv : okey * str => (F (fst kv), snd kv))). reflexivity. }
  rewrite E. apply wf_keys_from_nodup.
  - intros k Hk. unfold from_pairs in Hk. apply fold_set_keys in Hk as [[]|Hk].
    rewrite map_map in Hk. cbn [fst] in Hk. apply in_map_iff in Hk as [kv [<- Hin]]. now apply H.
  - unfold from_pairs. apply fold_set_nodup. constructor.
Qed.

Lemma normalize_storage_wf st : storage_keys_ok st = true ->
  match normalize_storage st with StUni _ => true | StDict d => wf_keys d end = true.
Proof.
  destruct st as [n|d]; [reflexivity|]. unfold storage_keys_ok, normalize_storage. intros Hok.
  apply (fold_norm_wf (fun k => match k with KName n => KName n | KTup [] => KTup [] | KTup [x] => KName x
                                | KTup (x :: s0 :: l1) => KTup (x :: s0 :: l1) end)).
  intros [k0 v0] Hin. rewrite forallb_forall in Hok. specialize (Hok _ Hin). cbn [fst] in *.
  destruct k0 as [n|l]; [exact Hok|]. apply andb_true_iff in Hok as [Hlen Hall].
  destruct l as [|x [|y t]]; [discriminate| |].
  - cbn [wf_okey]. cbn in Hall. now apply andb_true_iff in Hall as [Hall _].
  - cbn [wf_okey length]. now rewrite Hall.
Qed.

Lemma construct_internal_nodup user func_int funcs d :
  NoDup (map fst user) -> construct_internal user func_int funcs = Some d -> NoDup (map fst d).
Proof.
  intros Hu. unfold construct_internal.
  set (step := fun (d : list (str * ishape)) f => _).
  assert (G : forall fs d0, NoDup (map fst d0) -> NoDup (map fst (fold_left step fs d0))).
  { induction fs as [|f fs IH]; intros d0 H0; cbn [fold_left]; [exact H0|]. apply IH. unfold step.
    destruct (match fouts f with [o] => match dict_get d0 o with Some _ => true | None => false end | _ => false end);
      [exact H0|].
    destruct (fint f) as [|i0 it]; [exact H0|].
    generalize (ishape_of (mem_str (fname f) func_int) (i0 :: it)). intros v. revert d0 H0.
    induction (fouts f) as [|o os IHo]; intros d0 H0; cbn [fold_left]; [exact H0|].
    apply IHo. now apply dict_set_keys_nodup. }
  specialize (G funcs user Hu). destruct (fold_left step funcs user) as [|p l]; [discriminate|]. now intros [= <-].
Qed.

(* ================================================================================================= *)
(* 6. a valid request's run passes the consistency check                                              *)

Lemma skind_eqb_refl k : skind_eqb k k = true.
Proof. destruct k; reflexivity. Qed.

Lemma is_mapped_spec f : is_mapped f = true <-> exists ms, fspec f = Some ms /\ ins ms <> [].
Proof.
  unfold is_mapped. destruct (fspec f) as [ms|].
  - destruct (ins ms) eqn:E; split; try discriminate.
    + intros [ms' [[= <-] H]]. congruence.
    + intros _. exists ms. split; [reflexivity|]. rewrite E. discriminate.
    + reflexivity.
  - split; [discriminate|]. intros [ms [H _]]. discriminate.
Qed.

Section Assemble.
  Variable c : case.
  Variable f : finished.
  Hypothesis Hfin : finish false c = Ok f.
  Hypothesis Hvalid : valid_request c = true.

  Let funcs := c_funcs c.
  Let storage := normalize_storage (c_storage c).

  Lemma valid_parts :
    (forall g, In g funcs -> func_ok g = true)
    /\ NoDup (flat_map fouts funcs ++ map fst (c_inputs c))
    /\ (forall n, In n (flat_map fouts funcs ++ map fst (c_inputs c)) -> name_ok n = true)
    /\ (forall g ms, In g funcs -> fspec g = Some ms -> printable ms = true)
    /\ NoDup (map fst (c_internal c))
    /\ storage_keys_ok (c_storage c) = true.
  Proof.
    unfold valid_request in Hvalid. do 4 (apply andb_true_iff in Hvalid as [Hvalid ?]).
    unfold request_ok in Hvalid. do 2 (apply andb_true_iff in Hvalid as [Hvalid ?]).
    repeat split; try assumption.
    - intros g Hg. rewrite forallb_forall in Hvalid. now apply Hvalid.
    - now apply nodup_str_NoDup.
    - match goal with H : forallb name_ok _ = true |- _ => rewrite forallb_forall in H; exact H end.
    - intros g ms Hg Hms.
      match goal with H : forallb (fun f => match fspec f with Some ms => printable ms | None => true end) _ = true |- _ =>
        rewrite forallb_forall in H; specialize (H g Hg); now rewrite Hms in H end.
    - now apply nodup_str_NoDup.
  Qed.

  Lemma func_ok_parts g ms : func_ok g = true -> fspec g = Some ms ->
    wf_decl ms = true /\ map aname (outs ms) = fouts g.
  Proof.
    unfold func_ok. intros H Hms. rewrite Hms in H.
    apply andb_true_iff in H as [_ H]. do 4 (apply andb_true_iff in H as [H _]).
    apply andb_true_iff in H as [Hw Hl].
    split; [exact Hw|]. now apply (list_eqb_eq str_eqb str_eqb_eq).
  Qed.

  Theorem finished_consistent_holds : finished_consistent c f = true.
  Proof.
    destruct valid_parts as [Hfok [Hnd [Hnames [Hprint [Hint Hstk]]]]].
    assert (Hnd1 : NoDup (flat_map fouts funcs)) by (now apply NoDup_app_left in Hnd).
    unfold finish in Hfin. fold funcs in Hfin.
    destruct (map_run sym_body funcs (c_inputs c) (c_internal c)) as [st|] eqn:Hrun; [|discriminate]. cbn [bind] in Hfin.
    destruct (create_run_info _ _ _ _ _ _ _ _) as [ri|] eqn:Hri; [|discriminate]. cbn [bind] in Hfin.
    fold storage in Hfin.
    destruct (outs_of_run funcs storage st) as [outs|] eqn:Houts; [|discriminate]. cbn [bind] in Hfin.
    destruct (world_of _ _ _ _ _ _ _) as [w|]; [|discriminate]. cbn [bind] in Hfin. injection Hfin as <-.
    unfold finished_consistent. cbn [f_info f_outs].
    pose proof (map_run_inv sym_body (c_internal c) funcs (c_inputs c) st Hrun Hnd1) as [Hin Hish Himap].
    unfold create_run_info in Hri. fold funcs in Hri.
    destruct (create_shapes funcs (c_inputs c) (r_shapes st)) as [sm|] eqn:Hcs; [|discriminate]. cbn [bind] in Hri.
    injection Hri as <-.
    (* shapes recorded by the run, as needed by Section CreateShapes *)
    assert (Hsh : forall g ms, In g funcs -> fspec g = Some ms ->
                    exists v, forall o, In o (fouts g) -> dict_get (r_shapes st) o = Some v).
    { intros g ms Hg Hms. destruct (Hish g ms Hg Hms) as [v [_ Hv]]. eauto. }
    assert (Hne : forall g ms, In g funcs -> fspec g = Some ms -> fouts g <> []).
    { intros g ms Hg Hms E. rewrite create_shapes_unfold in Hcs.
      destruct (mapM (shape_entries (r_shapes st)) funcs) as [per|] eqn:Hper; [|discriminate].
      destruct (mapM_inv_in _ _ _ g Hper Hg) as [es [He _]]. unfold shape_entries in He. rewrite Hms, E in He. discriminate. }
    (* keys of the recorded shapes are well-formed *)
    assert (Hkeys : forall k, In k (map fst sm) -> wf_okey k = true).
    { intros k Hk. destruct (create_shapes_keys funcs (c_inputs c) (r_shapes st) sm Hcs Hsh k Hk) as [v Ho].
      destruct Ho as [[n [-> Hn]]|[g [ms [Hg [Hms [_ [[o [-> Ho]]|[-> Hlen]]]]]]]].
      - cbn [wf_okey]. specialize (Hnames n (in_or_app _ _ _ (or_intror Hn))). unfold name_ok in Hnames.
        now apply andb_true_iff in Hnames as [Hnames _].
      - cbn [wf_okey]. assert (Hno : In o (flat_map fouts funcs)) by (apply in_flat_map; eauto).
        specialize (Hnames o (in_or_app _ _ _ (or_introl Hno))). unfold name_ok in Hnames.
        now apply andb_true_iff in Hnames as [Hnames _].
      - cbn [wf_okey]. apply andb_true_iff. split; [now apply Nat.leb_le|].
        apply forallb_forall. intros o Ho. assert (Hno : In o (flat_map fouts funcs)) by (apply in_flat_map; eauto).
        specialize (Hnames o (in_or_app _ _ _ (or_introl Hno))). unfold name_ok in Hnames.
        now apply andb_true_iff in Hnames as [Hnames _]. }
    pose proof (create_shapes_nodup funcs (c_inputs c) (r_shapes st) sm Hcs) as Hsmnd.
    unfold run_consistentb.
    cbn [ri_run_folder ri_input_names ri_mapspecs ri_all_output_names ri_shapes ri_shape_masks ri_storage].
    rewrite !andb_true_iff. repeat split.
    - (* wf_run_info *)
      unfold wf_run_info.
      cbn [ri_all_output_names ri_shapes ri_shape_masks ri_storage ri_internal_shapes ri_input_names].
      rewrite !andb_true_iff. repeat split.
      + apply sort_set_sorted_strict.
      + apply wf_keys_from_nodup; rewrite map_fst_map_snd; assumption.
      + apply wf_keys_from_nodup; rewrite map_fst_map_snd; assumption.
      + now apply normalize_storage_wf.
      + destruct (construct_internal (user_internal c) (c_func_int c) funcs) as [d|] eqn:Ed; [|reflexivity].
        apply nodup_str_list_NoDup. apply (construct_internal_nodup _ _ _ _ (fun H => H) Ed) || idtac.
        eapply construct_internal_nodup; [|exact Ed]. unfold user_internal. rewrite map_map. exact Hint.
      + apply nodup_str_list_NoDup. now apply NoDup_app_right in Hnd.
    - apply (list_eqb_eq str_eqb str_eqb_eq). rewrite map_map. reflexivity.
    - apply forallb_forall. intros n Hn. specialize (Hnames n (in_or_app _ _ _ (or_intror Hn))). unfold name_ok in Hnames.
      now apply andb_true_iff in Hnames as [_ Hnames].
    - apply nodup_str_list_NoDup. now rewrite (outs_names _ _ _ _ Houts).
    - (* every recorded MapSpec string *)
      apply forallb_forall. intros x Hx. apply in_flat_map in Hx as [g [Hg Hx]].
      destruct (fspec g) as [ms|] eqn:Hms; [|contradiction]. destruct Hx as [<-|[]].
      destruct (func_ok_parts g ms (Hfok g Hg) Hms) as [Hwf Houtsn].
      unfold spec_consistentb. rewrite (parse_print ms Hwf (Hprint g ms Hg Hms)). cbv zeta. rewrite Houtsn.
      destruct (Hish g ms Hg Hms) as [v [Hlen Hv]].
      pose proof (create_shapes_get funcs (c_inputs c) (r_shapes st) sm Hcs Hnd Hsh g ms v Hg Hms (Hne g ms Hg Hms) Hv) as Hget.
      assert (Hnm : name_mapping_get (map (fun kv : okey * (list nat * list bool) => (fst kv, fst (snd kv))) sm) (fouts g)
                    = Some (output_key_of g)).
      { apply name_mapping_get_unique.
        - rewrite map_fst_map_snd. eapply odict_get_in; eauto.
        - apply output_key_at_least. eapply Hne; eauto.
        - rewrite map_fst_map_snd. intros k Hk Hat.
          destruct (create_shapes_keys funcs (c_inputs c) (r_shapes st) sm Hcs Hsh k Hk) as [v' Ho].
          unfold output_key_of.
          destruct Ho as [[n [-> _]]|[g' [ms' [_ [_ [_ [[o [-> _]]|[-> Hl]]]]]]]]; cbn [at_least_tuple] in Hat.
          + now rewrite <- Hat.
          + now rewrite <- Hat.
          + rewrite <- Hat. destruct (fouts g') as [|a [|b t]]; cbn in Hl; try lia. reflexivity. }
      cbn [ri_shapes ri_shape_masks ri_storage]. rewrite Hnm.
      destruct (ins ms) as [|i0 irest] eqn:Eins; [reflexivity|].
      assert (Hmap : is_mapped g = true) by (apply is_mapped_spec; exists ms; split; [exact Hms|rewrite Eins; discriminate]).
      rewrite !odict_get_map, Hget. cbn [option_map].
      (* the storage class, from the first output *)
      assert (exists o0, In o0 (fouts g)) as [o0 Ho0].
      { destruct (fouts g) as [|o0 t] eqn:Eo; [exfalso; eapply Hne; eauto|]. exists o0. now left. }
      destruct (outs_fwd funcs storage st outs g o0 Houts Hg Ho0) as [d0 [Hd0 _]].
      assert (exists kind, storage_class storage (output_key_of g) = Ok kind) as [kind Hkind].
      { unfold desc_of in Hd0. destruct (find _ _) as [[[? ?] stored]|]; [|discriminate]. rewrite Hmap in Hd0.
        destruct stored; [discriminate|]. destruct (dict_get _ o0); [|discriminate]. cbn [get_or bind] in Hd0.
        destruct (storage_class storage (output_key_of g)) as [k|]; [eauto|discriminate]. }
      fold storage. rewrite Hkind.
      apply andb_true_iff. split.
      + apply (list_eqb_eq str_eqb str_eqb_eq). apply output_key_at_least. eapply Hne; eauto.
      + apply forallb_forall. intros o Ho.
        destruct (outs_fwd funcs storage st outs g o Houts Hg Ho) as [d [Hd Hdin]].
        apply existsb_exists. exists d. split; [exact Hdin|].
        unfold desc_of in Hd. destruct (find _ (r_out st)) as [[[o' ret] stored]|] eqn:Ef; [|discriminate].
        rewrite Hmap in Hd. destruct stored as [?|a]; [discriminate|].
        rewrite (Hv o Ho) in Hd. cbn [get_or bind] in Hd. rewrite Hkind in Hd. cbn [bind] in Hd. injection Hd as <-.
        apply find_some in Ef as [Hxin Hxn]. cbn [fst] in Hxn. apply str_eqb_eq in Hxn. subst o'.
        destruct (Himap (o, ret, VA a) g Hxin Hg Hmap Ho) as [a' [sm' [Ha' [Hsm' [Hshp Hwfa]]]]].
        cbn [snd] in Ha'. injection Ha' as <-. unfold out_name in Hsm'. cbn [fst] in Hsm'.
        rewrite (Hv o Ho) in Hsm'. injection Hsm' as <-.
        rewrite str_eqb_refl, skind_eqb_refl, Hwfa. cbn [andb].
        assert (E1 : list_eqb Bool.eqb (snd v) (snd v) = true).
        { apply (list_eqb_eq Bool.eqb); [intros; apply Bool.eqb_true_iff|reflexivity]. }
        assert (E2 : list_eqb Nat.eqb (shp a) (fst v) = true) by (apply (list_eqb_eq Nat.eqb Nat.eqb_eq); exact Hshp).
        rewrite E1, E2. cbn [andb]. apply Nat.eqb_eq. now symmetry.
    - (* every output *)
      apply forallb_forall. intros d Hd.
      destruct (outs_inv funcs storage st outs d Houts Hd) as [g [o [Hg [Ho Hdo]]]].
      assert (Hmo : forall g' ms', In g' funcs -> fspec g' = Some ms' -> ins ms' <> [] ->
                      mapped_outs (print ms') = fouts g').
      { intros g' ms' Hg' Hms' Hi. destruct (func_ok_parts g' ms' (Hfok g' Hg') Hms') as [Hwf Hon].
        unfold mapped_outs. rewrite (parse_print ms' Hwf (Hprint g' ms' Hg' Hms')).
        destruct (ins ms'); [contradiction|exact Hon]. }
      unfold desc_of in Hdo. destruct (find _ (r_out st)) as [[[o' ret] stored]|] eqn:Ef; [|discriminate].
      destruct (is_mapped g) eqn:Hmap.
      + destruct stored as [?|a]; [discriminate|].
        destruct (dict_get (r_shapes st) o) as [smo|] eqn:Es; [|discriminate]. cbn [get_or bind] in Hdo.
        destruct (storage_class storage (output_key_of g)) as [k|]; [|discriminate]. cbn [bind] in Hdo. injection Hdo as <-.
        apply is_mapped_spec in Hmap as Hm2. destruct Hm2 as [ms [Hms Hi]].
        apply find_some in Ef as [Hxin Hxn]. cbn [fst] in Hxn. apply str_eqb_eq in Hxn. subst o'.
        destruct (Himap (o, ret, VA a) g Hxin Hg Hmap Ho) as [a' [sm' [Ha' [Hsm' [Hshp Hwfa]]]]].
        cbn [snd] in Ha'. injection Ha' as <-. unfold out_name in Hsm'. cbn [fst] in Hsm'. rewrite Es in Hsm'. injection Hsm' as <-.
        destruct (Hish g ms Hg Hms) as [v [Hlen Hv]]. rewrite (Hv o Ho) in Es. injection Es as <-.
        cbn [desc_consistentb ri_mapspecs]. rewrite Hwfa.
        apply andb_true_iff. split; [apply andb_true_iff; split; [|reflexivity]|].
        * apply mem_str_In. apply in_flat_map. exists (print ms). split.
          -- apply in_flat_map. exists g. split; [exact Hg|]. rewrite Hms. now left.
          -- rewrite (Hmo g ms Hg Hms Hi). exact Ho.
        * apply Nat.eqb_eq. rewrite Hshp. now symmetry.
      + injection Hdo as <-. cbn [desc_consistentb ri_mapspecs ri_all_output_names].
        apply andb_true_iff. split.
        * apply mem_str_In. apply sort_set_in. apply in_flat_map. eauto.
        * apply negb_true_iff. apply mem_str_false. intros Hc.
          apply in_flat_map in Hc as [x [Hx Hox]]. apply in_flat_map in Hx as [g' [Hg' Hx]].
          destruct (fspec g') as [ms'|] eqn:Hms'; [|contradiction]. destruct Hx as [<-|[]].
          destruct (ins ms') as [|i0 ir] eqn:Ei.
          -- destruct (func_ok_parts g' ms' (Hfok g' Hg') Hms') as [Hwf Hon].
             unfold mapped_outs in Hox. rewrite (parse_print ms' Hwf (Hprint g' ms' Hg' Hms')), Ei in Hox. contradiction.
          -- rewrite (Hmo g' ms' Hg' Hms') in Hox by (rewrite Ei; discriminate).
             assert (g = g') by (apply (flat_map_nodup_inj fouts funcs g g' o); auto). subst g'.
             assert (is_mapped g = true) by (apply is_mapped_spec; exists ms'; split; [exact Hms'|rewrite Ei; discriminate]).
             congruence.
  Qed.
End Assemble.

(* ================================================================================================= *)
(* 7. the statements of Props/C04.v for valid requests                                                *)

Lemma reload_eq_results_full : forall c f live fn o,
  finish false c = Ok f -> valid_request c = true ->
  In fn (c_funcs c) -> In o (fouts fn) -> kind_persists c fn = true ->
  let w := {| w_root := root_name; w_files := w_files (f_world f); w_live := live |} in
  exists o' returned stored,
    find (fun x => str_eqb (fst (fst x)) o) (r_out (f_state f)) = Some (o', returned, stored)
    /\ load_outputs version_name w o = Ok (Some (PVal stored), w).
Proof.
  intros c f live fn o Hfin Hv. exact (reload_eq_results_stmt c f live fn o Hfin (finished_consistent_holds c f Hfin Hv)).
Qed.

Lemma reload_fresh_full : forall c f fn o,
  finish false c = Ok f -> valid_request c = true ->
  In fn (c_funcs c) -> In o (fouts fn) -> kind_persists c fn = true ->
  exists o' returned stored,
    find (fun x => str_eqb (fst (fst x)) o) (r_out (f_state f)) = Some (o', returned, stored)
    /\ load_outputs version_name (reopen (f_world f)) o = Ok (Some (PVal stored), reopen (f_world f)).
Proof.
  intros c f fn o Hfin Hv. exact (reload_fresh_stmt c f fn o Hfin (finished_consistent_holds c f Hfin Hv)).
Qed.

Lemma reload_same_process_full : forall c f fn o,
  finish false c = Ok f -> valid_request c = true ->
  In fn (c_funcs c) -> In o (fouts fn) -> kind_persists c fn = true ->
  exists o' returned stored,
    find (fun x => str_eqb (fst (fst x)) o) (r_out (f_state f)) = Some (o', returned, stored)
    /\ load_outputs version_name (f_world f) o = Ok (Some (PVal stored), f_world f).
Proof.
  intros c f fn o Hfin Hv. exact (reload_same_process_stmt c f fn o Hfin (finished_consistent_holds c f Hfin Hv)).
Qed.

Lemma runinfo_reload_full : forall c f live,
  finish false c = Ok f -> valid_request c = true ->
  let w := {| w_root := root_name; w_files := w_files (f_world f); w_live := live |} in
  runinfo_load version_name w
  = Ok ({| li_info := f_info f;
           li_inputs := map (fun kv => (fst kv, PVal (snd kv))) (c_inputs c);
           li_defaults := PEnv (pipeline_defaults (c_funcs c)) |}, w).
Proof.
  intros c f live Hfin Hv. exact (runinfo_reload_stmt c f live Hfin (finished_consistent_holds c f Hfin Hv)).
Qed.

Lemma reload_idempotent_full : forall c f live fn o,
  finish false c = Ok f -> valid_request c = true -> In fn (c_funcs c) -> In o (fouts fn) ->
  let w := {| w_root := root_name; w_files := w_files (f_world f); w_live := live |} in
  exists v w', load_outputs version_name w o = Ok (v, w') /\ w' = w /\ load_outputs version_name w' o = Ok (v, w').
Proof.
  intros c f live fn o Hfin Hv. exact (reload_idempotent_stmt c f live fn o Hfin (finished_consistent_holds c f Hfin Hv)).
Qed.

(* the recorded RunInfo of a valid request's run round-trips through the JSON codec *)
Lemma run_info_of_run_wf : forall c f, finish false c = Ok f -> valid_request c = true -> wf_run_info (f_info f) = true.
Proof.
  intros c f Hfin Hv. pose proof (finished_consistent_holds c f Hfin Hv) as H.
  unfold finished_consistent, run_consistentb in H. do 6 (apply andb_true_iff in H as [H _]). exact H.
Qed.

(* with C01 (Proofs/MapRunFacts.v map_run_denotes): what reloads is the denotation of the request *)
Lemma find_map_fst {A B} (g : A -> str * B) (h : A -> str) (l : list A) o :
  (forall x, fst (g x) = h x) ->
  find (fun y => str_eqb (fst y) o) (map g l) = option_map g (find (fun x => str_eqb (h x) o) l).
Proof.
  intros Hg. induction l as [|x l IH]; [reflexivity|]. cbn [map find]. rewrite Hg.
  destruct (str_eqb (h x) o); [reflexivity|exact IH].
Qed.

Lemma reload_eq_denotation : forall c f d live fn o,
  finish false c = Ok f -> valid_request c = true ->
  denote_run sym_body (c_funcs c) (c_inputs c) (c_internal c) = Ok d ->
  In fn (c_funcs c) -> In o (fouts fn) -> kind_persists c fn = true ->
  let w := {| w_root := root_name; w_files := w_files (f_world f); w_live := live |} in
  exists o' v, find (fun y => str_eqb (fst y) o) (d_out d) = Some (o', v)
               /\ load_outputs version_name w o = Ok (Some (PVal v), w).
Proof.
  intros c f d live fn o Hfin Hv Hden Hfn Ho Hk w.
  destruct (reload_eq_results_full c f live fn o Hfin Hv Hfn Ho Hk) as [o' [ret [stored [Hfind Hload]]]].
  exists o', stored. split; [|exact Hload].
  assert (Hreq : request_ok (c_funcs c) (c_inputs c) = true).
  { unfold valid_request in Hv. do 4 (apply andb_true_iff in Hv as [Hv _]). exact Hv. }
  destruct (map_run_denotes sym_body sym_body_arity (c_internal c) (c_funcs c) (c_inputs c) d Hreq Hden) as [st [Hrun [_ Hsto]]].
  assert (Est : f_state f = st).
  { unfold finish in Hfin. rewrite Hrun in Hfin. cbn [bind] in Hfin.
    destruct (create_run_info _ _ _ _ _ _ _ _); [|discriminate]. cbn [bind] in Hfin.
    destruct (outs_of_run _ _ _); [|discriminate]. cbn [bind] in Hfin.
    destruct (world_of _ _ _ _ _ _ _); [|discriminate]. cbn [bind] in Hfin. now injection Hfin as <-. }
  rewrite Est in Hfind. rewrite <- Hsto.
  rewrite (find_map_fst (fun x : str * val * val => (fst (fst x), snd x)) (fun x => fst (fst x))) by reflexivity.
  now rewrite Hfind.
Qed.
