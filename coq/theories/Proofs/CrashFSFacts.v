(* Proofs about Model/CrashFS.v (C05): with the repaired write protocol no crash point exposes a partially
   written file under a real (non-temporary) name; a resumed run recomputes no stored element. *)
From Verif Require Import Base.Prelude Base.StrUtil Base.Index Base.NdArr Base.PyRange Base.StrSeq
  Model.MapSpec Model.MapSpecSpec Model.MapRun Model.SymBody
  Proofs.IndexFacts Proofs.StrFacts Proofs.MapSpecFacts.
From Verif Require Import Model.MapResume Model.FixedSpec Proofs.MapResumeFacts Model.CrashFS.

(* ------------------------------------------------------------------ dictionaries *)
Lemma dict_get_set {V} (d : list (str * V)) k v k' :
  dict_get (dict_set d k v) k' = if str_eqb k' k then Some v else dict_get d k'.
Proof.
  destruct (str_eqb k' k) eqn:E.
  - apply str_eqb_eq in E. subst. apply dict_get_set_same.
  - apply dict_get_set_other. intros ->. now rewrite str_eqb_refl in E.
Qed.

Lemma dict_get_remove {V} (d : list (str * V)) k k' :
  dict_get (remove_key d k) k' = if str_eqb k' k then None else dict_get d k'.
Proof.
  induction d as [|[k2 v2] d IH]; cbn.
  - now destruct (str_eqb k' k).
  - destruct (str_eqb k k2) eqn:E.
    + rewrite IH. apply str_eqb_eq in E. subst k2. now destruct (str_eqb k' k).
    + cbn. rewrite IH. destruct (str_eqb k' k2) eqn:E2; [|reflexivity].
      apply str_eqb_eq in E2. subst k2. rewrite str_eqb_sym, E. reflexivity.
Qed.

(* ------------------------------------------------------------------ no partial file under a real name *)
Definition safe_fs (s0 : fs) : Prop :=
  forall p, is_tmp p = false -> dict_get (files s0) p <> Some Partial.

(* every prefix of l keeps the file system safe *)
Definition pres (l : list event) : Prop :=
  forall s0, safe_fs s0 -> forall k, safe_fs (apply_evs s0 (firstn k l)).

Lemma apply_evs_app s0 a b : apply_evs s0 (a ++ b) = apply_evs (apply_evs s0 a) b.
Proof. unfold apply_evs. apply fold_left_app. Qed.

Lemma pres_nil : pres [].
Proof. intros s0 H k. now rewrite firstn_nil. Qed.

Lemma pres_app a b : pres a -> pres b -> pres (a ++ b).
Proof.
  intros Ha Hb s0 Hs k. rewrite firstn_app, apply_evs_app.
  apply Hb. apply Ha. exact Hs.
Qed.

Lemma pres_whole l s0 : pres l -> safe_fs s0 -> safe_fs (apply_evs s0 l).
Proof. intros Hl Hs. specialize (Hl s0 Hs (length l)). now rewrite firstn_all in Hl. Qed.

Lemma pres_single e : (forall s0, safe_fs s0 -> safe_fs (apply_ev s0 e)) -> pres [e].
Proof. intros H s0 Hs [|k]; cbn; [exact Hs|]. rewrite firstn_nil. cbn. now apply H. Qed.

Lemma safe_empty : safe_fs empty_fs.
Proof. intros p _. cbn. discriminate. Qed.

Lemma pres_mkdir p : pres [Mkdir p].
Proof. apply pres_single. intros s0 Hs q Hq. cbn. now apply Hs. Qed.
Lemma pres_call l : pres [Call l].
Proof. apply pres_single. intros s0 Hs. exact Hs. Qed.
Lemma pres_rmtree p : pres [Rmtree p].
Proof. apply pres_single. intros s0 Hs. apply safe_empty. Qed.

Lemma is_tmp_p_tmp p : is_tmp (p_tmp p) = true.
Proof. reflexivity. Qed.

(* the atomic write block *)
Lemma pres_write_new p c : is_tmp p = false -> pres (write_events NewCode p c).
Proof.
  intros Hp s0 Hs k. unfold write_events.
  assert (Hne : forall q, is_tmp q = false -> str_eqb q (p_tmp p) = false).
  { intros q Hq. apply Bool.not_true_is_false. intros E. apply str_eqb_eq in E. subst q.
    rewrite is_tmp_p_tmp in Hq. discriminate. }
  destruct k as [|[|[|[|k]]]]; cbn [firstn apply_evs fold_left apply_ev].
  - exact Hs.
  - intros q Hq. cbn [files]. rewrite dict_get_set, (Hne q Hq). now apply Hs.
  - intros q Hq. cbn [files]. rewrite !dict_get_set, (Hne q Hq). now apply Hs.
  - intros q Hq. cbn [files]. rewrite !dict_get_set, (Hne q Hq). now apply Hs.
  - rewrite firstn_nil. cbn [fold_left apply_ev files dirs].
    rewrite dict_get_set, str_eqb_refl.
    intros q Hq. cbn [files]. rewrite dict_get_set.
    destruct (str_eqb q p); [discriminate|].
    rewrite dict_get_remove, (Hne q Hq), !dict_get_set, (Hne q Hq). now apply Hs.
Qed.

(* event lists built from these blocks *)
Inductive good : list event -> Prop :=
| good_nil : good []
| good_app a b : good a -> good b -> good (a ++ b)
| good_mkdir p : good [Mkdir p]
| good_call l : good [Call l]
| good_rmtree p : good [Rmtree p]
| good_write p c : is_tmp p = false -> good (write_events NewCode p c).

Lemma good_pres l : good l -> pres l.
Proof.
  induction 1; [apply pres_nil | now apply pres_app | apply pres_mkdir | apply pres_call | apply pres_rmtree
                | now apply pres_write_new].
Qed.

(* transformers of the emission state that append a good list *)
Definition appends_good (x y : em) : Prop := exists l, y = emit x l /\ good l.

Lemma emit_emit x a b : emit (emit x a) b = emit x (a ++ b).
Proof. unfold emit. cbn. now rewrite apply_evs_app, app_assoc. Qed.
Lemma emit_nil x : emit x [] = x.
Proof. unfold emit. cbn. rewrite app_nil_r. now destruct x. Qed.

Lemma ag_refl x : appends_good x x.
Proof. exists []. split; [now rewrite emit_nil | constructor]. Qed.
Lemma ag_trans x y z : appends_good x y -> appends_good y z -> appends_good x z.
Proof.
  intros [a [-> Ga]] [b [-> Gb]]. exists (a ++ b). split; [apply emit_emit | now constructor].
Qed.
Lemma ag_emit x l : good l -> appends_good x (emit x l).
Proof. intros G. exists l. auto. Qed.

Lemma ag_fold {A} (F : em -> A -> em) (l : list A) : (forall x a, appends_good x (F x a)) ->
  forall x, appends_good x (fold_left F l x).
Proof.
  intros HF. induction l as [|a l IH]; intros x; cbn; [apply ag_refl|].
  eapply ag_trans; [apply HF | apply IH].
Qed.

Lemma ag_mkdir_p x chain : appends_good x (mkdir_p x chain).
Proof.
  unfold mkdir_p. apply ag_fold. intros y d. destruct (mem_str d (dirs (fst y))); [apply ag_refl|].
  apply ag_emit. constructor.
Qed.

Lemma ag_dump_file x chain p c : is_tmp p = false -> appends_good x (dump_file NewCode x chain p c).
Proof.
  intros Hp. unfold dump_file. eapply ag_trans; [apply ag_mkdir_p|]. apply ag_emit. now constructor.
Qed.

Lemma is_tmp_input n : is_tmp (p_input n) = false. Proof. reflexivity. Qed.
Lemma is_tmp_elem o i : is_tmp (p_elem o i) = false. Proof. reflexivity. Qed.
Lemma is_tmp_single o : is_tmp (p_single o) = false. Proof. reflexivity. Qed.
Lemma is_tmp_dict o : is_tmp (p_dict o) = false. Proof. reflexivity. Qed.

Lemma ag_write_run_info names x : appends_good x (write_run_info NewCode names x).
Proof.
  unfold write_run_info. eapply ag_trans; [|apply ag_dump_file; reflexivity].
  eapply ag_trans; [|apply ag_dump_file; reflexivity].
  apply ag_fold. intros y n. apply ag_dump_file. apply is_tmp_input.
Qed.

Lemma ag_action st x a : appends_good x (action_events NewCode st x a).
Proof.
  destruct a as [f i kw | o i v | o v]; cbn.
  - apply ag_emit. constructor.
  - destruct (in_memory st); [apply ag_refl | apply ag_dump_file, is_tmp_elem].
  - apply ag_dump_file, is_tmp_single.
Qed.

Lemma ag_persist st c rs x : appends_good x (persist_all NewCode st c rs x).
Proof.
  unfold persist_all. destruct (in_memory st); [|apply ag_refl]. destruct (mapped_outputs c); [|apply ag_refl].
  apply ag_fold. intros y on. apply ag_dump_file, is_tmp_dict.
Qed.

Lemma ag_gate names x y : gate NewCode names x = Ok y -> appends_good x y.
Proof.
  unfold gate. destruct (negb (is_file (fst x) p_info)); [intros H; injection H as <-; apply ag_refl|].
  destruct (_ && _); [|discriminate]. intros H.
  replace y with (write_run_info NewCode names x) by congruence. apply ag_write_run_info.
Qed.

Lemma init_step_err v st l e : fold_left (init_step v st) l (Err e) = Err e.
Proof. induction l as [|a l IH]; cbn; [reflexivity | exact IH]. Qed.

Lemma ag_init_fold st x l : forall x0 a0 r, appends_good x x0 ->
  fold_left (init_step NewCode st) l (Ok (x0, a0)) = Ok r -> appends_good x (fst r).
Proof.
  induction l as [|on l IH]; intros x0 a0 r Hx H; cbn [fold_left] in H; [injection H as <-; exact Hx|].
  unfold init_step at 2 in H. cbn [bind] in H. destruct (in_memory st).
  - destruct (load_dict NewCode (fst x0) (fst on) (snd on)) as [cells|e]; cbn [bind] in H.
    + eapply IH; [exact Hx | exact H].
    + rewrite init_step_err in H. discriminate.
  - eapply IH; [|exact H]. eapply ag_trans; [exact Hx | apply ag_mkdir_p].
Qed.

Lemma ag_init_store st c x y rs : init_store NewCode st c x = Ok (y, rs) -> appends_good x y.
Proof.
  unfold init_store. destruct (mapped_outputs c) as [mo|]; cbn [bind]; [|discriminate].
  destruct (fold_left (init_step NewCode st) mo (Ok (x, []))) as [[y0 arrs]|] eqn:E; cbn [bind]; [|discriminate].
  intros H. injection H as <- _. apply (ag_init_fold st x mo x [] (y0, arrs) (ag_refl x) E).
Qed.

(* two runs agree when both succeed with the same state or both fail (the tracked run post-processes what
   completed before a failure, so its failure trace is longer and a failing post-processing replaces the error) *)
Definition res_agree {A} (x y : res A) : Prop :=
  match x, y with
  | ROk a, ROk b => a = b
  | RErr _ _, RErr _ _ => True
  | _, _ => False
  end.

Lemma submit_fold_err body c (gen : list mfunc) e tr :
  fold_left (fun acc f => rdo pt <- acc; rdo r <- submit_func body c None (fst pt) f; ROk (fst r, snd pt ++ [snd r]))
            gen (RErr e tr) = RErr e tr.
Proof. induction gen as [|f l IH]; cbn; [reflexivity | exact IH]. Qed.

Lemma submit_gen_track_agree body c gen : forall ps ts,
  res_agree (submit_gen_track body c ps ts gen)
            (fold_left (fun acc f => rdo pt <- acc; rdo r <- submit_func body c None (fst pt) f;
                                     ROk (fst r, snd pt ++ [snd r])) gen (ROk (ps, ts))).
Proof.
  induction gen as [|f rest IH]; intros ps ts; cbn [submit_gen_track fold_left]; [reflexivity|].
  cbn [rbind fst snd]. destruct (submit_func body c None ps f) as [r|e tr]; cbn [rbind].
  - apply IH.
  - rewrite submit_fold_err. destruct (fold_left _ ts _); exact I.
Qed.

Lemma run_generation_track_agree body c ps gen :
  res_agree (fst (run_generation_track body c ps gen)) (run_generation body c None ps gen).
Proof.
  unfold run_generation_track, run_generation. pose proof (submit_gen_track_agree body c gen ps []) as H.
  destruct (submit_gen_track body c ps [] gen) as [r|e tr];
    destruct (fold_left _ gen (ROk (ps, []))) as [r'|e' tr']; cbn in H; try contradiction; cbn [fst rbind].
  - subst r'. destruct (fold_left _ (snd r) _); cbn; auto.
  - exact I.
Qed.

Lemma run_gens_track_fold body c gens : forall ps,
  res_agree (fst (run_gens_track body c gens ps))
            (fold_left (fun acc gen => rdo ps0 <- acc; run_generation body c None ps0 gen) gens (ROk ps)).
Proof.
  induction gens as [|gen rest IH]; intros ps; cbn [run_gens_track fold_left rbind]; [reflexivity|].
  pose proof (run_generation_track_agree body c ps gen) as H.
  destruct (run_generation_track body c ps gen) as [[ps'|e tr] b]; cbn [fst] in H;
    destruct (run_generation body c None ps gen) as [ps''|e' tr']; cbn in H; try contradiction.
  - subst ps''. apply IH.
  - rewrite rfold_err. destruct b; exact I.
Qed.

(* the tracked run is Model/MapResume.map_run_sel without a request: same result whenever it succeeds, and it fails
   exactly when map_run_sel fails *)
Lemma run_gens_track_is_map_run_sel body p inputs user rs shapes :
  all_shapes user inputs p = Ok shapes ->
  res_agree (fst (run_gens_track body {| x_p := p; x_inputs := inputs; x_shapes := shapes |} (generations p)
                                 {| p_store := rs; p_out := []; p_tr := [] |}))
            (map_run_sel body p inputs user None rs).
Proof.
  intros H. unfold map_run_sel. cbn [validate_fixed lift rbind]. rewrite H. cbn [rbind]. apply run_gens_track_fold.
Qed.

Section Safe.
  Variable body : mfunc -> env -> result (list val).

  (* the events of a run of the repaired code form a good list *)
  Theorem run_fs_good st p inputs user cleanup s0 :
    good (o_events (run_fs body NewCode st p inputs user cleanup s0)).
  Proof.
    unfold run_fs. destruct (all_shapes user inputs p) as [shapes|]; cbn [o_events]; [|constructor].
    set (c := {| x_p := p; x_inputs := inputs; x_shapes := shapes |}).
    assert (H1 : forall x1, (if cleanup then Ok (emit (s0, []) [Rmtree p_root]) else gate NewCode (map fst inputs) (s0, [])) = Ok x1 ->
                 appends_good (s0, []) x1).
    { destruct cleanup; intros x1 H; [injection H as <-; apply ag_emit; constructor | now apply ag_gate in H]. }
    destruct (if cleanup then _ else _) as [x1|]; cbn [o_events]; [|constructor].
    specialize (H1 x1 eq_refl).
    assert (H2 : appends_good (s0, []) (write_run_info NewCode (map fst inputs) x1)) by (eapply ag_trans; [exact H1 | apply ag_write_run_info]).
    destruct (init_store NewCode st c _) as [[x3 rs]|] eqn:Ei; cbn [o_events].
    - apply ag_init_store in Ei.
      assert (H3 : appends_good (s0, []) x3) by (eapply ag_trans; eauto).
      destruct (run_gens_track body c (generations p) _) as [[ps|e tr] rsf]; cbn [o_events].
      + assert (H5 : appends_good (s0, []) (persist_all NewCode st c (p_store ps) (fold_left (action_events NewCode st) (p_tr ps) x3))).
        { eapply ag_trans; [exact H3|]. eapply ag_trans; [apply (ag_fold (action_events NewCode st)); intros; apply ag_action | apply ag_persist]. }
        destruct H5 as [l [-> G]]. cbn. exact G.
      + match goal with |- good (snd (persist_all NewCode st c ?held _)) => set (hd := held) end.
        assert (H4 : appends_good (s0, []) (persist_all NewCode st c hd (fold_left (action_events NewCode st) tr x3))).
        { eapply ag_trans; [exact H3|]. eapply ag_trans; [apply (ag_fold (action_events NewCode st)); intros; apply ag_action | apply ag_persist]. }
        destruct H4 as [l [-> G]]. cbn. exact G.
    - destruct H2 as [l [-> G]]. cbn. exact G.
  Qed.

  (* no_partial_visible: whatever the crash point, no real file is partially written *)
  Theorem crash_never_partial st p inputs user cleanup s0 k :
    safe_fs s0 ->
    safe_fs (crash (o_events (run_fs body NewCode st p inputs user cleanup s0)) k s0).
  Proof.
    intros Hs. unfold crash. apply (good_pres _ (run_fs_good st p inputs user cleanup s0)). exact Hs.
  Qed.
End Safe.

(* ------------------------------------------------------------------ no stored element is recomputed *)
Section NoRedo.
  Variable body : mfunc -> env -> result (list val).

  (* a resumed run (no request) on the store rs: every call it makes is for an element that misses some output;
     a function without mapped inputs is called only if not all of its outputs could be loaded *)
  Theorem resume_calls_only_missing (c : ctx) rs user ps :
    sized c rs ->
    (forall g f o, In g (x_p c) -> In f (x_p c) -> In o (fouts g) -> In o (fouts f) -> g = f) ->
    all_shapes user (x_inputs c) (x_p c) = Ok (x_shapes c) ->
    NoDup (flat_map fouts (concat (generations (x_p c)))) ->
    NoDup (map fname (concat (generations (x_p c)))) ->
    map_run_sel body (x_p c) (x_inputs c) user None rs = ROk ps ->
    forall f, In f (concat (generations (x_p c))) ->
      (forall i, In (fname f, Some i) (calls_of (p_tr ps)) ->
         is_mapped f = true /\ exists sm, shape_of c f = Ok sm
            /\ miss_any (stores_of rs f (prod (ext_of (snd sm) (fst sm)))) i = true)
      /\ (In (fname f, None) (calls_of (p_tr ps)) ->
            is_mapped f = false /\ forall outs, load_single rs f <> Ok (Some outs)).
  Proof.
    intros Hsz Hun Hsh Hnd Hnames H f Hf.
    destruct (part_run_exact body c None rs Hsz Hun user ps Hsh Hnd H) as [Hcalls _ _ _].
    cbn [app calls_of flat_map] in Hcalls.
    assert (Hsame : forall g, In g (concat (generations (x_p c))) -> fname g = fname f -> g = f).
    { intros g Hg Hfn. clear - Hnames Hg Hf Hfn.
      induction (concat (generations (x_p c))) as [|h l IH]; [destruct Hg|]. cbn in Hnames.
      inversion Hnames as [|? ? Hni Hnd']; subst.
      destruct Hg as [->|Hg], Hf as [->|Hf]; auto.
      - exfalso. apply Hni. rewrite Hfn. now apply in_map.
      - exfalso. apply Hni. rewrite <- Hfn. now apply in_map. }
    assert (Hinv : forall x, In (fname f, x) (calls_of (p_tr ps)) -> In (fname f, x) (calls_for c None rs f)).
    { intros x Hx. rewrite Hcalls in Hx. apply in_flat_map in Hx as [g [Hg Hx]].
      assert (Hfn : fname g = fname f).
      { unfold calls_for in Hx. destruct (is_mapped g).
        - destruct (fspec g); [|destruct Hx]. destruct (shape_of c g); [|destruct Hx].
          destruct (mask_fixed_axes _ _ _ _); [|destruct Hx].
          apply in_map_iff in Hx as [i [Hi _]]. now injection Hi.
        - destruct (load_single rs g) as [[?|]|]; [destruct Hx | |]; destruct Hx as [Hx|[]]; now injection Hx. }
      rewrite (Hsame g Hg Hfn) in Hx. exact Hx. }
    split.
    - intros i Hi. apply Hinv in Hi. unfold calls_for in Hi. destruct (is_mapped f) eqn:Em.
      + split; [reflexivity|]. destruct (fspec f); [|destruct Hi]. destruct (shape_of c f) as [sm|]; [|destruct Hi].
        cbn [mask_fixed_axes] in Hi. apply in_map_iff in Hi as [j [Hj Hin]]. injection Hj as ->.
        apply filter_In in Hin as [_ Hm]. exists sm. split; [reflexivity|]. exact Hm.
      + destruct (load_single rs f) as [[?|]|]; [destruct Hi | |]; destruct Hi as [Hi|[]]; discriminate.
    - intros Hn. apply Hinv in Hn. unfold calls_for in Hn. destruct (is_mapped f) eqn:Em.
      + destruct (fspec f); [|destruct Hn]. destruct (shape_of c f); [|destruct Hn].
        cbn [mask_fixed_axes] in Hn. apply in_map_iff in Hn as [j [Hj _]]. discriminate.
      + split; [reflexivity|]. intros outs El. rewrite El in Hn. destruct Hn.
  Qed.
End NoRedo.

(* reading a FileArray back from the file system: a cell is missing exactly when there is no file *)
Lemma cell_of_missing s0 p : cell_missing (cell_of s0 p) = negb (is_file s0 p).
Proof. unfold cell_of, is_file. destruct (dict_get (files s0) p) as [[|[v|cells|]]|]; reflexivity. Qed.

(* ------------------------------------------------------------------ finite checks on the reference pipelines *)
From Verif Require Import Model.CrashFSRef Proofs.CrashRef_1_FileSt Proofs.CrashRef_1_DictSt Proofs.CrashRef_2_FileSt Proofs.CrashRef_2_DictSt Proofs.CrashRef_3_FileSt Proofs.CrashRef_3_DictSt.

Lemma ref_family_all_crashes_ok :
  forallb (fun r => all_crashes_ok NewCode FileSt r && all_crashes_ok NewCode DictSt r) ref_family = true.
Proof.
  unfold ref_family. cbn [forallb].
  rewrite ref1_FileSt_ok, ref1_DictSt_ok, ref2_FileSt_ok, ref2_DictSt_ok, ref3_FileSt_ok, ref3_DictSt_ok. reflexivity.
Qed.

Theorem ref_family_resume r st k1 :
  In r ref_family -> In st [FileSt; DictSt] -> k1 <= n_events1 NewCode st r ->
  resume_ok NewCode st r k1 None = true
  /\ forall k2, k2 <= n_events2 NewCode st r k1 -> resume_ok NewCode st r k1 (Some k2) = true.
Proof.
  intros Hr Hst Hk. pose proof ref_family_all_crashes_ok as H. rewrite forallb_forall in H.
  specialize (H r Hr). apply andb_true_iff in H as [HF HD].
  assert (HA : all_crashes_ok NewCode st r = true) by (destruct Hst as [<-|[<-|[]]]; assumption).
  unfold all_crashes_ok in HA. cbv zeta in HA. rewrite forallb_forall in HA.
  assert (Hin : In k1 (seq 0 (S (length (o_events (ref_full NewCode st r)))))) by (apply in_seq; unfold n_events1 in Hk; lia).
  specialize (HA k1 Hin). apply andb_true_iff in HA as [A1 A2]. split; [exact A1|].
  intros k2 Hk2. rewrite forallb_forall in A2. unfold resume_ok. apply A2. apply in_seq. unfold n_events2 in Hk2. lia.
Qed.

(* what the code did before the repair: witnesses of failing resumes *)
Lemma old_code_refuted :
  (* torn run_info.json -> "cannot use cleanup=False" *)
  o_result (ref_run OldCode FileSt ref1 false (crash (o_events (ref_full OldCode FileSt ref1)) 3 empty_fs)) = Err ValueError
  (* run_info.json complete, inputs not yet written *)
  /\ o_result (ref_run OldCode FileSt ref1 false (crash (o_events (ref_full OldCode FileSt ref1)) 6 empty_fs)) = Err ValueError
  (* torn element file *)
  /\ o_result (ref_run OldCode FileSt ref1 false (crash (o_events (ref_full OldCode FileSt ref1)) 17 empty_fs)) = Err OtherError
  (* dict storage: folder created, dict_array.cloudpickle not yet *)
  /\ o_result (ref_run OldCode DictSt ref1 false (crash (o_events (ref_full OldCode DictSt ref1)) 21 empty_fs)) = Err FileNotFoundError
  (* while the uninterrupted runs succeed *)
  /\ is_ok (o_result (ref_full OldCode FileSt ref1)) = true /\ is_ok (o_result (ref_full OldCode DictSt ref1)) = true.
Proof. vm_compute. repeat split; reflexivity. Qed.
