(* C05, the file-system link: with the repaired write protocol EVERY crash point of a run of Pipeline.map leaves a run
   folder in which every real file is complete and holds the value the uninterrupted run stores there (Inv); reading
   such a folder back (RunInfo gate, init_store) gives a sub-store of the denoted store; hence a resumed run completes
   with the uninterrupted result - for every pipeline, storage and crash point, and after any number of crashes. *)
From Verif Require Import Base.Prelude Base.StrUtil Base.Index Base.NdArr Base.PyRange Base.StrSeq
  Model.MapSpec Model.MapSpecSpec Model.MapRun Model.MapDenote Model.SymBody
  Proofs.IndexFacts Proofs.StrFacts Proofs.MapSpecFacts Proofs.ListFacts Proofs.MapRunFacts.
From Verif Require Import Model.MapResume Model.FixedSpec Proofs.MapResumeFacts Proofs.MapValuesFacts
  Proofs.MapResumeDenote Proofs.PartReads Model.CrashFS Proofs.CrashFSFacts.

(* ------------------------------------------------------------------ an invariant of the run folder *)
Section Keep.
  (* what a complete real file may hold *)
  Variable W : path -> payload -> Prop.
  (* the files that exist whenever run_info.json exists *)
  Variable req : list path.
  Hypothesis Hreq_real : forall q, In q req -> is_tmp q = false.
  Hypothesis Hreq_info : ~ In p_info req.

  Definition wfs (s0 : fs) : Prop :=
    forall q, is_tmp q = false -> forall ct, dict_get (files s0) q = Some ct -> exists c0, ct = Complete c0 /\ W q c0.
  Definition einfo (s0 : fs) : Prop :=
    is_file s0 p_info = true -> forall q, In q req -> is_file s0 q = true.
  Definition Inv (s0 : fs) : Prop := wfs s0 /\ einfo s0.

  Lemma Inv_empty : Inv empty_fs.
  Proof. split; [intros q _ ct H; discriminate | intros H; discriminate]. Qed.

  (* every prefix keeps the invariant *)
  Definition kp (l : list event) : Prop := forall s0, Inv s0 -> forall k, Inv (apply_evs s0 (firstn k l)).

  Lemma kp_nil : kp [].
  Proof. intros s0 H k. now rewrite firstn_nil. Qed.
  Lemma kp_app a b : kp a -> kp b -> kp (a ++ b).
  Proof.
    intros Ha Hb s0 Hs k. rewrite firstn_app, apply_evs_app. apply Hb.
    specialize (Ha s0 Hs k). exact Ha.
  Qed.
  Lemma kp_single e : (forall s0, Inv s0 -> Inv (apply_ev s0 e)) -> kp [e].
  Proof. intros H s0 Hs [|k]; cbn; [exact Hs|]. rewrite firstn_nil. cbn. now apply H. Qed.

  Lemma Inv_files s0 s1 : files s1 = files s0 -> Inv s0 -> Inv s1.
  Proof.
    intros E [H1 H2]. split.
    - intros q Hq ct. rewrite E. now apply H1.
    - unfold einfo, is_file in *. now rewrite E.
  Qed.

  Lemma kp_mkdir d : kp [Mkdir d].
  Proof. apply kp_single. intros s0 Hs. apply (Inv_files s0); [reflexivity | exact Hs]. Qed.
  Lemma kp_call l : kp [Call l].
  Proof. apply kp_single. intros s0 Hs. exact Hs. Qed.
  Lemma kp_rmtree d : kp [Rmtree d].
  Proof. apply kp_single. intros s0 Hs. apply Inv_empty. Qed.

  Lemma real_not_tmp q r : is_tmp q = false -> str_eqb q (p_tmp r) = false.
  Proof.
    intros Hq. apply Bool.not_true_is_false. intros E. apply str_eqb_eq in E. subst q.
    rewrite is_tmp_p_tmp in Hq. discriminate.
  Qed.

  (* the files after k events of an atomic write of q *)
  Lemma write_prefix_files s0 q c0 k r : is_tmp r = false ->
    dict_get (files (apply_evs s0 (firstn k (write_events NewCode q c0)))) r
    = if (4 <=? k) && str_eqb r q then Some (Complete c0) else dict_get (files s0) r.
  Proof.
    intros Hr. pose proof (real_not_tmp r q Hr) as Hne. unfold write_events.
    destruct k as [|[|[|[|k]]]]; cbn [firstn apply_evs fold_left apply_ev Nat.leb andb files].
    - reflexivity.
    - now rewrite dict_get_set, Hne.
    - now rewrite !dict_get_set, Hne.
    - now rewrite !dict_get_set, Hne.
    - rewrite firstn_nil. cbn [fold_left apply_ev files dirs]. rewrite dict_get_set, str_eqb_refl. cbn [files].
      rewrite dict_get_set. destruct (str_eqb r q); [reflexivity|].
      now rewrite dict_get_remove, Hne, !dict_get_set, Hne.
  Qed.

  (* an atomic write of a file other than run_info.json *)
  Lemma kp_write q c0 : is_tmp q = false -> W q c0 -> q <> p_info -> kp (write_events NewCode q c0).
  Proof.
    intros Hq Hw Hni s0 [H1 H2] k. split.
    - intros r Hr ct. rewrite (write_prefix_files s0 q c0 k r Hr).
      destruct ((4 <=? k) && str_eqb r q) eqn:E.
      + intros X. injection X as <-. apply andb_true_iff in E as [_ E]. apply str_eqb_eq in E. subst r. eauto.
      + now apply H1.
    - unfold einfo, is_file in *. rewrite (write_prefix_files s0 q c0 k p_info eq_refl).
      assert (E : str_eqb p_info q = false).
      { apply Bool.not_true_is_false. intros X. apply str_eqb_eq in X. now apply Hni. }
      rewrite E, andb_false_r. intros Hi r Hr. rewrite (write_prefix_files s0 q c0 k r (Hreq_real r Hr)).
      destruct (_ && _); [reflexivity|]. now apply H2.
  Qed.

  (* ... and of run_info.json, once the files it presupposes exist *)
  Lemma write_info_keeps s0 : Inv s0 -> W p_info PMeta -> (forall q, In q req -> is_file s0 q = true) ->
    forall k, Inv (apply_evs s0 (firstn k (write_events NewCode p_info PMeta))).
  Proof.
    intros [H1 H2] Hw Hex k. split.
    - intros r Hr ct. rewrite (write_prefix_files s0 p_info PMeta k r Hr).
      destruct ((4 <=? k) && str_eqb r p_info) eqn:E.
      + intros X. injection X as <-. apply andb_true_iff in E as [_ E]. apply str_eqb_eq in E. subst r. eauto.
      + now apply H1.
    - unfold einfo. intros _ r Hr. unfold is_file. rewrite (write_prefix_files s0 p_info PMeta k r (Hreq_real r Hr)).
      destruct (_ && _); [reflexivity|]. exact (Hex r Hr).
  Qed.

  (* ---- transformers of the emission state ---- *)
  Definition keeps (x y : em) : Prop :=
    exists l, y = emit x l /\ (Inv (fst x) -> forall k, Inv (apply_evs (fst x) (firstn k l))).

  Lemma keeps_refl x : keeps x x.
  Proof. exists []. split; [now rewrite emit_nil|]. intros H k. now rewrite firstn_nil. Qed.
  Lemma keeps_trans x y z : keeps x y -> keeps y z -> keeps x z.
  Proof.
    intros [a [-> Ha]] [b [-> Hb]]. exists (a ++ b). split; [apply emit_emit|].
    intros Hx k. rewrite firstn_app, apply_evs_app. cbn [emit fst] in Hb.
    destruct (Nat.lt_ge_cases k (length a)) as [Hlt|Hge].
    - replace (k - length a) with 0 by lia. cbn [firstn apply_evs fold_left]. now apply Ha.
    - rewrite (firstn_all2 a) by exact Hge. apply Hb.
      specialize (Ha Hx (length a)). now rewrite firstn_all in Ha.
  Qed.

  Lemma keeps_kp x l : kp l -> keeps x (emit x l).
  Proof. intros H. exists l. split; [reflexivity|]. intros Hx k. now apply H. Qed.

  Lemma keeps_fold {A} (F : em -> A -> em) (l : list A) : (forall x a, keeps x (F x a)) ->
    forall x, keeps x (fold_left F l x).
  Proof.
    intros HF. induction l as [|a l IH]; intros x; cbn; [apply keeps_refl|].
    eapply keeps_trans; [apply HF | apply IH].
  Qed.

  (* the final file system of a kept transformer satisfies the invariant *)
  Lemma keeps_final x y : keeps x y -> Inv (fst x) -> Inv (fst y).
  Proof.
    intros [l [-> H]] Hx. cbn [emit fst]. specialize (H Hx (length l)). now rewrite firstn_all in H.
  Qed.

  Lemma keeps_mkdir_p x chain : keeps x (mkdir_p x chain).
  Proof.
    unfold mkdir_p. apply keeps_fold. intros y d. destruct (mem_str d (dirs (fst y))); [apply keeps_refl|].
    apply keeps_kp, kp_mkdir.
  Qed.

  Lemma mkdir_p_files x chain : files (fst (mkdir_p x chain)) = files (fst x).
  Proof.
    unfold mkdir_p. revert x. induction chain as [|d chain IH]; intros x; cbn [fold_left]; [reflexivity|].
    rewrite IH. destruct (mem_str d (dirs (fst x))); reflexivity.
  Qed.

  Lemma keeps_dump_file x chain q c0 : is_tmp q = false -> W q c0 -> q <> p_info -> keeps x (dump_file NewCode x chain q c0).
  Proof.
    intros Hq Hw Hn. unfold dump_file. eapply keeps_trans; [apply keeps_mkdir_p|]. apply keeps_kp. now apply kp_write.
  Qed.

  (* the real files after dump_file *)
  Lemma dump_file_files x chain q c0 r : is_tmp r = false ->
    dict_get (files (fst (dump_file NewCode x chain q c0))) r
    = if str_eqb r q then Some (Complete c0) else dict_get (files (fst x)) r.
  Proof.
    intros Hr. unfold dump_file. cbn [emit fst].
    pose proof (write_prefix_files (fst (mkdir_p x chain)) q c0 4 r Hr) as H.
    change (firstn 4 (write_events NewCode q c0)) with (write_events NewCode q c0) in H.
    rewrite H. cbn [Nat.leb andb]. now rewrite mkdir_p_files.
  Qed.

  Lemma keeps_dump_info x : W p_info PMeta -> (forall q, In q req -> is_file (fst x) q = true) ->
    keeps x (dump_file NewCode x [p_root] p_info PMeta).
  Proof.
    intros Hw Hex. unfold dump_file. eapply keeps_trans; [apply keeps_mkdir_p|].
    exists (write_events NewCode p_info PMeta). split; [reflexivity|]. intros Hx k.
    apply write_info_keeps; [exact Hx | exact Hw|]. intros q Hq. unfold is_file. rewrite mkdir_p_files. exact (Hex q Hq).
  Qed.
End Keep.

Arguments wfs W s0 : clear implicits.
Arguments Inv W req s0 : clear implicits.
Arguments keeps W req x y : clear implicits.

(* ------------------------------------------------------------------ the invariant of a pipeline's run folder *)
Section Link.
  Variable body : mfunc -> env -> result (list val).
  Hypothesis Harity : body_arity body.
  Variable user : shape_dict.
  Variable p : list mfunc.
  Variable inputs : env.
  Variable D : den_state.
  Let c : ctx := {| x_p := p; x_inputs := inputs; x_shapes := d_shapes D |}.

  Hypothesis HD : forall f, In f p -> den_fact body D f.
  Hypothesis Hfok : forall f, In f p -> func_ok f = true.
  Hypothesis Huniq : forall g f o, In g p -> In f p -> In o (fouts g) -> In o (fouts f) -> g = f.

  Let names : list str := map fst inputs.
  Let singles : list str := single_outputs c.
  Variable mo : list (str * nat).
  Hypothesis Hmo : mapped_outputs c = Ok mo.
  Hypothesis Hpaths : NoDup (map path_of (all_rpaths mo singles names)).

  Notation DD := (dump_den body p inputs D).
  Notation fsub' := (fsub body p inputs D).
  Notation mdata := (mapped_data body p inputs D HD Hfok).
  Notation all := (all_rpaths mo singles names).

  (* cells that hold, where present, denoted values *)
  Definition sub_cells (o : str) (n : nat) (cells : estore) : Prop :=
    length cells = n /\ forall i, i < n -> nth i cells None = None \/ exists v, nth i cells None = Some (Ok v) /\ DD (ADump o i v).

  Definition payload_good (r : rpath) (c0 : payload) : Prop :=
    match r with
    | RInfo | RDefaults | RInput _ => True
    | RDict o => exists cells n, c0 = PDict cells /\ In (o, n) mo /\ sub_cells o n cells
    | RElem o i => exists v, c0 = PVal v /\ DD (ADump o i v)
    | RSingle o => exists v, c0 = PVal v /\ DD (ADumpSingle o v)
    end.
  Definition W (q : path) (c0 : payload) : Prop := forall r, In r all -> path_of r = q -> payload_good r c0.
  Definition req : list path := map p_input names ++ [p_defaults].

  Notation INV := (Inv W req).
  Notation KEEPS := (keeps W req).

  Lemma path_inj r1 r2 : In r1 all -> In r2 all -> path_of r1 = path_of r2 -> r1 = r2.
  Proof. intros H1 H2 E. exact (NoDup_map_same path_of all r1 r2 Hpaths H1 H2 E). Qed.

  Lemma W_intro r c0 : In r all -> payload_good r c0 -> W (path_of r) c0.
  Proof. intros Hr Hg r' Hr' E. now rewrite (path_inj r' r Hr' Hr E). Qed.

  Lemma in_all_info : In RInfo all. Proof. left. reflexivity. Qed.
  Lemma in_all_defaults : In RDefaults all. Proof. right. left. reflexivity. Qed.
  Lemma in_all_input n : In n names -> In (RInput n) all.
  Proof. intros H. right. right. apply in_or_app. left. now apply in_map. Qed.
  Lemma in_all_dict o n : In (o, n) mo -> In (RDict o) all.
  Proof.
    intros H. right. right. apply in_or_app. right. apply in_or_app. left. apply in_flat_map. exists (o, n).
    split; [exact H | now left].
  Qed.
  Lemma in_all_elem o n i : In (o, n) mo -> i < n -> In (RElem o i) all.
  Proof.
    intros H Hi. right. right. apply in_or_app. right. apply in_or_app. left. apply in_flat_map. exists (o, n).
    split; [exact H|]. right. cbn [fst snd]. apply in_map. apply in_seq. lia.
  Qed.
  Lemma in_all_single o : In o singles -> In (RSingle o) all.
  Proof. intros H. right. right. apply in_or_app. right. apply in_or_app. right. now apply in_map. Qed.

  Lemma not_info r : In r all -> r <> RInfo -> path_of r <> p_info.
  Proof. intros Hr Hn E. apply Hn. exact (path_inj r RInfo Hr in_all_info E). Qed.

  Lemma req_real q : In q req -> is_tmp q = false.
  Proof. unfold req. intros H. apply in_app_or in H as [H|[<-|[]]]; [|reflexivity]. apply in_map_iff in H as [n [<- _]]. reflexivity. Qed.
  Lemma req_info : ~ In p_info req.
  Proof.
    unfold req. intros H. apply in_app_or in H as [H|[H|[]]].
    - apply in_map_iff in H as [n [E Hn]]. exact (not_info (RInput n) (in_all_input n Hn) ltac:(discriminate) E).
    - exact (not_info RDefaults in_all_defaults ltac:(discriminate) H).
  Qed.

  (* the mapped outputs and their sizes *)
  Lemma mo_In f sh mask o : In f p -> is_mapped f = true -> shape_of c f = Ok (sh, mask) -> In o (fouts f) ->
    In (o, prod (ext_of mask sh)) mo.
  Proof.
    intros Hf Hm Hs Ho. unfold mapped_outputs in Hmo.
    destruct (mapM _ (x_p c)) as [l|] eqn:E; cbn [bind] in Hmo; [|discriminate]. injection Hmo as <-.
    destruct (mapM_ok_in _ _ _ f E Hf) as [y [Hy Hin]]. rewrite Hm, Hs in Hy. cbn [bind fst snd] in Hy. injection Hy as <-.
    apply in_concat. eexists. split; [exact Hin|]. apply in_map_iff. exists o. auto.
  Qed.
  Lemma mo_inv o n : In (o, n) mo ->
    exists f sh mask, In f p /\ is_mapped f = true /\ shape_of c f = Ok (sh, mask) /\ In o (fouts f) /\ n = prod (ext_of mask sh).
  Proof.
    intros H. unfold mapped_outputs in Hmo.
    destruct (mapM _ (x_p c)) as [l|] eqn:E; cbn [bind] in Hmo; [|discriminate]. injection Hmo as <-.
    apply in_concat in H as [lf [Hlf Hin]].
    assert (G : forall (fs0 : list mfunc) l0, mapM (fun f => if is_mapped f then do sm <- shape_of c f; Ok (map (fun o0 => (o0, prod (ext_of (snd sm) (fst sm)))) (fouts f)) else Ok []) fs0 = Ok l0 ->
                In lf l0 -> exists f, In f fs0 /\ (if is_mapped f then do sm <- shape_of c f; Ok (map (fun o0 => (o0, prod (ext_of (snd sm) (fst sm)))) (fouts f)) else Ok []) = Ok lf).
    { induction fs0 as [|f fs0 IH]; intros l0 E0 H0; cbn [mapM] in E0; [injection E0 as <-; destruct H0|].
      match type of E0 with (do y <- ?F; _) = _ => destruct F as [y|] eqn:Ey end; cbn [bind] in E0; [|discriminate].
      destruct (mapM _ fs0) as [t|] eqn:Et; cbn [bind] in E0; [|discriminate]. injection E0 as <-.
      destruct H0 as [<-|H0]; [exists f; split; [now left | exact Ey]|].
      destruct (IH t eq_refl H0) as [g [Hg Eg]]. exists g. split; [now right | exact Eg]. }
    destruct (G (x_p c) l E Hlf) as [f [Hf Ef]]. destruct (is_mapped f) eqn:Em; [|injection Ef as <-; destruct Hin].
    destruct (shape_of c f) as [[sh mask]|] eqn:Es; cbn [bind fst snd] in Ef; [|discriminate]. injection Ef as <-.
    apply in_map_iff in Hin as [o' [Eo Ho']]. injection Eo as <- <-. exists f, sh, mask. auto.
  Qed.

  Lemma singles_In f o : In f p -> is_mapped f = false -> In o (fouts f) -> In o singles.
  Proof. intros Hf Hm Ho. unfold singles, single_outputs. apply in_flat_map. exists f. split; [exact Hf | now rewrite Hm]. Qed.

  (* a store whose cells hold denoted values is a sub-store of the denoted store *)
  Lemma den_store_fsub rs :
    (forall o n, In (o, n) mo -> sub_cells o n (get_arr rs o n)) ->
    (forall o, In o singles -> dict_get (st_val rs) o = None \/ exists v, dict_get (st_val rs) o = Some (Ok v) /\ DD (ADumpSingle o v)) ->
    forall g, In g p -> fsub' rs g.
  Proof.
    intros Harr Hval g Hg. unfold fsub. destruct (is_mapped g) eqn:Em.
    - intros kw ms sh mask arrs K1 K2 K3 K4. fold c in K3. set (N := prod (ext_of mask sh)).
      split; [unfold stores_of; now rewrite map_length|].
      intros j Hj. destruct (nth_error (fouts g) j) as [o|] eqn:Eo; [|apply nth_error_None in Eo; lia].
      destruct (stores_of_nth rs g N j o Eo) as [Hn _]. rewrite Hn.
      destruct (Harr o N (mo_In g sh mask o Hg Em K3 (nth_error_In _ _ Eo))) as [S1 S2]. split; [exact S1|].
      intros i Hi. destruct (S2 i Hi) as [Hnone|[v [Hv Hd]]]; [now left|]. right. rewrite Hv. do 2 f_equal.
      cbn [dump_den] in Hd. destruct Hd as [f' [j' [kw' [ms' [sh' [mask' [arrs' [Hf' [_ [A1 [A2 [A3 [_ [Hj' [_ ->]]]]]]]]]]]]]]].
      assert (f' = g) by (eapply Huniq; eauto; eapply nth_error_In; eauto). subst f'.
      rewrite K1 in A1. injection A1 as <-. rewrite K2 in A2. injection A2 as <-. fold c in A3. rewrite K3 in A3. injection A3 as <- <-.
      assert (j' = j); [|now subst j'].
      apply (proj1 (NoDup_nth_error (fouts g)) (fouts_NoDup p Hfok g Hg)); [apply nth_error_Some; congruence | congruence].
    - intros o Ho. destruct (Hval o (singles_In g o Hg Em Ho)) as [Hn|[v [Hv Hd]]]; [now left|]. right.
      rewrite Hv. cbn [dump_den] in Hd. destruct Hd as [-> _]. reflexivity.
  Qed.

  (* ... and conversely the arrays of a sub-store hold denoted values *)
  Lemma fsub_sub_cells rs o n : (forall g, In g p -> fsub' rs g) -> In (o, n) mo -> sub_cells o n (get_arr rs o n).
  Proof.
    intros Hsub Hin. destruct (mo_inv o n Hin) as [f [sh [mask [Hf [Hm [Hs [Ho ->]]]]]]].
    destruct (mdata f Hf Hm) as [kw [ms [sh' [mask' [arrs [K1 [K2 [K3 [K4 _]]]]]]]]]. fold c in K3.
    rewrite Hs in K3. injection K3 as <- <-.
    pose proof (Hsub f Hf) as H. unfold fsub in H. rewrite Hm in H. specialize (H kw ms sh mask arrs K1 K2 Hs K4).
    destruct H as [L C]. apply In_nth_error in Ho as [j Hj].
    assert (Hjk : j < length (fouts f)) by (apply nth_error_Some; congruence).
    destruct (stores_of_nth rs f (prod (ext_of mask sh)) j o Hj) as [Hn _]. destruct (C j Hjk) as [C1 C2].
    rewrite Hn in C1, C2. split; [exact C1|]. intros i Hi. destruct (C2 i Hi) as [Hnone|Hv]; [now left|]. right.
    eexists. split; [exact Hv|]. cbn [dump_den]. exists f, j, kw, ms, sh, mask, arrs. repeat split; auto.
  Qed.

  (* ---- the phases of run_fs keep the invariant at every prefix ---- *)
  Lemma keeps_fold_in {A} (F : em -> A -> em) (l : list A) : (forall x a, In a l -> KEEPS x (F x a)) ->
    forall x, KEEPS x (fold_left F l x).
  Proof.
    induction l as [|a l IH]; intros HF x; cbn [fold_left]; [apply keeps_refl|].
    eapply keeps_trans; [apply HF; now left | apply IH; intros y b Hb; apply HF; now right].
  Qed.

  Lemma keeps_dump r x chain c0 : In r all -> r <> RInfo -> is_tmp (path_of r) = false -> payload_good r c0 ->
    KEEPS x (dump_file NewCode x chain (path_of r) c0).
  Proof.
    intros Hr Hn Ht Hg. apply (keeps_dump_file W req req_real); [exact Ht | now apply W_intro | now apply not_info].
  Qed.

  Definition inputs_fold (x : em) (l : list str) : em :=
    fold_left (fun acc n => dump_file NewCode acc [p_root; p_inputs] (p_input n) PMeta) l x.

  Lemma inputs_fold_files l : forall x r, is_tmp r = false ->
    is_file (fst x) r = true \/ In r (map p_input l) -> is_file (fst (inputs_fold x l)) r = true.
  Proof.
    induction l as [|n l IH]; intros x r Hr H; cbn [inputs_fold fold_left map] in *; [destruct H as [H|[]]; exact H|].
    apply IH; [exact Hr|]. destruct H as [H|[H|H]]; [| |now right]; left; unfold is_file;
      rewrite (dump_file_files x _ _ _ r Hr); destruct (str_eqb r (p_input n)) eqn:E; try reflexivity.
    - exact H.
    - subst r. now rewrite str_eqb_refl in E.
  Qed.

  Lemma keeps_write_run_info x : KEEPS x (write_run_info NewCode names x).
  Proof.
    unfold write_run_info. fold (inputs_fold x names).
    assert (K1 : KEEPS x (inputs_fold x names)).
    { unfold inputs_fold. apply keeps_fold_in. intros y n Hn.
      apply (keeps_dump (RInput n) y _ PMeta (in_all_input n Hn)); [discriminate | reflexivity | exact I]. }
    set (y1 := inputs_fold x names) in *.
    assert (K2 : KEEPS y1 (dump_file NewCode y1 [p_root; p_defaults_dir] p_defaults PMeta)).
    { apply (keeps_dump RDefaults y1 _ PMeta in_all_defaults); [discriminate | reflexivity | exact I]. }
    set (y2 := dump_file NewCode y1 [p_root; p_defaults_dir] p_defaults PMeta) in *.
    eapply keeps_trans; [exact K1|]. eapply keeps_trans; [exact K2|].
    apply (keeps_dump_info W req req_real).
    - apply (W_intro RInfo PMeta in_all_info). exact I.
    - intros q Hq. unfold is_file, y2. rewrite (dump_file_files y1 _ _ _ q (req_real q Hq)).
      destruct (str_eqb q p_defaults) eqn:E; [reflexivity|].
      unfold req in Hq. apply in_app_or in Hq as [Hq|[<-|[]]]; [|now rewrite str_eqb_refl in E].
      change (is_file (fst y1) q = true). apply inputs_fold_files; [apply req_real; unfold req; apply in_or_app; now left | now right].
  Qed.

  (* the RunInfo gate lets every folder that satisfies the invariant pass *)
  Lemma gate_ok x : INV (fst x) -> exists x1, gate NewCode names x = Ok x1 /\ KEEPS x x1.
  Proof.
    intros [H1 H2]. unfold gate. destruct (is_file (fst x) p_info) eqn:Ei; cbn [negb]; [|exists x; split; [reflexivity | apply keeps_refl]].
    assert (Hc : forall q, is_tmp q = false -> is_file (fst x) q = true -> is_complete (fst x) q = true).
    { intros q Hq Hf. unfold is_file, is_complete in *. destruct (dict_get (files (fst x)) q) as [ct|] eqn:E; [|discriminate].
      destruct (H1 q Hq ct E) as [c0 [-> _]]. reflexivity. }
    rewrite (Hc p_info eq_refl Ei). cbn [andb].
    assert (Hin : forallb (fun n => is_complete (fst x) (p_input n)) names = true).
    { apply forallb_forall. intros n Hn. apply Hc; [reflexivity|]. apply (H2 Ei). unfold req. apply in_or_app. left. now apply in_map. }
    rewrite Hin. cbn [andb]. rewrite (Hc p_defaults eq_refl) by (apply (H2 Ei); unfold req; apply in_or_app; right; now left).
    eexists. split; [reflexivity | apply keeps_write_run_info].
  Qed.

  (* the events of the run proper *)
  Lemma keeps_action st x a : DD a -> KEEPS x (action_events NewCode st x a).
  Proof.
    intros Hd. destruct a as [fn i kw | o i v | o v]; cbn [action_events].
    - apply keeps_kp, kp_call.
    - destruct (in_memory st); [apply keeps_refl|].
      pose proof Hd as Hd'. cbn [dump_den] in Hd'. destruct Hd' as [f [j [kw [ms [sh [mask [arrs [Hf [Hm [_ [_ [K3 [_ [Hj [Hi _]]]]]]]]]]]]]]]. fold c in K3.
      apply (keeps_dump (RElem o i) x _ (PVal v)); [|discriminate | reflexivity | cbn; eauto].
      eapply in_all_elem; [exact (mo_In f sh mask o Hf Hm K3 (nth_error_In _ _ Hj)) | exact Hi].
    - pose proof Hd as Hd'. cbn [dump_den] in Hd'. destruct Hd' as [_ [f [Hf [Hm Ho]]]].
      apply (keeps_dump (RSingle o) x _ (PVal v)); [|discriminate | reflexivity | cbn; eauto].
      apply in_all_single. exact (singles_In f o Hf Hm Ho).
  Qed.

  Lemma keeps_trace st tr : Forall DD tr -> forall x, KEEPS x (fold_left (action_events NewCode st) tr x).
  Proof.
    induction 1 as [|a tr Ha _ IH]; intros x; cbn [fold_left]; [apply keeps_refl|].
    apply (keeps_trans W req x (action_events NewCode st x a)); [apply keeps_action; exact Ha | apply IH].
  Qed.

  (* _maybe_persist_memory of a sub-store *)
  Lemma keeps_persist st rs x : (forall g, In g p -> fsub' rs g) -> KEEPS x (persist_all NewCode st c rs x).
  Proof.
    intros Hsub. unfold persist_all. destruct (in_memory st); [|apply keeps_refl]. rewrite Hmo.
    apply keeps_fold_in. intros y [o n] Hin. cbn [fst snd].
    apply (keeps_dump (RDict o) y _ (PDict (get_arr rs o n)) (in_all_dict o n Hin)); [discriminate | reflexivity|].
    cbn. exists (get_arr rs o n), n. split; [reflexivity|]. split; [exact Hin | now apply fsub_sub_cells].
  Qed.

  (* ---- reading the store back ---- *)
  Lemma mo_fun o n n' : In (o, n) mo -> In (o, n') mo -> n = n'.
  Proof.
    intros H1 H2. destruct (mo_inv o n H1) as [f [sh [mask [Hf [_ [Hs [Ho ->]]]]]]].
    destruct (mo_inv o n' H2) as [f' [sh' [mask' [Hf' [_ [Hs' [Ho' ->]]]]]]].
    assert (f' = f) by (eapply Huniq; eauto). subst f'. rewrite Hs in Hs'. now injection Hs' as <- <-.
  Qed.

  Lemma cell_of_inv s0 r : INV s0 -> In r all -> is_tmp (path_of r) = false ->
    cell_of s0 (path_of r) = None
    \/ exists c0, dict_get (files s0) (path_of r) = Some (Complete c0) /\ payload_good r c0.
  Proof.
    intros [H1 _] Hr Ht. unfold cell_of. destruct (dict_get (files s0) (path_of r)) as [ct|] eqn:E; [|now left].
    destruct (H1 _ Ht ct E) as [c0 [-> Hw]]. right. exists c0. split; [reflexivity|]. exact (Hw r Hr eq_refl).
  Qed.

  Lemma nth_map_seq {A} (F : nat -> A) n i d : i < n -> nth i (map F (seq 0 n)) d = F i.
  Proof.
    intros Hi. rewrite (nth_indep _ d (F 0)) by (now rewrite map_length, seq_length).
    rewrite map_nth, seq_nth by exact Hi. reflexivity.
  Qed.

  Definition entry_ok (on : str * nat) (oc : str * estore) : Prop := fst oc = fst on /\ sub_cells (fst on) (snd on) (snd oc).

  Lemma init_fold st : forall l x0 acc, INV (fst x0) -> (forall on, In on l -> In on mo) ->
    exists y arrs', fold_left (init_step NewCode st) l (Ok (x0, acc)) = Ok (y, acc ++ arrs')
      /\ KEEPS x0 y /\ Forall2 entry_ok l arrs'.
  Proof.
    induction l as [|[o n] l IH]; intros x0 acc Hinv Hl; cbn [fold_left].
    - exists x0, []. rewrite app_nil_r. split; [reflexivity|]. split; [apply keeps_refl | constructor].
    - assert (Hon : In (o, n) mo) by (apply Hl; now left).
      unfold init_step at 2. cbn [bind fst snd]. destruct (in_memory st) eqn:Est.
      + (* DictArray.load *)
        assert (Hld : exists cells, load_dict NewCode (fst x0) o n = Ok cells /\ sub_cells o n cells).
        { unfold load_dict. destruct (is_file (fst x0) (p_dict o)) eqn:Ef; cbn [negb].
          - destruct (cell_of_inv (fst x0) (RDict o) Hinv (in_all_dict o n Hon) eq_refl) as [Hn|[c0 [Hc Hg]]].
            + exfalso. unfold cell_of, is_file in *. cbn [path_of] in Hn. destruct (dict_get (files (fst x0)) (p_dict o)) as [[|[?|?|]]|]; discriminate.
            + cbn [path_of] in Hc. rewrite Hc. cbn in Hg. destruct Hg as [cells [n' [-> [Hin' Hs]]]].
              exists cells. split; [reflexivity|]. now rewrite (mo_fun o n n' Hon Hin').
          - exists (repeat None n). split; [reflexivity|]. split; [apply repeat_length|]. intros i _. left. apply nth_repeat. }
        destruct Hld as [cells [Hld Hsc]]. rewrite Hld. cbn [bind].
        destruct (IH x0 (acc ++ [(o, cells)]) Hinv (fun on H => Hl on (or_intror H))) as [y [arrs' [E1 [E2 E3]]]].
        exists y, ((o, cells) :: arrs'). rewrite <- app_assoc in E1. split; [exact E1|]. split; [exact E2|].
        constructor; [split; [reflexivity | exact Hsc] | exact E3].
      + (* FileArray: the folder, then one cell per file *)
        set (y' := mkdir_p x0 [p_root; p_outputs; p_outdir o]).
        assert (Ky : KEEPS x0 y') by apply keeps_mkdir_p.
        assert (Hinv' : INV (fst y')) by (exact (keeps_final W req x0 y' Ky Hinv)).
        set (cells := map (fun i => cell_of (fst y') (p_elem o i)) (seq 0 n)).
        assert (Hsc : sub_cells o n cells).
        { split; [unfold cells; now rewrite map_length, seq_length|]. intros i Hi. unfold cells. rewrite nth_map_seq by exact Hi.
          destruct (cell_of_inv (fst y') (RElem o i) Hinv' (in_all_elem o n i Hon Hi) eq_refl) as [Hn|[c0 [Hc Hg]]]; [now left|].
          right. cbn [path_of] in Hc. cbn in Hg. destruct Hg as [v [-> Hd]]. exists v. split; [|exact Hd].
          unfold cell_of. now rewrite Hc. }
        destruct (IH y' (acc ++ [(o, cells)]) Hinv' (fun on H => Hl on (or_intror H))) as [y [arrs' [E1 [E2 E3]]]].
        exists y, ((o, cells) :: arrs'). rewrite <- app_assoc in E1. split; [exact E1|].
        split; [eapply keeps_trans; eauto|]. constructor; [split; [reflexivity | exact Hsc] | exact E3].
  Qed.

  Lemma entries_get l arrs : Forall2 entry_ok l arrs -> forall o n, In (o, n) l ->
    exists n1 cells, In (o, n1) l /\ dict_get arrs o = Some cells /\ sub_cells o n1 cells.
  Proof.
    induction 1 as [|[o1 n1] [o1' c1] l arrs [H1 H2] _ IH]; intros o n Hin; [destruct Hin|]. cbn [fst snd] in H1, H2. subst o1'.
    cbn [dict_get]. destruct (str_eqb o o1) eqn:E.
    - apply str_eqb_eq in E. subst o1. exists n1, c1. split; [now left | auto].
    - destruct Hin as [Hin|Hin]; [injection Hin as -> ->; now rewrite str_eqb_refl in E|].
      destruct (IH o n Hin) as [n2 [cells [A [B C]]]]. exists n2, cells. split; [now right | auto].
  Qed.

  Lemma singles_get s0 (l : list str) o :
    dict_get (flat_map (fun o0 => match cell_of s0 (p_single o0) with Some r0 => [(o0, r0)] | None => [] end) l) o
    = if mem_str o l then cell_of s0 (p_single o) else None.
  Proof.
    induction l as [|o1 l IH]; [reflexivity|]. cbn [flat_map mem_str existsb]. fold (mem_str o l).
    destruct (str_eqb o o1) eqn:E.
    - apply str_eqb_eq in E. subst o1. cbn [orb]. destruct (cell_of s0 (p_single o)) as [r0|] eqn:Ec; cbn [app dict_get].
      + now rewrite str_eqb_refl.
      + rewrite IH. now destruct (mem_str o l).
    - cbn [orb]. destruct (cell_of s0 (p_single o1)); cbn [app dict_get]; [rewrite E|]; exact IH.
  Qed.

  Lemma init_store_ok st x : INV (fst x) ->
    exists y rs, init_store NewCode st c x = Ok (y, rs) /\ KEEPS x y /\ forall g, In g p -> fsub' rs g.
  Proof.
    intros Hinv. unfold init_store. rewrite Hmo. cbn [bind].
    destruct (init_fold st mo x [] Hinv (fun on H => H)) as [y [arrs [E1 [E2 E3]]]]. cbn [app] in E1.
    match goal with |- context [fold_left ?F ?l ?a] => replace (fold_left F l a) with (Ok (y, arrs)) by (symmetry; exact E1) end.
    cbn [bind]. eexists _, _. split; [reflexivity|]. split; [exact E2|].
    assert (Hinvy : INV (fst y)) by (exact (keeps_final W req x y E2 Hinv)).
    apply den_store_fsub.
    - intros o n Hin. destruct (entries_get mo arrs E3 o n Hin) as [n1 [cells [A [B C]]]].
      unfold get_arr. cbn [st_arr]. rewrite B. now rewrite (mo_fun o n n1 Hin A).
    - intros o Ho. cbn [st_val]. rewrite singles_get. fold singles.
      rewrite (proj2 (mem_str_In o singles) Ho).
      destruct (cell_of_inv (fst y) (RSingle o) Hinvy (in_all_single o Ho) eq_refl) as [Hn|[c0 [Hc Hg]]]; [left; exact Hn|].
      right. cbn [path_of] in Hc. cbn in Hg. destruct Hg as [v [-> Hd]]. exists v. split; [|exact Hd]. unfold cell_of. now rewrite Hc.
  Qed.

  (* ---- one run on a folder that satisfies the invariant ---- *)
  Hypothesis Hshapes : all_shapes user inputs p = Ok (d_shapes D).
  Hypothesis Hfull : forall rs, (forall g, In g p -> fsub' rs g) ->
    exists ps, map_run_sel body p inputs user None rs = ROk ps
      /\ (forall f, In f p -> ffull body p inputs D (p_store ps) f)
      /\ (forall f o, In f p -> In o (fouts f) -> dict_get (p_out ps) o = dict_get (d_out D) o)
      /\ Forall DD (p_tr ps)
      /\ p_out ps = flat_map (den_entries D) (concat (generations p)).

  Theorem run_fs_den st cleanup s0 : INV s0 ->
    let r := run_fs body NewCode st p inputs user cleanup s0 in
    exists outs,
      o_result r = Ok outs
      /\ outs = flat_map (den_entries D) (concat (generations p))
      /\ (forall f o, In f p -> In o (fouts f) -> dict_get outs o = dict_get (d_out D) o)
      /\ o_fs r = apply_evs s0 (o_events r)
      /\ (forall k, INV (crash (o_events r) k s0)).
  Proof.
    intros Hinv r. subst r. unfold run_fs. rewrite Hshapes. fold c. fold names.
    set (x0 := ((s0, []) : em)).
    assert (H1 : exists x1, (if cleanup then Ok (emit x0 [Rmtree p_root]) else gate NewCode names x0) = Ok x1 /\ KEEPS x0 x1).
    { destruct cleanup; [eexists; split; [reflexivity | apply keeps_kp, kp_rmtree] | now apply gate_ok]. }
    destruct H1 as [x1 [E1 K1]]. rewrite E1.
    pose proof (keeps_write_run_info x1) as K2. set (x2 := write_run_info NewCode names x1) in *.
    assert (K02 : KEEPS x0 x2) by (eapply keeps_trans; eauto).
    destruct (init_store_ok st x2 (keeps_final W req x0 x2 K02 Hinv)) as [x3 [rs [E3 [K3 Hsub]]]]. rewrite E3.
    destruct (Hfull rs Hsub) as [ps [F1 [F2 [F3 [F4 F5]]]]].
    pose proof (run_gens_track_is_map_run_sel body p inputs user rs (d_shapes D) Hshapes) as Hag. fold c in Hag. rewrite F1 in Hag.
    destruct (run_gens_track body c (generations p) _) as [[ps'|e tr] rsf]; cbn [fst res_agree] in Hag; [subst ps' | contradiction].
    pose proof (keeps_trace st (p_tr ps) F4 x3) as K4. set (x4 := fold_left (action_events NewCode st) (p_tr ps) x3) in *.
    assert (Hsubf : forall g, In g p -> fsub' (p_store ps) g) by (intros g Hg; apply (ffull_fsub body p inputs D); auto).
    pose proof (keeps_persist st (p_store ps) x4 Hsubf) as K5. set (x5 := persist_all NewCode st c (p_store ps) x4) in *.
    assert (K05 : KEEPS x0 x5) by (eapply keeps_trans; [exact K02|]; eapply keeps_trans; [exact K3|]; eapply keeps_trans; eauto).
    destruct K05 as [l [E5 Hk]]. cbn [o_result o_fs o_events]. exists (p_out ps). split; [reflexivity|]. split; [exact F5|]. split; [exact F3|].
    rewrite E5. unfold x0, emit. cbn [fst snd app]. split; [reflexivity|]. intros k. unfold crash. apply Hk. exact Hinv.
  Qed.
End Link.

(* ------------------------------------------------------------------ assembling: any number of crashes, then a resume *)
(* the run folder after successive crashes: the first run (cleanup as given) is killed after k1 events, the resumed
   run (cleanup=False) after k2 events, ... *)
Fixpoint crashes (body : mfunc -> env -> result (list val)) (st : storage) (p : list mfunc) (inputs : env)
         (user : shape_dict) (s0 : fs) (cleanup : bool) (ks : list nat) : fs :=
  match ks with
  | [] => s0
  | k :: ks' => crashes body st p inputs user
                        (crash (o_events (run_fs body NewCode st p inputs user cleanup s0)) k s0) false ks'
  end.

Section Assemble.
  Variable body : mfunc -> env -> result (list val).
  Variable user : shape_dict.
  Variable p : list mfunc.
  Variable inputs : env.
  Variable D : den_state.
  Hypothesis Harity : body_arity body.
  Hypothesis Hreq : request_ok p inputs = true.
  Hypothesis Hden : denote_run body p inputs user = Ok D.
  Hypothesis Hord : pipeline_order_ok p = true.
  Let c : ctx := {| x_p := p; x_inputs := inputs; x_shapes := d_shapes D |}.
  Hypothesis Hpaths : paths_ok c (map fst inputs) = true.

  Lemma link_facts :
    (forall f, In f p -> den_fact body D f) /\ (forall f, In f p -> func_ok f = true)
    /\ (forall g f o, In g p -> In f p -> In o (fouts g) -> In o (fouts f) -> g = f)
    /\ all_shapes user inputs p = Ok (d_shapes D)
    /\ exists mo, mapped_outputs c = Ok mo /\ NoDup (map path_of (all_rpaths mo (single_outputs c) (map fst inputs))).
  Proof.
    destruct (pipeline_order_ok_spec p (request_ok_nodup p inputs Hreq) Hord) as [Htopo _].
    pose proof Hreq as Hreq'. unfold request_ok in Hreq'. apply andb_true_iff in Hreq' as [Hreq' _]. apply andb_true_iff in Hreq' as [Hok Hnd].
    apply nodup_str_NoDup in Hnd. destruct (NoDup_app_inv _ _ Hnd) as [Hndo _].
    pose proof Hden as Hden'. unfold denote_run in Hden'.
    set (d0 := {| d_env := inputs; d_shapes := init_shapes inputs; d_out := [] |}) in *.
    destruct (denote_fold_facts body user p d0 D Hok Htopo) as [HD _]; [intros; reflexivity | exact Hndo | exact Hden'|].
    destruct (denote_fold_env body user p d0 D Hok Hden') as [_ Hshapes]. cbn [d_shapes d0] in Hshapes.
    split; [exact HD|]. split; [rewrite forallb_forall in Hok; exact Hok|]. split; [exact (NoDup_flat_uniq p Hndo)|].
    split; [exact Hshapes|]. unfold paths_ok in Hpaths. destruct (mapped_outputs c) as [mo|]; [|discriminate].
    exists mo. split; [reflexivity | now apply nodup_str_NoDup].
  Qed.

  (* the invariant of this pipeline's run folder: every real file is complete and holds the denoted value; when
     run_info.json exists, so do the inputs and the defaults *)
  Definition folder_ok (s0 : fs) : Prop :=
    exists mo, mapped_outputs c = Ok mo
      /\ Inv (W body p inputs D mo) (req inputs) s0.

  Lemma folder_ok_empty : folder_ok empty_fs.
  Proof. destruct link_facts as [_ [_ [_ [_ [mo [Hmo _]]]]]]. exists mo. split; [exact Hmo | apply Inv_empty]. Qed.

  (* ONE RUN on a folder that satisfies the invariant (in particular the empty one, or any crashed one): it completes
     with the denoted outputs, and EVERY crash point of it leaves a folder that satisfies the invariant again *)
  Theorem run_on_ok_folder st cleanup s0 : folder_ok s0 ->
    let r := run_fs body NewCode st p inputs user cleanup s0 in
    (o_result r = Ok (flat_map (den_entries D) (concat (generations p)))
     /\ forall f o, In f p -> In o (fouts f) ->
          dict_get (flat_map (den_entries D) (concat (generations p))) o = dict_get (d_out D) o)
    /\ forall k, folder_ok (crash (o_events r) k s0).
  Proof.
    intros [mo [Hmo Hinv]] r. destruct link_facts as [HD [Hfok [Huniq [Hshapes [mo' [Hmo' Hnd]]]]]].
    fold c in Hmo, Hmo'. rewrite Hmo in Hmo'. injection Hmo' as <-.
    destruct (run_fs_den body user p inputs D HD Hfok Huniq mo Hmo Hnd Hshapes
                (fun rs Hs => full_run_on_substore_outs body user p inputs D rs Harity Hreq Hden Hord Hs)
                st cleanup s0 Hinv) as [outs [R1 [R0 [R2 [_ R4]]]]]. subst outs.
    split; [auto|]. intros k. exists mo. split; [exact Hmo | apply R4].
  Qed.

  (* READING AN OK FOLDER BACK: the RunInfo gate lets it pass, and init_store (FileArray: one cell per element file;
     DictArray / SharedMemoryDictArray: the persisted dict) yields a sub-store of the denoted store *)
  Theorem ok_folder_reads_substore st x : folder_ok (fst x) ->
    (exists x1, gate NewCode (map fst inputs) x = Ok x1)
    /\ exists y rs, init_store NewCode st c x = Ok (y, rs) /\ forall g, In g p -> fsub body p inputs D rs g.
  Proof.
    intros [mo [Hmo Hinv]]. destruct link_facts as [HD [Hfok [Huniq [_ [mo' [Hmo' Hnd]]]]]].
    fold c in Hmo, Hmo'. rewrite Hmo in Hmo'. injection Hmo' as <-. split.
    - destruct (gate_ok body p inputs D mo Hnd x Hinv) as [x1 [E _]]. eauto.
    - destruct (init_store_ok body p inputs D Hfok Huniq mo Hmo Hnd st x Hinv) as [y [rs [E [_ Hs]]]]. eauto.
  Qed.

  Lemma crashes_ok st ks : forall s0 cleanup, folder_ok s0 -> folder_ok (crashes body st p inputs user s0 cleanup ks).
  Proof.
    induction ks as [|k ks IH]; intros s0 cleanup H; cbn [crashes]; [exact H|].
    apply IH. exact (proj2 (run_on_ok_folder st cleanup s0 H) k).
  Qed.

  (* RESUME = UNINTERRUPTED, general: the first run (fresh folder) is killed after k1 events, each resumed run after
     the next k of the list - ANY storage, ANY crash points, ANY number of crashes - then a resumed run completes, and
     what it returns is exactly what the uninterrupted run returns: the denoted array for every output *)
  Theorem resume_eq_uninterrupted st ks :
    o_result (run_fs body NewCode st p inputs user false (crashes body st p inputs user empty_fs true ks))
    = o_result (run_fs body NewCode st p inputs user true empty_fs)
    /\ exists outs, o_result (run_fs body NewCode st p inputs user true empty_fs) = Ok outs
         /\ forall f o, In f p -> In o (fouts f) -> dict_get outs o = dict_get (d_out D) o.
  Proof.
    destruct (run_on_ok_folder st true empty_fs folder_ok_empty) as [[A1 A2] _].
    destruct (run_on_ok_folder st false _ (crashes_ok st ks empty_fs true folder_ok_empty)) as [[B1 _] _].
    split; [now rewrite A1, B1|]. eexists. split; [exact A1 | exact A2].
  Qed.
End Assemble.

(* ------------------------------------------------------------------ the reference pipelines as an instance *)
From Verif Require Import Model.CrashFSRef.

Lemma list_eqb_refl_all {A} (eqb : A -> A -> bool) : (forall a, eqb a a = true) -> forall l, list_eqb eqb l l = true.
Proof. intros H. induction l as [|x l IH]; cbn; [reflexivity|]. now rewrite H, IH. Qed.

Lemma val_eqb_refl v : val_eqb v v = true.
Proof.
  destruct v as [x|a]; cbn; [apply str_eqb_refl|].
  rewrite (list_eqb_refl_all Nat.eqb Nat.eqb_refl), (list_eqb_refl_all str_eqb str_eqb_refl). reflexivity.
Qed.

Lemma outs_eqb_refl l : outs_eqb l l = true.
Proof. unfold outs_eqb. apply list_eqb_refl_all. intros [k v]. cbn. now rewrite str_eqb_refl, val_eqb_refl. Qed.

(* for the reference pipelines: every storage, every list of crash points (no bound) *)
Theorem ref_family_resume_all r st ks : In r ref_family ->
  o_result (ref_run NewCode st r false (crashes sym_body st (r_funcs r) (r_inputs r) (r_user r) empty_fs true ks))
  = o_result (ref_full NewCode st r).
Proof.
  intros Hr. unfold ref_run, ref_full, ref_run.
  assert (H : exists D, denote_run sym_body (r_funcs r) (r_inputs r) (r_user r) = Ok D
                /\ request_ok (r_funcs r) (r_inputs r) = true /\ pipeline_order_ok (r_funcs r) = true
                /\ paths_ok {| x_p := r_funcs r; x_inputs := r_inputs r; x_shapes := d_shapes D |} (map fst (r_inputs r)) = true).
  { destruct Hr as [<-|[<-|[<-|[]]]];
      (destruct (denote_run sym_body _ _ _) as [D|] eqn:E; [|vm_compute in E; discriminate]);
      exists D; (split; [reflexivity|]); (split; [vm_compute; reflexivity|]); (split; [vm_compute; reflexivity|]);
      vm_compute in E; injection E as <-; vm_compute; reflexivity. }
  destruct H as [D [Hd [Hq [Ho Hp]]]].
  exact (proj1 (resume_eq_uninterrupted sym_body (r_user r) (r_funcs r) (r_inputs r) D sym_body_arity Hq Hd Ho Hp st ks)).
Qed.

(* the bounded theorem of Props/C05.v, now for every crash point without a bound and also for shared_memory_dict *)
Theorem ref_family_resume_unbounded r st k1 : In r ref_family ->
  resume_ok NewCode st r k1 None = true /\ forall k2, resume_ok NewCode st r k1 (Some k2) = true.
Proof.
  intros Hr. unfold resume_ok. cbv zeta. split.
  - pose proof (ref_family_resume_all r st [k1] Hr) as H. cbn [crashes] in H. fold (ref_run NewCode st r true empty_fs) in H.
    fold (ref_full NewCode st r) in H. rewrite H.
    destruct (o_result (ref_full NewCode st r)) as [outs|] eqn:E; [apply outs_eqb_refl|].
    exfalso. pose proof (ref_family_resume_all r st [] Hr) as H0. cbn [crashes] in H0.
    clear H. destruct Hr as [<-|[<-|[<-|[]]]]; destruct st; vm_compute in E; discriminate.
  - intros k2. pose proof (ref_family_resume_all r st [k1; k2] Hr) as H. cbn [crashes] in H.
    fold (ref_run NewCode st r true empty_fs) in H. fold (ref_full NewCode st r) in H.
    fold (ref_run NewCode st r false (crash (o_events (ref_full NewCode st r)) k1 empty_fs)) in H.
    rewrite H. destruct (o_result (ref_full NewCode st r)) as [outs|] eqn:E; [apply outs_eqb_refl|].
    exfalso. destruct Hr as [<-|[<-|[<-|[]]]]; destruct st; vm_compute in E; discriminate.
Qed.
