(* finite check (vm_compute): every crash point and every pair of crash points of reference pipeline ref1, storage DictSt *)
From Verif Require Import Base.Prelude Model.CrashFS Model.CrashFSRef.
Lemma ref1_DictSt_ok : all_crashes_ok NewCode DictSt ref1 = true.
Proof. vm_compute. reflexivity. Qed.
