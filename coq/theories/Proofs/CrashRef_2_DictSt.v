(* finite check (vm_compute): every crash point and every pair of crash points of reference pipeline ref2, storage DictSt *)
From Verif Require Import Base.Prelude Model.CrashFS Model.CrashFSRef.
Lemma ref2_DictSt_ok : all_crashes_ok NewCode DictSt ref2 = true.
Proof. vm_compute. reflexivity. Qed.
