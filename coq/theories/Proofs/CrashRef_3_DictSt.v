(* finite check (vm_compute): every crash point and every pair of crash points of reference pipeline ref3, storage DictSt *)
From Verif Require Import Base.Prelude Model.CrashFS Model.CrashFSRef.
Lemma ref3_DictSt_ok : all_crashes_ok NewCode DictSt ref3 = true.
Proof. vm_compute. reflexivity. Qed.
