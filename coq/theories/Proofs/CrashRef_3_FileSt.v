(* finite check (vm_compute): every crash point and every pair of crash points of reference pipeline ref3, storage FileSt *)
From Verif Require Import Base.Prelude Model.CrashFS Model.CrashFSRef.
Lemma ref3_FileSt_ok : all_crashes_ok NewCode FileSt ref3 = true.
Proof. vm_compute. reflexivity. Qed.
