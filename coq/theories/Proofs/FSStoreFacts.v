(* Proofs about Model/FSStore.v: what a finished run leaves in its folder reloads to the run's results,
   from any process, and reloading leaves the folder unchanged. *)
From Verif Require Import Base.Prelude Base.StrUtil Base.Index Base.NdArr Model.MapSpec Model.MapRun Model.SymBody
  Model.RunInfoCodec Model.FSStore Proofs.StrFacts Proofs.IndexFacts Proofs.RunInfoFacts.

(* ================================================================================================= *)
(* A. the finite map                                                                                  *)

Lemma path_eqb_eq a b : path_eqb a b = true <-> a = b.
Proof.
  destruct a, b; cbn; try (split; [discriminate|intros H; discriminate]); try tauto;
    try (rewrite str_eqb_eq; split; [now intros ->|now intros [= ->]]).
  rewrite andb_true_iff, str_eqb_eq, Nat.eqb_eq. split; [now intros [-> ->]|now intros [= -> ->]].
Qed.

Lemma path_eqb_refl a : path_eqb a a = true.
Proof. now apply path_eqb_eq. Qed.

Lemma path_eqb_neq a b : a <> b -> path_eqb a b = false.
Proof. intros H. destruct (path_eqb a b) eqn:E; [|reflexivity]. apply path_eqb_eq in E. contradiction. Qed.

Lemma fs_get_app f g p :
  fs_get (f ++ g) p = match fs_get f p with Some c => Some c | None => fs_get g p end.
Proof.
  induction f as [|[q c] f IH]; cbn; [reflexivity|]. destruct (path_eqb p q); [reflexivity|apply IH].
Qed.

Lemma fs_set_same f p c : fs_get f p = Some c -> fs_set f p c = f.
Proof.
  induction f as [|[q d] f IH]; cbn; [discriminate|].
  destruct (path_eqb p q) eqn:E.
  - intros [= ->]. reflexivity.
  - intros H. now rewrite IH.
Qed.

Lemma fs_set_fresh f p c : fs_get f p = None -> fs_set f p c = f ++ [(p, c)].
Proof.
  induction f as [|[q d] f IH]; cbn; [reflexivity|].
  destruct (path_eqb p q); [discriminate|]. intros H. now rewrite IH.
Qed.

Lemma fs_get_set f p c q : fs_get (fs_set f p c) q = if path_eqb q p then Some c else fs_get f q.
Proof.
  induction f as [|[r d] f IH]; cbn.
  - reflexivity.
  - destruct (path_eqb p r) eqn:E; cbn.
    + apply path_eqb_eq in E. subst r. destruct (path_eqb q p); reflexivity.
    + rewrite IH. destruct (path_eqb q r) eqn:E2; [|reflexivity].
      apply path_eqb_eq in E2. subst r. destruct (path_eqb q p) eqn:E3; [|reflexivity].
      apply path_eqb_eq in E3. subst q. now rewrite path_eqb_refl in E.
Qed.

(* which output a path belongs to *)
Definition path_owner (p : path) : option str :=
  match p with
  | PSingle o | PArrDir o | PElem o _ | PDictFile o => Some o
  | _ => None
  end.

Lemma fs_get_skip f g p :
  (forall q c, In (q, c) f -> path_owner q <> path_owner p) -> fs_get (f ++ g) p = fs_get g p.
Proof.
  intros H. rewrite fs_get_app.
  assert (E : fs_get f p = None).
  { induction f as [|[q c] f IH]; cbn; [reflexivity|].
    rewrite path_eqb_neq.
    - apply IH. intros q' c' Hin. apply (H q' c'). now right.
    - intros ->. apply (H q c); [now left|reflexivity]. }
  now rewrite E.
Qed.

(* ================================================================================================= *)
(* C. recorded path strings                                                                           *)

Lemma strip_prefix_app p r : strip_prefix p (p ++ r) = Some r.
Proof. induction p as [|a p IH]; cbn; [reflexivity|]. now rewrite Ascii.eqb_refl. Qed.

Lemma strip_suffix_app x suf : strip_suffix suf (x ++ suf) = Some x.
Proof. unfold strip_suffix. rewrite rev_app_distr, strip_prefix_app. now rewrite rev_involutive. Qed.

Lemma parse_input_path root n :
  mem_char "/"%char n = false -> parse_path root (input_path_str root n) = Some (PInput n).
Proof.
  intros Hn. unfold parse_path, input_path_str.
  change (root ++ s "/inputs/" ++ n ++ s ".cloudpickle") with (root ++ s "/" ++ (s "inputs/" ++ n ++ s ".cloudpickle")).
  rewrite app_assoc, strip_prefix_app.
  change (str_eqb (s "inputs/" ++ n ++ s ".cloudpickle") (s "defaults/defaults.cloudpickle")) with false. cbv iota.
  change (strip_prefix (s "inputs/") (s "inputs/" ++ n ++ s ".cloudpickle")) with (Some (n ++ s ".cloudpickle")). cbv iota.
  rewrite strip_suffix_app. now rewrite Hn.
Qed.

Lemma parse_defaults_path root : parse_path root (defaults_path_str root) = Some PDefaults.
Proof.
  unfold parse_path, defaults_path_str.
  change (root ++ s "/defaults/defaults.cloudpickle") with (root ++ s "/" ++ s "defaults/defaults.cloudpickle").
  rewrite app_assoc, strip_prefix_app. reflexivity.
Qed.

(* ================================================================================================= *)
(* F. arrays: splitting a full array into per-key values and reassembling it                           *)

Lemma mapM_length {A B} (f : A -> result B) l r : mapM f l = Ok r -> length r = length l.
Proof.
  revert r. induction l as [|x l IH]; cbn; intros r H.
  - injection H as <-. reflexivity.
  - destruct (f x); [|discriminate]. cbn in H. destruct (mapM f l); [|discriminate]. cbn in H.
    injection H as <-. cbn. f_equal. now apply IH.
Qed.

Lemma mapM_nth {A B} (f : A -> result B) l r n x :
  mapM f l = Ok r -> nth_error l n = Some x -> exists y, f x = Ok y /\ nth_error r n = Some y.
Proof.
  revert r n. induction l as [|a l IH]; cbn; intros r n H Hn.
  - destruct n; discriminate.
  - destruct (f a) as [b|] eqn:Ea; [|discriminate]. cbn in H. destruct (mapM f l) as [r'|] eqn:El; [|discriminate].
    cbn in H. injection H as <-. destruct n as [|n]; cbn in *.
    + injection Hn as <-. eauto.
    + eapply IH; eauto.
Qed.

Lemma mapM_ok_pointwise {A B} (f : A -> result B) (g : A -> B) l :
  (forall x, In x l -> f x = Ok (g x)) -> mapM f l = Ok (map g l).
Proof.
  induction l as [|x l IH]; intros H; cbn; [reflexivity|].
  rewrite H by (now left). cbn. rewrite IH by (intros y Hy; apply H; now right). reflexivity.
Qed.

Lemma mapM_inv_in {A B} (f : A -> result B) l r x :
  mapM f l = Ok r -> In x l -> exists y, f x = Ok y /\ In y r.
Proof.
  intros H Hin. apply In_nth_error in Hin as [n Hn].
  destruct (mapM_nth f l r n x H Hn) as [y [Hy Hr]]. exists y. split; [exact Hy|]. eapply nth_error_In; eauto.
Qed.

(* the row-major enumeration: the element of all_indices at the linear position of idx is idx *)
Lemma all_indices_nth sh idx : in_bounds sh idx = true -> nth_error (all_indices sh) (ravel sh idx) = Some idx.
Proof.
  intros H. rewrite <- unravel_enumerates. rewrite nth_error_map.
  pose proof (ravel_lt sh idx H) as Hlt.
  rewrite (nth_error_nth' _ 0) by (now rewrite seq_length).
  rewrite seq_nth by exact Hlt. cbn. now rewrite unravel_ravel.
Qed.

Lemma all_indices_in_bounds sh idx : In idx (all_indices sh) -> in_bounds sh idx = true.
Proof.
  rewrite <- unravel_enumerates. intros H. apply in_map_iff in H as [n [<- Hn]].
  apply in_seq in Hn. apply unravel_in_bounds. lia.
Qed.

Lemma in_bounds_all_indices sh idx : in_bounds sh idx = true -> In idx (all_indices sh).
Proof. intros H. eapply nth_error_In. now apply all_indices_nth. Qed.

Lemma in_bounds_length sh : forall idx, in_bounds sh idx = true -> length idx = length sh.
Proof.
  induction sh as [|d sh IH]; intros [|k idx] H; cbn in *; try discriminate; [reflexivity|].
  apply andb_true_iff in H as [_ H]. f_equal. now apply IH.
Qed.

Lemma mapM_from_nth {A B} (F : A -> result B) : forall l r,
  length r = length l ->
  (forall n x, nth_error l n = Some x -> exists y, F x = Ok y /\ nth_error r n = Some y) ->
  mapM F l = Ok r.
Proof.
  induction l as [|a l IH]; intros r Hlen H.
  - destruct r; [reflexivity|discriminate].
  - destruct r as [|b r]; [discriminate|]. cbn.
    destruct (H 0 a eq_refl) as [y [Hy Hb]]. cbn in Hb. injection Hb as ->.
    rewrite Hy. cbn. rewrite (IH r).
    + reflexivity.
    + cbn in Hlen. lia.
    + intros n x Hn. apply (H (S n) x Hn).
Qed.

Lemma all_indices_nth_inv sh n idx :
  nth_error (all_indices sh) n = Some idx -> n < prod sh /\ idx = unravel sh n.
Proof.
  intros H. assert (Hn : n < prod sh).
  { rewrite <- all_indices_length. apply nth_error_Some. congruence. }
  split; [exact Hn|].
  rewrite <- unravel_enumerates in H. rewrite nth_error_map in H.
  rewrite (nth_error_nth' _ 0) in H by (now rewrite seq_length).
  rewrite seq_nth in H by exact Hn. cbn in H. now injection H as <-.
Qed.

(* an array is determined by its elements: dat a lists nd_get a over the row-major enumeration *)
Lemma dat_enumerates {A} (a : nd A) (F : list nat -> result A) :
  nd_wf a = true ->
  (forall idx, In idx (all_indices (shp a)) -> exists x, nd_get a idx = Some x /\ F idx = Ok x) ->
  mapM F (all_indices (shp a)) = Ok (dat a).
Proof.
  intros Hwf H. unfold nd_wf in Hwf. apply Nat.eqb_eq in Hwf.
  apply mapM_from_nth.
  - now rewrite all_indices_length.
  - intros n idx Hn. destruct (H idx (nth_error_In _ _ Hn)) as [x [Hx HF]].
    exists x. split; [exact HF|].
    apply all_indices_nth_inv in Hn as [Hlt ->].
    unfold nd_get in Hx. rewrite unravel_in_bounds in Hx by exact Hlt.
    now rewrite ravel_unravel in Hx by exact Hlt.
Qed.

Lemma in_bounds_ext_int (mask : list bool) : forall sh idx,
  in_bounds sh idx = true ->
  in_bounds (ext_of mask sh) (ext_of mask idx) = true /\ in_bounds (int_of mask sh) (int_of mask idx) = true.
Proof.
  induction mask as [|[|] m IH]; intros [|d sh] [|k idx] H; cbn in *; try discriminate; auto;
    apply andb_true_iff in H as [H1 H2]; destruct (IH sh idx H2) as [G1 G2]; rewrite ?H1, ?G1, ?G2; auto.
Qed.

Lemma int_of_length {A B} (mask : list bool) : forall (l : list A) (l' : list B),
  length l = length l' -> length (int_of mask l) = length (int_of mask l').
Proof.
  induction mask as [|[|] m IH]; intros [|x l] [|y l'] H; cbn in *; try discriminate; auto.
Qed.

Section Reassemble.
  Variable a : nd str.
  Variable mask : list bool.
  Hypothesis Hwf : nd_wf a = true.
  Hypothesis Hmask : length mask = length (shp a).

  Let ext := ext_of mask (shp a).
  Let int := int_of mask (shp a).

  Lemma idx_split idx : In idx (all_indices (shp a)) ->
    in_bounds ext (ext_of mask idx) = true /\ in_bounds int (int_of mask idx) = true
    /\ merge mask (ext_of mask idx) (int_of mask idx) = idx.
  Proof.
    intros H. apply all_indices_in_bounds in H.
    destruct (in_bounds_ext_int mask _ _ H) as [H1 H2]. repeat split; try assumption.
    apply merge_ext_int. rewrite (in_bounds_length _ _ H). now symmetry.
  Qed.

  Lemma nd_get_some idx : In idx (all_indices (shp a)) -> exists x, nd_get a idx = Some x.
  Proof.
    intros H. apply all_indices_in_bounds in H. unfold nd_get. rewrite H.
    destruct (nth_error (dat a) (ravel (shp a) idx)) eqn:E; [eauto|].
    apply nth_error_None in E. unfold nd_wf in Hwf. apply Nat.eqb_eq in Hwf.
    pose proof (ravel_lt _ _ H). lia.
  Qed.

  (* sub_value is defined on every external key, and reading position (int part of idx) of the value stored
     for (ext part of idx) gives a[idx] -- for element files and for dict entries *)
  Lemma sub_value_defined e : in_bounds ext e = true -> exists v, sub_value a mask e = Ok v.
  Proof.
    intros He. unfold sub_value. fold int.
    assert (G : forall j, in_bounds int j = true -> exists x, nd_get a (merge mask e j) = Some x).
    { intros j Hj. apply nd_get_some. apply in_bounds_all_indices.
      assert (L1 : length e = length (filter id mask)).
      { rewrite (in_bounds_length _ _ He). unfold ext. clear -Hmask. revert Hmask. generalize (shp a).
        induction mask as [|[|] m IH]; intros [|d sh] H; cbn in *; try discriminate; auto. }
      assert (L2 : length j = length (filter negb mask)).
      { rewrite (in_bounds_length _ _ Hj). unfold int. clear -Hmask. revert Hmask. generalize (shp a).
        induction mask as [|[|] m IH]; intros [|d sh] H; cbn in *; try discriminate; auto. }
      clear Hwf. revert e j He Hj L1 L2. unfold ext, int. revert Hmask. generalize (shp a).
      induction mask as [|[|] m IH]; intros [|d sh] Hm e j He Hj L1 L2; cbn in *; try discriminate.
      - destruct e, j; try discriminate. reflexivity.
      - destruct e as [|k e]; [discriminate|]. cbn in He. apply andb_true_iff in He as [Hk He].
        cbn. rewrite Hk. cbn. apply IH; auto.
      - destruct j as [|k j]; [discriminate|]. cbn in Hj. apply andb_true_iff in Hj as [Hk Hj].
        cbn. rewrite Hk. cbn. apply IH; auto. }
    destruct int as [|d t] eqn:Eint.
    - destruct (G [] eq_refl) as [x Hx]. rewrite Hx. eauto.
    - assert (exists dd, mapM (fun j => match nd_get a (merge mask e j) with Some x => Ok x | None => Err IndexError end)
                           (all_indices (d :: t)) = Ok dd) as [dd Hdd].
      { eexists. apply mapM_ok_pointwise with (g := fun j => match nd_get a (merge mask e j) with Some x => x | None => [] end).
        intros j Hj. destruct (G j (all_indices_in_bounds _ _ Hj)) as [x Hx]. now rewrite Hx. }
      rewrite Hdd. cbn [bind]. eauto.
  Qed.

  Lemma file_elem_sub idx v : In idx (all_indices (shp a)) -> sub_value a mask (ext_of mask idx) = Ok v ->
    exists x, nd_get a idx = Some x /\ file_elem v int (int_of mask idx) = Ok x
              /\ dict_elem v int (int_of mask idx) = Ok x.
  Proof.
    intros Hidx Hv. destruct (idx_split idx Hidx) as [He [Hj Hm]].
    unfold sub_value in Hv. fold int in Hv.
    destruct int as [|d t] eqn:Eint.
    - assert (Ej : int_of mask idx = []).
      { apply length_zero_iff_nil. rewrite (int_of_length mask idx (shp a)).
        - fold int. now rewrite Eint.
        - apply in_bounds_length. now apply all_indices_in_bounds. }
      rewrite Ej in Hm. rewrite Hm in Hv.
      destruct (nd_get a idx) as [x|] eqn:Ex; [|discriminate]. injection Hv as <-.
      exists x. repeat split; reflexivity.
    - destruct (mapM _ (all_indices (d :: t))) as [dd|] eqn:Edd; [|discriminate]. cbn in Hv. injection Hv as <-.
      destruct (mapM_nth _ _ _ _ _ Edd (all_indices_nth (d :: t) _ Hj)) as [y [Hy Hnth]].
      rewrite Hm in Hy. destruct (nd_get a idx) as [x|] eqn:Ex; [|discriminate]. injection Hy as <-.
      exists x. split; [reflexivity|].
      unfold file_elem, dict_elem. cbn [shp dat].
      rewrite Nat.eqb_refl. cbn [negb].
      assert (El : list_eqb Nat.eqb (d :: t) (d :: t) = true).
      { apply (list_eqb_eq Nat.eqb Nat.eqb_eq). reflexivity. }
      rewrite El. cbn [negb].
      unfold nd_get. cbn [shp dat]. rewrite Hj. rewrite Hnth. split; reflexivity.
  Qed.

  (* FileArray.to_array over the element files of a *)
  Lemma file_to_array_ok (w : world) (o : str) :
    (forall e, in_bounds ext e = true ->
       exists v, sub_value a mask e = Ok v /\ fs_get (w_files w) (PElem o (ravel ext e)) = Some (Pickled (PVal v))) ->
    file_to_array w o (shp a) mask = Ok a.
  Proof.
    intros Hfiles. unfold file_to_array. fold ext int.
    rewrite (dat_enumerates a); [destruct a; reflexivity | exact Hwf |].
    intros idx Hidx. destruct (idx_split idx Hidx) as [He [Hj Hm]].
    destruct (Hfiles _ He) as [v [Hv Hget]].
    destruct (file_elem_sub idx v Hidx Hv) as [x [Hx [Hfe _]]].
    exists x. split; [exact Hx|].
    rewrite Hget. unfold unpickle. rewrite Hget. cbn [bind]. exact Hfe.
  Qed.

  (* DictArray.to_array over the persisted dict of a *)
  Lemma key_get_vals (g : list nat -> result val) : forall l vals e,
    mapM (fun e => do v <- g e; Ok (e, v)) l = Ok vals -> In e l ->
    exists v, g e = Ok v /\ key_get vals e = Some v.
  Proof.
    induction l as [|e0 l IH]; intros vals e H Hin; [contradiction|].
    cbn in H. destruct (g e0) as [v0|] eqn:E0; [|discriminate]. cbn in H.
    destruct (mapM _ l) as [vals'|] eqn:El; [|discriminate]. cbn in H. injection H as <-.
    cbn [key_get]. destruct (list_eqb Nat.eqb e e0) eqn:Ee.
    - apply (list_eqb_eq Nat.eqb Nat.eqb_eq) in Ee. subst e0. eauto.
    - destruct Hin as [->|Hin].
      + assert (list_eqb Nat.eqb e e = true) by (apply (list_eqb_eq Nat.eqb Nat.eqb_eq); reflexivity). congruence.
      + apply (IH vals' e eq_refl Hin).
  Qed.

  Lemma vals_keys (g : list nat -> result val) : forall l vals,
    mapM (fun e => do v <- g e; Ok (e, v)) l = Ok vals -> map fst vals = l.
  Proof.
    induction l as [|e0 l IH]; intros vals H; cbn in H.
    - now injection H as <-.
    - destruct (g e0); [|discriminate]. cbn in H. destruct (mapM _ l) eqn:El; [|discriminate]. cbn in H.
      injection H as <-. cbn. f_equal. now apply IH.
  Qed.

  Lemma dict_to_array_ok vals :
    mapM (fun e => do v <- sub_value a mask e; Ok (e, v)) (all_indices ext) = Ok vals ->
    dict_to_array vals (shp a) mask = Ok a.
  Proof.
    intros Hvals. unfold dict_to_array. fold ext int.
    assert (Hb : forallb (fun kv : list nat * val => in_bounds ext (fst kv)) vals = true).
    { apply forallb_forall. intros kv Hkv. apply all_indices_in_bounds.
      rewrite <- (vals_keys _ _ _ Hvals). now apply in_map. }
    rewrite Hb. cbn [negb].
    rewrite (dat_enumerates a); [destruct a; reflexivity | exact Hwf |].
    intros idx Hidx. destruct (idx_split idx Hidx) as [He [Hj Hm]].
    destruct (key_get_vals _ _ _ _ Hvals (in_bounds_all_indices _ _ He)) as [v [Hv Hk]].
    destruct (file_elem_sub idx v Hidx Hv) as [x [Hx [_ Hde]]].
    exists x. split; [exact Hx|]. now rewrite Hk.
  Qed.
End Reassemble.

(* ================================================================================================= *)
(* B, D. RunInfo.__post_init__ and RunInfo.load on the folder of a run                                *)

Definition base_files (ri : run_info) (inputs : list (str * pyv)) (dflt : pyv) : files :=
  map (fun kv => (PInput (fst kv), Pickled (snd kv))) inputs ++ [(PDefaults, Pickled dflt); (PRunInfo, Json (encode ri))].

Lemma with_files_id w : with_files w (w_files w) = w.
Proof. destruct w; reflexivity. Qed.

Lemma write_same w p c : fs_get (w_files w) p = Some c -> write w p c = w.
Proof. intros H. unfold write. rewrite fs_set_same by exact H. apply with_files_id. Qed.

Lemma fold_write_inputs_fresh root live : forall (inputs : list (str * pyv)) f,
  NoDup (map fst inputs) ->
  (forall kv, In kv inputs -> fs_get f (PInput (fst kv)) = None) ->
  fold_left (fun acc kv => write acc (PInput (fst kv)) (Pickled (snd kv))) inputs
            {| w_root := root; w_files := f; w_live := live |}
  = {| w_root := root; w_files := f ++ map (fun kv => (PInput (fst kv), Pickled (snd kv))) inputs; w_live := live |}.
Proof.
  induction inputs as [|[n v] inputs IH]; intros f Hnd Hfresh; cbn [fold_left map]; [now rewrite app_nil_r|].
  inversion Hnd as [|? ? Hn Hl]; subst.
  change (write {| w_root := root; w_files := f; w_live := live |} (PInput (fst (n, v))) (Pickled (snd (n, v))))
    with {| w_root := root; w_files := fs_set f (PInput n) (Pickled v); w_live := live |}.
  rewrite fs_set_fresh by (apply (Hfresh (n, v)); now left).
  rewrite IH; [now rewrite <- app_assoc|exact Hl|].
  intros kv Hkv. rewrite fs_get_app, (Hfresh kv) by (now right). cbn [fs_get].
  rewrite path_eqb_neq; [reflexivity|]. intros [= E]. apply Hn. rewrite <- E. now apply in_map.
Qed.

Lemma fs_get_inputs_other (inputs : list (str * pyv)) p :
  (forall n, p <> PInput n) -> fs_get (map (fun kv => (PInput (fst kv), Pickled (snd kv))) inputs) p = None.
Proof.
  intros H. induction inputs as [|kv l IH]; [reflexivity|]. cbn [map fs_get]. rewrite path_eqb_neq; [exact IH|apply H].
Qed.

Lemma post_init_empty root live ri inputs dflt :
  NoDup (map fst inputs) ->
  post_init {| w_root := root; w_files := []; w_live := live |} ri inputs dflt
  = {| w_root := root; w_files := base_files ri inputs dflt; w_live := live |}.
Proof.
  intros Hnd. unfold post_init. cbv zeta.
  rewrite fold_write_inputs_fresh; [|exact Hnd|intros; reflexivity]. cbn [app].
  unfold write. cbn [w_files with_files w_root w_live].
  rewrite fs_set_fresh by (apply fs_get_inputs_other; discriminate).
  rewrite fs_set_fresh.
  - unfold base_files. now rewrite <- app_assoc.
  - rewrite fs_get_app, fs_get_inputs_other by discriminate. reflexivity.
Qed.

Section BaseLookups.
  Variables (ri : run_info) (inputs : list (str * pyv)) (dflt : pyv) (rest : files).
  Hypothesis Hnd : NoDup (map fst inputs).

  Lemma get_runinfo : fs_get (base_files ri inputs dflt ++ rest) PRunInfo = Some (Json (encode ri)).
  Proof.
    unfold base_files. rewrite <- app_assoc, fs_get_app, fs_get_inputs_other by discriminate. reflexivity.
  Qed.

  Lemma get_input n v : In (n, v) inputs ->
    fs_get (base_files ri inputs dflt ++ rest) (PInput n) = Some (Pickled v).
  Proof.
    intros Hin. unfold base_files. rewrite <- app_assoc, fs_get_app.
    assert (G : fs_get (map (fun kv : str * pyv => (PInput (fst kv), Pickled (snd kv))) inputs) (PInput n) = Some (Pickled v)).
    { clear rest. induction inputs as [|[n' v'] l IH]; [contradiction|]. cbn [map fs_get fst snd path_eqb].
      inversion Hnd as [|? ? Hn Hl]; subst. destruct Hin as [[= -> ->]|Hin].
      - now rewrite str_eqb_refl.
      - destruct (str_eqb n n') eqn:E.
        + apply str_eqb_eq in E. subst n'. exfalso. apply Hn. apply (in_map fst) in Hin. exact Hin.
        + apply IH; assumption. }
    now rewrite G.
  Qed.

  Lemma get_defaults : fs_get (base_files ri inputs dflt ++ rest) PDefaults = Some (Pickled dflt).
  Proof.
    unfold base_files. rewrite <- app_assoc, fs_get_app, fs_get_inputs_other by discriminate. reflexivity.
  Qed.

  Lemma post_init_same root live :
    post_init {| w_root := root; w_files := base_files ri inputs dflt ++ rest; w_live := live |} ri inputs dflt
    = {| w_root := root; w_files := base_files ri inputs dflt ++ rest; w_live := live |}.
  Proof.
    unfold post_init. cbv zeta.
    set (w := {| w_root := root; w_files := _; w_live := live |}).
    assert (G : forall l, (forall kv, In kv l -> In kv inputs) ->
              fold_left (fun acc kv => write acc (PInput (fst kv)) (Pickled (snd kv))) l w = w).
    { induction l as [|[n v] l IH]; intros Hl; cbn [fold_left]; [reflexivity|].
      rewrite write_same.
      - apply IH. intros kv Hkv. apply Hl. now right.
      - cbn [w_files w fst snd]. apply get_input. apply Hl. now left. }
    rewrite G by auto. rewrite (write_same w PDefaults) by (cbn [w_files w]; apply get_defaults).
    apply write_same. cbn [w_files w]. apply get_runinfo.
  Qed.
End BaseLookups.

Lemma base_files_owner ri inputs dflt q c : In (q, c) (base_files ri inputs dflt) -> path_owner q = None.
Proof.
  unfold base_files. intros H. apply in_app_or in H as [H|[[= <- <-]|[[= <- <-]|[]]]]; try reflexivity.
  apply in_map_iff in H as [kv [[= <- <-] _]]. reflexivity.
Qed.

(* RunInfo.load on a folder that holds the files written by the run's own RunInfo returns that RunInfo, the
   inputs and the defaults, and re-dumps exactly what is already there *)
Lemma runinfo_load_ok ver root live ri inputs dflt rest :
  wf_run_info ri = true -> ri_run_folder ri = root -> ri_input_names ri = map fst inputs ->
  forallb (fun n => negb (mem_char "/"%char n)) (ri_input_names ri) = true ->
  let w := {| w_root := root; w_files := base_files ri inputs dflt ++ rest; w_live := live |} in
  runinfo_load ver w = Ok ({| li_info := ri; li_inputs := inputs; li_defaults := dflt |}, w).
Proof.
  intros Hwf Hroot Hnames Hslash w.
  assert (Hnd : NoDup (map fst inputs)).
  { rewrite <- Hnames. apply nodup_str_list_NoDup. unfold wf_run_info in Hwf.
    now apply andb_true_iff in Hwf as [_ Hwf]. }
  unfold runinfo_load. cbn [w_files w]. rewrite get_runinfo. cbn [bind].
  rewrite encode_fields. cbn [jtop bind]. rewrite (decode_head_encode ri Hwf). cbn [bind].
  assert (Hin : mapM (fun kv : str * str => do v <- unpickle_str w (snd kv); Ok (fst kv, v)) (p_input_paths (pre_of ri))
                = Ok inputs).
  { unfold pre_of. cbn [p_input_paths]. rewrite Hnames, Hroot. rewrite map_map.
    rewrite (mapM_map (fun x : str * pyv => (fst x, input_path_str root (fst x)))
               (fun kv : str * str => do v <- unpickle_str w (snd kv); Ok (fst kv, v)) (fun kv => kv)).
    - now rewrite map_id.
    - intros [n v] Hkv. cbn [fst snd]. unfold unpickle_str. cbn [w_root w].
      rewrite parse_input_path.
      + unfold unpickle. cbn [w_files w]. rewrite (get_input ri inputs dflt rest Hnd n v Hkv). reflexivity.
      + rewrite forallb_forall in Hslash. apply negb_true_iff. apply Hslash. rewrite Hnames.
        apply (in_map fst) in Hkv. exact Hkv. }
  rewrite Hin. cbn [bind]. rewrite decode_defaults_path_encode. cbn [bind].
  unfold unpickle_str at 1. cbn [w_root w]. rewrite Hroot, parse_defaults_path.
  unfold unpickle at 1. cbn [w_files w]. rewrite get_defaults. cbn [bind].
  rewrite decode_tail_encode. cbn [bind]. rewrite Hroot. cbn [w_root]. rewrite str_eqb_refl. cbn [negb].
  subst w. rewrite post_init_same by exact Hnd. reflexivity.
Qed.

(* ================================================================================================= *)
(* E. the files of the outputs                                                                        *)

(* the persisted dict of a full array: external key -> value *)
Definition vals_of (a : nd str) (mask : list bool) : result (list (list nat * val)) :=
  mapM (fun e => do v <- sub_value a mask e; Ok (e, v)) (all_indices (ext_of mask (shp a))).

(* the storage object init_store builds for an output of a finished run *)
Definition item_of (persist : bool) (d : out_desc) : result sitem :=
  match d with
  | OSingle o _ => Ok (SPath o)
  | OMapped o FileArrayK mask a => Ok (SFileArr o (shp a) mask)
  | OMapped o _ mask a =>
      if persist then do vals <- vals_of a mask; Ok (SDictArr o (shp a) mask vals)
      else Ok (SDictArr o (shp a) mask [])
  end.

Lemma out_files_owner legacy persist i d fs lv :
  out_files legacy persist i d = Ok (fs, lv) -> forall q c, In (q, c) fs -> path_owner q = Some (od_name d).
Proof.
  destruct d as [o k mask a|o v]; cbn [out_files od_name].
  - destruct (mapM _ _) as [vals|]; [|discriminate]. cbn [bind].
    destruct k; intros [= <- <-] q c Hin.
    + destruct Hin as [[= <- <-]|Hin]; [reflexivity|]. apply in_map_iff in Hin as [ev [[= <- <-] _]]. reflexivity.
    + destruct persist; [|contradiction]. destruct Hin as [[= <- <-]|[[= <- <-]|[]]]; reflexivity.
    + destruct persist; [|contradiction]. destruct Hin as [[= <- <-]|[[= <- <-]|[]]]; reflexivity.
  - intros [= <- <-] q c [[= <- <-]|[]]. reflexivity.
Qed.

Lemma fs_get_none_owner f p : (forall q c, In (q, c) f -> path_owner q <> path_owner p) -> fs_get f p = None.
Proof.
  intros H. rewrite <- (app_nil_r f). rewrite fs_get_skip by exact H. reflexivity.
Qed.

Lemma flat_files_lookup legacy persist : forall (l : list (nat * out_desc)) fl i d p,
  mapM (fun nd => out_files legacy persist (fst nd) (snd nd)) l = Ok fl ->
  NoDup (map (fun nd => od_name (snd nd)) l) -> In (i, d) l -> path_owner p = Some (od_name d) ->
  exists fs lv, out_files legacy persist i d = Ok (fs, lv) /\ fs_get (flat_map fst fl) p = fs_get fs p.
Proof.
  induction l as [|[i0 d0] l IH]; intros fl i d p Hfl Hnd Hin Hp; [contradiction|].
  cbn [mapM fst snd] in Hfl. destruct (out_files legacy persist i0 d0) as [[fs0 lv0]|] eqn:E0; [|discriminate].
  cbn [bind] in Hfl. destruct (mapM _ l) as [fl'|] eqn:El; [|discriminate]. cbn [bind] in Hfl. injection Hfl as <-.
  cbn [map snd] in Hnd. inversion Hnd as [|? ? Hn Hl]; subst. cbn [flat_map fst].
  destruct Hin as [[= -> ->]|Hin].
  - exists fs0, lv0. split; [exact E0|]. rewrite fs_get_app.
    destruct (fs_get fs0 p) eqn:G; [reflexivity|].
    apply fs_get_none_owner. intros q c Hq. rewrite Hp. intros Eq.
    apply in_flat_map in Hq as [[fs1 lv1] [Hfl1 Hq]]. cbn [fst] in Hq.
    destruct (In_nth_error _ _ Hfl1) as [n Hn1].
    assert (exists nd, nth_error l n = Some nd /\ out_files legacy persist (fst nd) (snd nd) = Ok (fs1, lv1)) as [nd [Hnd1 Hof]].
    { clear -El Hn1. revert fl' n El Hn1. induction l as [|x l IH]; intros fl' n El Hn1; cbn in El.
      - injection El as <-. destruct n; discriminate.
      - destruct (out_files legacy persist (fst x) (snd x)) eqn:Ex; [|discriminate]. cbn in El.
        destruct (mapM _ l) eqn:El'; [|discriminate]. cbn in El. injection El as <-.
        destruct n as [|n]; cbn in Hn1.
        + injection Hn1 as ->. exists x. split; [reflexivity|exact Ex].
        + destruct (IH _ _ eq_refl Hn1) as [nd [H1 H2]]. exists nd. split; assumption. }
    rewrite (out_files_owner _ _ _ _ _ _ Hof q c Hq) in Eq. injection Eq as Eq.
    apply Hn. rewrite <- Eq. apply nth_error_In in Hnd1.
    apply (in_map (fun nd => od_name (snd nd))) in Hnd1. exact Hnd1.
  - destruct (IH fl' i d p eq_refl Hl Hin Hp) as [fs [lv [Hof Hget]]].
    exists fs, lv. split; [exact Hof|]. rewrite fs_get_skip; [exact Hget|].
    intros q c Hq. rewrite (out_files_owner _ _ _ _ _ _ E0 q c Hq), Hp. intros [= Eq].
    apply Hn. rewrite Eq. apply (in_map (fun nd => od_name (snd nd))) in Hin. exact Hin.
Qed.

Lemma in_combine_seq {A} (l : list A) x : In x l -> exists i, In (i, x) (combine (seq 0 (length l)) l).
Proof.
  intros H. apply In_nth_error in H as [n Hn]. exists n.
  apply (nth_error_In _ n). 
  assert (G : forall (l : list A) k n x, nth_error l n = Some x -> nth_error (combine (seq k (length l)) l) n = Some (k + n, x)).
  { clear. induction l as [|y l IH]; intros k n x H; [destruct n; discriminate|].
    destruct n as [|n]; cbn in *.
    - injection H as ->. now rewrite Nat.add_0_r.
    - rewrite (IH (S k) n x H). f_equal. f_equal. lia. }
  now apply (G l 0 n x).
Qed.

Lemma map_snd_combine_seq {A} (l : list A) k : map snd (combine (seq k (length l)) l) = l.
Proof. revert k. induction l as [|x l IH]; intros k; cbn; [reflexivity|]. now rewrite IH. Qed.

Lemma ext_int_length {A} (mask : list bool) : forall (l : list A),
  length mask = length l -> length mask = length (ext_of mask l) + length (int_of mask l).
Proof.
  induction mask as [|[|] m IH]; intros [|x l] H; cbn in *; try discriminate; auto;
    injection H as H; rewrite (IH l H) at 1; lia.
Qed.

Lemma fs_get_In f p c : fs_get f p = Some c -> In (p, c) f.
Proof.
  induction f as [|[q d] f IH]; [discriminate|]. cbn [fs_get].
  destruct (path_eqb p q) eqn:E.
  - apply path_eqb_eq in E. subst q. intros [= ->]. now left.
  - intros H. right. now apply IH.
Qed.

Lemma NoDup_names_eq descs d d' :
  NoDup (map od_name descs) -> In d descs -> In d' descs -> od_name d = od_name d' -> d = d'.
Proof.
  induction descs as [|x l IH]; intros Hnd Hd Hd' E; [contradiction|].
  cbn in Hnd. inversion Hnd as [|? ? Hx Hl]; subst.
  destruct Hd as [->|Hd], Hd' as [->|Hd']; auto.
  - exfalso. apply Hx. rewrite E. now apply in_map.
  - exfalso. apply Hx. rewrite <- E. now apply in_map.
Qed.

Section RunWorld.
  Variables (root : str) (live : list (nat * list (list nat * val))).
  Variables (ri : run_info) (inputs : list (str * pyv)) (dflt : pyv).
  Variables (persist : bool) (descs : list out_desc).
  Variable fl : list (files * list (nat * list (list nat * val))).
  Hypothesis Hfl : mapM (fun nd => out_files false persist (fst nd) (snd nd)) (combine (seq 0 (length descs)) descs) = Ok fl.
  Hypothesis Hnames : NoDup (map od_name descs).

  Let W := {| w_root := root; w_files := base_files ri inputs dflt ++ flat_map fst fl; w_live := live |}.

  Lemma world_lookup d p : In d descs -> path_owner p = Some (od_name d) ->
    exists i fs lv, out_files false persist i d = Ok (fs, lv) /\ fs_get (w_files W) p = fs_get fs p.
  Proof.
    intros Hd Hp. destruct (in_combine_seq descs d Hd) as [i Hi].
    destruct (flat_files_lookup false persist _ fl i d p Hfl) as [fs [lv [Hof Hget]]]; auto.
    - rewrite <- (map_map snd od_name). now rewrite map_snd_combine_seq.
    - exists i, fs, lv. split; [exact Hof|]. cbn [w_files W]. rewrite fs_get_skip; [exact Hget|].
      intros q c Hq. rewrite Hp, (base_files_owner _ _ _ _ _ Hq). discriminate.
  Qed.

  Lemma world_files_owner q c : In (q, c) (w_files W) ->
    path_owner q = None \/ exists i d fs lv, In d descs /\ out_files false persist i d = Ok (fs, lv) /\ In (q, c) fs.
  Proof.
    cbn [w_files W]. intros H. apply in_app_or in H as [H|H].
    - left. eapply base_files_owner; eauto.
    - right. apply in_flat_map in H as [[fs lv] [Hfs Hq]]. cbn [fst] in Hq.
      destruct (In_nth_error _ _ Hfs) as [n Hn].
      assert (G : forall (l : list (nat * out_desc)) fl n, mapM (fun nd => out_files false persist (fst nd) (snd nd)) l = Ok fl ->
                  nth_error fl n = Some (fs, lv) -> exists nd, In nd l /\ out_files false persist (fst nd) (snd nd) = Ok (fs, lv)).
      { clear. induction l as [|x l IH]; intros fl n El Hn; cbn in El.
        - injection El as <-. destruct n; discriminate.
        - destruct (out_files false persist (fst x) (snd x)) eqn:Ex; [|discriminate]. cbn in El.
          destruct (mapM _ l) eqn:El'; [|discriminate]. cbn in El. injection El as <-.
          destruct n as [|n]; cbn in Hn.
          + injection Hn as ->. exists x. split; [now left|exact Ex].
          + destruct (IH _ _ eq_refl Hn) as [nd [H1 H2]]. exists nd. split; [now right|assumption]. }
      destruct (G _ _ _ Hfl Hn) as [[i d] [Hin Hof]]. cbn [fst snd] in Hof.
      exists i, d, fs, lv. repeat split; try assumption.
      apply (in_map snd) in Hin. rewrite map_snd_combine_seq in Hin. exact Hin.
  Qed.

  (* single outputs *)
  Lemma single_file o v : In (OSingle o v) descs -> fs_get (w_files W) (PSingle o) = Some (Pickled (PVal v)).
  Proof.
    intros Hd. destruct (world_lookup (OSingle o v) (PSingle o) Hd eq_refl) as [i [fs [lv [Hof Hget]]]].
    cbn in Hof. injection Hof as <- <-. rewrite Hget. cbn. now rewrite str_eqb_refl.
  Qed.

  (* element files of a FileArray output *)
  Lemma elem_files o mask a : In (OMapped o FileArrayK mask a) descs ->
    fs_get (w_files W) (PArrDir o) = Some Dir
    /\ forall e, in_bounds (ext_of mask (shp a)) e = true ->
         exists v, sub_value a mask e = Ok v
                   /\ fs_get (w_files W) (PElem o (ravel (ext_of mask (shp a)) e)) = Some (Pickled (PVal v)).
  Proof.
    intros Hd. split.
    - destruct (world_lookup _ (PArrDir o) Hd eq_refl) as [i [fs [lv [Hof Hget]]]].
      cbn [out_files] in Hof. cbv zeta in Hof. destruct (mapM _ (all_indices _)) as [vals|]; [|discriminate]. cbn [bind] in Hof.
      injection Hof as <- <-. rewrite Hget. cbn. now rewrite str_eqb_refl.
    - intros e He.
      destruct (world_lookup _ (PElem o (ravel (ext_of mask (shp a)) e)) Hd eq_refl) as [i [fs [lv [Hof Hget]]]].
      cbn [out_files] in Hof. cbv zeta in Hof. destruct (mapM _ (all_indices _)) as [vals|] eqn:Ev; [|discriminate]. cbn [bind] in Hof.
      injection Hof as <- <-. rewrite Hget. cbn [fs_get path_eqb]. clear Hget.
      set (ext := ext_of mask (shp a)) in *.
      assert (G : forall l vals, mapM (fun e => do v <- sub_value a mask e; Ok (e, v)) l = Ok vals ->
                  (forall e', In e' l -> in_bounds ext e' = true) -> In e l ->
                  exists v, sub_value a mask e = Ok v /\
                    fs_get (map (fun ev : list nat * val => (PElem o (ravel ext (fst ev)), Pickled (PVal (snd ev)))) vals)
                           (PElem o (ravel ext e)) = Some (Pickled (PVal v))).
      { clear Ev vals. induction l as [|e0 l IH]; intros vals Hv Hb Hin; [contradiction|].
        cbn in Hv. destruct (sub_value a mask e0) as [v0|] eqn:E0; [|discriminate]. cbn in Hv.
        destruct (mapM _ l) as [vals'|] eqn:El; [|discriminate]. cbn in Hv. injection Hv as <-.
        cbn [map fs_get fst snd path_eqb]. rewrite str_eqb_refl. cbn [andb].
        destruct (ravel ext e =? ravel ext e0) eqn:Er.
        - apply Nat.eqb_eq in Er.
          assert (e = e0).
          { rewrite <- (unravel_ravel ext e He), <- (unravel_ravel ext e0) by (apply Hb; now left). now rewrite Er. }
          subst e0. eauto.
        - destruct Hin as [->|Hin]; [now rewrite Nat.eqb_refl in Er|].
          apply (IH vals' eq_refl); [intros; apply Hb; now right|exact Hin]. }
      apply (G _ _ Ev); [apply all_indices_in_bounds|now apply in_bounds_all_indices].
  Qed.

  (* the persisted dict of a dict-kind output *)
  Lemma dict_file o k mask a : In (OMapped o k mask a) descs -> k <> FileArrayK -> persist = true ->
    exists vals, vals_of a mask = Ok vals
                 /\ fs_get (w_files W) (PArrDir o) = Some Dir
                 /\ fs_get (w_files W) (PDictFile o) = Some (Pickled (PDict vals)).
  Proof.
    intros Hd Hk Hp.
    destruct (world_lookup _ (PArrDir o) Hd eq_refl) as [i [fs [lv [Hof Hget]]]].
    destruct (world_lookup _ (PDictFile o) Hd eq_refl) as [i' [fs' [lv' [Hof' Hget']]]].
    cbn [out_files] in Hof, Hof'. cbv zeta in Hof, Hof'. unfold vals_of.
    destruct (mapM _ (all_indices _)) as [vals|]; [|discriminate]. cbn [bind] in Hof, Hof'. exists vals. split; [reflexivity|].
    rewrite Hp in Hof, Hof'. destruct k; try contradiction; injection Hof as <- <-; injection Hof' as <- <-;
      rewrite Hget, Hget'; cbn; rewrite str_eqb_refl; auto.
  Qed.

  (* without persist_memory a dict-kind output leaves no dict file *)
  Lemma dict_absent o k mask a : In (OMapped o k mask a) descs -> k <> FileArrayK -> persist = false ->
    fs_get (w_files W) (PDictFile o) = None.
  Proof.
    intros Hd Hk Hp.
    destruct (world_lookup _ (PDictFile o) Hd eq_refl) as [i [fs [lv [Hof Hget]]]].
    cbn [out_files] in Hof. cbv zeta in Hof. destruct (mapM _ (all_indices _)); [|discriminate]. cbn [bind] in Hof.
    rewrite Hp in Hof. rewrite Hget. destruct k; try contradiction; injection Hof as <- <-; reflexivity.
  Qed.

  (* _init_arrays on the folder of the run: the storage objects described by item_of, no change to the folder *)
  Lemma init_array_ok o k mask a : In (OMapped o k mask a) descs -> nd_wf a = true -> length mask = length (shp a) ->
    exists it, item_of persist (OMapped o k mask a) = Ok it /\ init_array W k o (shp a) mask = Ok (it, W).
  Proof.
    intros Hd Hwf Hm. unfold init_array.
    rewrite <- (ext_int_length mask (shp a) Hm), Nat.eqb_refl. cbn [negb].
    destruct k eqn:Ek.
    - exists (SFileArr o (shp a) mask). split; [reflexivity|].
      destruct (elem_files o mask a Hd) as [Hdir _]. unfold mkdir. now rewrite Hdir.
    - destruct (Bool.bool_dec persist true) as [Ep|Ep]; [|apply Bool.not_true_is_false in Ep].
      + destruct (dict_file o DictK mask a Hd ltac:(discriminate) Ep) as [vals [Hv [Hdir Hfile]]].
        exists (SDictArr o (shp a) mask vals). cbn [item_of]. rewrite Ep, Hv. split; [reflexivity|].
        rewrite Hfile. unfold unpickle. rewrite Hfile. reflexivity.
      + exists (SDictArr o (shp a) mask []). cbn [item_of]. rewrite Ep. split; [reflexivity|].
        rewrite (dict_absent o DictK mask a Hd ltac:(discriminate) Ep). reflexivity.
    - destruct (Bool.bool_dec persist true) as [Ep|Ep]; [|apply Bool.not_true_is_false in Ep].
      + destruct (dict_file o SharedDictK mask a Hd ltac:(discriminate) Ep) as [vals [Hv [Hdir Hfile]]].
        exists (SDictArr o (shp a) mask vals). cbn [item_of]. rewrite Ep, Hv. split; [reflexivity|].
        rewrite Hfile. unfold unpickle. rewrite Hfile. reflexivity.
      + exists (SDictArr o (shp a) mask []). cbn [item_of]. rewrite Ep. split; [reflexivity|].
        rewrite (dict_absent o SharedDictK mask a Hd ltac:(discriminate) Ep). reflexivity.
  Qed.
End RunWorld.

(* ================================================================================================= *)
(* E'. RunInfo.init_store on the folder of a run                                                      *)

Lemma dict_get_set {V} (d : list (str * V)) k v k' :
  dict_get (dict_set d k v) k' = if str_eqb k' k then Some v else dict_get d k'.
Proof.
  induction d as [|[k0 v0] d IH]; cbn.
  - reflexivity.
  - destruct (str_eqb k k0) eqn:E; cbn.
    + apply str_eqb_eq in E. subst k0. destruct (str_eqb k' k); reflexivity.
    + rewrite IH. destruct (str_eqb k' k0) eqn:E2; [|reflexivity].
      apply str_eqb_eq in E2. subst k0. destruct (str_eqb k' k) eqn:E3; [|reflexivity].
      apply str_eqb_eq in E3. subst k'. now rewrite str_eqb_refl in E.
Qed.

Lemma fold_dict_set_combine {V} (f : str -> V) : forall names st o,
  dict_get (fold_left (fun st na => dict_set st (fst na) (snd na)) (combine names (map f names)) st) o
  = if mem_str o names then Some (f o) else dict_get st o.
Proof.
  induction names as [|n names IH]; intros st o; cbn [map combine fold_left mem_str]; [reflexivity|].
  rewrite IH. cbn [fst snd]. rewrite dict_get_set.
  destruct (mem_str o names) eqn:Em.
  - now rewrite orb_true_r.
  - rewrite orb_false_r. destruct (str_eqb o n) eqn:E; [|reflexivity]. apply str_eqb_eq in E. now subst.
Qed.

Lemma fold_spath_get : forall names (st : store_t) o,
  dict_get (fold_left (fun st o => match dict_get st o with Some _ => st | None => st ++ [(o, SPath o)] end) names st) o
  = match dict_get st o with Some it => Some it | None => if mem_str o names then Some (SPath o) else None end.
Proof.
  induction names as [|n names IH]; intros st o; cbn [fold_left mem_str].
  - destruct (dict_get st o); reflexivity.
  - rewrite IH. destruct (dict_get st n) eqn:En.
    + destruct (dict_get st o) eqn:Eo; [reflexivity|].
      destruct (str_eqb o n) eqn:E; [|reflexivity]. apply str_eqb_eq in E. subst. congruence.
    + rewrite dict_get_app. destruct (dict_get st o) eqn:Eo; [reflexivity|]. cbn.
      destruct (str_eqb o n) eqn:E; cbn; [|reflexivity]. apply str_eqb_eq in E. now subst.
Qed.

Definition store_step (ri : run_info) (acc : result (store_t * world)) (spec : str) : result (store_t * world) :=
  do sw <- acc;
  do ms <- parse spec;
  do key <- get_or (name_mapping_get (ri_shapes ri) (map aname (outs ms))) KeyError;
  match ins ms with
  | [] => Ok sw
  | _ :: _ =>
      do sh <- get_or (odict_get (ri_shapes ri) key) KeyError;
      do mask <- get_or (odict_get (ri_shape_masks ri) key) KeyError;
      do kind <- storage_class (ri_storage ri) key;
      do aw <- fold_left (fun acc2 o => do aw <- acc2;
                                       do iw <- init_array (snd aw) kind o sh mask;
                                       Ok (fst aw ++ [fst iw], snd iw))
                         (at_least_tuple key) (Ok ([], snd sw));
      Ok (fold_left (fun st na => dict_set st (fst na) (snd na)) (combine (map aname (outs ms)) (fst aw)) (fst sw),
          snd aw)
  end.

Lemma init_store_unfold w ri :
  init_store w ri = do sw <- fold_left (store_step ri) (ri_mapspecs ri) (Ok ([], w));
                    Ok (fold_left (fun st o => match dict_get st o with Some _ => st | None => st ++ [(o, SPath o)] end)
                                  (ri_all_output_names ri) (fst sw), snd sw).
Proof. reflexivity. Qed.

Lemma str_in_dec (x : str) l : {In x l} + {~ In x l}.
Proof. apply in_dec. apply list_eq_dec. apply ascii_dec. Qed.

Section Reload.
  Variables (ver root : str) (live : list (nat * list (list nat * val))).
  Variables (ri : run_info) (inputs : list (str * pyv)) (dflt : pyv).
  Variables (persist : bool) (descs : list out_desc).
  Variable fl : list (files * list (nat * list (list nat * val))).
  Hypothesis Hfl : mapM (fun nd => out_files false persist (fst nd) (snd nd)) (combine (seq 0 (length descs)) descs) = Ok fl.
  Hypothesis Hnames : NoDup (map od_name descs).

  Let W := {| w_root := root; w_files := base_files ri inputs dflt ++ flat_map fst fl; w_live := live |}.

  (* what the recorded MapSpec strings, shapes, masks and storage must say about the outputs of the run *)
  Definition spec_consistent (x : str) : Prop :=
    exists ms, parse x = Ok ms /\
      exists key, name_mapping_get (ri_shapes ri) (map aname (outs ms)) = Some key /\
      (ins ms = [] \/
       exists sh mask kind,
         odict_get (ri_shapes ri) key = Some sh /\ odict_get (ri_shape_masks ri) key = Some mask /\
         storage_class (ri_storage ri) key = Ok kind /\
         at_least_tuple key = map aname (outs ms) /\
         Forall (fun o => exists a, In (OMapped o kind mask a) descs /\ shp a = sh /\ nd_wf a = true
                                    /\ length mask = length sh) (map aname (outs ms))).

  Definition has_item (o : str) (it : sitem) : Prop :=
    exists d, In d descs /\ od_name d = o /\ item_of persist d = Ok it.

  Lemma init_arrays_fold kind sh mask : forall names acc,
    Forall (fun o => exists a, In (OMapped o kind mask a) descs /\ shp a = sh /\ nd_wf a = true /\ length mask = length sh) names ->
    exists items,
      fold_left (fun acc2 o => do aw <- acc2; do iw <- init_array (snd aw) kind o sh mask; Ok (fst aw ++ [fst iw], snd iw))
                names (Ok (acc, W)) = Ok (acc ++ items, W)
      /\ Forall2 has_item names items.
  Proof.
    induction names as [|o names IH]; intros acc Hall.
    - exists []. split; [now rewrite app_nil_r|constructor].
    - inversion Hall as [|? ? [a [Hd [Hsh [Hwf Hm]]]] Hall']; subst.
      destruct (init_array_ok root live ri inputs dflt persist descs fl Hfl Hnames o kind mask a Hd Hwf Hm) as [it [Hit Hinit]].
      fold W in Hinit. cbn [fold_left bind snd fst]. rewrite Hinit. cbn [bind fst snd].
      destruct (IH (acc ++ [it]) Hall') as [items [Hfold Hitems]].
      exists (it :: items). split.
      + rewrite Hfold. now rewrite <- app_assoc.
      + constructor; [|exact Hitems]. exists (OMapped o kind mask a). auto.
  Qed.

  Lemma store_step_ok x st : spec_consistent x ->
    exists st', store_step ri (Ok (st, W)) x = Ok (st', W)
      /\ forall o, (In o (mapped_outs x) -> exists it, has_item o it /\ dict_get st' o = Some it)
                   /\ (~ In o (mapped_outs x) -> dict_get st' o = dict_get st o).
  Proof.
    intros [ms [Hparse [key [Hkey Hcase]]]].
    unfold store_step, mapped_outs. rewrite Hparse. cbn [bind]. rewrite Hkey. cbn [get_or bind].
    destruct Hcase as [Hins|[sh [mask [kind [Hsh [Hmk [Hkind [Hat Hall]]]]]]]].
    - rewrite Hins. exists st. split; [reflexivity|]. intros o. split; [contradiction|reflexivity].
    - destruct (ins ms) as [|i0 irest] eqn:Eins.
      + exists st. split; [reflexivity|]. intros o. split; [contradiction|reflexivity].
      + rewrite Hsh, Hmk, Hkind. cbn [get_or bind snd fst]. rewrite Hat.
        destruct (init_arrays_fold kind sh mask (map aname (outs ms)) [] Hall) as [items [Hfold Hitems]].
        rewrite Hfold. cbn [bind fst snd app].
        eexists. split; [reflexivity|].
        (* the items, as a function of the name *)
        set (names := map aname (outs ms)) in *.
        assert (Hfun : exists f : str -> sitem, items = map f names /\ forall o, In o names -> has_item o (f o)).
        { clear -Hitems Hnames. induction Hitems as [|o it names items Hit _ IH].
          - exists (fun o => SPath o). split; [reflexivity|contradiction].
          - destruct IH as [f [Hf Hall]].
            exists (fun o' => if str_eqb o' o then it else f o'). split.
            + cbn [map]. rewrite str_eqb_refl. f_equal. rewrite Hf. apply map_ext_in.
              intros o' Ho'. destruct (str_eqb o' o) eqn:E; [|reflexivity].
              apply str_eqb_eq in E. subst o'.
              destruct (Hall o Ho') as [d1 [Hd1 [Hn1 Hi1]]]. destruct Hit as [d2 [Hd2 [Hn2 Hi2]]].
              assert (d1 = d2) by (apply (NoDup_names_eq descs); auto; congruence). subst d2. congruence.
            + intros o' [<-|Ho']; [now rewrite str_eqb_refl|].
              destruct (str_eqb o' o) eqn:E; [apply str_eqb_eq in E; now subst|]. now apply Hall. }
        destruct Hfun as [f [-> Hf]].
        intros o. rewrite fold_dict_set_combine. split.
        * intros Ho. exists (f o). split; [now apply Hf|]. apply mem_str_In in Ho. now rewrite Ho.
        * intros Ho. apply mem_str_false in Ho. now rewrite Ho.
  Qed.

  Lemma store_fold_ok : forall specs st, Forall spec_consistent specs ->
    exists st', fold_left (store_step ri) specs (Ok (st, W)) = Ok (st', W)
      /\ forall o, (In o (flat_map mapped_outs specs) -> exists it, has_item o it /\ dict_get st' o = Some it)
                   /\ (~ In o (flat_map mapped_outs specs) -> dict_get st' o = dict_get st o).
  Proof.
    induction specs as [|x specs IH]; intros st Hall.
    - exists st. split; [reflexivity|]. intros o. split; [contradiction|reflexivity].
    - inversion Hall as [|? ? Hx Hall']; subst.
      destruct (store_step_ok x st Hx) as [st1 [Hstep H1]].
      destruct (IH st1 Hall') as [st' [Hfold H2]].
      exists st'. cbn [fold_left]. rewrite Hstep. split; [exact Hfold|].
      intros o. cbn [flat_map]. split.
      + intros Hin. destruct (str_in_dec o (flat_map mapped_outs specs)) as [Hs|Hs].
        * now apply (proj1 (H2 o)).
        * rewrite (proj2 (H2 o) Hs). apply in_app_or in Hin as [Hin|Hin]; [|contradiction].
          now apply (proj1 (H1 o)).
      + intros Hnin. rewrite (proj2 (H2 o)) by (intros Hc; apply Hnin; apply in_or_app; now right).
        apply (proj2 (H1 o)). intros Hc. apply Hnin. apply in_or_app. now left.
  Qed.

  Hypothesis Hspecs : Forall spec_consistent (ri_mapspecs ri).

  Lemma init_store_ok :
    exists store, init_store W ri = Ok (store, W)
      /\ (forall o, In o (flat_map mapped_outs (ri_mapspecs ri)) -> exists it, has_item o it /\ dict_get store o = Some it)
      /\ (forall o, ~ In o (flat_map mapped_outs (ri_mapspecs ri)) -> In o (ri_all_output_names ri) ->
                    dict_get store o = Some (SPath o)).
  Proof.
    destruct (store_fold_ok (ri_mapspecs ri) [] Hspecs) as [st' [Hfold H]].
    eexists. split; [rewrite init_store_unfold; unfold store_t in *; rewrite Hfold; cbn [bind fst snd]; reflexivity|]. split.
    - intros o Ho. destruct (proj1 (H o) Ho) as [it [Hit Hget]]. exists it. split; [exact Hit|].
      rewrite fold_spath_get. now rewrite Hget.
    - intros o Ho Hin. rewrite fold_spath_get. rewrite (proj2 (H o) Ho). cbn [dict_get].
      apply mem_str_In in Hin. now rewrite Hin.
  Qed.

  (* ---------- load_outputs on the folder of the run ---------- *)
  Hypothesis Hwf : wf_run_info ri = true.
  Hypothesis Hroot : ri_run_folder ri = root.
  Hypothesis Hinputs : ri_input_names ri = map fst inputs.
  Hypothesis Hslash : forallb (fun n => negb (mem_char "/"%char n)) (ri_input_names ri) = true.

  Lemma load_outputs_head o :
    exists store, load_outputs ver W o
      = match dict_get store o with
        | None => Err KeyError
        | Some (SPath o') =>
            match fs_get (w_files W) (PSingle o') with
            | Some Dir | None => Ok (None, W)
            | Some _ => do v <- unpickle W (PSingle o'); Ok (Some v, W)
            end
        | Some (SFileArr o' sh mask) => do a <- file_to_array W o' sh mask; Ok (Some (PVal (VA a)), W)
        | Some (SDictArr _ sh mask d) => do a <- dict_to_array d sh mask; Ok (Some (PVal (VA a)), W)
        end
      /\ (forall o, In o (flat_map mapped_outs (ri_mapspecs ri)) -> exists it, has_item o it /\ dict_get store o = Some it)
      /\ (forall o, ~ In o (flat_map mapped_outs (ri_mapspecs ri)) -> In o (ri_all_output_names ri) ->
                    dict_get store o = Some (SPath o)).
  Proof.
    destruct init_store_ok as [store [Hinit [H1 H2]]]. exists store. split; [|split; assumption].
    unfold load_outputs.
    pose proof (runinfo_load_ok ver root live ri inputs dflt (flat_map fst fl) Hwf Hroot Hinputs Hslash) as Hload.
    cbv zeta in Hload. fold W in Hload. rewrite Hload. cbn [bind fst snd li_info]. rewrite Hinit. cbn [bind fst snd].
    reflexivity.
  Qed.

  (* the three cases of the theorem *)
  Theorem reload_single o v :
    In (OSingle o v) descs -> In o (ri_all_output_names ri) -> ~ In o (flat_map mapped_outs (ri_mapspecs ri)) ->
    load_outputs ver W o = Ok (Some (PVal v), W).
  Proof.
    intros Hd Hin Hnm. destruct (load_outputs_head o) as [store [-> [_ H2]]].
    rewrite (H2 o Hnm Hin).
    pose proof (single_file root live ri inputs dflt persist descs fl Hfl Hnames o v Hd) as Hs. fold W in Hs.
    rewrite Hs. unfold unpickle. rewrite Hs. reflexivity.
  Qed.

  Theorem reload_mapped o k mask a :
    In (OMapped o k mask a) descs -> In o (flat_map mapped_outs (ri_mapspecs ri)) ->
    nd_wf a = true -> length mask = length (shp a) ->
    k = FileArrayK \/ persist = true ->
    load_outputs ver W o = Ok (Some (PVal (VA a)), W).
  Proof.
    intros Hd Hin Hwfa Hm Hk. destruct (load_outputs_head o) as [store [-> [H1 _]]].
    destruct (H1 o Hin) as [it [[d [Hd' [Hn Hit]]] Hget]]. rewrite Hget.
    assert (d = OMapped o k mask a) by (apply (NoDup_names_eq descs); auto). subst d.
    destruct k.
    - cbn in Hit. injection Hit as <-.
      destruct (elem_files root live ri inputs dflt persist descs fl Hfl Hnames o mask a Hd) as [_ Hfiles].
      fold W in Hfiles. rewrite (file_to_array_ok a mask Hwfa Hm W o Hfiles). reflexivity.
    - destruct Hk as [Hk|Hk]; [discriminate|]. cbn [item_of] in Hit. rewrite Hk in Hit.
      destruct (vals_of a mask) as [vals|] eqn:Ev; [|discriminate]. cbn [bind] in Hit. injection Hit as <-.
      rewrite (dict_to_array_ok a mask Hwfa Hm vals Ev). reflexivity.
    - destruct Hk as [Hk|Hk]; [discriminate|]. cbn [item_of] in Hit. rewrite Hk in Hit.
      destruct (vals_of a mask) as [vals|] eqn:Ev; [|discriminate]. cbn [bind] in Hit. injection Hit as <-.
      rewrite (dict_to_array_ok a mask Hwfa Hm vals Ev). reflexivity.
  Qed.
  (* a dict-kind output that was not persisted reloads as a fully masked array (nothing is demanded of it) *)
  Theorem reload_unpersisted o k mask a :
    In (OMapped o k mask a) descs -> In o (flat_map mapped_outs (ri_mapspecs ri)) ->
    k <> FileArrayK -> persist = false ->
    load_outputs ver W o
    = Ok (Some (PVal (VA {| shp := shp a; dat := map (fun _ => masked_str) (all_indices (shp a)) |})), W).
  Proof.
    intros Hd Hin Hk Hp. destruct (load_outputs_head o) as [store [-> [H1 _]]].
    destruct (H1 o Hin) as [it [[d [Hd' [Hn Hit]]] Hget]]. rewrite Hget.
    assert (d = OMapped o k mask a) by (apply (NoDup_names_eq descs); auto). subst d.
    destruct k; try contradiction; cbn [item_of] in Hit; rewrite Hp in Hit; injection Hit as <-;
      unfold dict_to_array; cbn [forallb negb];
      rewrite (mapM_ok_pointwise _ (fun _ => masked_str)) by reflexivity; reflexivity.
  Qed.
End Reload.
