(* Proofs about Model/FSStore.v: what a finished run leaves in its folder reloads to the run's results,
   from any process, and reloading leaves the folder unchanged. *)
From Verif Require Import Base.Prelude Base.StrUtil Base.Index Base.NdArr Model.MapSpec Model.MapRun Model.SymBody
  Model.RunInfoCodec Model.FSStore Proofs.StrFacts Proofs.IndexFacts Proofs.RunInfoFacts.

(* ================================================================================================= *)
(* A. the finite map                                                                                  *)

Lemma path_eqb_eq a b : path_eqb a b = true <-> a = b.
Proof.
  destruct a, b; cbn; try (split; [discriminate|intros H; discriminate]); try tauto;
    try (rewrite str_eqb_eq; split; [now intros ->|now intros [= ->]]).
  rewrite andb_true_iff, str_eqb_eq, Nat.eqb_eq. split; [now intros [-> ->]|now intros [= -> ->]].
Qed.

Lemma path_eqb_refl a : path_eqb a a = true.
Proof. now apply path_eqb_eq. Qed.

Lemma path_eqb_neq a b : a <> b -> path_eqb a b = false.
Proof. intros H. destruct (path_eqb a b) eqn:E; [|reflexivity]. apply path_eqb_eq in E. contradiction. Qed.

Lemma fs_get_app f g p :
  fs_get (f ++ g) p = match fs_get f p with Some c => Some c | None => fs_get g p end.
Proof.
  induction f as [|[q c] f IH]; cbn; [reflexivity|]. destruct (path_eqb p q); [reflexivity|apply IH].
Qed.

Lemma fs_set_same f p c : fs_get f p = Some c -> fs_set f p c = f.
Proof.
  induction f as [|[q d] f IH]; cbn; [discriminate|].
  destruct (path_eqb p q) eqn:E.
  - intros [= ->]. reflexivity.
  - intros H. now rewrite IH.
Qed.

Lemma fs_set_fresh f p c : fs_get f p = None -> fs_set f p c = f ++ [(p, c)].
Proof.
  induction f as [|[q d] f IH]; cbn; [reflexivity|].
  destruct (path_eqb p q); [discriminate|]. intros H. now rewrite IH.
Qed.

Lemma fs_get_set f p c q : fs_get (fs_set f p c) q = if path_eqb q p then Some c else fs_get f q.
Proof.
  induction f as [|[r d] f IH]; cbn.
  - reflexivity.
  - destruct (path_eqb p r) eqn:E; cbn.
    + apply path_eqb_eq in E. subst r. destruct (path_eqb q p); reflexivity.
    + rewrite IH. destruct (path_eqb q r) eqn:E2; [|reflexivity].
      apply path_eqb_eq in E2. subst r. destruct (path_eqb q p) eqn:E3; [|reflexivity].
      apply path_eqb_eq in E3. subst q. now rewrite path_eqb_refl in E.
Qed.

(* which output a path belongs to *)
Definition path_owner (p : path) : option str :=
  match p with
  | PSingle o | PArrDir o | PElem o _ | PDictFile o => Some o
  | _ => None
  end.

Lemma fs_get_skip f g p :
  (forall q c, In (q, c) f -> path_owner q <> path_owner p) -> fs_get (f ++ g) p = fs_get g p.
Proof.
  intros H. rewrite fs_get_app.
  assert (E : fs_get f p = None).
  { induction f as [|[q c] f IH]; cbn; [reflexivity|].
    rewrite path_eqb_neq.
    - apply IH. intros q' c' Hin. apply (H q' c'). now right.
    - intros ->. apply (H q c); [now left|reflexivity]. }
  now rewrite E.
Qed.

(* ================================================================================================= *)
(* C. recorded path strings                                                                           *)

Lemma strip_prefix_app p r : strip_prefix p (p ++ r) = Some r.
Proof. induction p as [|a p IH]; cbn; [reflexivity|]. now rewrite Ascii.eqb_refl. Qed.

Lemma strip_suffix_app x suf : strip_suffix suf (x ++ suf) = Some x.
Proof. unfold strip_suffix. rewrite rev_app_distr, strip_prefix_app. now rewrite rev_involutive. Qed.

Lemma parse_input_path root n :
  mem_char "/"%char n = false -> parse_path root (input_path_str root n) = Some (PInput n).
Proof.
  intros Hn. unfold parse_path, input_path_str.
  change (root ++ s "/inputs/" ++ n ++ s ".cloudpickle") with (root ++ s "/" ++ (s "inputs/" ++ n ++ s ".cloudpickle")).
  rewrite app_assoc, strip_prefix_app.
  change (str_eqb (s "inputs/" ++ n ++ s ".cloudpickle") (s "defaults/defaults.cloudpickle")) with false. cbv iota.
  change (strip_prefix (s "inputs/") (s "inputs/" ++ n ++ s ".cloudpickle")) with (Some (n ++ s ".cloudpickle")). cbv iota.
  rewrite strip_suffix_app. now rewrite Hn.
Qed.

Lemma parse_defaults_path root : parse_path root (defaults_path_str root) = Some PDefaults.
Proof.
  unfold parse_path, defaults_path_str.
  change (root ++ s "/defaults/defaults.cloudpickle") with (root ++ s "/" ++ s "defaults/defaults.cloudpickle").
  rewrite app_assoc, strip_prefix_app. reflexivity.
Qed.

(* ================================================================================================= *)
(* F. arrays: splitting a full array into per-key values and reassembling it                           *)

Lemma mapM_length {A B} (f : A -> result B) l r : mapM f l = Ok r -> length r = length l.
Proof.
  revert r. induction l as [|x l IH]; cbn; intros r H.
  - injection H as <-. reflexivity.
  - destruct (f x); [|discriminate]. cbn in H. destruct (mapM f l); [|discriminate]. cbn in H.
    injection H as <-. cbn. f_equal. now apply IH.
Qed.

Lemma mapM_nth {A B} (f : A -> result B) l r n x :
  mapM f l = Ok r -> nth_error l n = Some x -> exists y, f x = Ok y /\ nth_error r n = Some y.
Proof.
  revert r n. induction l as [|a l IH]; cbn; intros r n H Hn.
  - destruct n; discriminate.
  - destruct (f a) as [b|] eqn:Ea; [|discriminate]. cbn in H. destruct (mapM f l) as [r'|] eqn:El; [|discriminate].
    cbn in H. injection H as <-. destruct n as [|n]; cbn in *.
    + injection Hn as <-. eauto.
    + eapply IH; eauto.
Qed.

Lemma mapM_ok_pointwise {A B} (f : A -> result B) (g : A -> B) l :
  (forall x, In x l -> f x = Ok (g x)) -> mapM f l = Ok (map g l).
Proof.
  induction l as [|x l IH]; intros H; cbn; [reflexivity|].
  rewrite H by (now left). cbn. rewrite IH by (intros y Hy; apply H; now right). reflexivity.
Qed.

Lemma mapM_inv_in {A B} (f : A -> result B) l r x :
  mapM f l = Ok r -> In x l -> exists y, f x = Ok y /\ In y r.
Proof.
  intros H Hin. apply In_nth_error in Hin as [n Hn].
  destruct (mapM_nth f l r n x H Hn) as [y [Hy Hr]]. exists y. split; [exact Hy|]. eapply nth_error_In; eauto.
Qed.

(* the row-major enumeration: the element of all_indices at the linear position of idx is idx *)
Lemma all_indices_nth sh idx : in_bounds sh idx = true -> nth_error (all_indices sh) (ravel sh idx) = Some idx.
Proof.
  intros H. rewrite <- unravel_enumerates. rewrite nth_error_map.
  pose proof (ravel_lt sh idx H) as Hlt.
  rewrite (nth_error_nth' _ 0) by (now rewrite seq_length).
  rewrite seq_nth by exact Hlt. cbn. now rewrite unravel_ravel.
Qed.

Lemma all_indices_in_bounds sh idx : In idx (all_indices sh) -> in_bounds sh idx = true.
Proof.
  rewrite <- unravel_enumerates. intros H. apply in_map_iff in H as [n [<- Hn]].
  apply in_seq in Hn. apply unravel_in_bounds. lia.
Qed.

Lemma in_bounds_all_indices sh idx : in_bounds sh idx = true -> In idx (all_indices sh).
Proof. intros H. eapply nth_error_In. now apply all_indices_nth. Qed.

Lemma in_bounds_length sh : forall idx, in_bounds sh idx = true -> length idx = length sh.
Proof.
  induction sh as [|d sh IH]; intros [|k idx] H; cbn in *; try discriminate; [reflexivity|].
  apply andb_true_iff in H as [_ H]. f_equal. now apply IH.
Qed.

Lemma mapM_from_nth {A B} (F : A -> result B) : forall l r,
  length r = length l ->
  (forall n x, nth_error l n = Some x -> exists y, F x = Ok y /\ nth_error r n = Some y) ->
  mapM F l = Ok r.
Proof.
  induction l as [|a l IH]; intros r Hlen H.
  - destruct r; [reflexivity|discriminate].
  - destruct r as [|b r]; [discriminate|]. cbn.
    destruct (H 0 a eq_refl) as [y [Hy Hb]]. cbn in Hb. injection Hb as ->.
    rewrite Hy. cbn. rewrite (IH r).
    + reflexivity.
    + cbn in Hlen. lia.
    + intros n x Hn. apply (H (S n) x Hn).
Qed.

Lemma all_indices_nth_inv sh n idx :
  nth_error (all_indices sh) n = Some idx -> n < prod sh /\ idx = unravel sh n.
Proof.
  intros H. assert (Hn : n < prod sh).
  { rewrite <- all_indices_length. apply nth_error_Some. congruence. }
  split; [exact Hn|].
  rewrite <- unravel_enumerates in H. rewrite nth_error_map in H.
  rewrite (nth_error_nth' _ 0) in H by (now rewrite seq_length).
  rewrite seq_nth in H by exact Hn. cbn in H. now injection H as <-.
Qed.

(* an array is determined by its elements: dat a lists nd_get a over the row-major enumeration *)
Lemma dat_enumerates {A} (a : nd A) (F : list nat -> result A) :
  nd_wf a = true ->
  (forall idx, In idx (all_indices (shp a)) -> exists x, nd_get a idx = Some x /\ F idx = Ok x) ->
  mapM F (all_indices (shp a)) = Ok (dat a).
Proof.
  intros Hwf H. unfold nd_wf in Hwf. apply Nat.eqb_eq in Hwf.
  apply mapM_from_nth.
  - now rewrite all_indices_length.
  - intros n idx Hn. destruct (H idx (nth_error_In _ _ Hn)) as [x [Hx HF]].
    exists x. split; [exact HF|].
    apply all_indices_nth_inv in Hn as [Hlt ->].
    unfold nd_get in Hx. rewrite unravel_in_bounds in Hx by exact Hlt.
    now rewrite ravel_unravel in Hx by exact Hlt.
Qed.

Lemma in_bounds_ext_int (mask : list bool) : forall sh idx,
  in_bounds sh idx = true ->
  in_bounds (ext_of mask sh) (ext_of mask idx) = true /\ in_bounds (int_of mask sh) (int_of mask idx) = true.
Proof.
  induction mask as [|[|] m IH]; intros [|d sh] [|k idx] H; cbn in *; try discriminate; auto;
    apply andb_true_iff in H as [H1 H2]; destruct (IH sh idx H2) as [G1 G2]; rewrite ?H1, ?G1, ?G2; auto.
Qed.

Lemma int_of_length {A B} (mask : list bool) : forall (l : list A) (l' : list B),
  length l = length l' -> length (int_of mask l) = length (int_of mask l').
Proof.
  induction mask as [|[|] m IH]; intros [|x l] [|y l'] H; cbn in *; try discriminate; auto.
Qed.

Section Reassemble.
  Variable a : nd str.
  Variable mask : list bool.
  Hypothesis Hwf : nd_wf a = true.
  Hypothesis Hmask : length mask = length (shp a).

  Let ext := ext_of mask (shp a).
  Let int := int_of mask (shp a).

  Lemma idx_split idx : In idx (all_indices (shp a)) ->
    in_bounds ext (ext_of mask idx) = true /\ in_bounds int (int_of mask idx) = true
    /\ merge mask (ext_of mask idx) (int_of mask idx) = idx.
  Proof.
    intros H. apply all_indices_in_bounds in H.
    destruct (in_bounds_ext_int mask _ _ H) as [H1 H2]. repeat split; try assumption.
    apply merge_ext_int. rewrite (in_bounds_length _ _ H). now symmetry.
  Qed.

  Lemma nd_get_some idx : In idx (all_indices (shp a)) -> exists x, nd_get a idx = Some x.
  Proof.
    intros H. apply all_indices_in_bounds in H. unfold nd_get. rewrite H.
    destruct (nth_error (dat a) (ravel (shp a) idx)) eqn:E; [eauto|].
    apply nth_error_None in E. unfold nd_wf in Hwf. apply Nat.eqb_eq in Hwf.
    pose proof (ravel_lt _ _ H). lia.
  Qed.

  (* sub_value is defined on every external key, and reading position (int part of idx) of the value stored
     for (ext part of idx) gives a[idx] -- for element files and for dict entries *)
  Lemma sub_value_defined e : in_bounds ext e = true -> exists v, sub_value a mask e = Ok v.
  Proof.
    intros He. unfold sub_value. fold int.
    assert (G : forall j, in_bounds int j = true -> exists x, nd_get a (merge mask e j) = Some x).
    { intros j Hj. apply nd_get_some. apply in_bounds_all_indices.
      assert (L1 : length e = length (filter id mask)).
      { rewrite (in_bounds_length _ _ He). unfold ext. clear -Hmask. revert Hmask. generalize (shp a).
        induction mask as [|[|] m IH]; intros [|d sh] H; cbn in *; try discriminate; auto. }
      assert (L2 : length j = length (filter negb mask)).
      { rewrite (in_bounds_length _ _ Hj). unfold int. clear -Hmask. revert Hmask. generalize (shp a).
        induction mask as [|[|] m IH]; intros [|d sh] H; cbn in *; try discriminate; auto. }
      clear Hwf. revert e j He Hj L1 L2. unfold ext, int. revert Hmask. generalize (shp a).
      induction mask as [|[|] m IH]; intros [|d sh] Hm e j He Hj L1 L2; cbn in *; try discriminate.
      - destruct e, j; try discriminate. reflexivity.
      - destruct e as [|k e]; [discriminate|]. cbn in He. apply andb_true_iff in He as [Hk He].
        cbn. rewrite Hk. cbn. apply IH; auto.
      - destruct j as [|k j]; [discriminate|]. cbn in Hj. apply andb_true_iff in Hj as [Hk Hj].
        cbn. rewrite Hk. cbn. apply IH; auto. }
    destruct int as [|d t] eqn:Eint.
    - destruct (G [] eq_refl) as [x Hx]. rewrite Hx. eauto.
    - assert (exists dd, mapM (fun j => match nd_get a (merge mask e j) with Some x => Ok x | None => Err IndexError end)
                           (all_indices (d :: t)) = Ok dd) as [dd Hdd].
      { eexists. apply mapM_ok_pointwise with (g := fun j => match nd_get a (merge mask e j) with Some x => x | None => [] end).
        intros j Hj. destruct (G j (all_indices_in_bounds _ _ Hj)) as [x Hx]. now rewrite Hx. }
      rewrite Hdd. cbn [bind]. eauto.
  Qed.

  Lemma file_elem_sub idx v : In idx (all_indices (shp a)) -> sub_value a mask (ext_of mask idx) = Ok v ->
    exists x, nd_get a idx = Some x /\ file_elem v int (int_of mask idx) = Ok x
              /\ dict_elem v int (int_of mask idx) = Ok x.
  Proof.
    intros Hidx Hv. destruct (idx_split idx Hidx) as [He [Hj Hm]].
    unfold sub_value in Hv. fold int in Hv.
    destruct int as [|d t] eqn:Eint.
    - assert (Ej : int_of mask idx = []).
      { apply length_zero_iff_nil. rewrite (int_of_length mask idx (shp a)).
        - fold int. now rewrite Eint.
        - apply in_bounds_length. now apply all_indices_in_bounds. }
      rewrite Ej in Hm. rewrite Hm in Hv.
      destruct (nd_get a idx) as [x|] eqn:Ex; [|discriminate]. injection Hv as <-.
      exists x. repeat split; reflexivity.
    - destruct (mapM _ (all_indices (d :: t))) as [dd|] eqn:Edd; [|discriminate]. cbn in Hv. injection Hv as <-.
      destruct (mapM_nth _ _ _ _ _ Edd (all_indices_nth (d :: t) _ Hj)) as [y [Hy Hnth]].
      rewrite Hm in Hy. destruct (nd_get a idx) as [x|] eqn:Ex; [|discriminate]. injection Hy as <-.
      exists x. split; [reflexivity|].
      unfold file_elem, dict_elem. cbn [shp dat].
      rewrite Nat.eqb_refl. cbn [negb].
      assert (El : list_eqb Nat.eqb (d :: t) (d :: t) = true).
      { apply (list_eqb_eq Nat.eqb Nat.eqb_eq). reflexivity. }
      rewrite El. cbn [negb].
      unfold nd_get. cbn [shp dat]. rewrite Hj. rewrite Hnth. split; reflexivity.
  Qed.

  (* FileArray.to_array over the element files of a *)
  Lemma file_to_array_ok (w : world) (o : str) :
    (forall e, in_bounds ext e = true ->
       exists v, sub_value a mask e = Ok v /\ fs_get (w_files w) (PElem o (ravel ext e)) = Some (Pickled (PVal v))) ->
    file_to_array w o (shp a) mask = Ok a.
  Proof.
    intros Hfiles. unfold file_to_array. fold ext int.
    rewrite (dat_enumerates a); [destruct a; reflexivity | exact Hwf |].
    intros idx Hidx. destruct (idx_split idx Hidx) as [He [Hj Hm]].
    destruct (Hfiles _ He) as [v [Hv Hget]].
    destruct (file_elem_sub idx v Hidx Hv) as [x [Hx [Hfe _]]].
    exists x. split; [exact Hx|].
    rewrite Hget. unfold unpickle. rewrite Hget. cbn [bind]. exact Hfe.
  Qed.

  (* DictArray.to_array over the persisted dict of a *)
  Lemma key_get_vals (g : list nat -> result val) : forall l vals e,
    mapM (fun e => do v <- g e; Ok (e, v)) l = Ok vals -> In e l ->
    exists v, g e = Ok v /\ key_get vals e = Some v.
  Proof.
    induction l as [|e0 l IH]; intros vals e H Hin; [contradiction|].
    cbn in H. destruct (g e0) as [v0|] eqn:E0; [|discriminate]. cbn in H.
    destruct (mapM _ l) as [vals'|] eqn:El; [|discriminate]. cbn in H. injection H as <-.
    cbn [key_get]. destruct (list_eqb Nat.eqb e e0) eqn:Ee.
    - apply (list_eqb_eq Nat.eqb Nat.eqb_eq) in Ee. subst e0. eauto.
    - destruct Hin as [->|Hin].
      + assert (list_eqb Nat.eqb e e = true) by (apply (list_eqb_eq Nat.eqb Nat.eqb_eq); reflexivity). congruence.
      + apply (IH vals' e eq_refl Hin).
  Qed.

  Lemma vals_keys (g : list nat -> result val) : forall l vals,
    mapM (fun e => do v <- g e; Ok (e, v)) l = Ok vals -> map fst vals = l.
  Proof.
    induction l as [|e0 l IH]; intros vals H; cbn in H.
    - now injection H as <-.
    - destruct (g e0); [|discriminate]. cbn in H. destruct (mapM _ l) eqn:El; [|discriminate]. cbn in H.
      injection H as <-. cbn. f_equal. now apply IH.
  Qed.

  Lemma dict_to_array_ok vals :
    mapM (fun e => do v <- sub_value a mask e; Ok (e, v)) (all_indices ext) = Ok vals ->
    dict_to_array vals (shp a) mask = Ok a.
  Proof.
    intros Hvals. unfold dict_to_array. fold ext int.
    assert (Hb : forallb (fun kv : list nat * val => in_bounds ext (fst kv)) vals = true).
    { apply forallb_forall. intros kv Hkv. apply all_indices_in_bounds.
      rewrite <- (vals_keys _ _ _ Hvals). now apply in_map. }
    rewrite Hb. cbn [negb].
    rewrite (dat_enumerates a); [destruct a; reflexivity | exact Hwf |].
    intros idx Hidx. destruct (idx_split idx Hidx) as [He [Hj Hm]].
    destruct (key_get_vals _ _ _ _ Hvals (in_bounds_all_indices _ _ He)) as [v [Hv Hk]].
    destruct (file_elem_sub idx v Hidx Hv) as [x [Hx [_ Hde]]].
    exists x. split; [exact Hx|]. now rewrite Hk.
  Qed.
End Reassemble.

(* ================================================================================================= *)
(* B, D. RunInfo.__post_init__ and RunInfo.load on the folder of a run                                *)

Definition base_files (ri : run_info) (inputs : list (str * pyv)) (dflt : pyv) : files :=
  (PRunInfo, Json (encode ri)) :: map (fun kv => (PInput (fst kv), Pickled (snd kv))) inputs ++ [(PDefaults, Pickled dflt)].

Lemma with_files_id w : with_files w (w_files w) = w.
Proof. destruct w; reflexivity. Qed.

Lemma write_same w p c : fs_get (w_files w) p = Some c -> write w p c = w.
Proof. intros H. unfold write. rewrite fs_set_same by exact H. apply with_files_id. Qed.

Lemma fold_write_inputs_fresh root live : forall (inputs : list (str * pyv)) f,
  NoDup (map fst inputs) ->
  (forall kv, In kv inputs -> fs_get f (PInput (fst kv)) = None) ->
  fold_left (fun acc kv => write acc (PInput (fst kv)) (Pickled (snd kv))) inputs
            {| w_root := root; w_files := f; w_live := live |}
  = {| w_root := root; w_files := f ++ map (fun kv => (PInput (fst kv), Pickled (snd kv))) inputs; w_live := live |}.
Proof.
  induction inputs as [|[n v] inputs IH]; intros f Hnd Hfresh; cbn [fold_left map]; [now rewrite app_nil_r|].
  inversion Hnd as [|? ? Hn Hl]; subst.
  change (write {| w_root := root; w_files := f; w_live := live |} (PInput (fst (n, v))) (Pickled (snd (n, v))))
    with {| w_root := root; w_files := fs_set f (PInput n) (Pickled v); w_live := live |}.
  rewrite fs_set_fresh by (apply (Hfresh (n, v)); now left).
  rewrite IH; [now rewrite <- app_assoc|exact Hl|].
  intros kv Hkv. rewrite fs_get_app, (Hfresh kv) by (now right). cbn [fs_get].
  rewrite path_eqb_neq; [reflexivity|]. intros [= E]. apply Hn. rewrite <- E. now apply in_map.
Qed.

Lemma post_init_empty root live ri inputs dflt :
  NoDup (map fst inputs) ->
  post_init {| w_root := root; w_files := []; w_live := live |} ri inputs dflt
  = {| w_root := root; w_files := base_files ri inputs dflt; w_live := live |}.
Proof.
  intros Hnd. unfold post_init. cbv zeta.
  change (write {| w_root := root; w_files := []; w_live := live |} PRunInfo (Json (encode ri)))
    with {| w_root := root; w_files := [(PRunInfo, Json (encode ri))]; w_live := live |}.
  rewrite fold_write_inputs_fresh; [|exact Hnd|intros; reflexivity].
  unfold write. cbn [w_files with_files w_root w_live]. rewrite fs_set_fresh; [reflexivity|].
  cbn. induction inputs as [|[n v] l IH]; cbn; [reflexivity|]. apply IH. now inversion Hnd.
Qed.

Section BaseLookups.
  Variables (ri : run_info) (inputs : list (str * pyv)) (dflt : pyv) (rest : files).
  Hypothesis Hnd : NoDup (map fst inputs).

  Lemma get_runinfo : fs_get (base_files ri inputs dflt ++ rest) PRunInfo = Some (Json (encode ri)).
  Proof. reflexivity. Qed.

  Lemma get_input n v : In (n, v) inputs ->
    fs_get (base_files ri inputs dflt ++ rest) (PInput n) = Some (Pickled v).
  Proof.
    intros Hin. unfold base_files. cbn [app fs_get path_eqb]. rewrite <- app_assoc, fs_get_app.
    assert (G : fs_get (map (fun kv : str * pyv => (PInput (fst kv), Pickled (snd kv))) inputs) (PInput n) = Some (Pickled v)).
    { clear rest. induction inputs as [|[n' v'] l IH]; [contradiction|]. cbn [map fs_get fst snd path_eqb].
      inversion Hnd as [|? ? Hn Hl]; subst. destruct Hin as [[= -> ->]|Hin].
      - now rewrite str_eqb_refl.
      - destruct (str_eqb n n') eqn:E.
        + apply str_eqb_eq in E. subst n'. exfalso. apply Hn. apply (in_map fst) in Hin. exact Hin.
        + apply IH; assumption. }
    now rewrite G.
  Qed.

  Lemma get_defaults : fs_get (base_files ri inputs dflt ++ rest) PDefaults = Some (Pickled dflt).
  Proof.
    unfold base_files. cbn [app fs_get path_eqb]. rewrite <- app_assoc, fs_get_app.
    assert (G : fs_get (map (fun kv : str * pyv => (PInput (fst kv), Pickled (snd kv))) inputs) PDefaults = None).
    { clear. induction inputs as [|kv l IH]; [reflexivity|]. cbn. exact IH. }
    rewrite G. cbn. reflexivity.
  Qed.

  Lemma post_init_same root live :
    post_init {| w_root := root; w_files := base_files ri inputs dflt ++ rest; w_live := live |} ri inputs dflt
    = {| w_root := root; w_files := base_files ri inputs dflt ++ rest; w_live := live |}.
  Proof.
    unfold post_init. cbv zeta. rewrite (write_same _ PRunInfo) by (cbn [w_files]; apply get_runinfo).
    set (w := {| w_root := root; w_files := _; w_live := live |}).
    assert (G : forall l, (forall kv, In kv l -> In kv inputs) ->
              fold_left (fun acc kv => write acc (PInput (fst kv)) (Pickled (snd kv))) l w = w).
    { induction l as [|[n v] l IH]; intros Hl; cbn [fold_left]; [reflexivity|].
      rewrite write_same.
      - apply IH. intros kv Hkv. apply Hl. now right.
      - cbn [w_files w fst snd]. apply get_input. apply Hl. now left. }
    rewrite G by auto. apply write_same. cbn [w_files w]. apply get_defaults.
  Qed.
End BaseLookups.


(* RunInfo.load on a folder that holds the files written by the run's own RunInfo returns that RunInfo, the
   inputs and the defaults, and re-dumps exactly what is already there *)
Lemma runinfo_load_ok ver root live ri inputs dflt rest :
  wf_run_info ri = true -> ri_run_folder ri = root -> ri_input_names ri = map fst inputs ->
  forallb (fun n => negb (mem_char "/"%char n)) (ri_input_names ri) = true ->
  let w := {| w_root := root; w_files := base_files ri inputs dflt ++ rest; w_live := live |} in
  runinfo_load ver w = Ok ({| li_info := ri; li_inputs := inputs; li_defaults := dflt |}, w).
Proof.
  intros Hwf Hroot Hnames Hslash w.
  assert (Hnd : NoDup (map fst inputs)).
  { rewrite <- Hnames. apply nodup_str_list_NoDup. unfold wf_run_info in Hwf.
    now apply andb_true_iff in Hwf as [_ Hwf]. }
  unfold runinfo_load. cbn [w_files w]. rewrite get_runinfo. cbn [bind].
  rewrite encode_fields. cbn [jtop bind]. rewrite (decode_head_encode ri Hwf). cbn [bind].
  assert (Hin : mapM (fun kv : str * str => do v <- unpickle_str w (snd kv); Ok (fst kv, v)) (p_input_paths (pre_of ri))
                = Ok inputs).
  { unfold pre_of. cbn [p_input_paths]. rewrite Hnames, Hroot. rewrite map_map.
    rewrite (mapM_map (fun x : str * pyv => (fst x, input_path_str root (fst x)))
               (fun kv : str * str => do v <- unpickle_str w (snd kv); Ok (fst kv, v)) (fun kv => kv)).
    - now rewrite map_id.
    - intros [n v] Hkv. cbn [fst snd]. unfold unpickle_str. cbn [w_root w].
      rewrite parse_input_path.
      + unfold unpickle. cbn [w_files w]. rewrite (get_input ri inputs dflt rest Hnd n v Hkv). reflexivity.
      + rewrite forallb_forall in Hslash. apply negb_true_iff. apply Hslash. rewrite Hnames.
        apply (in_map fst) in Hkv. exact Hkv. }
  rewrite Hin. cbn [bind]. rewrite decode_defaults_path_encode. cbn [bind].
  unfold unpickle_str at 1. cbn [w_root w]. rewrite Hroot, parse_defaults_path.
  unfold unpickle at 1. cbn [w_files w]. rewrite get_defaults. cbn [bind].
  rewrite decode_tail_encode. cbn [bind]. rewrite Hroot. cbn [w_root]. rewrite str_eqb_refl. cbn [negb].
  subst w. rewrite post_init_same by exact Hnd. reflexivity.
Qed.
