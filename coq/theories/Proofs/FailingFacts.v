(* Proofs about Model/Failing.v (pipeline(...) / Pipeline.run with a raising user function). *)
From Verif Require Import Base.Prelude Base.StrOrd Base.Graph Model.Pipe Model.Failing.

Section PipeFailFacts.
  Variable ubody : str -> alist -> Exn.outcome str.
  Variable pick : str -> str -> str.

  Definition raises (c : call) : Prop := exists e, ubody (fst c) (snd c) = Raised e.
  Definition returns (c : call) : Prop := exists v, ubody (fst c) (snd c) = Done v.
  Definition all_return (l : list call) : Prop := Forall returns l.

  Lemma returns_not_raises : forall c, returns c -> raises c -> False.
  Proof. intros c [v Hv] [e He]. rewrite Hv in He. discriminate. Qed.

  (* the first raising invocation of a log is unique *)
  Lemma first_raise_unique : forall (l1 l1' l2 l2' : list call) c c',
    l1 ++ c :: l2 = l1' ++ c' :: l2' ->
    all_return l1 -> raises c -> all_return l1' -> raises c' ->
    l1 = l1' /\ c = c' /\ l2 = l2'.
  Proof.
    induction l1 as [|x l1 IH]; intros l1' l2 l2' c c' Heq Hd Hr Hd' Hr'.
    - destruct l1' as [|y l1'].
      + simpl in Heq. inversion Heq. auto.
      + simpl in Heq. inversion Heq; subst. inversion Hd'; subst.
        exfalso. eapply returns_not_raises; eauto.
    - destruct l1' as [|y l1'].
      + simpl in Heq. inversion Heq; subst. inversion Hd; subst.
        exfalso. eapply returns_not_raises; eauto.
      + simpl in Heq. inversion Heq; subst. inversion Hd; subst. inversion Hd'; subst.
        destruct (IH l1' l2 l2' c c' H1 H3 Hr H5 Hr') as (A & B & C). subst. auto.
  Qed.

  Definition is_other {A} (r : result A) : bool :=
    match r with Err OtherError => true | _ => false end.

  Lemma is_other_true : forall A (r : result A), is_other r = true -> r = Err OtherError.
  Proof. intros A [a|e]; simpl; try discriminate. destruct e; try discriminate. reflexivity. Qed.

  (* what one evaluation step appends to the call log *)
  Definition log_step (lg lg' : list call) {A} (r : result A) : Prop :=
    exists new, lg' = lg ++ new /\
      if is_other r then exists new' c, new = new' ++ [c] /\ all_return new' /\ raises c
      else all_return new.

  Definition rec_ok (rec : rstate -> str -> rstate * result str) : Prop :=
    forall st o st' r, rec st o = (st', r) -> log_step (log st) (log st') r.

  Lemma log_step_refl : forall lg A (r : result A), is_other r = false -> log_step lg lg r.
  Proof. intros lg A r H. exists []. rewrite app_nil_r. split; [reflexivity|]. rewrite H. constructor. Qed.

  (* sequencing: a successful (non-raising) step followed by any step *)
  Lemma log_step_trans : forall lg1 lg2 lg3 A B (r1 : result A) (r2 : result B),
    log_step lg1 lg2 r1 -> is_other r1 = false -> log_step lg2 lg3 r2 -> log_step lg1 lg3 r2.
  Proof.
    intros lg1 lg2 lg3 A B r1 r2 (n1 & E1 & H1) Hno (n2 & E2 & H2).
    rewrite Hno in H1. exists (n1 ++ n2). split.
    - subst. now rewrite app_assoc.
    - destruct (is_other r2).
      + destruct H2 as (n' & c & E & Hd & Hr). exists (n1 ++ n'), c. split.
        * subst. now rewrite app_assoc.
        * split; [apply Forall_app; auto | exact Hr].
      + apply Forall_app; auto.
  Qed.

  Lemma enc_ok : forall f a v, enc ubody f a = Ok v -> ubody f a = Done v.
  Proof. unfold enc. intros f a v H. destruct (ubody f a); inversion H. reflexivity. Qed.
  Lemma enc_err : forall f a e, enc ubody f a = Err e -> e = OtherError /\ raises (f, a).
  Proof. unfold enc, raises. intros f a e H. simpl. destruct (ubody f a) eqn:E; inversion H. eauto. Qed.

  Section WithPK.
    Variable p : pipeline.
    Variable kw : alist.

    Lemma resolve_ok : forall rec f, rec_ok rec -> forall st cur st' r,
      resolve p kw rec f st cur = (st', r) -> log_step (log st) (log st') r.
    Proof.
      intros rec f Hrec st cur st' r H. unfold resolve in H.
      destruct (aget (bound f) cur).
      { inversion H; subst. now apply log_step_refl. }
      destruct (aget kw cur).
      { inversion H; subst. now apply log_step_refl. }
      destruct (is_output p cur).
      { eapply Hrec; eauto. }
      destruct (pdefault p cur); inversion H; subst; now apply log_step_refl.
    Qed.

    Lemma get_args_ok : forall rec f, rec_ok rec -> forall ps st acc st' r,
      get_args p kw rec f ps st acc = (st', r) -> log_step (log st) (log st') r.
    Proof.
      intros rec f Hrec. induction ps as [|[cur orig] t IH]; intros st acc st' r H; simpl in H.
      - inversion H; subst. now apply log_step_refl.
      - destruct (resolve p kw rec f st cur) as [st1 rv] eqn:E.
        pose proof (resolve_ok rec f Hrec _ _ _ _ E) as H1.
        destruct rv as [v|e].
        + apply IH in H. simpl in H. eapply log_step_trans; eauto.
        + inversion H; subst.
          destruct H1 as (n & E1 & H1). exists n. split; [exact E1|]. exact H1.
    Qed.

    Lemma run_out_ok : forall fuel, rec_ok (run_out (enc ubody) pick p kw fuel).
    Proof.
      induction fuel as [|n IH]; intros st o st' r H; simpl in H.
      - inversion H; subst. now apply log_step_refl.
      - destruct (aget (res st) o).
        { inversion H; subst. now apply log_step_refl. }
        destruct (producer p o) as [f|].
        2:{ inversion H; subst. now apply log_step_refl. }
        destruct (get_args p kw (run_out (enc ubody) pick p kw n) f (params f) st []) as [st1 ra] eqn:E.
        pose proof (get_args_ok _ f IH _ _ _ _ _ E) as H1.
        destruct ra as [args|e].
        2:{ inversion H; subst. destruct H1 as (nn & E1 & H1). exists nn. split; [exact E1|exact H1]. }
        destruct (enc ubody (fname f) args) as [v|e] eqn:Eb.
        + apply enc_ok in Eb.
          assert (Hs : log_step (log st1) (log st1 ++ [(fname f, args)]) (Ok v : result str)).
          { exists [(fname f, args)]. split; [reflexivity|]. simpl. constructor; [|constructor].
            exists v. exact Eb. }
          inversion H; subst. simpl.
          destruct (aget (update_all_results pick f v (res st1)) o);
            (eapply log_step_trans; [exact H1|reflexivity|]);
            destruct Hs as (nn & E1 & H2); exists nn; (split; [exact E1|exact H2]).
        + apply enc_err in Eb. destruct Eb as [-> Hr]. inversion H; subst. simpl.
          eapply log_step_trans; [exact H1|reflexivity|].
          exists [(fname f, args)]. split; [reflexivity|]. simpl.
          exists [], (fname f, args). repeat split; [constructor|exact Hr].
    Qed.
  End WithPK.

  (* the call log of Pipe.run: either every invocation returned, or the LAST one raised and all others returned *)
  Lemma run_log_inv : forall p o kw full r lg,
    Pipe.run (enc ubody) pick p o kw full = (r, lg) ->
    if is_other r then exists lg' c, lg = lg' ++ [c] /\ all_return lg' /\ raises c
    else all_return lg.
  Proof.
    intros p o kw full r lg H. unfold Pipe.run in H.
    destruct (negb (is_node p o)). { inversion H; subst. simpl. constructor. }
    destruct (ahas kw o). { inversion H; subst. simpl. constructor. }
    destruct (run_out (enc ubody) pick p kw (S (length p)) (init_state kw) o) as [st r0] eqn:E.
    pose proof (run_out_ok p kw _ _ _ _ _ E) as (n & E1 & H1). simpl in E1. subst n.
    destruct r0 as [v|e].
    - simpl in H1. destruct (unused_kw kw st); inversion H; subst; simpl; exact H1.
    - inversion H; subst. exact H1.
  Qed.

  Lemma last_opt_snoc : forall A (l : list A) x, last_opt (l ++ [x]) = Some x.
  Proof.
    induction l as [|y l IH]; intros x; simpl; [reflexivity|].
    rewrite IH. destruct (l ++ [x]) eqn:E; [|reflexivity]. destruct l; discriminate.
  Qed.

  (* error_surfaces + call_failure_once for pipeline(...) / run *)
  Theorem run_error_surfaces : forall p o kw full lg1 c lg2 e,
    snd (Pipe.run (enc ubody) pick p o kw full) = lg1 ++ c :: lg2 ->
    all_return lg1 -> ubody (fst c) (snd c) = Raised e ->
    run_f ubody pick p o kw full = (FRaised e (note_of p c), lg1 ++ [c]) /\ lg2 = [].
  Proof.
    intros p o kw full lg1 c lg2 e Hlog Hd Hr.
    unfold run_f. destruct (Pipe.run (enc ubody) pick p o kw full) as [r lg] eqn:E.
    simpl in Hlog. subst lg. pose proof (run_log_inv _ _ _ _ _ _ E) as Hinv.
    destruct (is_other r) eqn:Eo.
    - destruct Hinv as (lg' & c' & E1 & Hd' & Hr').
      assert (Hrc : raises c) by (exists e; exact Hr).
      change (lg' ++ [c']) with (lg' ++ c' :: []) in E1.
      destruct (first_raise_unique _ _ _ _ _ _ E1 Hd Hrc Hd' Hr') as (-> & -> & ->).
      apply is_other_true in Eo. subst r. rewrite last_opt_snoc. rewrite Hr. auto.
    - exfalso. unfold all_return in Hinv. rewrite Forall_forall in Hinv.
      apply (returns_not_raises c); [apply Hinv; apply in_or_app; right; left; reflexivity|].
      exists e. exact Hr.
  Qed.

  (* soundness: whatever run_f reports as raised was raised by the user function in the last invocation of the
     log, every earlier invocation returned, and the note names exactly that invocation *)
  Theorem run_raised_sound : forall p o kw full e n lg,
    run_f ubody pick p o kw full = (FRaised e n, lg) ->
    exists lg1 c, lg = lg1 ++ [c] /\ all_return lg1 /\ ubody (fst c) (snd c) = Raised e /\ n = note_of p c.
  Proof.
    intros p o kw full e n lg H. unfold run_f in H.
    destruct (Pipe.run (enc ubody) pick p o kw full) as [r lg0] eqn:E.
    pose proof (run_log_inv _ _ _ _ _ _ E) as Hinv.
    destruct r as [v|x]; [inversion H|].
    destruct x; try (inversion H; fail). simpl in Hinv.
    destruct Hinv as (lg' & c & -> & Hd & Hr). rewrite last_opt_snoc in H.
    destruct (ubody (fst c) (snd c)) eqn:Eb; inversion H; subst.
    exists lg', c. auto.
  Qed.

  (* a user exception is never swallowed: if some invocation of the log raised, run_f reports a raise *)
  Theorem run_never_swallows : forall p o kw full c,
    In c (snd (Pipe.run (enc ubody) pick p o kw full)) -> raises c ->
    exists e n, fst (run_f ubody pick p o kw full) = FRaised e n.
  Proof.
    intros p o kw full c Hin Hr. unfold run_f.
    destruct (Pipe.run (enc ubody) pick p o kw full) as [r lg] eqn:E. simpl in Hin.
    pose proof (run_log_inv _ _ _ _ _ _ E) as Hinv.
    destruct (is_other r) eqn:Eo.
    - destruct Hinv as (lg' & c' & -> & Hd & [e He]). apply is_other_true in Eo. subst r.
      rewrite last_opt_snoc, He. simpl. eauto.
    - exfalso. unfold all_return in Hinv. rewrite Forall_forall in Hinv.
      eapply returns_not_raises; eauto.
  Qed.

  (* the failing invocation occurs exactly once in the log, as its last entry *)
  Theorem run_failure_once : forall p o kw full e n lg,
    run_f ubody pick p o kw full = (FRaised e n, lg) ->
    exists lg1 c, lg = lg1 ++ [c] /\ ~ In c lg1 /\ ubody (fst c) (snd c) = Raised e.
  Proof.
    intros p o kw full e n lg H.
    destruct (run_raised_sound _ _ _ _ _ _ _ H) as (lg1 & c & -> & Hd & Hr & _).
    exists lg1, c. repeat split; auto. intro Hin.
    unfold all_return in Hd. rewrite Forall_forall in Hd.
    eapply returns_not_raises; [apply Hd; exact Hin|exists e; exact Hr].
  Qed.

  (* reproduce(snapshot) raises the same exception (user code is a function of its keyword arguments) *)
  Theorem run_reproduce_same : forall p o kw full sn,
    run_snapshot ubody pick p o kw full = Some sn ->
    reproduce ubody sn = Raised (sn_exn sn)
    /\ exists n lg, run_f ubody pick p o kw full = (FRaised (sn_exn sn) n, lg)
                    /\ last_opt lg = Some (sn_fname sn, sn_kwargs sn).
  Proof.
    intros p o kw full sn H. unfold run_snapshot in H. unfold run_f.
    destruct (Pipe.run (enc ubody) pick p o kw full) as [r lg] eqn:E.
    destruct r as [v|x]; [discriminate|]. destruct x; try discriminate.
    destruct (last_opt lg) as [c|] eqn:El; [|discriminate].
    destruct (ubody (fst c) (snd c)) eqn:Eb; [discriminate|]. inversion H; subst. simpl.
    unfold reproduce. simpl. split; [exact Eb|].
    exists (note_of p c), lg. split; [reflexivity|]. destruct c; exact El.
  Qed.
End PipeFailFacts.

(* ---------- a concrete instance (non-vacuity of the hypotheses of run_error_surfaces) ----------
   o0 = f0(x) ; o1 = f1(p0) with the parameter p0 renamed to o0 ; the invocation f1(p0=f0(x=v)) raises *)
Definition ex_exn : exn := {| cls := s "CustomError"; eargs := [s "p"; s "q"] |}.
Definition ex_p : pipeline :=
  [mkf (s "f0") [s "o0"] [(s "x", s "x")] [] [] false;
   mkf (s "f1") [s "o1"] [(s "o0", s "p0")] [] [] false].
Definition ex_body := fail_body (s "f1(p0=f0(x=v))") ex_exn.
Definition ex_c0 : call := (s "f0", [(s "x", s "v")]).
Definition ex_c1 : call := (s "f1", [(s "p0", s "f0(x=v)")]).

Lemma example_run_surfaces :
  wf_pipeline ex_p
  /\ snd (Pipe.run (enc ex_body) Sym.pick ex_p (s "o1") [(s "x", s "v")] false) = [ex_c0] ++ ex_c1 :: []
  /\ all_return ex_body [ex_c0]
  /\ ex_body (fst ex_c1) (snd ex_c1) = Raised ex_exn
  /\ run_f ex_body Sym.pick ex_p (s "o1") [(s "x", s "v")] false
     = (FRaised ex_exn (s "f1", [(s "o0", s "f0(x=v)")]), [ex_c0; ex_c1])
  /\ exists sn, run_snapshot ex_body Sym.pick ex_p (s "o1") [(s "x", s "v")] false = Some sn
                /\ sn_fname sn = s "f1" /\ sn_kwargs sn = [(s "p0", s "f0(x=v)")] /\ sn_exn sn = ex_exn.
Proof.
  split; [vm_compute; reflexivity|]. split; [vm_compute; reflexivity|]. split.
  - constructor; [|constructor]. eexists. vm_compute. reflexivity.
  - split; [vm_compute; reflexivity|]. split; [vm_compute; reflexivity|].
    eexists. split; [vm_compute; reflexivity|]. repeat split.
Qed.
