(* Proofs about Model/FailingMap.v (Pipeline.map with a raising user function): shape of the call log,
   no later generation, what stays stored. *)
From Verif Require Import Base.Prelude Base.StrUtil Base.Index Base.NdArr Model.MapSpec Model.MapRun Model.FailingMap.

(* the first element satisfying Q after a prefix of elements satisfying P is unique when P and Q exclude each other *)
Lemma first_split_unique : forall A (P Q : A -> Prop), (forall x, P x -> Q x -> False) ->
  forall (l1 l1' l2 l2' : list A) c c',
    l1 ++ c :: l2 = l1' ++ c' :: l2' -> Forall P l1 -> Q c -> Forall P l1' -> Q c' ->
    l1 = l1' /\ c = c' /\ l2 = l2'.
Proof.
  intros A P Q Hex. induction l1 as [|x l1 IH]; intros l1' l2 l2' c c' Heq Hd Hr Hd' Hr'.
  - destruct l1' as [|y l1'].
    + simpl in Heq. inversion Heq. auto.
    + simpl in Heq. inversion Heq; subst. inversion Hd'; subst. exfalso. eauto.
  - destruct l1' as [|y l1'].
    + simpl in Heq. inversion Heq; subst. inversion Hd; subst. exfalso. eauto.
    + simpl in Heq. inversion Heq; subst. inversion Hd; subst. inversion Hd'; subst.
      destruct (IH l1' l2 l2' c c' H1 H3 Hr H5 Hr') as (A1 & B1 & C1). subst. auto.
Qed.

Section FMapFacts.
  Variable ubody : mfunc -> env -> outcome (list val).
  Variable dump_sub : bool.
  Variable stop : bool.

  Notation exec_task := (exec_task ubody dump_sub).
  Notation exec_tasks := (exec_tasks ubody dump_sub stop).
  Notation gen_run := (gen_run ubody dump_sub stop).
  Notation gens_run := (gens_run ubody dump_sub stop).
  Notation map_run_f := (map_run_f ubody dump_sub stop).
  Notation post_func := (post_func dump_sub).
  Notation post_funcs := (post_funcs dump_sub).

  Definition mraises (c : mcall) : Prop := exists e, ubody (fst c) (snd c) = Raised e.
  Definition mreturns (c : mcall) : Prop := exists v, ubody (fst c) (snd c) = Done v.
  Definition all_ret (l : list mcall) : Prop := Forall mreturns l.

  Lemma mret_not_raise : forall c, mreturns c -> mraises c -> False.
  Proof. intros c [v Hv] [e He]. rewrite Hv in He. discriminate. Qed.

  (* ------------------------------------------------------------------ one task *)
  Lemma exec_task_spec : forall st t st' r, exec_task st t = (st', r) ->
    m_env st' = m_env st /\
    match r with
    | TDone outs => exists sel, m_log st' = m_log st ++ [(t_f t, sel)] /\ ubody (t_f t) sel = Done outs
    | TRaised e c => m_log st' = m_log st ++ [c] /\ fst c = t_f t /\ ubody (fst c) (snd c) = Raised e
                     /\ m_store st' = m_store st
    | TErr _ => m_log st' = m_log st \/ exists sel, m_log st' = m_log st ++ [(t_f t, sel)] /\ mreturns (t_f t, sel)
    end.
  Proof.
    intros st t st' r H. unfold FailingMap.exec_task in H.
    destruct (match t_map t with
              | Some (ms, sh, mask, i) => select_kwargs ms (t_kw t) (ext_of mask sh) i
              | None => Ok (t_kw t) end) as [sel|e] eqn:Es.
    2:{ inversion H; subst. split; [reflexivity|]. left. reflexivity. }
    destruct (ubody (t_f t) sel) as [outs|e] eqn:Eb.
    2:{ inversion H; subst. simpl. split; [reflexivity|]. repeat split; auto. }
    destruct (negb (length outs =? length (fouts (t_f t)))).
    { inversion H; subst. simpl. split; [reflexivity|]. right. exists sel. split; [reflexivity|].
      exists outs. exact Eb. }
    destruct dump_sub.
    - simpl in H. destruct (dump_elem t outs (m_store st)) as [s'|e].
      + inversion H; subst. simpl. split; [reflexivity|]. exists sel. auto.
      + inversion H; subst. simpl. split; [reflexivity|]. right. exists sel. split; [reflexivity|].
        exists outs. exact Eb.
    - inversion H; subst. simpl. split; [reflexivity|]. exists sel. auto.
  Qed.

  (* every task appends at most one invocation, of its own function *)
  Lemma exec_task_log : forall st t st' r, exec_task st t = (st', r) ->
    exists new, m_log st' = m_log st ++ new /\ Forall (fun c => fst c = t_f t) new.
  Proof.
    intros st t st' r H. apply exec_task_spec in H. destruct H as [_ H]. destruct r.
    - destruct H as (sel & E & _). exists [(t_f t, sel)]. split; [exact E|]. repeat constructor.
    - destruct H as (E & Hf & _). exists [c]. split; [exact E|]. repeat constructor. exact Hf.
    - destruct H as [E|(sel & E & _)].
      + exists []. rewrite app_nil_r. split; [exact E|constructor].
      + exists [(t_f t, sel)]. split; [exact E|]. repeat constructor.
  Qed.

  (* ------------------------------------------------------------------ the tasks of a generation *)
  Lemma exec_tasks_env : forall ts st st' rs, exec_tasks ts st = (st', rs) -> m_env st' = m_env st.
  Proof.
    induction ts as [|t ts IH]; intros st st' rs H; simpl in H.
    - inversion H. reflexivity.
    - destruct (FailingMap.exec_task ubody dump_sub st t) as [st1 r] eqn:E.
      pose proof (exec_task_spec _ _ _ _ E) as [He _].
      destruct (is_done r || negb stop).
      + destruct (FailingMap.exec_tasks ubody dump_sub stop ts st1) as [st2 rs'] eqn:E2.
        inversion H; subst. rewrite (IH _ _ _ E2). exact He.
      + inversion H; subst. exact He.
  Qed.

  Lemma exec_tasks_log : forall ts st st' rs, exec_tasks ts st = (st', rs) ->
    exists new, m_log st' = m_log st ++ new /\ Forall (fun c => In (fst c) (map t_f ts)) new.
  Proof.
    induction ts as [|t ts IH]; intros st st' rs H; simpl in H.
    - inversion H; subst. exists []. rewrite app_nil_r. split; [reflexivity|constructor].
    - destruct (FailingMap.exec_task ubody dump_sub st t) as [st1 r] eqn:E.
      destruct (exec_task_log _ _ _ _ E) as (n1 & E1 & F1).
      assert (F1' : Forall (fun c => In (fst c) (map t_f (t :: ts))) n1).
      { eapply Forall_impl; [|exact F1]. intros c Hc. simpl. left. symmetry. exact Hc. }
      destruct (is_done r || negb stop).
      + destruct (FailingMap.exec_tasks ubody dump_sub stop ts st1) as [st2 rs'] eqn:E2.
        inversion H; subst. destruct (IH _ _ _ E2) as (n2 & E3 & F2).
        exists (n1 ++ n2). split; [rewrite E3, E1; now rewrite app_assoc|].
        apply Forall_app. split; [exact F1'|].
        eapply Forall_impl; [|exact F2]. intros c Hc. simpl. right. exact Hc.
      + inversion H; subst. exists n1. split; [exact E1|exact F1'].
  Qed.

  Lemma exec_tasks_results : forall ts st st' rs, exec_tasks ts st = (st', rs) ->
    Forall (fun tr => In (fst tr) ts) rs.
  Proof.
    induction ts as [|t ts IH]; intros st st' rs H; simpl in H.
    - inversion H; subst. constructor.
    - destruct (FailingMap.exec_task ubody dump_sub st t) as [st1 r] eqn:E.
      destruct (is_done r || negb stop).
      + destruct (FailingMap.exec_tasks ubody dump_sub stop ts st1) as [st2 rs'] eqn:E2.
        inversion H; subst. constructor; [simpl; auto|].
        eapply Forall_impl; [|exact (IH _ _ _ E2)]. intros tr Htr. simpl. right. exact Htr.
      + inversion H; subst. constructor; [simpl; auto|constructor].
  Qed.

  (* the shape of the call log w.r.t. the reported failure *)
  Inductive log_shape (lg : list mcall) : option failure -> Prop :=
  | LS_none : all_ret lg -> log_shape lg None
  | LS_user : forall e c l1 l2, lg = l1 ++ c :: l2 -> all_ret l1 -> ubody (fst c) (snd c) = Raised e ->
                                (stop = true -> l2 = []) -> log_shape lg (Some (FailUser e c))
  | LS_lib : forall x, log_shape lg (Some (FailLib x)).

  Lemma log_shape_none : forall lg, log_shape lg None -> all_ret lg.
  Proof. intros lg H. inversion H. assumption. Qed.

  Definition fail_of_results (rs : list (task * tres)) : option failure :=
    match first_fail rs with Some tr => Some (failure_of (snd tr)) | None => None end.

  Lemma exec_tasks_shape : forall ts st st' rs, all_ret (m_log st) -> exec_tasks ts st = (st', rs) ->
    log_shape (m_log st') (fail_of_results rs).
  Proof.
    induction ts as [|t ts IH]; intros st st' rs Hall H; simpl in H.
    - inversion H; subst. constructor. exact Hall.
    - destruct (FailingMap.exec_task ubody dump_sub st t) as [st1 r] eqn:E.
      pose proof (exec_task_spec _ _ _ _ E) as [_ Hs].
      destruct r as [outs|e c|x]; simpl in H.
      + destruct Hs as (sel & El & Eb).
        destruct (FailingMap.exec_tasks ubody dump_sub stop ts st1) as [st2 rs'] eqn:E2.
        inversion H; subst. unfold fail_of_results, first_fail. simpl.
        apply (IH _ _ _ ) in E2; [exact E2|].
        rewrite El. apply Forall_app. split; [exact Hall|]. constructor; [|constructor].
        exists outs. exact Eb.
      + destruct Hs as (El & Hf & Eb & _).
        destruct stop eqn:Est; simpl in H.
        * inversion H; subst. unfold fail_of_results, first_fail. simpl.
          eapply LS_user with (l1 := m_log st) (l2 := []); eauto.
        * destruct (FailingMap.exec_tasks ubody dump_sub false ts st1) as [st2 rs'] eqn:E2.
          inversion H; subst. unfold fail_of_results, first_fail. simpl.
          rewrite <- Est in E2. destruct (exec_tasks_log _ _ _ _ E2) as (n2 & E3 & _).
          eapply LS_user with (l1 := m_log st) (l2 := n2); eauto.
          -- rewrite E3, El. rewrite <- app_assoc. reflexivity.
          -- intros Hc. rewrite Est in Hc. discriminate.
      + destruct stop eqn:Est; simpl in H.
        * inversion H; subst. unfold fail_of_results, first_fail. simpl. apply LS_lib.
        * destruct (FailingMap.exec_tasks ubody dump_sub false ts st1) as [st2 rs'] eqn:E2.
          inversion H; subst. unfold fail_of_results, first_fail. simpl. apply LS_lib.
  Qed.

  (* a failing task reported as a user failure belongs to the task list and names its own function *)
  Lemma first_fail_user : forall ts st st' rs t e c, exec_tasks ts st = (st', rs) ->
    first_fail rs = Some (t, TRaised e c) -> In t ts /\ fst c = t_f t.
  Proof.
    induction ts as [|t0 ts IH]; intros st st' rs t e c H Hf; simpl in H.
    - inversion H; subst. discriminate.
    - destruct (FailingMap.exec_task ubody dump_sub st t0) as [st1 r] eqn:E.
      pose proof (exec_task_spec _ _ _ _ E) as [_ Hs].
      destruct (is_done r || negb stop) eqn:Ed.
      + destruct (FailingMap.exec_tasks ubody dump_sub stop ts st1) as [st2 rs'] eqn:E2.
        inversion H; subst. unfold first_fail in Hf. simpl in Hf.
        destruct (is_done r) eqn:Er; simpl in Hf.
        * destruct (IH _ _ _ _ _ _ E2 Hf) as [A B]. split; [right; exact A|exact B].
        * inversion Hf; subst. destruct Hs as (_ & Hfc & _). split; [left; reflexivity|exact Hfc].
      + inversion H; subst. unfold first_fail in Hf. simpl in Hf.
        destruct (is_done r) eqn:Er; simpl in Hf; [discriminate|].
        inversion Hf; subst. destruct Hs as (_ & Hfc & _). split; [left; reflexivity|exact Hfc].
  Qed.

  (* ------------------------------------------------------------------ post-processing never touches the log *)
  Lemma post_func_log : forall rs st f st', post_func rs st f = Ok st' -> m_log st' = m_log st.
  Proof.
    intros rs st f st' H. unfold FailingMap.post_func in H.
    destruct (is_mapped f).
    - destruct (if dump_sub then Ok (m_store st) else post_elems (filter (same_func f) rs) (m_store st)) as [s1|e];
        simpl in H; [|discriminate].
      destruct (mapM _ (fouts f)) as [new|e]; simpl in H; [|discriminate]. inversion H. reflexivity.
    - destruct (filter (same_func f) rs) as [|[t0 r0] l]; [discriminate|].
      destruct l; [|destruct r0; discriminate]. destruct r0 as [outs| |]; try discriminate.
      simpl in H. destruct (dump_single (combine (fouts f) outs) (m_store st)); simpl in H; [|discriminate].
      inversion H. reflexivity.
  Qed.

  Lemma post_funcs_log : forall rs fs st st', post_funcs rs fs st = Ok st' -> m_log st' = m_log st.
  Proof.
    intros rs. induction fs as [|f fs IH]; intros st st' H; simpl in H.
    - inversion H. reflexivity.
    - destruct (FailingMap.post_func dump_sub rs st f) as [st1|e] eqn:E; simpl in H; [|discriminate].
      rewrite (IH _ _ H). eapply post_func_log; eauto.
  Qed.

  (* ------------------------------------------------------------------ one generation *)
  Lemma tasks_of_funcs : forall shapes f kw ts, tasks_of shapes f kw = Ok ts -> Forall (fun t => t_f t = f) ts.
  Proof.
    intros shapes f kw ts H. unfold tasks_of in H. destruct (is_mapped f).
    - destruct (fspec f); [|discriminate]. destruct (dict_get shapes (hd [] (fouts f))) as [[sh mask]|]; [|discriminate].
      inversion H; subst. apply Forall_forall. intros t Ht. apply in_map_iff in Ht.
      destruct Ht as (i & <- & _). reflexivity.
    - inversion H; subst. repeat constructor.
  Qed.

  Lemma mapM_forall2 : forall A B (f : A -> result B) l r, mapM f l = Ok r -> Forall2 (fun a b => f a = Ok b) l r.
  Proof.
    induction l as [|a l IH]; intros r H; simpl in H.
    - inversion H. constructor.
    - destruct (f a) eqn:E; simpl in H; [|discriminate].
      destruct (mapM f l) eqn:E2; simpl in H; [|discriminate]. inversion H; subst.
      constructor; [exact E|apply IH; reflexivity].
  Qed.

  Lemma gen_tasks_funcs : forall shapes gen e ts, gen_tasks shapes gen e = Ok ts ->
    Forall (fun t => In (t_f t) gen) ts.
  Proof.
    intros shapes gen e ts H. unfold gen_tasks in H.
    destruct (mapM _ gen) as [tss|x] eqn:E; simpl in H; [|discriminate]. inversion H; subst.
    apply mapM_forall2 in E. clear H. induction E as [|f ts0 gen' tss' Hf _ IH]; simpl; [constructor|].
    apply Forall_app. split.
    - destruct (func_kwargs f e) as [kw|x]; simpl in Hf; [|discriminate].
      apply tasks_of_funcs in Hf. eapply Forall_impl; [|exact Hf]. intros t Ht. left. symmetry. exact Ht.
    - eapply Forall_impl; [|exact IH]. intros t Ht. right. exact Ht.
  Qed.

  Lemma gen_run_spec : forall shapes gen st st' rs fl,
    all_ret (m_log st) -> gen_run shapes gen st = (st', rs, fl) ->
    log_shape (m_log st') fl
    /\ (exists new, m_log st' = m_log st ++ new /\ Forall (fun c => In (fst c) gen) new)
    /\ (forall e c, fl = Some (FailUser e c) -> In (fst c) gen).
  Proof.
    intros shapes gen st st' rs fl Hall H. unfold FailingMap.gen_run in H.
    destruct (gen_tasks shapes gen (m_env st)) as [ts|x] eqn:Eg.
    2:{ inversion H; subst. split; [apply LS_lib|]. split.
        - exists []. rewrite app_nil_r. split; [reflexivity|constructor].
        - intros e c Hc. discriminate. }
    pose proof (gen_tasks_funcs _ _ _ _ Eg) as Hfun.
    destruct (FailingMap.exec_tasks ubody dump_sub stop ts st) as [st1 rs1] eqn:Ex.
    pose proof (exec_tasks_shape _ _ _ _ Hall Ex) as Hsh.
    destruct (exec_tasks_log _ _ _ _ Ex) as (new & El & Fn).
    assert (Fn' : Forall (fun c => In (fst c) gen) new).
    { eapply Forall_impl; [|exact Fn]. intros c Hc. apply in_map_iff in Hc. destruct Hc as (t & <- & Ht).
      rewrite Forall_forall in Hfun. apply Hfun. exact Ht. }
    unfold fail_of_results in Hsh.
    destruct (first_fail rs1) as [[t r]|] eqn:Ef.
    - assert (Huser : forall e c, Some (failure_of r) = Some (FailUser e c) -> In (fst c) gen).
      { intros e c Hc. destruct r; simpl in Hc; inversion Hc; subst.
        destruct (first_fail_user _ _ _ _ _ _ _ Ex Ef) as [Hin Hfc]. rewrite Hfc.
        rewrite Forall_forall in Hfun. apply Hfun. exact Hin. }
      destruct (salvage_all dump_sub (take_done rs1) gen (m_store st1)) as [s2|x] eqn:Ep.
      + inversion H; subst. simpl. split; [exact Hsh|]. split; [|exact Huser].
        exists new. split; [exact El|exact Fn'].
      + inversion H; subst. split; [apply LS_lib|]. split; [|intros e c Hc; discriminate].
        exists new. split; [exact El|exact Fn'].
    - destruct (FailingMap.post_funcs dump_sub rs1 gen st1) as [st2|x] eqn:Ep.
      + inversion H; subst. rewrite (post_funcs_log _ _ _ _ Ep). split; [exact Hsh|]. split.
        * exists new. split; [exact El|exact Fn'].
        * intros e c Hc. discriminate.
      + inversion H; subst. apply log_shape_none in Hsh. split; [apply LS_lib|]. split.
        * exists new. split; [exact El|exact Fn'].
        * intros e c Hc. discriminate.
  Qed.

  (* ------------------------------------------------------------------ the generation loop *)
  Lemma gens_run_spec : forall shapes gens st st' tr fl,
    all_ret (m_log st) -> gens_run shapes gens st = (st', tr, fl) ->
    log_shape (m_log st') fl
    /\ length tr <= length gens
    /\ (exists new, m_log st' = m_log st ++ new
                    /\ Forall (fun c => In (fst c) (concat (firstn (length tr) gens))) new)
    /\ (forall e c, fl = Some (FailUser e c) ->
          exists pre g post, gens = pre ++ g :: post /\ length tr = S (length pre) /\ In (fst c) g)
    /\ (fl = None -> length tr = length gens).
  Proof.
    intros shapes. induction gens as [|g gs IH]; intros st st' tr fl Hall H; simpl in H.
    - inversion H; subst. split; [constructor; exact Hall|]. split; [simpl; lia|]. split.
      + exists []. rewrite app_nil_r. split; [reflexivity|constructor].
      + split; [intros e c Hc; discriminate|reflexivity].
    - destruct (FailingMap.gen_run ubody dump_sub stop shapes g st) as [[st1 rs] fl1] eqn:Eg.
      destruct (gen_run_spec _ _ _ _ _ _ Hall Eg) as (Hsh & (new & El & Fn) & Hu).
      destruct fl1 as [x|].
      + inversion H; subst. split; [exact Hsh|]. split; [simpl; lia|]. split.
        * exists new. split; [exact El|]. simpl. rewrite app_nil_r.
          eapply Forall_impl; [|exact Fn]. intros c Hc. exact Hc.
        * split; [|intros Hc; discriminate].
          intros e c Hc. exists [], g, gs. split; [reflexivity|]. split; [reflexivity|]. eapply Hu; eauto.
      + destruct (FailingMap.gens_run ubody dump_sub stop shapes gs st1) as [[st2 rss] fl2] eqn:Er.
        inversion H; subst. apply log_shape_none in Hsh.
        destruct (IH _ _ _ _ Hsh Er) as (Hsh2 & Hlen & (new2 & El2 & Fn2) & Hu2 & Hn2).
        split; [exact Hsh2|]. split; [simpl; lia|]. split.
        * exists (new ++ new2). split; [rewrite El2, El; now rewrite app_assoc|].
          simpl. apply Forall_app. split.
          -- eapply Forall_impl; [|exact Fn]. intros c Hc. apply in_or_app. left. exact Hc.
          -- eapply Forall_impl; [|exact Fn2]. intros c Hc. apply in_or_app. right. exact Hc.
        * split.
          -- intros e c Hc. destruct (Hu2 _ _ Hc) as (pre & g' & post & -> & Hl & Hin).
             exists (g :: pre), g', post. split; [reflexivity|]. split; [simpl; now rewrite Hl|exact Hin].
          -- intros Hc. simpl. now rewrite (Hn2 Hc).
  Qed.

  Lemma map_run_f_spec : forall gens inputs user st tr fl,
    map_run_f gens inputs user = (st, tr, fl) ->
    log_shape (m_log st) fl
    /\ length tr <= length gens
    /\ Forall (fun c => In (fst c) (concat (firstn (length tr) gens))) (m_log st)
    /\ (forall e c, fl = Some (FailUser e c) ->
          exists pre g post, gens = pre ++ g :: post /\ length tr = S (length pre) /\ In (fst c) g).
  Proof.
    intros gens inputs user st tr fl H. unfold FailingMap.map_run_f in H.
    destruct (all_shapes user inputs (concat gens)) as [shapes|x].
    - apply gens_run_spec in H; [|constructor]. simpl in H.
      destruct H as (Hsh & Hlen & (new & El & Fn) & Hu & _). simpl in El. rewrite <- El in Fn.
      repeat split; assumption.
    - inversion H; subst. simpl. split; [apply LS_lib|].
      split; [lia|]. split; [constructor|]. intros e c Hc. discriminate.
  Qed.

  (* ================================================================== theorems *)
  (* error_surfaces: the first raising invocation of the run (in submission order) is what the call reports:
     the exception term unchanged, the note = that very invocation (function and keyword arguments); in the
     sequential path nothing runs after it.  The only other possible outcome is an exception of the LIBRARY'S OWN
     (an earlier task of the same generation whose machinery failed, or a failing dump while the completed results
     are stored): first the hypothesis-free disjunction, then the usual form. *)
  Theorem map_error_surfaces_or_lib : forall gens inputs user st tr fl lg1 c lg2 e,
    map_run_f gens inputs user = (st, tr, fl) ->
    m_log st = lg1 ++ c :: lg2 -> all_ret lg1 -> ubody (fst c) (snd c) = Raised e ->
    (fl = Some (FailUser e c) /\ (stop = true -> lg2 = [])) \/ exists x, fl = Some (FailLib x).
  Proof.
    intros gens inputs user st tr fl lg1 c lg2 e H Hlog Hd Hr.
    destruct (map_run_f_spec _ _ _ _ _ _ H) as (Hsh & _).
    assert (Hrc : mraises c) by (exists e; exact Hr).
    inversion Hsh as [Hall|e' c' l1 l2 El Hd' Hr' Hstop|x]; subst.
    - exfalso. unfold all_ret in Hall. rewrite Forall_forall in Hall. rewrite Hlog in Hall.
      apply (mret_not_raise c); [apply Hall; apply in_or_app; right; left; reflexivity|exact Hrc].
    - rewrite Hlog in El.
      destruct (first_split_unique _ mreturns mraises mret_not_raise _ _ _ _ _ _ El Hd Hrc Hd'
                  (ex_intro _ e' Hr')) as (-> & -> & ->).
      rewrite Hr in Hr'. inversion Hr'; subst. left. split; [reflexivity|exact Hstop].
    - right. eauto.
  Qed.

  Theorem map_error_surfaces : forall gens inputs user st tr fl lg1 c lg2 e,
    map_run_f gens inputs user = (st, tr, fl) ->
    m_log st = lg1 ++ c :: lg2 -> all_ret lg1 -> ubody (fst c) (snd c) = Raised e ->
    (forall x, fl <> Some (FailLib x)) ->
    fl = Some (FailUser e c) /\ (stop = true -> lg2 = []).
  Proof.
    intros gens inputs user st tr fl lg1 c lg2 e H Hlog Hd Hr Hnolib.
    destruct (map_error_surfaces_or_lib _ _ _ _ _ _ _ _ _ _ H Hlog Hd Hr) as [A|[x Hx]]; [exact A|].
    exfalso. apply (Hnolib x). exact Hx.
  Qed.

  (* soundness of a reported user failure *)
  Theorem map_raised_sound : forall gens inputs user st tr e c,
    map_run_f gens inputs user = (st, tr, Some (FailUser e c)) ->
    exists lg1 lg2, m_log st = lg1 ++ c :: lg2 /\ all_ret lg1 /\ ubody (fst c) (snd c) = Raised e
                    /\ (stop = true -> lg2 = []).
  Proof.
    intros gens inputs user st tr e c H.
    destruct (map_run_f_spec _ _ _ _ _ _ H) as (Hsh & _).
    inversion Hsh; subst. eauto 10.
  Qed.

  (* a run that reports no failure had no raising invocation *)
  Theorem map_ok_all_return : forall gens inputs user st tr,
    map_run_f gens inputs user = (st, tr, None) -> all_ret (m_log st) /\ length tr = length gens.
  Proof.
    intros gens inputs user st tr H. unfold FailingMap.map_run_f in H.
    destruct (all_shapes user inputs (concat gens)) as [shapes|x]; [|inversion H].
    apply gens_run_spec in H; [|constructor]. destruct H as (Hsh & _ & _ & _ & Hn).
    apply log_shape_none in Hsh. split; [exact Hsh|]. apply Hn. reflexivity.
  Qed.

  (* no_later_generation: `length tr` generations were started; every invocation of the log belongs to a function
     of one of them, and the failing function belongs to the LAST of them *)
  Theorem map_no_later_generation : forall gens inputs user st tr fl,
    map_run_f gens inputs user = (st, tr, fl) ->
    length tr <= length gens
    /\ Forall (fun c => In (fst c) (concat (firstn (length tr) gens))) (m_log st)
    /\ (forall e c, fl = Some (FailUser e c) ->
          exists pre g post, gens = pre ++ g :: post /\ length tr = S (length pre) /\ In (fst c) g).
  Proof.
    intros gens inputs user st tr fl H.
    destruct (map_run_f_spec _ _ _ _ _ _ H) as (_ & A & B & C). auto.
  Qed.

  (* reproduce(snapshot) raises the same exception *)
  Theorem map_reproduce_same : forall gens inputs user st tr fl sn,
    map_run_f gens inputs user = (st, tr, fl) -> map_snapshot fl = Some sn ->
    mreproduce ubody sn = Raised (snd sn) /\ fl = Some (FailUser (snd sn) (fst sn)).
  Proof.
    intros gens inputs user st tr fl [c e] H Hs. unfold map_snapshot in Hs.
    destruct fl as [[e' c'|x]|]; inversion Hs; subst.
    destruct (map_raised_sound _ _ _ _ _ _ _ H) as (lg1 & lg2 & _ & _ & Hr & _).
    split; [exact Hr|reflexivity].
  Qed.
End FMapFacts.
