(* call_failure_once at the level of FUNCTIONS: in a well-formed (acyclic, distinct names) pipeline every function
   is entered at most once per pipeline(...) / run call -- also when the call ends with a user exception -- so the
   failing function was called exactly once and nothing after it.
   Argument: memoisation (a function whose call returned has all its outputs in all_results) + the Kahn rank of the
   function graph (the arguments of f only involve functions of strictly smaller rank, so f is not entered while
   its own arguments are computed). *)
From Verif Require Import Base.Prelude Base.StrOrd Base.Graph Model.Pipe Model.Failing.
From Verif Require Import Proofs.GraphFacts Proofs.FailingFacts.

Lemma ahas_aset : forall l k v k', ahas (aset l k v) k' = ahas l k' || str_eqb k' k.
Proof.
  unfold ahas. induction l as [|[k0 v0] l IH]; intros k v k'; simpl.
  - destruct (str_eqb k' k); reflexivity.
  - destruct (str_eqb k k0) eqn:E; simpl.
    + apply str_eqb_eq in E. subst k0. destruct (str_eqb k' k); [reflexivity|]. now rewrite orb_false_r.
    + destruct (str_eqb k' k0) eqn:E'; [reflexivity|]. apply IH.
Qed.

Lemma ahas_aset_mono : forall l k v k', ahas l k' = true -> ahas (aset l k v) k' = true.
Proof. intros. rewrite ahas_aset. rewrite H. reflexivity. Qed.

Lemma NoDup_app_snoc : forall A (l : list A) x, NoDup l -> ~ In x l -> NoDup (l ++ [x]).
Proof.
  induction l as [|y l IH]; intros x Hn Hx; simpl; [constructor; [intros []|constructor]|].
  inversion Hn; subst. constructor.
  - intro Hin. apply in_app_or in Hin. destruct Hin as [Hin|[->|[]]]; [contradiction|]. apply Hx. left. reflexivity.
  - apply IH; [assumption|]. intro Hin. apply Hx. right. exact Hin.
Qed.

Section Once.
  Variable ubody : str -> alist -> Exn.outcome str.
  Variable pick : str -> str -> str.
  Variable p : pipeline.
  Variable kw : alist.
  Variable ls : list (list str).
  Hypothesis Hfuncs : forall f, In f p -> wf_func f = true.
  Hypothesis Hnames : NoDup (map fname p).
  Hypothesis Htopo : topo_generations (fgraph p) = Some ls.

  Definition rk (f : pfunc) : nat := rank_of ls (fid f).

  Lemma outs_nonempty : forall f, In f p -> In (fid f) (outs f).
  Proof.
    intros f Hf. specialize (Hfuncs f Hf). unfold wf_func in Hfuncs.
    repeat (apply andb_true_iff in Hfuncs; destruct Hfuncs as [Hfuncs ?]).
    unfold fid. destruct (outs f); [discriminate|left; reflexivity].
  Qed.

  Lemma producer_spec : forall o f, producer p o = Some f -> In f p /\ In o (outs f).
  Proof.
    intros o f H. unfold producer in H. apply find_some in H. destruct H as [A B].
    split; [exact A|]. apply mem_str_In. exact B.
  Qed.

  Lemma fname_inj : forall f g, In f p -> In g p -> fname f = fname g -> f = g.
  Proof.
    intros f g. revert Hnames. clear. induction p as [|h t IH]; intros Hnd Hf Hg E; [destruct Hf|].
    simpl in Hnd. inversion Hnd; subst. destruct Hf as [->|Hf], Hg as [->|Hg].
    - reflexivity.
    - exfalso. apply H1. rewrite E. apply in_map. exact Hg.
    - exfalso. apply H1. rewrite <- E. apply in_map. exact Hf.
    - apply IH; assumption.
  Qed.

  (* an argument that is computed recursively comes from a function of strictly smaller rank *)
  Lemma arg_rank : forall f cur g, In f p -> In cur (pnames f) -> aget (bound f) cur = None ->
    producer p cur = Some g -> rk g < rk f.
  Proof.
    intros f cur g Hf Hc Hb Hp. destruct (producer_spec _ _ Hp) as [Hg _].
    destruct (topo_rank _ _ Htopo) as [_ Hedge]. unfold rk. apply Hedge.
    - simpl. apply in_map. exact Hf.
    - simpl. apply in_map. exact Hg.
    - simpl. apply in_flat_map. exists f. split; [exact Hf|].
      apply in_map_iff. exists (fid g). split; [reflexivity|].
      apply dedup_In. apply filter_In. split.
      + unfold fpreds. apply in_flat_map. exists cur. split; [exact Hc|].
        unfold dep_node, ahas. rewrite Hb, Hp. left. reflexivity.
      + unfold is_output, producer.
        destruct (find (fun f0 => mem_str (fid g) (outs f0)) p) eqn:E; [reflexivity|].
        exfalso. pose proof (find_none _ _ E g Hg) as Hn. simpl in Hn.
        apply mem_str_not_In in Hn. apply Hn. apply outs_nonempty. exact Hg.
  Qed.

  (* a log entry of a function of rank <= K / < K *)
  Definition ent_le (K : nat) (c : call) : Prop := exists g, In g p /\ fname g = fst c /\ rk g <= K.
  Definition ent_lt (K : nat) (c : call) : Prop := exists g, In g p /\ fname g = fst c /\ rk g < K.

  (* memoisation invariant: a function that was entered (and returned) has all its outputs in all_results *)
  Definition memo (st : rstate) : Prop :=
    forall g, In g p -> In (fname g) (map fst (log st)) -> forall o, In o (outs g) -> ahas (res st) o = true.

  Definition rk_out (o : str) : nat := match producer p o with Some f => rk f | None => 0 end.

  Definition good (st st' : rstate) {A} (r : result A) (P : call -> Prop) : Prop :=
    exists new, log st' = log st ++ new /\ Forall P new /\ NoDup (map fst (log st'))
                /\ (is_ok r = true -> memo st').

  Definition rec_good (rec : rstate -> str -> rstate * result str) : Prop :=
    forall st o st' r, rec st o = (st', r) -> memo st -> NoDup (map fst (log st)) ->
      good st st' r (ent_le (rk_out o)).

  Lemma good_refl : forall st A (r : result A) P, memo st -> NoDup (map fst (log st)) -> good st st r P.
  Proof. intros st A r P Hm Hn. exists []. rewrite app_nil_r. repeat split; auto. Qed.

  Lemma resolve_good : forall rec f, rec_good rec -> In f p -> forall st cur st' r,
    In cur (pnames f) -> resolve p kw rec f st cur = (st', r) -> memo st -> NoDup (map fst (log st)) ->
    good st st' r (ent_lt (rk f)).
  Proof.
    intros rec f Hrec Hf st cur st' r Hc H Hm Hn. unfold resolve in H.
    destruct (aget (bound f) cur) eqn:Eb. { inversion H; subst. now apply good_refl. }
    destruct (aget kw cur). { inversion H; subst. now apply good_refl. }
    destruct (is_output p cur) eqn:Eo.
    - destruct (Hrec _ _ _ _ H Hm Hn) as (new & El & Fn & Hnd & Hmemo).
      exists new. repeat split; auto. unfold is_output in Eo.
      destruct (producer p cur) as [g|] eqn:Ep; [|discriminate].
      pose proof (arg_rank f cur g Hf Hc Eb Ep) as Hlt.
      eapply Forall_impl; [|exact Fn]. intros c (g0 & Hg0 & Hname & Hle).
      unfold rk_out in Hle. rewrite Ep in Hle. exists g0. repeat split; auto. lia.
    - destruct (pdefault p cur); inversion H; subst; now apply good_refl.
  Qed.

  Lemma get_args_good : forall rec f, rec_good rec -> In f p -> forall ps st acc st' r,
    incl (map fst ps) (pnames f) ->
    get_args p kw rec f ps st acc = (st', r) -> memo st -> NoDup (map fst (log st)) ->
    good st st' r (ent_lt (rk f)).
  Proof.
    intros rec f Hrec Hf. induction ps as [|[cur orig] t IH]; intros st acc st' r Hincl H Hm Hn; simpl in H.
    - inversion H; subst. now apply good_refl.
    - destruct (resolve p kw rec f st cur) as [st1 rv] eqn:E.
      assert (Hc : In cur (pnames f)) by (apply Hincl; left; reflexivity).
      destruct (resolve_good rec f Hrec Hf _ _ _ _ Hc E Hm Hn) as (n1 & E1 & F1 & N1 & M1).
      destruct rv as [v|e].
      + assert (Hm1 : memo (st_use st1 cur)) by (apply M1; reflexivity).
        assert (Hincl' : incl (map fst t) (pnames f)) by (intros x Hx; apply Hincl; right; exact Hx).
        destruct (IH _ _ _ _ Hincl' H Hm1 N1) as (n2 & E2 & F2 & N2 & M2). simpl in E2.
        exists (n1 ++ n2). split; [rewrite E2, E1; now rewrite app_assoc|].
        split; [apply Forall_app; auto|]. split; auto.
      + inversion H; subst. exists n1. repeat split; auto; try (intros Hc'; discriminate).
  Qed.

  Lemma update_all_results_has : forall f r rs o, In f p -> In o (outs f) ->
    ahas (update_all_results pick f r rs) o = true.
  Proof.
    intros f r rs o Hf Ho. unfold update_all_results. destruct (multi f) eqn:Em.
    - revert rs. generalize (outs f) Ho. clear. intros l. induction l as [|n l IH]; intros Ho rs; [destruct Ho|].
      simpl. destruct Ho as [->|Ho].
      + assert (G : forall l acc, ahas acc o = true ->
                     ahas (fold_left (fun acc n => if ahas acc n then acc else aset acc n (pick n r)) l acc) o = true).
        { clear. induction l as [|n l IH]; intros acc H; simpl; [exact H|].
          apply IH. destruct (ahas acc n); [exact H|now apply ahas_aset_mono]. }
        apply G. destruct (ahas rs o) eqn:E; [exact E|]. rewrite ahas_aset, str_eqb_refl. apply orb_true_r.
      + apply IH. exact Ho.
    - pose proof (outs_nonempty f Hf) as Hfid. unfold multi in Em. apply Nat.ltb_ge in Em.
      unfold fid in *. destruct (outs f) as [|o0 [|o1 t]]; [destruct Ho| |simpl in Em; lia].
      destruct Ho as [->|[]]. simpl. rewrite ahas_aset, str_eqb_refl. apply orb_true_r.
  Qed.

  Lemma update_all_results_mono : forall f r rs o, ahas rs o = true -> ahas (update_all_results pick f r rs) o = true.
  Proof.
    intros f r rs o H. unfold update_all_results. destruct (multi f).
    - revert rs H. induction (outs f) as [|n l IH]; intros rs H; simpl; [exact H|].
      apply IH. destruct (ahas rs n); [exact H|now apply ahas_aset_mono].
    - now apply ahas_aset_mono.
  Qed.

  Lemma run_out_good : forall fuel, rec_good (run_out (enc ubody) pick p kw fuel).
  Proof.
    induction fuel as [|n IH]; intros st o st' r H Hm Hn; simpl in H.
    - inversion H; subst. now apply good_refl.
    - destruct (aget (res st) o) eqn:Ea. { inversion H; subst. now apply good_refl. }
      destruct (producer p o) as [f|] eqn:Ep. 2:{ inversion H; subst. now apply good_refl. }
      destruct (producer_spec _ _ Ep) as [Hf Ho].
      destruct (get_args p kw (run_out (enc ubody) pick p kw n) f (params f) st []) as [st1 ra] eqn:E.
      destruct (get_args_good _ f IH Hf (params f) st [] st1 ra (incl_refl _) E Hm Hn) as (n1 & E1 & F1 & N1 & M1).
      assert (F1' : Forall (ent_le (rk_out o)) n1).
      { eapply Forall_impl; [|exact F1]. intros c (g & Hg & Hname & Hlt). exists g. repeat split; auto.
        unfold rk_out. rewrite Ep. lia. }
      destruct ra as [args|e].
      2:{ inversion H; subst. exists n1. repeat split; auto; try (intros Hc; discriminate). }
      (* f is entered now: it was not entered before *)
      assert (Hfresh : ~ In (fname f) (map fst (log st1))).
      { rewrite E1, map_app. intro Hin. apply in_app_or in Hin. destruct Hin as [Hin|Hin].
        - specialize (Hm f Hf Hin o Ho). unfold ahas in Hm. rewrite Ea in Hm. discriminate.
        - apply in_map_iff in Hin. destruct Hin as (c & Ec & Hc). rewrite Forall_forall in F1.
          destruct (F1 c Hc) as (g & Hg & Hname & Hlt). rewrite Ec in Hname.
          assert (g = f) by (apply fname_inj; auto). subst g. lia. }
      assert (Hself : ent_le (rk_out o) (fname f, args)).
      { exists f. repeat split; auto. unfold rk_out. rewrite Ep. lia. }
      assert (Hnd2 : NoDup (map fst (log st1 ++ [(fname f, args)]))).
      { rewrite map_app. simpl. apply NoDup_app_snoc; assumption. }
      destruct (enc ubody (fname f) args) as [v|e] eqn:Eb.
      + assert (Hres : exists rr, (st', r) = (st_res (st_log st1 (fname f, args)) (update_all_results pick f v (res st1)), rr)).
        { simpl in H. destruct (aget (update_all_results pick f v (res st1)) o); inversion H; eauto. }
        destruct Hres as (rr & Hres). inversion Hres; subst. clear Hres H.
        exists (n1 ++ [(fname f, args)]). simpl. split; [rewrite E1; now rewrite app_assoc|].
        split; [apply Forall_app; split; [exact F1'|constructor; [exact Hself|constructor]]|].
        split; [exact Hnd2|]. intros _.
        intros g Hg Hin o' Ho'. simpl in *. rewrite map_app in Hin. apply in_app_or in Hin.
        destruct Hin as [Hin|[Hin|[]]].
        * apply update_all_results_mono. apply (M1 eq_refl g Hg Hin o' Ho').
        * simpl in Hin. assert (g = f) by (apply fname_inj; auto). subst g.
          apply update_all_results_has; assumption.
      + inversion H; subst. exists (n1 ++ [(fname f, args)]). simpl. split; [rewrite E1; now rewrite app_assoc|].
        split; [apply Forall_app; split; [exact F1'|constructor; [exact Hself|constructor]]|].
        split; [exact Hnd2|]. intros Hc. discriminate.
  Qed.
End Once.

(* ---------- every function is entered at most once per call, also when the call raises ---------- *)
Theorem run_calls_once : forall (ubody : str -> alist -> Exn.outcome str) pick p o kw full,
  wf_pipeline p -> NoDup (map fst (snd (Pipe.run (enc ubody) pick p o kw full))).
Proof.
  intros ubody pick p o kw full Hwf. unfold wf_pipeline, wf_pipelineb in Hwf.
  apply andb_true_iff in Hwf. destruct Hwf as [Hwf Hacyc].
  apply andb_true_iff in Hwf. destruct Hwf as [Hwf _].
  apply andb_true_iff in Hwf. destruct Hwf as [Hwf Hnames].
  apply andb_true_iff in Hwf. destruct Hwf as [Hfuncs _].
  apply nodup_strb_NoDup in Hnames. rewrite forallb_forall in Hfuncs.
  unfold acyclicb in Hacyc. destruct (topo_generations (fgraph p)) as [ls|] eqn:Htopo; [|discriminate].
  unfold Pipe.run.
  destruct (negb (is_node p o)); [simpl; constructor|].
  destruct (ahas kw o); [simpl; constructor|].
  destruct (run_out (enc ubody) pick p kw (S (length p)) (init_state kw) o) as [st r] eqn:E.
  assert (Hm : memo p (init_state kw)) by (intros g _ Hin; destruct Hin).
  assert (Hn : NoDup (map fst (log (init_state kw)))) by constructor.
  destruct (run_out_good ubody pick p kw ls Hfuncs Hnames Htopo _ _ _ _ _ E Hm Hn) as (new & _ & _ & Hnd & _).
  destruct r as [v|e]; [destruct (unused_kw kw st)|]; simpl; exact Hnd.
Qed.

(* call_failure_once, function level: the failing FUNCTION was entered exactly once, as the last invocation *)
Theorem run_failure_function_once : forall (ubody : str -> alist -> Exn.outcome str) pick p o kw full e n lg,
  wf_pipeline p ->
  run_f ubody pick p o kw full = (FRaised e n, lg) ->
  exists lg1 c, lg = lg1 ++ [c] /\ ~ In (fst c) (map fst lg1) /\ ubody (fst c) (snd c) = Raised e
                /\ NoDup (map fst lg).
Proof.
  intros ubody pick p o kw full e n lg Hwf H.
  destruct (run_raised_sound _ _ _ _ _ _ _ _ _ H) as (lg1 & c & -> & _ & Hr & _).
  pose proof (run_calls_once ubody pick p o kw full Hwf) as Hnd.
  assert (Hlog : snd (Pipe.run (enc ubody) pick p o kw full) = lg1 ++ [c]).
  { unfold run_f in H. destruct (Pipe.run (enc ubody) pick p o kw full) as [r l]. simpl.
    destruct r as [v|x]; [inversion H|]. destruct x; try (inversion H; fail).
    destruct (last_opt l) as [c0|]; [|inversion H]. destruct (ubody (fst c0) (snd c0)); inversion H. reflexivity. }
  rewrite Hlog in Hnd. exists lg1, c. repeat split; auto.
  rewrite map_app in Hnd. simpl in Hnd. apply NoDup_remove_2 in Hnd. rewrite app_nil_r in Hnd. exact Hnd.
Qed.
