(* Executor path, EVERY SCHEDULE: the outcome of a task of a generation (returned values / the user's exception /
   a library error) and its contribution to the call log do not depend on the state in which it is executed -- the
   tasks of a generation read only the results of EARLIER generations (their kwargs are fixed at submission) and
   write to the stores of their own function.  Hence, for every order in which an executor runs the tasks of a
   generation, the list of (task, outcome) pairs is the same up to that order, the call log is a permutation, and
   the failure reported by _process_generation -- the first failing task in SUBMISSION order -- is the same.
   (Model/FailingMap.exec_tasks with stop = false executes in submission order; this file shows that the choice is
   immaterial.) *)
From Coq Require Import Permutation.
From Verif Require Import Base.Prelude Base.StrUtil Base.Index Base.NdArr Model.MapSpec Model.MapRun Model.FailingMap.
From Verif Require Import Proofs.GraphFacts Proofs.FailingMapFacts Proofs.FailingStoreFacts.

(* two stores hold the same KIND of entry under every name *)
Definition same_kind (x y : option stored) : Prop :=
  match x, y with
  | Some (SArr _ _ _), Some (SArr _ _ _) => True
  | Some (SVal _), Some (SVal _) => True
  | None, None => True
  | _, _ => False
  end.
Definition skind (s s' : store_t) : Prop := forall o, same_kind (dict_get s o) (dict_get s' o).

Lemma skind_refl : forall s, skind s s.
Proof. intros s o. unfold same_kind. destruct (dict_get s o) as [[? ? ?|?]|]; exact I. Qed.

Lemma skind_sym : forall s s', skind s s' -> skind s' s.
Proof.
  intros s s' H o. specialize (H o). unfold same_kind in *.
  destruct (dict_get s o) as [[? ? ?|?]|], (dict_get s' o) as [[? ? ?|?]|]; auto.
Qed.

Lemma skind_trans : forall s1 s2 s3, skind s1 s2 -> skind s2 s3 -> skind s1 s3.
Proof.
  intros s1 s2 s3 H1 H2 o. specialize (H1 o). specialize (H2 o). unfold same_kind in *.
  destruct (dict_get s1 o) as [[? ? ?|?]|], (dict_get s2 o) as [[? ? ?|?]|], (dict_get s3 o) as [[? ? ?|?]|]; auto;
    contradiction.
Qed.

Lemma skind_set_arr : forall s s' o sh m st sh' m' st', skind s s' ->
  skind (store_set s o (SArr sh m st)) (store_set s' o (SArr sh' m' st')).
Proof.
  intros s s' o sh m st sh' m' st' H o0. destruct (str_eq_dec o o0) as [->|Hne].
  - rewrite !get_set_same. exact I.
  - rewrite !get_set_other by exact Hne. apply H.
Qed.

Lemma sto_dump_indep : forall sh mask key v st st2,
  match sto_dump sh mask key v st with
  | Ok _ => exists r, sto_dump sh mask key v st2 = Ok r
  | Err e => sto_dump sh mask key v st2 = Err e
  end.
Proof.
  intros sh mask key v st st2. unfold sto_dump.
  destruct v as [x|a]; destruct (int_of mask sh) as [|d t]; try reflexivity.
  - eexists. reflexivity.
  - destruct (negb (list_eqb Nat.eqb (shp a) (d :: t))); [reflexivity|].
    destruct (mapM _ (all_indices (d :: t))) as [l|e]; simpl; [eexists; reflexivity|reflexivity].
Qed.

Lemma dump_outs_kind : forall sh mask key os vs s s', skind s s' ->
  match dump_outs sh mask key os vs s with
  | Ok s1 => exists s1', dump_outs sh mask key os vs s' = Ok s1' /\ skind s1 s1'
  | Err e => dump_outs sh mask key os vs s' = Err e
  end.
Proof.
  intros sh mask key. induction os as [|o os IH]; intros vs s s' H; simpl.
  - exists s'. auto.
  - destruct vs as [|v vs]; [exists s'; auto|].
    pose proof (H o) as Ho. unfold same_kind in Ho.
    destruct (dict_get s o) as [[sh1 m1 st1|?]|], (dict_get s' o) as [[sh2 m2 st2|?]|]; try contradiction; try reflexivity.
    pose proof (sto_dump_indep sh mask key v st1 st2) as Hd.
    destruct (sto_dump sh mask key v st1) as [st1'|e]; simpl.
    + destruct Hd as [st2' Hd]. rewrite Hd. simpl. apply IH. apply skind_set_arr. exact H.
    + rewrite Hd. reflexivity.
Qed.

Lemma dump_elem_kind : forall t outs s s', skind s s' ->
  match dump_elem t outs s with
  | Ok s1 => exists s1', dump_elem t outs s' = Ok s1' /\ skind s1 s1'
  | Err e => dump_elem t outs s' = Err e
  end.
Proof.
  intros t outs s s' H. unfold dump_elem. destruct (t_map t) as [[[[ms sh] mask] i]|].
  - destruct (output_key ms (ext_of mask sh) i) as [key|e]; simpl; [apply dump_outs_kind; exact H|reflexivity].
  - exists s'. auto.
Qed.

Lemma dump_outs_self_kind : forall sh mask key os vs s s1, dump_outs sh mask key os vs s = Ok s1 -> skind s s1.
Proof.
  intros sh mask key. induction os as [|o0 os IH]; intros vs s s1 E1; simpl in E1.
  - inversion E1; subst. apply skind_refl.
  - destruct vs as [|v vs]; [inversion E1; subst; apply skind_refl|].
    destruct (dict_get s o0) as [[sh' m' st0|?]|] eqn:Eg; try discriminate.
    destruct (sto_dump sh mask key v st0) as [st0'|e]; simpl in E1; [|discriminate].
    apply IH in E1. eapply skind_trans; [|exact E1]. intros o1.
    destruct (str_eq_dec o0 o1) as [->|Hne].
    + rewrite get_set_same, Eg. exact I.
    + rewrite get_set_other by exact Hne. apply skind_refl.
Qed.

Lemma dump_elem_self_kind : forall t outs s s1, dump_elem t outs s = Ok s1 -> skind s s1.
Proof.
  intros t outs s s1 E1. unfold dump_elem in E1. destruct (t_map t) as [[[[ms sh] mask] i]|].
  - destruct (output_key ms (ext_of mask sh) i) as [key|e]; simpl in E1; [|discriminate].
    eapply dump_outs_self_kind; eauto.
  - inversion E1; subst. apply skind_refl.
Qed.

Section Sched.
  Variable ubody : mfunc -> env -> outcome (list val).
  Variable dump_sub : bool.

  (* what a task appends to the call log: a function of the task alone *)
  Definition task_call (t : task) : list mcall :=
    match (match t_map t with
           | Some (ms, sh, mask, i) => select_kwargs ms (t_kw t) (ext_of mask sh) i
           | None => Ok (t_kw t)
           end) with
    | Ok sel => [(t_f t, sel)]
    | Err _ => []
    end.

  (* a task executed in two states whose stores have the same kinds: same outcome, same log contribution *)
  Lemma exec_task_indep : forall st st' t st1 r st1' r',
    skind (m_store st) (m_store st') ->
    exec_task ubody dump_sub st t = (st1, r) -> exec_task ubody dump_sub st' t = (st1', r') ->
    r = r' /\ skind (m_store st1) (m_store st1')
    /\ m_log st1 = m_log st ++ task_call t /\ m_log st1' = m_log st' ++ task_call t
    /\ skind (m_store st) (m_store st1).
  Proof.
    intros st st' t st1 r st1' r' Hk H H'. unfold exec_task in H, H'. unfold task_call.
    destruct (match t_map t with
              | Some (ms, sh, mask, i) => select_kwargs ms (t_kw t) (ext_of mask sh) i
              | None => Ok (t_kw t) end) as [sel|e].
    2:{ inversion H; inversion H'; subst. rewrite !app_nil_r. repeat split; auto. apply skind_refl. }
    destruct (ubody (t_f t) sel) as [outs|e].
    2:{ inversion H; inversion H'; subst. simpl. repeat split; auto. apply skind_refl. }
    destruct (negb (length outs =? length (fouts (t_f t)))).
    { inversion H; inversion H'; subst. simpl. repeat split; auto. apply skind_refl. }
    destruct dump_sub.
    - simpl in H, H'. pose proof (dump_elem_kind t outs _ _ Hk) as Hd.
      pose proof (dump_elem_kind t outs _ _ (skind_refl (m_store st))) as Hself.
      destruct (dump_elem t outs (m_store st)) as [s1|e] eqn:E1.
      + destruct Hd as (s1' & E2 & Hk1). rewrite E2 in H'. inversion H; inversion H'; subst. simpl.
        repeat split; auto.
        eapply dump_elem_self_kind; eauto.
      + rewrite Hd in H'. inversion H; inversion H'; subst. simpl. repeat split; auto. apply skind_refl.
    - inversion H; inversion H'; subst. simpl. repeat split; auto. apply skind_refl.
  Qed.

  (* the outcome of task t when it is run first, from the state at the start of the generation *)
  Definition outcome_of (st0 : mstate) (t : task) : tres := snd (exec_task ubody dump_sub st0 t).

  (* executor path: whatever ran before, every task has the outcome it would have if it ran first *)
  Lemma exec_tasks_outcomes : forall ts st0 st st' rs,
    skind (m_store st0) (m_store st) ->
    exec_tasks ubody dump_sub false ts st = (st', rs) ->
    rs = map (fun t => (t, outcome_of st0 t)) ts
    /\ m_log st' = m_log st ++ flat_map task_call ts
    /\ skind (m_store st0) (m_store st').
  Proof.
    induction ts as [|t ts IH]; intros st0 st st' rs Hk H; simpl in H.
    - inversion H; subst. simpl. rewrite app_nil_r. auto.
    - destruct (exec_task ubody dump_sub st t) as [st1 r] eqn:E.
      rewrite orb_true_r in H.
      destruct (exec_tasks ubody dump_sub false ts st1) as [st2 rs'] eqn:E2. inversion H; subst.
      destruct (exec_task ubody dump_sub st0 t) as [st01 r0] eqn:E0.
      destruct (exec_task_indep _ _ _ _ _ _ _ Hk E0 E) as (Hr & _ & _ & Hl & _).
      destruct (exec_task_indep _ _ _ _ _ _ _ (skind_refl _) E E) as (_ & _ & _ & _ & Hself).
      destruct (IH st0 st1 _ _ (skind_trans _ _ _ Hk Hself) E2) as (Hrs & Hlog & Hk2).
      simpl. split; [|split].
      + f_equal; [|exact Hrs]. unfold outcome_of. rewrite E0. simpl. now rewrite Hr.
      + rewrite Hlog, Hl. now rewrite app_assoc.
      + exact Hk2.
  Qed.

  (* EVERY SCHEDULE: run the tasks of a generation in any order *)
  Theorem exec_tasks_every_schedule : forall ts ts' st st1 rs st1' rs',
    Permutation ts ts' ->
    exec_tasks ubody dump_sub false ts st = (st1, rs) ->
    exec_tasks ubody dump_sub false ts' st = (st1', rs') ->
    Permutation rs rs'                                   (* the same outcome for every task *)
    /\ Permutation (m_log st1) (m_log st1')              (* the same invocations *)
    /\ (forall t, In t ts -> forall r, In (t, r) rs' -> r = outcome_of st t)
    /\ rs = map (fun t => (t, outcome_of st t)) ts.      (* in submission order: what exec_tasks ts reports *)
  Proof.
    intros ts ts' st st1 rs st1' rs' Hp H H'.
    destruct (exec_tasks_outcomes _ st _ _ _ (skind_refl _) H) as (Hrs & Hlog & _).
    destruct (exec_tasks_outcomes _ st _ _ _ (skind_refl _) H') as (Hrs' & Hlog' & _).
    split; [rewrite Hrs, Hrs'; apply Permutation_map; exact Hp|].
    split.
    - rewrite Hlog, Hlog'. apply Permutation_app_head.
      clear -Hp. induction Hp; simpl.
      + constructor.
      + apply Permutation_app_head. exact IHHp.
      + rewrite !app_assoc. apply Permutation_app_tail. apply Permutation_app_comm.
      + eapply Permutation_trans; eauto.
    - split; [|exact Hrs]. intros t Ht r Hin. rewrite Hrs' in Hin. apply in_map_iff in Hin.
      destruct Hin as (t' & E & _). inversion E; subst. reflexivity.
  Qed.

  (* the failure reported from a schedule's results, picked in SUBMISSION order, is the model's first_fail *)
  Definition first_fail_in (ts : list task) (res : task -> tres) : option (task * tres) :=
    find (fun tr => negb (is_done (snd tr))) (map (fun t => (t, res t)) ts).

  Corollary reported_failure_schedule_free : forall ts st st1 rs,
    exec_tasks ubody dump_sub false ts st = (st1, rs) ->
    first_fail rs = first_fail_in ts (outcome_of st).
  Proof.
    intros ts st st1 rs H. destruct (exec_tasks_outcomes _ st _ _ _ (skind_refl _) H) as (-> & _ & _). reflexivity.
  Qed.
End Sched.
