(* Proofs about the STORES of Model/FailingMap.v: what has been dumped stays dumped (arrays only grow, a single
   value is only overwritten by the function that owns the name), hence the results of completed generations and --
   for storages that dump in the worker -- every completed element of a mapped function are still in the store
   when the map raises. *)
From Verif Require Import Base.Prelude Base.StrUtil Base.Index Base.NdArr Model.MapSpec Model.MapRun Model.FailingMap.
From Verif Require Import Proofs.GraphFacts Proofs.FailingMapFacts.

(* ------------------------------------------------------------------ store_set / dict_get *)
Lemma get_set_same : forall (s : store_t) k v, dict_get (store_set s k v) k = Some v.
Proof.
  induction s as [|[k' v'] s IH]; intros k v; simpl.
  - now rewrite str_eqb_refl.
  - destruct (str_eqb k k') eqn:E; simpl; rewrite E; [reflexivity|apply IH].
Qed.

Lemma get_set_other : forall (s : store_t) k k' v, k <> k' -> dict_get (store_set s k v) k' = dict_get s k'.
Proof.
  induction s as [|[k0 v0] s IH]; intros k k' v Hne; simpl.
  - destruct (str_eqb k' k) eqn:E; [apply str_eqb_eq in E; congruence|reflexivity].
  - destruct (str_eqb k k0) eqn:E; simpl.
    + apply str_eqb_eq in E. subst k0. destruct (str_eqb k' k) eqn:E'; [apply str_eqb_eq in E'; congruence|reflexivity].
    + destruct (str_eqb k' k0); [reflexivity|apply IH; exact Hne].
Qed.

Lemma sto_dump_app : forall sh mask key v st st', sto_dump sh mask key v st = Ok st' ->
  exists l, sto_dump sh mask key v [] = Ok l /\ st' = l ++ st.
Proof.
  intros sh mask key v st st' H. unfold sto_dump in *.
  destruct v as [x|a]; destruct (int_of mask sh) as [|d t]; try discriminate.
  - inversion H; subst. eexists. split; reflexivity.
  - destruct (negb (list_eqb Nat.eqb (shp a) (d :: t))); [discriminate|].
    destruct (mapM _ (all_indices (d :: t))) as [l|e]; simpl in *; [|discriminate].
    inversion H; subst. exists l. rewrite app_nil_r. split; reflexivity.
Qed.

Lemma NoDup_app_remove_l : forall A (l l' : list A), NoDup (l ++ l') -> NoDup l'.
Proof. induction l as [|x l IH]; intros l' H; simpl in H; [exact H|]. inversion H; subst. apply IH. assumption. Qed.
Lemma NoDup_app_remove_r : forall A (l l' : list A), NoDup (l ++ l') -> NoDup l.
Proof.
  induction l as [|x l IH]; intros l' H; simpl in H; [constructor|]. inversion H; subst. constructor.
  - intro Hx. apply H2. apply in_or_app. now left.
  - eapply IH; eauto.
Qed.
Lemma NoDup_app_disjoint : forall A (l l' : list A) x, NoDup (l ++ l') -> In x l -> ~ In x l'.
Proof.
  induction l as [|y l IH]; intros l' x H Hx Hx'; [destruct Hx|]. simpl in H. inversion H; subst.
  destruct Hx as [->|Hx]; [apply H2; apply in_or_app; now right|eapply IH; eauto].
Qed.

(* an entry whose key occurs with one value only is what sto_get (= load_outputs on that position) returns *)
Lemma sto_get_in : forall (st : sto) idx x, In (idx, x) st -> (forall x', In (idx, x') st -> x' = x) ->
  sto_get st idx = Some x.
Proof.
  assert (Heq : forall k k' : list nat, list_eqb Nat.eqb k k' = true <-> k = k').
  { induction k as [|a k IH]; intros [|b k']; simpl; split; intros H; try discriminate; try reflexivity.
    - apply andb_true_iff in H. destruct H as [H1 H2]. apply Nat.eqb_eq in H1. apply IH in H2. now subst.
    - inversion H; subst. apply andb_true_iff. split; [apply Nat.eqb_refl|now apply IH]. }
  induction st as [|[k y] st IH]; intros idx x Hin Hu; [destruct Hin|]. simpl.
  destruct (list_eqb Nat.eqb k idx) eqn:E.
  - apply Heq in E. subst k. f_equal. apply Hu. left. reflexivity.
  - destruct Hin as [Hin|Hin].
    + inversion Hin; subst. assert (X : list_eqb Nat.eqb idx idx = true) by (apply Heq; reflexivity). congruence.
    + apply IH; [exact Hin|]. intros x' Hx'. apply Hu. right. exact Hx'.
Qed.

(* ------------------------------------------------------------------ monotonicity of the store *)
Definition arr_le (s s' : store_t) : Prop :=
  forall o sh m st, dict_get s o = Some (SArr sh m st) ->
    exists st', dict_get s' o = Some (SArr sh m st') /\ incl st st'.
Definition val_keep (names : list str) (s s' : store_t) : Prop :=
  forall o v, ~ In o names -> dict_get s o = Some (SVal v) -> dict_get s' o = Some (SVal v).
Definition smono (names : list str) (s s' : store_t) : Prop := arr_le s s' /\ val_keep names s s'.

Lemma smono_refl : forall names s, smono names s s.
Proof.
  intros names s. split.
  - intros o sh m st H. exists st. split; [exact H|apply incl_refl].
  - intros o v _ H. exact H.
Qed.

Lemma smono_trans : forall n1 n2 s1 s2 s3, smono n1 s1 s2 -> smono n2 s2 s3 -> smono (n1 ++ n2) s1 s3.
Proof.
  intros n1 n2 s1 s2 s3 [A1 V1] [A2 V2]. split.
  - intros o sh m st H. destruct (A1 _ _ _ _ H) as (st' & H' & I1).
    destruct (A2 _ _ _ _ H') as (st'' & H'' & I2). exists st''. split; [exact H''|].
    eapply incl_tran; eauto.
  - intros o v Hn H. apply V2; [intro Hi; apply Hn; apply in_or_app; now right|].
    apply V1; [intro Hi; apply Hn; apply in_or_app; now left|exact H].
Qed.

Lemma smono_weaken : forall n n' s s', smono n s s' -> incl n n' -> smono n' s s'.
Proof.
  intros n n' s s' [A V] Hi. split; [exact A|]. intros o v Hn H. apply V; [intro Hx; apply Hn; apply Hi; exact Hx|exact H].
Qed.

Lemma smono_trans0 : forall n s1 s2 s3, smono [] s1 s2 -> smono n s2 s3 -> smono n s1 s3.
Proof. intros n s1 s2 s3 H1 H2. exact (smono_trans [] n _ _ _ H1 H2). Qed.

Lemma smono_trans0r : forall n s1 s2 s3, smono n s1 s2 -> smono [] s2 s3 -> smono n s1 s3.
Proof.
  intros n s1 s2 s3 H1 H2. pose proof (smono_trans n [] _ _ _ H1 H2) as H. now rewrite app_nil_r in H.
Qed.

(* a dump into the array stored under o *)
Lemma smono_set_arr : forall s o sh m st st', dict_get s o = Some (SArr sh m st) -> incl st st' ->
  smono [] s (store_set s o (SArr sh m st')).
Proof.
  intros s o sh m st st' Hg Hi. split.
  - intros o0 sh0 m0 st0 H0. destruct (str_eq_dec o o0) as [->|Hne].
    + rewrite Hg in H0. inversion H0; subst. exists st'. split; [apply get_set_same|exact Hi].
    + exists st0. split; [rewrite get_set_other; [exact H0|exact Hne]|apply incl_refl].
  - intros o0 v _ H0. destruct (str_eq_dec o o0) as [->|Hne].
    + rewrite Hg in H0. discriminate.
    + rewrite get_set_other; [exact H0|exact Hne].
Qed.

Lemma smono_set_val : forall s o v0 v, dict_get s o = Some (SVal v0) -> smono [o] s (store_set s o (SVal v)).
Proof.
  intros s o v0 v Hg. split.
  - intros o0 sh0 m0 st0 H0. destruct (str_eq_dec o o0) as [->|Hne].
    + rewrite Hg in H0. discriminate.
    + exists st0. split; [rewrite get_set_other; [exact H0|exact Hne]|apply incl_refl].
  - intros o0 v1 Hn H0. rewrite get_set_other; [exact H0|]. intro E. apply Hn. left. exact E.
Qed.

Section StoreFacts.
  Variable ubody : mfunc -> env -> outcome (list val).
  Variable dump_sub : bool.
  Variable stop : bool.

  (* wrapped so that `subst` never eliminates the section variable *)
  Definition DS : Prop := dump_sub = true.

  (* ---------- dumps of arrays ---------- *)
  Lemma dump_outs_mono : forall sh mask key os vs s s', dump_outs sh mask key os vs s = Ok s' -> smono [] s s'.
  Proof.
    intros sh mask key. induction os as [|o os IH]; intros vs s s' H; simpl in H.
    - inversion H. apply smono_refl.
    - destruct vs as [|v vs]; [inversion H; apply smono_refl|].
      destruct (dict_get s o) as [[sh' mask' st|?]|] eqn:Eg; try discriminate.
      destruct (sto_dump sh mask key v st) as [st'|e] eqn:Ed; simpl in H; [|discriminate].
      destruct (sto_dump_app _ _ _ _ _ _ Ed) as (l & _ & ->).
      eapply smono_trans0; [|apply (IH _ _ _ H)].
      eapply smono_set_arr; [exact Eg|]. apply incl_appr. apply incl_refl.
  Qed.

  (* the entries dumped for the j-th output are in the array afterwards *)
  Lemma dump_outs_has : forall sh mask key os vs s s', dump_outs sh mask key os vs s = Ok s' ->
    forall j o v, nth_error os j = Some o -> nth_error vs j = Some v ->
      exists sh' mask' st l, dict_get s' o = Some (SArr sh' mask' st)
                             /\ sto_dump sh mask key v [] = Ok l /\ incl l st.
  Proof.
    intros sh mask key. induction os as [|o0 os IH]; intros vs s s' H j o v Ho Hv.
    - destruct j; discriminate.
    - destruct vs as [|v0 vs]; [destruct j; discriminate|]. simpl in H.
      destruct (dict_get s o0) as [[sh' mask' st|?]|] eqn:Eg; try discriminate.
      destruct (sto_dump sh mask key v0 st) as [st'|e] eqn:Ed; simpl in H; [|discriminate].
      destruct j as [|j]; simpl in Ho, Hv.
      + inversion Ho; inversion Hv; subst.
        destruct (sto_dump_app _ _ _ _ _ _ Ed) as (l & El & ->).
        destruct (dump_outs_mono _ _ _ _ _ _ _ H) as [A _].
        destruct (A o sh' mask' (l ++ st) (get_set_same _ _ _)) as (st'' & Hg & Hi).
        exists sh', mask', st'', l. split; [exact Hg|]. split; [exact El|].
        eapply incl_tran; [|exact Hi]. apply incl_appl. apply incl_refl.
      + eapply IH; eauto.
  Qed.

  Lemma dump_elem_mono : forall t outs s s', dump_elem t outs s = Ok s' -> smono [] s s'.
  Proof.
    intros t outs s s' H. unfold dump_elem in H. destruct (t_map t) as [[[[ms sh] mask] i]|].
    - destruct (output_key ms (ext_of mask sh) i) as [key|e]; simpl in H; [|discriminate].
      eapply dump_outs_mono; eauto.
    - inversion H. apply smono_refl.
  Qed.

  (* "the results of task t are in the store": every output value of the invocation is loadable *)
  Definition holds (s : store_t) (t : task) (outs : list val) : Prop :=
    forall j o v, nth_error (fouts (t_f t)) j = Some o -> nth_error outs j = Some v ->
      match t_map t with
      | Some (ms, sh, mask, i) =>
          exists sh' mask' st key l, dict_get s o = Some (SArr sh' mask' st)
                                     /\ output_key ms (ext_of mask sh) i = Ok key
                                     /\ sto_dump sh mask key v [] = Ok l /\ incl l st
      | None => dict_get s o = Some (SVal (Some v))
      end.

  Lemma holds_mono : forall s s' names t outs, holds s t outs -> smono names s s' ->
    (t_map t = None -> forall o, In o (fouts (t_f t)) -> ~ In o names) -> holds s' t outs.
  Proof.
    intros s s' names t outs Hh [A V] Hdis j o v Ho Hv. specialize (Hh j o v Ho Hv).
    destruct (t_map t) as [[[[ms sh] mask] i]|] eqn:Et.
    - destruct Hh as (sh' & mask' & st & key & l & Hg & Hk & Hd & Hi).
      destruct (A _ _ _ _ Hg) as (st' & Hg' & Hi'). exists sh', mask', st', key, l.
      repeat split; auto. eapply incl_tran; eauto.
    - apply V; [|exact Hh]. apply Hdis; [reflexivity|]. eapply nth_error_In; eauto.
  Qed.

  Lemma dump_elem_holds : forall t outs s s', dump_elem t outs s = Ok s' -> t_map t <> None -> holds s' t outs.
  Proof.
    intros t outs s s' H Hm j o v Ho Hv. unfold dump_elem in H.
    destruct (t_map t) as [[[[ms sh] mask] i]|]; [|congruence].
    destruct (output_key ms (ext_of mask sh) i) as [key|e] eqn:Ek; simpl in H; [|discriminate].
    destruct (dump_outs_has _ _ _ _ _ _ _ H j o v Ho Hv) as (sh' & mask' & st & l & Hg & Hd & Hi).
    exists sh', mask', st, key, l. auto.
  Qed.

  (* ---------- tasks ---------- *)
  Lemma exec_task_mono : forall st t st' r, exec_task ubody dump_sub st t = (st', r) ->
    smono [] (m_store st) (m_store st').
  Proof.
    intros st t st' r H. unfold exec_task in H.
    destruct (match t_map t with
              | Some (ms, sh, mask, i) => select_kwargs ms (t_kw t) (ext_of mask sh) i
              | None => Ok (t_kw t) end) as [sel|e].
    2:{ inversion H; subst. apply smono_refl. }
    destruct (ubody (t_f t) sel) as [outs|e].
    2:{ inversion H; subst. apply smono_refl. }
    destruct (negb (length outs =? length (fouts (t_f t)))). { inversion H; subst. apply smono_refl. }
    destruct dump_sub.
    - simpl in H. destruct (dump_elem t outs (m_store st)) as [s'|e] eqn:Ed.
      + inversion H; subst. simpl. eapply dump_elem_mono; eauto.
      + inversion H; subst. apply smono_refl.
    - inversion H; subst. apply smono_refl.
  Qed.

  Lemma exec_task_holds : forall st t st' outs, exec_task ubody dump_sub st t = (st', TDone outs) ->
    DS -> t_map t <> None -> holds (m_store st') t outs.
  Proof.
    intros st t st' outs H Hd Hm. unfold DS in Hd. unfold exec_task in H.
    destruct (match t_map t with
              | Some (ms, sh, mask, i) => select_kwargs ms (t_kw t) (ext_of mask sh) i
              | None => Ok (t_kw t) end) as [sel|e]; [|inversion H].
    destruct (ubody (t_f t) sel) as [outs0|e]; [|inversion H].
    destruct (negb (length outs0 =? length (fouts (t_f t)))); [inversion H|].
    rewrite Hd in H. simpl in H. destruct (dump_elem t outs0 (m_store st)) as [s'|e] eqn:Ed; inversion H; subst.
    simpl. eapply dump_elem_holds; eauto.
  Qed.

  Lemma exec_tasks_mono : forall ts st st' rs, exec_tasks ubody dump_sub stop ts st = (st', rs) ->
    smono [] (m_store st) (m_store st').
  Proof.
    induction ts as [|t ts IH]; intros st st' rs H; simpl in H.
    - inversion H. apply smono_refl.
    - destruct (exec_task ubody dump_sub st t) as [st1 r] eqn:E.
      pose proof (exec_task_mono _ _ _ _ E) as M1.
      destruct (is_done r || negb stop).
      + destruct (exec_tasks ubody dump_sub stop ts st1) as [st2 rs'] eqn:E2. inversion H; subst.
        eapply smono_trans0; [exact M1|eapply IH; eauto].
      + inversion H; subst. exact M1.
  Qed.

  Lemma exec_tasks_holds : forall ts st st' rs, exec_tasks ubody dump_sub stop ts st = (st', rs) ->
    DS -> forall t outs, In (t, TDone outs) rs -> t_map t <> None -> holds (m_store st') t outs.
  Proof.
    induction ts as [|t0 ts IH]; intros st st' rs H Hd t outs Hin Hm; simpl in H.
    - inversion H; subst. destruct Hin.
    - destruct (exec_task ubody dump_sub st t0) as [st1 r] eqn:E.
      destruct (is_done r || negb stop).
      + destruct (exec_tasks ubody dump_sub stop ts st1) as [st2 rs'] eqn:E2. inversion H; subst.
        destruct Hin as [Heq|Hin].
        * inversion Heq; subst. eapply holds_mono.
          -- eapply exec_task_holds; eauto.
          -- eapply exec_tasks_mono; eauto.
          -- intros Hc. congruence.
        * eapply IH; eauto.
      + inversion H; subst. destruct Hin as [Heq|[]]. inversion Heq; subst. eapply exec_task_holds; eauto.
  Qed.

  (* ---------- post-processing ---------- *)
  Lemma fold_err_stays : forall (l : list (task * tres)) e,
    fold_left (fun acc tr => do s' <- acc;
                 match snd tr with TDone outs => dump_elem (fst tr) outs s' | _ => Ok s' end) l (Err e) = Err e.
  Proof. induction l as [|x l IH]; intros e; simpl; [reflexivity|apply IH]. Qed.

  Lemma post_elems_mono : forall l s s', post_elems l s = Ok s' -> smono [] s s'.
  Proof.
    unfold post_elems. induction l as [|[t r] l IH]; intros s s' H; simpl in H.
    - inversion H. apply smono_refl.
    - destruct r as [outs|e c|x]; simpl in H.
      + destruct (dump_elem t outs s) as [s1|e] eqn:Ed.
        * eapply smono_trans0; [eapply dump_elem_mono; eauto|eapply IH; exact H].
        * rewrite fold_err_stays in H. discriminate.
      + eapply IH; exact H.
      + eapply IH; exact H.
  Qed.

  Lemma post_elems_holds : forall l s s', post_elems l s = Ok s' ->
    forall t outs, In (t, TDone outs) l -> t_map t <> None -> holds s' t outs.
  Proof.
    unfold post_elems. induction l as [|[t0 r0] l IH]; intros s s' H t outs Hin Hm; [destruct Hin|].
    simpl in H. destruct Hin as [Heq|Hin].
    - inversion Heq; subst. simpl in H.
      destruct (dump_elem t outs s) as [s1|e] eqn:Ed; [|rewrite fold_err_stays in H; discriminate].
      eapply holds_mono; [eapply dump_elem_holds; eauto|eapply (post_elems_mono l); exact H|intros Hc; congruence].
    - destruct r0 as [outs0|e c|x]; simpl in H; try (eapply IH; eauto; fail).
      destruct (dump_elem t0 outs0 s) as [s1|e] eqn:Ed; [|rewrite fold_err_stays in H; discriminate].
      eapply IH; eauto.
  Qed.

  Lemma dump_single_mono : forall new s s', dump_single new s = Ok s' -> smono (map fst new) s s'.
  Proof.
    induction new as [|[o v] new IH]; intros s s' H; simpl in H.
    - inversion H. apply smono_refl.
    - destruct (dict_get s o) as [[?|v0]|] eqn:Eg; try discriminate.
      change (map fst ((o, v) :: new)) with ([o] ++ map fst new).
      eapply smono_trans; [eapply smono_set_val; eauto|eapply IH; eauto].
  Qed.

  Lemma dump_single_get : forall new s s', dump_single new s = Ok s' -> NoDup (map fst new) ->
    forall o v, In (o, v) new -> dict_get s' o = Some (SVal (Some v)).
  Proof.
    induction new as [|[o0 v0] new IH]; intros s s' H Hnd o v Hin; [destruct Hin|].
    simpl in H. destruct (dict_get s o0) as [[?|v1]|] eqn:Eg; try discriminate.
    inversion Hnd; subst. destruct Hin as [Heq|Hin].
    - inversion Heq; subst. destruct (dump_single_mono _ _ _ H) as [_ V].
      apply V; [assumption|apply get_set_same].
    - eapply IH; eauto.
  Qed.

  Lemma post_func_mono : forall rs st f st', post_func dump_sub rs st f = Ok st' ->
    smono (fouts f) (m_store st) (m_store st').
  Proof.
    intros rs st f st' H. unfold post_func in H. destruct (is_mapped f).
    - destruct (if dump_sub then Ok (m_store st) else post_elems (filter (same_func f) rs) (m_store st))
        as [s1|e] eqn:E1; simpl in H; [|discriminate].
      destruct (mapM _ (fouts f)) as [new|e]; simpl in H; [|discriminate]. inversion H; subst. simpl.
      eapply smono_weaken with (n := []); [|intros x []].
      destruct dump_sub; [inversion E1; apply smono_refl|eapply post_elems_mono; eauto].
    - destruct (filter (same_func f) rs) as [|[t0 r0] l]; [discriminate|].
      destruct l; [|destruct r0; discriminate]. destruct r0 as [outs| |]; try discriminate.
      simpl in H. destruct (dump_single (combine (fouts f) outs) (m_store st)) as [s1|e] eqn:Ed; simpl in H; [|discriminate].
      inversion H; subst. simpl. eapply smono_weaken; [eapply dump_single_mono; eauto|].
      intros x Hx. apply in_map_iff in Hx. destruct Hx as ([o v] & <- & Hin). simpl.
      eapply in_combine_l; eauto.
  Qed.

  Lemma post_funcs_mono : forall rs fs st st', post_funcs dump_sub rs fs st = Ok st' ->
    smono (flat_map fouts fs) (m_store st) (m_store st').
  Proof.
    intros rs. induction fs as [|f fs IH]; intros st st' H; simpl in H.
    - inversion H. apply smono_refl.
    - destruct (post_func dump_sub rs st f) as [st1|e] eqn:E; simpl in H; [|discriminate].
      simpl. eapply smono_trans; [eapply post_func_mono; eauto|eapply IH; eauto].
  Qed.

  Lemma post_funcs_app : forall rs a b st st', post_funcs dump_sub rs (a ++ b) st = Ok st' ->
    exists sm, post_funcs dump_sub rs a st = Ok sm /\ post_funcs dump_sub rs b sm = Ok st'.
  Proof.
    intros rs. induction a as [|f a IH]; intros b st st' H; simpl in *.
    - exists st. auto.
    - destruct (post_func dump_sub rs st f) as [st1|e]; simpl in *; [|discriminate].
      apply IH. exact H.
  Qed.

  (* post-processing of f puts the results of f's tasks into the store *)
  Lemma post_func_holds : forall rs st f st' t outs, post_func dump_sub rs st f = Ok st' ->
    In (t, TDone outs) rs -> t_f t = f ->
    (t_map t <> None <-> is_mapped f = true) -> NoDup (fouts f) ->
    (DS -> t_map t <> None -> holds (m_store st) t outs) ->
    holds (m_store st') t outs.
  Proof.
    intros rs st f st' t outs H Hin Hf Hkind Hnd Hpre. unfold post_func in H.
    assert (Hmine : In (t, TDone outs) (filter (same_func f) rs)).
    { apply filter_In. split; [exact Hin|]. unfold same_func. simpl. rewrite Hf. apply str_eqb_refl. }
    destruct (is_mapped f) eqn:Em.
    - assert (Hm : t_map t <> None) by (apply Hkind; reflexivity).
      destruct dump_sub eqn:Eds; simpl in H.
      + destruct (mapM _ (fouts f)) as [new|e]; simpl in H; [|discriminate]. inversion H; subst. simpl.
        apply Hpre; [exact Eds|exact Hm].
      + destruct (post_elems (filter (same_func f) rs) (m_store st)) as [s1|e] eqn:E1; simpl in H; [|discriminate].
        destruct (mapM _ (fouts f)) as [new|e]; simpl in H; [|discriminate]. inversion H; subst. simpl.
        eapply post_elems_holds; eauto.
    - assert (Hm : t_map t = None).
      { destruct (t_map t) eqn:Et; [|reflexivity]. exfalso.
        assert (X : false = true) by (apply Hkind; discriminate). discriminate. }
      destruct (filter (same_func f) rs) as [|[t0 r0] l]; [discriminate|].
      destruct l; [|destruct r0; discriminate]. destruct r0 as [outs0| |]; try discriminate.
      destruct Hmine as [Heq|[]]. inversion Heq; subst t0 outs0.
      simpl in H. destruct (dump_single (combine (fouts f) outs) (m_store st)) as [s1|e] eqn:Ed; simpl in H; [|discriminate].
      inversion H; subst. simpl. intros j o v Ho Hv. rewrite Hm.
      eapply dump_single_get; [exact Ed| |].
      + clear -Hnd. revert outs. induction (fouts (t_f t)) as [|o os IH]; intros outs; [constructor|].
        destruct outs as [|v vs]; [constructor|]. simpl. inversion Hnd; subst. constructor.
        * intro Hx. apply H1. apply in_map_iff in Hx. destruct Hx as ([o' v'] & E & Hin). simpl in E. subst o'.
          eapply in_combine_l; eauto.
        * apply IH. assumption.
      + clear -Ho Hv. revert j outs Ho Hv. induction (fouts (t_f t)) as [|o0 os IH]; intros j outs Ho Hv.
        * destruct j; discriminate.
        * destruct outs as [|v0 vs]; [destruct j; discriminate|]. destruct j as [|j]; simpl in *.
          -- inversion Ho; inversion Hv; subst. left. reflexivity.
          -- right. eapply IH; eauto.
  Qed.

  (* ---------- what the tasks of a generation look like ---------- *)
  Lemma tasks_of_kind : forall shapes f kw ts, tasks_of shapes f kw = Ok ts ->
    Forall (fun t => t_f t = f /\ (t_map t <> None <-> is_mapped f = true)) ts.
  Proof.
    intros shapes f kw ts H. unfold tasks_of in H. destruct (is_mapped f) eqn:Em.
    - destruct (fspec f); [|discriminate].
      destruct (dict_get shapes (hd [] (fouts f))) as [[sh mask]|]; [|discriminate].
      inversion H; subst. apply Forall_forall. intros t Ht. apply in_map_iff in Ht.
      destruct Ht as (i & <- & _). simpl. split; [reflexivity|]. split; [reflexivity|discriminate].
    - inversion H; subst. constructor; [|constructor]. simpl. split; [reflexivity|].
      split; [intro Hc; congruence|discriminate].
  Qed.

  Lemma gen_tasks_kind : forall shapes gen e ts, gen_tasks shapes gen e = Ok ts ->
    Forall (fun t => In (t_f t) gen /\ (t_map t <> None <-> is_mapped (t_f t) = true)) ts.
  Proof.
    intros shapes gen e ts H. unfold gen_tasks in H.
    destruct (mapM _ gen) as [tss|x] eqn:E; simpl in H; [|discriminate]. inversion H; subst.
    apply mapM_forall2 in E. clear H. induction E as [|f ts0 gen' tss' Hf _ IH]; simpl; [constructor|].
    apply Forall_app. split.
    - destruct (func_kwargs f e) as [kw|x]; simpl in Hf; [|discriminate].
      apply tasks_of_kind in Hf. eapply Forall_impl; [|exact Hf]. intros t [Ht Hk]. subst f. split; [now left|exact Hk].
    - eapply Forall_impl; [|exact IH]. intros t [Ht Hk]. split; [now right|exact Hk].
  Qed.

  Lemma nodup_flat_inv : forall (f : mfunc) pre post,
    NoDup (flat_map fouts (pre ++ f :: post)) ->
    NoDup (fouts f) /\ (forall o, In o (fouts f) -> ~ In o (flat_map fouts post)).
  Proof.
    intros f pre post H. rewrite flat_map_app in H. apply NoDup_app_remove_l in H. simpl in H.
    split.
    - eapply NoDup_app_remove_r. exact H.
    - intros o Ho. eapply NoDup_app_disjoint; eauto.
  Qed.

  (* ---------- salvage: what is stored when a task of the generation failed ---------- *)
  Lemma salvage_mono : forall done s f s', salvage dump_sub done s f = Ok s' -> smono (fouts f) s s'.
  Proof.
    intros done s f s' H. unfold salvage in H. destruct (is_mapped f).
    - eapply smono_weaken with (n := []); [|intros x []].
      destruct dump_sub; [inversion H; apply smono_refl|eapply post_elems_mono; eauto].
    - destruct (filter (same_func f) done) as [|[t0 r0] l]; [inversion H; apply smono_refl|].
      destruct l; [|destruct r0; inversion H; apply smono_refl].
      destruct r0 as [outs| |]; try (inversion H; apply smono_refl).
      eapply smono_weaken; [eapply dump_single_mono; eauto|].
      intros x Hx. apply in_map_iff in Hx. destruct Hx as ([o v] & <- & Hin). simpl.
      eapply in_combine_l; eauto.
  Qed.

  Lemma salvage_all_mono : forall done fs s s', salvage_all dump_sub done fs s = Ok s' ->
    smono (flat_map fouts fs) s s'.
  Proof.
    intros done. induction fs as [|f fs IH]; intros s s' H; simpl in H.
    - inversion H. apply smono_refl.
    - destruct (salvage dump_sub done s f) as [s1|e] eqn:E; simpl in H; [|discriminate].
      simpl. eapply smono_trans; [eapply salvage_mono; eauto|eapply IH; eauto].
  Qed.

  Lemma salvage_all_app : forall done a b s s', salvage_all dump_sub done (a ++ b) s = Ok s' ->
    exists sm, salvage_all dump_sub done a s = Ok sm /\ salvage_all dump_sub done b sm = Ok s'.
  Proof.
    intros done. induction a as [|f a IH]; intros b s s' H; simpl in *.
    - exists s. auto.
    - destruct (salvage dump_sub done s f) as [s1|e]; simpl in *; [|discriminate]. apply IH. exact H.
  Qed.

  Lemma salvage_holds : forall done s f s' t outs, salvage dump_sub done s f = Ok s' ->
    In (t, TDone outs) done -> t_f t = f ->
    (t_map t <> None <-> is_mapped f = true) -> NoDup (fouts f) ->
    (is_mapped f = false -> filter (same_func f) done = [(t, TDone outs)]) ->
    (DS -> t_map t <> None -> holds s t outs) ->
    holds s' t outs.
  Proof.
    intros done s f s' t outs H Hin Hf Hkind Hnd Huniq Hpre. unfold salvage in H.
    assert (Hmine : In (t, TDone outs) (filter (same_func f) done)).
    { apply filter_In. split; [exact Hin|]. unfold same_func. simpl. rewrite Hf. apply str_eqb_refl. }
    destruct (is_mapped f) eqn:Em.
    - assert (Hm : t_map t <> None) by (apply Hkind; reflexivity).
      destruct dump_sub eqn:Eds.
      + inversion H; subst. apply Hpre; [exact Eds|exact Hm].
      + eapply post_elems_holds; eauto.
    - assert (Hm : t_map t = None).
      { destruct (t_map t) eqn:Et; [|reflexivity]. exfalso.
        assert (X : false = true) by (apply Hkind; discriminate). discriminate. }
      rewrite (Huniq eq_refl) in H.
      intros j o v Ho Hv. rewrite Hm. eapply dump_single_get; [exact H| |].
      + subst f. clear -Hnd. revert outs. induction (fouts (t_f t)) as [|o os IH]; intros outs; [constructor|].
        destruct outs as [|v vs]; [constructor|]. simpl. inversion Hnd; subst. constructor.
        * intro Hx. apply H1. apply in_map_iff in Hx. destruct Hx as ([o' v'] & E & Hin). simpl in E. subst o'.
          eapply in_combine_l; eauto.
        * apply IH. assumption.
      + subst f. clear -Ho Hv. revert j outs Ho Hv. induction (fouts (t_f t)) as [|o0 os IH]; intros j outs Ho Hv.
        * destruct j; discriminate.
        * destruct outs as [|v0 vs]; [destruct j; discriminate|]. destruct j as [|j]; simpl in *.
          -- inversion Ho; inversion Hv; subst. left. reflexivity.
          -- right. eapply IH; eauto.
  Qed.

  (* the done prefix *)
  Lemma take_done_incl : forall rs tr, In tr (take_done rs) -> In tr rs /\ is_done (snd tr) = true.
  Proof.
    induction rs as [|x rs IH]; intros tr H; simpl in H; [destruct H|].
    destruct (is_done (snd x)) eqn:E; [|destruct H]. destruct H as [<-|H]; [split; [now left|exact E]|].
    destruct (IH _ H). split; [now right|assumption].
  Qed.

  Lemma take_done_all : forall rs, first_fail rs = None -> take_done rs = rs.
  Proof.
    unfold first_fail. induction rs as [|x rs IH]; intros H; simpl in *; [reflexivity|].
    destruct (is_done (snd x)) eqn:E; simpl in H; [|discriminate]. f_equal. apply IH. exact H.
  Qed.

  Lemma take_done_prefix : forall rs, exists rest, rs = take_done rs ++ rest.
  Proof.
    induction rs as [|x rs [rest IH]]; simpl; [exists []; reflexivity|].
    destruct (is_done (snd x)); [exists rest; simpl; now rewrite <- IH|exists (x :: rs); reflexivity].
  Qed.

  (* sequential path: every done result precedes the failure *)
  Lemma exec_tasks_seq_done : forall ts st st' rs, exec_tasks ubody dump_sub true ts st = (st', rs) ->
    forall tr, In tr rs -> is_done (snd tr) = true -> In tr (take_done rs).
  Proof.
    induction ts as [|t ts IH]; intros st st' rs H tr Hin Hd; simpl in H.
    - inversion H; subst. destruct Hin.
    - destruct (exec_task ubody dump_sub st t) as [st1 r] eqn:E.
      destruct (is_done r) eqn:Er; simpl in H.
      + destruct (exec_tasks ubody dump_sub true ts st1) as [st2 rs'] eqn:E2. inversion H; subst.
        simpl. rewrite Er. destruct Hin as [<-|Hin]; [now left|right; eapply IH; eauto].
      + inversion H; subst. destruct Hin as [<-|[]]. simpl in Hd. congruence.
  Qed.

  Lemma exec_tasks_prefix : forall ts st st' rs, exec_tasks ubody dump_sub stop ts st = (st', rs) ->
    exists rest, ts = map fst rs ++ rest.
  Proof.
    induction ts as [|t ts IH]; intros st st' rs H; simpl in H.
    - inversion H; subst. exists []. reflexivity.
    - destruct (exec_task ubody dump_sub st t) as [st1 r] eqn:E.
      destruct (is_done r || negb stop).
      + destruct (exec_tasks ubody dump_sub stop ts st1) as [st2 rs'] eqn:E2. inversion H; subst.
        destruct (IH _ _ _ E2) as [rest ->]. exists rest. reflexivity.
      + inversion H; subst. exists ts. reflexivity.
  Qed.

  (* a function without MapSpec inputs has ONE task in its generation (function names are distinct) *)
  Definition of_name (f : mfunc) (t : task) : bool := str_eqb (fname (t_f t)) (fname f).

  Lemma gen_tasks_single : forall shapes gen e ts f, gen_tasks shapes gen e = Ok ts ->
    NoDup (map fname gen) -> In f gen -> is_mapped f = false -> length (filter (of_name f) ts) <= 1.
  Proof.
    intros shapes gen e ts f H Hnd Hf Hm. unfold gen_tasks in H.
    destruct (mapM _ gen) as [tss|x] eqn:E; simpl in H; [|discriminate]. inversion H; subst. clear H.
    apply mapM_forall2 in E.
    assert (Hnone : forall gen' tss', Forall2 (fun a b => (do kw <- func_kwargs a e; tasks_of shapes a kw) = Ok b) gen' tss' ->
                      ~ In (fname f) (map fname gen') -> filter (of_name f) (concat tss') = []).
    { intros gen' tss' F. induction F as [|g ts0 gen' tss' Hg _ IH]; intros Hn; simpl; [reflexivity|].
      rewrite filter_app. rewrite IH; [|intro Hx; apply Hn; right; exact Hx]. rewrite app_nil_r.
      destruct (func_kwargs g e) as [kw|x]; simpl in Hg; [|discriminate].
      apply tasks_of_funcs in Hg. clear -Hg Hn. induction Hg as [|t l Ht _ IHl]; simpl; [reflexivity|].
      unfold of_name at 1. rewrite Ht. destruct (str_eqb (fname g) (fname f)) eqn:Eq.
      - apply str_eqb_eq in Eq. exfalso. apply Hn. left. exact Eq.
      - exact IHl. }
    induction E as [|g ts0 gen' tss' Hg F IH]; simpl; [lia|].
    simpl in Hnd. inversion Hnd as [|? ? Hnin Hnd']; subst. rewrite filter_app, app_length.
    destruct Hf as [->|Hf].
    - rewrite (Hnone _ _ F Hnin). simpl. rewrite Nat.add_0_r.
      destruct (func_kwargs f e) as [kw|x]; simpl in Hg; [|discriminate].
      unfold tasks_of in Hg. rewrite Hm in Hg. inversion Hg; subst. simpl. destruct (of_name f _); simpl; lia.
    - assert (Hne : fname g <> fname f).
      { intro Eq. apply Hnin. rewrite Eq. apply in_map. exact Hf. }
      assert (Z : filter (of_name f) ts0 = []).
      { destruct (func_kwargs g e) as [kw|x]; simpl in Hg; [|discriminate].
        apply tasks_of_funcs in Hg. clear -Hg Hne. induction Hg as [|t l Ht _ IHl]; simpl; [reflexivity|].
        unfold of_name at 1. rewrite Ht. destruct (str_eqb (fname g) (fname f)) eqn:Eq.
        - apply str_eqb_eq in Eq. contradiction.
        - exact IHl. }
      rewrite Z. simpl. apply IH; assumption.
  Qed.

  Lemma filter_same_func_length : forall f (l : list (task * tres)),
    length (filter (same_func f) l) = length (filter (of_name f) (map fst l)).
  Proof.
    intros f. induction l as [|[t r] l IH]; simpl; [reflexivity|].
    unfold same_func at 1, of_name at 1. simpl. destruct (str_eqb (fname (t_f t)) (fname f)); simpl; now rewrite IH.
  Qed.

  Lemma single_unique : forall shapes gen e ts st st1 rs1 f t outs,
    gen_tasks shapes gen e = Ok ts -> exec_tasks ubody dump_sub stop ts st = (st1, rs1) ->
    NoDup (map fname gen) -> In f gen -> is_mapped f = false ->
    In (t, TDone outs) (take_done rs1) -> t_f t = f ->
    filter (same_func f) (take_done rs1) = [(t, TDone outs)].
  Proof.
    intros shapes gen e ts st st1 rs1 f t outs Hg Hx Hnd Hf Hm Hin Ht.
    pose proof (gen_tasks_single _ _ _ _ _ Hg Hnd Hf Hm) as Hlen.
    destruct (exec_tasks_prefix _ _ _ _ Hx) as [rest1 E1]. destruct (take_done_prefix rs1) as [rest2 E2].
    assert (Hle : length (filter (same_func f) (take_done rs1)) <= 1).
    { rewrite filter_same_func_length. rewrite E1, E2 in Hlen. rewrite map_app, <- app_assoc, filter_app, app_length in Hlen.
      lia. }
    assert (Hmine : In (t, TDone outs) (filter (same_func f) (take_done rs1))).
    { apply filter_In. split; [exact Hin|]. unfold same_func. simpl. rewrite Ht. apply str_eqb_refl. }
    destruct (filter (same_func f) (take_done rs1)) as [|x [|y l]]; [destruct Hmine| |simpl in Hle; lia].
    destruct Hmine as [->|[]]. reflexivity.
  Qed.

  (* ---------- one generation ---------- *)
  Lemma gen_run_mono : forall shapes gen st st' rs fl, gen_run ubody dump_sub stop shapes gen st = (st', rs, fl) ->
    smono (flat_map fouts gen) (m_store st) (m_store st').
  Proof.
    intros shapes gen st st' rs fl H. unfold gen_run in H.
    destruct (gen_tasks shapes gen (m_env st)) as [ts|x]. 2:{ inversion H; subst. apply smono_refl. }
    destruct (exec_tasks ubody dump_sub stop ts st) as [st1 rs1] eqn:Ex.
    pose proof (exec_tasks_mono _ _ _ _ Ex) as M1.
    assert (W : smono (flat_map fouts gen) (m_store st) (m_store st1)).
    { eapply smono_weaken; [exact M1|intros x []]. }
    destruct (first_fail rs1) as [[t r]|].
    - destruct (salvage_all dump_sub (take_done rs1) gen (m_store st1)) as [s2|x] eqn:Ep.
      + inversion H; subst. simpl. eapply smono_trans0; [exact M1|eapply salvage_all_mono; eauto].
      + inversion H; subst. exact W.
    - destruct (post_funcs dump_sub rs1 gen st1) as [st2|x] eqn:Ep.
      + inversion H; subst. eapply smono_trans0; [exact M1|eapply post_funcs_mono; eauto].
      + inversion H; subst. exact W.
  Qed.

  (* a generation that completed: the results of ALL its tasks are in the store *)
  Lemma gen_run_complete : forall shapes gen st st' rs, gen_run ubody dump_sub stop shapes gen st = (st', rs, None) ->
    NoDup (flat_map fouts gen) ->
    forall t outs, In (t, TDone outs) rs -> holds (m_store st') t outs.
  Proof.
    intros shapes gen st st' rs H Hnd t outs Hin. unfold gen_run in H.
    destruct (gen_tasks shapes gen (m_env st)) as [ts|x] eqn:Eg; [|inversion H].
    pose proof (gen_tasks_kind _ _ _ _ Eg) as Hk.
    destruct (exec_tasks ubody dump_sub stop ts st) as [st1 rs1] eqn:Ex.
    destruct (first_fail rs1) as [[t0 r0]|]; [destruct (salvage_all _ _ _ _); inversion H|].
    destruct (post_funcs dump_sub rs1 gen st1) as [st2|x] eqn:Ep; inversion H; subst. clear H.
    pose proof (exec_tasks_results _ _ _ _ _ _ _ Ex) as Hres. rewrite Forall_forall in Hres, Hk.
    specialize (Hres _ Hin). simpl in Hres. destruct (Hk _ Hres) as [Hfg Hkind].
    destruct (in_split _ _ Hfg) as (pre & post & ->).
    destruct (post_funcs_app _ _ _ _ _ Ep) as (sa & Ea & Eb). simpl in Eb.
    destruct (post_func dump_sub rs sa (t_f t)) as [sb|x] eqn:Ef; simpl in Eb; [|discriminate].
    destruct (nodup_flat_inv _ _ _ Hnd) as [Hndf Hdis].
    eapply holds_mono with (names := flat_map fouts post).
    - eapply post_func_holds; eauto.
      intros Hd Hm. eapply holds_mono with (names := flat_map fouts pre).
      + eapply exec_tasks_holds; eauto.
      + eapply post_funcs_mono; eauto.
      + intros Hc. congruence.
    - eapply post_funcs_mono; eauto.
    - intros _ o Ho. apply Hdis. exact Ho.
  Qed.

  (* any generation, also the failing one: an element that was dumped in the worker stays *)
  Lemma gen_run_dumped : forall shapes gen st st' rs fl, gen_run ubody dump_sub stop shapes gen st = (st', rs, fl) ->
    DS ->
    forall t outs, In (t, TDone outs) rs -> t_map t <> None -> holds (m_store st') t outs.
  Proof.
    intros shapes gen st st' rs fl H Hd t outs Hin Hm. unfold gen_run in H.
    destruct (gen_tasks shapes gen (m_env st)) as [ts|x]. 2:{ inversion H; subst. inversion Hin. }
    destruct (exec_tasks ubody dump_sub stop ts st) as [st1 rs1] eqn:Ex.
    assert (H1 : forall t outs, In (t, TDone outs) rs1 -> t_map t <> None -> holds (m_store st1) t outs)
      by (intros; eapply exec_tasks_holds; eauto).
    assert (Hno : t_map t = None -> forall o, In o (fouts (t_f t)) -> ~ In o (@nil str)) by (intros Hc; congruence).
    destruct (first_fail rs1) as [[t0 r0]|].
    - destruct (salvage_all dump_sub (take_done rs1) gen (m_store st1)) as [s2|x] eqn:Ep;
        inversion H; subst; [|apply H1; auto].
      simpl. eapply holds_mono; [apply H1; eauto|eapply salvage_all_mono; eauto|intros Hc; congruence].
    - destruct (post_funcs dump_sub rs1 gen st1) as [st2|x] eqn:Ep; inversion H; subst; [|apply H1; auto].
      eapply holds_mono; [apply H1; eauto|eapply post_funcs_mono; eauto|intros Hc; congruence].
  Qed.

  Lemma gen_run_results_funcs : forall shapes gen st st' rs fl,
    gen_run ubody dump_sub stop shapes gen st = (st', rs, fl) -> Forall (fun tr => In (t_f (fst tr)) gen) rs.
  Proof.
    intros shapes gen st st' rs fl H. unfold gen_run in H.
    destruct (gen_tasks shapes gen (m_env st)) as [ts|x] eqn:Eg. 2:{ inversion H; subst. constructor. }
    pose proof (gen_tasks_kind _ _ _ _ Eg) as Hk.
    destruct (exec_tasks ubody dump_sub stop ts st) as [st1 rs1] eqn:Ex.
    pose proof (exec_tasks_results _ _ _ _ _ _ _ Ex) as Hres.
    assert (G : Forall (fun tr => In (t_f (fst tr)) gen) rs1).
    { rewrite Forall_forall in *. intros tr Htr. apply Hk. apply Hres. exact Htr. }
    destruct (first_fail rs1) as [[t r]|].
    - destruct (salvage_all _ _ _ _); inversion H; subst; exact G.
    - destruct (post_funcs _ _ _ _); inversion H; subst; exact G.
  Qed.

  (* the failing generation: every result that precedes the failing task in submission order is in the store *)
  Lemma gen_run_prefix_kept : forall shapes gen st st' rs e c,
    gen_run ubody dump_sub stop shapes gen st = (st', rs, Some (FailUser e c)) ->
    NoDup (flat_map fouts gen) -> NoDup (map fname gen) ->
    forall t outs, In (t, TDone outs) (take_done rs) -> holds (m_store st') t outs.
  Proof.
    intros shapes gen st st' rs e c H Hnd Hnames t outs Hin. unfold gen_run in H.
    destruct (gen_tasks shapes gen (m_env st)) as [ts|x] eqn:Eg; [|inversion H].
    pose proof (gen_tasks_kind _ _ _ _ Eg) as Hk.
    destruct (exec_tasks ubody dump_sub stop ts st) as [st1 rs1] eqn:Ex.
    destruct (first_fail rs1) as [[t0 r0]|]; [|destruct (post_funcs _ _ _ _); inversion H].
    destruct (salvage_all dump_sub (take_done rs1) gen (m_store st1)) as [s2|x] eqn:Ep; inversion H; subst. clear H.
    simpl. destruct (take_done_incl _ _ Hin) as [Hin1 _].
    pose proof (exec_tasks_results _ _ _ _ _ _ _ Ex) as Hres. rewrite Forall_forall in Hres, Hk.
    specialize (Hres _ Hin1). simpl in Hres. destruct (Hk _ Hres) as [Hfg Hkind].
    destruct (in_split _ _ Hfg) as (pre & post & Esplit).
    assert (Hnd' := Hnd). rewrite Esplit in Ep, Hnd'.
    destruct (salvage_all_app _ _ _ _ _ Ep) as (sa & Ea & Eb). simpl in Eb.
    destruct (salvage dump_sub (take_done rs) sa (t_f t)) as [sb|x] eqn:Ef; simpl in Eb; [|discriminate].
    destruct (nodup_flat_inv _ _ _ Hnd') as [Hndf Hdis].
    eapply holds_mono with (names := flat_map fouts post).
    - eapply salvage_holds; eauto.
      + intros Hm. eapply single_unique; eauto.
      + intros Hd Hm. eapply holds_mono with (names := flat_map fouts pre).
        * eapply exec_tasks_holds; eauto.
        * eapply salvage_all_mono; eauto.
        * intros Hc. congruence.
    - eapply salvage_all_mono; eauto.
    - intros _ o Ho. apply Hdis. exact Ho.
  Qed.

  (* ---------- the generation loop ---------- *)
  Lemma gens_run_mono : forall shapes gens st st' tr fl, gens_run ubody dump_sub stop shapes gens st = (st', tr, fl) ->
    smono (flat_map fouts (concat gens)) (m_store st) (m_store st').
  Proof.
    intros shapes. induction gens as [|g gs IH]; intros st st' tr fl H; simpl in H.
    - inversion H. apply smono_refl.
    - destruct (gen_run ubody dump_sub stop shapes g st) as [[st1 rs] fl1] eqn:Eg.
      pose proof (gen_run_mono _ _ _ _ _ _ Eg) as M1. simpl. rewrite flat_map_app.
      destruct fl1.
      + inversion H; subst. eapply smono_weaken; [exact M1|]. intros x Hx. apply in_or_app. now left.
      + destruct (gens_run ubody dump_sub stop shapes gs st1) as [[st2 rss] fl2] eqn:Er. inversion H; subst.
        eapply smono_trans; [exact M1|eapply IH; eauto].
  Qed.

  Definition completed (tr : list (list (task * tres))) (fl : option failure) : list (list (task * tres)) :=
    match fl with None => tr | Some _ => removelast tr end.

  Lemma gens_run_kept : forall shapes gens st st' tr fl, gens_run ubody dump_sub stop shapes gens st = (st', tr, fl) ->
    NoDup (flat_map fouts (concat gens)) ->
    forall rs t outs, In rs (completed tr fl) -> In (t, TDone outs) rs -> holds (m_store st') t outs.
  Proof.
    intros shapes. induction gens as [|g gs IH]; intros st st' tr fl H Hnd rs t outs Hrs Hin; simpl in H.
    - inversion H; subst. destruct Hrs.
    - destruct (gen_run ubody dump_sub stop shapes g st) as [[st1 rs1] fl1] eqn:Eg.
      simpl in Hnd. rewrite flat_map_app in Hnd.
      destruct fl1.
      + inversion H; subst. destruct Hrs.
      + destruct (gens_run ubody dump_sub stop shapes gs st1) as [[st2 rss] fl2] eqn:Er. inversion H; subst.
        assert (Hcases : rs = rs1 \/ In rs (completed rss fl)).
        { unfold completed in *. destruct fl; [|destruct Hrs; auto].
          simpl in Hrs. destruct rss; [destruct Hrs|]. destruct Hrs; auto. }
        destruct Hcases as [->|Hc].
        * eapply holds_mono with (names := flat_map fouts (concat gs)).
          -- eapply gen_run_complete; eauto. eapply NoDup_app_remove_r; eauto.
          -- eapply gens_run_mono; eauto.
          -- intros _ o Ho Hx.
             pose proof (gen_run_results_funcs _ _ _ _ _ _ Eg) as Hf. rewrite Forall_forall in Hf.
             specialize (Hf _ Hin). simpl in Hf.
             assert (Ho' : In o (flat_map fouts g)) by (apply in_flat_map; eauto).
             eapply NoDup_app_disjoint; eauto.
        * eapply IH; eauto. eapply NoDup_app_remove_l; eauto.
  Qed.

  Lemma gens_run_dumped : forall shapes gens st st' tr fl, gens_run ubody dump_sub stop shapes gens st = (st', tr, fl) ->
    DS ->
    forall rs t outs, In rs tr -> In (t, TDone outs) rs -> t_map t <> None -> holds (m_store st') t outs.
  Proof.
    intros shapes. induction gens as [|g gs IH]; intros st st' tr fl H Hd rs t outs Hrs Hin Hm; simpl in H.
    - inversion H; subst. destruct Hrs.
    - destruct (gen_run ubody dump_sub stop shapes g st) as [[st1 rs1] fl1] eqn:Eg.
      destruct fl1.
      + inversion H; subst. destruct Hrs as [->|[]]. eapply gen_run_dumped; eauto.
      + destruct (gens_run ubody dump_sub stop shapes gs st1) as [[st2 rss] fl2] eqn:Er. inversion H; subst.
        destruct Hrs as [->|Hrs].
        * eapply holds_mono; [eapply gen_run_dumped; eauto|eapply gens_run_mono; eauto|intros Hc; congruence].
        * eapply IH; eauto.
  Qed.

  Lemma gens_run_prefix_kept : forall shapes gens st st' tr fl,
    gens_run ubody dump_sub stop shapes gens st = (st', tr, fl) ->
    (fl = None \/ exists e c, fl = Some (FailUser e c)) ->
    NoDup (flat_map fouts (concat gens)) -> NoDup (map fname (concat gens)) ->
    forall rs t outs, In rs tr -> In (t, TDone outs) (take_done rs) -> holds (m_store st') t outs.
  Proof.
    intros shapes. induction gens as [|g gs IH]; intros st st' tr fl H Hfl Hnd Hnames rs t outs Hrs Hin; simpl in H.
    - inversion H; subst. destruct Hrs.
    - destruct (gen_run ubody dump_sub stop shapes g st) as [[st1 rs1] fl1] eqn:Eg.
      simpl in Hnd, Hnames. rewrite flat_map_app in Hnd. rewrite map_app in Hnames.
      destruct fl1 as [x|].
      + inversion H; subst. destruct Hrs as [->|[]].
        destruct Hfl as [Hc|(e & c & Hc)]; [discriminate|]. inversion Hc; subst.
        eapply gen_run_prefix_kept; eauto; [eapply NoDup_app_remove_r; eauto|eapply NoDup_app_remove_r; eauto].
      + destruct (gens_run ubody dump_sub stop shapes gs st1) as [[st2 rss] fl2] eqn:Er. inversion H; subst.
        destruct Hrs as [->|Hrs].
        * destruct (take_done_incl _ _ Hin) as [Hin1 _].
          eapply holds_mono with (names := flat_map fouts (concat gs)).
          -- eapply gen_run_complete; eauto. eapply NoDup_app_remove_r; eauto.
          -- eapply gens_run_mono; eauto.
          -- intros _ o Ho Hx.
             pose proof (gen_run_results_funcs _ _ _ _ _ _ Eg) as Hf. rewrite Forall_forall in Hf.
             specialize (Hf _ Hin1). simpl in Hf.
             assert (Ho' : In o (flat_map fouts g)) by (apply in_flat_map; eauto).
             exact (NoDup_app_disjoint _ _ _ _ Hnd Ho' Hx).
        * eapply IH; eauto; eapply NoDup_app_remove_l; eauto.
  Qed.

  (* ================================================================== theorems *)
  (* prefix_results_kept (FULL, repaired code): when map raises a user exception (or returns), every result that
     completed before the failure -- every task of every earlier generation and, in the failing generation, every
     task that precedes the failing one in submission order -- is in the store; on the sequential path that is
     every completed invocation of the run. *)
  Theorem map_prefix_results_kept : forall gens inputs user st tr fl,
    map_run_f ubody dump_sub stop gens inputs user = (st, tr, fl) ->
    (fl = None \/ exists e c, fl = Some (FailUser e c)) ->
    NoDup (flat_map fouts (concat gens)) -> NoDup (map fname (concat gens)) ->
    forall rs t outs, In rs tr -> In (t, TDone outs) (take_done rs) -> holds (m_store st) t outs.
  Proof.
    intros gens inputs user st tr fl H Hfl Hnd Hnames rs t outs Hrs Hin. unfold map_run_f in H.
    destruct (all_shapes user inputs (concat gens)) as [shapes|x].
    - eapply gens_run_prefix_kept; eauto.
    - inversion H; subst. destruct Hrs.
  Qed.

  (* prefix_results_kept, part 1 (both paths, every storage): the results of every invocation of a generation that
     completed (every generation before the failing one) are in the store when map raises / returns *)
  Theorem map_completed_generations_kept : forall gens inputs user st tr fl,
    map_run_f ubody dump_sub stop gens inputs user = (st, tr, fl) ->
    NoDup (flat_map fouts (concat gens)) ->
    forall rs t outs, In rs (completed tr fl) -> In (t, TDone outs) rs -> holds (m_store st) t outs.
  Proof.
    intros gens inputs user st tr fl H Hnd rs t outs Hrs Hin. unfold map_run_f in H.
    destruct (all_shapes user inputs (concat gens)) as [shapes|x].
    - eapply gens_run_kept; eauto.
    - inversion H; subst. destruct Hrs.
  Qed.

  (* prefix_results_kept, part 2 (guarded): with a storage that dumps in the worker (file_array,
     shared_memory_dict) every completed ELEMENT of a mapped function -- also of the failing generation, also of
     the failing function -- is in the store *)
  Theorem map_dumped_elements_kept : forall gens inputs user st tr fl,
    map_run_f ubody dump_sub stop gens inputs user = (st, tr, fl) ->
    dump_sub = true ->
    forall rs t outs, In rs tr -> In (t, TDone outs) rs -> t_map t <> None -> holds (m_store st) t outs.
  Proof.
    intros gens inputs user st tr fl H Hd rs t outs Hrs Hin Hm. change DS in Hd. unfold map_run_f in H.
    destruct (all_shapes user inputs (concat gens)) as [shapes|x].
    - eapply gens_run_dumped; eauto.
    - inversion H; subst. destruct Hrs.
  Qed.
End StoreFacts.

(* ---------- the sequential path: every completed invocation precedes the failure ---------- *)
Lemma gen_run_seq_done : forall ubody dump_sub shapes gen st st' rs fl,
  gen_run ubody dump_sub true shapes gen st = (st', rs, fl) ->
  forall tr, In tr rs -> is_done (snd tr) = true -> In tr (take_done rs).
Proof.
  intros ubody dump_sub shapes gen st st' rs fl H tr Hin Hd. unfold gen_run in H.
  destruct (gen_tasks shapes gen (m_env st)) as [ts|x]. 2:{ inversion H; subst. destruct Hin. }
  destruct (exec_tasks ubody dump_sub true ts st) as [st1 rs1] eqn:Ex.
  assert (G : In tr rs1 -> In tr (take_done rs1)) by (intros; eapply exec_tasks_seq_done; eauto).
  destruct (first_fail rs1) as [[t r]|].
  - destruct (salvage_all _ _ _ _); inversion H; subst; auto.
  - destruct (post_funcs _ _ _ _); inversion H; subst; auto.
Qed.

Lemma gens_run_seq_done : forall ubody dump_sub shapes gens st st' tr fl,
  gens_run ubody dump_sub true shapes gens st = (st', tr, fl) ->
  forall rs x, In rs tr -> In x rs -> is_done (snd x) = true -> In x (take_done rs).
Proof.
  intros ubody dump_sub shapes. induction gens as [|g gs IH]; intros st st' tr fl H rs x Hrs Hin Hd; simpl in H.
  - inversion H; subst. destruct Hrs.
  - destruct (gen_run ubody dump_sub true shapes g st) as [[st1 rs1] fl1] eqn:Eg. destruct fl1.
    + inversion H; subst. destruct Hrs as [->|[]]. eapply gen_run_seq_done; eauto.
    + destruct (gens_run ubody dump_sub true shapes gs st1) as [[st2 rss] fl2] eqn:Er. inversion H; subst.
      destruct Hrs as [->|Hrs]; [eapply gen_run_seq_done; eauto|eapply IH; eauto].
Qed.

(* prefix_results_kept on the sequential path, FULL: every invocation that returned is in the store *)
Theorem map_prefix_results_kept_seq : forall ubody dump_sub gens inputs user st tr fl,
  map_run_f ubody dump_sub true gens inputs user = (st, tr, fl) ->
  (fl = None \/ exists e c, fl = Some (FailUser e c)) ->
  NoDup (flat_map fouts (concat gens)) -> NoDup (map fname (concat gens)) ->
  forall rs t outs, In rs tr -> In (t, TDone outs) rs -> holds (m_store st) t outs.
Proof.
  intros ubody dump_sub gens inputs user st tr fl H Hfl Hnd Hnames rs t outs Hrs Hin.
  eapply map_prefix_results_kept; eauto.
  unfold map_run_f in H. destruct (all_shapes user inputs (concat gens)) as [shapes|x].
  - eapply gens_run_seq_done; eauto.
  - inversion H; subst. destruct Hrs.
Qed.
