(* Concrete instances for C13: non-vacuity examples, among them the two runs that refuted "every result completed
   before the failure stays stored" before the repair "keep the results that completed before a function raised". *)
From Verif Require Import Base.Prelude Base.StrUtil Base.Index Base.NdArr Model.MapSpec Model.MapRun Model.FailingMap.
From Verif Require Import Proofs.FailingMapFacts Proofs.FailingStoreFacts.

Definition wexn : exn := {| cls := s "ValueError"; eargs := [s "m"] |}.

(* t = s(c)  (no MapSpec)   and   z[i] = g(x[i])  in ONE generation, listed [s; g] *)
Definition w_s : mfunc :=
  {| fname := s "s"; fouts := [s "t"]; fparams := [s "c"]; fbound := []; fdefaults := []; fspec := None;
     fint := []; fret := [] |}.
Definition w_g : mfunc :=
  {| fname := s "g"; fouts := [s "z"]; fparams := [s "x"]; fbound := []; fdefaults := [];
     fspec := Some {| ins := [{| aname := s "x"; axes := [Some (s "i")] |}];
                      outs := [{| aname := s "z"; axes := [Some (s "i")] |}] |};
     fint := []; fret := [] |}.

(* user code: g raises ValueError("m") for x = "b", everything else returns one value per output *)
Definition w_body : mfunc -> env -> outcome (list val) :=
  fun f kw =>
    if str_eqb (fname f) (s "g") then
      match dict_get kw (s "x") with
      | Some (VS x) => if str_eqb x (s "b") then Raised wexn else Done [VS (s "g(" ++ x ++ s ")")]
      | _ => Done [VS (s "?")]
      end
    else Done [VS (s "s(C)")].

Definition w_inputs (xs : list str) : env :=
  [(s "x", VA {| shp := [length xs]; dat := xs |}); (s "c", VS (s "C"))].

Definition w_task_s : task := {| t_f := w_s; t_kw := [(s "c", VS (s "C"))]; t_map := None |}.

(* EXAMPLE 1 (the former witness of the finding C13-seq-generation-single-output-dropped, now repaired):
   sequential path, generation [s; g], g raises at its first element: s returned "s(C)" before the failure and its
   output t IS in the store *)
Lemma example_single_kept :
  exists st tr c,
    map_run_f w_body true true [[w_s; w_g]] (w_inputs [s "b"]) [] = (st, tr, Some (FailUser wexn c))
    /\ NoDup (flat_map fouts (concat [[w_s; w_g]])) /\ NoDup (map fname (concat [[w_s; w_g]]))
    /\ (exists rs, In rs tr /\ In (w_task_s, TDone [VS (s "s(C)")]) rs)
    /\ holds (m_store st) w_task_s [VS (s "s(C)")].
Proof.
  destruct (map_run_f w_body true true [[w_s; w_g]] (w_inputs [s "b"]) []) as [[st tr] fl] eqn:E.
  assert (E0 := E). vm_compute in E0. injection E0 as <- <- <-.
  assert (Hnd : NoDup (flat_map fouts (concat [[w_s; w_g]]))).
  { simpl. repeat constructor; simpl; intuition discriminate. }
  assert (Hnn : NoDup (map fname (concat [[w_s; w_g]]))).
  { simpl. repeat constructor; simpl; intuition discriminate. }
  eexists. eexists. eexists. split; [exact E|]. split; [exact Hnd|]. split; [exact Hnn|]. split.
  - eexists. split; [left; reflexivity|]. left. reflexivity.
  - eapply (map_prefix_results_kept_seq w_body true _ _ _ _ _ _ E); [right; eauto|exact Hnd|exact Hnn| |].
    + left. reflexivity.
    + left. reflexivity.
Qed.

Definition w_task_g (kw : env) (n i : nat) : task :=
  {| t_f := w_g; t_kw := kw;
     t_map := Some ({| ins := [{| aname := s "x"; axes := [Some (s "i")] |}];
                       outs := [{| aname := s "z"; axes := [Some (s "i")] |}] |}, [n], [true], i) |}.

(* EXAMPLE 2 (the former witness of C13-seq-generation-dict-elements-dropped, now repaired): storage without
   dump_in_subprocess ('dict'), sequential path, g over x = [a, b] raises at b: the element g(a) IS in the store *)
Lemma example_dict_kept :
  exists st tr c t,
    map_run_f w_body false true [[w_g]] [(s "x", VA {| shp := [2]; dat := [s "a"; s "b"] |})] [] =
      (st, tr, Some (FailUser wexn c))
    /\ (exists rs, In rs tr /\ In (t, TDone [VS (s "g(a)")]) rs) /\ t_map t <> None
    /\ holds (m_store st) t [VS (s "g(a)")].
Proof.
  destruct (map_run_f w_body false true [[w_g]] [(s "x", VA {| shp := [2]; dat := [s "a"; s "b"] |})] [])
    as [[st tr] fl] eqn:E.
  assert (E0 := E). vm_compute in E0. injection E0 as <- <- <-.
  eexists. eexists. eexists.
  exists (w_task_g [(s "x", VA {| shp := [2]; dat := [s "a"; s "b"] |})] 2 0).
  split; [exact E|]. split.
  - eexists. split; [left; reflexivity|]. left. reflexivity.
  - split; [discriminate|].
    eapply (map_prefix_results_kept_seq w_body false _ _ _ _ _ _ E); [right; eauto| | | |].
    + simpl. repeat constructor; simpl; intuition discriminate.
    + simpl. repeat constructor; simpl; intuition discriminate.
    + left. reflexivity.
    + left. reflexivity.
Qed.

(* NON-VACUITY of the guarded theorem: the same run on a storage that dumps in the worker keeps g(a) *)
Lemma example_dumped_kept :
  exists st tr c t,
    map_run_f w_body true true [[w_g]] [(s "x", VA {| shp := [2]; dat := [s "a"; s "b"] |})] [] =
      (st, tr, Some (FailUser wexn c))
    /\ (exists rs, In rs tr /\ In (t, TDone [VS (s "g(a)")]) rs) /\ t_map t <> None
    /\ holds (m_store st) t [VS (s "g(a)")]
    /\ m_log st = [(w_g, [(s "x", VS (s "a"))]); c] /\ fst c = w_g.
Proof.
  destruct (map_run_f w_body true true [[w_g]] [(s "x", VA {| shp := [2]; dat := [s "a"; s "b"] |})] [])
    as [[st tr] fl] eqn:E.
  assert (E0 := E). vm_compute in E0. injection E0 as <- <- <-.
  eexists. eexists. eexists.
  exists (w_task_g [(s "x", VA {| shp := [2]; dat := [s "a"; s "b"] |})] 2 0).
  split; [exact E|].
  assert (Hin : exists rs, In rs [[(w_task_g [(s "x", VA {| shp := [2]; dat := [s "a"; s "b"] |})] 2 0,
                                    TDone [VS (s "g(a)")]);
                                   (w_task_g [(s "x", VA {| shp := [2]; dat := [s "a"; s "b"] |})] 2 1,
                                    TRaised wexn (w_g, [(s "x", VS (s "b"))]))]]
                          /\ In (w_task_g [(s "x", VA {| shp := [2]; dat := [s "a"; s "b"] |})] 2 0,
                                 TDone [VS (s "g(a)")]) rs).
  { eexists. split; [left; reflexivity|]. left. reflexivity. }
  split; [exact Hin|]. split; [discriminate|]. split.
  - destruct Hin as (rs & Hrs & Hin).
    eapply (map_dumped_elements_kept w_body true true _ _ _ _ _ _ E eq_refl rs); [exact Hrs|exact Hin|discriminate].
  - split; reflexivity.
Qed.

(* NON-VACUITY for completed generations: two generations [g] ; [h] where h (second generation) raises: all
   elements of the first generation are kept, also with the 'dict' storage, also with an executor *)
Definition w_h : mfunc :=
  {| fname := s "h"; fouts := [s "w"]; fparams := [s "z"]; fbound := []; fdefaults := []; fspec := None;
     fint := []; fret := [] |}.
Definition w_body2 : mfunc -> env -> outcome (list val) :=
  fun f kw => if str_eqb (fname f) (s "h") then Raised wexn
              else match dict_get kw (s "x") with
                   | Some (VS x) => Done [VS (s "g(" ++ x ++ s ")")]
                   | _ => Done [VS (s "?")]
                   end.

Lemma example_generation_kept : forall stop,
  exists st tr c,
    map_run_f w_body2 false stop [[w_g]; [w_h]] [(s "x", VA {| shp := [2]; dat := [s "a"; s "c"] |})] [] =
      (st, tr, Some (FailUser wexn c))
    /\ fst c = w_h
    /\ length tr = 2
    /\ map (fun c => fname (fst c)) (m_log st) = [s "g"; s "g"; s "h"]
    /\ (exists rs t outs, In rs (completed tr (Some (FailUser wexn c))) /\ In (t, TDone outs) rs)
    /\ forall rs t outs, In rs (completed tr (Some (FailUser wexn c))) -> In (t, TDone outs) rs ->
                         holds (m_store st) t outs.
Proof.
  intros stop.
  destruct (map_run_f w_body2 false stop [[w_g]; [w_h]] [(s "x", VA {| shp := [2]; dat := [s "a"; s "c"] |})] [])
    as [[st tr] fl] eqn:E.
  assert (Hnd : NoDup (flat_map fouts (concat [[w_g]; [w_h]]))).
  { simpl. repeat constructor; simpl; intuition discriminate. }
  assert (E0 := E). destruct stop; vm_compute in E0; injection E0 as <- <- <-;
    (eexists; eexists; eexists; split; [exact E|]; split; [reflexivity|]; split; [reflexivity|];
     split; [reflexivity|]; split;
     [eexists; eexists; eexists; split; [left; reflexivity|left; reflexivity]
     |intros rs t outs Hrs Hin; eapply map_completed_generations_kept; [exact E|exact Hnd|exact Hrs|exact Hin]]).
Qed.
