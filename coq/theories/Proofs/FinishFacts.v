(* C04: for a valid request whose denotation is defined and whose storage configuration names a backend for every
   mapped output, the model of the run + persist never refuses: `finish` returns a finished run. *)
From Verif Require Import Base.Prelude Base.StrUtil Base.Index Base.NdArr Model.MapSpec Model.MapSpecSpec Model.MapRun
  Model.MapDenote Model.SymBody Model.RunInfoCodec Model.FSStore Corr.Run_C04 Corr.Valid_C04
  Proofs.StrFacts Proofs.IndexFacts Proofs.MapSpecFacts Proofs.ListFacts Proofs.PlaceFacts Proofs.SelectFacts
  Proofs.MapRunFacts Proofs.RunInfoFacts Proofs.FSStoreFacts Proofs.ReloadFacts Proofs.ConsistentFacts.

Lemma mapM_all_ok {A B} (g : A -> result B) l : (forall x, In x l -> exists y, g x = Ok y) -> exists r, mapM g l = Ok r.
Proof.
  induction l as [|a l IH]; intros H; [now exists []|].
  destruct (H a (or_introl eq_refl)) as [b Hb]. destruct IH as [r Hr]; [intros x Hx; apply H; now right|].
  exists (b :: r). cbn [mapM]. now rewrite Hb, Hr.
Qed.

Lemma map_fst_combine {A B} (l : list A) (l' : list B) : length l = length l' -> map fst (combine l l') = l.
Proof.
  revert l'. induction l as [|x l IH]; intros [|y l'] H; cbn in *; try discriminate; [reflexivity|]. f_equal. apply IH. lia.
Qed.

(* the names of the denoted outputs are the output names of the functions, in order *)
Section DenoteNames.
  Variable body : mfunc -> env -> result (list val).
  Variable user : shape_dict.

  Lemma denote_func_names st f st' :
    denote_func body user st f = Ok st' -> map fst (d_out st') = map fst (d_out st) ++ fouts f.
  Proof.
    unfold denote_func. destruct (func_shape user (d_shapes st) f) as [shm|]; [|discriminate]. cbn [bind].
    destruct (func_kwargs f (d_env st)) as [kw|]; [|discriminate]. cbn [bind].
    destruct (is_mapped f).
    - destruct (fspec f) as [ms|]; [|discriminate]. destruct shm as [[sh mask]|]; [|discriminate].
      destruct (negb (forallb (fun d => 0 <? d) sh)); [discriminate|].
      destruct (denote_mapped body f ms kw sh mask) as [arrs|] eqn:Ed; [|discriminate]. cbn [bind]. intros [= <-].
      cbn [d_out]. rewrite map_app. f_equal. apply map_fst_combine. rewrite map_length.
      unfold denote_mapped in Ed. destruct (ret_shape_ok body f ms kw sh mask); [|discriminate]. cbn [bind] in Ed.
      apply mapM_length in Ed. now rewrite Ed, seq_length.
    - destruct (body f kw) as [outs|]; [|discriminate]. cbn [bind].
      destruct (length outs =? length (fouts f)) eqn:El; [|discriminate]. cbn [negb].
      match goal with |- (if ?c then _ else _) = _ -> _ => destruct c end; [discriminate|]. intros [= <-].
      cbn [d_out]. rewrite map_app. f_equal. apply map_fst_combine. apply Nat.eqb_eq in El. now symmetry.
  Qed.

  Lemma denote_fold_names : forall p st d,
    fold_left (fun acc f => do s <- acc; denote_func body user s f) p (Ok st) = Ok d ->
    map fst (d_out d) = map fst (d_out st) ++ flat_map fouts p.
  Proof.
    induction p as [|f p IH]; intros st d H; cbn [fold_left bind flat_map] in *.
    - injection H as <-. now rewrite app_nil_r.
    - destruct (denote_func body user st f) as [st1|] eqn:E1.
      + rewrite (IH st1 d H), (denote_func_names st f st1 E1). now rewrite <- app_assoc.
      + rewrite fold_left_bind_err in H. discriminate.
  Qed.

  Lemma denote_run_names p inputs d : denote_run body p inputs user = Ok d -> map fst (d_out d) = flat_map fouts p.
  Proof. intros H. unfold denote_run in H. now rewrite (denote_fold_names p _ d H). Qed.
End DenoteNames.

Section Finish.
  Variable c : case.
  Variable d : den_state.
  Hypothesis Hvalid : valid_request c = true.
  Hypothesis Hstorage : storage_complete c = true.
  Hypothesis Hden : denote_run sym_body (c_funcs c) (c_inputs c) (c_internal c) = Ok d.

  Theorem finish_succeeds : exists f, finish false c = Ok f.
  Proof.
    destruct (valid_parts c Hvalid) as [Hfok [Hnd [Hnames [Hprint [Hint Hstk]]]]].
    assert (Hnd1 : NoDup (flat_map fouts (c_funcs c))) by (now apply NoDup_app_left in Hnd).
    assert (Hreq : request_ok (c_funcs c) (c_inputs c) = true).
    { unfold valid_request in Hvalid. do 4 (apply andb_true_iff in Hvalid as [Hvalid _]). exact Hvalid. }
    destruct (map_run_denotes sym_body sym_body_arity (c_internal c) (c_funcs c) (c_inputs c) d Hreq Hden)
      as [st [Hrun [Hret _]]].
    pose proof (map_run_inv sym_body (c_internal c) (c_funcs c) (c_inputs c) st Hrun Hnd1) as [Hin Hish Himap].
    (* every output name has an entry in r_out *)
    assert (Hfind : forall o, In o (flat_map fouts (c_funcs c)) ->
              exists x, find (fun x => str_eqb (fst (fst x)) o) (r_out st) = Some x /\ In x (r_out st) /\ fst (fst x) = o).
    { intros o Ho. rewrite <- (denote_run_names sym_body (c_internal c) _ _ d Hden), <- Hret, map_map in Ho. cbn [fst] in Ho.
      apply in_map_iff in Ho as [x [Hx Hxin]].
      destruct (find (fun x => str_eqb (fst (fst x)) o) (r_out st)) as [y|] eqn:Ef.
      - exists y. apply find_some in Ef as [H1 H2]. apply str_eqb_eq in H2. auto.
      - exfalso. apply (find_none _ _ Ef) in Hxin. rewrite Hx, str_eqb_refl in Hxin. discriminate. }
    unfold finish. rewrite Hrun. cbn [bind].
    (* RunInfo.create *)
    assert (exists sm, create_shapes (c_funcs c) (c_inputs c) (r_shapes st) = Ok sm) as [sm Hcs].
    { rewrite create_shapes_unfold.
      destruct (mapM_all_ok (shape_entries (r_shapes st)) (c_funcs c)) as [per Hper].
      - intros g Hg. unfold shape_entries. destruct (fspec g) as [ms|] eqn:Hms; [|eauto].
        destruct (Hish g ms Hg Hms) as [v [_ Hv]].
        destruct (func_ok_spec g ms (Hfok g Hg) Hms) as [_ [_ [_ Hlen]]].
        destruct (fouts g) as [|o [|o' t]] eqn:Eo; [cbn in Hlen; lia| |].
        + rewrite (Hv o) by (now left). cbn [get_or bind]. eauto.
        + rewrite (Hv o) by (now left). cbn [get_or bind]. eauto.
      - rewrite Hper. cbn [bind]. eauto. }
    unfold create_run_info. rewrite Hcs. cbn [bind].
    (* the outputs *)
    assert (exists outs, outs_of_run (c_funcs c) (normalize_storage (c_storage c)) st = Ok outs) as [outs Houts].
    { rewrite outs_of_run_unfold.
      destruct (mapM_all_ok (fun g => mapM (desc_of (normalize_storage (c_storage c)) st g) (fouts g)) (c_funcs c)) as [l Hl].
      - intros g Hg. apply mapM_all_ok. intros o Ho.
        assert (Hog : In o (flat_map fouts (c_funcs c))) by (apply in_flat_map; eauto).
        destruct (Hfind o Hog) as [[[o' ret] stored] [Hf [Hxin Hxn]]]. cbn [fst] in Hxn. subst o'.
        unfold desc_of. rewrite Hf. destruct (is_mapped g) eqn:Hmap; [|eauto].
        destruct (Himap (o, ret, stored) g Hxin Hg Hmap Ho) as [a [smo [Ha [Hs _]]]]. cbn [snd] in Ha. subst stored.
        unfold out_name in Hs. cbn [fst] in Hs. rewrite Hs. cbn [get_or bind].
        unfold storage_complete in Hstorage. rewrite forallb_forall in Hstorage. specialize (Hstorage g Hg).
        rewrite Hmap in Hstorage. cbn [negb orb] in Hstorage.
        destruct (storage_class (normalize_storage (c_storage c)) (output_key_of g)) as [k|]; [|discriminate]. cbn [bind]. eauto.
      - rewrite Hl. cbn [bind]. eauto. }
    rewrite Houts. cbn [bind].
    (* the files *)
    unfold world_of.
    destruct (mapM_all_ok (fun nd : nat * out_desc => out_files false (c_persist c) (fst nd) (snd nd))
                (combine (seq 0 (length outs)) outs)) as [fl Hfl].
    - intros [i dd] Hnd'. apply in_combine_r in Hnd'. cbn [fst snd].
      destruct (outs_inv _ _ _ _ dd Houts Hnd') as [g [o [Hg [Ho Hdo]]]].
      unfold desc_of in Hdo. destruct (find _ (r_out st)) as [[[o' ret] stored]|] eqn:Ef; [|discriminate].
      destruct (is_mapped g) eqn:Hmap.
      + destruct stored as [?|a]; [discriminate|].
        destruct (dict_get (r_shapes st) o) as [smo|] eqn:Es; [|discriminate]. cbn [get_or bind] in Hdo.
        destruct (storage_class _ _) as [k|]; [|discriminate]. cbn [bind] in Hdo. injection Hdo as <-.
        apply find_some in Ef as [Hxin Hxn]. cbn [fst] in Hxn. apply str_eqb_eq in Hxn. subst o'.
        destruct (Himap (o, ret, VA a) g Hxin Hg Hmap Ho) as [a' [sm' [Ha' [Hsm' [Hshp Hwfa]]]]].
        cbn [snd] in Ha'. injection Ha' as <-. unfold out_name in Hsm'. cbn [fst] in Hsm'. rewrite Es in Hsm'. injection Hsm' as <-.
        apply is_mapped_spec in Hmap as [ms [Hms _]].
        destruct (Hish g ms Hg Hms) as [v [Hlen Hv]]. rewrite (Hv o Ho) in Es. injection Es as <-.
        assert (Hm : length (snd v) = length (shp a)) by (rewrite Hshp; now symmetry).
        cbn [out_files]. cbv zeta.
        destruct (mapM_all_ok (fun e => do v0 <- sub_value a (snd v) e; Ok (e, v0)) (all_indices (ext_of (snd v) (shp a)))) as [vals Hvals].
        * intros e He. destruct (sub_value_defined a (snd v) Hwfa Hm e (all_indices_in_bounds _ _ He)) as [v0 Hv0].
          rewrite Hv0. cbn [bind]. eauto.
        * rewrite Hvals. cbn [bind]. destruct k; eauto.
      + injection Hdo as <-. cbn [out_files]. eauto.
    - rewrite Hfl. cbn [bind]. eauto.
  Qed.
End Finish.
