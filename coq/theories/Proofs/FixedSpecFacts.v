(* The declarative notions of Model/FixedSpec.v (axis_reduced, carriers) against the mirrors of
   mapspec_axes / _reduced_axes in Model/MapResume.v, for pipelines whose MapSpecs spell every array with the same
   axis names (validate_consistent_axes). *)
From Verif Require Import Base.Prelude Base.StrUtil Base.Index Base.NdArr Base.PyRange Base.StrSeq
  Model.MapSpec Model.MapSpecSpec Model.MapRun
  Proofs.IndexFacts Proofs.StrFacts Proofs.MapSpecFacts.
From Verif Require Import Model.MapResume Model.FixedSpec Proofs.MapResumeFacts.

(* every array is spelled with the same axis name at the same position in all MapSpecs *)
Definition consistent_axes (arrs : list aspec) : Prop :=
  forall sp1 sp2 k x y, In sp1 arrs -> In sp2 arrs -> aname sp1 = aname sp2 ->
    nth_error (axes sp1) k = Some (Some x) -> nth_error (axes sp2) k = Some (Some y) -> x = y.

Lemma axes_agree_nth l1 : forall l2 k x y, axes_agree l1 l2 = true ->
  nth_error l1 k = Some (Some x) -> nth_error l2 k = Some (Some y) -> x = y.
Proof.
  induction l1 as [|a l1 IH]; intros [|b l2] [|k] x y H H1 H2; cbn in H1, H2; try discriminate.
  - injection H1 as ->. injection H2 as ->. cbn in H. apply andb_true_iff in H as [H _]. now apply str_eqb_eq.
  - apply (IH l2 k x y); [|exact H1 | exact H2]. destruct a, b; cbn in H; try exact H. now apply andb_true_iff in H as [_ H].
Qed.

Lemma consistent_axesb_ok arrs : consistent_axesb arrs = true -> consistent_axes arrs.
Proof.
  unfold consistent_axesb. intros H sp1 sp2 k x y H1 H2 Hn K1 K2. rewrite forallb_forall in H.
  specialize (H sp1 H1). rewrite forallb_forall in H. specialize (H sp2 H2).
  rewrite Hn, str_eqb_refl in H. cbn in H. exact (axes_agree_nth _ _ k x y H K1 K2).
Qed.

Lemma merge_axes_nth_new old : forall new k x,
  nth_error new k = Some (Some x) -> nth_error (merge_axes old new) k = Some (Some x).
Proof.
  induction old as [|o old IH]; intros [|n new] [|k] x H; cbn in *; try discriminate; auto.
  - now injection H as ->.
Qed.

Lemma merge_axes_nth_old old : forall new k x,
  nth_error old k = Some (Some x) ->
  (forall y, nth_error new k = Some (Some y) -> y = x) ->
  nth_error (merge_axes old new) k = Some (Some x).
Proof.
  induction old as [|o old IH]; intros [|n new] [|k] x H Hc; cbn in *; try discriminate; auto.
  - injection H as ->. destruct n as [y|]; [|reflexivity]. now rewrite (Hc y eq_refl).
Qed.

Lemma trim_none_nth l : forall k x, nth_error l k = Some (Some x) -> nth_error (trim_none l) k = Some (Some x).
Proof.
  induction l as [|a l IH]; intros [|k] x H; cbn in *; try discriminate.
  - injection H as ->. reflexivity.
  - specialize (IH k x H). destruct a as [y|]; [exact IH|].
    destruct (trim_none l) eqn:E; [destruct k; discriminate | exact IH].
Qed.

Lemma dget_map_snd {V W} (g : V -> W) (d : list (str * V)) k :
  dict_get (map (fun na => (fst na, g (snd na))) d) k = option_map g (dict_get d k).
Proof. induction d as [|[k' v] d IH]; cbn; [reflexivity|]. destruct (str_eqb k k'); [reflexivity | exact IH]. Qed.

Lemma dget_app2 {V} (a b : list (str * V)) k :
  dict_get (a ++ b) k = match dict_get a k with Some v => Some v | None => dict_get b k end.
Proof. induction a as [|[k' v'] a IH]; cbn; [reflexivity|]. destruct (str_eqb k k'); [reflexivity | exact IH]. Qed.

Definition axes_step (d : axes_dict) (a : aspec) : axes_dict :=
  if existsb (fun x => negb (is_none x)) (axes a) then
    match dict_get d (aname a) with
    | Some old => dict_set d (aname a) (merge_axes old (axes a))
    | None => d ++ [(aname a, axes a)]
    end
  else d.

(* mapspec_axes holds, for every array spec of the pipeline, the name it writes at each named position *)
Lemma axes_fold_inv all : consistent_axes all -> forall l d,
  (forall sp, In sp l -> In sp all) ->
  forall done, (forall sp, In sp done -> In sp all) ->
  (forall sp k x, In sp done -> nth_error (axes sp) k = Some (Some x) ->
     exists ax, dict_get d (aname sp) = Some ax /\ nth_error ax k = Some (Some x)) ->
  forall sp k x, In sp (done ++ l) -> nth_error (axes sp) k = Some (Some x) ->
     exists ax, dict_get (fold_left axes_step l d) (aname sp) = Some ax /\ nth_error ax k = Some (Some x).
Proof.
  intros Hcons. induction l as [|b l IH]; intros d Hl done Hd Hinv sp k x Hsp Hk.
  - rewrite app_nil_r in Hsp. cbn. eauto.
  - cbn [fold_left]. apply (IH (axes_step d b) (fun s0 Hs0 => Hl s0 (or_intror Hs0)) (done ++ [b])).
    + intros s0 Hs0. apply in_app_or in Hs0 as [X|[<-|[]]]; [now apply Hd | apply Hl; left; reflexivity].
    + clear sp k x Hsp Hk. intros sp k x Hsp Hk.
      assert (Hb : In b all) by (apply Hl; left; reflexivity).
      unfold axes_step.
      assert (Hnamed : In sp (done ++ [b]) -> existsb (fun y => negb (is_none y)) (axes sp) = true).
      { intros _. apply existsb_exists. exists (Some x). split; [eapply nth_error_In; eauto | reflexivity]. }
      apply in_app_or in Hsp as [Hsp|[<-|[]]].
      * destruct (Hinv sp k x Hsp Hk) as [ax [A1 A2]].
        destruct (existsb _ (axes b)) eqn:Eb; [|eauto].
        destruct (dict_get d (aname b)) as [old|] eqn:Eg.
        -- destruct (str_eqb (aname b) (aname sp)) eqn:En.
           ++ apply str_eqb_eq in En. rewrite <- En, dict_get_set_same. rewrite <- En, Eg in A1. injection A1 as ->.
              eexists. split; [reflexivity|]. apply merge_axes_nth_old; [exact A2|].
              intros y Hy. apply (Hcons b sp k y x Hb (Hd sp Hsp) En Hy Hk).
           ++ rewrite dict_get_set_other by (intros X; rewrite X, str_eqb_refl in En; discriminate). eauto.
        -- rewrite dget_app2, A1. eauto.
      * rewrite (Hnamed (in_or_app done [b] b (or_intror (or_introl eq_refl)))).
        destruct (dict_get d (aname b)) as [old|] eqn:Eg.
        -- rewrite dict_get_set_same. eexists. split; [reflexivity|]. now apply merge_axes_nth_new.
        -- rewrite dget_app2, Eg. cbn. rewrite str_eqb_refl. eauto.
    + rewrite <- app_assoc. exact Hsp.
    + exact Hk.
Qed.

Theorem mapspec_axes_nth specs sp k a :
  consistent_axes (flat_map (fun m => ins m ++ outs m) specs) ->
  In sp (flat_map (fun m => ins m ++ outs m) specs) -> nth_error (axes sp) k = Some (Some a) ->
  nth_error (axes_get (mapspec_axes specs) (aname sp)) k = Some (Some a).
Proof.
  intros Hc Hsp Hk. unfold mapspec_axes, axes_get.
  set (arrs := flat_map (fun m => ins m ++ outs m) specs) in *.
  change (fold_left _ arrs []) with (fold_left axes_step arrs []).
  destruct (axes_fold_inv arrs Hc arrs [] (fun _ H => H) [] (fun _ H => match H with end)) with (sp := sp) (k := k) (x := a)
    as [ax [A1 A2]]; [intros ? ? ? [] | exact Hsp | exact Hk|].
  rewrite dget_map_snd, A1. cbn. now apply trim_none_nth.
Qed.

(* carriers_of lists exactly the (array, position) pairs at which some spec writes the axis *)
Lemma carriers_of_In p a name k :
  In (name, k) (carriers_of p a) ->
  exists sp, In sp (arrayspecs p) /\ aname sp = name /\ nth_error (axes sp) k = Some (Some a).
Proof.
  unfold carriers_of. intros H. apply in_flat_map in H as [sp [Hsp H]]. exists sp. split; [exact Hsp|].
  apply in_flat_map in H as [[k' ax] [Hin H]]. cbn [fst snd] in H.
  destruct ax as [x|]; [|destruct H]. destruct (str_eqb x a) eqn:E; [|destruct H]. destruct H as [H|[]].
  injection H as <- <-. apply str_eqb_eq in E. subst x. split; [reflexivity|].
  assert (G : forall l base, In (k', Some a) (combine (seq base (length l)) l) -> base <= k' /\ nth_error l (k' - base) = Some (Some a)).
  { induction l as [|y l IH]; intros base Hc; cbn in Hc; [destruct Hc|]. destruct Hc as [Hc|Hc].
    - injection Hc as <- ->. rewrite Nat.sub_diag. auto.
    - destruct (IH (S base) Hc) as [A B]. split; [lia|]. replace (k' - base) with (S (k' - S base)) by lia. exact B. }
  destruct (G _ 0 Hin) as [_ B]. now rewrite Nat.sub_0_r in B.
Qed.

Lemma dget_In_nodup {V} (d : list (str * V)) k v : NoDup (map fst d) -> In (k, v) d -> dict_get d k = Some v.
Proof.
  induction d as [|[k' v'] d IH]; intros Hnd Hin; [destruct Hin|]. cbn in *. inversion Hnd as [|? ? Hni Hnd']; subst.
  destruct Hin as [Hin|Hin].
  - injection Hin as -> ->. now rewrite str_eqb_refl.
  - destruct (str_eqb k k') eqn:E; [|now apply IH].
    apply str_eqb_eq in E. subst k'. exfalso. apply Hni. apply in_map_iff. exists (k, v). auto.
Qed.

Lemma init_shapes_names inputs q : In q (map fst (init_shapes inputs)) -> In q (map fst inputs).
Proof.
  induction inputs as [|[k v] l IH]; cbn; [auto|]. destruct v; cbn; [intros H; right; now apply IH|].
  intros [H|H]; [left; exact H | right; now apply IH].
Qed.

Lemma init_shapes_scalar inputs name x : NoDup (map fst inputs) -> dict_get inputs name = Some (VS x) ->
  dict_get (init_shapes inputs) name = None.
Proof.
  induction inputs as [|[k v] l IH]; cbn; intros Hnd H; [reflexivity|]. inversion Hnd as [|? ? Hni Hnd']; subst.
  destruct (str_eqb name k) eqn:E.
  - injection H as ->. apply str_eqb_eq in E. subst k. cbn [init_shapes flat_map snd app].
    fold (init_shapes l).
    destruct (dict_get (init_shapes l) name) eqn:Eg; [|reflexivity].
    exfalso. apply Hni. apply init_shapes_names. eapply dict_get_In_fst; eauto.
  - destruct v; cbn; [now apply IH|]. rewrite E. now apply IH.
Qed.

Section Decl.
  Variable p : list mfunc.
  Hypothesis Hcons : consistent_axes (arrayspecs p).

  Lemma carrier_axes_get a name k : In (name, k) (carriers_of p a) ->
    nth_error (axes_get (mapspec_axes (specs_of p)) name) k = Some (Some a).
  Proof.
    intros H. destruct (carriers_of_In p a name k H) as [sp [Hsp [<- Hk]]].
    rewrite arrayspecs_specs in Hsp, Hcons. now apply mapspec_axes_nth.
  Qed.

  (* bad_request_rejected, reduced axis: the declarative notion implies the model's *)
  Theorem axis_reduced_in_reduced_axes a : axis_reduced p a = true -> In a (reduced_axes p).
  Proof.
    unfold axis_reduced. intros H. apply existsb_exists in H as [[name k] [Hcar H]]. cbn [fst snd] in H.
    apply existsb_exists in H as [f [Hf H]]. apply andb_true_iff in H as [Hpar H]. apply mem_str_In in Hpar.
    pose proof (carrier_axes_get a name k Hcar) as Hax.
    destruct (carriers_of_In p a name k Hcar) as [sp [Hsp [Hn _]]].
    unfold reduced_axes. apply in_flat_map. exists name. split.
    - unfold mapspec_names. rewrite arrayspecs_specs in Hsp. apply in_flat_map in Hsp as [m [Hm Hsp]].
      apply in_flat_map. exists m. split; [exact Hm|]. rewrite <- Hn. rewrite <- map_app. now apply in_map.
    - unfold reduced_axes_of. apply in_flat_map. exists f. split; [exact Hf|].
      destruct (fspec f) as [m|] eqn:Es.
      + destruct (find (fun sp0 => str_eqb (aname sp0) name) (ins m)) as [sp'|] eqn:Ef.
        * destruct (nth_error (axes sp') k) as [[y|]|] eqn:Ek; try discriminate.
          assert (He : existsb is_none (axes sp') = true).
          { apply existsb_exists. exists None. split; [eapply nth_error_In; eauto | reflexivity]. }
          rewrite He. apply somes_In. apply in_map_iff. exists (Some a, None). split; [reflexivity|].
          apply filter_In. split; [|reflexivity].
          clear - Hax Ek. revert k Hax Ek. generalize (axes_get (mapspec_axes (specs_of p)) name) as l1. generalize (axes sp') as l2.
          induction l2 as [|y l2 IH]; intros [|x l1] [|k] H1 H2; cbn in *; try discriminate.
          -- injection H1 as ->. injection H2 as ->. left. reflexivity.
          -- right. eapply IH; eauto.
        * rewrite (proj2 (mem_str_In name (fparams f)) Hpar). apply somes_In. eapply nth_error_In; eauto.
      + rewrite (proj2 (mem_str_In name (fparams f)) Hpar). apply somes_In. eapply nth_error_In; eauto.
  Qed.

  Theorem reduced_axis_rejected_decl d inputs a :
    In a (map fst d) -> axis_reduced p a = true -> exists e, validate_fixed (Some d) inputs p = Err e.
  Proof. intros Hin Hr. eapply reduced_axis_rejected; [exact Hin | now apply axis_reduced_in_reduced_axes]. Qed.

  (* bad_request_rejected, out of range on an axis of a supplied input array *)
  Theorem out_of_range_rejected_decl d inputs a name k sel arr n e :
    In (name, k) (carriers_of p a) -> dict_get d a = Some sel ->
    dict_get inputs name = Some (VA arr) -> nth_error (shp arr) k = Some n -> fsel_indices sel n = Err e ->
    exists e', validate_fixed (Some d) inputs p = Err e'.
  Proof.
    intros Hcar Hd Hi Hn He. pose proof (carrier_axes_get a name k Hcar) as Hax.
    unfold axes_get in Hax. destruct (dict_get (mapspec_axes (specs_of p)) name) as [axs|] eqn:Eg; [|destruct k; discriminate].
    eapply (out_of_range_rejected d inputs p name axs k a sel arr n e); eauto. now apply dict_get_In.
  Qed.

  (* a Rejected request (unknown axis, reduced axis, or out of range on an axis of a supplied input) is refused by
     _validate_fixed_indices, hence before any call *)
  Theorem rejected_status_rejected inputs (d : fixed) :
    NoDup (map fst d) -> NoDup (map fst inputs) ->
    request_status p inputs (init_shapes inputs) d = Rejected ->
    exists e, validate_fixed (Some d) inputs p = Err e.
  Proof.
    intros Hndd Hndi H. unfold request_status in H. cbv zeta in H.
    match type of H with (if existsb ?B d then _ else _) = _ => destruct (existsb B d) eqn:Eb end.
    2:{ destruct (existsb _ d) in H; discriminate H. }
    apply existsb_exists in Eb as [[a sel] [Hin Hb]]. cbn [fst snd] in Hb.
    assert (Ha : In a (map fst d)) by (apply in_map_iff; exists (a, sel); auto).
    apply orb_true_iff in Hb as [Hb|Hb]; [apply orb_true_iff in Hb as [Hb|Hb]|].
    - apply (unknown_axis_rejected d inputs p a Ha). now apply Bool.negb_true_iff.
    - now apply (reduced_axis_rejected_decl d inputs a Ha).
    - (* out of range *)
      apply existsb_exists in Hb as [[name k] [Hcar Hb]]. cbn [fst] in Hb.
      destruct (dict_get inputs name) as [v|] eqn:Ei; [|discriminate].
      destruct (dim_of (init_shapes inputs) (name, k)) as [n|] eqn:Ed; [|discriminate].
      destruct v as [x0|arr].
      { exfalso. unfold dim_of in Ed. cbn [fst snd] in Ed. rewrite (init_shapes_scalar inputs name x0 Hndi Ei) in Ed. discriminate. }
      unfold sel_in_range in Hb. apply Bool.negb_true_iff in Hb. destruct (fsel_indices sel n) as [l|e] eqn:Ef; [discriminate|].
      assert (Hn : nth_error (shp arr) k = Some n).
      { unfold dim_of in Ed. cbn [fst snd] in Ed.
        assert (G : forall ins0, dict_get ins0 name = Some (VA arr) -> (forall q w, dict_get ins0 q = Some w -> True) ->
                    dict_get (init_shapes ins0) name = Some (shp arr, repeat true (length (shp arr)))).
        { induction ins0 as [|[q w] ins0 IH]; cbn; intros Hg _; [discriminate|].
          destruct (str_eqb name q) eqn:Eq.
          - injection Hg as ->. cbn. now rewrite Eq.
          - destruct w as [x|a0]; cbn; [now apply IH|]. rewrite Eq. now apply IH. }
        rewrite (G inputs Ei (fun _ _ _ => I)) in Ed. exact Ed. }
      eapply (out_of_range_rejected_decl d inputs a name k sel arr n e); eauto.
      now apply dget_In_nodup.
  Qed.
End Decl.
