(* C14 - IEEE binary64 `<` (Coq's PrimFloat.ltb) is a strict order: irreflexive and transitive on ALL floats
   (with nan it is simply empty).  Proved on Coq's specification of floats (SpecFloat) and transported to the
   primitive floats by FloatAxioms.ltb_spec - the only axiom used besides the primitive operations themselves. *)
From Coq Require Import ZArith Lia Floats SpecFloat.

Lemma SFcompare_refl_not_Lt : forall x, SFcompare x x <> Some Lt.
Proof.
  intros [s|s| |s m e]; cbn; try discriminate.
  - destruct s; discriminate.
  - destruct s; rewrite Z.compare_refl; change (Pos.compare_cont Eq m m) with (Pos.compare m m);
      rewrite Pos.compare_refl; discriminate.
Qed.

Lemma SFltb_irrefl : forall x, SFltb x x = false.
Proof.
  intros x. unfold SFltb. pose proof (SFcompare_refl_not_Lt x) as H.
  destruct (SFcompare x x) as [[| |]|]; auto. congruence.
Qed.

Ltac cmp_cases :=
  repeat match goal with
         | H : context [Pos.compare_cont Eq ?a ?b] |- _ => change (Pos.compare_cont Eq a b) with (Pos.compare a b) in H
         | |- context [Pos.compare_cont Eq ?a ?b] => change (Pos.compare_cont Eq a b) with (Pos.compare a b)
         end;
  repeat match goal with
         | H : context [Z.compare ?a ?b] |- _ => destruct (Z.compare_spec a b); cbn in H; try discriminate
         | |- context [Z.compare ?a ?b] => destruct (Z.compare_spec a b); cbn
         | H : context [Pos.compare ?a ?b] |- _ => destruct (Pos.compare_spec a b); cbn in H; try discriminate
         | |- context [Pos.compare ?a ?b] => destruct (Pos.compare_spec a b); cbn
         end;
  subst; try reflexivity; try discriminate; try lia.

Lemma SFltb_trans : forall x y z, SFltb x y = true -> SFltb y z = true -> SFltb x z = true.
Proof.
  unfold SFltb.
  intros [sx|sx| |sx mx ex] [sy|sy| |sy my ey] [sz|sz| |sz mz ez]; cbn; intros H1 H2;
    try discriminate; try reflexivity;
    try (destruct sx; try discriminate; try reflexivity);
    try (destruct sy; try discriminate; try reflexivity);
    try (destruct sz; try discriminate; try reflexivity);
    cbn in *; try discriminate; try reflexivity; cmp_cases.
Qed.

Theorem ltb_irrefl : forall x : float, PrimFloat.ltb x x = false.
Proof. intros x. rewrite ltb_spec. apply SFltb_irrefl. Qed.

Theorem ltb_trans : forall x y z : float,
  PrimFloat.ltb x y = true -> PrimFloat.ltb y z = true -> PrimFloat.ltb x z = true.
Proof. intros x y z. rewrite !ltb_spec. apply SFltb_trans. Qed.
